(* C07 — the statements of Properties.v assembled from Frame.v (laws for every program, M and S),
   Refine.v (M = S inside the guard) and Contexts.v (exits through arbitrary nestings in S); the transfer
   of the context laws to M; non-vacuity examples; the refutations behind the known findings. *)
From C07 Require Import Model Spec Frame Refine Contexts Corr.

(* ---- laws for every program ---------------------------------------------------------------------- *)
Definition trace_law (st st' : state) : Prop :=
  exists d, trace st' = trace st ++ d /\ lifo [] d = true /\ (forall u, cnt_enter u d = cnt_cleanup u d).

Lemma ext_laws : forall st st', ext st st' -> trace_law st st' /\ locks st' = locks st /\ files st' = files st.
Proof.
  intros st st' (L & F & d & T & G). split; [| split; assumption].
  exists d. split; [exact T|]. split; [apply good_lifo; exact G | apply G].
Qed.

Theorem M_cleanups_and_resources : forall defs fuel sc tb f st r st',
  meval defs fuel sc tb f st = (r, st') -> r <> MHang -> r <> MOOF ->
  trace_law st st' /\ locks st' = locks st /\ files st' = files st.
Proof. intros. apply ext_laws. eapply meval_frame; eauto. split; assumption. Qed.

Theorem S_cleanups_and_resources : forall defs fuel bl tg f st o st',
  seval defs fuel bl tg f st = (o, st') -> o <> Hang -> o <> OOF ->
  trace_law st st' /\ locks st' = locks st /\ files st' = files st.
Proof. intros. apply ext_laws. eapply seval_frame; eauto. split; assumption. Qed.

(* unwind-protect in M, for every outcome r1 of the protected form (value, exit marker, panic): the cleanup
   forms are evaluated once, starting in the state the protected form left, nothing in between; the result
   is r1 unless a cleanup form itself exits (its marker is the result: repo_fixes/C07-20), panics or hangs *)
Theorem M_cleanup_whatever_outcome : forall defs n sc tb u p cs st r st',
  meval defs (S n) sc tb (UnwindProtect u p cs) st = (r, st') -> r <> MHang -> r <> MOOF ->
  exists r1 st1 r2,
    meval defs n sc tb p (log (EEnter u) st) = (r1, st1) /\
    m_seq (meval defs n sc tb) cs VNil (log (ECleanup u) st1) = (r2, st') /\
    r = match r2 with MVal v => if is_marker v then r2 else r1 | _ => r2 end.
Proof.
  intros defs n sc tb u p cs st r st' H NH NO. cbn [meval] in H.
  destruct (meval defs n sc tb p (log (EEnter u) st)) as [r1 st1] eqn:E.
  destruct r1.
  - destruct (m_seq (meval defs n sc tb) cs VNil (log (ECleanup u) st1)) as [r2 st2] eqn:E2.
    exists (MVal v), st1, r2. destruct r2; [destruct (is_marker v0) | | |]; inversion H; subst; repeat split; first [reflexivity | assumption].
  - destruct (m_seq (meval defs n sc tb) cs VNil (log (ECleanup u) st1)) as [r2 st2] eqn:E2.
    exists (MErr c), st1, r2. destruct r2; [destruct (is_marker v) | | |]; inversion H; subst; repeat split; first [reflexivity | assumption].
  - inversion H; congruence.
  - inversion H; congruence.
Qed.

(* ---- the context laws hold for the Go code's model wherever the guard admits the program ------------ *)
Lemma norm_res_int : forall r z, norm_res r = MVal (VInt z) -> r = MVal (VInt z).
Proof. intros r z H. destruct r; cbn in H; try discriminate. destruct v; cbn in H; try discriminate; congruence. Qed.

Theorem M_return_reaches_block : forall defs E t v pre post st fuel,
  guard (defs, Block t (trs pre ++ plug E (ReturnFrom t (Const (LInt v))) :: post)) = true ->
  transp E (Ret t (VInt v)) = true -> enterable E (logtrs pre st) ->
  mrun (S (length E + S (S fuel))) (defs, Block t (trs pre ++ plug E (ReturnFrom t (Const (LInt v))) :: post)) st
  = (MVal (VInt v), leave E (enter E (logtrs pre st))).
Proof.
  intros defs E t v pre post st fuel Gp T EN.
  pose proof (return_reaches_block defs E t v pre post [] [] st fuel T EN) as HS.
  destruct (impl_eq_ref _ _ _ _ _ Gp HS) as (r & EM & RL & _); [discriminate|].
  rewrite EM. apply norm_res_int in RL. subst. reflexivity.
Qed.

Theorem M_error_class_preserved : forall defs E c st fuel,
  guard (defs, plug E (Signal c)) = true -> transp E (Err c) = true -> enterable E st ->
  mrun (length E + S fuel) (defs, plug E (Signal c)) st = (MErr c, leave E (enter E st)).
Proof.
  intros defs E c st fuel Gp T EN.
  pose proof (error_class_preserved defs E c [] [] st fuel T EN) as HS.
  destruct (impl_eq_ref _ _ _ _ _ Gp HS) as (r & EM & RL & _); [discriminate|].
  rewrite EM. destruct r; cbn in RL; try discriminate. congruence.
Qed.

(* go reaches its tag in the model of the Go code: whatever the reference does with the statements after
   the tag, the model does the same *)
Theorem M_go_reaches_tag : forall defs E t pre mid rest st fuel o st',
  let items := tri pre ++ IForm (plug E (Go t)) :: mid ++ ITag t :: rest in
  guard (defs, Tagbody items) = true ->
  transp E (Goto t) = true -> enterable E (logtrs pre st) -> memN t (tags_of mid) = false ->
  s_tagbody (seval defs (length E + S fuel) [] (tags_of items ++ [])) items (length E + fuel) rest
            (leave E (enter E (logtrs pre st))) = (o, st') -> o <> OOF ->
  exists r, mrun (S (length E + S fuel)) (defs, Tagbody items) st = (r, st') /\ norm_res r = to_mres o.
Proof.
  intros defs E t pre mid rest st fuel o st' items Gp T EN NM HR NO.
  pose proof (go_reaches_tag defs E t pre mid rest [] [] st fuel T EN NM) as HS. cbv zeta in HS.
  fold items in HS. rewrite HR in HS.
  destruct (impl_eq_ref _ _ _ _ _ Gp HS NO) as (r & EM & RL & _). exists r. auto.
Qed.

(* ---- the guard is closed under contexts: any nesting of the 16 frame kinds ---------------------------- *)
(* the forms of a frame next to the hole are lexically scoped *)
Definition side_ok1 (F : frame) (R G : list N) : bool :=
  match F with
  | FProgn _ post | FWhen _ post | FLet _ post | FArg _ post | FIgnore _ post | FMutex _ _ post | FFile _ _ post
  | FLam _ post | FUnless _ post => g_all gd R G post
  | FIf b => gd R G b
  | FBlock t _ post => g_all gd (t :: R) G post
  | FUnwind _ _ => true
  | FRecover h _ post => gd R G h && g_all gd R G post
  | FTagbody _ post => g_items gd R (tags_of post ++ G) post
  | FLoop _ _ _ post res => g_items gd (0%N :: R) (tags_of post ++ G) post && gd (0%N :: R) G res
  | FDo _ _ post res => g_items gd (0%N :: R) (tags_of post ++ G) post && g_all gd (0%N :: R) G res
  end.
Fixpoint side_ok (E : list frame) (R G : list N) : bool :=
  match E with [] => true | F :: E' => side_ok1 F R G && side_ok E' (bl1 F R) (tg1 F G) end.

Lemma g_all_app : forall R G a b, g_all gd R G (a ++ b) = g_all gd R G a && g_all gd R G b.
Proof. induction a as [|f a IH]; intros; cbn; [reflexivity | rewrite IH, andb_assoc; reflexivity]. Qed.
Lemma g_all_trs : forall R G ks, g_all gd R G (trs ks) = true.
Proof. induction ks; cbn; auto. Qed.
Lemma g_all_hole : forall R G pre x post, gd R G x = true -> g_all gd R G post = true ->
  g_all gd R G (trs pre ++ x :: post) = true.
Proof. intros. rewrite g_all_app, g_all_trs. cbn. rewrite H, H0. reflexivity. Qed.
Lemma g_items_hole : forall R G pre x post, compound x = true -> gd R G x = true -> g_items gd R G post = true ->
  g_items gd R G (tri pre ++ IForm x :: post) = true.
Proof.
  induction pre as [|k pre IH]; intros x post C H H0; cbn [tri map app g_items].
  - rewrite C, H, H0. reflexivity.
  - cbn. apply IH; assumption.
Qed.

Lemma gd_plug1 : forall F R G x, side_ok1 F R G = true -> compound x = true ->
  gd (bl1 F R) (tg1 F G) x = true -> gd R G (plug1 F x) = true.
Proof.
  intros F R G x S C H. destruct F; cbn [plug1 gd side_ok1 bl1 tg1] in *;
    try solve [apply g_all_hole; assumption].
  - (* unwind-protect *) rewrite H, g_all_trs. reflexivity.
  - (* recover *) apply andb_true_iff in S. destruct S as [S1 S2]. rewrite S1. cbn. apply g_all_hole; assumption.
  - (* tagbody *) rewrite tags_tri. cbn [tags_of]. apply g_items_hole; assumption.
  - (* dolist / dotimes *) apply andb_true_iff in S. destruct S as [S1 S2]. rewrite tags_tri. cbn [tags_of].
    rewrite S2, andb_true_r. apply g_items_hole; assumption.
  - (* do *) apply andb_true_iff in S. destruct S as [S1 S2]. rewrite tags_tri. cbn [tags_of].
    rewrite S2, andb_true_r. apply g_items_hole; assumption.
  - (* if *) rewrite H, S. reflexivity.
Qed.

Lemma compound_plug1 : forall F x, compound (plug1 F x) = true.
Proof. destruct F; reflexivity. Qed.
Lemma compound_plug : forall E x, compound x = true -> compound (plug E x) = true.
Proof. destruct E; intros; cbn; [assumption | apply compound_plug1]. Qed.

Theorem gd_plug : forall E R G x, side_ok E R G = true -> compound x = true ->
  gd (bl_in E R) (tg_in E G) x = true -> gd R G (plug E x) = true.
Proof.
  induction E as [|F E IH]; intros R G x S C H; cbn in *; [exact H|].
  apply andb_true_iff in S. destruct S as [S1 S2].
  apply gd_plug1; [exact S1 | apply compound_plug; exact C |]. apply IH; assumption.
Qed.

(* return-from through ANY context: no hypothesis on the frames crossed beyond lexical scoping of the
   forms standing next to the hole *)
Theorem M_return_through_any_context : forall defs E t v pre post st fuel,
  gd_defs 0 defs = true -> side_ok E [t] [] = true -> g_all gd [t] [] post = true ->
  transp E (Ret t (VInt v)) = true -> enterable E (logtrs pre st) ->
  mrun (S (length E + S (S fuel))) (defs, Block t (trs pre ++ plug E (ReturnFrom t (Const (LInt v))) :: post)) st
  = (MVal (VInt v), leave E (enter E (logtrs pre st))).
Proof.
  intros defs E t v pre post st fuel GD SO GP T EN. apply M_return_reaches_block; try assumption.
  unfold guard. cbn [fst snd gd]. rewrite GD, andb_true_r.
  apply g_all_hole; [| exact GP].
  apply gd_plug; [exact SO | reflexivity |]. cbn [gd]. rewrite andb_true_r.
  apply bl_in_mem. cbn. rewrite N.eqb_refl. reflexivity.
Qed.

Theorem M_error_through_any_context : forall defs E c st fuel,
  gd_defs 0 defs = true -> side_ok E [] [] = true -> transp E (Err c) = true -> enterable E st ->
  mrun (length E + S fuel) (defs, plug E (Signal c)) st = (MErr c, leave E (enter E st)).
Proof.
  intros defs E c st fuel GD SO T EN. apply M_error_class_preserved; try assumption.
  unfold guard. cbn [fst snd]. rewrite GD, andb_true_r. apply gd_plug; [exact SO | reflexivity | reflexivity].
Qed.

(* go through any context to a later tag of the tagbody: the statements between go and tag are skipped,
   the trace markers after the tag run, the tagbody yields nil *)
Lemma tags_tri_nil : forall ks, tags_of (tri ks) = [].
Proof. induction ks; cbn; auto. Qed.

Lemma s_pass_tri : forall ev own ks st,
  (forall k st, ev (Tr k) st = (Normal (VInt (Z.of_N k)), log (ETr k (locks st) (files st)) st)) ->
  s_pass ev own (tri ks) st = (SDone, logtrs ks st).
Proof.
  intros ev own ks st TR. revert st. induction ks as [|k ks IH]; intro st; cbn [tri map s_pass logtrs]; [reflexivity|].
  rewrite TR. apply IH.
Qed.

(* a value a tagbody returns early is a marker (it never returns the two-valued object of ignore-errors) *)
Lemma m_pass_out_marker : forall ev own items st v st',
  m_pass ev onret_pass own items st = (MOut (MVal v), st') -> is_marker v = true.
Proof.
  induction items as [|[t|f] items IH]; intros st v st' H; cbn in H; [discriminate | eauto |].
  destruct (ev f st) as [o st1]. destruct o; try discriminate.
  destruct v0; try solve [eapply IH; eauto].
  - inversion H; subst. reflexivity.
  - destruct (memN t own); inversion H; subst. reflexivity.
Qed.
Lemma m_tagbody_some_marker : forall ev all k items st v st',
  m_tagbody ev onret_pass all k items st = (Some (MVal v), st') -> is_marker v = true.
Proof.
  induction k as [|k IH]; intros items st v st' H; cbn in H;
    destruct (m_pass ev onret_pass (tags_of all) items st) as [y st1] eqn:E; destruct y; try discriminate.
  - inversion H; subst. eapply m_pass_out_marker; eauto.
  - inversion H; subst. eapply m_pass_out_marker; eauto.
  - eapply IH; eauto.
Qed.

Theorem M_go_through_any_context : forall defs E t pre mid post st fuel,
  let items := tri pre ++ IForm (plug E (Go t)) :: mid ++ ITag t :: tri post in
  gd_defs 0 defs = true -> side_ok E [] (tags_of mid ++ [t]) = true ->
  g_items gd [] (tags_of mid ++ [t]) mid = true ->
  transp E (Goto t) = true -> enterable E (logtrs pre st) -> memN t (tags_of mid) = false ->
  mrun (S (length E + S fuel)) (defs, Tagbody items) st
  = (MVal VNil, logtrs post (leave E (enter E (logtrs pre st)))).
Proof.
  intros defs E t pre mid post st fuel items GD SO GM T EN NM.
  assert (TG : tags_of items = tags_of mid ++ [t]).
  { unfold items. rewrite tags_tri. cbn [tags_of]. rewrite tags_of_app_c. cbn [tags_of]. rewrite tags_tri_nil. reflexivity. }
  assert (Gp : guard (defs, Tagbody items) = true).
  { unfold guard. cbn [fst snd gd]. rewrite GD, andb_true_r. rewrite TG, app_nil_r.
    unfold items. apply g_items_hole; [apply compound_plug; reflexivity | |].
    - apply gd_plug; [exact SO | reflexivity |]. cbn [gd]. apply tg_in_mem. apply memN_app_r. cbn. rewrite N.eqb_refl. reflexivity.
    - clear -GM. revert GM. generalize (tags_of mid ++ [t]) as G0. intros G0 GM.
      induction mid as [|[t'|f] mid IH]; cbn [app g_items] in *.
      + clear. induction post; cbn; auto.
      + apply IH. exact GM.
      + apply andb_true_iff in GM. destruct GM as [G1 G2]. rewrite G1. cbn. apply IH. exact G2. }
  assert (HR : s_tagbody (seval defs (length E + S fuel) [] (tags_of items ++ [])) items (length E + fuel) (tri post)
                 (leave E (enter E (logtrs pre st))) = (Normal VNil, logtrs post (leave E (enter E (logtrs pre st))))).
  { assert (TR : forall k s, seval defs (length E + S fuel) [] (tags_of items ++ []) (Tr k) s =
                             (Normal (VInt (Z.of_N k)), log (ETr k (locks s) (files s)) s)).
    { rewrite Nat.add_succ_r. reflexivity. }
    destruct (length E + fuel); cbn [s_tagbody]; rewrite (s_pass_tri _ _ post _ TR); reflexivity. }
  destruct (M_go_reaches_tag defs E t pre mid (tri post) st fuel _ _ Gp T EN NM HR) as (r & EM & RL); [discriminate|].
  fold items in EM. rewrite EM. destruct r; cbn in RL; try discriminate.
  destruct v; cbn in RL; try discriminate; [reflexivity|].
  exfalso. unfold mrun in EM. cbn [fst snd meval] in EM.
  match type of EM with context [m_tagbody ?a ?b ?c ?d ?e ?f] =>
    destruct (m_tagbody a b c d e f) as [[r|] st1] eqn:EB end; [| discriminate EM].
  inversion EM; subst. apply m_tagbody_some_marker in EB. discriminate EB.
Qed.

(* ---- functions with a closure ------------------------------------------------------------------------ *)
(* scope.go InBlock as Lambda.Call sets it up for a function with a closure: the call scope itself (the block
   named like the function), then the defining context, then the callers - all three are searched *)
Lemma in_block_app : forall a b t, in_block (a ++ b) t = in_block a t || in_block b t.
Proof. intros. unfold in_block. apply existsb_app. Qed.
Theorem in_block_call_scope : forall f dc sc t,
  in_block ((true, f) :: dc ++ sc) t = N.eqb f t || in_block dc t || in_block sc t.
Proof. intros. unfold in_block at 1. cbn [existsb fst snd andb]. fold (in_block (dc ++ sc) t). rewrite in_block_app, orb_assoc. reflexivity. Qed.

(* a return-from with the function's own name leaves the function from any depth, with the cleanups on its
   way, whatever the context the defun was written in (reference; model of the Go code) *)
Theorem S_return_from_function : forall (defs : list def) i dc E v pre post bl tg st fuel,
  nth_error defs i = Some (dc, trs pre ++ plug E (ReturnFrom (fn_tag i) (Const (LInt v))) :: post) ->
  transp E (Ret (fn_tag i) (VInt v)) = true -> enterable E (logtrs pre st) ->
  seval defs (S (length E + S (S fuel))) bl tg (CallU i) st = (Normal (VInt v), leave E (enter E (logtrs pre st))).
Proof.
  intros defs i dc E v pre post bl tg st fuel NE T EN. cbn [seval]. rewrite NE.
  assert (TR : forall k s, seval defs (length E + S (S fuel)) [fn_tag i] [] (Tr k) s =
                           (Normal (VInt (Z.of_N k)), log (ETr k (locks s) (files s)) s)).
  { rewrite Nat.add_succ_r. reflexivity. }
  rewrite (s_seq_trs _ TR pre _ post VNil st (Ret (fn_tag i) (VInt v)) (leave E (enter E (logtrs pre st))) I).
  - cbn [catch]. rewrite N.eqb_refl. reflexivity.
  - apply exit_through_context; [exact I | exact T | exact EN |].
    cbn [seval]. rewrite bl_in_mem; [reflexivity|]. cbn. rewrite N.eqb_refl. reflexivity.
Qed.

Theorem M_return_from_function_any_closure : forall (defs : list def) i dc E v pre post st fuel,
  gd_defs 0 defs = true ->
  nth_error defs i = Some (dc, trs pre ++ plug E (ReturnFrom (fn_tag i) (Const (LInt v))) :: post) ->
  transp E (Ret (fn_tag i) (VInt v)) = true -> enterable E (logtrs pre st) ->
  mrun (S (length E + S (S fuel))) (defs, CallU i) st = (MVal (VInt v), leave E (enter E (logtrs pre st))).
Proof.
  intros defs i dc E v pre post st fuel GD NE T EN.
  pose proof (S_return_from_function defs i dc E v pre post [] [] st fuel NE T EN) as HS.
  assert (Gp : guard (defs, CallU i) = true) by (unfold guard; cbn; exact GD).
  destruct (impl_eq_ref (defs, CallU i) _ _ _ _ Gp HS) as (r & EM & RL & _); [discriminate|].
  rewrite EM. apply norm_res_int in RL. subst. reflexivity.
Qed.

(* ---- non-vacuity ---------------------------------------------------------------------------------- *)
Definition st0 : state := init_state [0%Z; 0%Z].

(* a program inside the guard: five levels (block, let, unwind-protect, with-mutex-lock, dotimes,
   unwind-protect, with-open-file, when), a user function with its own unwind-protect and (return), and a
   return-from that crosses all of it from the FIRST position of a when body, after which forms follow *)
Definition ex_prog : prog :=
  ([([(false, 0%N)], [Block 0%N [UnwindProtect 9%N (Return (Const (LInt 5))) [Tr 90%N]; Tr 91%N]])],
   Block 1%N [Let [Tr 1%N]
                [UnwindProtect 1%N
                   (WithMutex 0%N [Tr 2%N;
                      Loop KDotimes 2 [IForm (Tr 3%N);
                                       IForm (UnwindProtect 2%N
                                                (WithFile 1%N [When (Const LT) [CallU 0; ReturnFrom 1%N (Tr 4%N); Tr 8%N]; Tr 9%N])
                                                [Tr 5%N])] (Const LNil)])
                   [Tr 6%N]];
              Tr 7%N]).
Example ex_prog_in_guard :
  guard ex_prog = true /\
  fst (mrun 60 ex_prog st0) = MVal (VInt 4) /\ fst (srun 60 ex_prog st0) = Normal (VInt 4) /\
  trace (snd (mrun 60 ex_prog st0)) =
    [ETr 1 0 0; EEnter 1; ETr 2 1 0; ETr 3 1 0; EEnter 2; EEnter 9; ECleanup 9; ETr 90 1 8; ETr 4 1 8;
     ECleanup 2; ETr 5 1 0; ECleanup 1; ETr 6 0 0]%N.
Proof. vm_compute. repeat split; reflexivity. Qed.

(* a context made of all sixteen frame kinds, the hole in a non-last position of each body, in an
   argument position, in a tagbody statement and in two loop bodies: it satisfies the hypotheses of
   exit_through_context / M_return_through_any_context for a return, a go and an error, and the final state
   shows the order: cleanup of the inner unwind-protect (file still open, mutex held), file closed, mutex
   released, cleanup of the outer one *)
Definition E_ex : list frame :=
  [FUnwind 1%N [10%N]; FMutex 0%N [11%N] [Tr 97%N]; FBlock 2%N [12%N] [Tr 99%N]; FLoop KDotimes 1 [13%N] [] (Const LNil);
   FFile 1%N [] [Tr 96%N]; FUnwind 2%N [20%N]; FTagbody [14%N] [ITag 3%N]; FLam [] [Tr 95%N]; FLet [] [Tr 98%N];
   FProgn [] [Tr 94%N]; FWhen [] [Tr 93%N]; FArg [15%N] [Tr 92%N]; FIgnore [] [Tr 91%N]; FRecover (Tr 90%N) [] [Tr 89%N];
   FDo 1 [] [] [Tr 88%N]; FUnless [] [Tr 87%N]; FIf (Tr 86%N)].
Example E_ex_ok :
  transp E_ex (Ret 1%N (VInt 5)) = true /\ transp E_ex (Goto 7%N) = true /\ transp E_ex (Err CDivZero) = false /\
  transp (firstn 12 E_ex) (Err CDivZero) = true /\
  side_ok E_ex [1%N] [] = true /\ side_ok E_ex [] [7%N] = true /\
  enterable E_ex st0 /\
  trace (leave E_ex (enter E_ex st0)) =
    [EEnter 1; ETr 11 1 0; ETr 12 1 0; ETr 13 1 0; EEnter 2; ETr 14 1 8; ETr 15 1 8; ECleanup 2; ETr 20 1 8; ECleanup 1; ETr 10 0 0]%N.
Proof. vm_compute. repeat split; reflexivity. Qed.

(* ---- the witnesses of the repaired findings: now inside the guard, M = S = what the language demands -- *)
Definition KI (z : Z) : form := Const (LInt z).
Definition run_m (p : prog) (vs : list Z) := let '(r, st) := mrun 60 p (init_state vs) in (r, visible (trace st), vars st).
Definition run_s (p : prog) (vs : list Z) := let '(o, st) := srun 60 p (init_state vs) in (o, visible (trace st), vars st).

(* a function defined inside (let ((c 1)) (block nil (let ((c 2)) (defun f0 () ...)))) that leaves itself by name
   from inside when / unwind-protect / dolist / a funcall'ed lambda: inside the guard, value and trace *)
Definition ex_closure_fn : prog :=
  ([([(false, 0%N); (true, 0%N); (false, 0%N)],
     [Tr 1%N;
      UnwindProtect 1%N
        (Loop KDolist 2 [IForm (Lam [When (Const LT) [ReturnFrom (fn_tag 0) (Tr 2%N); Tr 3%N]]); IForm (Tr 4%N)] (Const LNil))
        [Tr 5%N];
      Tr 6%N])],
   CallList [CallU 0; Tr 7%N]).
Example ex_closure_fn_ok :
  guard ex_closure_fn = true /\
  run_m ex_closure_fn [0%Z] = (MVal (VList [VInt 2; VInt 7]), [(1, 0, 0); (2, 0, 0); (5, 0, 0); (7, 0, 0)]%N, [0%Z]) /\
  run_s ex_closure_fn [0%Z] = (Normal (VList [VInt 2; VInt 7]), [(1, 0, 0); (2, 0, 0); (5, 0, 0); (7, 0, 0)]%N, [0%Z]).
Proof. vm_compute. repeat split; reflexivity. Qed.

(* (block b (when t (return-from b 1) (tr 7)) 2) and the same through cond, progn, ignore-errors, recover,
   with-mutex-lock, with-open-file *)
Definition w_body (wrap : list form -> form) : prog :=
  ([], Block 1%N [wrap [ReturnFrom 1%N (KI 1); Tr 7%N]; KI 2]).
Definition body_wrappers : list (list form -> form) :=
  [When (Const LT); (fun b => Cond [(Const LT, b)]); Progn; IgnoreErrors; Recover (Const LNil);
   WithMutex 0%N; WithFile 0%N].
Definition w_arg : prog := ([], Block 1%N [CallList [KI 1; ReturnFrom 1%N (KI 5); KI 3]]).
Definition w_letinit : prog := ([], Block 1%N [Let [ReturnFrom 1%N (KI 1)] [KI 5]; KI 3]).
Definition w_test : prog := ([], Block 1%N [When (ReturnFrom 1%N (KI 1)) [KI 4]; KI 2]).
Definition w_tagbody_ret : prog := ([], Block 1%N [Tagbody [IForm (ReturnFrom 1%N (KI 1))]; KI 2]).
Definition w_symtag : prog := ([], Tagbody [ITag 50%N; IForm (Incf 0); IForm (When (Lt 0 3) [Go 50%N])]).
Definition w_backward : prog := ([], Tagbody [ITag 1%N; IForm (Incf 0); IForm (When (Lt 0 3) [Go 1%N])]).
Definition w_outer_go : prog := ([], Tagbody [IForm (Tagbody [IForm (Go 9%N)]); IForm (Incf 0); ITag 9%N]).
Definition w_loop_go : prog := ([], Tagbody [IForm (Loop KDolist 2 [IForm (Go 5%N)] (Const LNil)); IForm (Incf 0); ITag 5%N]).
Definition w_loop_res : prog := ([], Block 0%N [Loop KDotimes 3 [IForm (Tr 1%N)] (Return (KI 8)); KI 5]).
Definition w_do : prog := ([], Block 1%N [Let [] [Do 3 [IForm (ReturnFrom 1%N (KI 1))] [KI 7]]; KI 9]).
Definition w_do_res : prog := ([], Block 1%N [Do 1 [] [ReturnFrom 1%N (KI 1); KI 9]; KI 2]).
Definition w_lam_go : prog := ([], Tagbody [IForm (Lam [Go 5%N; KI 1]); IForm (Incf 0); ITag 5%N]).
Definition w_block_go : prog := ([], Tagbody [IForm (Block 1%N [Go 5%N; KI 1]); IForm (Incf 0); ITag 5%N]).
Definition w_cleanup : prog := ([], Block 1%N [UnwindProtect 1%N (KI 1) [ReturnFrom 1%N (KI 2)]; KI 3]).
Definition w_cleanup_err : prog := ([], Block 1%N [UnwindProtect 1%N (Signal CError) [ReturnFrom 1%N (KI 2)]]).
Definition w_mv : prog := ([], When (IgnoreErrors [Signal CError]) [KI 1]).
Definition w_nested : prog := ([], Block 1%N [Block 2%N [ReturnFrom 1%N (ReturnFrom 2%N (KI 1)); KI 2]; KI 3]).
Definition w_cond_nobody : prog := ([], Cond [(KI 5, [])]).

Definition repaired : list prog :=
  map w_body body_wrappers ++
  [w_arg; w_letinit; w_test; w_tagbody_ret; w_symtag; w_backward; w_outer_go; w_loop_go; w_loop_res; w_do; w_do_res;
   w_lam_go; w_block_go; w_cleanup; w_cleanup_err; w_mv; w_nested; w_cond_nobody].
Theorem repaired_witnesses_agree :
  forallb guard repaired = true /\
  map (fun p => run_m p [0%Z]) repaired =
    repeat (MVal (VInt 1), [], [0%Z]) 7 ++
    [(MVal (VInt 5), [], [0%Z]); (MVal (VInt 1), [], [0%Z]); (MVal (VInt 1), [], [0%Z]); (MVal (VInt 1), [], [0%Z]);
     (MVal VNil, [], [3%Z]); (MVal VNil, [], [3%Z]); (MVal VNil, [], [0%Z]); (MVal VNil, [], [0%Z]);
     (MVal (VInt 5), [(1, 0, 0); (1, 0, 0); (1, 0, 0)]%N, [0%Z]); (MVal (VInt 1), [], [0%Z]); (MVal (VInt 1), [], [0%Z]);
     (MVal VNil, [], [0%Z]); (MVal VNil, [], [0%Z]); (MVal (VInt 2), [], [0%Z]); (MVal (VInt 2), [], [0%Z]);
     (MVal VNil, [], [0%Z]); (MVal (VInt 3), [], [0%Z]); (MVal (VInt 5), [], [0%Z])] /\
  map (fun p => let '(r, tr, vs) := run_m p [0%Z] in (norm_res r, tr, vs)) repaired =
  map (fun p => let '(o, tr, vs) := run_s p [0%Z] in (to_mres o, tr, vs)) repaired.
Proof. vm_compute. repeat split; reflexivity. Qed.

(* ---- refutations: where the transcription of the Go code still departs from the reference ------------- *)
(* each witness: outside the guard; M's outcome (what slip does, confirmed on every run by the replay of
   the known finding) against S's *)
(* (defun g () (return-from zz 3)) (block zz (g) 5): InBlock walks the callers' scopes: not lexical *)
Definition w_dyn : prog := ([([], [ReturnFrom 7%N (KI 3)])], Block 7%N [CallU 0; KI 5]).
(* (defun g () (go 5)) (tagbody (g) (setq v0 (+ v0 1)) 5): the TagBody flag is inherited by the scope of the
   call, the marker travels up to the caller's tagbody *)
Definition w_dyn_go : prog := ([([], [Go 5%N])], Tagbody [IForm (CallU 0); IForm (Incf 0); ITag 5%N]).
(* (tagbody (go 45)): go only checks the flag, not the tag; the marker leaves the tagbody as its value *)
Definition w_go_unknown : prog := ([], Tagbody [IForm (Go 45%N)]).
(* (block b7 (defun g () (return-from b7 1) 2)) (list (g)): the block the defun was written in is on the closure
   chain of every later call although it has exited; nothing catches the marker *)
Definition w_exited : prog := ([([(true, 7%N)], [ReturnFrom 7%N (KI 1); KI 2])], CallList [CallU 0]).
Theorem dynamic_lookup_refuted :
  guard w_dyn = false /\ guard w_dyn_go = false /\ guard w_go_unknown = false /\ guard w_exited = false /\
  fst (mrun 60 w_exited st0) = MVal (VRetM 7%N (VInt 1)) /\ fst (srun 60 w_exited st0) = Err CControl /\
  fst (mrun 60 w_dyn st0) = MVal (VInt 3) /\ fst (srun 60 w_dyn st0) = Err CControl /\
  run_m w_dyn_go [0%Z] = (MVal VNil, [], [0%Z]) /\ run_s w_dyn_go [0%Z] = (Err CControl, [], [0%Z]) /\
  fst (mrun 60 w_go_unknown st0) = MVal (VGoM 45%N) /\ fst (srun 60 w_go_unknown st0) = Err CControl.
Proof. vm_compute. repeat split; reflexivity. Qed.
