(* C07 — the statements of Properties.v assembled from Frame.v (laws for every program, M and S),
   Refine.v (M = S inside the guard) and Contexts.v (exits through arbitrary nestings in S); the transfer
   of the context laws to M; non-vacuity examples; the refutations behind the known findings. *)
From C07 Require Import Model Spec Frame Refine Contexts Corr.

(* ---- laws for every program ---------------------------------------------------------------------- *)
Definition trace_law (st st' : state) : Prop :=
  exists d, trace st' = trace st ++ d /\ lifo [] d = true /\ (forall u, cnt_enter u d = cnt_cleanup u d).

Lemma ext_laws : forall st st', ext st st' -> trace_law st st' /\ locks st' = locks st /\ files st' = files st.
Proof.
  intros st st' (L & F & d & T & G). split; [| split; assumption].
  exists d. split; [exact T|]. split; [apply good_lifo; exact G | apply G].
Qed.

Theorem M_cleanups_and_resources : forall defs fuel sc tb f st r st',
  meval defs fuel sc tb f st = (r, st') -> r <> MHang -> r <> MOOF ->
  trace_law st st' /\ locks st' = locks st /\ files st' = files st.
Proof. intros. apply ext_laws. eapply meval_frame; eauto. split; assumption. Qed.

Theorem S_cleanups_and_resources : forall defs fuel bl tg f st o st',
  seval defs fuel bl tg f st = (o, st') -> o <> Hang -> o <> OOF ->
  trace_law st st' /\ locks st' = locks st /\ files st' = files st.
Proof. intros. apply ext_laws. eapply seval_frame; eauto. split; assumption. Qed.

(* unwind-protect in M, for every outcome r1 of the protected form (value, exit marker, panic): the cleanup
   forms are evaluated once, starting in the state the protected form left, nothing in between; the result
   is r1 unless the cleanup itself panics / hangs *)
Theorem M_cleanup_whatever_outcome : forall defs n sc tb u p cs st r st',
  meval defs (S n) sc tb (UnwindProtect u p cs) st = (r, st') -> r <> MHang -> r <> MOOF ->
  exists r1 st1 r2,
    meval defs n sc tb p (log (EEnter u) st) = (r1, st1) /\
    m_seq (meval defs n sc tb) never cs VNil (log (ECleanup u) st1) = (r2, st') /\
    r = match r2 with MVal _ => r1 | _ => r2 end.
Proof.
  intros defs n sc tb u p cs st r st' H NH NO. cbn [meval] in H.
  destruct (meval defs n sc tb p (log (EEnter u) st)) as [r1 st1] eqn:E.
  destruct r1.
  - destruct (m_seq (meval defs n sc tb) never cs VNil (log (ECleanup u) st1)) as [r2 st2] eqn:E2.
    exists (MVal v), st1, r2. destruct r2; inversion H; subst; repeat split; first [reflexivity | assumption].
  - destruct (m_seq (meval defs n sc tb) never cs VNil (log (ECleanup u) st1)) as [r2 st2] eqn:E2.
    exists (MErr c), st1, r2. destruct r2; inversion H; subst; repeat split; first [reflexivity | assumption].
  - inversion H; congruence.
  - inversion H; congruence.
Qed.

(* ---- the context laws hold for the Go code's model wherever the guard admits the program ------------ *)
Lemma norm_res_int : forall r z, norm_res r = MVal (VInt z) -> r = MVal (VInt z).
Proof. intros r z H. destruct r; cbn in H; try discriminate. destruct v; cbn in H; try discriminate; congruence. Qed.

Theorem M_return_reaches_block : forall defs E t v pre post st fuel,
  guard (defs, Block t (trs pre ++ plug E (ReturnFrom t (Const (LInt v))) :: post)) = true ->
  transp E (Ret t (VInt v)) = true -> enterable E (logtrs pre st) ->
  mrun (S (length E + S (S fuel))) (defs, Block t (trs pre ++ plug E (ReturnFrom t (Const (LInt v))) :: post)) st
  = (MVal (VInt v), leave E (enter E (logtrs pre st))).
Proof.
  intros defs E t v pre post st fuel Gp T EN.
  pose proof (return_reaches_block defs E t v pre post [] [] st fuel T EN) as HS.
  destruct (impl_eq_ref _ _ _ _ _ Gp HS) as (r & EM & RL & _); [discriminate|].
  rewrite EM. apply norm_res_int in RL. subst. reflexivity.
Qed.

Theorem M_error_class_preserved : forall defs E c st fuel,
  guard (defs, plug E (Signal c)) = true -> transp E (Err c) = true -> enterable E st ->
  mrun (length E + S fuel) (defs, plug E (Signal c)) st = (MErr c, leave E (enter E st)).
Proof.
  intros defs E c st fuel Gp T EN.
  pose proof (error_class_preserved defs E c [] [] st fuel T EN) as HS.
  destruct (impl_eq_ref _ _ _ _ _ Gp HS) as (r & EM & RL & _); [discriminate|].
  rewrite EM. destruct r; cbn in RL; try discriminate. congruence.
Qed.

(* ---- non-vacuity ---------------------------------------------------------------------------------- *)
Definition st0 : state := init_state [0%Z; 0%Z].

(* a program inside the guard: five levels (block, let, unwind-protect, with-mutex-lock, dotimes,
   unwind-protect, with-open-file, when), a user function with its own unwind-protect and (return), and a
   return-from that crosses all of it *)
Definition ex_prog : prog :=
  ([[Block 0%N [UnwindProtect 9%N (Return (Const (LInt 5))) [Tr 90%N]; Tr 91%N]]],
   Block 1%N [Let [Tr 1%N]
                [UnwindProtect 1%N
                   (WithMutex 0%N [Tr 2%N;
                      Loop KDotimes 2 [IForm (Tr 3%N);
                                       IForm (UnwindProtect 2%N
                                                (WithFile 1%N [When (Const LT) [CallU 0; ReturnFrom 1%N (Tr 4%N)]])
                                                [Tr 5%N])] (Const LNil)])
                   [Tr 6%N]];
              Tr 7%N]).
Example ex_prog_in_guard :
  guard ex_prog = true /\
  fst (mrun 60 ex_prog st0) = MVal (VInt 4) /\ fst (srun 60 ex_prog st0) = Normal (VInt 4) /\
  trace (snd (mrun 60 ex_prog st0)) =
    [ETr 1 0 0; EEnter 1; ETr 2 1 0; ETr 3 1 0; EEnter 2; EEnter 9; ECleanup 9; ETr 90 1 8; ETr 4 1 8;
     ECleanup 2; ETr 5 1 0; ECleanup 1; ETr 6 0 0]%N.
Proof. vm_compute. repeat split; reflexivity. Qed.

(* a context of nine frames a (return-from b1 ..) may cross: hypotheses of exit_through_context /
   return_reaches_block are satisfiable, and the final state shows the order: cleanup of the inner
   unwind-protect (file still open, mutex held), file closed, mutex released, cleanup of the outer one *)
Definition E_ex : list frame :=
  [FUnwind 1%N [10%N]; FMutex 0%N [11%N] []; FBlock 2%N [12%N] [Tr 99%N]; FLoop KDotimes 1 [13%N] [] (Const LNil);
   FFile 1%N [] []; FUnwind 2%N [20%N]; FTagbody [14%N] [ITag 3%N]; FLam [] []; FLet [] [Tr 98%N]].
Example E_ex_ok :
  transp E_ex (Ret 1%N (VInt 5)) = true /\ transp E_ex (Goto 7%N) = true /\ transp E_ex (Err CDivZero) = true /\
  enterable E_ex st0 /\
  trace (leave E_ex (enter E_ex st0)) =
    [EEnter 1; ETr 11 1 0; ETr 12 1 0; ETr 13 1 0; EEnter 2; ETr 14 1 8; ECleanup 2; ETr 20 1 8; ECleanup 1; ETr 10 0 0]%N.
Proof. vm_compute. repeat split; reflexivity. Qed.

(* ---- refutations: where the transcription of the Go code departs from the reference ------------------ *)
(* each witness: outside the guard; M's outcome (what slip does, confirmed on every run by the replay of
   the known finding) against S's *)
Definition KI (z : Z) : form := Const (LInt z).
Definition run_m (p : prog) (vs : list Z) := let '(r, st) := mrun 60 p (init_state vs) in (r, visible (trace st), vars st).
Definition run_s (p : prog) (vs : list Z) := let '(o, st) := srun 60 p (init_state vs) in (o, visible (trace st), vars st).

(* (block b (when t (return-from b 1) (tr 7)) 2) and the same through cond, progn, ignore-errors, recover,
   with-mutex-lock, with-open-file: the exit is dropped, the following form runs, the block yields 2 *)
Definition w_body (wrap : list form -> form) : prog :=
  ([], Block 1%N [wrap [ReturnFrom 1%N (KI 1); Tr 7%N]; KI 2]).
Definition body_wrappers : list (list form -> form) :=
  [When (Const LT); (fun b => Cond [(Const LT, b)]); Progn; IgnoreErrors; Recover (Const LNil);
   WithMutex 0%N; WithFile 0%N].
Theorem body_swallows_exit_refuted :
  forallb (fun w => negb (guard (w_body w))) body_wrappers = true /\
  map (fun w => run_m (w_body w) []) body_wrappers = repeat (MVal (VInt 2), [(7, 0, 0)]%N, []) 5 ++
     [(MVal (VInt 2), [(7, 1, 0)]%N, []); (MVal (VInt 2), [(7, 0, 1)]%N, [])] /\
  map (fun w => run_s (w_body w) []) body_wrappers = repeat (Normal (VInt 1), [], []) 7.
Proof. vm_compute. repeat split; reflexivity. Qed.

(* (block b (list 1 (return-from b 5) 3)) / (block b (let ((x (return-from b 1))) 5) 3) /
   (block b (when (return-from b 1) 4) 2): the marker is taken as a value *)
Definition w_arg : prog := ([], Block 1%N [CallList [KI 1; ReturnFrom 1%N (KI 5); KI 3]]).
Definition w_letinit : prog := ([], Block 1%N [Let [ReturnFrom 1%N (KI 1)] [KI 5]; KI 3]).
Definition w_test : prog := ([], Block 1%N [When (ReturnFrom 1%N (KI 1)) [KI 4]; KI 2]).
Theorem argument_captures_exit_refuted :
  guard w_arg = false /\ guard w_letinit = false /\ guard w_test = false /\
  fst (mrun 60 w_arg st0) = MVal (VList [VInt 1; VRetM 1%N (VInt 5); VInt 3]) /\ fst (srun 60 w_arg st0) = Normal (VInt 5) /\
  fst (mrun 60 w_letinit st0) = MVal (VInt 3) /\ fst (srun 60 w_letinit st0) = Normal (VInt 1) /\
  fst (mrun 60 w_test st0) = MVal (VInt 2) /\ fst (srun 60 w_test st0) = Normal (VInt 1).
Proof. vm_compute. repeat split; reflexivity. Qed.

(* (block b (tagbody (return-from b 1)) 2): tagbody drops a return marker *)
Definition w_tagbody_ret : prog := ([], Block 1%N [Tagbody [IForm (ReturnFrom 1%N (KI 1))]; KI 2]).
(* (tagbody top (setq v0 (+ v0 1)) (when (< v0 3) (go top))): symbol tags are evaluated as variables;
   with an integer tag the backward go silently ends the tagbody *)
Definition w_symtag : prog := ([], Tagbody [ITag 50%N; IForm (Incf 0); IForm (When (Lt 0 3) [Go 50%N])]).
Definition w_backward : prog := ([], Tagbody [ITag 1%N; IForm (Incf 0); IForm (When (Lt 0 3) [Go 1%N])]).
(* (tagbody (tagbody (go 9)) (setq v0 (+ v0 1)) 9): a go to an outer tag ends the inner tagbody only *)
Definition w_outer_go : prog := ([], Tagbody [IForm (Tagbody [IForm (Go 9%N)]); IForm (Incf 0); ITag 9%N]).
Theorem tagbody_refuted :
  guard w_tagbody_ret = false /\ guard w_symtag = false /\ guard w_backward = false /\ guard w_outer_go = false /\
  fst (mrun 60 w_tagbody_ret st0) = MVal (VInt 2) /\ fst (srun 60 w_tagbody_ret st0) = Normal (VInt 1) /\
  run_m w_symtag [0%Z] = (MErr CUnbound, [], [0%Z]) /\ run_s w_symtag [0%Z] = (Normal VNil, [], [3%Z]) /\
  run_m w_backward [0%Z] = (MVal VNil, [], [1%Z]) /\ run_s w_backward [0%Z] = (Normal VNil, [], [3%Z]) /\
  run_m w_outer_go [0%Z] = (MVal VNil, [], [1%Z]) /\ run_s w_outer_go [0%Z] = (Normal VNil, [], [0%Z]).
Proof. vm_compute. repeat split; reflexivity. Qed.

(* (tagbody (dolist (x '(1 2)) (go 5)) (setq v0 (+ v0 1)) 5): the loop swallows the go and goes on;
   (block nil (dotimes (i 3 (return 8)) (tr 1)) 5): a return in the result form escapes the loop's nil block *)
Definition w_loop_go : prog := ([], Tagbody [IForm (Loop KDolist 2 [IForm (Go 5%N)] (Const LNil)); IForm (Incf 0); ITag 5%N]).
Definition w_loop_res : prog := ([], Block 0%N [Loop KDotimes 3 [IForm (Tr 1%N)] (Return (KI 8)); KI 5]).
(* (block b (let () (do (..) ((= i 3) 7) (return-from b 1))) 9): do forwards a named return only when the
   scope it is called in is itself a block scope *)
Definition w_do : prog := ([], Block 1%N [Let [] [Do 3 [IForm (ReturnFrom 1%N (KI 1))] [KI 7]]; KI 9]).
Theorem loops_refuted :
  guard w_loop_go = false /\ guard w_loop_res = false /\ guard w_do = false /\
  run_m w_loop_go [0%Z] = (MVal VNil, [], [1%Z]) /\ run_s w_loop_go [0%Z] = (Normal VNil, [], [0%Z]) /\
  fst (mrun 60 w_loop_res st0) = MVal (VInt 8) /\ fst (srun 60 w_loop_res st0) = Normal (VInt 5) /\
  fst (mrun 60 w_do st0) = MVal (VInt 9) /\ fst (srun 60 w_do st0) = Normal (VInt 1).
Proof. vm_compute. repeat split; reflexivity. Qed.

(* (tagbody (funcall (lambda () (go 5) 1)) (setq v0 (+ v0 1)) 5) and the same with (block b (go 5) 1): a go
   marker is only handed on from the last form *)
Definition w_lam_go : prog := ([], Tagbody [IForm (Lam [Go 5%N; KI 1]); IForm (Incf 0); ITag 5%N]).
Definition w_block_go : prog := ([], Tagbody [IForm (Block 1%N [Go 5%N; KI 1]); IForm (Incf 0); ITag 5%N]).
Theorem go_not_forwarded_refuted :
  guard w_lam_go = false /\ guard w_block_go = false /\
  run_m w_lam_go [0%Z] = (MVal VNil, [], [1%Z]) /\ run_s w_lam_go [0%Z] = (Normal VNil, [], [0%Z]) /\
  run_m w_block_go [0%Z] = (MVal VNil, [], [1%Z]) /\ run_s w_block_go [0%Z] = (Normal VNil, [], [0%Z]).
Proof. vm_compute. repeat split; reflexivity. Qed.

(* (block b (unwind-protect 1 (return-from b 2)) 3): an exit out of a cleanup form is dropped *)
Definition w_cleanup : prog := ([], Block 1%N [UnwindProtect 1%N (KI 1) [ReturnFrom 1%N (KI 2)]; KI 3]).
(* (defun g () (return-from zz 3)) (block zz (g) 5): InBlock walks the callers' scopes: not lexical *)
Definition w_dyn : prog := ([[ReturnFrom 7%N (KI 3)]], Block 7%N [CallU 0; KI 5]).
(* (when (ignore-errors (error "x")) 1): the two-valued result is not nil; when tests its first value since repo_fixes/C01-19: nil in M and S *)
Definition w_mv : prog := ([], When (IgnoreErrors [Signal CError]) [KI 1]).
(* (block a (block b (return-from a (return-from b 1)) 2) 3): a marker as the value of a return-from *)
Definition w_nested : prog := ([], Block 1%N [Block 2%N [ReturnFrom 1%N (ReturnFrom 2%N (KI 1)); KI 2]; KI 3]).
(* (cond (5)): a clause without body yields the value of its test (repaired by 0170ebc; the guard still asks for clause bodies) *)
Definition w_cond_nobody : prog := ([], Cond [(KI 5, [])]).
Theorem other_refuted :
  guard w_cleanup = false /\ guard w_dyn = false /\ guard w_mv = true /\ guard w_nested = false /\
  guard w_cond_nobody = false /\
  fst (mrun 60 w_cleanup st0) = MVal (VInt 3) /\ fst (srun 60 w_cleanup st0) = Normal (VInt 2) /\
  fst (mrun 60 w_dyn st0) = MVal (VInt 3) /\ fst (srun 60 w_dyn st0) = Err CControl /\
  fst (mrun 60 w_mv st0) = MVal VNil /\ fst (srun 60 w_mv st0) = Normal VNil /\
  fst (mrun 60 w_nested st0) = MVal (VRetM 2%N (VInt 1)) /\ fst (srun 60 w_nested st0) = Normal (VInt 3) /\
  fst (mrun 60 w_cond_nobody st0) = MVal (VInt 5) /\ fst (srun 60 w_cond_nobody st0) = Normal (VInt 5).
Proof. vm_compute. repeat split; reflexivity. Qed.
