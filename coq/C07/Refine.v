(* C07 — impl_eq_ref: inside the guard the transcription of the Go code (M) and the reference (S) agree on
   the outcome and on the whole final state (trace with ghost events, counters, locks, files), for every
   program, every nesting depth, every initial state.  Induction on the evaluation (fuel) with one lemma
   per body loop of the Go code. *)
From C07 Require Import Model Spec.

Ltac inv H := inversion H; subst; clear H.

(* ---- values of S are never markers / two-valued objects -------------------------------------------- *)
Definition cleanb (v : value) : bool := match v with VRetM _ _ | VGoM _ | VNilVals => false | _ => true end.
Definition oclean (o : outcome) : Prop :=
  match o with Normal v | Ret _ v => cleanb v = true | _ => True end.
Definition sclean (ev : form -> state -> outcome * state) : Prop :=
  forall f st o st', ev f st = (o, st') -> oclean o.

Lemma clean_norm : forall v, cleanb v = true -> norm v = v.
Proof. destruct v; cbn; intros; congruence. Qed.
Lemma clean_marker : forall v, cleanb v = true -> is_marker v = false.
Proof. destruct v; cbn; intros; congruence. Qed.
Lemma clean_mk_list : forall vs, cleanb (mk_list vs) = true.
Proof. destruct vs; reflexivity. Qed.

Lemma s_seq_clean : forall ev, sclean ev -> forall fs last st o st',
  cleanb last = true -> s_seq ev fs last st = (o, st') -> oclean o.
Proof.
  intros ev Hev. induction fs as [|f fs IH]; intros last st o st' L H; cbn in H.
  - inv H. exact L.
  - destruct (ev f st) as [o1 st1] eqn:E. pose proof (Hev _ _ _ _ E) as C.
    destruct o1; try solve [inv H; exact C]. eapply IH; eauto.
Qed.
Lemma s_progn_clean : forall ev, sclean ev -> forall fs st o st',
  s_seq ev fs VNil st = (o, st') -> oclean o.
Proof. intros. eapply s_seq_clean; [eassumption | | eassumption]. reflexivity. Qed.
Lemma s_args_clean : forall ev, sclean ev -> forall fs acc st o st',
  s_args ev fs acc st = (inl o, st') -> oclean o.
Proof.
  intros ev Hev. induction fs as [|f fs IH]; intros acc st o st' H; cbn in H.
  - inv H.
  - destruct (ev f st) as [o1 st1] eqn:E. pose proof (Hev _ _ _ _ E) as C.
    destruct o1; try solve [inv H; exact C]. eapply IH; eauto.
Qed.
Lemma s_cond_clean : forall ev, sclean ev -> forall cs st o st', s_cond ev cs st = (o, st') -> oclean o.
Proof.
  intros ev Hev. induction cs as [|[c b] cs IH]; intros st o st' H; cbn in H.
  - inv H. reflexivity.
  - destruct (ev c st) as [o1 st1] eqn:E. pose proof (Hev _ _ _ _ E) as C.
    destruct o1; try solve [inv H; exact C].
    destruct (is_nil v); [eapply IH; eauto|].
    destruct b; [inv H; exact C | eapply s_progn_clean; eauto].
Qed.
Lemma s_pass_clean : forall ev own, sclean ev -> forall items st o st',
  s_pass ev own items st = (SOut o, st') -> oclean o.
Proof.
  intros ev own Hev. induction items as [|[t|f] items IH]; intros st o st' H; cbn in H.
  - inv H.
  - eapply IH; eauto.
  - destruct (ev f st) as [o1 st1] eqn:E. pose proof (Hev _ _ _ _ E) as C.
    destruct o1; try solve [inv H; exact C]; [eapply IH; eauto|].
    destruct (memN t own); inv H. exact I.
Qed.
Lemma s_tagbody_clean : forall ev all, sclean ev -> forall k items st o st',
  s_tagbody ev all k items st = (o, st') -> oclean o.
Proof.
  intros ev all Hev. induction k as [|k IH]; intros items st o st' H; cbn in H;
    destruct (s_pass ev (tags_of all) items st) as [x st1] eqn:E; destruct x;
    try solve [inv H; try reflexivity; try exact I; eapply s_pass_clean; eauto].
  eapply IH; eauto.
Qed.
Lemma s_iter_clean : forall ev k, sclean ev -> forall n body st o st',
  s_iter ev k n body st = (o, st') -> oclean o.
Proof.
  intros ev k Hev. induction n as [|n IH]; intros body st o st' H; cbn in H.
  - inv H. reflexivity.
  - destruct (s_tagbody ev body k body st) as [o1 st1] eqn:E. pose proof (s_tagbody_clean _ _ Hev _ _ _ _ _ E) as C.
    destruct o1; try solve [inv H; exact C]. eapply IH; eauto.
Qed.
Lemma catch_clean : forall t r, oclean (fst r) -> oclean (fst (catch t r)).
Proof. intros t [o st] C. cbn in *. destruct o; try exact C. destruct (N.eqb t t0); exact C. Qed.

Theorem seval_clean : forall defs fuel bl tg, sclean (seval defs fuel bl tg).
Proof.
  intros defs. induction fuel as [|n IH]; intros bl tg f st o st' H.
  - cbn in H. inv H. exact I.
  - destruct f; cbn [seval] in H.
    + inv H. destruct l; reflexivity.
    + inv H. reflexivity.
    + inv H. exact I.
    + destruct (nth_error (vars st) x); inv H; [reflexivity | exact I].
    + destruct (nth_error (vars st) x); inv H; [destruct (z <? k)%Z; reflexivity | exact I].
    + inv H. reflexivity.
    + destruct (s_args (seval defs n bl tg) args [] st) as [[o1|vs] st1] eqn:E; inv H.
      * eapply s_args_clean; eauto.
      * apply clean_mk_list.
    + eapply s_progn_clean; eauto.
    + destruct (seval defs n bl tg f st) as [o1 st1] eqn:E. pose proof (IH _ _ _ _ _ _ E) as C.
      destruct o1; try solve [inv H; exact C].
      destruct (is_nil v); [inv H; reflexivity | eapply s_progn_clean; eauto].
    + eapply s_cond_clean; eauto.
    + destruct (s_args (seval defs n bl tg) inits [] st) as [[o1|vs] st1] eqn:E.
      * inv H. eapply s_args_clean; eauto.
      * eapply s_progn_clean; eauto.
    + pose proof (catch_clean t (s_seq (seval defs n (t :: bl) tg) body VNil st)) as X.
      rewrite H in X. apply X.
      destruct (s_seq (seval defs n (t :: bl) tg) body VNil st) eqn:E. eapply s_progn_clean; eauto.
    + destruct (memN t bl); [| inv H; exact I].
      destruct (seval defs n bl tg f st) as [o1 st1] eqn:E. pose proof (IH _ _ _ _ _ _ E) as C.
      destruct o1; inv H; exact C.
    + destruct (memN 0%N bl); [| inv H; exact I].
      destruct (seval defs n bl tg f st) as [o1 st1] eqn:E. pose proof (IH _ _ _ _ _ _ E) as C.
      destruct o1; inv H; exact C.
    + eapply s_tagbody_clean; eauto.
    + destruct (memN t tg); inv H; exact I.
    + destruct (seval defs n bl tg f (log (EEnter u) st)) as [o1 st1] eqn:E. pose proof (IH _ _ _ _ _ _ E) as C.
      destruct o1; try solve [inv H; exact I];
        (destruct (s_seq (seval defs n bl tg) cleanup VNil (log (ECleanup u) st1)) as [o2 st2] eqn:E2;
         assert (C2 : oclean o2) by (eapply s_progn_clean; eauto);
         destruct o2; inv H; first [exact C | exact C2]).
    + destruct (s_seq (seval defs n bl tg) body VNil st) as [o1 st1] eqn:E.
      assert (C : oclean o1) by (eapply s_progn_clean; eauto).
      destruct o1; inv H; first [exact C | reflexivity].
    + destruct (s_seq (seval defs n bl tg) body VNil st) as [o1 st1] eqn:E.
      assert (C : oclean o1) by (eapply s_progn_clean; eauto).
      destruct o1; try solve [inv H; exact C]. eapply IH; eauto.
    + destruct (N.testbit (locks st) m); [inv H; exact I|].
      destruct (s_seq (seval defs n bl tg) body VNil (lock m st)) as [o1 st1] eqn:E.
      assert (C : oclean o1) by (eapply s_progn_clean; eauto).
      destruct o1; inv H; exact C.
    + destruct (s_seq (seval defs n bl tg) body VNil (fopen f st)) as [o1 st1] eqn:E.
      assert (C : oclean o1) by (eapply s_progn_clean; eauto).
      destruct o1; inv H; exact C.
    + match type of H with catch ?t ?r = _ => pose proof (catch_clean t r) as X; rewrite H in X; apply X end.
      destruct (s_iter (seval defs n (0%N :: bl) (tags_of body ++ tg)) n n0 body st) as [o2 st2] eqn:E.
      assert (C : oclean o2) by (eapply s_iter_clean; eauto).
      destruct o2; try exact C.
      destruct (seval defs n (0%N :: bl) tg f st2) eqn:E3. eapply IH; eauto.
    + match type of H with catch ?t ?r = _ => pose proof (catch_clean t r) as X; rewrite H in X; apply X end.
      destruct (s_iter (seval defs n (0%N :: bl) (tags_of body ++ tg)) n n0 body st) as [o2 st2] eqn:E.
      assert (C : oclean o2) by (eapply s_iter_clean; eauto).
      destruct o2; try exact C.
      destruct (s_seq (seval defs n (0%N :: bl) tg) res VNil st2) eqn:E3. eapply s_progn_clean; eauto.
    + eapply s_progn_clean; eauto.
    + destruct (nth_error defs i) as [body|]; [| inv H; exact I].
      match type of H with catch ?t ?r = _ => pose proof (catch_clean t r) as X; rewrite H in X; apply X end.
      destruct (s_seq (seval defs n [fn_tag i] []) body VNil st) eqn:E. eapply s_progn_clean; eauto.
Qed.

(* ---- mvfree: the value of such a form is never the two-valued object (M, every program) -------------- *)
Definition mvsafe (ev : form -> state -> mres * state) : Prop :=
  forall f st v st', mvfree f = true -> ev f st = (MVal v, st') -> v <> VNilVals.

Lemma m_seq_mv : forall ev stop, mvsafe ev -> stop VNilVals = false -> forall fs last st v st',
  last_ok mvfree fs = true -> (fs = [] -> last <> VNilVals) ->
  m_seq ev stop fs last st = (MVal v, st') -> v <> VNilVals.
Proof.
  intros ev stop Hev Hs. induction fs as [|f r IH]; intros last st v st' L N H; cbn in H.
  - inv H. auto.
  - destruct (ev f st) as [o st1] eqn:E. destruct o; try discriminate.
    destruct (stop v0) eqn:S0.
    + inv H. intro. subst. congruence.
    + eapply IH; [| | exact H].
      * destruct r; [reflexivity | exact L].
      * intro. subst. cbn in L. eapply Hev; eauto.
Qed.

Lemma m_progn_mv : forall ev stop, mvsafe ev -> stop VNilVals = false -> forall fs st v st',
  last_ok mvfree fs = true -> m_seq ev stop fs VNil st = (MVal v, st') -> v <> VNilVals.
Proof. intros. eapply m_seq_mv; eauto. intros _. discriminate. Qed.

Lemma m_args_mv : forall ev fs acc st vs st',
  Forall (fun v => v <> VNilVals) acc -> m_args ev fs acc st = (inr vs, st') -> Forall (fun v => v <> VNilVals) vs.
Proof.
  induction fs as [|f r IH]; intros acc st vs st' A H; cbn in H.
  - inv H. apply Forall_rev. exact A.
  - destruct (ev f st) as [o st1]. destruct o; try discriminate.
    eapply IH; [| exact H]. constructor; [destruct v; cbn; discriminate | exact A].
Qed.
Lemma m_args_inl : forall ev fs acc st r st', m_args ev fs acc st = (inl r, st') -> forall v, r <> MVal v.
Proof.
  induction fs as [|f r IH]; intros acc st x st' H v; cbn in H.
  - discriminate.
  - destruct (ev f st) as [o st1]. destruct o; try solve [inv H; discriminate]. eapply IH; eauto.
Qed.
Lemma last_mv : forall vs, Forall (fun v => v <> VNilVals) vs -> last_val vs <> VNilVals.
Proof.
  unfold last_val. induction vs as [|v r IH]; intro A; cbn; [discriminate|].
  inv A. destruct r; [assumption | apply IH; assumption].
Qed.

Lemma mk_list_mv : forall vs, mk_list vs <> VNilVals.
Proof. destruct vs; discriminate. Qed.

Lemma m_cond_mv : forall ev, mvsafe ev -> forall cs st v st',
  clauses_ok mvfree cs = true -> m_cond ev cs st = (MVal v, st') -> v <> VNilVals.
Proof.
  intros ev Hev. induction cs as [|[c b] cs IH]; intros st v st' L H; cbn in H.
  - inv H. discriminate.
  - cbn in L. apply andb_true_iff in L. destruct L as [L1 L2]. apply andb_true_iff in L1. destruct L1 as [L1 L0].
    destruct (ev c st) as [o st1] eqn:Ec. destruct o; try discriminate.
    destruct (is_nil (prim v0)); [eapply IH; eauto|].
    eapply (m_seq_mv ev never Hev eq_refl b (prim v0) st1 v st' L1); [|exact H].
    intros _. destruct v0; discriminate.
Qed.

Lemma m_items_none : forall ev evt items skip st r st',
  m_items ev evt onret_none skip items st = (Some r, st') -> forall v, r <> MVal v.
Proof.
  induction items as [|[t|f] items IH]; intros skip st r st' H v; cbn in H.
  - discriminate.
  - destruct skip as [t'|].
    + destruct (N.eqb t t'); eapply IH; eauto.
    + destruct (evt && sym_tag t); [inv H; discriminate | eapply IH; eauto].
  - destruct skip as [t'|]; [eapply IH; eauto|].
    destruct (ev f st) as [o st1]. destruct o; try solve [inv H; discriminate].
    destruct v0; eapply IH; eauto.
Qed.

Theorem meval_mv : forall defs fuel sc tb, mvsafe (meval defs fuel sc tb).
Proof.
  intros defs. induction fuel as [|n IH]; intros sc tb f st v st' MV H.
  - discriminate.
  - destruct f; cbn in MV; try discriminate; cbn [meval] in H.
    + inv H. destruct l; discriminate.
    + inv H. discriminate.
    + destruct (nth_error (vars st) x); inv H. discriminate.
    + destruct (nth_error (vars st) x); inv H. destruct (z <? k)%Z; discriminate.
    + inv H. discriminate.
    + destruct (m_args (meval defs n sc tb) args [] st) as [[o|vs] st1] eqn:E; inv H.
      * exfalso. eapply m_args_inl; eauto.
      * apply mk_list_mv.
    + eapply m_progn_mv; [apply IH | | exact MV | exact H]; reflexivity.
    + destruct (meval defs n sc tb f st) as [o st1]. destruct o; try discriminate.
      destruct (is_nil (prim v0)); [inv H; discriminate|].
      eapply m_progn_mv; [apply IH | | exact MV | exact H]; reflexivity.
    + eapply m_cond_mv; eauto.
    + destruct (m_args (meval defs n sc tb) inits [] st) as [[o|vs] st1] eqn:E;
        [inv H; exfalso; eapply m_args_inl; eauto|].
      eapply m_progn_mv; [apply IH | | exact MV | exact H]; reflexivity.
    + destruct (in_block sc t); [| discriminate].
      destruct (meval defs n sc tb f st) as [o st1]. destruct o; inv H. discriminate.
    + destruct (in_block sc 0%N); [| discriminate].
      destruct (meval defs n sc tb f st) as [o st1]. destruct o; inv H. discriminate.
    + destruct (m_items (meval defs n ((false, 0%N) :: sc) true) true onret_none None items st) as [[o|] st1] eqn:E; inv H.
      * exfalso. eapply m_items_none; eauto.
      * discriminate.
    + destruct tb; inv H. discriminate.
    + destruct (meval defs n sc tb f (log (EEnter u) st)) as [o st1] eqn:E.
      destruct o; try discriminate;
        destruct (m_seq (meval defs n sc tb) never cleanup VNil (log (ECleanup u) st1)) as [r2 st2];
        destruct r2; inv H. eapply IH; eauto.
    + destruct (N.testbit (locks st) m); [discriminate|].
      destruct (m_seq (meval defs n sc tb) never body VNil (lock m st)) as [o st1] eqn:E.
      destruct o; inv H. eapply m_progn_mv; [apply IH | | exact MV | exact E]; reflexivity.
    + destruct (m_seq (meval defs n ((false, 0%N) :: sc) tb) never body VNil (fopen f st)) as [o st1] eqn:E.
      destruct o; inv H. eapply m_progn_mv; [apply IH | | exact MV | exact E]; reflexivity.
Qed.

(* ---- the refinement relation ------------------------------------------------------------------------ *)
Definition exits_ok (R G : list N) (o : outcome) : Prop :=
  match o with Ret t _ => memN t R = true | Goto t => memN t G = true | _ => True end.

(* whenever S terminates on f with outcome o, M produces the corresponding value / panic, the same final
   state, and o is an exit only to a block in R / a tag in G *)
Definition related (em : form -> state -> mres * state) (es : form -> state -> outcome * state)
           (R G : list N) (f : form) : Prop :=
  forall st o st', es f st = (o, st') -> o <> OOF ->
    exists r, em f st = (r, st') /\ norm_res r = to_mres o /\ exits_ok R G o.

Lemma norm_marker : forall v, is_marker (norm v) = is_marker v.
Proof. destruct v; reflexivity. Qed.

Lemma rel_inv : forall r o, norm_res r = to_mres o -> oclean o ->
  match o with
  | Normal v => exists vm, r = MVal vm /\ norm vm = v /\ is_marker vm = false /\ prim vm = v
  | Ret t v => exists vm, r = MVal (VRetM t vm) /\ norm vm = v
  | Goto t => r = MVal (VGoM t)
  | Err c => r = MErr c
  | Hang => r = MHang
  | OOF => r = MOOF
  end.
Proof.
  intros r o H C. destruct o; destruct r; cbn in H; try discriminate; try congruence.
  - injection H as H. exists v0. cbn in C. subst v. repeat split.
    + rewrite <- norm_marker. apply clean_marker. exact C.
    + destruct v0; cbn in *; try reflexivity. discriminate.
  - injection H as H. destruct v0; cbn in H; try discriminate. injection H as H1 H2. subst.
    eexists. split; reflexivity.
  - injection H as H. destruct v; cbn in H; try discriminate. congruence.
Qed.

Lemma memN_app : forall t a b, memN t (a ++ b) = memN t a || memN t b.
Proof. intros. unfold memN. apply existsb_app. Qed.
Lemma tags_of_app : forall a b, tags_of (a ++ b) = tags_of a ++ tags_of b.
Proof. induction a as [|[t|f] a IH]; intros; cbn; [reflexivity | rewrite IH; reflexivity | apply IH]. Qed.

Lemma s_tagbody_eq : forall ev all k items st,
  s_tagbody ev all k items st =
  match s_pass ev (tags_of all) items st with
  | (SDone, st1) => (Normal VNil, st1)
  | (SOut o, st1) => (o, st1)
  | (SJump t, st1) => match k with O => (OOF, st1) | S k' => s_tagbody ev all k' (after_tag t all) st1 end
  end.
Proof. intros. destruct k; reflexivity. Qed.

Lemma m_items_skip : forall ev evt onret t items st,
  m_items ev evt onret (Some t) items st = m_items ev evt onret None (after_tag t items) st.
Proof.
  induction items as [|[t'|f] items IH]; intros; cbn; [reflexivity | | apply IH].
  destruct (N.eqb t' t); [reflexivity | apply IH].
Qed.

Lemma after_tag_suffix : forall t items, exists pre, items = pre ++ after_tag t items.
Proof.
  induction items as [|[t'|f] items [pre IH]]; cbn.
  - exists []. reflexivity.
  - destruct (N.eqb t' t); [exists [ITag t']; reflexivity | exists (ITag t' :: pre); cbn; congruence].
  - exists (IForm f :: pre). cbn. congruence.
Qed.
Lemma after_tag_length : forall t items, length (after_tag t items) <= length items.
Proof.
  induction items as [|[t'|f] items IH]; cbn; [lia | | lia].
  destruct (N.eqb t' t); lia.
Qed.
Lemma g_items_after : forall pbi R t items, g_items gd pbi R items = true -> g_items gd pbi R (after_tag t items) = true.
Proof.
  induction items as [|[t'|f] items IH]; cbn; intro H; [reflexivity | |].
  - destruct (N.eqb t' t); auto.
  - apply andb_true_iff in H. destruct H as [_ H]. auto.
Qed.
(* with distinct tags, the first occurrence of a tag that occurs in the rest is in the rest *)
Lemma after_tag_app : forall t pre r, memN t (tags_of pre) = false -> after_tag t (pre ++ r) = after_tag t r.
Proof.
  induction pre as [|[t'|f] pre IH]; intros r H; cbn in *; [reflexivity | | apply IH; exact H].
  apply orb_false_iff in H. destruct H as [H1 H2]. rewrite N.eqb_sym in H1. rewrite H1. apply IH. exact H2.
Qed.
Lemma nodup_app_l : forall a b t, nodupN (a ++ b) = true -> memN t b = true -> memN t a = false.
Proof.
  induction a as [|x a IH]; intros b t H M; cbn in *; [reflexivity|].
  apply andb_true_iff in H. destruct H as [H1 H2].
  destruct (N.eqb t x) eqn:E; cbn.
  - apply N.eqb_eq in E. subst. rewrite memN_app, M, orb_true_r in H1. discriminate.
  - eapply IH; eauto.
Qed.

Definition abort (o : outcome) : Prop := match o with Err _ | Hang => True | _ => False end.

Section Rel.
  Variable em : form -> state -> mres * state.
  Variable es : form -> state -> outcome * state.
  Hypothesis Hclean : sclean es.
  Hypothesis Hmv : mvsafe em.

  Lemma seq_rel : forall pb stop R1 G1 R2 G2,
    (forall t v, memN t R1 = true -> stop (VRetM t v) = true) ->
    (forall t, memN t G1 = true -> stop (VGoM t) = true) ->
    (forall v, is_marker v = false -> stop v = false) ->
    (forall t, memN t R1 = true -> memN t R2 = true) ->
    (forall t, memN t G1 = true -> memN t G2 = true) ->
    (forall f, gd pb R1 G1 f = true -> related em es R1 G1 f) ->
    (forall f, gd pb R2 G2 f = true -> related em es R2 G2 f) ->
    forall fs lm ls st o st', g_seq gd pb R1 G1 R2 G2 fs = true -> norm lm = ls -> cleanb ls = true ->
    s_seq es fs ls st = (o, st') -> o <> OOF ->
    exists r, m_seq em stop fs lm st = (r, st') /\ norm_res r = to_mres o /\ exits_ok R2 G2 o.
  Proof.
    intros pb stop R1 G1 R2 G2 SR SG SN IR IG H1 H2.
    induction fs as [|f r IH]; intros lm ls st o st' Gd NL CL HS NO.
    - cbn in HS. inv HS. eexists. split; [reflexivity|]. split; [reflexivity | exact I].
    - destruct r as [|f2 r2].
      + (* last form *)
        cbn in Gd. cbn in HS. destruct (es f st) as [o1 st1] eqn:E.
        assert (o = o1 /\ st' = st1) as [-> ->] by (destruct o1; inv HS; auto).
        destruct (H2 f Gd st o1 st1 E NO) as (r0 & EM & RL & EX).
        exists r0. split; [| split; assumption].
        cbn. rewrite EM. destruct r0; try reflexivity. destruct (stop v); reflexivity.
      + cbn [g_seq] in Gd. apply andb_true_iff in Gd. destruct Gd as [Gf Gr].
        cbn [s_seq] in HS. destruct (es f st) as [o1 st1] eqn:E.
        assert (NO1 : o1 <> OOF) by (intro; subst; inv HS; congruence).
        destruct (H1 f Gf st o1 st1 E NO1) as (r0 & EM & RL & EX).
        pose proof (rel_inv _ _ RL (Hclean _ _ _ _ E)) as RI.
        cbn [m_seq]. rewrite EM. destruct o1.
        * destruct RI as (vm & -> & Nv & Mk & _). rewrite (SN _ Mk).
          eapply IH; eauto. exact (Hclean _ _ _ _ E).
        * destruct RI as (vm & -> & Nv). cbn in EX. rewrite (SR _ _ EX). inv HS.
          eexists. split; [reflexivity|]. split; [cbn; reflexivity | cbn; auto].
        * subst r0. cbn in EX. rewrite (SG _ EX). inv HS.
          eexists. split; [reflexivity|]. split; [reflexivity | cbn; auto].
        * subst r0. inv HS. eexists. split; [reflexivity|]. split; [reflexivity | exact I].
        * subst r0. inv HS. eexists. split; [reflexivity|]. split; [reflexivity | exact I].
        * congruence.
  Qed.

  (* progn-like bodies: m_seq never *)
  Lemma progn_rel : forall pb R G,
    (forall f, gd pb [] [] f = true -> related em es [] [] f) ->
    (forall f, gd pb R G f = true -> related em es R G f) ->
    forall fs st o st', g_seq gd pb [] [] R G fs = true ->
    s_seq es fs VNil st = (o, st') -> o <> OOF ->
    exists r, m_seq em never fs VNil st = (r, st') /\ norm_res r = to_mres o /\ exits_ok R G o.
  Proof.
    intros. eapply seq_rel with (R1 := []) (G1 := []); eauto; try discriminate; reflexivity.
  Qed.

  Lemma args_rel : forall pb,
    (forall f, gd pb [] [] f = true -> related em es [] [] f) ->
    forall fs acc st x st', g_all gd pb [] [] fs = true -> s_args es fs acc st = (x, st') -> x <> inl OOF ->
    match x with
    | inr vs => m_args em fs acc st = (inr vs, st')
    | inl o => m_args em fs acc st = (inl (to_mres o), st') /\ abort o
    end.
  Proof.
    intros pb H0. induction fs as [|f r IH]; intros acc st x st' Gd HS NO; cbn in HS.
    - inv HS. reflexivity.
    - cbn in Gd. apply andb_true_iff in Gd. destruct Gd as [Gf Gr].
      destruct (es f st) as [o1 st1] eqn:E.
      assert (NO1 : o1 <> OOF) by (intro; subst; inv HS; congruence).
      destruct (H0 f Gf st o1 st1 E NO1) as (r0 & EM & RL & EX).
      pose proof (rel_inv _ _ RL (Hclean _ _ _ _ E)) as RI.
      cbn [m_args]. rewrite EM. destruct o1; cbn in EX; try discriminate.
      + destruct RI as (vm & -> & _ & _ & Pv). rewrite Pv. eapply IH; eauto.
      + subst r0. inv HS. split; [reflexivity | exact I].
      + subst r0. inv HS. split; [reflexivity | exact I].
      + congruence.
  Qed.

  Lemma cond_rel : forall pb R G,
    (forall f, gd pb [] [] f = true -> related em es [] [] f) ->
    (forall f, gd pb R G f = true -> related em es R G f) ->
    forall cs st o st', g_clauses gd pb R G cs = true -> s_cond es cs st = (o, st') -> o <> OOF ->
    exists r, m_cond em cs st = (r, st') /\ norm_res r = to_mres o /\ exits_ok R G o.
  Proof.
    intros pb R G H0 H2. induction cs as [|[c b] cs IH]; intros st o st' Gd HS NO.
    - cbn in HS. inv HS. eexists. split; [reflexivity|]. split; [reflexivity | exact I].
    - cbn [g_clauses] in Gd. apply andb_true_iff in Gd. destruct Gd as [Gd Gcs]. apply andb_true_iff in Gd. destruct Gd as [Gd Gb].
      apply andb_true_iff in Gd. destruct Gd as [Gc Gne].
      cbn [s_cond] in HS. destruct (es c st) as [o1 st1] eqn:E.
      assert (NO1 : o1 <> OOF) by (intro; subst; inv HS; congruence).
      destruct (H0 c Gc st o1 st1 E NO1) as (r0 & EM & RL & EX).
      pose proof (rel_inv _ _ RL (Hclean _ _ _ _ E)) as RI.
      cbn [m_cond]. rewrite EM. destruct o1; cbn in EX; try discriminate.
      + destruct RI as (vm & -> & Nv & Mk & Pv).
        rewrite Pv. destruct (is_nil v).
        * eapply IH; eauto.
        * destruct b; [discriminate|]. change (m_seq em never (f :: b) v st1) with (m_seq em never (f :: b) VNil st1). eapply progn_rel; eauto.
      + subst r0. inv HS. eexists. split; [reflexivity|]. split; [reflexivity | exact I].
      + subst r0. inv HS. eexists. split; [reflexivity|]. split; [reflexivity | exact I].
      + congruence.
  Qed.

  (* what the statement loop hands to the form around it *)
  Definition items_out (onret : N -> value -> option value) (Ri : list N) (o : outcome) (x : option mres) : Prop :=
    match o with
    | Normal v => x = None /\ v = VNil
    | Ret t v => exists vm y, onret t vm = Some y /\ norm vm = v /\ x = Some (MVal y) /\ memN t Ri = true
    | Err c => x = Some (MErr c)
    | Hang => x = Some MHang
    | Goto _ | OOF => False
    end.

  Lemma items_rel : forall pbi evt onret Ri all k0,
    (evt = true -> forallb (fun t => negb (sym_tag t)) (tags_of all) = true) ->
    nodupN (tags_of all) = true ->
    (forall t v, memN t Ri = true -> onret t v <> None) ->
    (forall f G, gd pbi Ri G f = true -> (forall t, memN t G = true -> memN t (tags_of all) = true) ->
                 related em es Ri G f) ->
    forall len items pre k st o st', length items <= len -> all = pre ++ items -> k <= k0 ->
      g_items gd pbi Ri items = true ->
      s_tagbody es all k items st = (o, st') -> o <> OOF ->
      exists x, m_items em evt onret None items st = (x, st') /\ items_out onret Ri o x.
  Proof.
    intros pbi evt onret Ri all k0 SY ND OR H0.
    induction len as [|len IH]; intros items pre k st o st' LE AL KK Gd HS NO.
    - destruct items; [| cbn in LE; lia]. rewrite s_tagbody_eq in HS. cbn in HS. inv HS.
      exists None. split; [reflexivity | split; reflexivity].
    - destruct items as [|[t|f] r].
      + rewrite s_tagbody_eq in HS. cbn in HS. inv HS. exists None. split; [reflexivity | split; reflexivity].
      + (* a tag *)
        assert (HS' : s_tagbody es all k r st = (o, st')) by (rewrite s_tagbody_eq in HS |- *; exact HS).
        assert (ST : evt && sym_tag t = false).
        { destruct evt; [| reflexivity]. cbn. specialize (SY eq_refl). rewrite AL, tags_of_app in SY.
          rewrite forallb_app in SY. apply andb_true_iff in SY. destruct SY as [_ SY]. cbn in SY.
          apply andb_true_iff in SY. destruct SY as [SY _]. apply negb_true_iff in SY. exact SY. }
        cbn [m_items]. rewrite ST.
        eapply (IH r (pre ++ [ITag t])); eauto; [cbn in LE; lia | rewrite <- app_assoc; exact AL].
      + (* a statement *)
        cbn [g_items] in Gd. apply andb_true_iff in Gd. destruct Gd as [Gd Gr].
        apply andb_true_iff in Gd. destruct Gd as [_ Gf].
        rewrite s_tagbody_eq in HS. cbn [s_pass] in HS. destruct (es f st) as [o1 st1] eqn:E.
        assert (NO1 : o1 <> OOF) by (intro; subst; inv HS; congruence).
        assert (SUB : forall t, memN t (tags_of r) = true -> memN t (tags_of all) = true).
        { intros t Ht. rewrite AL, tags_of_app, memN_app. cbn [tags_of]. rewrite Ht. apply orb_true_r. }
        destruct (H0 f _ Gf SUB st o1 st1 E NO1) as (r0 & EM & RL & EX).
        pose proof (rel_inv _ _ RL (Hclean _ _ _ _ E)) as RI.
        cbn [m_items]. rewrite EM. destruct o1.
        * destruct RI as (vm & -> & _ & Mk & _).
          assert (HS' : s_tagbody es all k r st1 = (o, st')) by (rewrite s_tagbody_eq; exact HS).
          assert (X : exists x, m_items em evt onret None r st1 = (x, st') /\ items_out onret Ri o x).
          { eapply (IH r (pre ++ [IForm f])); eauto; [cbn in LE; lia | rewrite <- app_assoc; exact AL]. }
          destruct vm; cbn in Mk; try discriminate; exact X.
        * destruct RI as (vm & -> & Nv). cbn in EX. inv HS.
          destruct (onret t vm) as [y|] eqn:OY; [| exfalso; eapply OR; eauto].
          eexists. split; [reflexivity|]. cbn. exists vm, y. auto.
        * subst r0. cbn in EX. rewrite (SUB _ EX) in HS.
          destruct k as [|k']; [inv HS; congruence|].
          rewrite m_items_skip.
          assert (AT : after_tag t all = after_tag t r).
          { rewrite AL. rewrite (after_tag_app t pre (IForm f :: r)); [reflexivity|].
            rewrite AL, tags_of_app in ND. eapply nodup_app_l; eauto. }
          rewrite AT in HS.
          destruct (after_tag_suffix t r) as [pre' PR].
          eapply (IH (after_tag t r) (pre ++ IForm f :: pre') k'); eauto.
          -- pose proof (after_tag_length t r). cbn in LE. lia.
          -- rewrite AL. rewrite <- app_assoc. cbn. rewrite <- PR. reflexivity.
          -- lia.
          -- apply g_items_after. exact Gr.
        * subst r0. inv HS. eexists. split; [reflexivity | reflexivity].
        * subst r0. inv HS. eexists. split; [reflexivity | reflexivity].
        * congruence.
  Qed.

  Lemma iter_rel : forall pbi onret Ri body k,
    nodupN (tags_of body) = true ->
    (forall t v, memN t Ri = true -> onret t v <> None) ->
    (forall f G, gd pbi Ri G f = true -> (forall t, memN t G = true -> memN t (tags_of body) = true) ->
                 related em es Ri G f) ->
    g_items gd pbi Ri body = true ->
    forall n st o st', s_iter es k n body st = (o, st') -> o <> OOF ->
      exists x, m_iter em onret n body st = (x, st') /\ items_out onret Ri o x.
  Proof.
    intros pbi onret Ri body k ND OR H0 Gd. induction n as [|n IH]; intros st o st' HS NO; cbn in HS.
    - inv HS. exists None. split; [reflexivity | split; reflexivity].
    - destruct (s_tagbody es body k body st) as [o1 st1] eqn:E.
      assert (NO1 : o1 <> OOF) by (intro; subst; inv HS; congruence).
      destruct (items_rel pbi false onret Ri body k (fun H => False_ind _ (Bool.diff_false_true H)) ND OR H0
                  (length body) body [] k st o1 st1 (le_n _) eq_refl (le_n _) Gd E NO1) as (x & EM & IO).
      cbn [m_iter]. rewrite EM. destruct o1; cbn in IO.
      + destruct IO as [-> _]. eapply IH; eauto.
      + destruct IO as (vm & y & OY & Nv & -> & Mr). inv HS. eexists. split; [reflexivity|].
        cbn. exists vm, y. auto.
      + contradiction.
      + subst x. inv HS. eexists. split; reflexivity.
      + subst x. inv HS. eexists. split; reflexivity.
      + contradiction.
  Qed.
End Rel.

(* progn.go (after repo_fixes/C01-10) evaluates its forms itself: progn is progn_rel (m_seq never), like the body of when *)

(* ---- contexts ---------------------------------------------------------------------------------------- *)
(* what ties the guard's sets to the two evaluators' contexts: a block in R is on the scope chain InBlock
   walks and lexically visible; a tag in G is lexically visible and the TagBody flag is set; pb tells the
   truth about the innermost scope *)
Definition ctx_ok (pb : bool) (R G : list N) (sc : list scope) (tb : bool) (bl tg : list N) : Prop :=
  (forall t, memN t R = true -> in_block sc t = true /\ memN t bl = true) /\
  (forall t, memN t G = true -> tb = true /\ memN t tg = true) /\
  (pb = true -> head_block sc = true).

Lemma ctx_noexit : forall pb R G sc tb bl tg, ctx_ok pb R G sc tb bl tg -> ctx_ok pb [] [] sc tb bl tg.
Proof. intros ? ? ? ? ? ? ? (A & B & C). repeat split; try discriminate. exact C. Qed.
Lemma ctx_nogo : forall pb R G sc tb bl tg, ctx_ok pb R G sc tb bl tg -> ctx_ok pb R [] sc tb bl tg.
Proof. intros ? ? ? ? ? ? ? (A & B & C). repeat split; try discriminate; try apply A; auto. Qed.
Lemma ctx_plain : forall pb R G sc tb bl tg, ctx_ok pb R G sc tb bl tg -> ctx_ok false R G ((false, 0%N) :: sc) tb bl tg.
Proof.
  intros ? ? ? ? ? ? ? (A & B & C). split; [| split; [exact B | discriminate]].
  intros t H. apply A in H. destruct H. split; [cbn; assumption | assumption].
Qed.
Lemma ctx_block : forall t pb R G sc tb bl tg, ctx_ok pb R G sc tb bl tg ->
  ctx_ok true (t :: R) G ((true, t) :: sc) tb (t :: bl) tg.
Proof.
  intros t ? ? ? ? ? ? ? (A & B & C). split; [| split; [exact B | reflexivity]].
  intros t' H. cbn in H |- *. rewrite N.eqb_sym. destruct (N.eqb t' t); cbn; [split; reflexivity|].
  cbn in H. apply A in H. exact H.
Qed.
Lemma ctx_lam : forall nm pb R G sc tb bl tg, ctx_ok pb R G sc tb bl tg ->
  ctx_ok true R G ((true, nm) :: sc) tb bl tg.
Proof.
  intros nm ? ? ? ? ? ? ? (A & B & C). split; [| split; [exact B | reflexivity]].
  intros t' H. apply A in H. destruct H as [H1 H2]. split; [| exact H2]. unfold in_block in *. cbn [existsb]. rewrite H1. apply orb_true_r.
Qed.

Lemma g_all_seq : forall pb R G fs, g_all gd pb R G fs = true -> g_seq gd pb R G R G fs = true.
Proof.
  induction fs as [|f r IH]; cbn; intro H; [reflexivity|].
  apply andb_true_iff in H. destruct H as [H1 H2]. destruct r; [exact H1|]. rewrite H1. cbn. apply IH. exact H2.
Qed.
Lemma gd_defs_nth : forall defs k i body, gd_defs k defs = true -> nth_error defs i = Some body ->
  g_all gd true [fn_tag (k + i)] [] body = true.
Proof.
  induction defs as [|b defs IH]; intros k i body H E; [destruct i; discriminate|].
  cbn in H. apply andb_true_iff in H. destruct H as [H1 H2]. destruct i; cbn in E.
  - inv E. rewrite Nat.add_0_r. exact H1.
  - replace (k + S i) with (S k + i) by lia. eapply IH; eauto.
Qed.

Ltac fin := eexists; split; [reflexivity | split; [reflexivity | first [exact I | assumption | cbn; auto]]].

(* ---- the theorem ------------------------------------------------------------------------------------- *)
Theorem refine : forall defs, gd_defs 0 defs = true -> forall fuel pb R G sc tb bl tg f,
  gd pb R G f = true -> ctx_ok pb R G sc tb bl tg ->
  related (meval defs fuel sc tb) (seval defs fuel bl tg) R G f.
Proof.
  intros defs GD. induction fuel as [|n IH]; intros pb R G sc tb bl tg f Gd CX st o st' HS NO.
  - cbn in HS. inv HS. congruence.
  - pose proof (seval_clean defs n) as CL. pose proof (meval_mv defs n) as MV.
    assert (IH0 : forall f, gd pb [] [] f = true -> related (meval defs n sc tb) (seval defs n bl tg) [] [] f)
      by (intros; eapply IH; eauto using ctx_noexit).
    assert (IHRG : forall f, gd pb R G f = true -> related (meval defs n sc tb) (seval defs n bl tg) R G f)
      by (intros; eapply IH; eauto).
    destruct f; cbn [seval] in HS; cbn [meval]; cbn [gd] in Gd.
    + (* Const *) inv HS. eexists. split; [reflexivity|]. split; [destruct l; reflexivity | exact I].
    + (* Tr *) inv HS. fin.
    + (* Signal *) inv HS. fin.
    + (* Incf *) destruct (nth_error (vars st) x); inv HS; fin.
    + (* Lt *) destruct (nth_error (vars st) x); inv HS; [| fin].
      eexists. split; [reflexivity|]. split; [destruct (z <? k)%Z; reflexivity | exact I].
    + (* Setv *) inv HS. fin.
    + (* CallList *)
      destruct (s_args (seval defs n bl tg) args [] st) as [[o1|vs] st1] eqn:E; inv HS.
      * pose proof (args_rel _ _ (CL bl tg) pb IH0 args [] st _ _ Gd E) as X. cbn in X.
        destruct X as [X A]; [congruence|]. rewrite X.
        destruct o; try contradiction; fin.
      * pose proof (args_rel _ _ (CL bl tg) pb IH0 args [] st _ _ Gd E) as X. cbn in X.
        rewrite X by discriminate. eexists. split; [reflexivity|]. split; [| exact I].
        cbn. rewrite (clean_norm _ (clean_mk_list vs)). reflexivity.
    + (* Progn *)
      eapply progn_rel; eauto.
    + (* When *)
      apply andb_true_iff in Gd. destruct Gd as [G2 G3].
      destruct (seval defs n bl tg f st) as [o1 st1] eqn:E.
      assert (NO1 : o1 <> OOF) by (intro; subst; inv HS; congruence).
      destruct (IH0 f G2 st o1 st1 E NO1) as (r0 & EM & RL & EX).
      pose proof (rel_inv _ _ RL (CL _ _ _ _ _ _ E)) as RI.
      rewrite EM. destruct o1; cbn in EX; try discriminate.
      * destruct RI as (vm & -> & Nv & Mk & Pv).
        rewrite Pv. destruct (is_nil v); [inv HS; fin|].
        eapply progn_rel; eauto.
      * try subst r0. inv HS. fin.
      * try subst r0. inv HS. fin.
      * congruence.
    + (* Cond *) eapply cond_rel; eauto.
    + (* Let *)
      apply andb_true_iff in Gd. destruct Gd as [G1 G2].
      destruct (s_args (seval defs n bl tg) inits [] st) as [[o1|vs] st1] eqn:E.
      * inv HS. pose proof (args_rel _ _ (CL bl tg) pb IH0 inits [] st _ _ G1 E) as X. cbn in X.
        destruct X as [X A]; [congruence|]. rewrite X. destruct o; try contradiction; fin.
      * pose proof (args_rel _ _ (CL bl tg) pb IH0 inits [] st _ _ G1 E) as X. cbn in X.
        rewrite X by discriminate.
        eapply (seq_rel _ _ (CL bl tg) false is_marker R G R G); eauto using g_all_seq.
        -- intros f Gf. eapply IH; eauto using ctx_plain.
        -- intros f Gf. eapply IH; eauto using ctx_plain.
    + (* Block *)
      destruct (s_seq (seval defs n (t :: bl) tg) body VNil st) as [o1 st1] eqn:E.
      assert (NO1 : o1 <> OOF).
      { intro; subst. cbn in HS. inv HS. congruence. }
      destruct (seq_rel (meval defs n ((true, t) :: sc) tb) _ (CL (t :: bl) tg) true is_ret (t :: R) [] (t :: R) G)
        with (fs := body) (lm := VNil) (ls := VNil) (st := st) (o := o1) (st' := st1) as (r0 & EM & RL & EX); auto.
      { intros v Mk. destruct v; cbn in *; congruence. }
      { discriminate. }
      { intros f Gf. eapply IH; eauto using ctx_block, ctx_nogo. }
      { intros f Gf. eapply IH; eauto using ctx_block. }
      assert (C1 : oclean o1) by (eapply s_progn_clean; eauto).
      pose proof (rel_inv _ _ RL C1) as RI.
      rewrite EM. destruct o1; cbn [catch] in HS.
      * destruct RI as (vm & -> & Nv & Mk & _). inv HS.
        exists (MVal vm). split; [destruct vm; cbn in Mk; try discriminate; reflexivity|].
        split; [first [exact RL | cbn; congruence | cbn; reflexivity] | exact I].
      * destruct RI as (vm & -> & Nv). cbn in EX. destruct (N.eqb t t0) eqn:TE; inv HS.
        -- eexists. split; [reflexivity|]. split; [reflexivity | exact I].
        -- eexists. split; [reflexivity|]. split; [reflexivity|]. cbn. rewrite N.eqb_sym, TE in EX. exact EX.
      * try subst r0. inv HS. fin.
      * try subst r0. inv HS. fin.
      * try subst r0. inv HS. fin.
      * congruence.
    + (* ReturnFrom *)
      apply andb_true_iff in Gd. destruct Gd as [G1 G2].
      destruct CX as (CA & CB & CC). destruct (CA _ G1) as [IB MB]. rewrite IB. rewrite MB in HS.
      destruct (seval defs n bl tg f st) as [o1 st1] eqn:E.
      assert (NO1 : o1 <> OOF) by (intro; subst; inv HS; congruence).
      destruct (IH0 f G2 st o1 st1 E NO1) as (r0 & EM & RL & EX).
      pose proof (rel_inv _ _ RL (CL _ _ _ _ _ _ E)) as RI.
      rewrite EM. destruct o1; cbn in EX; try discriminate.
      * destruct RI as (vm & -> & Nv & _). inv HS. eexists. split; [reflexivity|]. split; [reflexivity | exact G1].
      * try subst r0. inv HS. fin.
      * try subst r0. inv HS. fin.
      * congruence.
    + (* Return *)
      apply andb_true_iff in Gd. destruct Gd as [G1 G2].
      destruct CX as (CA & CB & CC). destruct (CA _ G1) as [IB MB]. rewrite IB. rewrite MB in HS.
      destruct (seval defs n bl tg f st) as [o1 st1] eqn:E.
      assert (NO1 : o1 <> OOF) by (intro; subst; inv HS; congruence).
      destruct (IH0 f G2 st o1 st1 E NO1) as (r0 & EM & RL & EX).
      pose proof (rel_inv _ _ RL (CL _ _ _ _ _ _ E)) as RI.
      rewrite EM. destruct o1; cbn in EX; try discriminate.
      * destruct RI as (vm & -> & Nv & _). inv HS. eexists. split; [reflexivity|]. split; [reflexivity | exact G1].
      * try subst r0. inv HS. fin.
      * try subst r0. inv HS. fin.
      * congruence.
    + (* Tagbody *)
      apply andb_true_iff in Gd. destruct Gd as [Gd G3]. apply andb_true_iff in Gd. destruct Gd as [G1 G2].
      destruct (items_rel (meval defs n ((false, 0%N) :: sc) true) _ (CL bl (tags_of items ++ tg))
                  false true onret_none [] items n (fun _ => G1) G2)
        with (len := length items) (items := items) (pre := @nil item) (k := n) (st := st) (o := o) (st' := st')
        as (x & EM & IO); auto.
      { discriminate. }
      { intros f G' Gf SUB. eapply IH; eauto. destruct CX as (CA & CB & CC).
        split; [discriminate|]. split; [| discriminate].
        intros t Ht. split; [reflexivity|]. rewrite memN_app, (SUB _ Ht). reflexivity. }
      rewrite EM. destruct o; cbn in IO; try contradiction.
      * destruct IO as [-> ->]. fin.
      * destruct IO as (vm & y & _ & _ & _ & M0). discriminate.
      * try subst x. fin.
      * try subst x. fin.
    + (* Go *)
      destruct CX as (CA & CB & CC). destruct (CB _ Gd) as [TB MG]. rewrite TB. rewrite MG in HS. inv HS.
      eexists. split; [reflexivity|]. split; [reflexivity | exact Gd].
    + (* UnwindProtect *)
      apply andb_true_iff in Gd. destruct Gd as [G1 G2].
      destruct (seval defs n bl tg f (log (EEnter u) st)) as [o1 st1] eqn:E.
      assert (NO1 : o1 <> OOF) by (intro; subst; inv HS; congruence).
      destruct (IHRG f G1 _ o1 st1 E NO1) as (r0 & EM & RL & EX).
      pose proof (rel_inv _ _ RL (CL _ _ _ _ _ _ E)) as RI.
      rewrite EM.
      destruct (s_seq (seval defs n bl tg) cleanup VNil (log (ECleanup u) st1)) as [o2 st2] eqn:E2.
      assert (X : o1 <> Hang -> o2 <> OOF ->
                  exists r2, m_seq (meval defs n sc tb) never cleanup VNil (log (ECleanup u) st1) = (r2, st2) /\
                             norm_res r2 = to_mres o2 /\ exits_ok [] [] o2).
      { intros _ NO2. eapply progn_rel; eauto using g_all_seq. }
      assert (C2 : oclean o2) by (eapply s_progn_clean; eauto).
      destruct o1.
      * destruct RI as (vm & -> & Nv & Mk & _).
        assert (NO2 : o2 <> OOF) by (intro; subst; inv HS; congruence).
        destruct (X ltac:(discriminate) NO2) as (r2 & EM2 & RL2 & EX2). rewrite EM2.
        pose proof (rel_inv _ _ RL2 C2) as RI2.
        destruct o2; cbn in EX2; try discriminate; inv HS.
        -- destruct RI2 as (vm2 & -> & _). eexists. split; [reflexivity|]. split; [first [exact RL | cbn; congruence | cbn; reflexivity] | exact I].
        -- try subst r2. fin.
        -- try subst r2. fin.
        -- congruence.
      * destruct RI as (vm & -> & Nv).
        assert (NO2 : o2 <> OOF) by (intro; subst; inv HS; congruence).
        destruct (X ltac:(discriminate) NO2) as (r2 & EM2 & RL2 & EX2). rewrite EM2.
        pose proof (rel_inv _ _ RL2 C2) as RI2.
        destruct o2; cbn in EX2; try discriminate; inv HS.
        -- destruct RI2 as (vm2 & -> & _). eexists. split; [reflexivity|]. split; [first [exact RL | cbn; congruence | cbn; reflexivity] | exact EX].
        -- try subst r2. fin.
        -- try subst r2. fin.
        -- congruence.
      * try subst r0.
        assert (NO2 : o2 <> OOF) by (intro; subst; inv HS; congruence).
        destruct (X ltac:(discriminate) NO2) as (r2 & EM2 & RL2 & EX2). rewrite EM2.
        pose proof (rel_inv _ _ RL2 C2) as RI2.
        destruct o2; cbn in EX2; try discriminate; inv HS.
        -- destruct RI2 as (vm2 & -> & _). eexists. split; [reflexivity|]. split; [first [exact RL | cbn; congruence | cbn; reflexivity] | exact EX].
        -- try subst r2. fin.
        -- try subst r2. fin.
        -- congruence.
      * try subst r0.
        assert (NO2 : o2 <> OOF) by (intro; subst; inv HS; congruence).
        destruct (X ltac:(discriminate) NO2) as (r2 & EM2 & RL2 & EX2). rewrite EM2.
        pose proof (rel_inv _ _ RL2 C2) as RI2.
        destruct o2; cbn in EX2; try discriminate; inv HS.
        -- destruct RI2 as (vm2 & -> & _). fin.
        -- try subst r2. fin.
        -- try subst r2. fin.
        -- congruence.
      * try subst r0. inv HS. fin.
      * congruence.
    + (* IgnoreErrors *)
      destruct (s_seq (seval defs n bl tg) body VNil st) as [o1 st1] eqn:E.
      assert (NO1 : o1 <> OOF) by (intro; subst; inv HS; congruence).
      destruct (progn_rel _ _ (CL bl tg) pb R G IH0 IHRG body st o1 st1 Gd E NO1) as (r0 & EM & RL & EX).
      assert (C1 : oclean o1) by (eapply s_progn_clean; eauto).
      pose proof (rel_inv _ _ RL C1) as RI. rewrite EM.
      destruct o1; inv HS.
      * destruct RI as (vm & -> & Nv & _). eexists. split; [reflexivity|]. split; [first [exact RL | cbn; congruence | cbn; reflexivity] | exact I].
      * destruct RI as (vm & -> & Nv). eexists. split; [reflexivity|]. split; [first [exact RL | cbn; congruence | cbn; reflexivity] | exact EX].
      * try subst r0. fin.
      * try subst r0. fin.
      * try subst r0. fin.
      * congruence.
    + (* Recover *)
      apply andb_true_iff in Gd. destruct Gd as [G1 G2].
      destruct (s_seq (seval defs n bl tg) body VNil st) as [o1 st1] eqn:E.
      assert (NO1 : o1 <> OOF) by (intro; subst; inv HS; congruence).
      destruct (progn_rel _ _ (CL bl tg) pb R G IH0 IHRG body st o1 st1 G2 E NO1) as (r0 & EM & RL & EX).
      assert (C1 : oclean o1) by (eapply s_progn_clean; eauto).
      pose proof (rel_inv _ _ RL C1) as RI. rewrite EM.
      destruct o1; try solve [inv HS].
      * destruct RI as (vm & -> & Nv & _). inv HS. eexists. split; [reflexivity|]. split; [first [exact RL | cbn; congruence | cbn; reflexivity] | exact I].
      * destruct RI as (vm & -> & Nv). inv HS. eexists. split; [reflexivity|]. split; [first [exact RL | cbn; congruence | cbn; reflexivity] | exact EX].
      * try subst r0. inv HS. fin.
      * try subst r0. eapply IH; eauto using ctx_plain.
      * try subst r0. inv HS. fin.
      * congruence.
    + (* WithMutex *)
      destruct (N.testbit (locks st) m); [inv HS; fin|].
      destruct (s_seq (seval defs n bl tg) body VNil (lock m st)) as [o1 st1] eqn:E.
      assert (NO1 : o1 <> OOF) by (intro; subst; inv HS; congruence).
      destruct (progn_rel _ _ (CL bl tg) pb R G IH0 IHRG body _ o1 st1 Gd E NO1) as (r0 & EM & RL & EX).
      assert (C1 : oclean o1) by (eapply s_progn_clean; eauto).
      pose proof (rel_inv _ _ RL C1) as RI. rewrite EM.
      destruct o1; inv HS.
      * destruct RI as (vm & -> & Nv & _). eexists. split; [reflexivity|]. split; [first [exact RL | cbn; congruence | cbn; reflexivity] | exact I].
      * destruct RI as (vm & -> & Nv). eexists. split; [reflexivity|]. split; [first [exact RL | cbn; congruence | cbn; reflexivity] | exact EX].
      * try subst r0. fin.
      * try subst r0. fin.
      * try subst r0. fin.
      * congruence.
    + (* WithFile *)
      destruct (s_seq (seval defs n bl tg) body VNil (fopen f st)) as [o1 st1] eqn:E.
      assert (NO1 : o1 <> OOF) by (intro; subst; inv HS; congruence).
      destruct (progn_rel (meval defs n ((false, 0%N) :: sc) tb) _ (CL bl tg) false R G) with (fs := body)
        (st := fopen f st) (o := o1) (st' := st1) as (r0 & EM & RL & EX); auto.
      { intros f0 Gf. eapply IH; eauto using ctx_plain, ctx_noexit. }
      { intros f0 Gf. eapply IH; eauto using ctx_plain. }
      assert (C1 : oclean o1) by (eapply s_progn_clean; eauto).
      pose proof (rel_inv _ _ RL C1) as RI. rewrite EM.
      destruct o1; inv HS.
      * destruct RI as (vm & -> & Nv & _). eexists. split; [reflexivity|]. split; [first [exact RL | cbn; congruence | cbn; reflexivity] | exact I].
      * destruct RI as (vm & -> & Nv). eexists. split; [reflexivity|]. split; [first [exact RL | cbn; congruence | cbn; reflexivity] | exact EX].
      * try subst r0. fin.
      * try subst r0. fin.
      * try subst r0. fin.
      * congruence.
    + (* Loop *)
      apply andb_true_iff in Gd. destruct Gd as [Gd G3]. apply andb_true_iff in Gd. destruct Gd as [G1 G2].
      destruct (s_iter (seval defs n (0%N :: bl) (tags_of body ++ tg)) n n0 body st) as [o1 st1] eqn:E.
      assert (NO1 : o1 <> OOF) by (intro; subst; cbn in HS; inv HS; congruence).
      assert (CXL : forall G', (forall t, memN t G' = true -> memN t (tags_of body) = true) ->
                    ctx_ok true (0%N :: R) G' ((true, 0%N) :: sc) true (0%N :: bl) (tags_of body ++ tg)).
      { intros G' SUB. destruct (ctx_block 0%N _ _ _ _ _ _ _ CX) as (CA & _ & CC).
        split; [exact CA|]. split; [| exact CC].
        intros t Ht. split; [reflexivity|]. rewrite memN_app, (SUB _ Ht). reflexivity. }
      destruct (iter_rel (meval defs n ((true, 0%N) :: sc) true) _ (CL (0%N :: bl) (tags_of body ++ tg))
                  true onret_loop (0%N :: R) body n G1) with (n := n0) (st := st) (o := o1) (st' := st1)
        as (x & EM & IO); auto.
      { intros; discriminate. }
      { intros f0 G' Gf SUB. eapply IH; eauto. }
      rewrite EM. destruct o1; cbn in IO; try contradiction.
      * destruct IO as [-> _].
        destruct (seval defs n (0%N :: bl) tg f st1) as [o2 st2] eqn:E2.
        assert (NO2 : o2 <> OOF) by (intro; subst; cbn in HS; inv HS; congruence).
        assert (CXR : ctx_ok true [] [] ((true, 0%N) :: sc) true (0%N :: bl) tg).
        { split; [discriminate|]. split; [discriminate | reflexivity]. }
        destruct (IH true [] [] _ true _ _ f G3 CXR st1 o2 st2 E2 NO2) as (r2 & EM2 & RL2 & EX2).
        destruct o2; cbn in EX2; try discriminate; cbn in HS; inv HS;
          (exists r2; split; [exact EM2 | split; [exact RL2 | exact I]]).
      * destruct IO as (vm & y & OY & Nv & -> & Mr). unfold onret_loop in OY. inv OY.
        cbn [catch] in HS. rewrite (N.eqb_sym t 0) . destruct (N.eqb 0 t) eqn:TE; inv HS.
        -- eexists. split; [reflexivity|]. split; [reflexivity | exact I].
        -- eexists. split; [reflexivity|]. split; [reflexivity|]. cbn. cbn in Mr. rewrite N.eqb_sym, TE in Mr. exact Mr.
      * try subst x. cbn in HS. inv HS. fin.
      * try subst x. cbn in HS. inv HS. fin.
    + (* Do *)
      apply andb_true_iff in Gd. destruct Gd as [Gd G3]. apply andb_true_iff in Gd. destruct Gd as [G1 G2].
      destruct (s_iter (seval defs n (0%N :: bl) (tags_of body ++ tg)) n n0 body st) as [o1 st1] eqn:E.
      assert (NO1 : o1 <> OOF) by (intro; subst; cbn in HS; inv HS; congruence).
      set (Ri := 0%N :: (if pb then R else [])) in *.
      assert (CXL : forall G', (forall t, memN t G' = true -> memN t (tags_of body) = true) ->
                    ctx_ok true Ri G' ((true, 0%N) :: sc) true (0%N :: bl) (tags_of body ++ tg)).
      { intros G' SUB. destruct (ctx_block 0%N _ _ _ _ _ _ _ CX) as (CA & _ & CC).
        split; [| split; [| exact CC]].
        - intros t Ht. apply CA. subst Ri. cbn in Ht |- *. destruct (N.eqb t 0); [reflexivity|].
          cbn in Ht |- *. destruct pb; [exact Ht | discriminate].
        - intros t Ht. split; [reflexivity|]. rewrite memN_app, (SUB _ Ht). reflexivity. }
      assert (OR : forall t v, memN t Ri = true -> onret_do (head_block sc) t v <> None).
      { intros t v Ht. unfold onret_do. subst Ri. cbn in Ht. destruct (N.eqb t 0); [discriminate|].
        cbn in Ht. destruct pb; [| discriminate]. destruct CX as (_ & _ & CC). rewrite (CC eq_refl). discriminate. }
      destruct (iter_rel (meval defs n ((true, 0%N) :: sc) true) _ (CL (0%N :: bl) (tags_of body ++ tg))
                  true (onret_do (head_block sc)) Ri body n G1 OR) with (n := n0) (st := st) (o := o1) (st' := st1)
        as (x & EM & IO); auto.
      { intros f0 G' Gf SUB. eapply IH; eauto. }
      rewrite EM. destruct o1; cbn in IO; try contradiction.
      * destruct IO as [-> _].
        destruct (s_seq (seval defs n (0%N :: bl) tg) res VNil st1) as [o2 st2] eqn:E2.
        assert (NO2 : o2 <> OOF) by (intro; subst; cbn in HS; inv HS; congruence).
        assert (CXR : ctx_ok true [] [] ((true, 0%N) :: sc) true (0%N :: bl) tg).
        { split; [discriminate|]. split; [discriminate | reflexivity]. }
        destruct (progn_rel (meval defs n ((true, 0%N) :: sc) true) _ (CL (0%N :: bl) tg) true [] []) with (fs := res)
          (st := st1) (o := o2) (st' := st2) as (r2 & EM2 & RL2 & EX2); auto using g_all_seq.
        { intros f0 Gf. eapply IH; eauto. }
        { intros f0 Gf. eapply IH; eauto. }
        destruct o2; cbn in EX2; try discriminate; cbn in HS; inv HS;
          (exists r2; split; [exact EM2 | split; [exact RL2 | exact I]]).
      * destruct IO as (vm & y & OY & Nv & -> & Mr). unfold onret_do in OY.
        cbn [catch] in HS. rewrite (N.eqb_sym t 0) in OY. destruct (N.eqb 0 t) eqn:TE.
        -- inv OY. inv HS. eexists. split; [reflexivity|]. split; [reflexivity | exact I].
        -- destruct (head_block sc); inv OY. inv HS. eexists. split; [reflexivity|]. split; [reflexivity|].
           cbn. subst Ri. cbn in Mr. rewrite N.eqb_sym, TE in Mr. cbn in Mr. destruct pb; [exact Mr | discriminate].
      * try subst x. cbn in HS. inv HS. fin.
      * try subst x. cbn in HS. inv HS. fin.
    + (* Lam *)
      eapply (seq_rel (meval defs n ((true, LAMBDA) :: sc) tb) _ (CL bl tg) true is_ret R [] R G); eauto.
      * intros v Mk. destruct v; cbn in *; congruence.
      * discriminate.
      * intros f Gf. eapply IH; eauto using ctx_lam, ctx_nogo.
      * intros f Gf. eapply IH; eauto using ctx_lam.
    + (* CallU *)
      destruct (nth_error defs i) as [body|] eqn:NE; [| inv HS; fin].
      pose proof (gd_defs_nth _ 0 _ _ GD NE) as GB. cbn in GB.
      destruct (s_seq (seval defs n [fn_tag i] []) body VNil st) as [o1 st1] eqn:E.
      assert (NO1 : o1 <> OOF) by (intro; subst; cbn in HS; inv HS; congruence).
      assert (CXF : ctx_ok true [fn_tag i] [] ((true, fn_tag i) :: sc) tb [fn_tag i] []).
      { split; [| split; [discriminate | reflexivity]].
        intros t Ht. cbn in Ht |- *. rewrite orb_false_r in Ht. rewrite N.eqb_sym, Ht. split; reflexivity. }
      destruct (seq_rel (meval defs n ((true, fn_tag i) :: sc) tb) _ (CL [fn_tag i] []) true is_ret
                  [fn_tag i] [] [fn_tag i] []) with (fs := body) (lm := VNil) (ls := VNil) (st := st) (o := o1) (st' := st1)
        as (r0 & EM & RL & EX); auto using g_all_seq.
      { intros v Mk. destruct v; cbn in *; congruence. }
      { intros f Gf. eapply IH; eauto. }
      { intros f Gf. eapply IH; eauto. }
      assert (C1 : oclean o1) by (eapply s_progn_clean; eauto).
      pose proof (rel_inv _ _ RL C1) as RI.
      rewrite EM. destruct o1; cbn [catch] in HS.
      * destruct RI as (vm & -> & Nv & Mk & _). inv HS.
        exists (MVal vm). split; [destruct vm; cbn in Mk; try discriminate; reflexivity|].
        split; [first [exact RL | cbn; congruence | cbn; reflexivity] | exact I].
      * destruct RI as (vm & -> & Nv). cbn in EX. rewrite orb_false_r in EX.
        rewrite EX. rewrite N.eqb_sym, EX in HS. inv HS. eexists. split; [reflexivity|]. split; [reflexivity | exact I].
      * discriminate.
      * try subst r0. inv HS. fin.
      * try subst r0. inv HS. fin.
      * congruence.
Qed.

(* whole programs: fresh top-level scope on both sides *)
Theorem impl_eq_ref : forall p fuel st o st',
  guard p = true -> srun fuel p st = (o, st') -> o <> OOF ->
  exists r, mrun fuel p st = (r, st') /\ norm_res r = to_mres o /\
            (forall t v, o <> Ret t v) /\ (forall t, o <> Goto t).
Proof.
  intros [defs main] fuel st o st' Gp HS NO. unfold guard in Gp. cbn [fst snd] in Gp.
  apply andb_true_iff in Gp. destruct Gp as [G1 G2].
  assert (CX : ctx_ok false [] [] [] false [] []) by (repeat split; discriminate).
  destruct (refine defs G2 fuel false [] [] [] false [] [] main G1 CX st o st' HS NO) as (r & EM & RL & EX).
  exists r. split; [exact EM|]. split; [exact RL|].
  split; intros; intro; subst; cbn in EX; discriminate.
Qed.
