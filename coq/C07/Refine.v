(* C07 — impl_eq_ref: inside the guard (lexically scoped programs) the transcription of the Go code (M) and
   the reference (S) agree on the outcome and on the whole final state (trace with ghost events, counters,
   locks, files), for every program, every nesting depth, every initial state.  Induction on the
   evaluation (fuel) with one lemma per body loop of the Go code. *)
From C07 Require Import Model Spec.

Ltac inv H := inversion H; subst; clear H.

(* ---- values of S are never markers / two-valued objects -------------------------------------------- *)
Definition cleanb (v : value) : bool := match v with VRetM _ _ | VGoM _ | VNilVals => false | _ => true end.
Definition oclean (o : outcome) : Prop :=
  match o with Normal v | Ret _ v => cleanb v = true | _ => True end.
Definition sclean (ev : form -> state -> outcome * state) : Prop :=
  forall f st o st', ev f st = (o, st') -> oclean o.

Lemma clean_norm : forall v, cleanb v = true -> norm v = v.
Proof. destruct v; cbn; intros; congruence. Qed.
Lemma clean_marker : forall v, cleanb v = true -> is_marker v = false.
Proof. destruct v; cbn; intros; congruence. Qed.
Lemma clean_mk_list : forall vs, cleanb (mk_list vs) = true.
Proof. destruct vs; reflexivity. Qed.

Lemma s_seq_clean : forall ev, sclean ev -> forall fs last st o st',
  cleanb last = true -> s_seq ev fs last st = (o, st') -> oclean o.
Proof.
  intros ev Hev. induction fs as [|f fs IH]; intros last st o st' L H; cbn in H.
  - inv H. exact L.
  - destruct (ev f st) as [o1 st1] eqn:E. pose proof (Hev _ _ _ _ E) as C.
    destruct o1; try solve [inv H; exact C]. eapply IH; eauto.
Qed.
Lemma s_progn_clean : forall ev, sclean ev -> forall fs st o st',
  s_seq ev fs VNil st = (o, st') -> oclean o.
Proof. intros. eapply s_seq_clean; [eassumption | | eassumption]. reflexivity. Qed.
Lemma s_args_clean : forall ev, sclean ev -> forall fs acc st o st',
  s_args ev fs acc st = (inl o, st') -> oclean o.
Proof.
  intros ev Hev. induction fs as [|f fs IH]; intros acc st o st' H; cbn in H.
  - inv H.
  - destruct (ev f st) as [o1 st1] eqn:E. pose proof (Hev _ _ _ _ E) as C.
    destruct o1; try solve [inv H; exact C]. eapply IH; eauto.
Qed.
Lemma s_cond_clean : forall ev, sclean ev -> forall cs st o st', s_cond ev cs st = (o, st') -> oclean o.
Proof.
  intros ev Hev. induction cs as [|[c b] cs IH]; intros st o st' H; cbn in H.
  - inv H. reflexivity.
  - destruct (ev c st) as [o1 st1] eqn:E. pose proof (Hev _ _ _ _ E) as C.
    destruct o1; try solve [inv H; exact C].
    destruct (is_nil v); [eapply IH; eauto|].
    destruct b; [inv H; exact C | eapply s_progn_clean; eauto].
Qed.
Lemma s_pass_clean : forall ev own, sclean ev -> forall items st o st',
  s_pass ev own items st = (SOut o, st') -> oclean o.
Proof.
  intros ev own Hev. induction items as [|[t|f] items IH]; intros st o st' H; cbn in H.
  - inv H.
  - eapply IH; eauto.
  - destruct (ev f st) as [o1 st1] eqn:E. pose proof (Hev _ _ _ _ E) as C.
    destruct o1; try solve [inv H; exact C]; [eapply IH; eauto|].
    destruct (memN t own); inv H. exact I.
Qed.
Lemma s_tagbody_clean : forall ev all, sclean ev -> forall k items st o st',
  s_tagbody ev all k items st = (o, st') -> oclean o.
Proof.
  intros ev all Hev. induction k as [|k IH]; intros items st o st' H; cbn in H;
    destruct (s_pass ev (tags_of all) items st) as [x st1] eqn:E; destruct x;
    try solve [inv H; try reflexivity; try exact I; eapply s_pass_clean; eauto].
  eapply IH; eauto.
Qed.
Lemma s_iter_clean : forall ev k, sclean ev -> forall n body st o st',
  s_iter ev k n body st = (o, st') -> oclean o.
Proof.
  intros ev k Hev. induction n as [|n IH]; intros body st o st' H; cbn in H.
  - inv H. reflexivity.
  - destruct (s_tagbody ev body k body st) as [o1 st1] eqn:E. pose proof (s_tagbody_clean _ _ Hev _ _ _ _ _ E) as C.
    destruct o1; try solve [inv H; exact C]. eapply IH; eauto.
Qed.
Lemma catch_clean : forall t r, oclean (fst r) -> oclean (fst (catch t r)).
Proof. intros t [o st] C. cbn in *. destruct o; try exact C. destruct (N.eqb t t0); exact C. Qed.

Theorem seval_clean : forall defs fuel bl tg, sclean (seval defs fuel bl tg).
Proof.
  intros defs. induction fuel as [|n IH]; intros bl tg f st o st' H.
  - cbn in H. inv H. exact I.
  - destruct f; cbn [seval] in H.
    + inv H. destruct l; reflexivity.
    + inv H. reflexivity.
    + inv H. exact I.
    + destruct (nth_error (vars st) x); inv H; [reflexivity | exact I].
    + destruct (nth_error (vars st) x); inv H; [destruct (z <? k)%Z; reflexivity | exact I].
    + inv H. reflexivity.
    + destruct (s_args (seval defs n bl tg) args [] st) as [[o1|vs] st1] eqn:E; inv H.
      * eapply s_args_clean; eauto.
      * apply clean_mk_list.
    + eapply s_progn_clean; eauto.
    + destruct (seval defs n bl tg f st) as [o1 st1] eqn:E. pose proof (IH _ _ _ _ _ _ E) as C.
      destruct o1; try solve [inv H; exact C].
      destruct (is_nil v); [inv H; reflexivity | eapply s_progn_clean; eauto].
    + eapply s_cond_clean; eauto.
    + destruct (s_args (seval defs n bl tg) inits [] st) as [[o1|vs] st1] eqn:E.
      * inv H. eapply s_args_clean; eauto.
      * eapply s_progn_clean; eauto.
    + pose proof (catch_clean t (s_seq (seval defs n (t :: bl) tg) body VNil st)) as X.
      rewrite H in X. apply X.
      destruct (s_seq (seval defs n (t :: bl) tg) body VNil st) eqn:E. eapply s_progn_clean; eauto.
    + destruct (memN t bl); [| inv H; exact I].
      destruct (seval defs n bl tg f st) as [o1 st1] eqn:E. pose proof (IH _ _ _ _ _ _ E) as C.
      destruct o1; inv H; exact C.
    + destruct (memN 0%N bl); [| inv H; exact I].
      destruct (seval defs n bl tg f st) as [o1 st1] eqn:E. pose proof (IH _ _ _ _ _ _ E) as C.
      destruct o1; inv H; exact C.
    + eapply s_tagbody_clean; eauto.
    + destruct (memN t tg); inv H; exact I.
    + destruct (seval defs n bl tg f (log (EEnter u) st)) as [o1 st1] eqn:E. pose proof (IH _ _ _ _ _ _ E) as C.
      destruct o1; try solve [inv H; exact I];
        (destruct (s_seq (seval defs n bl tg) cleanup VNil (log (ECleanup u) st1)) as [o2 st2] eqn:E2;
         assert (C2 : oclean o2) by (eapply s_progn_clean; eauto);
         destruct o2; inv H; first [exact C | exact C2]).
    + destruct (s_seq (seval defs n bl tg) body VNil st) as [o1 st1] eqn:E.
      assert (C : oclean o1) by (eapply s_progn_clean; eauto).
      destruct o1; inv H; first [exact C | reflexivity].
    + destruct (s_seq (seval defs n bl tg) body VNil st) as [o1 st1] eqn:E.
      assert (C : oclean o1) by (eapply s_progn_clean; eauto).
      destruct o1; try solve [inv H; exact C]. eapply IH; eauto.
    + destruct (N.testbit (locks st) m); [inv H; exact I|].
      destruct (s_seq (seval defs n bl tg) body VNil (lock m st)) as [o1 st1] eqn:E.
      assert (C : oclean o1) by (eapply s_progn_clean; eauto).
      destruct o1; inv H; exact C.
    + destruct (s_seq (seval defs n bl tg) body VNil (fopen f st)) as [o1 st1] eqn:E.
      assert (C : oclean o1) by (eapply s_progn_clean; eauto).
      destruct o1; inv H; exact C.
    + match type of H with catch ?t ?r = _ => pose proof (catch_clean t r) as X; rewrite H in X; apply X end.
      destruct (s_iter (seval defs n (0%N :: bl) (tags_of body ++ tg)) n n0 body st) as [o2 st2] eqn:E.
      assert (C : oclean o2) by (eapply s_iter_clean; eauto).
      destruct o2; try exact C.
      destruct (seval defs n (0%N :: bl) tg f st2) eqn:E3. eapply IH; eauto.
    + match type of H with catch ?t ?r = _ => pose proof (catch_clean t r) as X; rewrite H in X; apply X end.
      destruct (s_iter (seval defs n (0%N :: bl) (tags_of body ++ tg)) n n0 body st) as [o2 st2] eqn:E.
      assert (C : oclean o2) by (eapply s_iter_clean; eauto).
      destruct o2; try exact C.
      destruct (s_seq (seval defs n (0%N :: bl) tg) res VNil st2) eqn:E3. eapply s_progn_clean; eauto.
    + eapply s_progn_clean; eauto.
    + destruct (nth_error defs i) as [[dc body]|]; [| inv H; exact I].
      match type of H with catch ?t ?r = _ => pose proof (catch_clean t r) as X; rewrite H in X; apply X end.
      destruct (s_seq (seval defs n [fn_tag i] []) body VNil st) eqn:E. eapply s_progn_clean; eauto.
    + destruct (seval defs n bl tg f st) as [o1 st1] eqn:E. pose proof (IH _ _ _ _ _ _ E) as C.
      destruct o1; try solve [inv H; exact C].
      destruct (is_nil v); [eapply s_progn_clean; eauto | inv H; reflexivity].
    + destruct (seval defs n bl tg f1 st) as [o1 st1] eqn:E. pose proof (IH _ _ _ _ _ _ E) as C.
      destruct o1; try solve [inv H; exact C].
      destruct (is_nil v); eapply IH; eauto.
Qed.

(* ---- the refinement relation ------------------------------------------------------------------------ *)
Definition exits_ok (R G : list N) (o : outcome) : Prop :=
  match o with Ret t _ => memN t R = true | Goto t => memN t G = true | _ => True end.

(* whenever S terminates on f with outcome o, M produces the corresponding value / marker / panic, the same
   final state, and o is an exit only to a block in R / a tag in G *)
Definition related (em : form -> state -> mres * state) (es : form -> state -> outcome * state)
           (R G : list N) (f : form) : Prop :=
  forall st o st', es f st = (o, st') -> o <> OOF ->
    exists r, em f st = (r, st') /\ norm_res r = to_mres o /\ exits_ok R G o.

Lemma norm_marker : forall v, is_marker (norm v) = is_marker v.
Proof. destruct v; reflexivity. Qed.

Lemma rel_inv : forall r o, norm_res r = to_mres o -> oclean o ->
  match o with
  | Normal v => exists vm, r = MVal vm /\ norm vm = v /\ is_marker vm = false /\ prim vm = v
  | Ret t v => exists vm, r = MVal (VRetM t vm) /\ norm vm = v
  | Goto t => r = MVal (VGoM t)
  | Err c => r = MErr c
  | Hang => r = MHang
  | OOF => r = MOOF
  end.
Proof.
  intros r o H C. destruct o; destruct r; cbn in H; try discriminate; try congruence.
  - injection H as H. exists v0. cbn in C. subst v. repeat split.
    + rewrite <- norm_marker. apply clean_marker. exact C.
    + destruct v0; cbn in *; try reflexivity. discriminate.
  - injection H as H. destruct v0; cbn in H; try discriminate. injection H as H1 H2. subst.
    eexists. split; reflexivity.
  - injection H as H. destruct v; cbn in H; try discriminate. congruence.
Qed.

Lemma memN_app : forall t a b, memN t (a ++ b) = memN t a || memN t b.
Proof. intros. unfold memN. apply existsb_app. Qed.
Lemma tags_of_app : forall a b, tags_of (a ++ b) = tags_of a ++ tags_of b.
Proof. induction a as [|[t|f] a IH]; intros; cbn; [reflexivity | rewrite IH; reflexivity | apply IH]. Qed.

Lemma s_tagbody_eq : forall ev all k items st,
  s_tagbody ev all k items st =
  match s_pass ev (tags_of all) items st with
  | (SDone, st1) => (Normal VNil, st1)
  | (SOut o, st1) => (o, st1)
  | (SJump t, st1) => match k with O => (OOF, st1) | S k' => s_tagbody ev all k' (after_tag t all) st1 end
  end.
Proof. intros. destruct k; reflexivity. Qed.
Lemma m_tagbody_eq : forall ev onret all k items st,
  m_tagbody ev onret all k items st =
  match m_pass ev onret (tags_of all) items st with
  | (MDone, st1) => (None, st1)
  | (MOut r, st1) => (Some r, st1)
  | (MJump t, st1) => match k with O => (Some MOOF, st1) | S k' => m_tagbody ev onret all k' (after_tag t all) st1 end
  end.
Proof. intros. destruct k; reflexivity. Qed.

Lemma g_items_after : forall R G t items, g_items gd R G items = true -> g_items gd R G (after_tag t items) = true.
Proof.
  induction items as [|[t'|f] items IH]; cbn; intro H; [reflexivity | |].
  - destruct (N.eqb t' t); auto.
  - apply andb_true_iff in H. destruct H as [_ H]. auto.
Qed.

Section Rel.
  Variable em : form -> state -> mres * state.
  Variable es : form -> state -> outcome * state.
  Hypothesis Hclean : sclean es.

  (* every body loop: m_seq *)
  Lemma seq_rel : forall R G,
    (forall f, gd R G f = true -> related em es R G f) ->
    forall fs lm ls st o st', g_all gd R G fs = true -> norm lm = ls -> cleanb ls = true ->
    s_seq es fs ls st = (o, st') -> o <> OOF ->
    exists r, m_seq em fs lm st = (r, st') /\ norm_res r = to_mres o /\ exits_ok R G o.
  Proof.
    intros R G H0.
    induction fs as [|f r IH]; intros lm ls st o st' Gd NL CL HS NO.
    - cbn in HS. inv HS. eexists. split; [reflexivity|]. split; [reflexivity | exact I].
    - cbn [g_all] in Gd. apply andb_true_iff in Gd. destruct Gd as [Gf Gr].
      cbn [s_seq] in HS. destruct (es f st) as [o1 st1] eqn:E.
      assert (NO1 : o1 <> OOF) by (intro; subst; inv HS; congruence).
      destruct (H0 f Gf st o1 st1 E NO1) as (r0 & EM & RL & EX).
      pose proof (rel_inv _ _ RL (Hclean _ _ _ _ E)) as RI.
      cbn [m_seq]. rewrite EM. destruct o1.
      + destruct RI as (vm & -> & Nv & Mk & _). rewrite Mk.
        eapply IH; eauto. exact (Hclean _ _ _ _ E).
      + destruct RI as (vm & -> & Nv). inv HS.
        eexists. split; [reflexivity|]. split; [cbn; reflexivity | exact EX].
      + subst r0. inv HS. eexists. split; [reflexivity|]. split; [reflexivity | exact EX].
      + subst r0. inv HS. eexists. split; [reflexivity|]. split; [reflexivity | exact I].
      + subst r0. inv HS. eexists. split; [reflexivity|]. split; [reflexivity | exact I].
      + congruence.
  Qed.

  Lemma progn_rel : forall R G,
    (forall f, gd R G f = true -> related em es R G f) ->
    forall fs st o st', g_all gd R G fs = true ->
    s_seq es fs VNil st = (o, st') -> o <> OOF ->
    exists r, m_seq em fs VNil st = (r, st') /\ norm_res r = to_mres o /\ exits_ok R G o.
  Proof. intros. eapply seq_rel; eauto. Qed.

  (* Function.Eval / processBinding: an exit in an argument ends the call *)
  Lemma args_rel : forall R G,
    (forall f, gd R G f = true -> related em es R G f) ->
    forall fs acc st x st', g_all gd R G fs = true -> s_args es fs acc st = (x, st') -> x <> inl OOF ->
    match x with
    | inr vs => m_args em fs acc st = (inr vs, st')
    | inl o => exists r, m_args em fs acc st = (inl r, st') /\ norm_res r = to_mres o /\ exits_ok R G o /\
                         (forall v, o <> Normal v)
    end.
  Proof.
    intros R G H0. induction fs as [|f r IH]; intros acc st x st' Gd HS NO; cbn in HS.
    - inv HS. reflexivity.
    - cbn in Gd. apply andb_true_iff in Gd. destruct Gd as [Gf Gr].
      destruct (es f st) as [o1 st1] eqn:E.
      assert (NO1 : o1 <> OOF) by (intro; subst; inv HS; congruence).
      destruct (H0 f Gf st o1 st1 E NO1) as (r0 & EM & RL & EX).
      pose proof (rel_inv _ _ RL (Hclean _ _ _ _ E)) as RI.
      cbn [m_args]. rewrite EM. destruct o1.
      + destruct RI as (vm & -> & _ & Mk & Pv). rewrite Mk, Pv. eapply IH; eauto.
      + destruct RI as (vm & -> & Nv). inv HS.
        eexists. split; [reflexivity|]. split; [cbn; reflexivity|]. split; [exact EX | discriminate].
      + subst r0. inv HS. eexists. split; [reflexivity|]. split; [reflexivity|]. split; [exact EX | discriminate].
      + subst r0. inv HS. eexists. split; [reflexivity|]. split; [reflexivity|]. split; [exact I | discriminate].
      + subst r0. inv HS. eexists. split; [reflexivity|]. split; [reflexivity|]. split; [exact I | discriminate].
      + congruence.
  Qed.

  Lemma cond_rel : forall R G,
    (forall f, gd R G f = true -> related em es R G f) ->
    forall cs st o st', g_clauses gd R G cs = true -> s_cond es cs st = (o, st') -> o <> OOF ->
    exists r, m_cond em cs st = (r, st') /\ norm_res r = to_mres o /\ exits_ok R G o.
  Proof.
    intros R G H0. induction cs as [|[c b] cs IH]; intros st o st' Gd HS NO.
    - cbn in HS. inv HS. eexists. split; [reflexivity|]. split; [reflexivity | exact I].
    - cbn [g_clauses] in Gd. apply andb_true_iff in Gd. destruct Gd as [Gd Gcs]. apply andb_true_iff in Gd. destruct Gd as [Gc Gb].
      cbn [s_cond] in HS. destruct (es c st) as [o1 st1] eqn:E.
      assert (NO1 : o1 <> OOF) by (intro; subst; inv HS; congruence).
      destruct (H0 c Gc st o1 st1 E NO1) as (r0 & EM & RL & EX).
      pose proof (Hclean _ _ _ _ E) as C1.
      pose proof (rel_inv _ _ RL C1) as RI.
      cbn [m_cond]. rewrite EM. destruct o1.
      + destruct RI as (vm & -> & Nv & Mk & Pv).
        rewrite Pv, Mk. destruct (is_nil v).
        * eapply IH; eauto.
        * destruct b as [|f b].
          -- inv HS. eexists. split; [reflexivity|]. split; [| exact I].
             cbn. cbn in C1. rewrite (clean_norm _ C1). reflexivity.
          -- change (m_seq em (f :: b) v st1) with (m_seq em (f :: b) VNil st1). eapply progn_rel; eauto.
      + destruct RI as (vm & -> & Nv). inv HS.
        eexists. split; [reflexivity|]. split; [cbn; reflexivity | exact EX].
      + subst r0. inv HS. eexists. split; [reflexivity|]. split; [reflexivity | exact EX].
      + subst r0. inv HS. eexists. split; [reflexivity|]. split; [reflexivity | exact I].
      + subst r0. inv HS. eexists. split; [reflexivity|]. split; [reflexivity | exact I].
      + congruence.
  Qed.

  (* one pass of the statement loop; own = the tags of the body, G = the tags visible around it *)
  Definition step_rel (onret : N -> value -> value) (R G own : list N) (x : sstep) (y : mstep) : Prop :=
    match x with
    | SDone => y = MDone
    | SJump t => y = MJump t
    | SOut o =>
        match o with
        | Ret t v => exists vm, y = MOut (MVal (onret t vm)) /\ norm vm = v /\ memN t R = true
        | Goto t => y = MOut (MVal (VGoM t)) /\ memN t G = true
        | Err c => y = MOut (MErr c)
        | Hang => y = MOut MHang
        | Normal _ | OOF => False
        end
    end.

  Lemma pass_rel : forall onret R G own,
    (forall f, gd R (own ++ G) f = true -> related em es R (own ++ G) f) ->
    forall items st x st', g_items gd R (own ++ G) items = true ->
      s_pass es own items st = (x, st') -> x <> SOut OOF ->
      exists y, m_pass em onret own items st = (y, st') /\ step_rel onret R G own x y.
  Proof.
    intros onret R G own H0. induction items as [|[t|f] items IH]; intros st x st' Gd HS NO.
    - cbn in HS. inv HS. exists MDone. split; reflexivity.
    - cbn in HS, Gd |- *. eapply IH; eauto.
    - cbn [g_items] in Gd. apply andb_true_iff in Gd. destruct Gd as [Gd Gr].
      apply andb_true_iff in Gd. destruct Gd as [_ Gf].
      cbn [s_pass] in HS. destruct (es f st) as [o1 st1] eqn:E.
      assert (NO1 : o1 <> OOF) by (intro; subst; inv HS; congruence).
      destruct (H0 f Gf st o1 st1 E NO1) as (r0 & EM & RL & EX).
      pose proof (rel_inv _ _ RL (Hclean _ _ _ _ E)) as RI.
      cbn [m_pass]. rewrite EM. destruct o1.
      + destruct RI as (vm & -> & _ & Mk & _).
        assert (X : exists y, m_pass em onret own items st1 = (y, st') /\ step_rel onret R G own x y) by (eapply IH; eauto).
        destruct vm; cbn in Mk; try discriminate; exact X.
      + destruct RI as (vm & -> & Nv). inv HS. eexists. split; [reflexivity|]. cbn. exists vm. auto.
      + subst r0. cbn in EX. rewrite memN_app in EX. destruct (memN t own) eqn:MO; inv HS.
        * eexists. split; [reflexivity | reflexivity].
        * eexists. split; [reflexivity|]. cbn. split; [reflexivity | exact EX].
      + subst r0. inv HS. eexists. split; reflexivity.
      + subst r0. inv HS. eexists. split; reflexivity.
      + congruence.
  Qed.

  (* what the statement loop hands to the form around it *)
  Definition items_out (onret : N -> value -> value) (R G : list N) (o : outcome) (x : option mres) : Prop :=
    match o with
    | Normal v => x = None /\ v = VNil
    | Ret t v => exists vm, x = Some (MVal (onret t vm)) /\ norm vm = v /\ memN t R = true
    | Goto t => x = Some (MVal (VGoM t)) /\ memN t G = true
    | Err c => x = Some (MErr c)
    | Hang => x = Some MHang
    | OOF => False
    end.

  Lemma tagbody_rel : forall onret R G all,
    (forall f, gd R (tags_of all ++ G) f = true -> related em es R (tags_of all ++ G) f) ->
    g_items gd R (tags_of all ++ G) all = true ->
    forall k items st o st', g_items gd R (tags_of all ++ G) items = true ->
      s_tagbody es all k items st = (o, st') -> o <> OOF ->
      exists x, m_tagbody em onret all k items st = (x, st') /\ items_out onret R G o x.
  Proof.
    intros onret R G all H0 GA. induction k as [|k IH]; intros items st o st' Gd HS NO;
      rewrite s_tagbody_eq in HS; rewrite m_tagbody_eq;
      destruct (s_pass es (tags_of all) items st) as [x st1] eqn:E;
      (assert (NX : x <> SOut OOF) by (intro; subst; inv HS; congruence));
      destruct (pass_rel onret R G (tags_of all) H0 items st x st1 Gd E NX) as (y & EM & SR);
      rewrite EM; destruct x; cbn in SR.
    - subst y. inv HS. eexists. split; [reflexivity | split; reflexivity].
    - inv HS. destruct o; try contradiction.
      + destruct SR as (vm & -> & Nv & Mr). eexists. split; [reflexivity|]. cbn. exists vm. auto.
      + destruct SR as [-> Mg]. eexists. split; [reflexivity|]. cbn. auto.
      + subst y. eexists. split; reflexivity.
      + subst y. eexists. split; reflexivity.
    - inv HS. congruence.
    - subst y. inv HS. eexists. split; [reflexivity | split; reflexivity].
    - inv HS. destruct o; try contradiction.
      + destruct SR as (vm & -> & Nv & Mr). eexists. split; [reflexivity|]. cbn. exists vm. auto.
      + destruct SR as [-> Mg]. eexists. split; [reflexivity|]. cbn. auto.
      + subst y. eexists. split; reflexivity.
      + subst y. eexists. split; reflexivity.
    - subst y. eapply IH; eauto. apply g_items_after. exact GA.
  Qed.

  Lemma iter_rel : forall onret R G body k,
    (forall f, gd R (tags_of body ++ G) f = true -> related em es R (tags_of body ++ G) f) ->
    g_items gd R (tags_of body ++ G) body = true ->
    forall n st o st', s_iter es k n body st = (o, st') -> o <> OOF ->
      exists x, m_iter em onret k n body st = (x, st') /\ items_out onret R G o x.
  Proof.
    intros onret R G body k H0 Gd. induction n as [|n IH]; intros st o st' HS NO; cbn in HS.
    - inv HS. exists None. split; [reflexivity | split; reflexivity].
    - destruct (s_tagbody es body k body st) as [o1 st1] eqn:E.
      assert (NO1 : o1 <> OOF) by (intro; subst; inv HS; congruence).
      destruct (tagbody_rel onret R G body H0 Gd k body st o1 st1 Gd E NO1) as (x & EM & IO).
      cbn [m_iter]. rewrite EM. destruct o1; cbn in IO.
      + destruct IO as [-> _]. eapply IH; eauto.
      + destruct IO as (vm & -> & Nv & Mr). inv HS. eexists. split; [reflexivity|]. cbn. exists vm. auto.
      + destruct IO as [-> Mg]. inv HS. eexists. split; [reflexivity|]. cbn. auto.
      + subst x. inv HS. eexists. split; reflexivity.
      + subst x. inv HS. eexists. split; reflexivity.
      + contradiction.
  Qed.
End Rel.

(* ---- contexts ---------------------------------------------------------------------------------------- *)
(* what ties the guard's sets to the two evaluators' contexts: a block in R is on the scope chain InBlock
   walks and lexically visible; a tag in G is lexically visible and the TagBody flag is set *)
Definition ctx_ok (R G : list N) (sc : list scope) (tb : bool) (bl tg : list N) : Prop :=
  (forall t, memN t R = true -> in_block sc t = true /\ memN t bl = true) /\
  (forall t, memN t G = true -> tb = true /\ memN t tg = true).

Lemma ctx_plain : forall R G sc tb bl tg, ctx_ok R G sc tb bl tg -> ctx_ok R G ((false, 0%N) :: sc) tb bl tg.
Proof.
  intros ? ? ? ? ? ? (A & B). split; [| exact B].
  intros t H. apply A in H. destruct H. split; [cbn; assumption | assumption].
Qed.
Lemma ctx_block : forall t R G sc tb bl tg, ctx_ok R G sc tb bl tg ->
  ctx_ok (t :: R) G ((true, t) :: sc) tb (t :: bl) tg.
Proof.
  intros t ? ? ? ? ? ? (A & B). split; [| exact B].
  intros t' H. cbn in H |- *. rewrite N.eqb_sym. destruct (N.eqb t' t); cbn; [split; reflexivity|].
  cbn in H. apply A in H. exact H.
Qed.
Lemma ctx_lam : forall nm R G sc tb bl tg, ctx_ok R G sc tb bl tg ->
  ctx_ok R G ((true, nm) :: sc) tb bl tg.
Proof.
  intros nm ? ? ? ? ? ? (A & B). split; [| exact B].
  intros t' H. apply A in H. destruct H as [H1 H2]. split; [| exact H2]. unfold in_block in *. cbn [existsb]. rewrite H1. apply orb_true_r.
Qed.
(* entering a tagbody-like body with the tags own: the flag is set, the tags are visible *)
Lemma ctx_tags : forall own R G sc tb bl tg, ctx_ok R G sc tb bl tg -> ctx_ok R (own ++ G) sc true bl (own ++ tg).
Proof.
  intros own ? ? ? ? ? ? (A & B). split; [exact A|].
  intros t H. split; [reflexivity|]. rewrite memN_app in H |- *. destruct (memN t own); [reflexivity|].
  cbn in H |- *. apply B in H. apply H.
Qed.

Lemma gd_defs_nth : forall defs k i dc body, gd_defs k defs = true -> nth_error defs i = Some (dc, body) ->
  g_all gd [fn_tag (k + i)] [] body = true.
Proof.
  induction defs as [|[dc0 b] defs IH]; intros k i dc body H E; [destruct i; discriminate|].
  cbn in H. apply andb_true_iff in H. destruct H as [H1 H2]. destruct i; cbn in E.
  - inv E. rewrite Nat.add_0_r. exact H1.
  - replace (k + S i) with (S k + i) by lia. eapply IH; eauto.
Qed.

Ltac fin := eexists; split; [reflexivity | split; [reflexivity | first [exact I | assumption | cbn; auto]]].

(* the catch of a block / of the nil block of a loop on both sides *)
Lemma catch_rel : forall t R G r0 o1 st1 o st',
  norm_res r0 = to_mres o1 -> oclean o1 -> exits_ok (t :: R) G o1 -> o1 <> OOF ->
  catch t (o1, st1) = (o, st') ->
  exists r, m_catch t (r0, st1) = (r, st') /\ norm_res r = to_mres o /\ exits_ok R G o.
Proof.
  intros t R G r0 o1 st1 o st' RL C1 EX NO HS.
  pose proof (rel_inv _ _ RL C1) as RI. destruct o1; cbn [catch] in HS.
  - destruct RI as (vm & -> & Nv & Mk & _). inv HS.
    exists (MVal vm). split; [destruct vm; cbn in Mk; try discriminate; reflexivity|].
    split; [cbn; reflexivity | exact I].
  - destruct RI as (vm & -> & Nv). cbn in EX. cbn [m_catch]. destruct (N.eqb t t0) eqn:TE; inv HS.
    + eexists. split; [reflexivity|]. split; [reflexivity | exact I].
    + eexists. split; [reflexivity|]. split; [reflexivity|]. cbn. rewrite N.eqb_sym, TE in EX. exact EX.
  - subst r0. inv HS. fin.
  - subst r0. inv HS. fin.
  - subst r0. inv HS. fin.
  - congruence.
Qed.

(* ---- the theorem ------------------------------------------------------------------------------------- *)
Theorem refine : forall defs, gd_defs 0 defs = true -> forall fuel R G sc tb bl tg f,
  gd R G f = true -> ctx_ok R G sc tb bl tg ->
  related (meval defs fuel sc tb) (seval defs fuel bl tg) R G f.
Proof.
  intros defs GD. induction fuel as [|n IH]; intros R G sc tb bl tg f Gd CX st o st' HS NO.
  - cbn in HS. inv HS. congruence.
  - pose proof (seval_clean defs n) as CL.
    assert (IHRG : forall f, gd R G f = true -> related (meval defs n sc tb) (seval defs n bl tg) R G f)
      by (intros; eapply IH; eauto).
    destruct f; cbn [seval] in HS; cbn [meval]; cbn [gd] in Gd.
    + (* Const *) inv HS. eexists. split; [reflexivity|]. split; [destruct l; reflexivity | exact I].
    + (* Tr *) inv HS. fin.
    + (* Signal *) inv HS. fin.
    + (* Incf *) destruct (nth_error (vars st) x); inv HS; fin.
    + (* Lt *) destruct (nth_error (vars st) x); inv HS; [| fin].
      eexists. split; [reflexivity|]. split; [destruct (z <? k)%Z; reflexivity | exact I].
    + (* Setv *) inv HS. fin.
    + (* CallList *)
      destruct (s_args (seval defs n bl tg) args [] st) as [[o1|vs] st1] eqn:E; inv HS.
      * pose proof (args_rel _ _ (CL bl tg) R G IHRG args [] st _ _ Gd E) as X. cbn in X.
        destruct X as (r & X & RL & EX & _); [congruence|]. rewrite X. exists r. auto.
      * pose proof (args_rel _ _ (CL bl tg) R G IHRG args [] st _ _ Gd E) as X. cbn in X.
        rewrite X by discriminate. eexists. split; [reflexivity|]. split; [| exact I].
        cbn. rewrite (clean_norm _ (clean_mk_list vs)). reflexivity.
    + (* Progn *)
      eapply progn_rel; eauto.
    + (* When *)
      apply andb_true_iff in Gd. destruct Gd as [G2 G3].
      destruct (seval defs n bl tg f st) as [o1 st1] eqn:E.
      assert (NO1 : o1 <> OOF) by (intro; subst; inv HS; congruence).
      destruct (IHRG f G2 st o1 st1 E NO1) as (r0 & EM & RL & EX).
      pose proof (rel_inv _ _ RL (CL _ _ _ _ _ _ E)) as RI.
      rewrite EM. destruct o1.
      * destruct RI as (vm & -> & Nv & Mk & Pv).
        rewrite Mk, Pv. destruct (is_nil v); [inv HS; fin|].
        eapply progn_rel; eauto.
      * destruct RI as (vm & -> & Nv). inv HS. eexists. split; [reflexivity|]. split; [reflexivity | exact EX].
      * try subst r0. inv HS. fin.
      * try subst r0. inv HS. fin.
      * try subst r0. inv HS. fin.
      * congruence.
    + (* Cond *) eapply cond_rel; eauto.
    + (* Let *)
      apply andb_true_iff in Gd. destruct Gd as [G1 G2].
      destruct (s_args (seval defs n bl tg) inits [] st) as [[o1|vs] st1] eqn:E.
      * inv HS. pose proof (args_rel _ _ (CL bl tg) R G IHRG inits [] st _ _ G1 E) as X. cbn in X.
        destruct X as (r & X & RL & EX & _); [congruence|]. rewrite X. exists r. auto.
      * pose proof (args_rel _ _ (CL bl tg) R G IHRG inits [] st _ _ G1 E) as X. cbn in X.
        rewrite X by discriminate.
        eapply (progn_rel (meval defs n ((false, 0%N) :: sc) tb) _ (CL bl tg) R G);
          [intros f Gf; eapply IH; eauto using ctx_plain | exact G2 | exact HS | exact NO].
    + (* Block *)
      destruct (s_seq (seval defs n (t :: bl) tg) body VNil st) as [o1 st1] eqn:E.
      assert (NO1 : o1 <> OOF).
      { intro; subst. cbn in HS. inv HS. congruence. }
      destruct (progn_rel (meval defs n ((true, t) :: sc) tb) _ (CL (t :: bl) tg) (t :: R) G)
        with (fs := body) (st := st) (o := o1) (st' := st1) as (r0 & EM & RL & EX); auto.
      { intros f Gf. eapply IH; eauto using ctx_block. }
      assert (C1 : oclean o1) by (eapply s_progn_clean; eauto).
      rewrite EM. eapply catch_rel; eauto.
    + (* ReturnFrom *)
      apply andb_true_iff in Gd. destruct Gd as [G1 G2].
      destruct CX as (CA & CB). destruct (CA _ G1) as [IB MB]. rewrite IB. rewrite MB in HS.
      destruct (seval defs n bl tg f st) as [o1 st1] eqn:E.
      assert (NO1 : o1 <> OOF) by (intro; subst; inv HS; congruence).
      destruct (IHRG f G2 st o1 st1 E NO1) as (r0 & EM & RL & EX).
      pose proof (rel_inv _ _ RL (CL _ _ _ _ _ _ E)) as RI.
      rewrite EM. destruct o1.
      * destruct RI as (vm & -> & Nv & Mk & _). rewrite Mk. inv HS. eexists. split; [reflexivity|]. split; [reflexivity | exact G1].
      * destruct RI as (vm & -> & Nv). inv HS. eexists. split; [reflexivity|]. split; [reflexivity | exact EX].
      * try subst r0. inv HS. fin.
      * try subst r0. inv HS. fin.
      * try subst r0. inv HS. fin.
      * congruence.
    + (* Return *)
      apply andb_true_iff in Gd. destruct Gd as [G1 G2].
      destruct CX as (CA & CB). destruct (CA _ G1) as [IB MB]. rewrite IB. rewrite MB in HS.
      destruct (seval defs n bl tg f st) as [o1 st1] eqn:E.
      assert (NO1 : o1 <> OOF) by (intro; subst; inv HS; congruence).
      destruct (IHRG f G2 st o1 st1 E NO1) as (r0 & EM & RL & EX).
      pose proof (rel_inv _ _ RL (CL _ _ _ _ _ _ E)) as RI.
      rewrite EM. destruct o1.
      * destruct RI as (vm & -> & Nv & Mk & _). rewrite Mk. inv HS. eexists. split; [reflexivity|]. split; [reflexivity | exact G1].
      * destruct RI as (vm & -> & Nv). inv HS. eexists. split; [reflexivity|]. split; [reflexivity | exact EX].
      * try subst r0. inv HS. fin.
      * try subst r0. inv HS. fin.
      * try subst r0. inv HS. fin.
      * congruence.
    + (* Tagbody *)
      destruct (tagbody_rel (meval defs n ((false, 0%N) :: sc) true) _ (CL bl (tags_of items ++ tg))
                  onret_pass R G items) with (k := n) (items := items) (st := st) (o := o) (st' := st')
        as (x & EM & IO); auto.
      { intros f Gf. eapply IH; eauto using ctx_plain, ctx_tags. }
      rewrite EM. destruct o; cbn in IO; try contradiction.
      * destruct IO as [-> ->]. fin.
      * destruct IO as (vm & -> & Nv & Mr). eexists. split; [reflexivity|]. split; [cbn; subst v; reflexivity | exact Mr].
      * destruct IO as [-> Mg]. fin.
      * try subst x. fin.
      * try subst x. fin.
    + (* Go *)
      destruct CX as (CA & CB). destruct (CB _ Gd) as [TB MG]. rewrite TB. rewrite MG in HS. inv HS.
      eexists. split; [reflexivity|]. split; [reflexivity | exact Gd].
    + (* UnwindProtect *)
      apply andb_true_iff in Gd. destruct Gd as [G1 G2].
      destruct (seval defs n bl tg f (log (EEnter u) st)) as [o1 st1] eqn:E.
      assert (NO1 : o1 <> OOF) by (intro; subst; inv HS; congruence).
      destruct (IHRG f G1 _ o1 st1 E NO1) as (r0 & EM & RL & EX).
      pose proof (rel_inv _ _ RL (CL _ _ _ _ _ _ E)) as RI.
      rewrite EM.
      destruct (s_seq (seval defs n bl tg) cleanup VNil (log (ECleanup u) st1)) as [o2 st2] eqn:E2.
      assert (X : o2 <> OOF ->
                  exists r2, m_seq (meval defs n sc tb) cleanup VNil (log (ECleanup u) st1) = (r2, st2) /\
                             norm_res r2 = to_mres o2 /\ exits_ok R G o2).
      { intros NO2. eapply progn_rel; eauto. }
      assert (C2 : oclean o2) by (eapply s_progn_clean; eauto).
      assert (FIN : forall r1, (r1 <> MHang) -> (r1 <> MOOF) -> norm_res r1 = to_mres o1 ->
                    (match o1 with Hang | OOF => False | _ => True end) ->
                    (match o2 with Normal _ => (o1, st2) | _ => (o2, st2) end) = (o, st') ->
                    exists r, match m_seq (meval defs n sc tb) cleanup VNil (log (ECleanup u) st1) with
                              | (MVal v, st2) => if is_marker v then (MVal v, st2) else (r1, st2)
                              | (r2, st2) => (r2, st2)
                              end = (r, st') /\ norm_res r = to_mres o /\ exits_ok R G o).
      { intros r1 _ _ RL1 _ HS'.
        assert (NO2 : o2 <> OOF) by (intro; subst; inv HS'; congruence).
        destruct (X NO2) as (r2 & EM2 & RL2 & EX2). rewrite EM2.
        pose proof (rel_inv _ _ RL2 C2) as RI2.
        destruct o2.
        - destruct RI2 as (vm2 & -> & _ & Mk2 & _). rewrite Mk2. inv HS'. exists r1. auto.
        - destruct RI2 as (vm2 & -> & _). inv HS'. eexists. split; [reflexivity|]. split; [exact RL2 | exact EX2].
        - try subst r2. inv HS'. fin.
        - try subst r2. inv HS'. fin.
        - try subst r2. inv HS'. fin.
        - congruence. }
      destruct o1.
      * destruct RI as (vm & -> & _). apply FIN; auto; discriminate.
      * destruct RI as (vm & -> & _). apply FIN; auto; discriminate.
      * try subst r0. apply FIN; auto; discriminate.
      * try subst r0. apply FIN; auto; discriminate.
      * try subst r0. inv HS. fin.
      * congruence.
    + (* IgnoreErrors *)
      destruct (s_seq (seval defs n bl tg) body VNil st) as [o1 st1] eqn:E.
      assert (NO1 : o1 <> OOF) by (intro; subst; inv HS; congruence).
      destruct (progn_rel _ _ (CL bl tg) R G IHRG body st o1 st1 Gd E NO1) as (r0 & EM & RL & EX).
      assert (C1 : oclean o1) by (eapply s_progn_clean; eauto).
      pose proof (rel_inv _ _ RL C1) as RI. rewrite EM.
      destruct o1; inv HS.
      * destruct RI as (vm & -> & Nv & _). eexists. split; [reflexivity|]. split; [first [exact RL | cbn; congruence | cbn; reflexivity] | exact I].
      * destruct RI as (vm & -> & Nv). eexists. split; [reflexivity|]. split; [first [exact RL | cbn; congruence | cbn; reflexivity] | exact EX].
      * try subst r0. fin.
      * try subst r0. fin.
      * try subst r0. fin.
      * congruence.
    + (* Recover *)
      apply andb_true_iff in Gd. destruct Gd as [G1 G2].
      destruct (s_seq (seval defs n bl tg) body VNil st) as [o1 st1] eqn:E.
      assert (NO1 : o1 <> OOF) by (intro; subst; inv HS; congruence).
      destruct (progn_rel _ _ (CL bl tg) R G IHRG body st o1 st1 G2 E NO1) as (r0 & EM & RL & EX).
      assert (C1 : oclean o1) by (eapply s_progn_clean; eauto).
      pose proof (rel_inv _ _ RL C1) as RI. rewrite EM.
      destruct o1; try solve [inv HS].
      * destruct RI as (vm & -> & Nv & _). inv HS. eexists. split; [reflexivity|]. split; [first [exact RL | cbn; congruence | cbn; reflexivity] | exact I].
      * destruct RI as (vm & -> & Nv). inv HS. eexists. split; [reflexivity|]. split; [first [exact RL | cbn; congruence | cbn; reflexivity] | exact EX].
      * try subst r0. inv HS. fin.
      * try subst r0. eapply IH; eauto using ctx_plain.
      * try subst r0. inv HS. fin.
      * congruence.
    + (* WithMutex *)
      destruct (N.testbit (locks st) m); [inv HS; fin|].
      destruct (s_seq (seval defs n bl tg) body VNil (lock m st)) as [o1 st1] eqn:E.
      assert (NO1 : o1 <> OOF) by (intro; subst; inv HS; congruence).
      destruct (progn_rel _ _ (CL bl tg) R G IHRG body _ o1 st1 Gd E NO1) as (r0 & EM & RL & EX).
      assert (C1 : oclean o1) by (eapply s_progn_clean; eauto).
      pose proof (rel_inv _ _ RL C1) as RI. rewrite EM.
      destruct o1; inv HS.
      * destruct RI as (vm & -> & Nv & _). eexists. split; [reflexivity|]. split; [first [exact RL | cbn; congruence | cbn; reflexivity] | exact I].
      * destruct RI as (vm & -> & Nv). eexists. split; [reflexivity|]. split; [first [exact RL | cbn; congruence | cbn; reflexivity] | exact EX].
      * try subst r0. fin.
      * try subst r0. fin.
      * try subst r0. fin.
      * congruence.
    + (* WithFile *)
      destruct (s_seq (seval defs n bl tg) body VNil (fopen f st)) as [o1 st1] eqn:E.
      assert (NO1 : o1 <> OOF) by (intro; subst; inv HS; congruence).
      destruct (progn_rel (meval defs n ((false, 0%N) :: sc) tb) _ (CL bl tg) R G) with (fs := body)
        (st := fopen f st) (o := o1) (st' := st1) as (r0 & EM & RL & EX);
        [intros f0 Gf; eapply IH; eauto using ctx_plain | exact Gd | exact E | exact NO1 |].
      assert (C1 : oclean o1) by (eapply s_progn_clean; eauto).
      pose proof (rel_inv _ _ RL C1) as RI. rewrite EM.
      destruct o1; inv HS.
      * destruct RI as (vm & -> & Nv & _). eexists. split; [reflexivity|]. split; [first [exact RL | cbn; congruence | cbn; reflexivity] | exact I].
      * destruct RI as (vm & -> & Nv). eexists. split; [reflexivity|]. split; [first [exact RL | cbn; congruence | cbn; reflexivity] | exact EX].
      * try subst r0. fin.
      * try subst r0. fin.
      * try subst r0. fin.
      * congruence.
    + (* Loop *)
      apply andb_true_iff in Gd. destruct Gd as [G1 G3].
      destruct (s_iter (seval defs n (0%N :: bl) (tags_of body ++ tg)) n n0 body st) as [o1 st1] eqn:E.
      assert (NO1 : o1 <> OOF) by (intro; subst; cbn in HS; inv HS; congruence).
      destruct (iter_rel (meval defs n ((true, 0%N) :: sc) true) _ (CL (0%N :: bl) (tags_of body ++ tg))
                  onret_loop (0%N :: R) G body n) with (n := n0) (st := st) (o := o1) (st' := st1)
        as (x & EM & IO); auto.
      { intros f0 Gf. eapply IH; eauto using ctx_block, ctx_tags. }
      rewrite EM. destruct o1; cbn in IO; try contradiction.
      * destruct IO as [-> _].
        destruct (seval defs n (0%N :: bl) tg f st1) as [o2 st2] eqn:E2.
        assert (NO2 : o2 <> OOF) by (intro; subst; cbn in HS; inv HS; congruence).
        assert (CXR : ctx_ok (0%N :: R) G ((true, 0%N) :: sc) true (0%N :: bl) tg).
        { destruct (ctx_block 0%N _ _ _ _ _ _ CX) as (CA & CB). split; [exact CA|].
          intros t Ht. split; [reflexivity | apply CB; exact Ht]. }
        destruct (IH (0%N :: R) G _ true _ _ f G3 CXR st1 o2 st2 E2 NO2) as (r2 & EM2 & RL2 & EX2).
        rewrite EM2. eapply catch_rel; eauto. eapply CL; eauto.
      * destruct IO as (vm & -> & Nv & Mr). unfold onret_loop.
        cbn [catch] in HS. rewrite (N.eqb_sym t 0). destruct (N.eqb 0 t) eqn:TE; inv HS.
        -- eexists. split; [reflexivity|]. split; [reflexivity | exact I].
        -- eexists. split; [reflexivity|]. split; [reflexivity|]. cbn. cbn in Mr. rewrite N.eqb_sym, TE in Mr. exact Mr.
      * destruct IO as [-> Mg]. cbn in HS. inv HS. fin.
      * try subst x. cbn in HS. inv HS. fin.
      * try subst x. cbn in HS. inv HS. fin.
    + (* Do *)
      apply andb_true_iff in Gd. destruct Gd as [G1 G3].
      destruct (s_iter (seval defs n (0%N :: bl) (tags_of body ++ tg)) n n0 body st) as [o1 st1] eqn:E.
      assert (NO1 : o1 <> OOF) by (intro; subst; cbn in HS; inv HS; congruence).
      destruct (iter_rel (meval defs n ((true, 0%N) :: sc) true) _ (CL (0%N :: bl) (tags_of body ++ tg))
                  onret_loop (0%N :: R) G body n) with (n := n0) (st := st) (o := o1) (st' := st1)
        as (x & EM & IO); auto.
      { intros f0 Gf. eapply IH; eauto using ctx_block, ctx_tags. }
      rewrite EM. destruct o1; cbn in IO; try contradiction.
      * destruct IO as [-> _].
        destruct (s_seq (seval defs n (0%N :: bl) tg) res VNil st1) as [o2 st2] eqn:E2.
        assert (NO2 : o2 <> OOF) by (intro; subst; cbn in HS; inv HS; congruence).
        assert (CXR : ctx_ok (0%N :: R) G ((true, 0%N) :: sc) true (0%N :: bl) tg).
        { destruct (ctx_block 0%N _ _ _ _ _ _ CX) as (CA & CB). split; [exact CA|].
          intros t Ht. split; [reflexivity | apply CB; exact Ht]. }
        destruct (progn_rel (meval defs n ((true, 0%N) :: sc) true) _ (CL (0%N :: bl) tg) (0%N :: R) G) with (fs := res)
          (st := st1) (o := o2) (st' := st2) as (r2 & EM2 & RL2 & EX2);
          [intros f0 Gf; eapply IH; eauto | exact G3 | exact E2 | exact NO2 |].
        rewrite EM2. eapply catch_rel; eauto. eapply s_progn_clean; eauto.
      * destruct IO as (vm & -> & Nv & Mr). unfold onret_loop.
        cbn [catch] in HS. rewrite (N.eqb_sym t 0). destruct (N.eqb 0 t) eqn:TE; inv HS.
        -- eexists. split; [reflexivity|]. split; [reflexivity | exact I].
        -- eexists. split; [reflexivity|]. split; [reflexivity|]. cbn. cbn in Mr. rewrite N.eqb_sym, TE in Mr. exact Mr.
      * destruct IO as [-> Mg]. cbn in HS. inv HS. fin.
      * try subst x. cbn in HS. inv HS. fin.
      * try subst x. cbn in HS. inv HS. fin.
    + (* Lam *)
      eapply (progn_rel (meval defs n ((true, LAMBDA) :: sc) tb) _ (CL bl tg) R G); eauto.
      intros f Gf. eapply IH; eauto using ctx_lam.
    + (* CallU *)
      destruct (nth_error defs i) as [[dc body]|] eqn:NE; [| inv HS; fin].
      pose proof (gd_defs_nth _ 0 _ _ _ GD NE) as GB. cbn in GB.
      destruct (s_seq (seval defs n [fn_tag i] []) body VNil st) as [o1 st1] eqn:E.
      assert (NO1 : o1 <> OOF) by (intro; subst; cbn in HS; inv HS; congruence).
      assert (CXF : ctx_ok [fn_tag i] [] ((true, fn_tag i) :: dc ++ sc) tb [fn_tag i] []).
      { split; [| discriminate].
        intros t Ht. cbn in Ht |- *. rewrite orb_false_r in Ht. rewrite N.eqb_sym, Ht. split; reflexivity. }
      destruct (progn_rel (meval defs n ((true, fn_tag i) :: dc ++ sc) tb) _ (CL [fn_tag i] []) [fn_tag i] [])
        with (fs := body) (st := st) (o := o1) (st' := st1) as (r0 & EM & RL & EX);
        [intros f Gf; eapply IH; eauto | exact GB | exact E | exact NO1 |].
      assert (C1 : oclean o1) by (eapply s_progn_clean; eauto).
      assert (EX' : exits_ok (fn_tag i :: R) G o1).
      { destruct o1; cbn in EX |- *; try exact I; [| discriminate].
        rewrite orb_false_r in EX. rewrite EX. reflexivity. }
      rewrite EM.
      eapply catch_rel; eauto.
    + (* Unless *)
      apply andb_true_iff in Gd. destruct Gd as [G2 G3].
      destruct (seval defs n bl tg f st) as [o1 st1] eqn:E.
      assert (NO1 : o1 <> OOF) by (intro; subst; inv HS; congruence).
      destruct (IHRG f G2 st o1 st1 E NO1) as (r0 & EM & RL & EX).
      pose proof (rel_inv _ _ RL (CL _ _ _ _ _ _ E)) as RI.
      rewrite EM. destruct o1.
      * destruct RI as (vm & -> & Nv & Mk & Pv).
        rewrite Mk, Pv. destruct (is_nil v); [| inv HS; fin].
        eapply progn_rel; eauto.
      * destruct RI as (vm & -> & Nv). inv HS. eexists. split; [reflexivity|]. split; [reflexivity | exact EX].
      * try subst r0. inv HS. fin.
      * try subst r0. inv HS. fin.
      * try subst r0. inv HS. fin.
      * congruence.
    + (* If *)
      apply andb_true_iff in Gd. destruct Gd as [Gd G4]. apply andb_true_iff in Gd. destruct Gd as [G2 G3].
      destruct (seval defs n bl tg f1 st) as [o1 st1] eqn:E.
      assert (NO1 : o1 <> OOF) by (intro; subst; inv HS; congruence).
      destruct (IHRG f1 G2 st o1 st1 E NO1) as (r0 & EM & RL & EX).
      pose proof (rel_inv _ _ RL (CL _ _ _ _ _ _ E)) as RI.
      rewrite EM. destruct o1.
      * destruct RI as (vm & -> & Nv & Mk & Pv).
        rewrite Mk, Pv. destruct (is_nil v); eapply IHRG; eauto.
      * destruct RI as (vm & -> & Nv). inv HS. eexists. split; [reflexivity|]. split; [reflexivity | exact EX].
      * try subst r0. inv HS. fin.
      * try subst r0. inv HS. fin.
      * try subst r0. inv HS. fin.
      * congruence.
Qed.

(* whole programs: fresh top-level scope on both sides *)
Theorem impl_eq_ref : forall p fuel st o st',
  guard p = true -> srun fuel p st = (o, st') -> o <> OOF ->
  exists r, mrun fuel p st = (r, st') /\ norm_res r = to_mres o /\
            (forall t v, o <> Ret t v) /\ (forall t, o <> Goto t).
Proof.
  intros [defs main] fuel st o st' Gp HS NO. unfold guard in Gp. cbn [fst snd] in Gp.
  apply andb_true_iff in Gp. destruct Gp as [G1 G2].
  assert (CX : ctx_ok [] [] [] false [] []) by (split; discriminate).
  destruct (refine defs G2 fuel [] [] [] false [] [] main G1 CX st o st' HS NO) as (r & EM & RL & EX).
  exists r. split; [exact EM|]. split; [exact RL|].
  split; intros; intro; subst; cbn in EX; discriminate.
Qed.
