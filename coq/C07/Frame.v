(* C07 — frame laws that hold for EVERY program, proved by induction on the evaluation, for the model M of
   the Go code and for the reference S alike: whatever the outcome of a form (value, exit marker, error),
   provided it terminates (no hang on a mutex, no fuel exhaustion),
     - the ghost events EEnter u / ECleanup u it adds to the trace obey a stack discipline: a cleanup that
       starts is that of the innermost protected form still open, and none is left open;
     - every protected form entered has had its cleanup started exactly once;
     - the set of held mutexes and the open-file count are what they were before. *)
From C07 Require Import Model Spec.

(* ---- the trace discipline ---------------------------------------------------------------------- *)
(* lifo stk w: reading w with the protected forms in stk still open (innermost first), each ECleanup u is
   that of the innermost open one, and at the end nothing is open *)
Fixpoint lifo (stk : list N) (w : list event) : bool :=
  match w with
  | [] => match stk with [] => true | _ => false end
  | ETr _ _ _ :: r => lifo stk r
  | EEnter u :: r => lifo (u :: stk) r
  | ECleanup u :: r => match stk with v :: s' => N.eqb u v && lifo s' r | [] => false end
  end.
(* d can be spliced in anywhere without changing the verdict: it opens nothing it does not close in order *)
Definition neutral (d : list event) : Prop := forall stk rest, lifo stk (d ++ rest) = lifo stk rest.

Fixpoint cnt_enter (u : N) (w : list event) : nat :=
  match w with [] => 0 | EEnter v :: r => (if N.eqb u v then 1 else 0) + cnt_enter u r | _ :: r => cnt_enter u r end.
Fixpoint cnt_cleanup (u : N) (w : list event) : nat :=
  match w with [] => 0 | ECleanup v :: r => (if N.eqb u v then 1 else 0) + cnt_cleanup u r | _ :: r => cnt_cleanup u r end.

Lemma cnt_enter_app : forall u a b, cnt_enter u (a ++ b) = cnt_enter u a + cnt_enter u b.
Proof. induction a as [|e a IH]; intros; cbn; [reflexivity|]. destruct e; rewrite IH; lia. Qed.
Lemma cnt_cleanup_app : forall u a b, cnt_cleanup u (a ++ b) = cnt_cleanup u a + cnt_cleanup u b.
Proof. induction a as [|e a IH]; intros; cbn; [reflexivity|]. destruct e; rewrite IH; lia. Qed.

Definition good (d : list event) : Prop := neutral d /\ forall u, cnt_enter u d = cnt_cleanup u d.

Lemma good_nil : good [].
Proof. split; [intros s r; reflexivity | reflexivity]. Qed.
Lemma good_app : forall a b, good a -> good b -> good (a ++ b).
Proof.
  intros a b [Na Ca] [Nb Cb]. split.
  - intros s r. rewrite <- app_assoc. rewrite Na. apply Nb.
  - intro u. rewrite cnt_enter_app, cnt_cleanup_app, Ca, Cb. reflexivity.
Qed.
Lemma good_tr : forall k l f, good [ETr k l f].
Proof. intros. split; [intros s r; reflexivity | reflexivity]. Qed.
Lemma good_protect : forall u d1 d2, good d1 -> good d2 -> good (EEnter u :: d1 ++ ECleanup u :: d2).
Proof.
  intros u d1 d2 [N1 C1] [N2 C2]. split.
  - intros s r. cbn [app lifo]. rewrite <- app_assoc. rewrite N1. cbn [app lifo]. rewrite N.eqb_refl. cbn. apply N2.
  - intro v. cbn [cnt_enter cnt_cleanup]. rewrite cnt_enter_app, cnt_cleanup_app. cbn [cnt_enter cnt_cleanup].
    rewrite C1, C2. lia.
Qed.
Lemma good_lifo : forall d, good d -> lifo [] d = true.
Proof. intros d [Nd _]. specialize (Nd [] []). rewrite app_nil_r in Nd. exact Nd. Qed.

(* ---- what a terminated evaluation may have done to the state ------------------------------------- *)
Definition ext (st st' : state) : Prop :=
  locks st' = locks st /\ files st' = files st /\ exists d, trace st' = trace st ++ d /\ good d.

Lemma ext_refl : forall st, ext st st.
Proof. intro. repeat split. exists []. rewrite app_nil_r. split; [reflexivity | apply good_nil]. Qed.
Lemma ext_trans : forall a b c, ext a b -> ext b c -> ext a c.
Proof.
  intros a b c (L1 & F1 & d1 & T1 & G1) (L2 & F2 & d2 & T2 & G2). repeat split; try congruence.
  exists (d1 ++ d2). split; [rewrite T2, T1, app_assoc; reflexivity | apply good_app; assumption].
Qed.
Lemma ext_tr : forall k st, ext st (log (ETr k (locks st) (files st)) st).
Proof. intros. repeat split. eexists. split; [reflexivity | apply good_tr]. Qed.
Lemma ext_set_var : forall x z st, ext st (set_var x z st).
Proof. intros. repeat split. exists []. cbn. rewrite app_nil_r. split; [reflexivity | apply good_nil]. Qed.

Lemma clearbit_setbit : forall a m, N.testbit a m = false -> N.clearbit (N.setbit a m) m = a.
Proof.
  intros a m H. apply N.bits_inj. intro i. rewrite N.clearbit_eqb, N.setbit_eqb.
  destruct (N.eqb m i) eqn:E; cbn.
  - apply N.eqb_eq in E. subst. rewrite H. reflexivity.
  - rewrite andb_true_r. reflexivity.
Qed.

(* lock ... unlock around something that restores the state *)
Lemma ext_lock : forall m st st1, N.testbit (locks st) m = false -> ext (lock m st) st1 -> ext st (unlock m st1).
Proof.
  intros m st st1 H (L & F & d & T & G). unfold ext, unlock, lock, set_locks in *; cbn in *.
  rewrite L. repeat split; [apply clearbit_setbit; exact H | exact F | exists d; split; assumption].
Qed.
Lemma ext_file : forall f st st1, ext (fopen f st) st1 -> ext st (fclose f st1).
Proof.
  intros f st st1 (L & F & d & T & G). unfold ext, fopen, fclose, set_files in *; cbn in *.
  rewrite F. repeat split; [exact L | lia | exists d; split; assumption].
Qed.
Lemma ext_protect : forall u st st1 st2,
  ext (log (EEnter u) st) st1 -> ext (log (ECleanup u) st1) st2 -> ext st st2.
Proof.
  intros u st st1 st2 (L1 & F1 & d1 & T1 & G1) (L2 & F2 & d2 & T2 & G2). unfold log in *; cbn in *.
  repeat split; try congruence.
  exists (EEnter u :: d1 ++ ECleanup u :: d2). split; [| apply good_protect; assumption].
  rewrite T2, T1. rewrite <- !app_assoc. reflexivity.
Qed.

(* ================================================================================================ *)
(* M                                                                                                *)
(* ================================================================================================ *)
Definition mterm (r : mres) : Prop := r <> MHang /\ r <> MOOF.
Definition mframe (ev : form -> state -> mres * state) : Prop :=
  forall f st r st', ev f st = (r, st') -> mterm r -> ext st st'.

Lemma mterm_val : forall v, mterm (MVal v). Proof. split; discriminate. Qed.
Lemma mterm_err : forall c, mterm (MErr c). Proof. split; discriminate. Qed.
#[global] Hint Resolve mterm_val mterm_err ext_refl : c07.

Ltac inv H := inversion H; subst; clear H.

Lemma m_seq_frame : forall ev, mframe ev -> forall fs last st r st',
  m_seq ev fs last st = (r, st') -> mterm r -> ext st st'.
Proof.
  intros ev Hev. induction fs as [|f fs IH]; intros last st r st' H T; cbn in H.
  - inv H. apply ext_refl.
  - destruct (ev f st) as [o st1] eqn:E. destruct o.
    + destruct (is_marker v).
      * inv H. eapply Hev; eauto.
      * eapply ext_trans; [eapply Hev; eauto with c07 | eapply IH; eauto].
    + inv H. eapply Hev; eauto.
    + inv H. destruct T as [T _]. congruence.
    + inv H. destruct T as [_ T]. congruence.
Qed.

Lemma m_args_frame : forall ev, mframe ev -> forall fs acc st x st',
  m_args ev fs acc st = (x, st') -> match x with inl r => mterm r | inr _ => True end -> ext st st'.
Proof.
  intros ev Hev. induction fs as [|f fs IH]; intros acc st x st' H T; cbn in H.
  - inv H. apply ext_refl.
  - destruct (ev f st) as [o st1] eqn:E. destruct o.
    + destruct (is_marker v).
      * inv H. eapply Hev; eauto.
      * eapply ext_trans; [eapply Hev; eauto with c07 | eapply IH; eauto].
    + inv H. eapply Hev; eauto.
    + inv H. destruct T as [T _]. congruence.
    + inv H. destruct T as [_ T]. congruence.
Qed.

Lemma m_cond_frame : forall ev, mframe ev -> forall cs st r st',
  m_cond ev cs st = (r, st') -> mterm r -> ext st st'.
Proof.
  intros ev Hev. induction cs as [|[c b] cs IH]; intros st r st' H T; cbn in H.
  - inv H. apply ext_refl.
  - destruct (ev c st) as [o st1] eqn:E. destruct o.
    + destruct (is_nil (prim v)).
      * eapply ext_trans; [eapply Hev; eauto with c07 | eapply IH; eauto].
      * destruct (is_marker v).
        -- inv H. eapply Hev; eauto.
        -- eapply ext_trans; [eapply Hev; eauto with c07 | eapply m_seq_frame; eauto].
    + inv H. eapply Hev; eauto.
    + inv H. destruct T as [T _]. congruence.
    + inv H. destruct T as [_ T]. congruence.
Qed.

Definition oterm (x : option mres) : Prop := match x with Some r => mterm r | None => True end.
Definition mpterm (x : mstep) : Prop := match x with MOut r => mterm r | _ => True end.

Lemma m_pass_frame : forall ev onret own, mframe ev -> forall items st x st',
  m_pass ev onret own items st = (x, st') -> mpterm x -> ext st st'.
Proof.
  intros ev onret own Hev. induction items as [|it items IH]; intros st x st' H T; cbn in H.
  - inv H. apply ext_refl.
  - destruct it as [t|f]; [eapply IH; eauto|].
    destruct (ev f st) as [o st1] eqn:E. destruct o.
    + assert (X : ext st st1) by (eapply Hev; eauto with c07).
      destruct v; try solve [eapply ext_trans; [exact X | eapply IH; eauto]].
      * inv H. exact X.
      * destruct (memN t own); inv H; exact X.
    + inv H. eapply Hev; eauto.
    + inv H. destruct T as [T _]. congruence.
    + inv H. destruct T as [_ T]. congruence.
Qed.

Lemma m_tagbody_frame : forall ev onret all, mframe ev -> forall k items st x st',
  m_tagbody ev onret all k items st = (x, st') -> oterm x -> ext st st'.
Proof.
  intros ev onret all Hev. induction k as [|k IH]; intros items st x st' H T; cbn in H;
    destruct (m_pass ev onret (tags_of all) items st) as [y st1] eqn:E; destruct y;
    try solve [inv H; eapply m_pass_frame; eauto; exact I].
  eapply ext_trans; [eapply m_pass_frame; eauto; exact I | eapply IH; eauto].
Qed.

Lemma m_iter_frame : forall ev onret k, mframe ev -> forall n body st x st',
  m_iter ev onret k n body st = (x, st') -> oterm x -> ext st st'.
Proof.
  intros ev onret k Hev. induction n as [|n IH]; intros body st x st' H T; cbn in H.
  - inv H. apply ext_refl.
  - destruct (m_tagbody ev onret body k body st) as [[r|] st1] eqn:E.
    + inv H. eapply m_tagbody_frame; eauto.
    + eapply ext_trans; [eapply m_tagbody_frame; eauto; exact I | eapply IH; eauto].
Qed.

Lemma m_catch_frame : forall t st r0 st0 r st', m_catch t (r0, st0) = (r, st') ->
  (mterm r0 -> ext st st0) -> mterm r -> ext st st'.
Proof.
  intros t st r0 st0 r st' H X T. unfold m_catch in H.
  destruct r0; try solve [inv H; apply X; assumption].
  destruct v; try solve [inv H; apply X; auto with c07].
  destruct (N.eqb t t0); inv H; apply X; auto with c07.
Qed.

Theorem meval_frame : forall defs fuel sc tb, mframe (meval defs fuel sc tb).
Proof.
  intros defs. induction fuel as [|n IH]; intros sc tb f st r st' H T.
  - cbn in H. inv H. destruct T as [_ T]. congruence.
  - destruct f; cbn [meval] in H.
    + inv H. apply ext_refl.
    + inv H. apply ext_tr.
    + inv H. apply ext_refl.
    + destruct (nth_error (vars st) x); inv H; [apply ext_set_var | apply ext_refl].
    + destruct (nth_error (vars st) x); inv H; apply ext_refl.
    + inv H. apply ext_set_var.
    + (* CallList *)
      destruct (m_args (meval defs n sc tb) args [] st) as [[o|vs] st1] eqn:E; inv H;
        eapply m_args_frame; eauto; exact I.
    + (* Progn *) eapply m_seq_frame; eauto.
    + (* When *)
      destruct (meval defs n sc tb f st) as [o st1] eqn:E. destruct o; try solve [inv H; eapply IH; eauto].
      assert (X : ext st st1) by (eapply IH; eauto with c07).
      destruct (is_marker v); [inv H; exact X|].
      destruct (is_nil (prim v)); [inv H; exact X | eapply ext_trans; [exact X | eapply m_seq_frame; eauto]].
    + (* Cond *) eapply m_cond_frame; eauto.
    + (* Let *)
      destruct (m_args (meval defs n sc tb) inits [] st) as [[o|vs] st1] eqn:E.
      * inv H. eapply m_args_frame; eauto.
      * eapply ext_trans; [eapply m_args_frame; eauto; exact I | eapply m_seq_frame; eauto].
    + (* Block *)
      destruct (m_seq (meval defs n ((true, t) :: sc) tb) body VNil st) as [o st1] eqn:E.
      eapply m_catch_frame; eauto. intro. eapply m_seq_frame; eauto.
    + (* ReturnFrom *)
      destruct (in_block sc t); [| inv H; apply ext_refl].
      destruct (meval defs n sc tb f st) as [o st1] eqn:E.
      destruct o; try solve [inv H; eapply IH; eauto with c07].
      destruct (is_marker v); inv H; eapply IH; eauto with c07.
    + (* Return *)
      destruct (in_block sc 0%N); [| inv H; apply ext_refl].
      destruct (meval defs n sc tb f st) as [o st1] eqn:E.
      destruct o; try solve [inv H; eapply IH; eauto with c07].
      destruct (is_marker v); inv H; eapply IH; eauto with c07.
    + (* Tagbody *)
      destruct (m_tagbody (meval defs n ((false, 0%N) :: sc) true) onret_pass items n items st) as [[o|] st1] eqn:E;
        inv H; eapply m_tagbody_frame; eauto; exact I.
    + (* Go *) destruct tb; inv H; apply ext_refl.
    + (* UnwindProtect *)
      destruct (meval defs n sc tb f (log (EEnter u) st)) as [o st1] eqn:E.
      assert (X : mterm o -> ext (log (EEnter u) st) st1) by (intro; eapply IH; eauto).
      assert (Y : forall r2 st2, m_seq (meval defs n sc tb) cleanup VNil (log (ECleanup u) st1) = (r2, st2) ->
                  mterm r2 -> ext (log (ECleanup u) st1) st2) by (intros; eapply m_seq_frame; eauto).
      destruct o.
      * destruct (m_seq (meval defs n sc tb) cleanup VNil (log (ECleanup u) st1)) as [r2 st2] eqn:E2.
        destruct r2; [destruct (is_marker v0) | | |]; inv H;
          (eapply ext_protect; [apply X; auto with c07 | eapply Y; [reflexivity | first [assumption | auto with c07]]]).
      * destruct (m_seq (meval defs n sc tb) cleanup VNil (log (ECleanup u) st1)) as [r2 st2] eqn:E2.
        destruct r2; [destruct (is_marker v) | | |]; inv H;
          (eapply ext_protect; [apply X; auto with c07 | eapply Y; [reflexivity | first [assumption | auto with c07]]]).
      * inv H. destruct T as [T _]. congruence.
      * inv H. destruct T as [_ T]. congruence.
    + (* IgnoreErrors *)
      destruct (m_seq (meval defs n sc tb) body VNil st) as [o st1] eqn:E.
      destruct o; inv H; eapply m_seq_frame; eauto with c07.
    + (* Recover *)
      destruct (m_seq (meval defs n sc tb) body VNil st) as [o st1] eqn:E.
      destruct o; try solve [inv H; eapply m_seq_frame; eauto].
      eapply ext_trans; [eapply m_seq_frame; eauto with c07 | eapply IH; eauto].
    + (* WithMutex *)
      destruct (N.testbit (locks st) m) eqn:B; [inv H; destruct T as [T _]; congruence|].
      destruct (m_seq (meval defs n sc tb) body VNil (lock m st)) as [o st1] eqn:E.
      destruct o; inv H; try solve [apply ext_lock; [exact B | eapply m_seq_frame; eauto with c07]].
      * destruct T as [T _]. congruence.
      * destruct T as [_ T]. congruence.
    + (* WithFile *)
      destruct (m_seq (meval defs n ((false, 0%N) :: sc) tb) body VNil (fopen f st)) as [o st1] eqn:E.
      destruct o; inv H; try solve [apply ext_file; eapply m_seq_frame; eauto with c07].
      * destruct T as [T _]. congruence.
      * destruct T as [_ T]. congruence.
    + (* Loop *)
      destruct (m_iter (meval defs n ((true, 0%N) :: sc) true) onret_loop n n0 body st) as [[o|] st1] eqn:E.
      * inv H. eapply m_iter_frame; eauto.
      * eapply ext_trans; [eapply m_iter_frame; eauto; exact I|].
        destruct (meval defs n ((true, 0%N) :: sc) true f st1) as [r0 st0] eqn:E0.
        eapply m_catch_frame; eauto. intro. eapply IH; eauto.
    + (* Do *)
      destruct (m_iter (meval defs n ((true, 0%N) :: sc) true) onret_loop n n0 body st) as [[o|] st1] eqn:E.
      * inv H. eapply m_iter_frame; eauto.
      * eapply ext_trans; [eapply m_iter_frame; eauto; exact I|].
        destruct (m_seq (meval defs n ((true, 0%N) :: sc) true) res VNil st1) as [r0 st0] eqn:E0.
        eapply m_catch_frame; eauto. intro. eapply m_seq_frame; eauto.
    + (* Lam *) eapply m_seq_frame; eauto.
    + (* CallU *)
      destruct (nth_error defs i) as [[dc body]|]; [| inv H; apply ext_refl].
      destruct (m_seq (meval defs n ((true, fn_tag i) :: dc ++ sc) tb) body VNil st) as [o st1] eqn:E.
      eapply m_catch_frame; eauto. intro. eapply m_seq_frame; eauto.
    + (* Unless *)
      destruct (meval defs n sc tb f st) as [o st1] eqn:E. destruct o; try solve [inv H; eapply IH; eauto].
      assert (X : ext st st1) by (eapply IH; eauto with c07).
      destruct (is_marker v); [inv H; exact X|].
      destruct (is_nil (prim v)); [eapply ext_trans; [exact X | eapply m_seq_frame; eauto] | inv H; exact X].
    + (* If *)
      destruct (meval defs n sc tb f1 st) as [o st1] eqn:E. destruct o; try solve [inv H; eapply IH; eauto].
      assert (X : ext st st1) by (eapply IH; eauto with c07).
      destruct (is_marker v); [inv H; exact X|].
      destruct (is_nil (prim v)); (eapply ext_trans; [exact X | eapply IH; eauto]).
Qed.

(* ================================================================================================ *)
(* S                                                                                                *)
(* ================================================================================================ *)
Definition sterm (o : outcome) : Prop := o <> Hang /\ o <> OOF.
Definition sframe (ev : form -> state -> outcome * state) : Prop :=
  forall f st o st', ev f st = (o, st') -> sterm o -> ext st st'.

Lemma sterm_normal : forall v, sterm (Normal v). Proof. split; discriminate. Qed.
Lemma sterm_ret : forall t v, sterm (Ret t v). Proof. split; discriminate. Qed.
Lemma sterm_goto : forall t, sterm (Goto t). Proof. split; discriminate. Qed.
Lemma sterm_err : forall c, sterm (Err c). Proof. split; discriminate. Qed.
#[global] Hint Resolve sterm_normal sterm_ret sterm_goto sterm_err : c07.

Ltac bad T := solve [destruct T as [T1 T2]; congruence].

Lemma s_seq_frame : forall ev, sframe ev -> forall fs last st o st',
  s_seq ev fs last st = (o, st') -> sterm o -> ext st st'.
Proof.
  intros ev Hev. induction fs as [|f fs IH]; intros last st o st' H T; cbn in H.
  - inv H. apply ext_refl.
  - destruct (ev f st) as [o1 st1] eqn:E. destruct o1; try solve [inv H; eapply Hev; eauto].
    eapply ext_trans; [eapply Hev; eauto with c07 | eapply IH; eauto].
Qed.

Lemma s_args_frame : forall ev, sframe ev -> forall fs acc st x st',
  s_args ev fs acc st = (x, st') -> match x with inl o => sterm o | inr _ => True end -> ext st st'.
Proof.
  intros ev Hev. induction fs as [|f fs IH]; intros acc st x st' H T; cbn in H.
  - inv H. apply ext_refl.
  - destruct (ev f st) as [o1 st1] eqn:E. destruct o1; try solve [inv H; eapply Hev; eauto].
    eapply ext_trans; [eapply Hev; eauto with c07 | eapply IH; eauto].
Qed.

Lemma s_cond_frame : forall ev, sframe ev -> forall cs st o st',
  s_cond ev cs st = (o, st') -> sterm o -> ext st st'.
Proof.
  intros ev Hev. induction cs as [|[c b] cs IH]; intros st o st' H T; cbn in H.
  - inv H. apply ext_refl.
  - destruct (ev c st) as [o1 st1] eqn:E. destruct o1; try solve [inv H; eapply Hev; eauto].
    assert (X : ext st st1) by (eapply Hev; eauto with c07).
    destruct (is_nil v).
    + eapply ext_trans; [exact X | eapply IH; eauto].
    + destruct b; [inv H; exact X | eapply ext_trans; [exact X | eapply s_seq_frame; eauto]].
Qed.

Definition pterm (x : sstep) : Prop := match x with SOut o => sterm o | _ => True end.
Lemma s_pass_frame : forall ev own, sframe ev -> forall items st x st',
  s_pass ev own items st = (x, st') -> pterm x -> ext st st'.
Proof.
  intros ev own Hev. induction items as [|[t|f] items IH]; intros st x st' H T; cbn in H.
  - inv H. apply ext_refl.
  - eapply IH; eauto.
  - destruct (ev f st) as [o1 st1] eqn:E. destruct o1; try solve [inv H; eapply Hev; eauto].
    + eapply ext_trans; [eapply Hev; eauto with c07 | eapply IH; eauto].
    + destruct (memN t own); inv H; eapply Hev; eauto with c07.
Qed.

Lemma s_tagbody_frame : forall ev all, sframe ev -> forall k items st o st',
  s_tagbody ev all k items st = (o, st') -> sterm o -> ext st st'.
Proof.
  intros ev all Hev. induction k as [|k IH]; intros items st o st' H T; cbn in H;
    destruct (s_pass ev (tags_of all) items st) as [x st1] eqn:E; destruct x;
    try solve [inv H; eapply s_pass_frame; eauto; exact I].
  eapply ext_trans; [eapply s_pass_frame; eauto; exact I | eapply IH; eauto].
Qed.

Lemma s_iter_frame : forall ev k, sframe ev -> forall n body st o st',
  s_iter ev k n body st = (o, st') -> sterm o -> ext st st'.
Proof.
  intros ev k Hev. induction n as [|n IH]; intros body st o st' H T; cbn in H.
  - inv H. apply ext_refl.
  - destruct (s_tagbody ev body k body st) as [o1 st1] eqn:E.
    destruct o1; try solve [inv H; eapply s_tagbody_frame; eauto].
    eapply ext_trans; [eapply s_tagbody_frame; eauto with c07 | eapply IH; eauto].
Qed.

Lemma catch_frame : forall t r st o st', catch t r = (o, st') ->
  (forall o1, fst r = o1 -> sterm o1 -> ext st (snd r)) -> sterm o -> ext st st'.
Proof.
  intros t [o1 st1] st o st' H X T. cbn in *. destruct o1; try solve [inv H; eapply X; eauto].
  destruct (N.eqb t t0); inv H; eapply X; eauto with c07.
Qed.

Theorem seval_frame : forall defs fuel bl tg, sframe (seval defs fuel bl tg).
Proof.
  intros defs. induction fuel as [|n IH]; intros bl tg f st o st' H T.
  - cbn in H. inv H. bad T.
  - destruct f; cbn [seval] in H.
    + inv H. apply ext_refl.
    + inv H. apply ext_tr.
    + inv H. apply ext_refl.
    + destruct (nth_error (vars st) x); inv H; [apply ext_set_var | apply ext_refl].
    + destruct (nth_error (vars st) x); inv H; apply ext_refl.
    + inv H. apply ext_set_var.
    + destruct (s_args (seval defs n bl tg) args [] st) as [[o1|vs] st1] eqn:E; inv H;
        eapply s_args_frame; eauto; exact I.
    + eapply s_seq_frame; eauto.
    + destruct (seval defs n bl tg f st) as [o1 st1] eqn:E. destruct o1; try solve [inv H; eapply IH; eauto].
      assert (X : ext st st1) by (eapply IH; eauto with c07).
      destruct (is_nil v); [inv H; exact X | eapply ext_trans; [exact X | eapply s_seq_frame; eauto]].
    + eapply s_cond_frame; eauto.
    + destruct (s_args (seval defs n bl tg) inits [] st) as [[o1|vs] st1] eqn:E.
      * inv H. eapply s_args_frame; eauto.
      * eapply ext_trans; [eapply s_args_frame; eauto; exact I | eapply s_seq_frame; eauto].
    + eapply catch_frame; eauto. intros o1 Ho1 T1.
      destruct (s_seq (seval defs n (t :: bl) tg) body VNil st) as [o2 st2] eqn:E. cbn in *. subst.
      eapply s_seq_frame; eauto.
    + destruct (memN t bl); [| inv H; apply ext_refl].
      destruct (seval defs n bl tg f st) as [o1 st1] eqn:E. destruct o1; inv H; eapply IH; eauto with c07.
    + destruct (memN 0%N bl); [| inv H; apply ext_refl].
      destruct (seval defs n bl tg f st) as [o1 st1] eqn:E. destruct o1; inv H; eapply IH; eauto with c07.
    + eapply s_tagbody_frame; eauto.
    + destruct (memN t tg); inv H; apply ext_refl.
    + (* UnwindProtect *)
      destruct (seval defs n bl tg f (log (EEnter u) st)) as [o1 st1] eqn:E.
      assert (X : sterm o1 -> ext (log (EEnter u) st) st1) by (intro; eapply IH; eauto).
      assert (Y : forall r2 st2, s_seq (seval defs n bl tg) cleanup VNil (log (ECleanup u) st1) = (r2, st2) ->
                  sterm r2 -> ext (log (ECleanup u) st1) st2) by (intros; eapply s_seq_frame; eauto).
      destruct o1; try solve [inv H; bad T];
        (destruct (s_seq (seval defs n bl tg) cleanup VNil (log (ECleanup u) st1)) as [r2 st2] eqn:E2;
         destruct r2; inv H;
         (eapply ext_protect; [apply X; auto with c07 | eapply Y; [reflexivity | first [assumption | auto with c07]]])).
    + destruct (s_seq (seval defs n bl tg) body VNil st) as [o1 st1] eqn:E.
      destruct o1; inv H; eapply s_seq_frame; eauto with c07.
    + destruct (s_seq (seval defs n bl tg) body VNil st) as [o1 st1] eqn:E.
      destruct o1; try solve [inv H; eapply s_seq_frame; eauto].
      eapply ext_trans; [eapply s_seq_frame; eauto with c07 | eapply IH; eauto].
    + destruct (N.testbit (locks st) m) eqn:B; [inv H; bad T|].
      destruct (s_seq (seval defs n bl tg) body VNil (lock m st)) as [o1 st1] eqn:E.
      destruct o1; inv H; try solve [bad T]; (apply ext_lock; [exact B | eapply s_seq_frame; eauto with c07]).
    + destruct (s_seq (seval defs n bl tg) body VNil (fopen f st)) as [o1 st1] eqn:E.
      destruct o1; inv H; try solve [bad T]; (apply ext_file; eapply s_seq_frame; eauto with c07).
    + (* Loop *)
      eapply catch_frame; eauto. intros o1 Ho1 T1.
      destruct (s_iter (seval defs n (0%N :: bl) (tags_of body ++ tg)) n n0 body st) as [o2 st2] eqn:E.
      destruct o2; cbn in Ho1; subst; try solve [eapply s_iter_frame; eauto].
      destruct (seval defs n (0%N :: bl) tg f st2) as [o3 st3] eqn:E3. cbn in *.
      eapply ext_trans; [eapply s_iter_frame; eauto with c07 | eapply IH; eauto].
    + (* Do *)
      eapply catch_frame; eauto. intros o1 Ho1 T1.
      destruct (s_iter (seval defs n (0%N :: bl) (tags_of body ++ tg)) n n0 body st) as [o2 st2] eqn:E.
      destruct o2; cbn in Ho1; subst; try solve [eapply s_iter_frame; eauto].
      destruct (s_seq (seval defs n (0%N :: bl) tg) res VNil st2) as [o3 st3] eqn:E3. cbn in *.
      eapply ext_trans; [eapply s_iter_frame; eauto with c07 | eapply s_seq_frame; eauto].
    + eapply s_seq_frame; eauto.
    + destruct (nth_error defs i) as [[dc body]|]; [| inv H; apply ext_refl].
      eapply catch_frame; eauto. intros o1 Ho1 T1.
      destruct (s_seq (seval defs n [fn_tag i] []) body VNil st) as [o2 st2] eqn:E. cbn in *. subst.
      eapply s_seq_frame; eauto.
    + (* Unless *)
      destruct (seval defs n bl tg f st) as [o1 st1] eqn:E. destruct o1; try solve [inv H; eapply IH; eauto].
      assert (X : ext st st1) by (eapply IH; eauto with c07).
      destruct (is_nil v); [eapply ext_trans; [exact X | eapply s_seq_frame; eauto] | inv H; exact X].
    + (* If *)
      destruct (seval defs n bl tg f1 st) as [o1 st1] eqn:E. destruct o1; try solve [inv H; eapply IH; eauto].
      assert (X : ext st st1) by (eapply IH; eauto with c07).
      destruct (is_nil v); (eapply ext_trans; [exact X | eapply IH; eauto]).
Qed.
