From C07 Require Import Model Spec Proofs.
