(* C07 — property theorems only.  M = coq/C07/Model.v (transcription of slip's Go code), S = coq/C07/Spec.v
   (reference evaluator), guard = the syntactic region where slip's body loops deliver every exit. *)
From C07 Require Import Model Spec Frame Refine Contexts Corr Proofs.

(* (1) Cleanups exactly once, innermost first; mutexes and streams released on every path -- for the model
   of the GO CODE, every program, every nesting depth, every outcome (value, return-from / go marker,
   error of any class), no guard.  Whenever the evaluation of a form terminates (it is not parked on a
   mutex it already holds, the fuel bound is not hit), the events it appended to the trace read as a
   stack discipline: each cleanup that starts belongs to the innermost protected form still open, none is
   left open (lifo), every protected form that was entered has had its cleanup started exactly once
   (cnt_enter = cnt_cleanup for each unwind-protect), and the set of held mutexes and the count of open
   streams are what they were before the form.  This is where Go's defer in unwind-protect.go,
   with-mutex-lock.go and with-open-file.go is right even though exits are mishandled elsewhere. *)
Theorem C07_impl_cleanups_once_lifo_resources_released : forall defs fuel sc tb f st r st',
  meval defs fuel sc tb f st = (r, st') -> r <> MHang -> r <> MOOF ->
  trace_law st st' /\ locks st' = locks st /\ files st' = files st.
Proof. exact M_cleanups_and_resources. Qed.
Print Assumptions C07_impl_cleanups_once_lifo_resources_released.

(* (2) The same law for the reference evaluator: the reference cannot be quietly wrong about it. *)
Theorem C07_ref_cleanups_once_lifo_resources_released : forall defs fuel bl tg f st o st',
  seval defs fuel bl tg f st = (o, st') -> o <> Hang -> o <> OOF ->
  trace_law st st' /\ locks st' = locks st /\ files st' = files st.
Proof. exact S_cleanups_and_resources. Qed.
Print Assumptions C07_ref_cleanups_once_lifo_resources_released.

(* (3) unwind-protect in the model of the Go code, whatever the protected form does (r1 ranges over values,
   exit markers and panics): the cleanup forms are evaluated once, from the state the protected form left,
   before anything else; the form then yields r1 again (the exit / error continues outward) unless the
   cleanup itself fails. *)
Theorem C07_impl_cleanup_runs_whatever_the_outcome : forall defs n sc tb u p cs st r st',
  meval defs (S n) sc tb (UnwindProtect u p cs) st = (r, st') -> r <> MHang -> r <> MOOF ->
  exists r1 st1 r2,
    meval defs n sc tb p (log (EEnter u) st) = (r1, st1) /\
    m_seq (meval defs n sc tb) never cs VNil (log (ECleanup u) st1) = (r2, st') /\
    r = match r2 with MVal _ => r1 | _ => r2 end.
Proof. exact M_cleanup_whatever_outcome. Qed.
Print Assumptions C07_impl_cleanup_runs_whatever_the_outcome.

(* (4) impl_eq_ref: for every program inside the guard (any depth, any number of user functions), every
   initial state and every fuel on which the reference terminates, the model of the Go code produces the
   corresponding result (the value; the same error class) and the SAME final state: the whole trace
   including every cleanup, the counters, the held mutexes, the open streams.  No exit marker leaks out of
   a guarded program.  (Primary values only: the second value of ignore-errors is dropped by norm_res.) *)
Theorem C07_impl_eq_ref : forall p fuel st o st',
  guard p = true -> srun fuel p st = (o, st') -> o <> OOF ->
  exists r, mrun fuel p st = (r, st') /\ norm_res r = to_mres o /\
            (forall t v, o <> Ret t v) /\ (forall t, o <> Goto t).
Proof. exact impl_eq_ref. Qed.
Print Assumptions C07_impl_eq_ref.

(* (5) Exits travel through arbitrary nestings (reference).  E is any list of frames -- progn, when, let,
   argument position, block, unwind-protect, ignore-errors, recover, with-mutex-lock, with-open-file,
   lambda call, tagbody, dolist/dotimes, do -- none of which is the target of the exit or a handler for it
   (transp).  An exit raised in the hole comes out of E unchanged, and the state is exactly: what entering
   the frames did, then `leave`: for each frame from the innermost to the outermost, its cleanup forms /
   unlock / close -- and nothing else (no form after the hole runs). *)
Theorem C07_exit_through_context : forall defs E o, is_exit o -> transp E o = true ->
  forall x bl tg st fuel st1, enterable E st ->
  seval defs fuel (bl_in E bl) (tg_in E tg) x (enter E st) = (o, st1) ->
  seval defs (length E + fuel) bl tg (plug E x) st = (o, leave E st1).
Proof. exact exit_through_context. Qed.
Print Assumptions C07_exit_through_context.

(* (5') innermost first: the cleanups of the inner part of a context precede those of the outer part *)
Theorem C07_inner_cleanups_first : forall E1 E2 st, leave (E1 ++ E2) st = leave E1 (leave E2 st).
Proof. exact leave_app. Qed.
Print Assumptions C07_inner_cleanups_first.

(* (6) return-from reaches the lexically matching block and no other (E may contain blocks of other names,
   loops, function calls ...), the block yields the given value, the cleanups in between have run
   innermost first, and neither the forms after the exit nor the rest of the block are evaluated. *)
Theorem C07_return_from_reaches_its_block : forall defs E t v pre post bl tg st fuel,
  transp E (Ret t (VInt v)) = true -> enterable E (logtrs pre st) ->
  seval defs (S (length E + S (S fuel))) bl tg
        (Block t (trs pre ++ plug E (ReturnFrom t (Const (LInt v))) :: post)) st
  = (Normal (VInt v), leave E (enter E (logtrs pre st))).
Proof. exact return_reaches_block. Qed.
Print Assumptions C07_return_from_reaches_its_block.

(* (6') the same for the model of the Go code whenever the program is inside the guard *)
Theorem C07_impl_return_from_reaches_its_block : forall defs E t v pre post st fuel,
  guard (defs, Block t (trs pre ++ plug E (ReturnFrom t (Const (LInt v))) :: post)) = true ->
  transp E (Ret t (VInt v)) = true -> enterable E (logtrs pre st) ->
  mrun (S (length E + S (S fuel))) (defs, Block t (trs pre ++ plug E (ReturnFrom t (Const (LInt v))) :: post)) st
  = (MVal (VInt v), leave E (enter E (logtrs pre st))).
Proof. exact M_return_reaches_block. Qed.
Print Assumptions C07_impl_return_from_reaches_its_block.

(* (7) go reaches the matching tag: the tagbody continues with the statements after the tag (the
   right-hand side is the evaluation of `rest`), the statements in between are skipped, the cleanups of
   the frames in between have run. *)
Theorem C07_go_reaches_its_tag : forall defs E t pre mid rest bl tg st fuel,
  transp E (Goto t) = true -> enterable E (logtrs pre st) -> memN t (tags_of mid) = false ->
  let items := tri pre ++ IForm (plug E (Go t)) :: mid ++ ITag t :: rest in
  seval defs (S (length E + S fuel)) bl tg (Tagbody items) st =
  s_tagbody (seval defs (length E + S fuel) bl (tags_of items ++ tg)) items (length E + fuel) rest
            (leave E (enter E (logtrs pre st))).
Proof. exact go_reaches_tag. Qed.
Print Assumptions C07_go_reaches_its_tag.

(* (8) an error no frame handles surfaces with its original class, after exactly the cleanups on its way;
   reference, and model of the Go code inside the guard *)
Theorem C07_error_class_preserved : forall defs E c bl tg st fuel,
  transp E (Err c) = true -> enterable E st ->
  seval defs (length E + S fuel) bl tg (plug E (Signal c)) st = (Err c, leave E (enter E st)).
Proof. exact error_class_preserved. Qed.
Print Assumptions C07_error_class_preserved.
Theorem C07_impl_error_class_preserved : forall defs E c st fuel,
  guard (defs, plug E (Signal c)) = true -> transp E (Err c) = true -> enterable E st ->
  mrun (length E + S fuel) (defs, plug E (Signal c)) st = (MErr c, leave E (enter E st)).
Proof. exact M_error_class_preserved. Qed.
Print Assumptions C07_impl_error_class_preserved.

(* (9) non-vacuity: a five-level program with a user function inside the guard, its value and trace; a
   nine-frame context satisfying the hypotheses of (5)-(8) for a return, a go and an error. *)
Theorem C07_guard_nonvacuous :
  guard ex_prog = true /\
  fst (mrun 60 ex_prog st0) = MVal (VInt 4) /\ fst (srun 60 ex_prog st0) = Normal (VInt 4) /\
  trace (snd (mrun 60 ex_prog st0)) =
    [ETr 1 0 0; EEnter 1; ETr 2 1 0; ETr 3 1 0; EEnter 2; EEnter 9; ECleanup 9; ETr 90 1 8; ETr 4 1 8;
     ECleanup 2; ETr 5 1 0; ECleanup 1; ETr 6 0 0]%N.
Proof. exact ex_prog_in_guard. Qed.
Print Assumptions C07_guard_nonvacuous.
Theorem C07_context_nonvacuous :
  transp E_ex (Ret 1%N (VInt 5)) = true /\ transp E_ex (Goto 7%N) = true /\ transp E_ex (Err CDivZero) = true /\
  enterable E_ex st0 /\
  trace (leave E_ex (enter E_ex st0)) =
    [EEnter 1; ETr 11 1 0; ETr 12 1 0; ETr 13 1 0; EEnter 2; ETr 14 1 8; ECleanup 2; ETr 20 1 8; ECleanup 1; ETr 10 0 0]%N.
Proof. exact E_ex_ok. Qed.
Print Assumptions C07_context_nonvacuous.

(* (10) Where the faithful model violates the reference (each is a known finding replayed on the Go code on
   every run, and a clause of the guard): the exit is dropped by the body loops of when / cond / progn /
   ignore-errors / recover / with-mutex-lock / with-open-file ... *)
Theorem C07_body_swallows_exit_refuted :
  forallb (fun w => negb (guard (w_body w))) body_wrappers = true /\
  map (fun w => run_m (w_body w) []) body_wrappers = repeat (MVal (VInt 2), [(7, 0, 0)]%N, []) 5 ++
     [(MVal (VInt 2), [(7, 1, 0)]%N, []); (MVal (VInt 2), [(7, 0, 1)]%N, [])] /\
  map (fun w => run_s (w_body w) []) body_wrappers = repeat (Normal (VInt 1), [], []) 7.
Proof. exact body_swallows_exit_refuted. Qed.
Print Assumptions C07_body_swallows_exit_refuted.
(* ... an exit in an argument, a let init form or a test is captured as a value ... *)
Theorem C07_argument_captures_exit_refuted :
  guard w_arg = false /\ guard w_letinit = false /\ guard w_test = false /\
  fst (mrun 60 w_arg st0) = MVal (VList [VInt 1; VRetM 1%N (VInt 5); VInt 3]) /\ fst (srun 60 w_arg st0) = Normal (VInt 5) /\
  fst (mrun 60 w_letinit st0) = MVal (VInt 3) /\ fst (srun 60 w_letinit st0) = Normal (VInt 1) /\
  fst (mrun 60 w_test st0) = MVal (VInt 2) /\ fst (srun 60 w_test st0) = Normal (VInt 1).
Proof. exact argument_captures_exit_refuted. Qed.
Print Assumptions C07_argument_captures_exit_refuted.
(* ... tagbody drops return markers, evaluates symbol tags, cannot go backward or to an outer tagbody ... *)
Theorem C07_tagbody_refuted :
  guard w_tagbody_ret = false /\ guard w_symtag = false /\ guard w_backward = false /\ guard w_outer_go = false /\
  fst (mrun 60 w_tagbody_ret st0) = MVal (VInt 2) /\ fst (srun 60 w_tagbody_ret st0) = Normal (VInt 1) /\
  run_m w_symtag [0%Z] = (MErr CUnbound, [], [0%Z]) /\ run_s w_symtag [0%Z] = (Normal VNil, [], [3%Z]) /\
  run_m w_backward [0%Z] = (MVal VNil, [], [1%Z]) /\ run_s w_backward [0%Z] = (Normal VNil, [], [3%Z]) /\
  run_m w_outer_go [0%Z] = (MVal VNil, [], [1%Z]) /\ run_s w_outer_go [0%Z] = (Normal VNil, [], [0%Z]).
Proof. exact tagbody_refuted. Qed.
Print Assumptions C07_tagbody_refuted.
(* ... the loops swallow a go to an outer tag, let a return in the result form escape, and do forwards a
   named return only when called from a block scope ... *)
Theorem C07_loops_refuted :
  guard w_loop_go = false /\ guard w_loop_res = false /\ guard w_do = false /\
  run_m w_loop_go [0%Z] = (MVal VNil, [], [1%Z]) /\ run_s w_loop_go [0%Z] = (Normal VNil, [], [0%Z]) /\
  fst (mrun 60 w_loop_res st0) = MVal (VInt 8) /\ fst (srun 60 w_loop_res st0) = Normal (VInt 5) /\
  fst (mrun 60 w_do st0) = MVal (VInt 9) /\ fst (srun 60 w_do st0) = Normal (VInt 1).
Proof. exact loops_refuted. Qed.
Print Assumptions C07_loops_refuted.
(* ... function bodies and blocks hand a go marker on only from their last form ... *)
Theorem C07_go_not_forwarded_refuted :
  guard w_lam_go = false /\ guard w_block_go = false /\
  run_m w_lam_go [0%Z] = (MVal VNil, [], [1%Z]) /\ run_s w_lam_go [0%Z] = (Normal VNil, [], [0%Z]) /\
  run_m w_block_go [0%Z] = (MVal VNil, [], [1%Z]) /\ run_s w_block_go [0%Z] = (Normal VNil, [], [0%Z]).
Proof. exact go_not_forwarded_refuted. Qed.
Print Assumptions C07_go_not_forwarded_refuted.
(* ... an exit out of a cleanup is dropped; blocks are found dynamically; the two-valued result of
   ignore-errors counted as true until repo_fixes/C01-19 (when / cond now test the first value: w_mv is inside the guard
   and M = S on it); a marker can become the value of a return-from; (cond (x)) yields nil. *)
Theorem C07_other_refuted :
  guard w_cleanup = false /\ guard w_dyn = false /\ guard w_mv = true /\ guard w_nested = false /\
  guard w_cond_nobody = false /\
  fst (mrun 60 w_cleanup st0) = MVal (VInt 3) /\ fst (srun 60 w_cleanup st0) = Normal (VInt 2) /\
  fst (mrun 60 w_dyn st0) = MVal (VInt 3) /\ fst (srun 60 w_dyn st0) = Err CControl /\
  fst (mrun 60 w_mv st0) = MVal VNil /\ fst (srun 60 w_mv st0) = Normal VNil /\
  fst (mrun 60 w_nested st0) = MVal (VRetM 2%N (VInt 1)) /\ fst (srun 60 w_nested st0) = Normal (VInt 3) /\
  fst (mrun 60 w_cond_nobody st0) = MVal (VInt 5) /\ fst (srun 60 w_cond_nobody st0) = Normal (VInt 5).
Proof. exact other_refuted. Qed.
Print Assumptions C07_other_refuted.
