(* C07 — property theorems only.  M = coq/C07/Model.v (transcription of slip's Go code after repo_fixes/C07-1
   .. C07-21), S = coq/C07/Spec.v (reference evaluator), guard = lexically scoped programs (what it excludes is
   slip's dynamic lookup of blocks and tags). *)
From C07 Require Import Model Spec Frame Refine Contexts Corr Proofs.

(* (1) Cleanups exactly once, innermost first; mutexes and streams released on every path -- for the model
   of the GO CODE, every program, every nesting depth, every outcome (value, return-from / go marker,
   error of any class), no guard.  Whenever the evaluation of a form terminates (it is not parked on a
   mutex it already holds, the fuel bound is not hit), the events it appended to the trace read as a
   stack discipline: each cleanup that starts belongs to the innermost protected form still open, none is
   left open (lifo), every protected form that was entered has had its cleanup started exactly once
   (cnt_enter = cnt_cleanup for each unwind-protect), and the set of held mutexes and the count of open
   streams are what they were before the form.  This rests on Go's defer in unwind-protect.go,
   with-mutex-lock.go and with-open-file.go and holds outside the guard as well. *)
Theorem C07_impl_cleanups_once_lifo_resources_released : forall defs fuel sc tb f st r st',
  meval defs fuel sc tb f st = (r, st') -> r <> MHang -> r <> MOOF ->
  trace_law st st' /\ locks st' = locks st /\ files st' = files st.
Proof. exact M_cleanups_and_resources. Qed.
Print Assumptions C07_impl_cleanups_once_lifo_resources_released.

(* (2) The same law for the reference evaluator: the reference cannot be quietly wrong about it. *)
Theorem C07_ref_cleanups_once_lifo_resources_released : forall defs fuel bl tg f st o st',
  seval defs fuel bl tg f st = (o, st') -> o <> Hang -> o <> OOF ->
  trace_law st st' /\ locks st' = locks st /\ files st' = files st.
Proof. exact S_cleanups_and_resources. Qed.
Print Assumptions C07_ref_cleanups_once_lifo_resources_released.

(* (3) unwind-protect in the model of the Go code, whatever the protected form does (r1 ranges over values,
   exit markers and panics): the cleanup forms are evaluated once, from the state the protected form left,
   before anything else; the form then yields r1 again (the exit / error continues outward) unless a
   cleanup form itself exits (then that exit replaces what was in flight, as in the reference; this is
   repo_fixes/C07-20), fails or hangs. *)
Theorem C07_impl_cleanup_runs_whatever_the_outcome : forall defs n sc tb u p cs st r st',
  meval defs (S n) sc tb (UnwindProtect u p cs) st = (r, st') -> r <> MHang -> r <> MOOF ->
  exists r1 st1 r2,
    meval defs n sc tb p (log (EEnter u) st) = (r1, st1) /\
    m_seq (meval defs n sc tb) cs VNil (log (ECleanup u) st1) = (r2, st') /\
    r = match r2 with MVal v => if is_marker v then r2 else r1 | _ => r2 end.
Proof. exact M_cleanup_whatever_outcome. Qed.
Print Assumptions C07_impl_cleanup_runs_whatever_the_outcome.

(* (4) impl_eq_ref: for every program inside the guard (any depth, any number of user functions), every
   initial state and every fuel on which the reference terminates, the model of the Go code produces the
   corresponding result (the value; the same error class) and the SAME final state: the whole trace
   including every cleanup, the counters, the held mutexes, the open streams.  No exit marker leaks out of
   a guarded program.  (Primary values only: the second value of ignore-errors is dropped by norm_res.)
   Since repo_fixes/C07-1 .. C07-21 the guard only asks that the program is lexically scoped: every
   return-from / return names a block written around it in the same function (or lambda) body, every go a
   tag of a tagbody / loop body written around it.  Exits may stand in ANY position: first, middle or last
   form of any body, argument, let init, test, value form of return-from, cleanup form, result form, clause
   without forms; go may jump backward, to symbol tags, out of inner tagbodies and loops. *)
Theorem C07_impl_eq_ref : forall p fuel st o st',
  guard p = true -> srun fuel p st = (o, st') -> o <> OOF ->
  exists r, mrun fuel p st = (r, st') /\ norm_res r = to_mres o /\
            (forall t v, o <> Ret t v) /\ (forall t, o <> Goto t).
Proof. exact impl_eq_ref. Qed.
Print Assumptions C07_impl_eq_ref.

(* (4') the guard is closed under contexts: plugging a lexically scoped form into any nesting of the
   sixteen frame kinds whose side forms are lexically scoped gives a lexically scoped form.  (Before the
   repairs no frame but let / block / unwind-protect / the last position of a body admitted an exit.) *)
Theorem C07_guard_closed_under_contexts : forall E R G x, side_ok E R G = true -> compound x = true ->
  gd (bl_in E R) (tg_in E G) x = true -> gd R G (plug E x) = true.
Proof. exact gd_plug. Qed.
Print Assumptions C07_guard_closed_under_contexts.

(* (5) Exits travel through arbitrary nestings (reference).  E is any list of frames -- progn, when, unless,
   if, let, argument position, block, unwind-protect, ignore-errors, recover, with-mutex-lock, with-open-file,
   lambda call, tagbody, dolist/dotimes, do -- none of which is the target of the exit or a handler for it
   (transp).  An exit raised in the hole comes out of E unchanged, and the state is exactly: what entering
   the frames did, then `leave`: for each frame from the innermost to the outermost, its cleanup forms /
   unlock / close -- and nothing else (no form after the hole runs). *)
Theorem C07_exit_through_context : forall defs E o, is_exit o -> transp E o = true ->
  forall x bl tg st fuel st1, enterable E st ->
  seval defs fuel (bl_in E bl) (tg_in E tg) x (enter E st) = (o, st1) ->
  seval defs (length E + fuel) bl tg (plug E x) st = (o, leave E st1).
Proof. exact exit_through_context. Qed.
Print Assumptions C07_exit_through_context.

(* (5') innermost first: the cleanups of the inner part of a context precede those of the outer part *)
Theorem C07_inner_cleanups_first : forall E1 E2 st, leave (E1 ++ E2) st = leave E1 (leave E2 st).
Proof. exact leave_app. Qed.
Print Assumptions C07_inner_cleanups_first.

(* (6) return-from reaches the lexically matching block and no other (E may contain blocks of other names,
   loops, function calls ...), the block yields the given value, the cleanups in between have run
   innermost first, and neither the forms after the exit nor the rest of the block are evaluated. *)
Theorem C07_return_from_reaches_its_block : forall defs E t v pre post bl tg st fuel,
  transp E (Ret t (VInt v)) = true -> enterable E (logtrs pre st) ->
  seval defs (S (length E + S (S fuel))) bl tg
        (Block t (trs pre ++ plug E (ReturnFrom t (Const (LInt v))) :: post)) st
  = (Normal (VInt v), leave E (enter E (logtrs pre st))).
Proof. exact return_reaches_block. Qed.
Print Assumptions C07_return_from_reaches_its_block.

(* (6') the same for the model of the Go code whenever the program is inside the guard *)
Theorem C07_impl_return_from_reaches_its_block : forall defs E t v pre post st fuel,
  guard (defs, Block t (trs pre ++ plug E (ReturnFrom t (Const (LInt v))) :: post)) = true ->
  transp E (Ret t (VInt v)) = true -> enterable E (logtrs pre st) ->
  mrun (S (length E + S (S fuel))) (defs, Block t (trs pre ++ plug E (ReturnFrom t (Const (LInt v))) :: post)) st
  = (MVal (VInt v), leave E (enter E (logtrs pre st))).
Proof. exact M_return_reaches_block. Qed.
Print Assumptions C07_impl_return_from_reaches_its_block.

(* (6'') ... and with the guard discharged: in the model of the Go code a return-from crosses ANY context E
   of the sixteen frame kinds (hole at any position) to its block, which yields the value, having run
   exactly the cleanups of E innermost first and nothing after the exit; the only hypotheses left are that
   the forms standing next to the hole, the rest of the block and the user functions are lexically scoped,
   that no frame of E is a block of the same name / a nil-block loop for (return) (transp: otherwise that
   frame is the target), and that no mutex frame of E relocks a held mutex (enterable). *)
Theorem C07_impl_return_from_crosses_any_context : forall defs E t v pre post st fuel,
  gd_defs 0 defs = true -> side_ok E [t] [] = true -> g_all gd [t] [] post = true ->
  transp E (Ret t (VInt v)) = true -> enterable E (logtrs pre st) ->
  mrun (S (length E + S (S fuel))) (defs, Block t (trs pre ++ plug E (ReturnFrom t (Const (LInt v))) :: post)) st
  = (MVal (VInt v), leave E (enter E (logtrs pre st))).
Proof. exact M_return_through_any_context. Qed.
Print Assumptions C07_impl_return_from_crosses_any_context.

(* (7) go reaches the matching tag: the tagbody continues with the statements after the tag (the
   right-hand side is the evaluation of `rest`), the statements in between are skipped, the cleanups of
   the frames in between have run. *)
Theorem C07_go_reaches_its_tag : forall defs E t pre mid rest bl tg st fuel,
  transp E (Goto t) = true -> enterable E (logtrs pre st) -> memN t (tags_of mid) = false ->
  let items := tri pre ++ IForm (plug E (Go t)) :: mid ++ ITag t :: rest in
  seval defs (S (length E + S fuel)) bl tg (Tagbody items) st =
  s_tagbody (seval defs (length E + S fuel) bl (tags_of items ++ tg)) items (length E + fuel) rest
            (leave E (enter E (logtrs pre st))).
Proof. exact go_reaches_tag. Qed.
Print Assumptions C07_go_reaches_its_tag.

(* (7') the same for the model of the Go code inside the guard: whatever the reference makes of the
   statements after the tag, the model makes the same of them, in the same final state *)
Theorem C07_impl_go_reaches_its_tag : forall defs E t pre mid rest st fuel o st',
  let items := tri pre ++ IForm (plug E (Go t)) :: mid ++ ITag t :: rest in
  guard (defs, Tagbody items) = true ->
  transp E (Goto t) = true -> enterable E (logtrs pre st) -> memN t (tags_of mid) = false ->
  s_tagbody (seval defs (length E + S fuel) [] (tags_of items ++ [])) items (length E + fuel) rest
            (leave E (enter E (logtrs pre st))) = (o, st') -> o <> OOF ->
  exists r, mrun (S (length E + S fuel)) (defs, Tagbody items) st = (r, st') /\ norm_res r = to_mres o.
Proof. exact M_go_reaches_tag. Qed.
Print Assumptions C07_impl_go_reaches_its_tag.

(* (7'') ... and in closed form, the guard discharged: in the model of the Go code a go crosses any context
   E (inner tagbodies, loops, function calls, unwind-protects ... that do not have the tag) to its tag,
   the statements between are skipped, the cleanups of E run innermost first, the markers after the tag
   run, the tagbody yields nil. *)
Theorem C07_impl_go_crosses_any_context : forall defs E t pre mid post st fuel,
  let items := tri pre ++ IForm (plug E (Go t)) :: mid ++ ITag t :: tri post in
  gd_defs 0 defs = true -> side_ok E [] (tags_of mid ++ [t]) = true ->
  g_items gd [] (tags_of mid ++ [t]) mid = true ->
  transp E (Goto t) = true -> enterable E (logtrs pre st) -> memN t (tags_of mid) = false ->
  mrun (S (length E + S fuel)) (defs, Tagbody items) st
  = (MVal VNil, logtrs post (leave E (enter E (logtrs pre st)))).
Proof. exact M_go_through_any_context. Qed.
Print Assumptions C07_impl_go_crosses_any_context.

(* (8) an error no frame handles surfaces with its original class, after exactly the cleanups on its way;
   reference, model of the Go code inside the guard, and the latter with the guard discharged *)
Theorem C07_error_class_preserved : forall defs E c bl tg st fuel,
  transp E (Err c) = true -> enterable E st ->
  seval defs (length E + S fuel) bl tg (plug E (Signal c)) st = (Err c, leave E (enter E st)).
Proof. exact error_class_preserved. Qed.
Print Assumptions C07_error_class_preserved.
Theorem C07_impl_error_class_preserved : forall defs E c st fuel,
  guard (defs, plug E (Signal c)) = true -> transp E (Err c) = true -> enterable E st ->
  mrun (length E + S fuel) (defs, plug E (Signal c)) st = (MErr c, leave E (enter E st)).
Proof. exact M_error_class_preserved. Qed.
Print Assumptions C07_impl_error_class_preserved.
Theorem C07_impl_error_crosses_any_context : forall defs E c st fuel,
  gd_defs 0 defs = true -> side_ok E [] [] = true -> transp E (Err c) = true -> enterable E st ->
  mrun (length E + S fuel) (defs, plug E (Signal c)) st = (MErr c, leave E (enter E st)).
Proof. exact M_error_through_any_context. Qed.
Print Assumptions C07_impl_error_crosses_any_context.

(* (8') Functions with a closure.  A defun written inside let / block forms gets the scope it is evaluated in as
   closure, and Lambda.Call gives the scope of each call the two parents [closure, caller].  The block lookup
   of return-from (scope.go InBlock) sees, from inside the body: the call scope itself = the block named like
   the function, every scope of the defining context, every scope of the callers. *)
Theorem C07_block_lookup_covers_call_scope_closure_and_callers : forall f dc sc t,
  in_block ((true, f) :: dc ++ sc) t = N.eqb f t || in_block dc t || in_block sc t.
Proof. exact in_block_call_scope. Qed.
Print Assumptions C07_block_lookup_covers_call_scope_closure_and_callers.

(* (8'') return-from with the function's own name leaves the function from any depth E of its body, yields the
   value, runs exactly the cleanups of E innermost first and nothing after the exit - WHATEVER the context dc
   the defun was written in (none: top level; let scopes; blocks); reference, and model of the Go code for
   lexically scoped function bodies. *)
Theorem C07_return_from_function_name : forall (defs : list def) i dc E v pre post bl tg st fuel,
  nth_error defs i = Some (dc, trs pre ++ plug E (ReturnFrom (fn_tag i) (Const (LInt v))) :: post) ->
  transp E (Ret (fn_tag i) (VInt v)) = true -> enterable E (logtrs pre st) ->
  seval defs (S (length E + S (S fuel))) bl tg (CallU i) st = (Normal (VInt v), leave E (enter E (logtrs pre st))).
Proof. exact S_return_from_function. Qed.
Print Assumptions C07_return_from_function_name.
Theorem C07_impl_return_from_function_name_any_closure : forall (defs : list def) i dc E v pre post st fuel,
  gd_defs 0 defs = true ->
  nth_error defs i = Some (dc, trs pre ++ plug E (ReturnFrom (fn_tag i) (Const (LInt v))) :: post) ->
  transp E (Ret (fn_tag i) (VInt v)) = true -> enterable E (logtrs pre st) ->
  mrun (S (length E + S (S fuel))) (defs, CallU i) st = (MVal (VInt v), leave E (enter E (logtrs pre st))).
Proof. exact M_return_from_function_any_closure. Qed.
Print Assumptions C07_impl_return_from_function_name_any_closure.
Theorem C07_closure_function_nonvacuous :
  guard ex_closure_fn = true /\
  run_m ex_closure_fn [0%Z] = (MVal (VList [VInt 2; VInt 7]), [(1, 0, 0); (2, 0, 0); (5, 0, 0); (7, 0, 0)]%N, [0%Z]) /\
  run_s ex_closure_fn [0%Z] = (Normal (VList [VInt 2; VInt 7]), [(1, 0, 0); (2, 0, 0); (5, 0, 0); (7, 0, 0)]%N, [0%Z]).
Proof. exact ex_closure_fn_ok. Qed.
Print Assumptions C07_closure_function_nonvacuous.

(* (9) non-vacuity: a five-level program with a user function inside the guard, the exit in the middle of
   a when body, its value and trace; a seventeen-frame context containing every frame kind, with forms after
   the hole in every body, satisfying the hypotheses of (5)-(8) for a return and a go (and, cut before its
   handlers, for an error). *)
Theorem C07_guard_nonvacuous :
  guard ex_prog = true /\
  fst (mrun 60 ex_prog st0) = MVal (VInt 4) /\ fst (srun 60 ex_prog st0) = Normal (VInt 4) /\
  trace (snd (mrun 60 ex_prog st0)) =
    [ETr 1 0 0; EEnter 1; ETr 2 1 0; ETr 3 1 0; EEnter 2; EEnter 9; ECleanup 9; ETr 90 1 8; ETr 4 1 8;
     ECleanup 2; ETr 5 1 0; ECleanup 1; ETr 6 0 0]%N.
Proof. exact ex_prog_in_guard. Qed.
Print Assumptions C07_guard_nonvacuous.
Theorem C07_context_nonvacuous :
  transp E_ex (Ret 1%N (VInt 5)) = true /\ transp E_ex (Goto 7%N) = true /\ transp E_ex (Err CDivZero) = false /\
  transp (firstn 12 E_ex) (Err CDivZero) = true /\
  side_ok E_ex [1%N] [] = true /\ side_ok E_ex [] [7%N] = true /\
  enterable E_ex st0 /\
  trace (leave E_ex (enter E_ex st0)) =
    [EEnter 1; ETr 11 1 0; ETr 12 1 0; ETr 13 1 0; EEnter 2; ETr 14 1 8; ETr 15 1 8; ECleanup 2; ETr 20 1 8; ECleanup 1; ETr 10 0 0]%N.
Proof. exact E_ex_ok. Qed.
Print Assumptions C07_context_nonvacuous.

(* (10) The witnesses of the 24 repaired findings (exit dropped by when / cond / progn / ignore-errors /
   recover / with-mutex-lock / with-open-file; exit captured by an argument, a let init, a test; tagbody
   dropping a return, evaluating a symbol tag, no backward go, no go to an outer tag; loops swallowing a
   go, letting a return in the result form escape, do dropping a named return and exits in its result
   forms; function body and block dropping a go; exit out of a cleanup form, also over an error in flight;
   two-valued test; marker as return value; cond clause without forms) are all inside the guard now, and
   on each the model of the Go code yields what the reference yields (the listed values). *)
Theorem C07_repaired_witnesses_agree :
  forallb guard repaired = true /\
  map (fun p => run_m p [0%Z]) repaired =
    repeat (MVal (VInt 1), [], [0%Z]) 7 ++
    [(MVal (VInt 5), [], [0%Z]); (MVal (VInt 1), [], [0%Z]); (MVal (VInt 1), [], [0%Z]); (MVal (VInt 1), [], [0%Z]);
     (MVal VNil, [], [3%Z]); (MVal VNil, [], [3%Z]); (MVal VNil, [], [0%Z]); (MVal VNil, [], [0%Z]);
     (MVal (VInt 5), [(1, 0, 0); (1, 0, 0); (1, 0, 0)]%N, [0%Z]); (MVal (VInt 1), [], [0%Z]); (MVal (VInt 1), [], [0%Z]);
     (MVal VNil, [], [0%Z]); (MVal VNil, [], [0%Z]); (MVal (VInt 2), [], [0%Z]); (MVal (VInt 2), [], [0%Z]);
     (MVal VNil, [], [0%Z]); (MVal (VInt 3), [], [0%Z]); (MVal (VInt 5), [], [0%Z])] /\
  map (fun p => let '(r, tr, vs) := run_m p [0%Z] in (norm_res r, tr, vs)) repaired =
  map (fun p => let '(o, tr, vs) := run_s p [0%Z] in (to_mres o, tr, vs)) repaired.
Proof. exact repaired_witnesses_agree. Qed.
Print Assumptions C07_repaired_witnesses_agree.

(* (11) Where the faithful model still violates the reference (each a known finding replayed on the Go code
   on every run, and what the guard excludes): blocks and tags are looked up dynamically.  A function can
   return from a block of its caller; a function called inside a tagbody can go to a tag of its caller;
   a go to a tag that no tagbody has is not an error, its marker leaves the tagbody as a value; a function
   defined inside a block finds that block on its closure chain after the block has exited, the marker of a
   return-from to it is caught by nobody and becomes the value of the program. *)
Theorem C07_dynamic_lookup_refuted :
  guard w_dyn = false /\ guard w_dyn_go = false /\ guard w_go_unknown = false /\ guard w_exited = false /\
  fst (mrun 60 w_exited st0) = MVal (VRetM 7%N (VInt 1)) /\ fst (srun 60 w_exited st0) = Err CControl /\
  fst (mrun 60 w_dyn st0) = MVal (VInt 3) /\ fst (srun 60 w_dyn st0) = Err CControl /\
  run_m w_dyn_go [0%Z] = (MVal VNil, [], [0%Z]) /\ run_s w_dyn_go [0%Z] = (Err CControl, [], [0%Z]) /\
  fst (mrun 60 w_go_unknown st0) = MVal (VGoM 45%N) /\ fst (srun 60 w_go_unknown st0) = Err CControl.
Proof. exact dynamic_lookup_refuted. Qed.
Print Assumptions C07_dynamic_lookup_refuted.
