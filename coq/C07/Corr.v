(* C07 — the comparison evaluated on every run: the implementation's observed result and trace against M
   (the transcription of the Go code) and, for the verdict, against S (the reference). *)
From C07 Require Import Model Spec.

Definition obs := (N * N * N)%type.                      (* (k, held mutexes, open files) at a (tr k) *)
(* program, initial counters, observed result, observed trace, observed (locks, files) after the run *)
Definition case := (prog * list Z * mres * list obs * (N * N))%type.

Definition FUEL := 400.

Definition cls_eqb (a b : cls) : bool :=
  match a, b with
  | CError, CError | CDivZero, CDivZero | CTypeError, CTypeError | CUnbound, CUnbound
  | CUndefFn, CUndefFn | CControl, CControl | COther, COther => true
  | _, _ => false
  end.
Fixpoint value_eqb (a b : value) {struct a} : bool :=
  match a, b with
  | VNil, VNil | VT, VT => true
  | VInt x, VInt y => Z.eqb x y
  | VList l, VList l' =>
      (fix go (l l' : list value) : bool :=
         match l, l' with
         | [], [] => true
         | x :: r, y :: r' => value_eqb x y && go r r'
         | _, _ => false
         end) l l'
  | VRetM t v, VRetM t' v' => N.eqb t t' && value_eqb v v'
  | VGoM t, VGoM t' => N.eqb t t'
  | VNilVals, VNilVals => true
  | _, _ => false
  end.
Definition mres_eqb (a b : mres) : bool :=
  match a, b with
  | MVal v, MVal w => value_eqb v w
  | MErr c, MErr d => cls_eqb c d
  | MHang, MHang | MOOF, MOOF => true
  | _, _ => false
  end.
Definition obs_eqb (a b : obs) : bool :=
  let '(k, l, f) := a in let '(k', l', f') := b in N.eqb k k' && N.eqb l l' && N.eqb f f'.
Fixpoint list_eqb {A} (eqb : A -> A -> bool) (a b : list A) : bool :=
  match a, b with [] , [] => true | x :: a', y :: b' => eqb x y && list_eqb eqb a' b' | _, _ => false end.

Definition is_oof (r : mres) : bool := match r with MOOF => true | _ => false end.

(* 0 ok: the observation is what M says, or (a repaired defect) it is what S demands.
   1: observed <> M and observed <> S, outside the guard, on a program where M <> S as well (the behaviour
      inside a known-defect region changed to something that is still not the reference: no failing input
      is established by this check); also: a case that is not well-formed or on which M ran out of fuel
      (harness mistake).
   2: observed <> M and observed <> S for a program inside the guard or one on which the unchanged code (M)
      met S: a failing input.
   3: self-check: M = observed, inside the guard, but M <> S (impl_eq_ref would be false). *)
Definition check_case (c : case) : N :=
  let '(p, vs, ores, otr, (ol, of_)) := c in
  let st0 := init_state vs in
  let '(mr, mst) := mrun FUEL p st0 in
  let '(so, sst) := srun FUEL p st0 in
  let sr := to_mres so in
  let agree := mres_eqb mr ores && list_eqb obs_eqb (visible (trace mst)) otr &&
               N.eqb (locks mst) ol && N.eqb (files mst) of_ in
  let m_is_s := mres_eqb (norm_res mr) sr && list_eqb obs_eqb (visible (trace mst)) (visible (trace sst)) &&
                N.eqb (locks mst) (locks sst) && N.eqb (files mst) (files sst) && negb (is_oof sr) in
  let o_is_s := mres_eqb (norm_res ores) sr && list_eqb obs_eqb otr (visible (trace sst)) &&
                N.eqb ol (locks sst) && N.eqb of_ (files sst) && negb (is_oof sr) in
  let g := guard p in
  if negb (wf_prog p) || is_oof mr then 1%N
  else if agree then (if g && negb m_is_s then 3%N else 0%N)
  else if o_is_s then 0%N
  else if g || m_is_s then 2%N else 1%N.

Fixpoint check_all_from (i : N) (cs : list case) : list (N * N) :=
  match cs with
  | [] => []
  | c :: cs' => let r := check_case c in (if N.eqb r 0 then [] else [(i, r)]) ++ check_all_from (N.succ i) cs'
  end.
Definition check_all := check_all_from 0%N.

Definition count (p : case -> bool) (cs : list case) : N := N.of_nat (length (filter p cs)).
(* programs inside the guard (impl_eq_ref applies) *)
Definition in_guard (cs : list case) : N := count (fun c => let '(p, _, _, _, _) := c in guard p) cs.
(* programs on which the transcription of the Go code and the reference differ (the known findings' region) *)
Definition model_differs_from_spec (cs : list case) : N :=
  count (fun c => let '(p, vs, _, _, _) := c in
                  let '(mr, mst) := mrun FUEL p (init_state vs) in
                  let '(so, sst) := srun FUEL p (init_state vs) in
                  negb (mres_eqb (norm_res mr) (to_mres so) && list_eqb obs_eqb (visible (trace mst)) (visible (trace sst)))) cs.
