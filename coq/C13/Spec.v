(* C13 — specification S: visibility is RECOMPUTED from the graph.  A package has its own cells
   (name -> cell), an ordered list of used packages, and nothing else; what a name resolves to in
   a package is computed on demand: the package's own cell if it has one, otherwise the exported
   own cell of the first used package that has one.  Cells live in a heap (as symbols do in the
   language: one cell per (home package, name), shared by every package that inherits it), so that
   setting an inherited variable sets the home package's variable. *)
From C13 Require Export Model.
Open Scope N_scope.

(* a function cell of S holds the value itself (M goes through Lambda objects) *)
Record sfuninfo := { sf_pkg : pkgid; sf_val : Z; sf_export : bool }.

Record sstate := {
  s_vheap : addr -> option varval;
  s_fheap : addr -> option sfuninfo;
  own_v : pkgid -> name -> option addr;
  own_f : pkgid -> name -> option addr;
  s_vnext : addr;
  s_fnext : addr;
  s_uses : pkgid -> list pkgid;
  s_cur : pkgid }.

Definition sinit (p0 : pkgid) : sstate :=
  {| s_vheap := fun _ => None; s_fheap := fun _ => None; own_v := fun _ _ => None; own_f := fun _ _ => None;
     s_vnext := 0; s_fnext := 0; s_uses := fun _ => []; s_cur := p0 |}.

Definition s_vexp (s : sstate) (a : addr) : bool := match s_vheap s a with Some vv => vv_export vv | None => false end.
Definition s_fexp (s : sstate) (a : addr) : bool := match s_fheap s a with Some fi => sf_export fi | None => false end.

(* `inherited own exp us n` (Model.v): the first used package with an exported own cell *)
Definition resolve_v (s : sstate) (p : pkgid) (n : name) : option addr :=
  match own_v s p n with Some a => Some a | None => inherited (own_v s) (s_vexp s) (s_uses s p) n end.
Definition resolve_f (s : sstate) (p : pkgid) (n : name) : option addr :=
  match own_f s p n with Some a => Some a | None => inherited (own_f s) (s_fexp s) (s_uses s p) n end.

Definition set_vval (s : sstate) (a : addr) (v : option Z) : sstate :=
  match s_vheap s a with
  | Some vv => {| s_vheap := upd (s_vheap s) a (Some {| vv_pkg := vv_pkg vv; vv_val := v; vv_export := vv_export vv |});
                  s_fheap := s_fheap s; own_v := own_v s; own_f := own_f s; s_vnext := s_vnext s; s_fnext := s_fnext s;
                  s_uses := s_uses s; s_cur := s_cur s |}
  | None => s end.
Definition set_vexp (s : sstate) (a : addr) (e : bool) : sstate :=
  match s_vheap s a with
  | Some vv => {| s_vheap := upd (s_vheap s) a (Some {| vv_pkg := vv_pkg vv; vv_val := vv_val vv; vv_export := e |});
                  s_fheap := s_fheap s; own_v := own_v s; own_f := own_f s; s_vnext := s_vnext s; s_fnext := s_fnext s;
                  s_uses := s_uses s; s_cur := s_cur s |}
  | None => s end.
Definition set_fexp (s : sstate) (a : addr) (e : bool) : sstate :=
  match s_fheap s a with
  | Some fi => {| s_vheap := s_vheap s;
                  s_fheap := upd (s_fheap s) a (Some {| sf_pkg := sf_pkg fi; sf_val := sf_val fi; sf_export := e |});
                  own_v := own_v s; own_f := own_f s; s_vnext := s_vnext s; s_fnext := s_fnext s;
                  s_uses := s_uses s; s_cur := s_cur s |}
  | None => s end.
Definition new_var (s : sstate) (p : pkgid) (n : name) (vv : varval) : sstate :=
  {| s_vheap := upd (s_vheap s) (s_vnext s) (Some vv); s_fheap := s_fheap s;
     own_v := upd2 (own_v s) p n (Some (s_vnext s)); own_f := own_f s; s_vnext := s_vnext s + 1; s_fnext := s_fnext s;
     s_uses := s_uses s; s_cur := s_cur s |}.

Definition s_setq (s : sstate) (n : name) (v : Z) : sstate :=
  match resolve_v s (s_cur s) n with
  | Some a => set_vval s a (Some v)
  | None => new_var s (s_cur s) n {| vv_pkg := Some (s_cur s); vv_val := Some v; vv_export := false |}
  end.

(* export / unexport: function cell, then variable cell.  Export of a name without a variable interns the
   symbol in p: an own, exported, unbound cell (its home is p: repaired code, C13-2) *)
Definition sexport_f (s : sstate) (p : pkgid) (n : name) : sstate :=
  match own_f s p n with Some a => set_fexp s a true | None => s end.
Definition sexport_v (s1 : sstate) (p : pkgid) (n : name) : sstate :=
  match own_v s1 p n with
  | Some a => set_vexp s1 a true
  | None => new_var s1 p n {| vv_pkg := Some p; vv_val := None; vv_export := true |}
  end.
Definition sunexport_f (s : sstate) (p : pkgid) (n : name) : sstate :=
  match own_f s p n with Some a => set_fexp s a false | None => s end.
Definition sunexport_v (s1 : sstate) (p : pkgid) (n : name) : sstate :=
  match own_v s1 p n with Some a => set_vexp s1 a false | None => s1 end.
(* the own symbol of (p, n) that export interned and that has no value yet: a function defined under it is
   external and takes its place *)
Definition exported_symbol (s : sstate) (p : pkgid) (n : name) : option addr :=
  match own_v s p n with
  | Some x => match s_vheap s x with
              | Some vv => match vv_val vv with None => if vv_export vv then Some x else None | Some _ => None end
              | None => None end
  | None => None end.

Definition sstep (s : sstate) (o : op) : sstate :=
  match o with
  | OInPkg p => {| s_vheap := s_vheap s; s_fheap := s_fheap s; own_v := own_v s; own_f := own_f s; s_vnext := s_vnext s;
                   s_fnext := s_fnext s; s_uses := s_uses s; s_cur := p |}
  | OUse q p =>
      if N.eqb p q || mem q (s_uses s p) then s
      else {| s_vheap := s_vheap s; s_fheap := s_fheap s; own_v := own_v s; own_f := own_f s; s_vnext := s_vnext s;
              s_fnext := s_fnext s; s_uses := upd (s_uses s) p (s_uses s p ++ [q]); s_cur := s_cur s |}
  | OUnuse q p =>
      if N.eqb p q then s
      else {| s_vheap := s_vheap s; s_fheap := s_fheap s; own_v := own_v s; own_f := own_f s; s_vnext := s_vnext s;
              s_fnext := s_fnext s; s_uses := upd (s_uses s) p (remove1 q (s_uses s p)); s_cur := s_cur s |}
  | OExport n p => sexport_v (sexport_f s p n) p n
  | OUnexport n p => sunexport_v (sunexport_f s p n) p n
  | OSetq n v => s_setq s n v
  | ODefvar n v =>
      match resolve_v s (s_cur s) n with
      | Some a => match s_vheap s a with
                  | Some vv => match vv_val vv with Some _ => s | None => s_setq s n v end
                  | None => s end
      | None => s_setq s n v
      end
  | ODefun n v =>
      match resolve_f s (s_cur s) n with
      | Some a =>
          match s_fheap s a with
          | Some fi => {| s_vheap := s_vheap s;
                          s_fheap := upd (s_fheap s) a (Some {| sf_pkg := sf_pkg fi; sf_val := v; sf_export := sf_export fi |});
                          own_v := own_v s; own_f := own_f s; s_vnext := s_vnext s; s_fnext := s_fnext s;
                          s_uses := s_uses s; s_cur := s_cur s |}
          | None => s end
      | None =>
          let ex := match exported_symbol s (s_cur s) n with Some _ => true | None => false end in
          {| s_vheap := s_vheap s;
             s_fheap := upd (s_fheap s) (s_fnext s) (Some {| sf_pkg := s_cur s; sf_val := v; sf_export := ex |});
             own_v := if ex then upd2 (own_v s) (s_cur s) n None else own_v s;
             own_f := upd2 (own_f s) (s_cur s) n (Some (s_fnext s));
             s_vnext := s_vnext s; s_fnext := s_fnext s + 1; s_uses := s_uses s; s_cur := s_cur s |}
      end
  | OMakunbound n =>
      {| s_vheap := s_vheap s; s_fheap := s_fheap s; own_v := upd2 (own_v s) (s_cur s) n None; own_f := own_f s;
         s_vnext := s_vnext s; s_fnext := s_fnext s; s_uses := s_uses s; s_cur := s_cur s |}
  | OFmakunbound n =>
      {| s_vheap := s_vheap s; s_fheap := s_fheap s; own_v := own_v s; own_f := upd2 (own_f s) (s_cur s) n None;
         s_vnext := s_vnext s; s_fnext := s_fnext s; s_uses := s_uses s; s_cur := s_cur s |}
  end.

(* ---- what S answers ---- *)
Definition sq_var (s : sstate) (c : pkgid) (n : name) : qres :=
  match resolve_v s c n with
  | Some a => match s_vheap s a with
              | Some vv => match vv_val vv with Some v => QVal v | None => QUnbound end
              | None => QUnbound end
  | None => QUnbound
  end.
(* p:n reaches an exported definition, p::n any definition; where p has no own definition the
   statement leaves the answer open and S takes what p itself sees *)
Definition sq_var_q (s : sstate) (p : pkgid) (n : name) (private : bool) : qres :=
  match resolve_v s p n with
  | Some a => match s_vheap s a with
              | Some vv => if vv_export vv || private then
                             match vv_val vv with Some v => QVal v | None => QUnbound end
                           else QUnbound
              | None => QUnbound end
  | None => QUnbound
  end.
Definition sq_fun (s : sstate) (c p : pkgid) (n : name) (private : bool) : qres :=
  match resolve_f s p n with
  | Some a => match s_fheap s a with
              | Some fi => if private || sf_export fi || N.eqb c (sf_pkg fi) then QVal (sf_val fi) else QUnbound
              | None => QUnbound end
  | None => QUnbound
  end.
Definition sobserve (P : list pkgid) (VN FN : list name) (s : sstate) : list qres :=
  flat_map (fun c =>
    flat_map (fun n => sq_var s c n :: flat_map (fun p => [sq_var_q s p n false; sq_var_q s p n true]) P) VN ++
    flat_map (fun n => sq_fun s c c n false :: flat_map (fun p => [sq_fun s c p n false; sq_fun s c p n true]) P) FN) P.

(* ---- the guard: which steps the theorem covers (evaluated on the S state before the step).
   After the repairs C13-1 .. C13-12 every clause is an instance of ONE remaining behaviour of package.go:
   the tables of a package hold what it inherits next to what it owns, and Use / Unuse / Export / Unexport /
   Remove / Undefine / DefLambda read and update those tables entry by entry instead of recomputing the
   resolution (known findings C13-use-copies-inherited: inheritance is transitive at use time, slip's cl-user
   umbrella relies on it; C13-no-fallback-in-uses-order: an entry that is retracted is not replaced by the
   next used package's, an entry that appears does not take precedence over a later used package's).
   Each clause says: what the code puts into the table entries it touches equals the new resolution. ---- *)
Section Guard.
  Variable P : list pkgid.      (* all packages *)
  Variable NM : list name.      (* all names *)

  Definition s_users (s : sstate) (p : pkgid) : list pkgid := filter (fun u => mem p (s_uses s u)) P.

  Definition opt_addr_eqb (a b : option addr) : bool :=
    match a, b with Some x, Some y => N.eqb x y | None, None => true | _, _ => false end.
  Definition is_some (a : option addr) : bool := match a with Some _ => true | None => false end.
  (* what the table of q offers under n: any exported entry it holds, own or inherited *)
  Definition offer (exp : addr -> bool) (r : option addr) : option addr :=
    match r with Some a => if exp a then Some a else None | None => None end.
  (* what q should offer: its own exported cell *)
  Definition own_offer (own : pkgid -> name -> option addr) (exp : addr -> bool) (q : pkgid) (n : name) : option addr :=
    offer exp (own q n).
  (* share: users without an entry get a; retract: users holding a lose it *)
  Definition shared (a : addr) (r : option addr) : option addr := match r with Some c => Some c | None => Some a end.
  Definition retracted (a : addr) (r : option addr) : option addr :=
    match r with Some c => if N.eqb c a then None else Some c | None => None end.

  Definition guard_step (s : sstate) (o : op) : bool :=
    match o with
    | OInPkg _ => true
    | OUse q p =>
        mem p P && mem q P &&
        (N.eqb p q || mem q (s_uses s p) ||
         (* Use copies every exported entry of q's table, also what q merely inherits: harmless when p has an
            entry under that name already *)
         forallb (fun n =>
           (is_some (resolve_v s p n) || opt_addr_eqb (offer (s_vexp s) (resolve_v s q n)) (own_offer (own_v s) (s_vexp s) q n)) &&
           (is_some (resolve_f s p n) || opt_addr_eqb (offer (s_fexp s) (resolve_f s q n)) (own_offer (own_f s) (s_fexp s) q n))) NM)
    | OUnuse q p =>
        N.eqb p q ||
        (* Unuse inherits again from the tables of the remaining used packages (first exported entry, own or
           inherited) *)
        (let us := remove1 q (s_uses s p) in
         forallb (fun n =>
           (is_some (own_v s p n) || opt_addr_eqb (inherited (resolve_v s) (s_vexp s) us n) (inherited (own_v s) (s_vexp s) us n)) &&
           (is_some (own_f s p n) || opt_addr_eqb (inherited (resolve_f s) (s_fexp s) us n) (inherited (own_f s) (s_fexp s) us n))) NM)
    | OExport n p =>
        mem n NM &&
        (* Export looks the name up in p's table: on an entry p merely inherits it would share the inherited cell
           with p's users instead of interning a symbol of p *)
        (is_some (own_f s p n) || negb (is_some (resolve_f s p n))) &&
        (is_some (own_v s p n) || negb (is_some (resolve_v s p n))) &&
        (let s1 := sexport_f s p n in let s2 := sexport_v s1 p n in
         (match own_f s p n with
          | Some a => forallb (fun u => opt_addr_eqb (resolve_f s1 u n) (shared a (resolve_f s u n))) (s_users s p)
          | None => true end) &&
         (let a := match own_v s p n with Some a => a | None => s_vnext s end in
          forallb (fun u => opt_addr_eqb (resolve_v s2 u n) (shared a (resolve_v s1 u n))) (s_users s p)))
    | OUnexport n p =>
        (let s1 := sunexport_f s p n in let s2 := sunexport_v s1 p n in
         (match own_f s p n with
          | Some a => forallb (fun u => opt_addr_eqb (resolve_f s1 u n) (retracted a (resolve_f s u n))) (s_users s p)
          | None => true end) &&
         (match own_v s p n with
          | Some a => forallb (fun u => opt_addr_eqb (resolve_v s2 u n) (retracted a (resolve_v s1 u n))) (s_users s p)
          | None => true end))
    | OSetq n _ | ODefvar n _ => mem n NM
    | ODefun n _ =>
        mem n NM &&
        match resolve_f s (s_cur s) n with
        | Some _ => true
        | None =>
            match exported_symbol s (s_cur s) n with
            | Some x =>
                let s' := sstep s o in
                negb (is_some (resolve_v s' (s_cur s) n)) &&
                forallb (fun u => opt_addr_eqb (resolve_v s' u n) (retracted x (resolve_v s u n)) &&
                                  opt_addr_eqb (resolve_f s' u n) (shared (s_fnext s) (resolve_f s u n))) (s_users s (s_cur s))
            | None => true
            end
        end
    | OMakunbound n =>
        match own_v s (s_cur s) n with
        | Some a =>
            let s' := sstep s o in
            negb (is_some (resolve_v s' (s_cur s) n)) &&
            forallb (fun u => opt_addr_eqb (resolve_v s' u n) (retracted a (resolve_v s u n))) (s_users s (s_cur s))
        | None => true end
    | OFmakunbound n =>
        match own_f s (s_cur s) n with
        | Some a =>
            let s' := sstep s o in
            negb (is_some (resolve_f s' (s_cur s) n)) &&
            forallb (fun u => opt_addr_eqb (resolve_f s' u n) (retracted a (resolve_f s u n))) (s_users s (s_cur s))
        | None => true end
    end.
End Guard.

Fixpoint srun (P : list pkgid) (VN FN : list name) (s : sstate) (ops : list op) : list (list qres) :=
  match ops with
  | [] => []
  | o :: ops' => let s' := sstep s o in sobserve P VN FN s' :: srun P VN FN s' ops'
  end.
Fixpoint guard_run (P : list pkgid) (NM : list name) (s : sstate) (ops : list op) : bool :=
  match ops with
  | [] => true
  | o :: ops' => guard_step P NM s o && guard_run P NM (sstep s o) ops'
  end.
(* length of the longest guarded prefix *)
Fixpoint guard_prefix (P : list pkgid) (NM : list name) (s : sstate) (ops : list op) : nat :=
  match ops with
  | [] => 0
  | o :: ops' => if guard_step P NM s o then S (guard_prefix P NM (sstep s o) ops') else 0
  end.

(* ---- qualified writes (added after seeded change C13-13).  p:n reaches what p exports, p::n any definition
   of p, for writing as for reading: a qualified setq of a variable it reaches is the setq made in p; one that
   reaches nothing changes nothing.  A qualified defvar leaves a variable it reaches alone when it has a value
   and gives it the value otherwise; a variable it does not reach (not exported, one colon, another current
   package) is left alone; a name p does not resolve is defined in p.  (In p itself p:n is p's own name: the
   code's Package.Get answers for the current package.) ---- *)
Definition sas_pkg (s : sstate) (p : pkgid) (o : op) : sstate := sstep (sstep (sstep s (OInPkg p)) o) (OInPkg (s_cur s)).
Definition s_setq_q (s : sstate) (p : pkgid) (n : name) (v : Z) (priv : bool) : sstate :=
  match resolve_v s p n with
  | Some a => match s_vheap s a with
              | Some vv => if vv_export vv || priv then sas_pkg s p (OSetq n v) else s
              | None => s end
  | None => s
  end.
Definition s_defvar_q (s : sstate) (p : pkgid) (n : name) (v : Z) (priv : bool) : sstate :=
  match resolve_v s p n with
  | Some a => match s_vheap s a with
              | Some vv => if vv_export vv || priv || N.eqb (s_cur s) p then
                             match vv_val vv with Some _ => s | None => sas_pkg s p (OSetq n v) end
                           else s
              | None => s end
  | None => sas_pkg s p (OSetq n v)
  end.
(* (fmakunbound 'p:n) / (fmakunbound 'p::n): when the name is visible by the rule of the property (one colon:
   exported from p, two colons: any definition of p) the function p owns under n is removed, as by
   (fmakunbound 'n) evaluated in p; an invisible name designates nothing *)
Definition s_fmakunbound_q (s : sstate) (p : pkgid) (n : name) (priv : bool) : sstate :=
  match sq_fun s (s_cur s) p n priv with
  | QUnbound => s
  | _ => sas_pkg s p (OFmakunbound n)
  end.
Definition sxstep (s : sstate) (o : xop) : sstate :=
  match o with
  | XB o => sstep s o
  | XSetqQ p n v priv => s_setq_q s p n v priv
  | XDefvarQ p n v priv => s_defvar_q s p n v priv
  | XFmakunboundQ p n priv => s_fmakunbound_q s p n priv
  end.
(* the variable p resolves under n is private, has a value, and p is not the current package: the one place
   where the code's qualified defvar differs from S (known finding C13-defvar-private-qualified-overwrites:
   Package.Get does not answer, so (defvar p::n v) takes the variable for unbound and overwrites it) *)
Definition private_bound_elsewhere (s : sstate) (p : pkgid) (n : name) : bool :=
  match resolve_v s p n with
  | Some a => match s_vheap s a with
              | Some vv => negb (vv_export vv) && negb (N.eqb (s_cur s) p) &&
                           match vv_val vv with Some _ => true | None => false end
              | None => false end
  | None => false
  end.
Definition xguard_step (P : list pkgid) (NM : list name) (s : sstate) (o : xop) : bool :=
  match o with
  | XB o => guard_step P NM s o
  | XSetqQ p n v priv => mem n NM
  | XDefvarQ p n v priv => mem n NM && negb (priv && private_bound_elsewhere s p n)
  | XFmakunboundQ p n priv =>      (* the clause of (fmakunbound 'n) evaluated in p *)
      match sq_fun s (s_cur s) p n priv with
      | QUnbound => true
      | _ => guard_step P NM (sstep s (OInPkg p)) (OFmakunbound n)
      end
  end.
Fixpoint sxrun (P : list pkgid) (VN FN : list name) (s : sstate) (ops : list xop) : list (list qres) :=
  match ops with
  | [] => []
  | o :: ops' => let s' := sxstep s o in sobserve P VN FN s' :: sxrun P VN FN s' ops'
  end.
Fixpoint xguard_run (P : list pkgid) (NM : list name) (s : sstate) (ops : list xop) : bool :=
  match ops with
  | [] => true
  | o :: ops' => xguard_step P NM s o && xguard_run P NM (sxstep s o) ops'
  end.
Fixpoint xguard_prefix (P : list pkgid) (NM : list name) (s : sstate) (ops : list xop) : nat :=
  match ops with
  | [] => 0
  | o :: ops' => if xguard_step P NM s o then S (xguard_prefix P NM (sxstep s o) ops') else 0
  end.
