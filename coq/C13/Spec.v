(* C13 — specification S: visibility is RECOMPUTED from the graph.  A package has its own cells
   (name -> cell), an ordered list of used packages, and nothing else; what a name resolves to in
   a package is computed on demand: the package's own cell if it has one, otherwise the exported
   own cell of the first used package that has one.  Cells live in a heap (as symbols do in the
   language: one cell per (home package, name), shared by every package that inherits it), so that
   setting an inherited variable sets the home package's variable. *)
From C13 Require Export Model.
Open Scope N_scope.

(* a function cell of S holds the value itself (M goes through Lambda objects) *)
Record sfuninfo := { sf_pkg : pkgid; sf_val : Z; sf_export : bool }.

Record sstate := {
  s_vheap : addr -> option varval;
  s_fheap : addr -> option sfuninfo;
  own_v : pkgid -> name -> option addr;
  own_f : pkgid -> name -> option addr;
  s_vnext : addr;
  s_fnext : addr;
  s_uses : pkgid -> list pkgid;
  s_cur : pkgid }.

Definition sinit (p0 : pkgid) : sstate :=
  {| s_vheap := fun _ => None; s_fheap := fun _ => None; own_v := fun _ _ => None; own_f := fun _ _ => None;
     s_vnext := 0; s_fnext := 0; s_uses := fun _ => []; s_cur := p0 |}.

Definition s_vexp (s : sstate) (a : addr) : bool := match s_vheap s a with Some vv => vv_export vv | None => false end.
Definition s_fexp (s : sstate) (a : addr) : bool := match s_fheap s a with Some fi => sf_export fi | None => false end.

(* first used package with an exported own cell *)
Fixpoint inherited {A} (own : pkgid -> name -> option A) (exp : A -> bool) (us : list pkgid) (n : name) : option A :=
  match us with
  | [] => None
  | q :: us' => match own q n with
                | Some a => if exp a then Some a else inherited own exp us' n
                | None => inherited own exp us' n
                end
  end.
Definition resolve_v (s : sstate) (p : pkgid) (n : name) : option addr :=
  match own_v s p n with Some a => Some a | None => inherited (own_v s) (s_vexp s) (s_uses s p) n end.
Definition resolve_f (s : sstate) (p : pkgid) (n : name) : option addr :=
  match own_f s p n with Some a => Some a | None => inherited (own_f s) (s_fexp s) (s_uses s p) n end.

Definition set_vval (s : sstate) (a : addr) (v : option Z) : sstate :=
  match s_vheap s a with
  | Some vv => {| s_vheap := upd (s_vheap s) a (Some {| vv_pkg := vv_pkg vv; vv_val := v; vv_export := vv_export vv |});
                  s_fheap := s_fheap s; own_v := own_v s; own_f := own_f s; s_vnext := s_vnext s; s_fnext := s_fnext s;
                  s_uses := s_uses s; s_cur := s_cur s |}
  | None => s end.
Definition set_vexp (s : sstate) (a : addr) (e : bool) : sstate :=
  match s_vheap s a with
  | Some vv => {| s_vheap := upd (s_vheap s) a (Some {| vv_pkg := vv_pkg vv; vv_val := vv_val vv; vv_export := e |});
                  s_fheap := s_fheap s; own_v := own_v s; own_f := own_f s; s_vnext := s_vnext s; s_fnext := s_fnext s;
                  s_uses := s_uses s; s_cur := s_cur s |}
  | None => s end.
Definition set_fexp (s : sstate) (a : addr) (e : bool) : sstate :=
  match s_fheap s a with
  | Some fi => {| s_vheap := s_vheap s;
                  s_fheap := upd (s_fheap s) a (Some {| sf_pkg := sf_pkg fi; sf_val := sf_val fi; sf_export := e |});
                  own_v := own_v s; own_f := own_f s; s_vnext := s_vnext s; s_fnext := s_fnext s;
                  s_uses := s_uses s; s_cur := s_cur s |}
  | None => s end.
Definition new_var (s : sstate) (p : pkgid) (n : name) (vv : varval) : sstate :=
  {| s_vheap := upd (s_vheap s) (s_vnext s) (Some vv); s_fheap := s_fheap s;
     own_v := upd2 (own_v s) p n (Some (s_vnext s)); own_f := own_f s; s_vnext := s_vnext s + 1; s_fnext := s_fnext s;
     s_uses := s_uses s; s_cur := s_cur s |}.

Definition s_setq (s : sstate) (n : name) (v : Z) : sstate :=
  match resolve_v s (s_cur s) n with
  | Some a => set_vval s a (Some v)
  | None => new_var s (s_cur s) n {| vv_pkg := Some (s_cur s); vv_val := Some v; vv_export := false |}
  end.

Definition sstep (s : sstate) (o : op) : sstate :=
  match o with
  | OInPkg p => {| s_vheap := s_vheap s; s_fheap := s_fheap s; own_v := own_v s; own_f := own_f s; s_vnext := s_vnext s;
                   s_fnext := s_fnext s; s_uses := s_uses s; s_cur := p |}
  | OUse q p =>
      if N.eqb p q || mem q (s_uses s p) then s
      else {| s_vheap := s_vheap s; s_fheap := s_fheap s; own_v := own_v s; own_f := own_f s; s_vnext := s_vnext s;
              s_fnext := s_fnext s; s_uses := upd (s_uses s) p (s_uses s p ++ [q]); s_cur := s_cur s |}
  | OUnuse q p =>
      if N.eqb p q then s
      else {| s_vheap := s_vheap s; s_fheap := s_fheap s; own_v := own_v s; own_f := own_f s; s_vnext := s_vnext s;
              s_fnext := s_fnext s; s_uses := upd (s_uses s) p (remove1 q (s_uses s p)); s_cur := s_cur s |}
  | OExport n p =>
      let s1 := match own_f s p n with Some a => set_fexp s a true | None => s end in
      match own_v s1 p n with
      | Some a => set_vexp s1 a true
      | None => new_var s1 p n {| vv_pkg := None; vv_val := None; vv_export := true |}   (* the symbol is interned, unbound *)
      end
  | OUnexport n p =>
      let s1 := match own_f s p n with Some a => set_fexp s a false | None => s end in
      match own_v s1 p n with Some a => set_vexp s1 a false | None => s1 end
  | OSetq n v => s_setq s n v
  | ODefvar n v =>
      match resolve_v s (s_cur s) n with
      | Some a => match s_vheap s a with
                  | Some vv => match vv_val vv with Some _ => s | None => s_setq s n v end
                  | None => s end
      | None => s_setq s n v
      end
  | ODefun n v =>
      match resolve_f s (s_cur s) n with
      | Some a =>
          match s_fheap s a with
          | Some fi => {| s_vheap := s_vheap s;
                          s_fheap := upd (s_fheap s) a (Some {| sf_pkg := sf_pkg fi; sf_val := v; sf_export := sf_export fi |});
                          own_v := own_v s; own_f := own_f s; s_vnext := s_vnext s; s_fnext := s_fnext s;
                          s_uses := s_uses s; s_cur := s_cur s |}
          | None => s end
      | None =>
          {| s_vheap := s_vheap s;
             s_fheap := upd (s_fheap s) (s_fnext s) (Some {| sf_pkg := s_cur s; sf_val := v; sf_export := false |});
             own_v := own_v s; own_f := upd2 (own_f s) (s_cur s) n (Some (s_fnext s));
             s_vnext := s_vnext s; s_fnext := s_fnext s + 1; s_uses := s_uses s; s_cur := s_cur s |}
      end
  | OMakunbound n =>
      {| s_vheap := s_vheap s; s_fheap := s_fheap s; own_v := upd2 (own_v s) (s_cur s) n None; own_f := own_f s;
         s_vnext := s_vnext s; s_fnext := s_fnext s; s_uses := s_uses s; s_cur := s_cur s |}
  | OFmakunbound n =>
      {| s_vheap := s_vheap s; s_fheap := s_fheap s; own_v := own_v s; own_f := upd2 (own_f s) (s_cur s) n None;
         s_vnext := s_vnext s; s_fnext := s_fnext s; s_uses := s_uses s; s_cur := s_cur s |}
  end.

(* ---- what S answers ---- *)
Definition sq_var (s : sstate) (c : pkgid) (n : name) : qres :=
  match resolve_v s c n with
  | Some a => match s_vheap s a with
              | Some vv => match vv_val vv with Some v => QVal v | None => QUnbound end
              | None => QUnbound end
  | None => QUnbound
  end.
(* p:n reaches an exported definition, p::n any definition; where p has no own definition the
   statement leaves the answer open and S takes what p itself sees *)
Definition sq_var_q (s : sstate) (p : pkgid) (n : name) (private : bool) : qres :=
  match resolve_v s p n with
  | Some a => match s_vheap s a with
              | Some vv => if vv_export vv || private then
                             match vv_val vv with Some v => QVal v | None => QUnbound end
                           else QUnbound
              | None => QUnbound end
  | None => QUnbound
  end.
Definition sq_fun (s : sstate) (c p : pkgid) (n : name) (private : bool) : qres :=
  match resolve_f s p n with
  | Some a => match s_fheap s a with
              | Some fi => if private || sf_export fi || N.eqb c (sf_pkg fi) then QVal (sf_val fi) else QUnbound
              | None => QUnbound end
  | None => QUnbound
  end.
Definition sobserve (P : list pkgid) (VN FN : list name) (s : sstate) : list qres :=
  flat_map (fun c =>
    flat_map (fun n => sq_var s c n :: flat_map (fun p => [sq_var_q s p n false; sq_var_q s p n true]) P) VN ++
    flat_map (fun n => sq_fun s c c n false :: flat_map (fun p => [sq_fun s c p n false; sq_fun s c p n true]) P) FN) P.

(* ---- the guard: which steps the theorem covers (evaluated on the S state before the step) ---- *)
Section Guard.
  Variable P : list pkgid.      (* all packages *)
  Variable NM : list name.      (* all names *)

  Definition s_users (s : sstate) (p : pkgid) : list pkgid := filter (fun u => mem p (s_uses s u)) P.

  Definition opt_addr_eqb (a b : option addr) : bool :=
    match a, b with Some x, Some y => N.eqb x y | None, None => true | _, _ => false end.

  Definition guard_step (s : sstate) (o : op) : bool :=
    match o with
    | OInPkg p => mem p P
    | OUse q p =>
        (* no name conflict: nothing q exports is already visible in p under the same name *)
        mem p P && mem q P &&
        forallb (fun n =>
          (match own_v s q n with
           | Some a => negb (s_vexp s a) || opt_addr_eqb (resolve_v s p n) None
           | None => (* Package.Use also copies what q merely inherits: only harmless when p sees it already *)
                     match resolve_v s q n with Some a => opt_addr_eqb (resolve_v s p n) (Some a) | None => true end
           end) &&
          (match own_f s q n with
           | Some a => negb (s_fexp s a) || opt_addr_eqb (resolve_f s p n) None
           | None => match resolve_f s q n with Some a => opt_addr_eqb (resolve_f s p n) (Some a) | None => true end
           end)) NM
    | OUnuse _ _ => false      (* Package.Unuse rebuilds from the used packages only: known finding *)
    | OExport n p =>
        mem p P &&
        (* the exported cells exist, are bound, and no user of p sees another cell under that name *)
        (match own_v s p n, own_f s p n with
         | None, None => false
         | _, _ => true end) &&
        (match own_v s p n with
         | Some a => match s_vheap s a with Some vv => match vv_val vv with Some _ => true | None => false end | None => false end &&
                     forallb (fun u => opt_addr_eqb (resolve_v s u n) None || opt_addr_eqb (resolve_v s u n) (Some a)) (s_users s p)
         | None => (* Package.Export looks the name up in p's table, which also holds inherited entries: it would
                      mark and push the inherited cell instead of interning a symbol of p *)
                   opt_addr_eqb (resolve_v s p n) None end) &&
        (match own_f s p n with
         | Some a => forallb (fun u => opt_addr_eqb (resolve_f s u n) None || opt_addr_eqb (resolve_f s u n) (Some a)) (s_users s p)
         | None => true end)
    | OUnexport n p =>
        mem p P &&
        (* Package.Unexport looks the name up in p's table: on an inherited entry it would clear the export
           flag of the HOME package's cell (known finding), so p must own the cell or see nothing *)
        (match own_v s p n with
         | Some a => match s_vheap s a with Some vv => match vv_pkg vv with Some _ => true | None => false end | None => false end
         | None => opt_addr_eqb (resolve_v s p n) None end) &&
        (match own_f s p n with
         | Some a => match s_fheap s a with Some fi => N.eqb (sf_pkg fi) p | None => false end
         | None => opt_addr_eqb (resolve_f s p n) None end)
    | OSetq n _ | ODefvar n _ =>
        (* every user of the current package already sees the cell being set (SetIfHas pushes it) *)
        match resolve_v s (s_cur s) n with
        | Some a => forallb (fun u => opt_addr_eqb (resolve_v s u n) (Some a)) (s_users s (s_cur s))
        | None => true
        end
    | ODefun n _ =>
        match resolve_f s (s_cur s) n with
        | Some a => opt_addr_eqb (own_f s (s_cur s) n) (Some a)     (* redefinition of an own function *)
        | None => (* no exported-unbound variable of that name, own OR inherited: DefLambda reads the
                     package's table, which holds inherited entries too (known finding) *)
                  opt_addr_eqb (resolve_v s (s_cur s) n) None
        end
    | OMakunbound n =>
        match resolve_v s (s_cur s) n with
        | Some a => opt_addr_eqb (own_v s (s_cur s) n) (Some a) &&
                    match s_vheap s a with Some vv => match vv_pkg vv with Some _ => true | None => false end | None => false end
        | None => true end
    | OFmakunbound n =>
        match resolve_f s (s_cur s) n with
        | Some a => opt_addr_eqb (own_f s (s_cur s) n) (Some a) && (negb (s_fexp s a) || match s_users s (s_cur s) with [] => true | _ => false end)
        | None => true end
    end.
End Guard.

(* ---- name discipline of a history: a name is used either as a variable or as a function (as in the
   harness: setq/defvar/makunbound and the variable queries on the names VN, defun/fmakunbound and the
   calls on the names FN, VN and FN disjoint; export/unexport on either).  Without it `export` of a
   function name makes `p:name` (read as a VARIABLE) the unbound marker: finding C13-unbound-marker-as-value ---- *)
Definition sorted_op (VN FN : list name) (o : op) : bool :=
  match o with
  | OSetq n _ | ODefvar n _ | OMakunbound n => mem n VN
  | ODefun n _ | OFmakunbound n => mem n FN
  | OExport n _ | OUnexport n _ => mem n VN || mem n FN
  | OInPkg _ | OUse _ _ | OUnuse _ _ => true
  end.
Definition disjoint_names (VN FN : list name) : bool := forallb (fun n => negb (mem n FN)) VN.

Fixpoint srun (P : list pkgid) (VN FN : list name) (s : sstate) (ops : list op) : list (list qres) :=
  match ops with
  | [] => []
  | o :: ops' => let s' := sstep s o in sobserve P VN FN s' :: srun P VN FN s' ops'
  end.
Fixpoint guard_run (P : list pkgid) (NM : list name) (s : sstate) (ops : list op) : bool :=
  match ops with
  | [] => true
  | o :: ops' => guard_step P NM s o && guard_run P NM (sstep s o) ops'
  end.
(* length of the longest guarded prefix *)
Fixpoint guard_prefix (P : list pkgid) (NM : list name) (s : sstate) (ops : list op) : nat :=
  match ops with
  | [] => 0
  | o :: ops' => if guard_step P NM s o then S (guard_prefix P NM (sstep s o) ops') else 0
  end.
(* length of the longest prefix that is guarded AND keeps the name discipline (NM = VN ++ FN): the
   domain of the refinement theorem *)
Fixpoint sorted_guard_prefix (P : list pkgid) (VN FN : list name) (s : sstate) (ops : list op) : nat :=
  match ops with
  | [] => 0
  | o :: ops' => if sorted_op VN FN o && guard_step P (VN ++ FN) s o
                 then S (sorted_guard_prefix P VN FN (sstep s o) ops') else 0
  end.
