(* C13 — the refinement M = S on the guard, for all histories: abstraction relation between the state
   of the code model M (denormalised tables of the repaired package.go) and of the specification S
   (visibility recomputed from the graph), preserved by every guarded step.  No name discipline and no
   conflict-freedom is needed any more: the relation is just "every table entry is the resolution". *)
From C13 Require Import Model Spec Corr Proofs ProofsRes.
Open Scope N_scope.

Arguments mem : simpl never.
Arguments res : simpl never.
Arguments eff : simpl never.
Arguments upd : simpl never.
Arguments upd2 : simpl never.
Arguments inj : simpl never.
Arguments N.ltb : simpl never.
Arguments N.add : simpl never.
Arguments inherited : simpl never.

Definition vexp_of (h : addr -> option varval) (a : addr) : bool :=
  match h a with Some vv => vv_export vv | None => false end.
Definition fexp_of (h : addr -> option sfuninfo) (a : addr) : bool :=
  match h a with Some fi => sf_export fi | None => false end.
(* a FuncInfo of M and a function cell of S: same home package and export flag (the value is related
   through the Lambda heap, for live cells only: see f_live) *)
Definition frel (o1 : option funinfo) (o2 : option sfuninfo) : Prop :=
  match o1, o2 with
  | Some fi, Some sf => fi_pkg fi = sf_pkg sf /\ fi_export fi = sf_export sf
  | None, None => True
  | _, _ => False
  end.

Lemma opt_addr_eqb_eq a b : opt_addr_eqb a b = true <-> a = b.
Proof.
  destruct a as [x|], b as [y|]; cbn; split; intros H; try congruence; try reflexivity.
  - apply N.eqb_eq in H. congruence.
  - injection H as ->. apply N.eqb_refl.
Qed.
Lemma is_some_false a : is_some a = false -> a = None.
Proof. destruct a; [discriminate|reflexivity]. Qed.
Lemma mem_single x y : mem x [y] = N.eqb x y.
Proof. unfold mem. cbn. apply orb_false_r. Qed.
Lemma eff_offer (own : tbl) exp q n : eff own exp q n = own_offer own exp q n.
Proof. reflexivity. Qed.
Lemma upd2_cases {A} (f : N -> N -> A) k1 k2 v a b :
  (a = k1 /\ b = k2 /\ upd2 f k1 k2 v a b = v) \/ (~ (a = k1 /\ b = k2) /\ upd2 f k1 k2 v a b = f a b).
Proof.
  unfold upd2. destruct (N.eqb_spec a k1), (N.eqb_spec b k2); cbn; auto; right; split; auto; tauto.
Qed.
Lemma res_exp_ext (own : tbl) exp exp' us p n : (forall a, exp a = exp' a) -> res own exp us p n = res own exp' us p n.
Proof. intros H. apply res_ext; auto. intros q _. unfold eff. destruct (own q n); [rewrite H|]; reflexivity. Qed.
Lemma res_all_none (own : tbl) exp us p n : (forall q, own q n = None) -> res own exp us p n = None.
Proof.
  intros H. apply res_none_intro; [apply H|]. intros q _. unfold eff. rewrite H. reflexivity.
Qed.
Lemma upd2_none_noop (f : tbl) k1 k2 : f k1 k2 = None -> forall p n, f p n = upd2 f k1 k2 None p n.
Proof. intros H p n. destruct (upd2_cases f k1 k2 None p n) as [(-> & -> & ->)|[_ ->]]; auto. Qed.
Lemma pair_eqb_cases (p n p0 n0 : N) :
  (p = p0 /\ n = n0 /\ N.eqb p p0 && N.eqb n n0 = true) \/ (~ (p = p0 /\ n = n0) /\ N.eqb p p0 && N.eqb n n0 = false).
Proof. destruct (N.eqb_spec p p0), (N.eqb_spec n n0); cbn; auto; right; split; auto; tauto. Qed.

Lemma forallb_ext' {A} (f g : A -> bool) l : (forall x, f x = g x) -> forallb f l = forallb g l.
Proof. intros H. induction l as [|x l IH]; [reflexivity|]. cbn. rewrite H, IH. reflexivity. Qed.

Section Refine.
  Variables (P : list pkgid) (NM : list name).

  Record Cinv (m : state) (s : sstate) : Prop := {
    c_uses : forall p, uses m p = s_uses s p;
    c_users : forall u p, mem u (users m p) = mem p (s_uses s u);
    c_cur : cur m = s_cur s;
    c_wf : forall p q, In q (s_uses s p) -> mem p P = true /\ p <> q;
    c_nd_uses : forall p, NoDup (s_uses s p);
    c_nd_users : forall p, NoDup (users m p) }.

  (* variable side: table T, heap mh and counter mn of M; own table, heap sh, counter sn, use lists of S *)
  Record RVp (T : tbl) (mh : addr -> option varval) (mn : addr)
             (own : tbl) (sh : addr -> option varval) (sn : addr) (us : pkgid -> list pkgid) : Prop := {
    v_heap : forall a, mh a = sh a;
    v_next : mn = sn;
    v_tab : forall p n, T p n = res own (vexp_of sh) us p n;
    v_own : forall p n a, own p n = Some a -> a < sn /\ mem n NM = true /\ exists vv, sh a = Some vv /\ vv_pkg vv = Some p;
    v_inj : inj own }.
  Record RFp (T : tbl) (mh : addr -> option funinfo) (lh : addr -> option Z) (pl : tbl) (mn ln : addr)
             (own : tbl) (sh : addr -> option sfuninfo) (sn : addr) (us : pkgid -> list pkgid) : Prop := {
    f_heap : forall a, frel (mh a) (sh a);
    f_next : mn = sn;
    f_tab : forall p n, T p n = res own (fexp_of sh) us p n;
    f_own : forall p n a, own p n = Some a ->
            a < sn /\ mem n NM = true /\ exists fi, sh a = Some fi /\ sf_pkg fi = p;
    f_inj : inj own;
    (* the FuncInfo of a live (own) cell refers to a Lambda holding the value S has, and that Lambda is
       registered in Package.lambdas at most under the cell's own (home, name): a later defun elsewhere
       cannot patch it *)
    f_live : forall p n a, own p n = Some a ->
             exists fi sf, mh a = Some fi /\ sh a = Some sf /\ lh (fi_lam fi) = Some (sf_val sf) /\ fi_lam fi < ln /\
                           (forall p' n', pl p' n' = Some (fi_lam fi) -> p' = p /\ n' = n);
    f_plam : forall p n x, pl p n = Some x -> x < ln }.
  Definition RV (m : state) (s : sstate) : Prop :=
    RVp (vars m) (vheap m) (vnext m) (own_v s) (s_vheap s) (s_vnext s) (s_uses s).
  Definition RF (m : state) (s : sstate) : Prop :=
    RFp (funcs m) (fheap m) (lheap m) (plam m) (fnext m) (lnext m) (own_f s) (s_fheap s) (s_fnext s) (s_uses s).
  Definition Inv (m : state) (s : sstate) : Prop := Cinv m s /\ RV m s /\ RF m s.

  Lemma inv_init p0 : Inv (init p0) (sinit p0).
  Proof.
    split; [|split].
    - constructor; cbn; auto; try (intros ? ? []); intros; constructor.
    - constructor; cbn; auto; try discriminate; intros p n p' n' a H; discriminate.
    - constructor; cbn; auto; try discriminate; intros p n p' n' a H; discriminate.
  Qed.

  (* ---- facts that follow from the relation ---- *)
  Section Facts.
    Variables (m : state) (s : sstate).
    Hypothesis HC : Cinv m s.
    Hypothesis HV : RV m s.
    Hypothesis HF : RF m s.

    Lemma noself_uses : noself (s_uses s).
    Proof. intros p Hp. destruct (c_wf _ _ HC _ _ Hp) as [_ H]. congruence. Qed.
    Lemma vexp_eq a : vv_exported m a = vexp_of (s_vheap s) a.
    Proof. unfold vv_exported, vexp_of. rewrite (v_heap _ _ _ _ _ _ _ HV). reflexivity. Qed.
    Lemma fheap_of_s a sf : s_fheap s a = Some sf ->
      exists fi, fheap m a = Some fi /\ fi_pkg fi = sf_pkg sf /\ fi_export fi = sf_export sf.
    Proof.
      intros H. pose proof (f_heap _ _ _ _ _ _ _ _ _ _ HF a) as Hr. unfold frel in Hr. rewrite H in Hr.
      destruct (fheap m a) as [fi|]; [|contradiction]. exists fi. tauto.
    Qed.
    Lemma fexp_eq a : fi_exported m a = fexp_of (s_fheap s) a.
    Proof.
      unfold fi_exported, fexp_of. pose proof (f_heap _ _ _ _ _ _ _ _ _ _ HF a) as Hr. unfold frel in Hr.
      destruct (fheap m a), (s_fheap s a); try contradiction; tauto.
    Qed.
    Lemma resv_nonm p n : mem n NM = false -> resolve_v s p n = None.
    Proof.
      intros H. apply res_all_none. intros q. destruct (own_v s q n) as [a|] eqn:E; [|reflexivity].
      destruct (v_own _ _ _ _ _ _ _ HV _ _ _ E) as (_ & H2 & _). congruence.
    Qed.
    Lemma resf_nonm p n : mem n NM = false -> resolve_f s p n = None.
    Proof.
      intros H. apply res_all_none. intros q. destruct (own_f s q n) as [a|] eqn:E; [|reflexivity].
      destruct (f_own _ _ _ _ _ _ _ _ _ _ HF _ _ _ E) as (_ & H2 & _). congruence.
    Qed.
    Lemma in_s_users u p : In p (s_uses s u) -> In u (s_users P s p).
    Proof.
      intros H. unfold s_users. apply filter_In. split.
      - apply mem_In. exact (proj1 (c_wf _ _ HC _ _ H)).
      - apply mem_In, H.
    Qed.
    Lemma mem_users u p : mem u (users m p) = true <-> In p (s_uses s u).
    Proof. rewrite (c_users _ _ HC). apply mem_In. Qed.
    Lemma users_forall (F : pkgid -> bool) p :
      forallb F (s_users P s p) = true -> forall u, In p (s_uses s u) -> F u = true.
    Proof. intros H u Hu. rewrite forallb_forall in H. apply H, in_s_users, Hu. Qed.

    (* what a name resolves to is the own cell of some package, which is its home *)
    Lemma resv_cell p n a :
      resolve_v s p n = Some a ->
      exists q vv, own_v s q n = Some a /\ s_vheap s a = Some vv /\ vv_pkg vv = Some q /\ (q = p \/ In q (s_uses s p)).
    Proof.
      intros Hr. apply res_some_inv in Hr. destruct Hr as [Hr|(_ & q & Hq & Hf)].
      - destruct (v_own _ _ _ _ _ _ _ HV _ _ _ Hr) as (_ & _ & vv & H1 & H2). eauto 8.
      - apply eff_some in Hf. destruct Hf as [Hf _].
        destruct (v_own _ _ _ _ _ _ _ HV _ _ _ Hf) as (_ & _ & vv & H1 & H2). eauto 8.
    Qed.
    Lemma resf_cell p n a :
      resolve_f s p n = Some a ->
      exists q fi, own_f s q n = Some a /\ s_fheap s a = Some fi /\ sf_pkg fi = q /\ (q = p \/ In q (s_uses s p)).
    Proof.
      intros Hr. apply res_some_inv in Hr. destruct Hr as [Hr|(_ & q & Hq & Hf)].
      - destruct (f_own _ _ _ _ _ _ _ _ _ _ HF _ _ _ Hr) as (_ & _ & fi & H1 & H2). eauto 8.
      - apply eff_some in Hf. destruct Hf as [Hf _].
        destruct (f_own _ _ _ _ _ _ _ _ _ _ HF _ _ _ Hf) as (_ & _ & fi & H1 & H2). eauto 8.
    Qed.
    (* the test vv.Pkg == obj / fi.Pkg == obj on a table entry recognises exactly the own cells *)
    Lemma home_v p n a : resolve_v s p n = Some a -> (vv_home m p a = true <-> own_v s p n = Some a).
    Proof.
      intros Hr. destruct (resv_cell _ _ _ Hr) as (q & vv & Ho & Hh & Hp & Hq).
      unfold vv_home. rewrite (v_heap _ _ _ _ _ _ _ HV), Hh, Hp. cbn. split.
      - intros E. apply N.eqb_eq in E. congruence.
      - intros Ho'. destruct (v_inj _ _ _ _ _ _ _ HV _ _ _ _ _ Ho Ho') as [-> _]. apply N.eqb_refl.
    Qed.
    Lemma home_f p n a : resolve_f s p n = Some a -> (fi_home m p a = true <-> own_f s p n = Some a).
    Proof.
      intros Hr. destruct (resf_cell _ _ _ Hr) as (q & sf & Ho & Hh & Hp & Hq).
      destruct (fheap_of_s _ _ Hh) as (fi & Hm & Hmp & _).
      unfold fi_home. rewrite Hm, Hmp, Hp. split.
      - intros E. apply N.eqb_eq in E. congruence.
      - intros Ho'. destruct (f_inj _ _ _ _ _ _ _ _ _ _ HF _ _ _ _ _ Ho Ho') as [-> _]. apply N.eqb_refl.
    Qed.
    (* an entry of a user whose home is p under the name n is p's own cell *)
    Lemma home_v_is_own p u n x a :
      own_v s p n = Some a -> resolve_v s u n = Some x -> (vv_home m p x = true <-> x = a).
    Proof.
      intros Ho Hr. destruct (resv_cell _ _ _ Hr) as (q & vv & Hox & Hh & Hp & _).
      unfold vv_home. rewrite (v_heap _ _ _ _ _ _ _ HV), Hh, Hp. cbn. split.
      - intros E. apply N.eqb_eq in E. congruence.
      - intros ->. destruct (v_inj _ _ _ _ _ _ _ HV _ _ _ _ _ Ho Hox) as [-> _]. apply N.eqb_refl.
    Qed.
    Lemma home_f_is_own p u n x a :
      own_f s p n = Some a -> resolve_f s u n = Some x -> (fi_home m p x = true <-> x = a).
    Proof.
      intros Ho Hr. destruct (resf_cell _ _ _ Hr) as (q & sf & Hox & Hh & Hp & _).
      destruct (fheap_of_s _ _ Hh) as (fi & Hm & Hmp & _).
      unfold fi_home. rewrite Hm, Hmp, Hp. split.
      - intros E. apply N.eqb_eq in E. congruence.
      - intros ->. destruct (f_inj _ _ _ _ _ _ _ _ _ _ HF _ _ _ _ _ Ho Hox) as [-> _]. apply N.eqb_refl.
    Qed.
    Lemma vtab p n : vars m p n = resolve_v s p n.
    Proof. apply (v_tab _ _ _ _ _ _ _ HV). Qed.
    Lemma ftab p n : funcs m p n = resolve_f s p n.
    Proof. apply (f_tab _ _ _ _ _ _ _ _ _ _ HF). Qed.
  End Facts.

  Lemma step_inpkg m s p : Inv m s -> Inv (step m (OInPkg p)) (sstep s (OInPkg p)).
  Proof.
    intros (HC & HV & HF). split; [|split]; [|exact HV|exact HF].
    destruct HC. constructor; cbn; auto.
  Qed.

  (* ---- use-package ---- *)
  Lemma use_entry (own : tbl) exp us p q n (Tp Tq : option addr) (mexp : addr -> bool) :
    Tp = res own exp us p n -> Tq = res own exp us q n -> (forall a, mexp a = exp a) ->
    is_some (res own exp us p n) || opt_addr_eqb (offer exp (res own exp us q n)) (own_offer own exp q n) = true ->
    match Tp with
    | Some x => Some x
    | None => match Tq with Some a => if mexp a then Some a else None | None => None end
    end = match res own exp us p n with Some a => Some a | None => eff own exp q n end.
  Proof.
    intros -> -> Hm G. destruct (res own exp us p n) as [x|]; [reflexivity|]. cbn in G. apply opt_addr_eqb_eq in G.
    rewrite eff_offer, <- G. unfold offer. destruct (res own exp us q n) as [a|]; [rewrite Hm|]; reflexivity.
  Qed.
  Lemma use_entry_nonm (own : tbl) exp us p q n (Tp Tq : option addr) (mexp : addr -> bool) :
    Tp = res own exp us p n -> Tq = res own exp us q n -> (forall r, own r n = None) ->
    match Tp with
    | Some x => Some x
    | None => match Tq with Some a => if mexp a then Some a else None | None => None end
    end = match res own exp us p n with Some a => Some a | None => eff own exp q n end.
  Proof.
    intros -> -> H. rewrite !(res_all_none own exp us _ n H). unfold eff. rewrite H. reflexivity.
  Qed.

  Lemma step_use m s q p :
    Inv m s -> guard_step P NM s (OUse q p) = true -> Inv (step m (OUse q p)) (sstep s (OUse q p)).
  Proof.
    intros HI G. pose proof HI as (HC & HV & HF). cbn [guard_step] in G.
    apply andb_true_iff in G. destruct G as [G G2]. apply andb_true_iff in G. destruct G as [GP GQ].
    cbn [step sstep]. unfold use. destruct (N.eqb_spec p q) as [Epq|Npq]; [exact HI|].
    rewrite (c_uses _ _ HC). cbn [orb] in *. destruct (mem q (s_uses s p)) eqn:Em; [exact HI|].
    cbn [orb] in G2. rewrite forallb_forall in G2.
    assert (Hu0 : upd (s_uses s) p (s_uses s p ++ [q]) p = s_uses s p ++ [q]) by apply upd_same.
    assert (Hu1 : forall u, u <> p -> upd (s_uses s) p (s_uses s p ++ [q]) u = s_uses s u) by (intros; apply upd_other; assumption).
    split; [|split].
    - constructor; cbn.
      + intros p'. unfold upd. rewrite !(c_uses _ _ HC). reflexivity.
      + intros u p'. unfold upd.
        destruct (N.eqb_spec p' q) as [->|Hq], (N.eqb_spec u p) as [->|Hp];
          rewrite ?mem_app, ?mem_single, ?(c_users _ _ HC), ?N.eqb_refl, ?orb_true_r; try reflexivity.
        * destruct (N.eqb_spec u p); [contradiction|]. apply orb_false_r.
        * destruct (N.eqb_spec p' q); [contradiction|]. rewrite orb_false_r. reflexivity.
      + apply (c_cur _ _ HC).
      + intros p' q' Hi. destruct (N.eq_dec p' p) as [->|Hp].
        * rewrite Hu0 in Hi. apply in_app_or in Hi. destruct Hi as [Hi|[<-|[]]]; [exact (c_wf _ _ HC _ _ Hi)|auto].
        * rewrite Hu1 in Hi by exact Hp. exact (c_wf _ _ HC _ _ Hi).
      + intros p'. destruct (N.eq_dec p' p) as [->|Hp]; [|rewrite Hu1 by exact Hp; apply (c_nd_uses _ _ HC)].
        rewrite Hu0. apply NoDup_app_single; [apply (c_nd_uses _ _ HC)|]. apply mem_nIn, Em.
      + intros p'. unfold upd. destruct (N.eqb_spec p' q) as [->|Hq]; [|apply (c_nd_users _ _ HC)].
        apply NoDup_app_single; [apply (c_nd_users _ _ HC)|]. apply mem_nIn. rewrite (c_users _ _ HC). exact Em.
    - pose proof HV as [h1 h2 h3 h4 h5]. constructor; cbn; auto.
      intros p' n. destruct (N.eqb_spec p' p) as [->|Hp].
      + rewrite (res_use_self _ _ _ _ p q Hu0).
        destruct (mem n NM) eqn:Hn.
        * apply use_entry; auto; [intros a; apply (vexp_eq m s HV)|].
          specialize (G2 n (proj1 (mem_In _ _) Hn)). apply andb_true_iff in G2. exact (proj1 G2).
        * apply use_entry_nonm; auto. intros r. destruct (own_v s r n) as [a|] eqn:E; [|reflexivity].
          destruct (h4 _ _ _ E) as (_ & H2 & _). congruence.
      + rewrite (res_use_other _ _ _ _ p Hu1) by exact Hp. auto.
    - pose proof HF as [h1 h2 h3 h4 h5 h6 h7]. constructor; cbn; auto.
      intros p' n. destruct (N.eqb_spec p' p) as [->|Hp].
      + rewrite (res_use_self _ _ _ _ p q Hu0).
        destruct (mem n NM) eqn:Hn.
        * apply use_entry; auto; [intros a; apply (fexp_eq m s HF)|].
          specialize (G2 n (proj1 (mem_In _ _) Hn)). apply andb_true_iff in G2. exact (proj2 G2).
        * apply use_entry_nonm; auto. intros r. destruct (own_f s r n) as [a|] eqn:E; [|reflexivity].
          destruct (h4 _ _ _ E) as (_ & H2 & _). congruence.
      + rewrite (res_use_other _ _ _ _ p Hu1) by exact Hp. auto.
  Qed.

  (* ---- unuse-package ---- *)
  Lemma unuse_entry (own T : tbl) exp (uses : pkgid -> list pkgid) us' p n (mexp mhome : addr -> bool) :
    (forall r, T r n = res own exp uses r n) ->
    (forall a, mexp a = exp a) ->
    (forall a, res own exp uses p n = Some a -> (mhome a = true <-> own p n = Some a)) ->
    (own p n = None -> inherited (res own exp uses) exp us' n = inherited own exp us' n) ->
    match T p n with Some a => if mhome a then Some a else inherited T mexp us' n | None => inherited T mexp us' n end
    = match own p n with Some a => Some a | None => inherited own exp us' n end.
  Proof.
    intros HT Hm Hh G.
    assert (Hi : inherited T mexp us' n = inherited (res own exp uses) exp us' n).
    { apply inherited_ext. intros r _. unfold eff. rewrite HT. destruct (res own exp uses r n); [rewrite Hm|]; reflexivity. }
    rewrite HT, Hi. destruct (res own exp uses p n) as [a|] eqn:Er.
    - destruct (mhome a) eqn:Eh.
      + apply (Hh a eq_refl) in Eh. rewrite Eh. reflexivity.
      + destruct (own p n) as [b|] eqn:Eo.
        * rewrite (res_own _ _ _ _ _ _ Eo) in Er. injection Er as ->.
          assert (mhome a = true) by (apply (Hh a eq_refl); reflexivity). congruence.
        * apply G. reflexivity.
    - apply res_none_inv in Er. destruct Er as [Eo _]. rewrite Eo. apply G, Eo.
  Qed.

  Lemma step_unuse m s q p :
    Inv m s -> guard_step P NM s (OUnuse q p) = true -> Inv (step m (OUnuse q p)) (sstep s (OUnuse q p)).
  Proof.
    intros HI G. pose proof HI as (HC & HV & HF). cbn [guard_step] in G.
    cbn [step sstep]. unfold unuse. destruct (N.eqb_spec p q) as [Epq|Npq]; [exact HI|].
    cbn [orb] in G. rewrite forallb_forall in G. rewrite (c_uses _ _ HC).
    set (us' := remove1 q (s_uses s p)) in *.
    assert (Hu0 : upd (s_uses s) p us' p = us') by apply upd_same.
    assert (Hu1 : forall u, u <> p -> upd (s_uses s) p us' u = s_uses s u) by (intros; apply upd_other; assumption).
    assert (Hres_p : forall (own : tbl) exp n, res own exp (upd (s_uses s) p us') p n =
                       match own p n with Some a => Some a | None => inherited own exp us' n end)
      by (intros; unfold res; rewrite Hu0; reflexivity).
    assert (Hres_o : forall (own : tbl) exp u n, u <> p -> res own exp (upd (s_uses s) p us') u n = res own exp (s_uses s) u n)
      by (intros own exp u n Hu; unfold res; rewrite (Hu1 u Hu); reflexivity).
    split; [|split].
    - constructor; cbn.
      + intros p'. unfold upd. rewrite !(c_uses _ _ HC). reflexivity.
      + intros u p'. unfold upd. destruct (N.eqb_spec p' q) as [->|Hq], (N.eqb_spec u p) as [->|Hp].
        * rewrite (mem_remove1_same _ _ (c_nd_users _ _ HC q)). unfold us'.
          rewrite (mem_remove1_same _ _ (c_nd_uses _ _ HC p)). reflexivity.
        * rewrite (mem_remove1_other _ _ _ Hp). apply (c_users _ _ HC).
        * unfold us'. rewrite (mem_remove1_other _ _ _ Hq). apply (c_users _ _ HC).
        * apply (c_users _ _ HC).
      + apply (c_cur _ _ HC).
      + intros p' q' Hi. destruct (N.eq_dec p' p) as [->|Hp].
        * rewrite Hu0 in Hi. apply remove1_in in Hi. exact (c_wf _ _ HC _ _ Hi).
        * rewrite Hu1 in Hi by exact Hp. exact (c_wf _ _ HC _ _ Hi).
      + intros p'. destruct (N.eq_dec p' p) as [->|Hp]; [|rewrite Hu1 by exact Hp; apply (c_nd_uses _ _ HC)].
        rewrite Hu0. apply (remove1_nodup q _ (c_nd_uses _ _ HC p)).
      + intros p'. unfold upd. destruct (N.eqb_spec p' q) as [->|Hq]; [|apply (c_nd_users _ _ HC)].
        apply (remove1_nodup p _ (c_nd_users _ _ HC q)).
    - pose proof HV as [h1 h2 h3 h4 h5]. constructor; cbn; auto.
      intros p' n. destruct (N.eqb_spec p' p) as [->|Hp]; [|rewrite Hres_o by exact Hp; auto].
      rewrite Hres_p. apply unuse_entry with (uses := s_uses s); auto.
      + intros a. apply (vexp_eq m s HV).
      + intros a Ha. apply (home_v m s HV). exact Ha.
      + intros Eo. destruct (mem n NM) eqn:Hn.
        * specialize (G n (proj1 (mem_In _ _) Hn)). apply andb_true_iff in G. destruct G as [G _].
          rewrite Eo in G. cbn in G. apply opt_addr_eqb_eq in G. exact G.
        * rewrite !inherited_all_none; auto.
          -- intros r. destruct (own_v s r n) as [a|] eqn:E; [|reflexivity]. destruct (h4 _ _ _ E) as (_ & H2 & _). congruence.
          -- intros r. apply (resv_nonm m s HV). exact Hn.
    - pose proof HF as [h1 h2 h3 h4 h5 h6 h7]. constructor; cbn; auto.
      intros p' n. destruct (N.eqb_spec p' p) as [->|Hp]; [|rewrite Hres_o by exact Hp; auto].
      rewrite Hres_p. apply unuse_entry with (uses := s_uses s); auto.
      + intros a. apply (fexp_eq m s HF).
      + intros a Ha. apply (home_f m s HF). exact Ha.
      + intros Eo. destruct (mem n NM) eqn:Hn.
        * specialize (G n (proj1 (mem_In _ _) Hn)). apply andb_true_iff in G. destruct G as [_ G].
          rewrite Eo in G. cbn in G. apply opt_addr_eqb_eq in G. exact G.
        * rewrite !inherited_all_none; auto.
          -- intros r. destruct (own_f s r n) as [a|] eqn:E; [|reflexivity]. destruct (h4 _ _ _ E) as (_ & H2 & _). congruence.
          -- intros r. apply (resf_nonm m s HF). exact Hn.
  Qed.

  (* ---- setq / defvar ---- *)
  Lemma step_setq_core m s n v :
    Inv m s -> mem n NM = true -> Inv (set_var m (cur m) n v) (s_setq s n v).
  Proof.
    intros HI Hn. pose proof HI as (HC & HV & HF). pose proof HV as [h1 h2 h3 h4 h5].
    unfold set_var, s_setq. rewrite (c_cur _ _ HC), h3. change (res (own_v s) (vexp_of (s_vheap s)) (s_uses s)) with (resolve_v s).
    destruct (resolve_v s (s_cur s) n) as [a|] eqn:Er.
    - destruct (resv_cell m s HV _ _ _ Er) as (q0 & vv & Ho & Hh & Hpk & _).
      rewrite h1, Hh. rewrite N.eqb_refl, orb_true_r. unfold set_vval. rewrite Hh.
      set (vv' := {| vv_pkg := vv_pkg vv; vv_val := Some v; vv_export := vv_export vv |}).
      assert (Hexp : forall x, vexp_of (s_vheap s) x = vexp_of (upd (s_vheap s) a (Some vv')) x).
      { intros x. unfold vexp_of, upd. destruct (N.eqb_spec x a) as [->|]; [rewrite Hh|]; reflexivity. }
      (* sharing with the users is a no-op: they resolve the name already *)
      assert (Hpush : vv_export vv && opt_pkg_eqb (vv_pkg vv) (s_cur s) = true ->
                      forall p' n', push_users (vars m) (users m (s_cur s)) n a p' n' = vars m p' n').
      { intros Hc p' n'. apply andb_true_iff in Hc. destruct Hc as [He Hp]. rewrite Hpk in Hp. cbn in Hp. apply N.eqb_eq in Hp. subst q0.
        unfold push_users. destruct (mem p' (users m (s_cur s))) eqn:Eu; cbn [andb]; [|reflexivity].
        destruct (N.eqb_spec n' n) as [->|]; [|reflexivity].
        apply (mem_users m s HC) in Eu. rewrite h3.
        destruct (res (own_v s) (vexp_of (s_vheap s)) (s_uses s) p' n) as [x|] eqn:Ex; [reflexivity|].
        exfalso. eapply res_not_none; [exact Eu| |exact Ex]. apply eff_some. split; [exact Ho|].
        unfold vexp_of. rewrite Hh. exact He. }
      assert (Htab : forall p' n', vars (if vv_export vv && opt_pkg_eqb (vv_pkg vv) (s_cur s)
                       then set_vars (set_vheap m (upd (vheap m) a (Some vv')))
                              (push_users (vars (set_vheap m (upd (vheap m) a (Some vv')))) (users m (s_cur s)) n a)
                       else set_vheap m (upd (vheap m) a (Some vv'))) p' n' = vars m p' n').
      { intros p' n'. destruct (vv_export vv && opt_pkg_eqb (vv_pkg vv) (s_cur s)) eqn:Ec; [|reflexivity]. cbn. apply Hpush. reflexivity. }
      split; [|split].
      + destruct (vv_export vv && opt_pkg_eqb (vv_pkg vv) (s_cur s)); destruct HC; constructor; cbn; auto.
      + unfold RV. constructor.
        * intros x. destruct (vv_export vv && opt_pkg_eqb (vv_pkg vv) (s_cur s)); cbn; unfold upd; rewrite h1; reflexivity.
        * destruct (vv_export vv && opt_pkg_eqb (vv_pkg vv) (s_cur s)); cbn; exact h2.
        * intros p' n'. rewrite Htab. cbn. rewrite <- (res_exp_ext _ _ _ _ _ _ Hexp). apply h3.
        * intros p' n' x Hx. cbn in Hx |- *. destruct (h4 _ _ _ Hx) as (H1 & H2 & vv0 & H3 & H4). split; [exact H1|split; [exact H2|]].
          unfold upd. destruct (N.eqb_spec x a) as [->|]; [|eauto].
          eexists; split; [reflexivity|]. cbn. congruence.
        * exact h5.
      + destruct (vv_export vv && opt_pkg_eqb (vv_pkg vv) (s_cur s)); exact HF.
    - assert (Hnone : own_v s (s_cur s) n = None) by (apply res_none_inv in Er; tauto).
      assert (Hfresh : forall p' n', own_v s p' n' <> Some (s_vnext s)).
      { intros p' n' H. apply h4 in H. destruct H as [H _]. exact (N.lt_irrefl _ H). }
      set (cell := {| vv_pkg := Some (s_cur s); vv_val := Some v; vv_export := false |}).
      set (own' := upd2 (own_v s) (s_cur s) n (Some (s_vnext s))).
      set (sh' := upd (s_vheap s) (s_vnext s) (Some cell)).
      assert (Hown0 : own' (s_cur s) n = Some (s_vnext s)) by apply upd2_same.
      assert (Hown1 : forall p' n', ~ (p' = s_cur s /\ n' = n) -> own' p' n' = own_v s p' n') by (intros; apply upd2_other; assumption).
      assert (Hexp : forall x, x <> s_vnext s -> vexp_of sh' x = vexp_of (s_vheap s) x).
      { intros x Hx. unfold vexp_of, sh'. rewrite upd_other by exact Hx. reflexivity. }
      assert (Hexp0 : vexp_of sh' (s_vnext s) = false) by (unfold vexp_of, sh'; rewrite upd_same; reflexivity).
      split; [|split]; [destruct HC; constructor; cbn; auto| |exact HF].
      unfold new_var. constructor; cbn; fold cell; fold own'; fold sh'.
      + intros x. unfold sh', upd. rewrite h1, h2. reflexivity.
      + rewrite h2. reflexivity.
      + intros p' n'. rewrite h2. destruct (upd2_cases (vars m) (s_cur s) n (Some (s_vnext s)) p' n') as [(-> & -> & ->)|[Hne ->]].
        * symmetry. apply res_own, Hown0.
        * rewrite (res_new_private (own_v s) own' (vexp_of (s_vheap s)) _ _ _ _ _ Hfresh Hnone Hown0 Hown1 Hexp _ _ Hexp0 Hne). auto.
      + intros p' n' x Hx. destruct (upd2_cases (own_v s) (s_cur s) n (Some (s_vnext s)) p' n') as [(-> & -> & E)|[Hne E]];
          unfold own' in Hx; rewrite E in Hx.
        * injection Hx as <-. split; [lia|split; [exact Hn|]]. unfold sh'. rewrite upd_same. eexists; split; reflexivity.
        * destruct (h4 _ _ _ Hx) as (H1 & H2 & vv0 & H3 & H4). split; [lia|split; [exact H2|]].
          unfold sh'. rewrite upd_other; [eauto|]. intros ->. exact (Hfresh _ _ Hx).
      + eapply inj_new; eauto.
  Qed.

  Lemma step_setq m s n v :
    Inv m s -> guard_step P NM s (OSetq n v) = true -> Inv (step m (OSetq n v)) (sstep s (OSetq n v)).
  Proof. intros HI G. apply step_setq_core; assumption. Qed.

  Lemma step_defvar m s n v :
    Inv m s -> guard_step P NM s (ODefvar n v) = true -> Inv (step m (ODefvar n v)) (sstep s (ODefvar n v)).
  Proof.
    intros HI G. pose proof HI as (HC & HV & HF). cbn [guard_step] in G. cbn [step sstep]. unfold defvar, pkg_get.
    rewrite (c_cur _ _ HC), (vtab m s HV).
    destruct (resolve_v s (s_cur s) n) as [a|] eqn:Er.
    - destruct (resv_cell m s HV _ _ _ Er) as (q0 & vv & Ho & Hh & Hpk & _).
      rewrite (v_heap _ _ _ _ _ _ _ HV), Hh, N.eqb_refl, orb_true_r. destruct (vv_val vv); [exact HI|].
      rewrite <- (c_cur _ _ HC). apply step_setq_core; auto.
    - rewrite <- (c_cur _ _ HC). apply step_setq_core; auto.
  Qed.

  (* ---- export: function part then variable part ---- *)
  Lemma shared_entry a (r : option addr) : match r with Some x => Some x | None => Some a end = shared a r.
  Proof. reflexivity. Qed.

  Lemma export_f_inv m s p n :
    Inv m s -> (own_f s p n = None -> resolve_f s p n = None) ->
    match own_f s p n with
    | Some a => forallb (fun u => opt_addr_eqb (resolve_f (sexport_f s p n) u n) (shared a (resolve_f s u n))) (s_users P s p)
    | None => true end = true ->
    Inv (export_f m p n) (sexport_f s p n).
  Proof.
    intros HI Hnone G. pose proof HI as (HC & HV & HF). pose proof HF as [h1 h2 h3 h4 h5 h6 h7].
    unfold export_f. rewrite h3. change (res (own_f s) (fexp_of (s_fheap s)) (s_uses s)) with (resolve_f s).
    unfold sexport_f in *.
    destruct (own_f s p n) as [a0|] eqn:Eo; [|rewrite (Hnone eq_refl); exact HI].
    rewrite (resolve_f_own _ _ _ _ Eo). destruct (h4 _ _ _ Eo) as (Hlt & Hfn & fi & Hh & Hpk).
    destruct (fheap_of_s m s HF a0 fi Hh) as (fim & Hm & Hmp & Hme). rewrite Hm. unfold set_fexp in *. rewrite Hh in *.
    set (fi' := {| sf_pkg := sf_pkg fi; sf_val := sf_val fi; sf_export := true |}) in *.
    set (sh' := upd (s_fheap s) a0 (Some fi')) in *.
    assert (Hexp : forall x, x <> a0 -> fexp_of sh' x = fexp_of (s_fheap s) x).
    { intros x Hx. unfold fexp_of, sh'. rewrite upd_other by exact Hx. reflexivity. }
    pose proof (users_forall m s HC _ p G) as Gu. cbn beta in Gu.
    split; [|split]; [destruct HC; constructor; cbn; auto|exact HV|].
    unfold RF. cbn. fold fi'. fold sh'. constructor; auto.
    - intros x. unfold sh', upd. destruct (N.eqb_spec x a0) as [->|]; [cbn; auto|apply h1].
    - intros p' n'. unfold push_users. cbn. destruct (mem p' (users m p)) eqn:Eu; cbn [andb].
      + apply (mem_users m s HC) in Eu. destruct (N.eqb_spec n' n) as [->|Hn].
        * specialize (Gu _ Eu). apply opt_addr_eqb_eq in Gu. rewrite h3, shared_entry. symmetry. exact Gu.
        * rewrite h3. symmetry. eapply res_flag_name; eauto.
      + rewrite h3. symmetry. eapply res_flag_nonuser; eauto.
        intros Hi. apply (mem_users m s HC) in Hi. congruence.
    - intros p' n' x Hx. destruct (h4 _ _ _ Hx) as (H1 & H2 & fi0 & H3 & H4). split; [auto|split; [auto|]].
      unfold sh', upd. destruct (N.eqb_spec x a0) as [->|]; [|eauto]. eexists; split; [reflexivity|]. cbn. congruence.
    - intros p' n' b Hb. destruct (h6 _ _ _ Hb) as (fi0 & sf1 & H1 & H2 & H3 & H4 & H5).
      destruct (N.eq_dec b a0) as [->|Hb0].
      + unfold sh'. rewrite !upd_same. rewrite Hm in H1. injection H1 as <-. rewrite Hh in H2. injection H2 as <-.
        eexists; eexists. split; [reflexivity|split; [reflexivity|]]. cbn. auto.
      + unfold sh'. rewrite !upd_other by exact Hb0. eauto 10.
  Qed.

  Lemma export_v_inv m s us p n :
    Inv m s -> mem n NM = true -> (own_v s p n = None -> resolve_v s p n = None) ->
    (forall u, mem u us = true <-> In p (s_uses s u)) ->
    forallb (fun u => opt_addr_eqb (resolve_v (sexport_v s p n) u n)
                        (shared (match own_v s p n with Some a => a | None => s_vnext s end) (resolve_v s u n))) (s_users P s p) = true ->
    Inv (export_v m us p n) (sexport_v s p n).
  Proof.
    intros HI Hn Hnone Hus G. pose proof HI as (HC & HV & HF). pose proof HV as [h1 h2 h3 h4 h5].
    pose proof (users_forall m s HC _ p G) as Gu. cbn beta in Gu. clear G.
    unfold export_v. rewrite h3. change (res (own_v s) (vexp_of (s_vheap s)) (s_uses s)) with (resolve_v s).
    unfold sexport_v in *. destruct (own_v s p n) as [a0|] eqn:Eo.
    - rewrite (resolve_v_own _ _ _ _ Eo). destruct (h4 _ _ _ Eo) as (Hlt & _ & vv & Hh & Hpk).
      rewrite h1, Hh. unfold set_vexp in *. rewrite Hh in *.
      set (vv' := {| vv_pkg := vv_pkg vv; vv_val := vv_val vv; vv_export := true |}) in *.
      set (sh' := upd (s_vheap s) a0 (Some vv')) in *.
      assert (Hexp : forall x, x <> a0 -> vexp_of sh' x = vexp_of (s_vheap s) x).
      { intros x Hx. unfold vexp_of, sh'. rewrite upd_other by exact Hx. reflexivity. }
      split; [|split]; [destruct HC; constructor; cbn; auto| |exact HF].
      unfold RV. cbn. fold vv'. fold sh'. constructor; auto.
      + intros x. unfold sh', upd. rewrite h1. reflexivity.
      + intros p' n'. unfold push_users. cbn. destruct (mem p' us) eqn:Eu; cbn [andb].
        * apply Hus in Eu. destruct (N.eqb_spec n' n) as [->|Hne].
          -- specialize (Gu _ Eu). apply opt_addr_eqb_eq in Gu. rewrite h3, shared_entry. symmetry. exact Gu.
          -- rewrite h3. symmetry. eapply res_flag_name; eauto.
        * rewrite h3. symmetry. eapply res_flag_nonuser; eauto.
          intros Hi. apply Hus in Hi. congruence.
      + intros p' n' x Hx. destruct (h4 _ _ _ Hx) as (H1 & H2 & vv0 & H3 & H4). split; [auto|split; [auto|]].
        unfold sh', upd. destruct (N.eqb_spec x a0) as [->|]; [|eauto].
        eexists; split; [reflexivity|]. cbn. congruence.
    - pose proof (Hnone eq_refl) as Er. rewrite Er.
      assert (Hfresh : forall p' n', own_v s p' n' <> Some (s_vnext s)).
      { intros p' n' H. apply h4 in H. destruct H as [H _]. exact (N.lt_irrefl _ H). }
      set (cell := {| vv_pkg := Some p; vv_val := None; vv_export := true |}) in *.
      set (own' := upd2 (own_v s) p n (Some (s_vnext s))).
      set (sh' := upd (s_vheap s) (s_vnext s) (Some cell)).
      assert (Hown0 : own' p n = Some (s_vnext s)) by apply upd2_same.
      assert (Hown1 : forall p' n', ~ (p' = p /\ n' = n) -> own' p' n' = own_v s p' n') by (intros; apply upd2_other; assumption).
      assert (Hexp : forall x, x <> s_vnext s -> vexp_of sh' x = vexp_of (s_vheap s) x).
      { intros x Hx. unfold vexp_of, sh'. rewrite upd_other by exact Hx. reflexivity. }
      split; [|split]; [destruct HC; constructor; cbn; auto| |exact HF].
      unfold RV, new_var in *. cbn in *. fold own' in Gu |- *. fold sh' in Gu |- *. constructor.
      + intros x. unfold sh', upd. rewrite h1, h2. reflexivity.
      + rewrite h2. reflexivity.
      + intros p' n'. rewrite h2. unfold push_users. destruct (mem p' us) eqn:Eu; cbn [andb].
        * apply Hus in Eu. assert (Hp : p' <> p) by (apply (c_wf _ _ HC _ _ Eu)).
          destruct (N.eqb_spec n' n) as [->|Hne].
          -- rewrite upd2_other by tauto. specialize (Gu _ Eu). apply opt_addr_eqb_eq in Gu.
             rewrite h3, shared_entry. symmetry. exact Gu.
          -- rewrite upd2_other by tauto. rewrite h3. symmetry.
             eapply (res_new_name2 (own_v s) own' (vexp_of (s_vheap s)) (vexp_of sh')); eauto.
        * destruct (upd2_cases (vars m) p n (Some (s_vnext s)) p' n') as [(-> & -> & ->)|[Hne ->]].
          -- symmetry. apply res_own, Hown0.
          -- rewrite h3. symmetry. destruct (N.eq_dec n' n) as [->|Hn'].
             ++ assert (Hp : p' <> p) by tauto.
                eapply (res_new_nonuser (own_v s) own' (vexp_of (s_vheap s)) (vexp_of sh')); eauto.
                intros Hi. apply Hus in Hi. congruence.
             ++ eapply (res_new_name2 (own_v s) own' (vexp_of (s_vheap s)) (vexp_of sh')); eauto.
      + intros p' n' x Hx. destruct (upd2_cases (own_v s) p n (Some (s_vnext s)) p' n') as [(-> & -> & E)|[Hne E]];
          unfold own' in Hx; rewrite E in Hx.
        * injection Hx as <-. split; [lia|split; [exact Hn|]]. unfold sh'. rewrite upd_same. eexists; split; reflexivity.
        * destruct (h4 _ _ _ Hx) as (H1 & H2 & vv0 & H3 & H4). split; [lia|split; [exact H2|]].
          unfold sh'. rewrite upd_other; [eauto|]. intros ->. exact (Hfresh _ _ Hx).
      + eapply inj_new; eauto.
  Qed.

  Lemma sexport_f_resv s p n p' n' : resolve_v (sexport_f s p n) p' n' = resolve_v s p' n'.
  Proof. unfold sexport_f, set_fexp. destruct (own_f s p n) as [a|]; [destruct (s_fheap s a)|]; reflexivity. Qed.
  Lemma sexport_f_uses s p n : s_uses (sexport_f s p n) = s_uses s.
  Proof. unfold sexport_f, set_fexp. destruct (own_f s p n) as [a|]; [destruct (s_fheap s a)|]; reflexivity. Qed.
  Lemma sexport_f_vnext s p n : s_vnext (sexport_f s p n) = s_vnext s.
  Proof. unfold sexport_f, set_fexp. destruct (own_f s p n) as [a|]; [destruct (s_fheap s a)|]; reflexivity. Qed.
  Lemma s_users_ext s s' p : s_uses s' = s_uses s -> s_users P s' p = s_users P s p.
  Proof. intros H. unfold s_users. rewrite H. reflexivity. Qed.
  Lemma export_f_users m p n q : users (export_f m p n) q = users m q.
  Proof. unfold export_f. destruct (funcs m p n) as [a|]; [destruct (fheap m a)|]; reflexivity. Qed.

  Lemma step_export m s n p :
    Inv m s -> guard_step P NM s (OExport n p) = true -> Inv (step m (OExport n p)) (sstep s (OExport n p)).
  Proof.
    intros HI G. pose proof HI as (HC & HV & HF). cbn [step sstep]. unfold export.
    cbn [guard_step] in G. cbv zeta in G.
    apply andb_true_iff in G. destruct G as [G G4]. apply andb_true_iff in G. destruct G as [G G3].
    apply andb_true_iff in G. destruct G as [G1 G2]. apply andb_true_iff in G4. destruct G4 as [Gf Gv].
    assert (Hfn : own_f s p n = None -> resolve_f s p n = None).
    { intros Eo. rewrite Eo in G2. cbn in G2. destruct (resolve_f s p n); [discriminate|reflexivity]. }
    assert (Hvn : own_v s p n = None -> resolve_v s p n = None).
    { intros Eo. rewrite Eo in G3. cbn in G3. destruct (resolve_v s p n); [discriminate|reflexivity]. }
    pose proof (export_f_inv m s p n HI Hfn Gf) as HI1.
    apply export_v_inv; auto.
    - rewrite sexport_f_own_v, sexport_f_resv. exact Hvn.
    - intros u. rewrite sexport_f_uses. apply (mem_users m s HC).
    - rewrite sexport_f_own_v, sexport_f_vnext, (s_users_ext _ _ _ (sexport_f_uses s p n)).
      erewrite forallb_ext'; [exact Gv|]. intros u. cbn beta. rewrite sexport_f_resv. reflexivity.
  Qed.

  (* ---- unexport: function part then variable part ---- *)
  Lemma retracted_entry (test : addr -> bool) a (r : option addr) :
    (forall x, r = Some x -> (test x = true <-> x = a)) ->
    match r with Some x => if test x then None else Some x | None => None end = retracted a r.
  Proof.
    intros H. destruct r as [x|]; [|reflexivity]. cbn. specialize (H x eq_refl).
    destruct (test x) eqn:Et, (N.eqb_spec x a) as [->|Hx]; try reflexivity.
    - exfalso. apply Hx, H. reflexivity.
    - assert (false = true) by (apply H; reflexivity). discriminate.
  Qed.

  Lemma unexport_f_inv m s p n :
    Inv m s ->
    match own_f s p n with
    | Some a => forallb (fun u => opt_addr_eqb (resolve_f (sunexport_f s p n) u n) (retracted a (resolve_f s u n))) (s_users P s p)
    | None => true end = true ->
    Inv (unexport_f m p n) (sunexport_f s p n).
  Proof.
    intros HI G. pose proof HI as (HC & HV & HF). pose proof HF as [h1 h2 h3 h4 h5 h6 h7].
    unfold unexport_f. rewrite h3. change (res (own_f s) (fexp_of (s_fheap s)) (s_uses s)) with (resolve_f s).
    unfold sunexport_f in *.
    destruct (own_f s p n) as [a0|] eqn:Eo.
    - rewrite (resolve_f_own _ _ _ _ Eo). destruct (h4 _ _ _ Eo) as (Hlt & Hfn & fi & Hh & Hpk).
      destruct (fheap_of_s m s HF a0 fi Hh) as (fim & Hm & Hmp & Hme). rewrite Hm, Hmp, Hpk, N.eqb_refl.
      unfold set_fexp in *. rewrite Hh in *.
      set (fi' := {| sf_pkg := sf_pkg fi; sf_val := sf_val fi; sf_export := false |}) in *.
      set (sh' := upd (s_fheap s) a0 (Some fi')) in *.
      assert (Hexp : forall x, x <> a0 -> fexp_of sh' x = fexp_of (s_fheap s) x).
      { intros x Hx. unfold fexp_of, sh'. rewrite upd_other by exact Hx. reflexivity. }
      pose proof (users_forall m s HC _ p G) as Gu. cbn beta in Gu.
      set (m' := set_fheap m (upd (fheap m) a0 (Some {| fi_pkg := p; fi_lam := fi_lam fim; fi_export := false |}))).
      assert (Hhome : forall x, fi_home m' p x = fi_home m p x).
      { intros x. unfold fi_home, m'. cbn. unfold upd. destruct (N.eqb_spec x a0) as [->|]; [rewrite Hm, Hmp, Hpk|]; reflexivity. }
      split; [|split]; [destruct HC; constructor; cbn; auto|exact HV|].
      unfold RF. cbn. fold fi'. fold sh'. constructor; auto.
      + intros x. unfold sh', upd. destruct (N.eqb_spec x a0) as [->|]; [cbn; auto|apply h1].
      + intros p' n'. unfold drop_users. cbn. destruct (mem p' (users m p)) eqn:Eu; cbn [andb].
        * apply (mem_users m s HC) in Eu. destruct (N.eqb_spec n' n) as [->|Hn].
          -- specialize (Gu _ Eu). apply opt_addr_eqb_eq in Gu. rewrite h3.
             rewrite (retracted_entry _ a0); [symmetry; exact Gu|].
             intros x Hx. change (fi_home m' p x = true <-> x = a0). rewrite Hhome. eapply (home_f_is_own m s HF); eassumption.
          -- rewrite h3. symmetry. eapply res_flag_name; eauto.
        * rewrite h3. symmetry. eapply res_flag_nonuser; eauto.
          intros Hi. apply (mem_users m s HC) in Hi. congruence.
      + intros p' n' x Hx. destruct (h4 _ _ _ Hx) as (H1 & H2 & fi0 & H3 & H4). split; [auto|split; [auto|]].
        unfold sh', upd. destruct (N.eqb_spec x a0) as [->|]; [|eauto]. eexists; split; [reflexivity|]. cbn. congruence.
      + intros p' n' b Hb. destruct (h6 _ _ _ Hb) as (fi0 & sf1 & H1 & H2 & H3 & H4 & H5).
        destruct (N.eq_dec b a0) as [->|Hb0].
        * unfold sh'. rewrite !upd_same. rewrite Hm in H1. injection H1 as <-. rewrite Hh in H2. injection H2 as <-.
          eexists; eexists. split; [reflexivity|split; [reflexivity|]]. cbn. auto.
        * unfold sh'. rewrite !upd_other by exact Hb0. eauto 10.
    - destruct (resolve_f s p n) as [a|] eqn:Er; [|exact HI].
      destruct (resf_cell m s HF _ _ _ Er) as (q0 & sf & Ho & Hh & Hpk & _).
      destruct (fheap_of_s m s HF a sf Hh) as (fim & Hm & Hmp & _). rewrite Hm, Hmp, Hpk.
      destruct (N.eqb_spec q0 p) as [->|_]; [congruence|exact HI].
  Qed.

  Lemma unexport_v_inv m s us p n :
    Inv m s -> (forall u, mem u us = true <-> In p (s_uses s u)) ->
    match own_v s p n with
    | Some a => forallb (fun u => opt_addr_eqb (resolve_v (sunexport_v s p n) u n) (retracted a (resolve_v s u n))) (s_users P s p)
    | None => true end = true ->
    Inv (unexport_v m us p n) (sunexport_v s p n).
  Proof.
    intros HI Hus G. pose proof HI as (HC & HV & HF). pose proof HV as [h1 h2 h3 h4 h5].
    unfold unexport_v. rewrite h3. change (res (own_v s) (vexp_of (s_vheap s)) (s_uses s)) with (resolve_v s).
    unfold sunexport_v in *.
    destruct (own_v s p n) as [a0|] eqn:Eo.
    - rewrite (resolve_v_own _ _ _ _ Eo). destruct (h4 _ _ _ Eo) as (Hlt & _ & vv & Hh & Hpk).
      assert (Hpe : opt_pkg_eqb (vv_pkg vv) p = true) by (rewrite Hpk; apply N.eqb_refl).
      rewrite h1, Hh, Hpe.
      unfold set_vexp in *. rewrite Hh in *.
      set (vv' := {| vv_pkg := vv_pkg vv; vv_val := vv_val vv; vv_export := false |}) in *.
      set (sh' := upd (s_vheap s) a0 (Some vv')) in *.
      assert (Hexp : forall x, x <> a0 -> vexp_of sh' x = vexp_of (s_vheap s) x).
      { intros x Hx. unfold vexp_of, sh'. rewrite upd_other by exact Hx. reflexivity. }
      pose proof (users_forall m s HC _ p G) as Gu. cbn beta in Gu.
      set (m' := set_vheap m (upd (vheap m) a0 (Some vv'))).
      assert (Hhome : forall x, vv_home m' p x = vv_home m p x).
      { intros x. unfold vv_home, m'. cbn. unfold upd. destruct (N.eqb_spec x a0) as [->|]; [rewrite h1, Hh|]; reflexivity. }
      split; [|split]; [destruct HC; constructor; cbn; auto| |exact HF].
      unfold RV. cbn. fold vv'. fold sh'. constructor; auto.
      + intros x. unfold sh', upd. rewrite h1. reflexivity.
      + intros p' n'. unfold drop_users. cbn. destruct (mem p' us) eqn:Eu; cbn [andb].
        * apply Hus in Eu. destruct (N.eqb_spec n' n) as [->|Hne].
          -- specialize (Gu _ Eu). apply opt_addr_eqb_eq in Gu. rewrite h3.
             rewrite (retracted_entry _ a0); [symmetry; exact Gu|].
             intros x Hx. change (vv_home m' p x = true <-> x = a0). rewrite Hhome. eapply (home_v_is_own m s HV); eassumption.
          -- rewrite h3. symmetry. eapply res_flag_name; eauto.
        * rewrite h3. symmetry. eapply res_flag_nonuser; eauto.
          intros Hi. apply Hus in Hi. congruence.
      + intros p' n' x Hx. destruct (h4 _ _ _ Hx) as (H1 & H2 & vv0 & H3 & H4). split; [auto|split; [auto|]].
        unfold sh', upd. destruct (N.eqb_spec x a0) as [->|]; [|eauto].
        eexists; split; [reflexivity|]. cbn. congruence.
    - destruct (resolve_v s p n) as [a|] eqn:Er; [|exact HI].
      destruct (resv_cell m s HV _ _ _ Er) as (q0 & vv & Ho & Hh & Hpk & _).
      rewrite h1, Hh, Hpk. cbn [opt_pkg_eqb].
      destruct (N.eqb_spec q0 p) as [->|_]; [congruence|exact HI].
  Qed.

  Lemma sunexport_f_resv s p n p' n' : resolve_v (sunexport_f s p n) p' n' = resolve_v s p' n'.
  Proof. unfold sunexport_f, set_fexp. destruct (own_f s p n) as [a|]; [destruct (s_fheap s a)|]; reflexivity. Qed.
  Lemma sunexport_f_uses s p n : s_uses (sunexport_f s p n) = s_uses s.
  Proof. unfold sunexport_f, set_fexp. destruct (own_f s p n) as [a|]; [destruct (s_fheap s a)|]; reflexivity. Qed.

  Lemma step_unexport m s n p :
    Inv m s -> guard_step P NM s (OUnexport n p) = true -> Inv (step m (OUnexport n p)) (sstep s (OUnexport n p)).
  Proof.
    intros HI G. pose proof HI as (HC & HV & HF). cbn [step sstep]. unfold unexport.
    cbn [guard_step] in G. cbv zeta in G. apply andb_true_iff in G. destruct G as [Gf Gv].
    pose proof (unexport_f_inv m s p n HI Gf) as HI1.
    apply unexport_v_inv; auto.
    - intros u. rewrite sunexport_f_uses. apply (mem_users m s HC).
    - rewrite sunexport_f_own_v, (s_users_ext _ _ _ (sunexport_f_uses s p n)).
      destruct (own_v s p n) as [a|]; [|reflexivity].
      erewrite forallb_ext'; [exact Gv|]. intros u. cbn beta. rewrite sunexport_f_resv. reflexivity.
  Qed.

  (* ---- makunbound / fmakunbound ---- *)
  Lemma RVp_own_ext T mh mn own own' sh sn us :
    (forall p n, own p n = own' p n) -> RVp T mh mn own sh sn us -> RVp T mh mn own' sh sn us.
  Proof.
    intros H [h1 h2 h3 h4 h5]. constructor; auto.
    - intros p n. rewrite <- (res_ext_own own own' _ _ _ _ H). auto.
    - intros p n a. rewrite <- H. apply h4.
    - eapply inj_ext_own; eassumption.
  Qed.
  Lemma RFp_own_ext T mh lh pl mn ln own own' sh sn us :
    (forall p n, own p n = own' p n) -> RFp T mh lh pl mn ln own sh sn us -> RFp T mh lh pl mn ln own' sh sn us.
  Proof.
    intros H [h1 h2 h3 h4 h5 h6 h7]. constructor; auto.
    - intros p n. rewrite <- (res_ext_own own own' _ _ _ _ H). auto.
    - intros p n a. rewrite <- H. apply h4.
    - eapply inj_ext_own; eassumption.
    - intros p n a. rewrite <- H. apply h6.
  Qed.

  Lemma step_makunbound m s n :
    Inv m s -> guard_step P NM s (OMakunbound n) = true -> Inv (step m (OMakunbound n)) (sstep s (OMakunbound n)).
  Proof.
    intros HI G. pose proof HI as (HC & HV & HF). pose proof HV as [h1 h2 h3 h4 h5].
    cbn [guard_step] in G. cbn [step sstep] in *. unfold remove_var.
    rewrite (c_cur _ _ HC), h3. change (res (own_v s) (vexp_of (s_vheap s)) (s_uses s)) with (resolve_v s).
    set (c := s_cur s) in *.
    destruct (own_v s c n) as [a|] eqn:Eo.
    - rewrite (resolve_v_own _ _ _ _ Eo). destruct (h4 _ _ _ Eo) as (Hlt & Hnm & vv & Hh & Hpk).
      rewrite h1, Hh, Hpk, N.eqb_refl. cbn [negb].
      apply andb_true_iff in G. destruct G as [G0 G]. pose proof (users_forall m s HC _ c G) as Gu. cbn beta in Gu. clear G.
      set (own' := upd2 (own_v s) c n None) in *.
      assert (Hown0 : own' c n = None) by apply upd2_same.
      assert (Hown1 : forall p' n', ~ (p' = c /\ n' = n) -> own' p' n' = own_v s p' n') by (intros; apply upd2_other; assumption).
      split; [|split]; [destruct HC; constructor; cbn; auto| |exact HF].
      unfold RV. cbn. fold own'. constructor; auto.
      + intros p' n'. destruct (pair_eqb_cases p' n' c n) as [(-> & -> & ->)|[Hne ->]].
        * symmetry. apply is_some_false. destruct (is_some _) eqn:E in G0; [discriminate|]. exact E.
        * unfold drop_users. destruct (mem p' (users m c)) eqn:Eu; cbn [andb].
          -- apply (mem_users m s HC) in Eu. destruct (N.eqb_spec n' n) as [->|Hn].
             ++ specialize (Gu _ Eu). apply opt_addr_eqb_eq in Gu. rewrite h3.
                rewrite (retracted_entry _ a); [symmetry; exact Gu|].
                intros x Hx. eapply (home_v_is_own m s HV); eassumption.
             ++ rewrite h3. symmetry. eapply res_rm_name; eauto.
          -- rewrite h3. symmetry. destruct (N.eq_dec n' n) as [->|Hn]; [|eapply res_rm_name; eauto].
             apply (res_rm_nonuser (own_v s) own' _ (s_uses s) c n Hown1); [tauto|].
             intros Hi. apply (mem_users m s HC) in Hi. congruence.
      + intros p' n' x Hx. destruct (upd2_cases (own_v s) c n None p' n') as [(-> & -> & E)|[Hne E]];
          unfold own' in Hx; rewrite E in Hx; [discriminate|eauto].
      + eapply inj_rm; eauto.
    - assert (Hsame : Inv m (sstep s (OMakunbound n))).
      { split; [|split]; [destruct HC; constructor; cbn; auto| |exact HF].
        unfold RV. cbn. eapply RVp_own_ext; [apply upd2_none_noop, Eo|exact HV]. }
      cbn [sstep] in Hsame. fold c in Hsame.
      destruct (resolve_v s c n) as [a|] eqn:Er; [|exact Hsame].
      destruct (resv_cell m s HV _ _ _ Er) as (q0 & vv & Ho & Hh & Hpk & _).
      rewrite h1, Hh, Hpk. destruct (N.eqb_spec q0 c) as [->|_]; [congruence|exact Hsame].
  Qed.

  Lemma step_fmakunbound m s n :
    Inv m s -> guard_step P NM s (OFmakunbound n) = true -> Inv (step m (OFmakunbound n)) (sstep s (OFmakunbound n)).
  Proof.
    intros HI G. pose proof HI as (HC & HV & HF). pose proof HF as [h1 h2 h3 h4 h5 h6 h7].
    cbn [guard_step] in G. cbn [step sstep] in *. unfold undefine.
    rewrite (c_cur _ _ HC), h3. change (res (own_f s) (fexp_of (s_fheap s)) (s_uses s)) with (resolve_f s).
    set (c := s_cur s) in *.
    destruct (own_f s c n) as [a|] eqn:Eo.
    - rewrite (resolve_f_own _ _ _ _ Eo).
      assert (Hhm : fi_home m c a = true) by (apply (home_f m s HF c n a); [apply resolve_f_own, Eo|exact Eo]).
      rewrite Hhm.
      apply andb_true_iff in G. destruct G as [G0 G]. pose proof (users_forall m s HC _ c G) as Gu. cbn beta in Gu. clear G.
      set (own' := upd2 (own_f s) c n None) in *.
      assert (Hown0 : own' c n = None) by apply upd2_same.
      assert (Hown1 : forall p' n', ~ (p' = c /\ n' = n) -> own' p' n' = own_f s p' n') by (intros; apply upd2_other; assumption).
      split; [|split]; [destruct HC; constructor; cbn; auto|exact HV|].
      unfold RF. cbn. fold own'. constructor; auto.
      + intros p' n'. destruct (pair_eqb_cases p' n' c n) as [(-> & -> & ->)|[Hne ->]].
        * symmetry. apply is_some_false. destruct (is_some _) eqn:E in G0; [discriminate|]. exact E.
        * unfold drop_users. destruct (mem p' (users m c)) eqn:Eu; cbn [andb].
          -- apply (mem_users m s HC) in Eu. destruct (N.eqb_spec n' n) as [->|Hn].
             ++ specialize (Gu _ Eu). apply opt_addr_eqb_eq in Gu. rewrite h3.
                rewrite (retracted_entry _ a); [symmetry; exact Gu|].
                intros x Hx. rewrite N.eqb_eq. split; congruence.
             ++ rewrite h3. symmetry. eapply res_rm_name; eauto.
          -- rewrite h3. symmetry. destruct (N.eq_dec n' n) as [->|Hn]; [|eapply res_rm_name; eauto].
             apply (res_rm_nonuser (own_f s) own' _ (s_uses s) c n Hown1); [tauto|].
             intros Hi. apply (mem_users m s HC) in Hi. congruence.
      + intros p' n' x Hx. destruct (upd2_cases (own_f s) c n None p' n') as [(-> & -> & E)|[Hne E]];
          unfold own' in Hx; rewrite E in Hx; [discriminate|eauto].
      + eapply inj_rm; eauto.
      + intros p' n' x Hx. destruct (upd2_cases (own_f s) c n None p' n') as [(-> & -> & E)|[Hne E]];
          unfold own' in Hx; rewrite E in Hx; [discriminate|eauto].
    - assert (Hsame : Inv m (sstep s (OFmakunbound n))).
      { split; [|split]; [destruct HC; constructor; cbn; auto|exact HV|].
        unfold RF. cbn. eapply RFp_own_ext; [apply upd2_none_noop, Eo|exact HF]. }
      cbn [sstep] in Hsame. fold c in Hsame.
      destruct (resolve_f s c n) as [a|] eqn:Er; [|exact Hsame].
      destruct (fi_home m c a) eqn:Eh; [|exact Hsame].
      apply (home_f m s HF c n a Er) in Eh. congruence.
  Qed.

  (* ---- defun ---- *)
  (* the Lambda bookkeeping of DefLambda with the registry of the package hm *)
  Lemma lam_facts m s hm n v :
    RF m s ->
    let l := lnext m in
    let lh := match plam m hm n with Some x => upd (upd (lheap m) l (Some v)) x (Some v) | None => upd (lheap m) l (Some v) end in
    let pl := match plam m hm n with Some _ => plam m | None => upd2 (plam m) hm n (Some l) end in
    lh l = Some v /\
    (forall p' n', pl p' n' = Some l -> p' = hm /\ n' = n) /\
    (forall p' n' x, pl p' n' = Some x -> x < l + 1) /\
    (forall p' n' b, own_f s p' n' = Some b -> ~ (p' = hm /\ n' = n) ->
       exists fi sf, fheap m b = Some fi /\ s_fheap s b = Some sf /\ lh (fi_lam fi) = Some (sf_val sf) /\ fi_lam fi < l + 1 /\
                     (forall p'' n'', pl p'' n'' = Some (fi_lam fi) -> p'' = p' /\ n'' = n')).
  Proof.
    intros HF l lh pl. pose proof HF as [h1 h2 h3 h4 h5 h6 h7].
    assert (Hl_lh : lh l = Some v).
    { unfold lh. destruct (plam m hm n) as [x|] eqn:Ex; [|apply upd_same].
      rewrite upd_other; [apply upd_same|]. intros E. apply h7 in Ex. fold l in Ex. rewrite E in Ex. exact (N.lt_irrefl _ Ex). }
    assert (Hlh_other : forall y, y <> l -> (forall x, plam m hm n = Some x -> y <> x) -> lh y = lheap m y).
    { intros y Hy Hx. unfold lh. destruct (plam m hm n) as [x|] eqn:Ex.
      - rewrite upd_other by (apply Hx; reflexivity). apply upd_other, Hy.
      - apply upd_other, Hy. }
    assert (Hpl_l : forall p' n', pl p' n' = Some l -> p' = hm /\ n' = n).
    { intros p' n'. unfold pl. destruct (plam m hm n) as [x|] eqn:Ex.
      - intros E. apply h7 in E. exfalso. exact (N.lt_irrefl _ E).
      - destruct (upd2_cases (plam m) hm n (Some l) p' n') as [(-> & -> & _)|[_ ->]]; [auto|].
        intros E. apply h7 in E. exfalso. exact (N.lt_irrefl _ E). }
    assert (Hpl_other : forall p' n' y, y <> l -> pl p' n' = Some y -> plam m p' n' = Some y).
    { intros p' n' y Hy. unfold pl. destruct (plam m hm n) as [x|] eqn:Ex; [auto|].
      destruct (upd2_cases (plam m) hm n (Some l) p' n') as [(-> & -> & ->)|[_ ->]]; [congruence|auto]. }
    split; [exact Hl_lh|split; [exact Hpl_l|split]].
    - intros p' n' x E. destruct (N.eq_dec x l) as [->|Hx]; [lia|]. apply Hpl_other in E; [|exact Hx]. apply h7 in E. fold l in E. lia.
    - intros p' n' b Hb Hne. destruct (h6 _ _ _ Hb) as (fi & sf & H1 & H2 & H3 & H4 & H5). exists fi, sf.
      assert (Hy : fi_lam fi <> l) by (fold l in H4; lia).
      split; [exact H1|split; [exact H2|split; [|split; [fold l in H4; lia|]]]].
      + rewrite Hlh_other; [exact H3|exact Hy|]. intros x Ex E. apply Hne. destruct (H5 hm n) as [-> ->]; [congruence|auto].
      + intros p'' n'' E. apply H5. eapply Hpl_other; eassumption.
  Qed.

  (* the symbol test of DefLambda on p's table entry = the exported own symbol of S *)
  Lemma sym_eq m s c n :
    RV m s -> noself (s_uses s) ->
    match vars m c n with
    | Some x => match vheap m x with
                | Some vv => match vv_val vv with
                             | None => if vv_export vv && opt_pkg_eqb (vv_pkg vv) c then Some x else None
                             | Some _ => None end
                | None => None end
    | None => None end = exported_symbol s c n.
  Proof.
    intros HV Hns. pose proof HV as [h1 h2 h3 h4 h5]. rewrite h3. change (res (own_v s) (vexp_of (s_vheap s)) (s_uses s)) with (resolve_v s).
    unfold exported_symbol. destruct (own_v s c n) as [x|] eqn:Eo.
    - rewrite (resolve_v_own _ _ _ _ Eo). destruct (h4 _ _ _ Eo) as (_ & _ & vv & Hh & Hpk). rewrite h1, Hh, Hpk. cbn [opt_pkg_eqb].
      rewrite N.eqb_refl, andb_true_r. reflexivity.
    - destruct (resolve_v s c n) as [x|] eqn:Er; [|reflexivity].
      destruct (resv_cell m s HV _ _ _ Er) as (q0 & vv & Ho & Hh & Hpk & Hq). rewrite h1, Hh, Hpk. cbn [opt_pkg_eqb].
      destruct (N.eqb_spec q0 c) as [->|_]; [congruence|]. rewrite andb_false_r. destruct (vv_val vv); reflexivity.
  Qed.

  Lemma step_defun m s n v :
    Inv m s -> guard_step P NM s (ODefun n v) = true -> Inv (step m (ODefun n v)) (sstep s (ODefun n v)).
  Proof.
    intros HI G. pose proof HI as (HC & HV & HF). pose proof HF as [h1 h2 h3 h4 h5 h6 h7].
    cbn [guard_step] in G. apply andb_true_iff in G. destruct G as [Gn G].
    cbn [step sstep] in *. unfold defun. cbv zeta.
    rewrite (c_cur _ _ HC), (sym_eq m s _ n HV (noself_uses m s HC)), h3.
    change (res (own_f s) (fexp_of (s_fheap s)) (s_uses s)) with (resolve_f s).
    set (c := s_cur s) in *.
    destruct (resolve_f s c n) as [a|] eqn:Er.
    - (* redefinition of the visible function, in its home package hm *)
      destruct (resf_cell m s HF _ _ _ Er) as (hm & sf0 & Go & Hh0 & Hpk & _).
      destruct (fheap_of_s m s HF a sf0 Hh0) as (fim & Hfi & Hfp & Hfe). rewrite Hfi, Hh0, Hfp, Hpk.
      destruct (lam_facts m s hm n v HF) as (Hl_lh & Hpl_l & Hpl_lt & Hlive).
      set (l := lnext m) in *.
      set (lh := match plam m hm n with Some x => upd (upd (lheap m) l (Some v)) x (Some v) | None => upd (lheap m) l (Some v) end) in *.
      set (pl := match plam m hm n with Some _ => plam m | None => upd2 (plam m) hm n (Some l) end) in *.
      assert (Hexp : forall x, fexp_of (s_fheap s) x =
                fexp_of (upd (s_fheap s) a (Some {| sf_pkg := hm; sf_val := v; sf_export := sf_export sf0 |})) x).
      { intros x. unfold fexp_of, upd. destruct (N.eqb_spec x a) as [->|]; [rewrite Hh0|]; reflexivity. }
      split; [|split]; [destruct HC; constructor; cbn; auto|exact HV|].
      unfold RF. cbn. constructor; auto.
      + intros x. unfold upd. destruct (N.eqb_spec x a) as [->|]; [|apply h1]. cbn. auto.
      + intros p' n'. rewrite <- (res_exp_ext _ _ _ _ _ _ Hexp). auto.
      + intros p' n' x Hx. destruct (h4 _ _ _ Hx) as (H1 & H2 & fi' & H3 & H4). split; [auto|split;[auto|]].
        unfold upd. destruct (N.eqb_spec x a) as [->|]; [|eauto]. eexists; split; [reflexivity|]. cbn. congruence.
      + intros p' n' b Hb. destruct (N.eq_dec b a) as [->|Hba].
        * destruct (h5 _ _ _ _ _ Hb Go) as [-> ->]. rewrite !upd_same. eexists; eexists.
          split; [reflexivity|split; [reflexivity|]]. cbn. split; [exact Hl_lh|split; [lia|exact Hpl_l]].
        * rewrite !upd_other by exact Hba. apply Hlive; [exact Hb|]. intros [-> ->]. congruence.
    - (* a new function of the current package; its Lambda registry is the package's own *)
      destruct (lam_facts m s c n v HF) as (Hl_lh & Hpl_l & Hpl_lt & Hlive).
      set (l := lnext m) in *.
      set (lh := match plam m c n with Some x => upd (upd (lheap m) l (Some v)) x (Some v) | None => upd (lheap m) l (Some v) end) in *.
      set (pl := match plam m c n with Some _ => plam m | None => upd2 (plam m) c n (Some l) end) in *.
      assert (Hnone : own_f s c n = None) by (apply res_none_inv in Er; tauto).
      assert (Hfresh : forall p' n', own_f s p' n' <> Some (s_fnext s)).
      { intros p' n' H. apply h4 in H. destruct H as [H _]. exact (N.lt_irrefl _ H). }
      set (own' := upd2 (own_f s) c n (Some (s_fnext s))).
      assert (Hown0 : own' c n = Some (s_fnext s)) by apply upd2_same.
      assert (Hown1 : forall p' n', ~ (p' = c /\ n' = n) -> own' p' n' = own_f s p' n') by (intros; apply upd2_other; assumption).
      destruct (exported_symbol s c n) as [x|] eqn:Ex.
      + (* the name is an exported symbol of the package: external function, shared with the users *)
        apply andb_true_iff in G. destruct G as [G0 G]. pose proof (users_forall m s HC _ c G) as Gu. cbn beta in Gu. clear G.
        assert (Eov : own_v s c n = Some x).
        { unfold exported_symbol in Ex. destruct (own_v s c n) as [y|]; [|discriminate].
          destruct (s_vheap s y) as [vv|]; [|discriminate]. destruct (vv_val vv); [discriminate|].
          destruct (vv_export vv); [congruence|discriminate]. }
        pose proof HV as [g1 g2 g3 g4 g5].
        set (ownv' := upd2 (own_v s) c n None) in *.
        assert (Hv0 : ownv' c n = None) by apply upd2_same.
        assert (Hv1 : forall p' n', ~ (p' = c /\ n' = n) -> ownv' p' n' = own_v s p' n') by (intros; apply upd2_other; assumption).
        set (cell := {| sf_pkg := c; sf_val := v; sf_export := true |}) in *.
        set (sh' := upd (s_fheap s) (s_fnext s) (Some cell)) in *.
        assert (Hexp : forall y, y <> s_fnext s -> fexp_of sh' y = fexp_of (s_fheap s) y).
        { intros y Hy. unfold fexp_of, sh'. rewrite upd_other by exact Hy. reflexivity. }
        split; [|split]; [destruct HC; constructor; cbn; auto| |].
        * unfold RV. cbn. fold ownv'. constructor; auto.
          -- intros p' n'. destruct (pair_eqb_cases p' n' c n) as [(-> & -> & ->)|[Hne ->]].
             ++ symmetry. apply is_some_false. destruct (is_some _) eqn:E in G0; [discriminate|]. exact E.
             ++ unfold drop_users. destruct (mem p' (users m c)) eqn:Eu; cbn [andb].
                ** apply (mem_users m s HC) in Eu. destruct (N.eqb_spec n' n) as [->|Hn].
                   --- specialize (Gu _ Eu). apply andb_true_iff in Gu. destruct Gu as [Gu _]. apply opt_addr_eqb_eq in Gu. rewrite g3.
                       rewrite (retracted_entry _ x); [symmetry; exact Gu|].
                       intros y Hy. rewrite N.eqb_eq. split; congruence.
                   --- rewrite g3. symmetry. eapply res_rm_name; eauto.
                ** rewrite g3. symmetry. destruct (N.eq_dec n' n) as [->|Hn]; [|eapply res_rm_name; eauto].
                   apply (res_rm_nonuser (own_v s) ownv' _ (s_uses s) c n Hv1); [tauto|].
                   intros Hi. apply (mem_users m s HC) in Hi. congruence.
          -- intros p' n' y Hy. destruct (upd2_cases (own_v s) c n None p' n') as [(-> & -> & E)|[Hne E]];
               unfold ownv' in Hy; rewrite E in Hy; [discriminate|eauto].
          -- eapply inj_rm; eauto.
        * unfold RF. cbn. fold l. fold cell; fold own'; fold sh'. constructor.
          -- intros y. rewrite h2. unfold sh', upd. destruct (N.eqb_spec y (s_fnext s)) as [->|]; [|apply h1]. cbn. auto.
          -- rewrite h2. reflexivity.
          -- intros p' n'. rewrite h2. unfold push_users. destruct (mem p' (users m c)) eqn:Eu; cbn [andb].
             ++ apply (mem_users m s HC) in Eu. assert (Hp : p' <> c) by (apply (c_wf _ _ HC _ _ Eu)).
                destruct (N.eqb_spec n' n) as [->|Hne].
                ** rewrite upd2_other by tauto. specialize (Gu _ Eu). apply andb_true_iff in Gu. destruct Gu as [_ Gu].
                   apply opt_addr_eqb_eq in Gu. rewrite h3, shared_entry. symmetry. exact Gu.
                ** rewrite upd2_other by tauto. rewrite h3. symmetry.
                   eapply (res_new_name2 (own_f s) own' (fexp_of (s_fheap s)) (fexp_of sh')); eauto.
             ++ destruct (upd2_cases (funcs m) c n (Some (s_fnext s)) p' n') as [(-> & -> & ->)|[Hne ->]].
                ** symmetry. apply res_own, Hown0.
                ** rewrite h3. symmetry. destruct (N.eq_dec n' n) as [->|Hn'].
                   --- assert (Hp : p' <> c) by tauto.
                       eapply (res_new_nonuser (own_f s) own' (fexp_of (s_fheap s)) (fexp_of sh')); eauto.
                       intros Hi. apply (mem_users m s HC) in Hi. congruence.
                   --- eapply (res_new_name2 (own_f s) own' (fexp_of (s_fheap s)) (fexp_of sh')); eauto.
          -- intros p' n' y Hy. destruct (upd2_cases (own_f s) c n (Some (s_fnext s)) p' n') as [(-> & -> & E)|[Hne E]];
               unfold own' in Hy; rewrite E in Hy.
             ++ injection Hy as <-. split; [lia|split; [exact Gn|]]. unfold sh'. rewrite upd_same. eexists; split; reflexivity.
             ++ destruct (h4 _ _ _ Hy) as (H1 & H2 & fi' & H3 & H4). split; [lia|split; [exact H2|]].
                unfold sh'. rewrite upd_other; [eauto|]. intros ->. exact (Hfresh _ _ Hy).
          -- eapply inj_new; eauto.
          -- intros p' n' b Hb. destruct (upd2_cases (own_f s) c n (Some (s_fnext s)) p' n') as [(-> & -> & E)|[Hne E]];
               unfold own' in Hb; rewrite E in Hb.
             ++ injection Hb as <-. rewrite h2. unfold sh'. rewrite !upd_same. eexists; eexists.
                split; [reflexivity|split; [reflexivity|]]. cbn. split; [exact Hl_lh|split; [lia|exact Hpl_l]].
             ++ assert (Hbn : b <> s_fnext s) by (intros ->; exact (Hfresh _ _ Hb)).
                rewrite h2. unfold sh'. rewrite !upd_other by exact Hbn. apply Hlive; assumption.
          -- exact Hpl_lt.
      + (* a private function *)
        set (cell := {| sf_pkg := c; sf_val := v; sf_export := false |}).
        set (sh' := upd (s_fheap s) (s_fnext s) (Some cell)).
        assert (Hexp : forall y, y <> s_fnext s -> fexp_of sh' y = fexp_of (s_fheap s) y).
        { intros y Hy. unfold fexp_of, sh'. rewrite upd_other by exact Hy. reflexivity. }
        assert (Hexp0 : fexp_of sh' (s_fnext s) = false) by (unfold fexp_of, sh'; rewrite upd_same; reflexivity).
        split; [|split]; [destruct HC; constructor; cbn; auto|exact HV|].
        unfold RF. cbn. fold l. fold cell; fold own'; fold sh'. constructor.
        * intros y. rewrite h2. unfold sh', upd. destruct (N.eqb_spec y (s_fnext s)) as [->|]; [|apply h1]. cbn. auto.
        * rewrite h2. reflexivity.
        * intros p' n'. rewrite h2. destruct (upd2_cases (funcs m) c n (Some (s_fnext s)) p' n') as [(-> & -> & ->)|[Hne ->]].
          -- symmetry. apply res_own, Hown0.
          -- rewrite (res_new_private (own_f s) own' (fexp_of (s_fheap s)) _ _ _ _ _ Hfresh Hnone Hown0 Hown1 Hexp _ _ Hexp0 Hne). auto.
        * intros p' n' y Hy. destruct (upd2_cases (own_f s) c n (Some (s_fnext s)) p' n') as [(-> & -> & E)|[Hne E]];
            unfold own' in Hy; rewrite E in Hy.
          -- injection Hy as <-. split; [lia|split; [exact Gn|]]. unfold sh'. rewrite upd_same. eexists; split; reflexivity.
          -- destruct (h4 _ _ _ Hy) as (H1 & H2 & fi' & H3 & H4). split; [lia|split; [exact H2|]].
             unfold sh'. rewrite upd_other; [eauto|]. intros ->. exact (Hfresh _ _ Hy).
        * eapply inj_new; eauto.
        * intros p' n' b Hb. destruct (upd2_cases (own_f s) c n (Some (s_fnext s)) p' n') as [(-> & -> & E)|[Hne E]];
            unfold own' in Hb; rewrite E in Hb.
          -- injection Hb as <-. rewrite h2. unfold sh'. rewrite !upd_same. eexists; eexists.
             split; [reflexivity|split; [reflexivity|]]. cbn. split; [exact Hl_lh|split; [lia|exact Hpl_l]].
          -- assert (Hbn : b <> s_fnext s) by (intros ->; exact (Hfresh _ _ Hb)).
             rewrite h2. unfold sh'. rewrite !upd_other by exact Hbn. apply Hlive; assumption.
        * exact Hpl_lt.
  Qed.

  (* ---- every guarded step preserves the relation ---- *)
  Theorem step_preserves m s o :
    Inv m s -> guard_step P NM s o = true -> Inv (step m o) (sstep s o).
  Proof.
    intros HI G. destruct o.
    - apply step_inpkg, HI.
    - apply step_use; assumption.
    - apply step_unuse; assumption.
    - apply step_export; assumption.
    - apply step_unexport; assumption.
    - apply step_setq; assumption.
    - apply step_defvar; assumption.
    - apply step_defun; assumption.
    - apply step_makunbound; assumption.
    - apply step_fmakunbound; assumption.
  Qed.

  (* ---- under the relation every query answers the same ---- *)
  Lemma q_var_eq m s c n : Inv m s -> q_var m c n = sq_var s c n.
  Proof.
    intros (HC & HV & HF). unfold q_var, sq_var. rewrite (vtab m s HV).
    destruct (resolve_v s c n) as [a|]; [|reflexivity]. rewrite (v_heap _ _ _ _ _ _ _ HV). reflexivity.
  Qed.
  Lemma q_var_q_eq m s p n b : Inv m s -> q_var_q m p n b = sq_var_q s p n b.
  Proof.
    intros (HC & HV & HF). unfold q_var_q, sq_var_q. rewrite (vtab m s HV).
    destruct (resolve_v s p n) as [a|] eqn:Er; [|reflexivity]. rewrite (v_heap _ _ _ _ _ _ _ HV). reflexivity.
  Qed.
  Lemma q_fun_eq m s c p n b : Inv m s -> q_fun m c p n b = sq_fun s c p n b.
  Proof.
    intros (HC & HV & HF). unfold q_fun, sq_fun. rewrite (ftab m s HF).
    destruct (resolve_f s p n) as [a|] eqn:Er; [|reflexivity].
    destruct (resf_cell m s HF p n a Er) as (q & sf0 & Ho & _ & _).
    destruct (f_live _ _ _ _ _ _ _ _ _ _ HF _ _ _ Ho) as (fi & sf & Hm & Hs & Hl & _).
    destruct (fheap_of_s m s HF a sf Hs) as (fi' & Hm' & Hp & He). rewrite Hm in Hm'. injection Hm' as <-.
    rewrite Hm, Hs, Hp, He, Hl. reflexivity.
  Qed.

  Lemma flat_map_ext_in {A B} (f g : A -> list B) l : (forall x, In x l -> f x = g x) -> flat_map f l = flat_map g l.
  Proof.
    induction l as [|x l IH]; intros H; [reflexivity|]. cbn. rewrite (H x (or_introl eq_refl)), IH; [reflexivity|].
    intros y Hy. apply H. right; exact Hy.
  Qed.

  (* any observing packages PQ, any variable names VN and function names FN (also overlapping ones) *)
  Theorem observe_eq m s PQ VN FN : Inv m s -> observe PQ VN FN m = sobserve PQ VN FN s.
  Proof.
    intros HI. unfold observe, sobserve. apply flat_map_ext_in. intros c _. f_equal.
    - apply flat_map_ext_in. intros n _. f_equal; [apply q_var_eq; assumption|].
      apply flat_map_ext_in. intros p _. rewrite !(q_var_q_eq m s) by assumption. reflexivity.
    - apply flat_map_ext_in. intros n _. f_equal; [apply q_fun_eq; assumption|].
      apply flat_map_ext_in. intros p _. rewrite !(q_fun_eq m s) by assumption. reflexivity.
  Qed.

  (* ---- histories ---- *)
  Definition gprefix := guard_prefix P NM.
  Theorem refinement_prefix PQ VN FN ops : forall m s,
    Inv m s -> firstn (gprefix s ops) (run PQ VN FN m ops) = firstn (gprefix s ops) (srun PQ VN FN s ops).
  Proof.
    induction ops as [|o ops IH]; intros m s HI; [reflexivity|]. unfold gprefix. cbn [guard_prefix run srun]. fold gprefix.
    destruct (guard_step P NM s o) eqn:E; [|reflexivity].
    pose proof (step_preserves m s o HI E) as HI'.
    cbn [firstn]. rewrite (observe_eq _ _ PQ VN FN HI'), (IH _ _ HI'). reflexivity.
  Qed.
  Theorem refinement_run PQ VN FN ops : forall m s,
    Inv m s -> guard_run P NM s ops = true -> run PQ VN FN m ops = srun PQ VN FN s ops.
  Proof.
    induction ops as [|o ops IH]; intros m s HI G; [reflexivity|]. cbn in G |- *.
    apply andb_true_iff in G. destruct G as [E2 G].
    pose proof (step_preserves m s o HI E2) as HI'. rewrite (observe_eq _ _ PQ VN FN HI'), (IH _ _ HI' G). reflexivity.
  Qed.
  (* the relation itself after any guarded history *)
  Theorem refinement_state ops : forall m s,
    Inv m s -> guard_run P NM s ops = true -> Inv (fold_left step ops m) (fold_left sstep ops s).
  Proof.
    induction ops as [|o ops IH]; intros m s HI G; [exact HI|]. cbn in G |- *.
    apply andb_true_iff in G. destruct G as [E2 G].
    apply IH; auto. apply step_preserves; assumption.
  Qed.
End Refine.

(* ---- instances for the universe of the correspondence (3 packages, variables 0 1, functions 2 3) ---- *)
Theorem refinement_PK ops :
  guard_run PK NM (sinit 0) ops = true -> run PK VN FN (init 0) ops = srun PK VN FN (sinit 0) ops.
Proof.
  intros G. apply (refinement_run PK NM PK VN FN ops (init 0) (sinit 0)); [apply inv_init|exact G].
Qed.

Theorem refinement_prefix_PK ops :
  let g := guard_prefix PK NM (sinit 0) ops in
  firstn g (run PK VN FN (init 0) ops) = firstn g (srun PK VN FN (sinit 0) ops).
Proof. apply (refinement_prefix PK NM PK VN FN ops (init 0) (sinit 0)), inv_init. Qed.

(* the self-check of the correspondence (code 3: M = observed, but M <> S inside the guarded prefix) can never fire *)
Lemma qres_eqb_refl a : qres_eqb a a = true.
Proof. destruct a; cbn; auto. apply Z.eqb_refl. Qed.
Lemma list_eqb_refl {A} (e : A -> A -> bool) : (forall a, e a a = true) -> forall l, list_eqb e l l = true.
Proof. intros H l. induction l as [|x l IH]; [reflexivity|]. cbn. rewrite H, IH. reflexivity. Qed.
Theorem selfcheck_unreachable c : check_case c <> 3.
Proof.
  unfold check_case. cbv zeta. rewrite refinement_prefix_PK.
  rewrite (list_eqb_refl _ (list_eqb_refl _ qres_eqb_refl)).
  destruct (list_eqb _ _ (snd c)); [discriminate|]. destruct (list_eqb _ _ _); discriminate.
Qed.

Lemma refinement_general P NM :
  forall PQ VN FN p0 ops,
  guard_run P NM (sinit p0) ops = true ->
  run PQ VN FN (init p0) ops = srun PQ VN FN (sinit p0) ops.
Proof. intros PQ VN FN p0 ops G. exact (refinement_run P NM PQ VN FN ops _ _ (inv_init P NM p0) G). Qed.

Lemma tables_are_the_graph P NM :
  forall p0 ops, guard_run P NM (sinit p0) ops = true ->
  let m := fold_left step ops (init p0) in let s := fold_left sstep ops (sinit p0) in
  (forall p n, vars m p n = resolve_v s p n) /\
  (forall p n, funcs m p n = resolve_f s p n) /\
  (forall a, vheap m a = s_vheap s a) /\ (forall a, frel (fheap m a) (s_fheap s a)).
Proof.
  intros p0 ops G m s.
  destruct (refinement_state P NM ops _ _ (inv_init P NM p0) G) as (_ & HV & HF).
  destruct HV as [h1 _ h3 _ _]. destruct HF as [g1 _ g3 _ _ _ _]. repeat split; assumption.
Qed.
