(* C13 — the refinement M = S on the guard, for all histories: abstraction relation between the state
   of the code model M (denormalised tables) and of the specification S (visibility recomputed from
   the graph), preserved by every guarded step. *)
From C13 Require Import Model Spec Corr Proofs ProofsRes.
Open Scope N_scope.

Arguments mem : simpl never.
Arguments res : simpl never.
Arguments eff : simpl never.
Arguments upd : simpl never.
Arguments upd2 : simpl never.
Arguments inj : simpl never.
Arguments vis : simpl never.
Arguments N.ltb : simpl never.
Arguments N.add : simpl never.

Definition vexp_of (h : addr -> option varval) (a : addr) : bool :=
  match h a with Some vv => vv_export vv | None => false end.
Definition fexp_of (h : addr -> option sfuninfo) (a : addr) : bool :=
  match h a with Some fi => sf_export fi | None => false end.
(* a FuncInfo of M and a function cell of S: same home package and export flag (the value is related
   through the Lambda heap, for live cells only: see f_live) *)
Definition frel (o1 : option funinfo) (o2 : option sfuninfo) : Prop :=
  match o1, o2 with
  | Some fi, Some sf => fi_pkg fi = sf_pkg sf /\ fi_export fi = sf_export sf
  | None, None => True
  | _, _ => False
  end.
Definition junk : varval := {| vv_pkg := None; vv_val := None; vv_export := true |}.

Lemma opt_addr_eqb_eq a b : opt_addr_eqb a b = true <-> a = b.
Proof.
  destruct a as [x|], b as [y|]; cbn; split; intros H; try congruence; try reflexivity.
  - apply N.eqb_eq in H. congruence.
  - injection H as ->. apply N.eqb_refl.
Qed.

Lemma mem_single x y : mem x [y] = N.eqb x y.
Proof. unfold mem. cbn. apply orb_false_r. Qed.

Section Refine.
  Variables (P : list pkgid) (VN FN : list name).
  Hypothesis Hdisj : disjoint_names VN FN = true.
  Definition NMl := VN ++ FN.

  Lemma disj n : mem n VN = true -> mem n FN = false.
  Proof.
    intros H. apply mem_In in H. unfold disjoint_names in Hdisj. rewrite forallb_forall in Hdisj.
    specialize (Hdisj n H). destruct (mem n FN); [discriminate|reflexivity].
  Qed.
  Lemma nm_vn n : mem n VN = true -> mem n NMl = true.
  Proof. intros H. unfold NMl. rewrite mem_app, H. reflexivity. Qed.
  Lemma nm_fn n : mem n FN = true -> mem n NMl = true.
  Proof. intros H. unfold NMl. rewrite mem_app, H. apply orb_true_r. Qed.

  Record Cinv (m : state) (s : sstate) : Prop := {
    c_uses : forall p, uses m p = s_uses s p;
    c_users : forall u p, mem u (users m p) = mem p (s_uses s u);
    c_cur : cur m = s_cur s;
    c_wf : forall p q, In q (s_uses s p) -> mem p P = true /\ p <> q }.

  (* variable side: table T, heap mh and counter mn of M; own table, heap sh, counter sn, use lists of S *)
  Record RVp (T : tbl) (mh : addr -> option varval) (mn : addr)
             (own : tbl) (sh : addr -> option varval) (sn : addr) (us : pkgid -> list pkgid) : Prop := {
    v_heap : forall a, mh a = sh a;
    v_next : mn = sn;
    v_tab : forall p n, mem n VN = true -> T p n = res own (vexp_of sh) us p n;
    v_weak : forall p n, res own (vexp_of sh) us p n = None -> T p n = None;
    v_own : forall p n a, own p n = Some a -> a < sn /\ mem n NMl = true;
    v_inj : inj own;
    v_vn : forall p n a, mem n VN = true -> own p n = Some a ->
           exists vv, sh a = Some vv /\ vv_val vv <> None /\ vv_pkg vv = Some p;
    v_junk : forall p n a, mem n VN = false -> own p n = Some a -> sh a = Some junk;
    v_vis : vis (fun n => mem n VN) own (vexp_of sh) us }.
  Record RFp (T : tbl) (mh : addr -> option funinfo) (lh : addr -> option Z) (pl : tbl) (mn ln : addr)
             (own : tbl) (sh : addr -> option sfuninfo) (sn : addr) (us : pkgid -> list pkgid) : Prop := {
    f_heap : forall a, frel (mh a) (sh a);
    f_next : mn = sn;
    f_tab : forall p n, T p n = res own (fexp_of sh) us p n;
    f_own : forall p n a, own p n = Some a ->
            a < sn /\ mem n FN = true /\ exists fi, sh a = Some fi /\ sf_pkg fi = p;
    f_inj : inj own;
    f_vis : vis (fun _ => true) own (fexp_of sh) us;
    (* the FuncInfo of a live (own) cell refers to a Lambda holding the value S has, and that Lambda is
       registered in Package.lambdas at most under the cell's own (home, name): a later defun elsewhere
       cannot patch it *)
    f_live : forall p n a, own p n = Some a ->
             exists fi sf, mh a = Some fi /\ sh a = Some sf /\ lh (fi_lam fi) = Some (sf_val sf) /\ fi_lam fi < ln /\
                           (forall p' n', pl p' n' = Some (fi_lam fi) -> p' = p /\ n' = n);
    f_plam : forall p n x, pl p n = Some x -> x < ln }.
  Definition RV (m : state) (s : sstate) : Prop :=
    RVp (vars m) (vheap m) (vnext m) (own_v s) (s_vheap s) (s_vnext s) (s_uses s).
  Definition RF (m : state) (s : sstate) : Prop :=
    RFp (funcs m) (fheap m) (lheap m) (plam m) (fnext m) (lnext m) (own_f s) (s_fheap s) (s_fnext s) (s_uses s).
  Definition Inv (m : state) (s : sstate) : Prop := Cinv m s /\ RV m s /\ RF m s.

  Lemma res_all_none (own : tbl) exp us p n : (forall q, own q n = None) -> res own exp us p n = None.
  Proof.
    intros H. apply res_none_intro; [apply H|]. intros q _. unfold eff. rewrite H. reflexivity.
  Qed.

  Lemma inv_init p0 : Inv (init p0) (sinit p0).
  Proof.
    split; [|split].
    - constructor; cbn; auto. all: try (intros ? ? []).
    - constructor; cbn; auto; try discriminate.
      all: try (intros p n p' n' a H; discriminate). all: try (intros u q n a _ []).
    - constructor; cbn; auto; try discriminate.
      all: try (intros p n p' n' a H; discriminate). all: try (intros u q n a _ []).
  Qed.

  (* ---- facts that follow from the relation ---- *)
  Section Facts.
    Variables (m : state) (s : sstate).
    Hypothesis HC : Cinv m s.
    Hypothesis HV : RV m s.
    Hypothesis HF : RF m s.

    Lemma noself_uses : noself (s_uses s).
    Proof. intros p Hp. destruct (c_wf _ _ HC _ _ Hp) as [_ H]. congruence. Qed.
    Lemma vexp_eq a : vexp_of (vheap m) a = vexp_of (s_vheap s) a.
    Proof. unfold vexp_of. rewrite (v_heap _ _ _ _ _ _ _ HV). reflexivity. Qed.
    Lemma fheap_of_s a sf : s_fheap s a = Some sf ->
      exists fi, fheap m a = Some fi /\ fi_pkg fi = sf_pkg sf /\ fi_export fi = sf_export sf.
    Proof.
      intros H. pose proof (f_heap _ _ _ _ _ _ _ _ _ _ HF a) as Hr. unfold frel in Hr. rewrite H in Hr.
      destruct (fheap m a) as [fi|]; [|contradiction]. exists fi. tauto.
    Qed.
    Lemma fexp_eq a : fi_exported m a = fexp_of (s_fheap s) a.
    Proof.
      unfold fi_exported, fexp_of. pose proof (f_heap _ _ _ _ _ _ _ _ _ _ HF a) as Hr. unfold frel in Hr.
      destruct (fheap m a), (s_fheap s a); try contradiction; tauto.
    Qed.
    Lemma ownf_vn p n : mem n VN = true -> own_f s p n = None.
    Proof.
      intros H. destruct (own_f s p n) as [a|] eqn:E; [|reflexivity].
      destruct (f_own _ _ _ _ _ _ _ _ _ _ HF _ _ _ E) as (_ & H2 & _). rewrite (disj _ H) in H2. discriminate.
    Qed.
    Lemma resf_vn p n : mem n VN = true -> resolve_f s p n = None.
    Proof. intros H. apply res_all_none. intros q. apply ownf_vn, H. Qed.
    Lemma funcs_vn p n : mem n VN = true -> funcs m p n = None.
    Proof. intros H. rewrite (f_tab _ _ _ _ _ _ _ _ _ _ HF). apply resf_vn, H. Qed.
    Lemma resv_nonm p n : mem n NMl = false -> resolve_v s p n = None.
    Proof.
      intros H. apply res_all_none. intros q. destruct (own_v s q n) as [a|] eqn:E; [|reflexivity].
      destruct (v_own _ _ _ _ _ _ _ HV _ _ _ E) as [_ H2]. congruence.
    Qed.
    Lemma resf_nonm p n : mem n NMl = false -> resolve_f s p n = None.
    Proof.
      intros H. apply res_all_none. intros q. destruct (own_f s q n) as [a|] eqn:E; [|reflexivity].
      destruct (f_own _ _ _ _ _ _ _ _ _ _ HF _ _ _ E) as (_ & H2 & _). rewrite (nm_fn _ H2) in H. discriminate.
    Qed.
    Lemma in_s_users u p : In p (s_uses s u) -> In u (s_users P s p).
    Proof.
      intros H. unfold s_users. apply filter_In. split.
      - apply mem_In. exact (proj1 (c_wf _ _ HC _ _ H)).
      - apply mem_In, H.
    Qed.
    Lemma s_users_nil p u : s_users P s p = [] -> ~ In p (s_uses s u).
    Proof. intros H Hi. apply in_s_users in Hi. rewrite H in Hi. exact Hi. Qed.
    Lemma mem_users u p : mem u (users m p) = true <-> In p (s_uses s u).
    Proof. rewrite (c_users _ _ HC). apply mem_In. Qed.
  End Facts.

  Lemma use_entry (own : tbl) exp us p q n (Tq Tp : option addr) (mexp : addr -> bool) :
    Tq = res own exp us q n -> Tp = res own exp us p n -> (forall a, mexp a = exp a) ->
    match own q n with
    | Some a => negb (exp a) || opt_addr_eqb (res own exp us p n) None
    | None => match res own exp us q n with Some a => opt_addr_eqb (res own exp us p n) (Some a) | None => true end
    end = true ->
    match Tq with Some a => if mexp a then Some a else Tp | None => Tp end =
    match res own exp us p n with Some a => Some a | None => eff own exp q n end.
  Proof.
    intros -> -> Hm G. unfold eff. destruct (own q n) as [a|] eqn:Eo.
    - rewrite (res_own _ _ _ _ _ _ Eo). rewrite Hm. destruct (exp a) eqn:Ee; cbn in G.
      + apply opt_addr_eqb_eq in G. rewrite G. reflexivity.
      + destruct (res own exp us p n); reflexivity.
    - destruct (res own exp us q n) as [a|] eqn:Er.
      + apply opt_addr_eqb_eq in G. rewrite G.
        apply res_some_inv in Er. destruct Er as [Er|(_ & q' & _ & Hf)]; [congruence|].
        apply eff_some in Hf. rewrite Hm, (proj2 Hf). reflexivity.
      + destruct (res own exp us p n); reflexivity.
  Qed.

  Lemma guard_use_inv s q p :
    guard_step P NMl s (OUse q p) = true ->
    mem p P = true /\ forall n, mem n NMl = true ->
      match own_v s q n with
      | Some a => negb (s_vexp s a) || opt_addr_eqb (resolve_v s p n) None
      | None => match resolve_v s q n with Some a => opt_addr_eqb (resolve_v s p n) (Some a) | None => true end
      end = true /\
      match own_f s q n with
      | Some a => negb (s_fexp s a) || opt_addr_eqb (resolve_f s p n) None
      | None => match resolve_f s q n with Some a => opt_addr_eqb (resolve_f s p n) (Some a) | None => true end
      end = true.
  Proof.
    cbn [guard_step]. intros H. apply andb_true_iff in H. destruct H as [H H2]. apply andb_true_iff in H. destruct H as [H0 H1].
    split; [exact H0|]. intros n Hn. rewrite forallb_forall in H2. specialize (H2 n (proj1 (mem_In _ _) Hn)).
    apply andb_true_iff in H2. exact H2.
  Qed.

  Lemma step_use m s q p :
    Inv m s -> guard_step P NMl s (OUse q p) = true -> Inv (step m (OUse q p)) (sstep s (OUse q p)).
  Proof.
    intros HI G. pose proof HI as (HC & HV & HF). apply guard_use_inv in G. destruct G as [GP G].
    cbn [step sstep]. unfold use. destruct (N.eqb_spec p q) as [Epq|Npq]; [exact HI|].
    rewrite (c_uses _ _ HC). cbn [orb]. destruct (mem q (s_uses s p)) eqn:Em; [exact HI|].
    assert (Hu0 : upd (s_uses s) p (s_uses s p ++ [q]) p = s_uses s p ++ [q]) by apply upd_same.
    assert (Hu1 : forall u, u <> p -> upd (s_uses s) p (s_uses s p ++ [q]) u = s_uses s u) by (intros; apply upd_other; assumption).
    split; [|split].
    - constructor; cbn.
      + intros p'. unfold upd. rewrite !(c_uses _ _ HC). reflexivity.
      + intros u p'. unfold upd.
        destruct (N.eqb_spec p' q) as [->|Hq], (N.eqb_spec u p) as [->|Hp];
          rewrite ?mem_app, ?mem_single, ?(c_users _ _ HC), ?N.eqb_refl, ?orb_true_r; try reflexivity.
        * destruct (N.eqb_spec u p); [contradiction|]. apply orb_false_r.
        * destruct (N.eqb_spec p' q); [contradiction|]. rewrite orb_false_r. reflexivity.
      + apply (c_cur _ _ HC).
      + intros p' q' Hi. destruct (N.eq_dec p' p) as [->|Hp].
        * rewrite Hu0 in Hi. apply in_app_or in Hi. destruct Hi as [Hi|[<-|[]]]; [exact (c_wf _ _ HC _ _ Hi)|auto].
        * rewrite Hu1 in Hi by exact Hp. exact (c_wf _ _ HC _ _ Hi).
    - pose proof HV as [h1 h2 h3 h4 h5 h6 h7 h8 h9]. constructor; cbn; auto.
      + intros p' n Hn. destruct (N.eqb_spec p' p) as [->|Hp].
        * rewrite (res_use_self _ _ _ _ p q Hu0). apply use_entry; auto.
          -- intros a. unfold vv_exported, vexp_of. rewrite h1. reflexivity.
          -- exact (proj1 (G n (nm_vn _ Hn))).
        * rewrite (res_use_other _ _ _ _ p Hu1) by exact Hp. auto.
      + intros p' n. destruct (N.eqb_spec p' p) as [->|Hp].
        * rewrite (res_use_self _ _ _ _ p q Hu0). intros Hr.
          destruct (res (own_v s) (vexp_of (s_vheap s)) (s_uses s) p n) as [x|] eqn:Erp; [discriminate|].
          rewrite (h4 _ _ Erp). destruct (vars m q n) as [x|] eqn:Eq; [|reflexivity].
          destruct (vv_exported m x) eqn:Ex; [exfalso|reflexivity].
          destruct (res (own_v s) (vexp_of (s_vheap s)) (s_uses s) q n) as [y|] eqn:Erq; [|rewrite (h4 _ _ Erq) in Eq; discriminate].
          assert (Hnm : mem n NMl = true).
          { destruct (mem n NMl) eqn:E; [reflexivity|].
            pose proof (resv_nonm m s HV q n E : res (own_v s) (vexp_of (s_vheap s)) (s_uses s) q n = None) as Hx.
            congruence. }
          destruct (G n Hnm) as [Gv _]. rewrite !resolve_v_res in Gv. unfold s_vexp in Gv. fold (vexp_of (s_vheap s)) in Gv.
          destruct (own_v s q n) as [y'|] eqn:Eo.
          -- rewrite (res_own _ _ _ _ _ _ Eo) in Erq. injection Erq as ->. unfold eff in Hr. rewrite Eo in Hr.
             destruct (mem n VN) eqn:Ev.
             ++ rewrite (h3 _ _ Ev), (res_own _ _ _ _ _ _ Eo) in Eq. injection Eq as <-.
                unfold vv_exported in Ex. rewrite h1 in Ex. unfold vexp_of in Hr. rewrite Ex in Hr. discriminate.
             ++ unfold vexp_of in Hr. rewrite (h8 _ _ _ Ev Eo) in Hr. cbn in Hr. discriminate.
          -- rewrite Erq, Erp in Gv. cbn in Gv. discriminate.
        * rewrite (res_use_other _ _ _ _ p Hu1) by exact Hp. auto.
      + apply (vis_use _ _ _ _ p q Hu0 Hu1); [exact h9|]. intros n a Hn Hf.
        destruct (G n (nm_vn _ Hn)) as [Gv _]. apply eff_some in Hf. destruct Hf as [Hf1 Hf2].
        rewrite Hf1 in Gv. unfold s_vexp in Gv. unfold vexp_of in Hf2. rewrite Hf2 in Gv. cbn in Gv.
        apply opt_addr_eqb_eq in Gv. exact Gv.
    - pose proof HF as [h1 h2 h3 h4 h5 h6 h7 h8]. constructor; cbn; auto.
      + intros p' n. destruct (N.eqb_spec p' p) as [->|Hp].
        * rewrite (res_use_self _ _ _ _ p q Hu0).
          destruct (mem n NMl) eqn:Hn.
          -- apply use_entry; auto.
             ++ intros a. apply (fexp_eq m s HF).
             ++ exact (proj2 (G n Hn)).
          -- pose proof (resf_nonm m s HF) as Hx.
             rewrite (h3 q n), (h3 p n). change (res (own_f s) (fexp_of (s_fheap s)) (s_uses s)) with (resolve_f s). rewrite !(Hx _ _ Hn).
             unfold eff. destruct (own_f s q n) as [a|] eqn:Eo; [|reflexivity].
             destruct (h4 _ _ _ Eo) as (_ & H2 & _). rewrite (nm_fn _ H2) in Hn. discriminate.
        * rewrite (res_use_other _ _ _ _ p Hu1) by exact Hp. auto.
      + apply (vis_use _ _ _ _ p q Hu0 Hu1); [exact h6|]. intros n a _ Hf.
        apply eff_some in Hf. destruct Hf as [Hf1 Hf2].
        destruct (h4 _ _ _ Hf1) as (_ & H2 & _).
        destruct (G n (nm_fn _ H2)) as [_ Gf].
        rewrite Hf1 in Gf. unfold s_fexp in Gf. unfold fexp_of in Hf2. rewrite Hf2 in Gf. cbn in Gf.
        apply opt_addr_eqb_eq in Gf. exact Gf.
  Qed.

  Lemma step_inpkg m s p : Inv m s -> Inv (step m (OInPkg p)) (sstep s (OInPkg p)).
  Proof.
    intros (HC & HV & HF). split; [|split]; [|exact HV|exact HF].
    destruct HC. constructor; cbn; auto.
  Qed.

  Lemma upd2_cases {A} (f : N -> N -> A) k1 k2 v a b :
    (a = k1 /\ b = k2 /\ upd2 f k1 k2 v a b = v) \/ (~ (a = k1 /\ b = k2) /\ upd2 f k1 k2 v a b = f a b).
  Proof.
    unfold upd2. destruct (N.eqb_spec a k1), (N.eqb_spec b k2); cbn; auto; right; split; auto; tauto.
  Qed.
  Lemma res_exp_ext (own : tbl) exp exp' us p n : (forall a, exp a = exp' a) -> res own exp us p n = res own exp' us p n.
  Proof. intros H. apply res_ext; auto. intros q _. unfold eff. destruct (own q n); [rewrite H|]; reflexivity. Qed.
  Lemma vis_exp_ext good (own : tbl) exp exp' us : (forall a, exp a = exp' a) -> vis good own exp us -> vis good own exp' us.
  Proof.
    intros H V u q n a Hg Hq Hf. rewrite <- (res_exp_ext own exp exp' us u n H). apply (V u q n a Hg Hq).
    unfold eff in *. destruct (own q n); [rewrite H|]; exact Hf.
  Qed.

  Lemma resv_cell m s p n a :
    RV m s -> mem n VN = true -> resolve_v s p n = Some a ->
    exists q vv, own_v s q n = Some a /\ s_vheap s a = Some vv /\ vv_val vv <> None /\ vv_pkg vv = Some q.
  Proof.
    intros HV Hn Hr. assert (exists q, own_v s q n = Some a) as [q Hq].
    { apply res_some_inv in Hr. destruct Hr as [Hr|(_ & q & _ & Hf)]; [eauto|]. apply eff_some in Hf. destruct Hf; eauto. }
    destruct (v_vn _ _ _ _ _ _ _ HV _ _ _ Hn Hq) as (vv & H1 & H2 & H3). eauto 8.
  Qed.

  Lemma step_setq_core m s n v :
    Inv m s -> mem n VN = true ->
    match resolve_v s (s_cur s) n with
    | Some a => forallb (fun u => opt_addr_eqb (resolve_v s u n) (Some a)) (s_users P s (s_cur s))
    | None => true
    end = true ->
    Inv (set_var m (cur m) n v) (s_setq s n v).
  Proof.
    intros HI Hn G. pose proof HI as (HC & HV & HF). pose proof HV as [h1 h2 h3 h4 h5 h6 h7 h8 h9].
    unfold set_var, s_setq. rewrite (c_cur _ _ HC), (h3 _ _ Hn). change (res (own_v s) (vexp_of (s_vheap s)) (s_uses s)) with (resolve_v s).
    destruct (resolve_v s (s_cur s) n) as [a|] eqn:Er.
    - destruct (resv_cell m s _ _ _ HV Hn Er) as (q0 & vv & Ho & Hh & Hval & Hpk).
      rewrite h1, Hh. rewrite N.eqb_refl, orb_true_r. unfold set_vval. rewrite Hh.
      rewrite forallb_forall in G.
      assert (Gu : forall u, In (s_cur s) (s_uses s u) -> resolve_v s u n = Some a).
      { intros u Hu. apply opt_addr_eqb_eq, G. eapply in_s_users; eassumption. }
      assert (Hexp : forall x, vexp_of (s_vheap s) x =
                     vexp_of (upd (s_vheap s) a (Some {| vv_pkg := vv_pkg vv; vv_val := Some v; vv_export := vv_export vv |})) x).
      { intros x. unfold vexp_of, upd. destruct (N.eqb_spec x a) as [->|]; [rewrite Hh|]; reflexivity. }
      split; [|split]; [destruct HC; constructor; cbn; auto| |exact HF].
      constructor; cbn; auto.
      + intros x. unfold upd. rewrite h1. reflexivity.
      + intros p' n' Hn'. rewrite <- (res_exp_ext _ _ _ _ _ _ Hexp). unfold push_users.
        destruct (mem p' (users m (s_cur s))) eqn:Eu; cbn; [|auto]. destruct (N.eqb_spec n' n) as [->|]; [|auto].
        apply (mem_users m s HC) in Eu. pose proof (Gu _ Eu) as Hu. rewrite (h3 _ _ Hn).
        change (res (own_v s) (vexp_of (s_vheap s)) (s_uses s) p' n) with (resolve_v s p' n). rewrite Hu. reflexivity.
      + intros p' n'. rewrite <- (res_exp_ext _ _ _ _ _ _ Hexp). unfold push_users.
        destruct (mem p' (users m (s_cur s))) eqn:Eu; cbn; [|auto]. destruct (N.eqb_spec n' n) as [->|]; [|auto].
        apply (mem_users m s HC) in Eu. pose proof (Gu _ Eu) as Hu.
        change (res (own_v s) (vexp_of (s_vheap s)) (s_uses s) p' n) with (resolve_v s p' n). rewrite Hu. discriminate.
      + intros p' n' x Hn' Hx. unfold upd. destruct (N.eqb_spec x a) as [->|]; [|eapply h7; eassumption].
        destruct (h6 _ _ _ _ _ Ho Hx) as [-> ->]. eexists. split; [reflexivity|]. cbn. split; [discriminate|exact Hpk].
      + intros p' n' x Hn' Hx. unfold upd. destruct (N.eqb_spec x a) as [->|]; [|eauto].
        destruct (h6 _ _ _ _ _ Ho Hx) as [-> ->]. congruence.
      + eapply vis_exp_ext; [exact Hexp|exact h9].
    - assert (Hnone : own_v s (s_cur s) n = None) by (apply res_none_inv in Er; tauto).
      assert (Hfresh : forall p' n', own_v s p' n' <> Some (s_vnext s)).
      { intros p' n' H. apply h5 in H. destruct H as [H _]. exact (N.lt_irrefl _ H). }
      set (cell := {| vv_pkg := Some (s_cur s); vv_val := Some v; vv_export := false |}).
      set (own' := upd2 (own_v s) (s_cur s) n (Some (s_vnext s))).
      set (sh' := upd (s_vheap s) (s_vnext s) (Some cell)).
      assert (Hown0 : own' (s_cur s) n = Some (s_vnext s)) by apply upd2_same.
      assert (Hown1 : forall p' n', ~ (p' = s_cur s /\ n' = n) -> own' p' n' = own_v s p' n') by (intros; apply upd2_other; assumption).
      assert (Hexp : forall x, x <> s_vnext s -> vexp_of sh' x = vexp_of (s_vheap s) x).
      { intros x Hx. unfold vexp_of, sh'. rewrite upd_other by exact Hx. reflexivity. }
      assert (Hexp0 : vexp_of sh' (s_vnext s) = false) by (unfold vexp_of, sh'; rewrite upd_same; reflexivity).
      split; [|split]; [destruct HC; constructor; cbn; auto| |exact HF].
      unfold new_var. constructor; cbn; fold cell; fold own'; fold sh'.
      + intros x. unfold sh', upd. rewrite h1, h2. reflexivity.
      + rewrite h2. reflexivity.
      + intros p' n' Hn'. rewrite h2. destruct (upd2_cases (vars m) (s_cur s) n (Some (s_vnext s)) p' n') as [(-> & -> & ->)|[Hne ->]].
        * symmetry. apply res_own, Hown0.
        * rewrite (res_new_private (own_v s) own' (vexp_of (s_vheap s)) _ _ _ _ _ Hfresh Hnone Hown0 Hown1 Hexp _ _ Hexp0 Hne). auto.
      + intros p' n'. rewrite h2. destruct (upd2_cases (vars m) (s_cur s) n (Some (s_vnext s)) p' n') as [(-> & -> & ->)|[Hne ->]].
        * rewrite (res_own _ _ _ _ _ _ Hown0). discriminate.
        * rewrite (res_new_private (own_v s) own' (vexp_of (s_vheap s)) _ _ _ _ _ Hfresh Hnone Hown0 Hown1 Hexp _ _ Hexp0 Hne). auto.
      + intros p' n' x Hx. destruct (upd2_cases (own_v s) (s_cur s) n (Some (s_vnext s)) p' n') as [(-> & -> & E)|[Hne E]];
          unfold own' in Hx; rewrite E in Hx.
        * injection Hx as <-. split; [lia|apply nm_vn, Hn].
        * apply h5 in Hx. destruct Hx. split; [lia|assumption].
      + eapply inj_new; eauto.
      + intros p' n' x Hn' Hx. destruct (upd2_cases (own_v s) (s_cur s) n (Some (s_vnext s)) p' n') as [(-> & -> & E)|[Hne E]];
          unfold own' in Hx; rewrite E in Hx.
        * injection Hx as <-. unfold sh'. rewrite upd_same. eexists. split; [reflexivity|]. cbn. split; [discriminate|reflexivity].
        * unfold sh'. rewrite upd_other; [eauto|]. intros ->. exact (Hfresh _ _ Hx).
      + intros p' n' x Hn' Hx. destruct (upd2_cases (own_v s) (s_cur s) n (Some (s_vnext s)) p' n') as [(-> & -> & E)|[Hne E]];
          unfold own' in Hx; rewrite E in Hx.
        * congruence.
        * unfold sh'. rewrite upd_other; [eauto|]. intros ->. exact (Hfresh _ _ Hx).
      + eapply vis_new_private; eauto.
  Qed.

  Lemma RVp_own_ext T mh mn own own' sh sn us :
    (forall p n, own p n = own' p n) -> RVp T mh mn own sh sn us -> RVp T mh mn own' sh sn us.
  Proof.
    intros H [h1 h2 h3 h4 h5 h6 h7 h8 h9]. constructor; auto.
    - intros p n Hn. rewrite <- (res_ext_own own own' _ _ _ _ H). auto.
    - intros p n. rewrite <- (res_ext_own own own' _ _ _ _ H). auto.
    - intros p n a. rewrite <- H. apply h5.
    - eapply inj_ext_own; eassumption.
    - intros p n a. rewrite <- H. apply h7.
    - intros p n a. rewrite <- H. apply h8.
    - eapply vis_ext_own; eassumption.
  Qed.
  Lemma RFp_own_ext T mh lh pl mn ln own own' sh sn us :
    (forall p n, own p n = own' p n) -> RFp T mh lh pl mn ln own sh sn us -> RFp T mh lh pl mn ln own' sh sn us.
  Proof.
    intros H [h1 h2 h3 h4 h5 h6 h7 h8]. constructor; auto; [| | | |intros p n a; rewrite <- H; apply h7].
    - intros p n. rewrite <- (res_ext_own own own' _ _ _ _ H). auto.
    - intros p n a. rewrite <- H. apply h4.
    - eapply inj_ext_own; eassumption.
    - eapply vis_ext_own; eassumption.
  Qed.
  Lemma upd2_none_noop (f : tbl) k1 k2 : f k1 k2 = None -> forall p n, f p n = upd2 f k1 k2 None p n.
  Proof. intros H p n. destruct (upd2_cases f k1 k2 None p n) as [(-> & -> & ->)|[_ ->]]; auto. Qed.

  Lemma step_setq m s n v :
    Inv m s -> sorted_op VN FN (OSetq n v) = true -> guard_step P NMl s (OSetq n v) = true ->
    Inv (step m (OSetq n v)) (sstep s (OSetq n v)).
  Proof. intros HI Hs G. apply step_setq_core; assumption. Qed.

  Lemma step_defvar m s n v :
    Inv m s -> sorted_op VN FN (ODefvar n v) = true -> guard_step P NMl s (ODefvar n v) = true ->
    Inv (step m (ODefvar n v)) (sstep s (ODefvar n v)).
  Proof.
    intros HI Hs G. pose proof HI as (HC & HV & HF). cbn in Hs. cbn [step sstep]. unfold defvar, pkg_get.
    rewrite (c_cur _ _ HC), (v_tab _ _ _ _ _ _ _ HV _ _ Hs).
    change (res (own_v s) (vexp_of (s_vheap s)) (s_uses s)) with (resolve_v s).
    destruct (resolve_v s (s_cur s) n) as [a|] eqn:Er.
    - destruct (resv_cell m s _ _ _ HV Hs Er) as (q0 & vv & Ho & Hh & Hval & Hpk).
      rewrite (v_heap _ _ _ _ _ _ _ HV), Hh, N.eqb_refl, orb_true_r. destruct (vv_val vv); [exact HI|congruence].
    - rewrite <- (c_cur _ _ HC). apply step_setq_core; auto.
  Qed.

  Lemma step_defun m s n v :
    Inv m s -> sorted_op VN FN (ODefun n v) = true -> guard_step P NMl s (ODefun n v) = true ->
    Inv (step m (ODefun n v)) (sstep s (ODefun n v)).
  Proof.
    intros HI Hs G. pose proof HI as (HC & HV & HF). pose proof HF as [h1 h2 h3 h4 h5 h6 h7 h8].
    cbn in Hs. cbn [guard_step] in G. cbn [step sstep]. unfold defun. cbv zeta.
    rewrite (c_cur _ _ HC), (h3 _ _). change (res (own_f s) (fexp_of (s_fheap s)) (s_uses s)) with (resolve_f s).
    set (c := s_cur s) in *. set (l := lnext m).
    set (lh := match plam m c n with Some x => upd (upd (lheap m) l (Some v)) x (Some v) | None => upd (lheap m) l (Some v) end).
    set (pl := match plam m c n with Some _ => plam m | None => upd2 (plam m) c n (Some l) end).
    assert (Hl_lh : lh l = Some v).
    { unfold lh. destruct (plam m c n) as [x|] eqn:Ex; [|apply upd_same].
      rewrite upd_other; [apply upd_same|]. intros E. apply h8 in Ex. fold l in Ex. rewrite E in Ex. exact (N.lt_irrefl _ Ex). }
    assert (Hlh_other : forall y, y <> l -> (forall x, plam m c n = Some x -> y <> x) -> lh y = lheap m y).
    { intros y Hy Hx. unfold lh. destruct (plam m c n) as [x|] eqn:Ex.
      - rewrite upd_other by (apply Hx; reflexivity). apply upd_other, Hy.
      - apply upd_other, Hy. }
    assert (Hpl_l : forall p' n', pl p' n' = Some l -> p' = c /\ n' = n).
    { intros p' n'. unfold pl. destruct (plam m c n) as [x|] eqn:Ex.
      - intros E. apply h8 in E. exfalso. exact (N.lt_irrefl _ E).
      - destruct (upd2_cases (plam m) c n (Some l) p' n') as [(-> & -> & _)|[_ ->]]; [auto|].
        intros E. apply h8 in E. exfalso. exact (N.lt_irrefl _ E). }
    assert (Hpl_other : forall p' n' y, y <> l -> pl p' n' = Some y -> plam m p' n' = Some y).
    { intros p' n' y Hy. unfold pl. destruct (plam m c n) as [x|] eqn:Ex; [auto|].
      destruct (upd2_cases (plam m) c n (Some l) p' n') as [(-> & -> & ->)|[_ ->]]; [congruence|auto]. }
    assert (Hpl_lt : forall p' n' x, pl p' n' = Some x -> x < l + 1).
    { intros p' n' x E. destruct (N.eq_dec x l) as [->|Hx]; [lia|]. apply Hpl_other in E; [|exact Hx]. apply h8 in E. fold l in E. lia. }
    assert (Hlive : forall p' n' b, own_f s p' n' = Some b -> ~ (p' = c /\ n' = n) ->
              exists fi sf, fheap m b = Some fi /\ s_fheap s b = Some sf /\ lh (fi_lam fi) = Some (sf_val sf) /\ fi_lam fi < l + 1 /\
                            (forall p'' n'', pl p'' n'' = Some (fi_lam fi) -> p'' = p' /\ n'' = n')).
    { intros p' n' b Hb Hne. destruct (h7 _ _ _ Hb) as (fi & sf & H1 & H2 & H3 & H4 & H5). exists fi, sf.
      assert (Hy : fi_lam fi <> l) by (fold l in H4; lia).
      split; [exact H1|split; [exact H2|split; [|split; [fold l in H4; lia|]]]].
      - rewrite Hlh_other; [exact H3|exact Hy|]. intros x Ex E. apply Hne. destruct (H5 c n) as [-> ->]; [congruence|auto].
      - intros p'' n'' E. apply H5. eapply Hpl_other; eassumption. }
    destruct (resolve_f s c n) as [a|] eqn:Er.
    - apply opt_addr_eqb_eq in G. destruct (h4 _ _ _ G) as (Hlt & _ & sf0 & Hh0 & Hpk).
      destruct (h7 _ _ _ G) as (fi & sf & Hfi & Hsf & _). rewrite Hh0 in Hsf. injection Hsf as <-.
      rewrite Hfi, Hh0.
      destruct (fheap_of_s m s HF a sf0 Hh0) as (fi' & Hfi' & _ & Hex). rewrite Hfi in Hfi'. injection Hfi' as <-.
      assert (Hexp : forall x, fexp_of (s_fheap s) x =
                fexp_of (upd (s_fheap s) a (Some {| sf_pkg := sf_pkg sf0; sf_val := v; sf_export := sf_export sf0 |})) x).
      { intros x. unfold fexp_of, upd. destruct (N.eqb_spec x a) as [->|]; [rewrite Hh0|]; reflexivity. }
      split; [|split]; [destruct HC; constructor; cbn; auto|exact HV|].
      unfold RF. cbn. fold l. constructor; auto.
      + intros x. unfold upd. destruct (N.eqb_spec x a) as [->|]; [|apply h1]. cbn. auto.
      + intros p' n'. rewrite <- (res_exp_ext _ _ _ _ _ _ Hexp). auto.
      + intros p' n' x Hx. destruct (h4 _ _ _ Hx) as (H1 & H2 & fi' & H3 & H4). split; [auto|split;[auto|]].
        unfold upd. destruct (N.eqb_spec x a) as [->|]; [|eauto]. eexists; split; [reflexivity|]. cbn. congruence.
      + eapply vis_exp_ext; [exact Hexp|exact h6].
      + intros p' n' b Hb. destruct (N.eq_dec b a) as [->|Hba].
        * destruct (h5 _ _ _ _ _ Hb G) as [-> ->]. rewrite !upd_same. eexists; eexists.
          split; [reflexivity|split; [reflexivity|]]. cbn. split; [exact Hl_lh|split; [lia|exact Hpl_l]].
        * rewrite !upd_other by exact Hba. apply Hlive; [exact Hb|]. intros [-> ->]. congruence.
    - apply opt_addr_eqb_eq in G. rewrite (v_weak _ _ _ _ _ _ _ HV _ _ G). cbn iota.
      assert (Hnone : own_f s c n = None) by (apply res_none_inv in Er; tauto).
      assert (Hfresh : forall p' n', own_f s p' n' <> Some (s_fnext s)).
      { intros p' n' H. apply h4 in H. destruct H as [H _]. exact (N.lt_irrefl _ H). }
      set (cell := {| sf_pkg := c; sf_val := v; sf_export := false |}).
      set (own' := upd2 (own_f s) c n (Some (s_fnext s))).
      set (sh' := upd (s_fheap s) (s_fnext s) (Some cell)).
      assert (Hown0 : own' c n = Some (s_fnext s)) by apply upd2_same.
      assert (Hown1 : forall p' n', ~ (p' = c /\ n' = n) -> own' p' n' = own_f s p' n') by (intros; apply upd2_other; assumption).
      assert (Hexp : forall x, x <> s_fnext s -> fexp_of sh' x = fexp_of (s_fheap s) x).
      { intros x Hx. unfold fexp_of, sh'. rewrite upd_other by exact Hx. reflexivity. }
      assert (Hexp0 : fexp_of sh' (s_fnext s) = false) by (unfold fexp_of, sh'; rewrite upd_same; reflexivity).
      split; [|split]; [destruct HC; constructor; cbn; auto|exact HV|].
      unfold RF. cbn. fold l. fold cell; fold own'; fold sh'. constructor.
      + intros x. rewrite h2. unfold sh', upd. destruct (N.eqb_spec x (s_fnext s)) as [->|]; [|apply h1]. cbn. auto.
      + rewrite h2. reflexivity.
      + intros p' n'. rewrite h2. destruct (upd2_cases (funcs m) c n (Some (s_fnext s)) p' n') as [(-> & -> & ->)|[Hne ->]].
        * symmetry. apply res_own, Hown0.
        * rewrite (res_new_private (own_f s) own' (fexp_of (s_fheap s)) _ _ _ _ _ Hfresh Hnone Hown0 Hown1 Hexp _ _ Hexp0 Hne). auto.
      + intros p' n' x Hx. destruct (upd2_cases (own_f s) c n (Some (s_fnext s)) p' n') as [(-> & -> & E)|[Hne E]];
          unfold own' in Hx; rewrite E in Hx.
        * injection Hx as <-. split; [lia|split; [exact Hs|]]. unfold sh'. rewrite upd_same. eexists; split; reflexivity.
        * destruct (h4 _ _ _ Hx) as (H1 & H2 & fi' & H3 & H4). split; [lia|split; [exact H2|]].
          unfold sh'. rewrite upd_other; [eauto|]. intros ->. exact (Hfresh _ _ Hx).
      + eapply inj_new; eauto.
      + eapply vis_new_private; eauto.
      + intros p' n' b Hb. destruct (upd2_cases (own_f s) c n (Some (s_fnext s)) p' n') as [(-> & -> & E)|[Hne E]];
          unfold own' in Hb; rewrite E in Hb.
        * injection Hb as <-. rewrite h2. unfold sh'. rewrite !upd_same. eexists; eexists.
          split; [reflexivity|split; [reflexivity|]]. cbn. split; [exact Hl_lh|split; [lia|exact Hpl_l]].
        * assert (Hbn : b <> s_fnext s) by (intros ->; exact (Hfresh _ _ Hb)).
          rewrite h2. unfold sh'. rewrite !upd_other by exact Hbn. apply Hlive; assumption.
      + exact Hpl_lt.
  Qed.

  Lemma step_fmakunbound m s n :
    Inv m s -> sorted_op VN FN (OFmakunbound n) = true -> guard_step P NMl s (OFmakunbound n) = true ->
    Inv (step m (OFmakunbound n)) (sstep s (OFmakunbound n)).
  Proof.
    intros HI Hs G. pose proof HI as (HC & HV & HF). pose proof HF as [h1 h2 h3 h4 h5 h6 h7 h8].
    cbn in Hs. cbn [guard_step] in G. cbn [step sstep]. unfold undefine. rewrite (c_cur _ _ HC).
    split; [|split]; [destruct HC; constructor; cbn; auto|exact HV|].
    destruct (resolve_f s (s_cur s) n) as [a|] eqn:Er.
    - apply andb_true_iff in G. destruct G as [G1 G2]. apply opt_addr_eqb_eq in G1.
      set (own' := upd2 (own_f s) (s_cur s) n None).
      assert (Hown0 : own' (s_cur s) n = None) by apply upd2_same.
      assert (Hown1 : forall p' n', ~ (p' = s_cur s /\ n' = n) -> own' p' n' = own_f s p' n') by (intros; apply upd2_other; assumption).
      assert (Hgood : (fun _ : name => true) n = true) by reflexivity.
      pose proof (noself_uses m s HC) as Hns.
      unfold RF. cbn. fold own'. constructor; auto.
      + intros p' n'. destruct (upd2_cases (funcs m) (s_cur s) n None p' n') as [(-> & -> & ->)|[Hne ->]].
        * symmetry. eapply res_rm_self; eauto.
        * rewrite h3. destruct (N.eq_dec n' n) as [->|Hn]; [|symmetry; eapply res_rm_name; eauto].
          assert (Hp : p' <> s_cur s) by tauto.
          destruct (res (own_f s) (fexp_of (s_fheap s)) (s_uses s) p' n) as [b|] eqn:Eb.
          -- symmetry. eapply res_rm_other with (a0 := a); eauto. intros ->.
             apply res_some_inv in Eb. destruct Eb as [Eb|(_ & q & Hq & Hf)].
             ++ apply Hp. eapply proj1, h5; eassumption.
             ++ apply eff_some in Hf. destruct Hf as [Hf1 Hf2].
                destruct (h5 _ _ _ _ _ Hf1 G1) as [-> _].
                unfold s_fexp in G2. unfold fexp_of in Hf2. rewrite Hf2 in G2. cbn in G2.
                destruct (s_users P s (s_cur s)) eqn:Eu; [|discriminate].
                exact (s_users_nil m s HC _ _ Eu Hq).
          -- symmetry. eapply res_rm_none; eauto.
      + intros p' n' x Hx. destruct (upd2_cases (own_f s) (s_cur s) n None p' n') as [(-> & -> & E)|[Hne E]];
          unfold own' in Hx; rewrite E in Hx; [discriminate|auto].
      + eapply inj_rm; eauto.
      + eapply vis_rm; eauto.
      + intros p' n' x Hx. destruct (upd2_cases (own_f s) (s_cur s) n None p' n') as [(-> & -> & E)|[Hne E]];
          unfold own' in Hx; rewrite E in Hx; [discriminate|auto].
    - assert (Hnone : own_f s (s_cur s) n = None) by (apply res_none_inv in Er; tauto).
      unfold RF. cbn. eapply RFp_own_ext; [apply upd2_none_noop, Hnone|].
      constructor; auto. intros p' n'. destruct (upd2_cases (funcs m) (s_cur s) n None p' n') as [(-> & -> & ->)|[Hne ->]]; [|auto].
      symmetry. exact Er.
  Qed.

  Lemma RVp_intro (T : tbl) mh mn (own : tbl) sh sn us :
    (forall a, mh a = sh a) -> mn = sn ->
    (forall p n, mem n VN = true -> T p n = res own (vexp_of sh) us p n) ->
    (forall p n, mem n VN = false -> res own (vexp_of sh) us p n = None -> T p n = None) ->
    (forall p n a, own p n = Some a -> a < sn /\ mem n NMl = true) ->
    inj own ->
    (forall p n a, mem n VN = true -> own p n = Some a ->
       exists vv, sh a = Some vv /\ vv_val vv <> None /\ vv_pkg vv = Some p) ->
    (forall p n a, mem n VN = false -> own p n = Some a -> sh a = Some junk) ->
    vis (fun n => mem n VN) own (vexp_of sh) us ->
    RVp T mh mn own sh sn us.
  Proof.
    intros h1 h2 h3 h4 h5 h6 h7 h8 h9. constructor; auto.
    intros p n Hr. destruct (mem n VN) eqn:Hn; [rewrite (h3 _ _ Hn); exact Hr|auto].
  Qed.

  Lemma step_makunbound m s n :
    Inv m s -> sorted_op VN FN (OMakunbound n) = true -> guard_step P NMl s (OMakunbound n) = true ->
    Inv (step m (OMakunbound n)) (sstep s (OMakunbound n)).
  Proof.
    intros HI Hs G. pose proof HI as (HC & HV & HF). pose proof HV as [h1 h2 h3 h4 h5 h6 h7 h8 h9].
    cbn in Hs. cbn [guard_step] in G. cbn [step sstep]. unfold remove_var.
    rewrite (c_cur _ _ HC), (h3 _ _ Hs). change (res (own_v s) (vexp_of (s_vheap s)) (s_uses s)) with (resolve_v s).
    destruct (resolve_v s (s_cur s) n) as [a|] eqn:Er.
    - apply andb_true_iff in G. destruct G as [G1 _]. apply opt_addr_eqb_eq in G1.
      set (own' := upd2 (own_v s) (s_cur s) n None).
      assert (Hown0 : own' (s_cur s) n = None) by apply upd2_same.
      assert (Hown1 : forall p' n', ~ (p' = s_cur s /\ n' = n) -> own' p' n' = own_v s p' n') by (intros; apply upd2_other; assumption).
      pose proof (noself_uses m s HC) as Hns.
      split; [|split]; [destruct HC; constructor; cbn; auto| |exact HF].
      unfold RV. cbn. fold own'. apply RVp_intro; auto.
      + intros p' n' Hn'. destruct (N.eqb_spec n' n) as [->|Hn].
        * destruct (N.eqb_spec p' (s_cur s)) as [->|Hp].
          -- symmetry. eapply res_rm_self with (a0 := a) (good := fun n => mem n VN); eauto.
          -- destruct (mem p' (users m (s_cur s))) eqn:Eu.
             ++ rewrite (h3 _ _ Hs). destruct (res (own_v s) (vexp_of (s_vheap s)) (s_uses s) p' n) as [x|] eqn:Ex.
                ** destruct (resv_cell m s p' n x HV Hs Ex) as (q' & xv & Hox & Hhx & _ & Hpx).
                   rewrite h1, Hhx, Hpx. destruct (N.eqb_spec q' (s_cur s)) as [->|Hq'].
                   --- assert (x = a) by congruence. subst x. symmetry.
                       eapply res_rm_a0 with (a0 := a) (good := fun n => mem n VN); eauto.
                   --- symmetry. eapply res_rm_other with (a0 := a) (good := fun n => mem n VN); eauto.
                       intros ->. apply Hq'. eapply proj1, h6; eassumption.
                ** symmetry. eapply res_rm_none; eauto.
             ++ rewrite (h3 _ _ Hs). symmetry. eapply res_rm_nonuser; eauto.
                intros Hi. apply (mem_users m s HC) in Hi. congruence.
        * rewrite (h3 _ _ Hn'). symmetry. eapply res_rm_name; eauto.
      + intros p' n' Hn' Hr. assert (Hn : n' <> n) by (intros ->; congruence).
        destruct (N.eqb_spec n' n) as [|_]; [contradiction|]. apply h4.
        rewrite <- Hr. symmetry. eapply res_rm_name; eauto.
      + intros p' n' x Hx. destruct (upd2_cases (own_v s) (s_cur s) n None p' n') as [(-> & -> & E)|[Hne E]];
          unfold own' in Hx; rewrite E in Hx; [discriminate|eauto].
      + eapply inj_rm; eauto.
      + intros p' n' x Hn' Hx. destruct (upd2_cases (own_v s) (s_cur s) n None p' n') as [(-> & -> & E)|[Hne E]];
          unfold own' in Hx; rewrite E in Hx; [discriminate|eauto].
      + intros p' n' x Hn' Hx. destruct (upd2_cases (own_v s) (s_cur s) n None p' n') as [(-> & -> & E)|[Hne E]];
          unfold own' in Hx; rewrite E in Hx; [discriminate|eauto].
      + eapply vis_rm with (a0 := a); eauto.
    - assert (Hnone : own_v s (s_cur s) n = None) by (apply res_none_inv in Er; tauto).
      split; [|split]; [destruct HC; constructor; cbn; auto| |exact HF].
      unfold RV. cbn. eapply RVp_own_ext; [apply upd2_none_noop, Hnone|exact HV].
  Qed.

  (* ---- export: function part then variable part ---- *)
  Definition export_f (m : state) (p : pkgid) (n : name) : state :=
    match funcs m p n with
    | Some a => match fheap m a with
                | Some fi =>
                    let s' := set_fheap m (upd (fheap m) a (Some {| fi_pkg := fi_pkg fi; fi_lam := fi_lam fi; fi_export := true |})) in
                    set_funcs s' (push_users (funcs s') (users m p) n a)
                | None => m end
    | None => m end.
  Definition export_v (s1 : state) (us : list pkgid) (obj : pkgid) (n : name) : state :=
    match vars s1 obj n with
    | Some a => match vheap s1 a with
                | Some vv =>
                    let s' := set_vheap s1 (upd (vheap s1) a (Some {| vv_pkg := vv_pkg vv; vv_val := vv_val vv; vv_export := true |})) in
                    set_vars s' (push_users (vars s') us n a)
                | None => s1 end
    | None =>
        let a := vnext s1 in
        {| vars := upd2 (vars s1) obj n (Some a); funcs := funcs s1;
           vheap := upd (vheap s1) a (Some {| vv_pkg := None; vv_val := None; vv_export := true |});
           fheap := fheap s1; vnext := a + 1; fnext := fnext s1; uses := uses s1; users := users s1; cur := cur s1;
           lheap := lheap s1; lnext := lnext s1; plam := plam s1 |}
    end.
  Lemma export_split m p n : export m p n = export_v (export_f m p n) (users m p) p n.
  Proof. reflexivity. Qed.
  Definition sexport_f (s : sstate) (p : pkgid) (n : name) : sstate :=
    match own_f s p n with Some a => set_fexp s a true | None => s end.
  Definition sexport_v (s1 : sstate) (p : pkgid) (n : name) : sstate :=
    match own_v s1 p n with
    | Some a => set_vexp s1 a true
    | None => new_var s1 p n {| vv_pkg := None; vv_val := None; vv_export := true |}
    end.
  Lemma sexport_split s p n : sstep s (OExport n p) = sexport_v (sexport_f s p n) p n.
  Proof. reflexivity. Qed.

  Lemma users_clause (own : tbl) exp us (l : list pkgid) p n a :
    (forall u, In p (us u) -> In u l) ->
    forallb (fun u => opt_addr_eqb (res own exp us u n) None || opt_addr_eqb (res own exp us u n) (Some a)) l = true ->
    forall u, In p (us u) -> res own exp us u n = None \/ res own exp us u n = Some a.
  Proof.
    intros Hl G u Hu. rewrite forallb_forall in G. specialize (G u (Hl u Hu)). apply orb_true_iff in G.
    destruct G as [G|G]; apply opt_addr_eqb_eq in G; auto.
  Qed.

  Lemma export_f_inv m s p n :
    Inv m s -> (own_f s p n = None -> resolve_f s p n = None) ->
    match own_f s p n with
    | Some a => forallb (fun u => opt_addr_eqb (resolve_f s u n) None || opt_addr_eqb (resolve_f s u n) (Some a)) (s_users P s p)
    | None => true end = true ->
    Inv (export_f m p n) (sexport_f s p n).
  Proof.
    intros HI Hnone G. pose proof HI as (HC & HV & HF). pose proof HF as [h1 h2 h3 h4 h5 h6 h7 h8].
    unfold export_f, sexport_f. rewrite h3. change (res (own_f s) (fexp_of (s_fheap s)) (s_uses s)) with (resolve_f s).
    destruct (own_f s p n) as [a0|] eqn:Eo; [|rewrite (Hnone eq_refl); exact HI].
    rewrite (resolve_f_own _ _ _ _ Eo). destruct (h4 _ _ _ Eo) as (Hlt & Hfn & fi & Hh & Hpk).
    destruct (fheap_of_s m s HF a0 fi Hh) as (fim & Hm & Hmp & Hme). rewrite Hm. unfold set_fexp. rewrite Hh.
    set (fi' := {| sf_pkg := sf_pkg fi; sf_val := sf_val fi; sf_export := true |}).
    set (sh' := upd (s_fheap s) a0 (Some fi')).
    assert (Hexp : forall x, x <> a0 -> fexp_of sh' x = fexp_of (s_fheap s) x).
    { intros x Hx. unfold fexp_of, sh'. rewrite upd_other by exact Hx. reflexivity. }
    assert (He : fexp_of sh' a0 = true) by (unfold fexp_of, sh'; rewrite upd_same; reflexivity).
    pose proof (users_clause (own_f s) (fexp_of (s_fheap s)) (s_uses s) _ p n a0 (fun u => in_s_users m s HC u p) G) as Gu.
    split; [|split]; [destruct HC; constructor; cbn; auto|exact HV|].
    unfold RF. cbn. fold fi'. fold sh'. constructor; auto.
    - intros x. unfold sh', upd. destruct (N.eqb_spec x a0) as [->|]; [cbn; auto|apply h1].
    - intros p' n'. unfold push_users. destruct (mem p' (users m p)) eqn:Eu; cbn [andb].
      + apply (mem_users m s HC) in Eu. destruct (N.eqb_spec n' n) as [->|Hn].
        * rewrite (res_flag_on _ _ _ _ _ _ _ Eo h5 Hexp p' He Eu (Gu _ Eu)). rewrite h3.
          destruct (Gu _ Eu) as [E|E]; rewrite E; reflexivity.
        * rewrite h3. symmetry. eapply res_flag_name; eauto.
      + rewrite h3. symmetry. eapply res_flag_nonuser; eauto.
        intros Hi. apply (mem_users m s HC) in Hi. congruence.
    - intros p' n' x Hx. destruct (h4 _ _ _ Hx) as (H1 & H2 & fi0 & H3 & H4). split; [auto|split; [auto|]].
      unfold sh', upd. destruct (N.eqb_spec x a0) as [->|]; [|eauto]. eexists; split; [reflexivity|]. cbn. congruence.
    - eapply vis_flag_on; eauto.
    - intros p' n' b Hb. destruct (h7 _ _ _ Hb) as (fi0 & sf1 & H1 & H2 & H3 & H4 & H5).
      destruct (N.eq_dec b a0) as [->|Hb0].
      + unfold sh'. rewrite !upd_same. rewrite Hm in H1. injection H1 as <-. rewrite Hh in H2. injection H2 as <-.
        eexists; eexists. split; [reflexivity|split; [reflexivity|]]. cbn. auto.
      + unfold sh'. rewrite !upd_other by exact Hb0. eauto 10.
  Qed.

  Lemma export_v_vn m s us p n a0 :
    Inv m s -> mem n VN = true -> own_v s p n = Some a0 ->
    forallb (fun u => opt_addr_eqb (resolve_v s u n) None || opt_addr_eqb (resolve_v s u n) (Some a0)) (s_users P s p) = true ->
    (forall u, mem u us = true <-> In p (s_uses s u)) ->
    Inv (export_v m us p n) (sexport_v s p n).
  Proof.
    intros HI Hn Eo G Hus. pose proof HI as (HC & HV & HF). pose proof HV as [h1 h2 h3 h4 h5 h6 h7 h8 h9].
    unfold export_v, sexport_v. rewrite (h3 _ _ Hn). change (res (own_v s) (vexp_of (s_vheap s)) (s_uses s)) with (resolve_v s).
    rewrite Eo, (resolve_v_own _ _ _ _ Eo). destruct (h7 _ _ _ Hn Eo) as (vv & Hh & Hval & Hpk).
    rewrite h1, Hh. unfold set_vexp. rewrite Hh.
    set (vv' := {| vv_pkg := vv_pkg vv; vv_val := vv_val vv; vv_export := true |}).
    set (sh' := upd (s_vheap s) a0 (Some vv')).
    assert (Hexp : forall x, x <> a0 -> vexp_of sh' x = vexp_of (s_vheap s) x).
    { intros x Hx. unfold vexp_of, sh'. rewrite upd_other by exact Hx. reflexivity. }
    assert (He : vexp_of sh' a0 = true) by (unfold vexp_of, sh'; rewrite upd_same; reflexivity).
    pose proof (users_clause (own_v s) (vexp_of (s_vheap s)) (s_uses s) _ p n a0 (fun u => in_s_users m s HC u p) G) as Gu.
    split; [|split]; [destruct HC; constructor; cbn; auto| |exact HF].
    unfold RV. cbn. fold vv'. fold sh'. apply RVp_intro; auto.
    - intros x. unfold sh', upd. rewrite h1. reflexivity.
    - intros p' n' Hn'. unfold push_users. destruct (mem p' us) eqn:Eu; cbn [andb].
      + apply Hus in Eu. destruct (N.eqb_spec n' n) as [->|Hne].
        * rewrite (res_flag_on _ _ _ _ _ _ _ Eo h6 Hexp p' He Eu (Gu _ Eu)). rewrite (h3 _ _ Hn).
          destruct (Gu _ Eu) as [E|E]; rewrite E; reflexivity.
        * rewrite (h3 _ _ Hn'). symmetry. eapply res_flag_name; eauto.
      + rewrite (h3 _ _ Hn'). symmetry. eapply res_flag_nonuser; eauto.
        intros Hi. apply Hus in Hi. congruence.
    - intros p' n' Hn' Hr. assert (Hne : n' <> n) by (intros ->; congruence).
      unfold push_users. destruct (N.eqb_spec n' n) as [|_]; [contradiction|]. rewrite andb_false_r.
      apply h4. rewrite <- Hr. symmetry. eapply res_flag_name; eauto.
    - intros p' n' x Hn' Hx. destruct (h7 _ _ _ Hn' Hx) as (vv0 & H1 & H2 & H3).
      unfold sh', upd. destruct (N.eqb_spec x a0) as [->|]; [|eauto].
      eexists; split; [reflexivity|]. cbn. split; congruence.
    - intros p' n' x Hn' Hx. unfold sh'. rewrite upd_other; [eauto|]. intros ->.
      destruct (h6 _ _ _ _ _ Eo Hx) as [_ ->]. congruence.
    - eapply vis_flag_on; eauto.
  Qed.

  Lemma export_v_new m s us p n :
    Inv m s -> mem n VN = false -> mem n FN = true -> resolve_v s p n = None ->
    Inv (export_v m us p n) (sexport_v s p n).
  Proof.
    intros HI Hn Hfn Er. pose proof HI as (HC & HV & HF). pose proof HV as [h1 h2 h3 h4 h5 h6 h7 h8 h9].
    assert (Hnone : own_v s p n = None) by (apply res_none_inv in Er; tauto).
    unfold export_v, sexport_v. rewrite (h4 _ _ Er), Hnone. fold junk.
    assert (Hfresh : forall p' n', own_v s p' n' <> Some (s_vnext s)).
    { intros p' n' H. apply h5 in H. destruct H as [H _]. exact (N.lt_irrefl _ H). }
    set (own' := upd2 (own_v s) p n (Some (s_vnext s))).
    set (sh' := upd (s_vheap s) (s_vnext s) (Some junk)).
    assert (Hown0 : own' p n = Some (s_vnext s)) by apply upd2_same.
    assert (Hown1 : forall p' n', ~ (p' = p /\ n' = n) -> own' p' n' = own_v s p' n') by (intros; apply upd2_other; assumption).
    assert (Hexp : forall x, x <> s_vnext s -> vexp_of sh' x = vexp_of (s_vheap s) x).
    { intros x Hx. unfold vexp_of, sh'. rewrite upd_other by exact Hx. reflexivity. }
    split; [|split]; [destruct HC; constructor; cbn; auto| |exact HF].
    unfold RV, new_var. cbn. fold own'. fold sh'. apply RVp_intro.
    - intros x. unfold sh', upd. rewrite h1, h2. reflexivity.
    - rewrite h2. reflexivity.
    - intros p' n' Hn'. assert (Hne : n' <> n) by (intros ->; congruence).
      rewrite upd2_other by tauto. rewrite (h3 _ _ Hn'). symmetry. eapply res_new_name; eauto.
    - intros p' n' Hn' Hr. destruct (upd2_cases (vars m) p n (Some (vnext m)) p' n') as [(-> & -> & _)|[Hne ->]].
      + rewrite (res_own _ _ _ _ _ _ Hown0) in Hr. discriminate.
      + apply h4. destruct (res (own_v s) (vexp_of (s_vheap s)) (s_uses s) p' n') eqn:E; [|reflexivity].
        exfalso. eapply (res_new_mono (own_v s) own' (vexp_of (s_vheap s)) (vexp_of sh')); eauto. congruence.
    - intros p' n' x Hx. destruct (upd2_cases (own_v s) p n (Some (s_vnext s)) p' n') as [(-> & -> & E)|[Hne E]];
        unfold own' in Hx; rewrite E in Hx.
      + injection Hx as <-. split; [lia|apply nm_fn, Hfn].
      + apply h5 in Hx. destruct Hx. split; [lia|assumption].
    - eapply inj_new; eauto.
    - intros p' n' x Hn' Hx. assert (Hne : ~ (p' = p /\ n' = n)) by (intros [_ ->]; congruence).
      unfold own' in Hx. rewrite upd2_other in Hx by exact Hne.
      unfold sh'. rewrite upd_other; [eauto|]. intros ->. exact (Hfresh _ _ Hx).
    - intros p' n' x Hn' Hx. destruct (upd2_cases (own_v s) p n (Some (s_vnext s)) p' n') as [(-> & -> & E)|[Hne E]];
        unfold own' in Hx; rewrite E in Hx.
      + injection Hx as <-. unfold sh'. apply upd_same.
      + unfold sh'. rewrite upd_other; [eauto|]. intros ->. exact (Hfresh _ _ Hx).
    - eapply vis_new_name; eauto.
  Qed.

  Lemma sexport_f_resv s p n p' n' : resolve_v (sexport_f s p n) p' n' = resolve_v s p' n'.
  Proof. unfold sexport_f, set_fexp. destruct (own_f s p n) as [a|]; [destruct (s_fheap s a)|]; reflexivity. Qed.

  Lemma step_export m s n p :
    Inv m s -> sorted_op VN FN (OExport n p) = true -> guard_step P NMl s (OExport n p) = true ->
    Inv (step m (OExport n p)) (sstep s (OExport n p)).
  Proof.
    intros HI Hs G. pose proof HI as (HC & HV & HF). cbn [step]. rewrite export_split, sexport_split.
    cbn [guard_step] in G. apply andb_true_iff in G. destruct G as [G Gf]. apply andb_true_iff in G. destruct G as [G Gv].
    apply andb_true_iff in G. destruct G as [G0 G1].
    assert (Hfn : own_f s p n = None -> resolve_f s p n = None).
    { intros Eo. destruct (mem n VN) eqn:Hn; [apply (resf_vn m s HF), Hn|]. exfalso. rewrite Eo in G1.
      destruct (own_v s p n) as [a|] eqn:Ev; [|discriminate].
      rewrite (v_junk _ _ _ _ _ _ _ HV _ _ _ Hn Ev) in Gv. cbn in Gv. discriminate. }
    pose proof (export_f_inv m s p n HI Hfn Gf) as HI1.
    destruct (mem n VN) eqn:Hn.
    - pose proof (ownf_vn m s HF p n Hn) as Eo. rewrite Eo in G1.
      unfold sexport_f in *. rewrite Eo in *.
      destruct (own_v s p n) as [a0|] eqn:Ev; [|discriminate].
      apply andb_true_iff in Gv. destruct Gv as [_ Gv].
      eapply export_v_vn; eauto. intros u. apply (mem_users m s HC).
    - cbn in Hs. rewrite Hn in Hs. cbn in Hs.
      destruct (own_v s p n) as [a|] eqn:Ev.
      + rewrite (v_junk _ _ _ _ _ _ _ HV _ _ _ Hn Ev) in Gv. cbn in Gv. discriminate.
      + apply opt_addr_eqb_eq in Gv. apply export_v_new; auto. rewrite sexport_f_resv. exact Gv.
  Qed.

  (* ---- unexport: function part then variable part ---- *)
  Definition unexport_f (s : state) (obj : pkgid) (n : name) : state :=
    match funcs s obj n with
    | Some a => match fheap s a with
                | Some fi =>
                    let s' := set_fheap s (upd (fheap s) a (Some {| fi_pkg := fi_pkg fi; fi_lam := fi_lam fi; fi_export := false |})) in
                    set_funcs s' (fun p n' =>
                      if mem p (users s obj) && N.eqb n' n then
                        match funcs s' p n with
                        | Some x => match fheap s' x with
                                    | Some xf => if N.eqb (fi_pkg xf) obj then None else Some x
                                    | None => Some x end
                        | None => None end
                      else funcs s' p n')
                | None => s end
    | None => s end.
  Definition unexport_v (s1 : state) (us : list pkgid) (obj : pkgid) (n : name) : state :=
    match vars s1 obj n with
    | Some a => match vheap s1 a with
                | Some vv =>
                    let s' := set_vheap s1 (upd (vheap s1) a (Some {| vv_pkg := vv_pkg vv; vv_val := vv_val vv; vv_export := false |})) in
                    set_vars s' (fun p n' =>
                      if mem p us && N.eqb n' n then
                        match vars s' p n with
                        | Some x => match vheap s' x with
                                    | Some xv => match vv_pkg xv with
                                                 | Some q => if N.eqb q obj then None else Some x
                                                 | None => Some x end
                                    | None => Some x end
                        | None => None end
                      else vars s' p n')
                | None => s1 end
    | None => s1
    end.
  Lemma unexport_split m p n : unexport m p n = unexport_v (unexport_f m p n) (users m p) p n.
  Proof. reflexivity. Qed.
  Definition sunexport_f (s : sstate) (p : pkgid) (n : name) : sstate :=
    match own_f s p n with Some a => set_fexp s a false | None => s end.
  Definition sunexport_v (s1 : sstate) (p : pkgid) (n : name) : sstate :=
    match own_v s1 p n with Some a => set_vexp s1 a false | None => s1 end.
  Lemma sunexport_split s p n : sstep s (OUnexport n p) = sunexport_v (sunexport_f s p n) p n.
  Proof. reflexivity. Qed.

  Lemma resf_cell m s p n a :
    RF m s -> resolve_f s p n = Some a ->
    exists q fi, own_f s q n = Some a /\ s_fheap s a = Some fi /\ sf_pkg fi = q.
  Proof.
    intros HF Hr. assert (exists q, own_f s q n = Some a) as [q Hq].
    { apply res_some_inv in Hr. destruct Hr as [Hr|(_ & q & _ & Hf)]; [eauto|]. apply eff_some in Hf. destruct Hf; eauto. }
    destruct (f_own _ _ _ _ _ _ _ _ _ _ HF _ _ _ Hq) as (_ & _ & fi & H1 & H2). eauto 8.
  Qed.

  Lemma unexport_f_inv m s p n :
    Inv m s -> (own_f s p n = None -> resolve_f s p n = None) ->
    Inv (unexport_f m p n) (sunexport_f s p n).
  Proof.
    intros HI Hnone. pose proof HI as (HC & HV & HF). pose proof HF as [h1 h2 h3 h4 h5 h6 h7 h8].
    unfold unexport_f, sunexport_f. rewrite h3. change (res (own_f s) (fexp_of (s_fheap s)) (s_uses s)) with (resolve_f s).
    destruct (own_f s p n) as [a0|] eqn:Eo; [|rewrite (Hnone eq_refl); exact HI].
    rewrite (resolve_f_own _ _ _ _ Eo). destruct (h4 _ _ _ Eo) as (Hlt & Hfn & fi & Hh & Hpk).
    destruct (fheap_of_s m s HF a0 fi Hh) as (fim & Hm & Hmp & Hme). rewrite Hm. unfold set_fexp. rewrite Hh.
    set (fi' := {| sf_pkg := sf_pkg fi; sf_val := sf_val fi; sf_export := false |}).
    set (sh' := upd (s_fheap s) a0 (Some fi')).
    assert (Hexp : forall x, x <> a0 -> fexp_of sh' x = fexp_of (s_fheap s) x).
    { intros x Hx. unfold fexp_of, sh'. rewrite upd_other by exact Hx. reflexivity. }
    assert (He : fexp_of sh' a0 = false) by (unfold fexp_of, sh'; rewrite upd_same; reflexivity).
    assert (Hgood : (fun _ : name => true) n = true) by reflexivity.
    split; [|split]; [destruct HC; constructor; cbn; auto|exact HV|].
    unfold RF. cbn. fold fi'. fold sh'. constructor; auto.
    - intros x. unfold sh', upd. destruct (N.eqb_spec x a0) as [->|]; [cbn; auto|apply h1].
    - intros p' n'. destruct (mem p' (users m p)) eqn:Eu; cbn [andb].
      + apply (mem_users m s HC) in Eu. assert (Hp : p' <> p) by (apply (c_wf _ _ HC _ _ Eu)).
        destruct (N.eqb_spec n' n) as [->|Hn].
        * rewrite h3. destruct (res (own_f s) (fexp_of (s_fheap s)) (s_uses s) p' n) as [x|] eqn:Ex.
          -- destruct (resf_cell m s p' n x HF Ex) as (q' & fx & Hox & Hhx & Hpx).
             destruct (N.eq_dec x a0) as [->|Hxa].
             ++ rewrite upd_same. cbn. rewrite Hmp, Hpk, N.eqb_refl. symmetry.
                eapply res_flag_off_a0 with (good := fun _ => true) (p0 := p); eauto.
             ++ rewrite upd_other by exact Hxa. destruct (fheap_of_s m s HF x fx Hhx) as (fxm & Hxm & Hxp & _). rewrite Hxm, Hxp, Hpx.
                destruct (N.eqb_spec q' p) as [->|Hq']; [congruence|]. symmetry.
                eapply res_flag_off_other with (good := fun _ => true) (p0 := p) (a0 := a0); eauto.
          -- symmetry. eapply res_flag_off_none; eauto.
        * rewrite h3. symmetry. eapply res_flag_name; eauto.
      + rewrite h3. symmetry. eapply res_flag_nonuser; eauto.
        intros Hi. apply (mem_users m s HC) in Hi. congruence.
    - intros p' n' x Hx. destruct (h4 _ _ _ Hx) as (H1 & H2 & fi0 & H3 & H4). split; [auto|split; [auto|]].
      unfold sh', upd. destruct (N.eqb_spec x a0) as [->|]; [|eauto]. eexists; split; [reflexivity|]. cbn. congruence.
    - eapply vis_flag_off; eauto.
    - intros p' n' b Hb. destruct (h7 _ _ _ Hb) as (fi0 & sf1 & H1 & H2 & H3 & H4 & H5).
      destruct (N.eq_dec b a0) as [->|Hb0].
      + unfold sh'. rewrite !upd_same. rewrite Hm in H1. injection H1 as <-. rewrite Hh in H2. injection H2 as <-.
        eexists; eexists. split; [reflexivity|split; [reflexivity|]]. cbn. auto.
      + unfold sh'. rewrite !upd_other by exact Hb0. eauto 10.
  Qed.

  Lemma unexport_v_inv m s us p n :
    Inv m s -> (own_v s p n = None -> resolve_v s p n = None) -> (own_v s p n <> None -> mem n VN = true) ->
    (forall u, mem u us = true <-> In p (s_uses s u)) ->
    Inv (unexport_v m us p n) (sunexport_v s p n).
  Proof.
    intros HI Hnone Hvn Hus. pose proof HI as (HC & HV & HF). pose proof HV as [h1 h2 h3 h4 h5 h6 h7 h8 h9].
    unfold unexport_v, sunexport_v.
    destruct (own_v s p n) as [a0|] eqn:Eo; [|rewrite (h4 _ _ (Hnone eq_refl)); exact HI].
    assert (Hn : mem n VN = true) by (apply Hvn; discriminate).
    rewrite (h3 _ _ Hn). rewrite (res_own _ _ _ _ _ _ Eo). destruct (h7 _ _ _ Hn Eo) as (vv & Hh & Hval & Hpk).
    rewrite h1, Hh. unfold set_vexp. rewrite Hh.
    set (vv' := {| vv_pkg := vv_pkg vv; vv_val := vv_val vv; vv_export := false |}).
    set (sh' := upd (s_vheap s) a0 (Some vv')).
    assert (Hexp : forall x, x <> a0 -> vexp_of sh' x = vexp_of (s_vheap s) x).
    { intros x Hx. unfold vexp_of, sh'. rewrite upd_other by exact Hx. reflexivity. }
    assert (He : vexp_of sh' a0 = false) by (unfold vexp_of, sh'; rewrite upd_same; reflexivity).
    split; [|split]; [destruct HC; constructor; cbn; auto| |exact HF].
    unfold RV. cbn. fold vv'. fold sh'. apply RVp_intro; auto.
    - intros x. unfold sh', upd. rewrite h1. reflexivity.
    - intros p' n' Hn'. destruct (mem p' us) eqn:Eu; cbn [andb].
      + apply Hus in Eu. assert (Hp : p' <> p) by (apply (c_wf _ _ HC _ _ Eu)).
        destruct (N.eqb_spec n' n) as [->|Hne].
        * rewrite (h3 _ _ Hn). destruct (res (own_v s) (vexp_of (s_vheap s)) (s_uses s) p' n) as [x|] eqn:Ex.
          -- destruct (resv_cell m s p' n x HV Hn Ex) as (q' & xv & Hox & Hhx & _ & Hpx).
             destruct (N.eq_dec x a0) as [->|Hxa].
             ++ rewrite upd_same. cbn. rewrite Hpk, N.eqb_refl. symmetry.
                eapply res_flag_off_a0 with (good := fun n => mem n VN) (p0 := p); eauto.
             ++ rewrite upd_other by exact Hxa. rewrite h1, Hhx, Hpx.
                destruct (N.eqb_spec q' p) as [->|Hq']; [congruence|]. symmetry.
                eapply res_flag_off_other with (good := fun n => mem n VN) (p0 := p) (a0 := a0); eauto.
          -- symmetry. eapply res_flag_off_none; eauto.
        * rewrite (h3 _ _ Hn'). symmetry. eapply res_flag_name; eauto.
      + rewrite (h3 _ _ Hn'). symmetry. eapply res_flag_nonuser; eauto.
        intros Hi. apply Hus in Hi. congruence.
    - intros p' n' Hn' Hr. assert (Hne : n' <> n) by (intros ->; congruence).
      destruct (N.eqb_spec n' n) as [|_]; [contradiction|]. rewrite andb_false_r.
      apply h4. rewrite <- Hr. symmetry. eapply res_flag_name; eauto.
    - intros p' n' x Hn' Hx. destruct (h7 _ _ _ Hn' Hx) as (vv0 & H1 & H2 & H3).
      unfold sh', upd. destruct (N.eqb_spec x a0) as [->|]; [|eauto].
      eexists; split; [reflexivity|]. cbn. split; congruence.
    - intros p' n' x Hn' Hx. unfold sh'. rewrite upd_other; [eauto|]. intros ->.
      destruct (h6 _ _ _ _ _ Eo Hx) as [_ ->]. congruence.
    - eapply vis_flag_off with (good := fun n => mem n VN); eauto.
  Qed.

  Lemma sunexport_f_resv s p n p' n' : resolve_v (sunexport_f s p n) p' n' = resolve_v s p' n'.
  Proof. unfold sunexport_f, set_fexp. destruct (own_f s p n) as [a|]; [destruct (s_fheap s a)|]; reflexivity. Qed.
  Lemma sunexport_f_ownv s p n p' n' : own_v (sunexport_f s p n) p' n' = own_v s p' n'.
  Proof. unfold sunexport_f, set_fexp. destruct (own_f s p n) as [a|]; [destruct (s_fheap s a)|]; reflexivity. Qed.
  Lemma sunexport_f_uses s p n u : s_uses (sunexport_f s p n) u = s_uses s u.
  Proof. unfold sunexport_f, set_fexp. destruct (own_f s p n) as [a|]; [destruct (s_fheap s a)|]; reflexivity. Qed.

  Lemma step_unexport m s n p :
    Inv m s -> sorted_op VN FN (OUnexport n p) = true -> guard_step P NMl s (OUnexport n p) = true ->
    Inv (step m (OUnexport n p)) (sstep s (OUnexport n p)).
  Proof.
    intros HI Hs G. pose proof HI as (HC & HV & HF). cbn [step]. rewrite unexport_split, sunexport_split.
    cbn [guard_step] in G. apply andb_true_iff in G. destruct G as [G Gf]. apply andb_true_iff in G. destruct G as [G0 Gv].
    assert (Hfn : own_f s p n = None -> resolve_f s p n = None).
    { intros Eo. rewrite Eo in Gf. apply opt_addr_eqb_eq in Gf. exact Gf. }
    pose proof (unexport_f_inv m s p n HI Hfn) as HI1.
    apply unexport_v_inv; auto.
    - rewrite sunexport_f_ownv, sunexport_f_resv. intros Eo. rewrite Eo in Gv. apply opt_addr_eqb_eq in Gv. exact Gv.
    - rewrite sunexport_f_ownv. intros Eo. destruct (own_v s p n) as [a|] eqn:Ev; [|congruence].
      destruct (mem n VN) eqn:Hn; [reflexivity|]. rewrite (v_junk _ _ _ _ _ _ _ HV _ _ _ Hn Ev) in Gv. cbn in Gv. discriminate.
    - intros u. rewrite sunexport_f_uses. apply (mem_users m s HC).
  Qed.

  (* ---- every guarded step of a name-disciplined history preserves the relation ---- *)
  Theorem step_preserves m s o :
    Inv m s -> sorted_op VN FN o = true -> guard_step P NMl s o = true -> Inv (step m o) (sstep s o).
  Proof.
    intros HI Hs G. destruct o.
    - apply step_inpkg, HI.
    - apply step_use; assumption.
    - discriminate G.
    - apply step_export; assumption.
    - apply step_unexport; assumption.
    - apply step_setq; assumption.
    - apply step_defvar; assumption.
    - apply step_defun; assumption.
    - apply step_makunbound; assumption.
    - apply step_fmakunbound; assumption.
  Qed.

  (* ---- under the relation every query answers the same ---- *)
  Lemma q_var_eq m s c n : Inv m s -> mem n VN = true -> q_var m c n = sq_var s c n.
  Proof.
    intros (HC & HV & HF) Hn. unfold q_var, sq_var. rewrite (v_tab _ _ _ _ _ _ _ HV _ _ Hn).
    change (res (own_v s) (vexp_of (s_vheap s)) (s_uses s)) with (resolve_v s).
    destruct (resolve_v s c n) as [a|]; [|reflexivity]. rewrite (v_heap _ _ _ _ _ _ _ HV). reflexivity.
  Qed.
  Lemma q_var_q_eq m s p n b : Inv m s -> mem n VN = true -> q_var_q m p n b = sq_var_q s p n b.
  Proof.
    intros (HC & HV & HF) Hn. unfold q_var_q, sq_var_q. rewrite (v_tab _ _ _ _ _ _ _ HV _ _ Hn).
    change (res (own_v s) (vexp_of (s_vheap s)) (s_uses s)) with (resolve_v s).
    destruct (resolve_v s p n) as [a|] eqn:Er; [|reflexivity]. rewrite (v_heap _ _ _ _ _ _ _ HV).
    destruct (resv_cell m s p n a HV Hn Er) as (q & vv & _ & Hh & Hval & _). rewrite Hh.
    destruct (vv_val vv); [reflexivity|congruence].
  Qed.
  Lemma q_fun_eq m s c p n b : Inv m s -> q_fun m c p n b = sq_fun s c p n b.
  Proof.
    intros (HC & HV & HF). unfold q_fun, sq_fun. rewrite (f_tab _ _ _ _ _ _ _ _ _ _ HF).
    change (res (own_f s) (fexp_of (s_fheap s)) (s_uses s)) with (resolve_f s).
    destruct (resolve_f s p n) as [a|] eqn:Er; [|reflexivity].
    destruct (resf_cell m s p n a HF Er) as (q & sf0 & Ho & _ & _).
    destruct (f_live _ _ _ _ _ _ _ _ _ _ HF _ _ _ Ho) as (fi & sf & Hm & Hs & Hl & _).
    destruct (fheap_of_s m s HF a sf Hs) as (fi' & Hm' & Hp & He). rewrite Hm in Hm'. injection Hm' as <-.
    rewrite Hm, Hs, Hp, He, Hl. reflexivity.
  Qed.

  Lemma flat_map_ext_in {A B} (f g : A -> list B) l : (forall x, In x l -> f x = g x) -> flat_map f l = flat_map g l.
  Proof.
    induction l as [|x l IH]; intros H; [reflexivity|]. cbn. rewrite (H x (or_introl eq_refl)), IH; [reflexivity|].
    intros y Hy. apply H. right; exact Hy.
  Qed.

  Theorem observe_eq m s PQ : Inv m s -> observe PQ VN FN m = sobserve PQ VN FN s.
  Proof.
    intros HI. unfold observe, sobserve. apply flat_map_ext_in. intros c _. f_equal.
    - apply flat_map_ext_in. intros n Hn. apply mem_In in Hn. f_equal; [apply q_var_eq; assumption|].
      apply flat_map_ext_in. intros p _. rewrite !(q_var_q_eq m s) by assumption. reflexivity.
    - apply flat_map_ext_in. intros n _. f_equal; [apply q_fun_eq; assumption|].
      apply flat_map_ext_in. intros p _. rewrite !(q_fun_eq m s) by assumption. reflexivity.
  Qed.

  (* ---- histories ---- *)
  Definition gprefix := sorted_guard_prefix P VN FN.
  Theorem refinement_prefix PQ ops : forall m s,
    Inv m s -> firstn (gprefix s ops) (run PQ VN FN m ops) = firstn (gprefix s ops) (srun PQ VN FN s ops).
  Proof.
    induction ops as [|o ops IH]; intros m s HI; [reflexivity|]. unfold gprefix. cbn [sorted_guard_prefix run srun]. fold NMl. fold gprefix.
    destruct (sorted_op VN FN o && guard_step P NMl s o) eqn:E; [|reflexivity].
    apply andb_true_iff in E. destruct E as [E1 E2]. pose proof (step_preserves m s o HI E1 E2) as HI'.
    cbn [firstn]. rewrite (observe_eq _ _ PQ HI'), (IH _ _ HI'). reflexivity.
  Qed.
  Theorem refinement_run PQ ops : forall m s,
    Inv m s -> forallb (sorted_op VN FN) ops = true -> guard_run P NMl s ops = true ->
    run PQ VN FN m ops = srun PQ VN FN s ops.
  Proof.
    induction ops as [|o ops IH]; intros m s HI Hs G; [reflexivity|]. cbn in Hs, G |- *.
    apply andb_true_iff in Hs. destruct Hs as [E1 Hs]. apply andb_true_iff in G. destruct G as [E2 G].
    pose proof (step_preserves m s o HI E1 E2) as HI'. rewrite (observe_eq _ _ PQ HI'), (IH _ _ HI' Hs G). reflexivity.
  Qed.
  (* the relation itself after any guarded history *)
  Theorem refinement_state ops : forall m s,
    Inv m s -> forallb (sorted_op VN FN) ops = true -> guard_run P NMl s ops = true ->
    Inv (fold_left step ops m) (fold_left sstep ops s).
  Proof.
    induction ops as [|o ops IH]; intros m s HI Hs G; [exact HI|]. cbn in Hs, G |- *.
    apply andb_true_iff in Hs. destruct Hs as [E1 Hs]. apply andb_true_iff in G. destruct G as [E2 G].
    apply IH; auto. apply step_preserves; assumption.
  Qed.
End Refine.

(* ---- instances for the universe of the correspondence (3 packages, variables 0 1, functions 2 3) ---- *)
Theorem refinement_PK ops :
  forallb (sorted_op VN FN) ops = true -> guard_run PK NM (sinit 0) ops = true ->
  run PK VN FN (init 0) ops = srun PK VN FN (sinit 0) ops.
Proof.
  intros Hs G. apply (refinement_run PK VN FN eq_refl PK ops (init 0) (sinit 0)); [apply inv_init|exact Hs|exact G].
Qed.

Theorem refinement_prefix_PK ops :
  let g := sorted_guard_prefix PK VN FN (sinit 0) ops in
  firstn g (run PK VN FN (init 0) ops) = firstn g (srun PK VN FN (sinit 0) ops).
Proof. apply (refinement_prefix PK VN FN eq_refl PK ops (init 0) (sinit 0)), inv_init. Qed.

(* the self-check of the correspondence (code 3: M = observed, but M <> S inside the guarded prefix) can never fire *)
Lemma qres_eqb_refl a : qres_eqb a a = true.
Proof. destruct a; cbn; auto. apply Z.eqb_refl. Qed.
Lemma list_eqb_refl {A} (e : A -> A -> bool) : (forall a, e a a = true) -> forall l, list_eqb e l l = true.
Proof. intros H l. induction l as [|x l IH]; [reflexivity|]. cbn. rewrite H, IH. reflexivity. Qed.
Theorem selfcheck_unreachable c : check_case c <> 3.
Proof.
  unfold check_case. cbv zeta. rewrite refinement_prefix_PK.
  rewrite (list_eqb_refl _ (list_eqb_refl _ qres_eqb_refl)).
  destruct (list_eqb _ _ (snd c)); [discriminate|]. destruct (list_eqb _ _ _); discriminate.
Qed.

Lemma refinement_general P VN FN : disjoint_names VN FN = true ->
  forall PQ p0 ops,
  forallb (sorted_op VN FN) ops = true -> guard_run P (VN ++ FN) (sinit p0) ops = true ->
  run PQ VN FN (init p0) ops = srun PQ VN FN (sinit p0) ops.
Proof. intros H PQ p0 ops Hs G. exact (refinement_run P VN FN H PQ ops _ _ (inv_init P VN FN p0) Hs G). Qed.

Lemma tables_are_the_graph P VN FN : disjoint_names VN FN = true ->
  forall p0 ops, forallb (sorted_op VN FN) ops = true -> guard_run P (VN ++ FN) (sinit p0) ops = true ->
  let m := fold_left step ops (init p0) in let s := fold_left sstep ops (sinit p0) in
  (forall p n, mem n VN = true -> vars m p n = resolve_v s p n) /\
  (forall p n, funcs m p n = resolve_f s p n) /\
  (forall a, vheap m a = s_vheap s a) /\ (forall a, frel (fheap m a) (s_fheap s a)).
Proof.
  intros H p0 ops Hs G m s.
  destruct (refinement_state P VN FN H ops _ _ (inv_init P VN FN p0) Hs G) as (_ & HV & HF).
  destruct HV as [h1 _ h3 _ _ _ _ _ _]. destruct HF as [g1 _ g3 _ _ _ _ _]. repeat split; assumption.
Qed.
