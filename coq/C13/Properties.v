(* C13 — property theorems only. *)
From C13 Require Import Model Spec Corr Proofs ProofsRes ProofsRefine ProofsX Regress.
Open Scope N_scope.

(* (1) In any package a name resolves to the package's own definition if it has one, otherwise to an
   exported definition of a package it uses, otherwise it is unbound (variables and functions). *)
Theorem C13_resolve_variables : forall s p n,
  match resolve_v s p n with
  | Some a => own_v s p n = Some a \/
              (own_v s p n = None /\ exists q, In q (s_uses s p) /\ own_v s q n = Some a /\ s_vexp s a = true)
  | None => own_v s p n = None /\ forall q a, In q (s_uses s p) -> own_v s q n = Some a -> s_vexp s a = false
  end.
Proof. exact resolve_v_spec. Qed.
Print Assumptions C13_resolve_variables.

Theorem C13_resolve_functions : forall s p n,
  match resolve_f s p n with
  | Some a => own_f s p n = Some a \/
              (own_f s p n = None /\ exists q, In q (s_uses s p) /\ own_f s q n = Some a /\ s_fexp s a = true)
  | None => own_f s p n = None /\ forall q a, In q (s_uses s p) -> own_f s q n = Some a -> s_fexp s a = false
  end.
Proof. exact resolve_f_spec. Qed.
Print Assumptions C13_resolve_functions.

(* (2) No operation loses a package's own definitions: in every state and for every operation of the
   specification, an own variable / function cell of any package is kept unless the operation is
   makunbound / fmakunbound of that very name in that very package -- or, for a variable cell that is an
   exported symbol WITHOUT a value (interned by `export` before anything was defined), defun of that name
   there: the function takes the place of the symbol.  A variable that has a value is only lost by
   makunbound (C13_own_bound_variable_never_lost).  Lifted to every history. *)
Theorem C13_own_variable_never_lost : forall s o p n a,
  own_v s p n = Some a -> ~ removes_v s o p n -> own_v (sstep s o) p n = Some a.
Proof. exact own_v_never_lost. Qed.
Print Assumptions C13_own_variable_never_lost.

Theorem C13_own_bound_variable_never_lost : forall s o p n a vv,
  own_v s p n = Some a -> s_vheap s a = Some vv -> vv_val vv <> None ->
  ~ (match o with OMakunbound n' => p = s_cur s /\ n = n' | _ => False end) ->
  own_v (sstep s o) p n = Some a.
Proof. exact own_v_bound_never_lost. Qed.
Print Assumptions C13_own_bound_variable_never_lost.

Theorem C13_own_function_never_lost : forall s o p n a,
  own_f s p n = Some a -> ~ removes_f s o p n -> own_f (sstep s o) p n = Some a.
Proof. exact own_f_never_lost. Qed.
Print Assumptions C13_own_function_never_lost.

Theorem C13_own_variable_survives_history : forall ops s p n a,
  own_v s p n = Some a -> never_removed_v s ops p n -> own_v (fold_left sstep ops s) p n = Some a.
Proof. exact own_v_survives. Qed.
Print Assumptions C13_own_variable_survives_history.

(* (3) THE REFINEMENT M = S, for the code REPAIRED by repo_fixes/C13-1 .. C13-12.  After ANY history (any
   length, any mix of the ten operations on any names: the name discipline of earlier versions is gone) that
   stays inside the guard, every query the harness makes -- the value of every variable name and the result
   of calling every function name, plain, pkg:name and pkg::name, from every current package -- answers in
   the code model M (the denormalised tables of package.go) exactly what the specification S answers
   (visibility recomputed from the use/export graph), after every step.  The guard no longer excludes
   unuse-package, setq of private variables, fmakunbound / makunbound / unexport of inherited or exported
   names, defun on inherited names, export before definition, use-package of a package exporting names the
   package owns: its remaining clauses say, step by step, that what the code writes into the table entries
   it touches is the new resolution, which fails only (a) where an entry is copied from a table that holds
   it as an inherited entry (transitive inheritance, by design of slip's cl-user umbrella) and (b) where an
   entry appears or disappears while ANOTHER used package exports the same name (no recomputation in Uses
   order).  "No operation leaves a stale or private binding visible" for all guarded histories. *)
Theorem C13_refinement : forall ops,
  guard_run PK NM (sinit 0) ops = true ->
  run PK VN FN (init 0) ops = srun PK VN FN (sinit 0) ops.
Proof. exact refinement_PK. Qed.
Print Assumptions C13_refinement.

(* the same for an arbitrary history on its longest guarded prefix (what Corr.check_case evaluates per run) *)
Theorem C13_refinement_prefix : forall ops,
  let g := guard_prefix PK NM (sinit 0) ops in
  firstn g (run PK VN FN (init 0) ops) = firstn g (srun PK VN FN (sinit 0) ops).
Proof. exact refinement_prefix_PK. Qed.
Print Assumptions C13_refinement_prefix.

(* hence the self-check code 3 of the correspondence (model = implementation but model <> S inside the
   guard) cannot occur for any case whatsoever *)
Theorem C13_selfcheck_unreachable : forall c, check_case c <> 3.
Proof. exact selfcheck_unreachable. Qed.
Print Assumptions C13_selfcheck_unreachable.

(* (3a) general form: any package universe P and name universe NM (the guard only needs them to contain
   the packages and names used), any start package, any list PQ of observing packages, any lists VN / FN of
   names queried as variables / as functions (they may overlap).  The abstraction relation Inv (variable
   heaps equal, function cells agree on home package and export flag and, for live cells, the Lambda a
   FuncInfo refers to holds the value S has; EVERY entry of M's variable and function table equals the
   resolution of S; Uses equal, Users the inverse of Uses, both duplicate-free; own cells carry their home
   package and are pairwise distinct) holds initially, is preserved by every guarded step, and makes every
   query agree. *)
Theorem C13_refinement_general : forall P NM PQ VN FN p0 ops,
  guard_run P NM (sinit p0) ops = true ->
  run PQ VN FN (init p0) ops = srun PQ VN FN (sinit p0) ops.
Proof. exact refinement_general. Qed.
Print Assumptions C13_refinement_general.

Theorem C13_step_preserves_relation : forall P NM m s o,
  Inv P NM m s -> guard_step P NM s o = true -> Inv P NM (step m o) (sstep s o).
Proof. exact step_preserves. Qed.
Print Assumptions C13_step_preserves_relation.

(* the tables of M are the resolution of S after every guarded history (state form) *)
Theorem C13_tables_are_the_graph : forall P NM p0 ops,
  guard_run P NM (sinit p0) ops = true ->
  let m := fold_left step ops (init p0) in let s := fold_left sstep ops (sinit p0) in
  (forall p n, vars m p n = resolve_v s p n) /\
  (forall p n, funcs m p n = resolve_f s p n) /\
  (forall a, vheap m a = s_vheap s a) /\ (forall a, frel (fheap m a) (s_fheap s a)).
Proof. exact tables_are_the_graph. Qed.
Print Assumptions C13_tables_are_the_graph.

(* (3b) outside the guard the model of the repaired code still differs from S: witnesses for the two
   remaining known findings -- transitive inheritance through Use and through Unuse
   (C13-use-copies-inherited) and no fallback / no precedence / no uncovering in Uses order
   (C13-no-fallback-in-uses-order); each is replayed on the implementation every run. *)
Theorem C13_outside_guard_refuted :
  forallb differs witnesses = true /\ forallb (fun w => negb (guard_run PK NM (sinit 0%N) w)) witnesses = true.
Proof. exact outside_guard_refuted. Qed.
Print Assumptions C13_outside_guard_refuted.

(* (3c) the witness histories of the repaired findings (unuse drops own, private variable pushed, use
   overwrites own, fmakunbound stale, export before defun, defun on inherited, unbound marker, makunbound /
   fmakunbound of inherited names, defun inheriting an export mark, unexport in a user, exported symbol
   without home) and a history using one name as function and variable are now INSIDE the guard, and M = S
   on them *)
Theorem C13_repaired_histories_inside_guard :
  forallb (fun w => guard_run PK NM (sinit 0%N) w && negb (differs w)) repaired = true.
Proof. exact repaired_inside_guard. Qed.
Print Assumptions C13_repaired_histories_inside_guard.

(* (4) the guard is satisfiable by a history that uses every operation (unuse included), and there M = S *)
Theorem C13_guard_nonvacuous :
  guard_run PK NM (sinit 0%N) ex_guarded = true /\
  differs ex_guarded = false /\ List.length ex_guarded = 19%nat.
Proof. exact guarded_example. Qed.
Print Assumptions C13_guard_nonvacuous.

(* (5) regressions of the model against the REPAIRED implementation: two recorded histories (stale FuncInfo
   scenario of the unrepaired code; defun of an inherited function redefining it in its home package),
   every one of their 12 x 84 and 9 x 84 observations reproduced by the model, both inside the guard. *)
Theorem C13_regression_lambda_patch : check_case regress_lambda_patch = 0%N.
Proof. exact regress_lambda_patch_ok. Qed.
Print Assumptions C13_regression_lambda_patch.

Theorem C13_regression_defun_inherited : check_case regress_defun_inherited = 0%N.
Proof. exact regress_defun_inherited_ok. Qed.
Print Assumptions C13_regression_defun_inherited.

(* (6) QUALIFIED WRITES (added after seeded change C13-13 was missed): (setq p:n v), (setq p::n v),
   (defvar p:n v), (defvar p::n v) evaluated with any current package enter M (Scope.Set on a qualified
   symbol, defvar with UnpackName, Package.Set / SetIfHas with the private flag) and S (p:n reaches what p
   exports, p::n any definition of p, for writing as for reading).  The refinement extends to every history
   over the 10 operations AND the four qualified writes: every guarded step preserves the abstraction
   relation, for any package and name universe *)
Theorem C13_xstep_preserves_relation : forall P NM m s o,
  Inv P NM m s -> xguard_step P NM s o = true -> Inv P NM (xstep m o) (sxstep s o).
Proof. exact xstep_preserves. Qed.
Print Assumptions C13_xstep_preserves_relation.

(* hence after ANY guarded history with qualified writes every query answers the same in M and in S *)
Theorem C13_xrefinement_general : forall P NM PQ VN FN p0 ops,
  xguard_run P NM (sinit p0) ops = true ->
  xrun PQ VN FN (init p0) ops = sxrun PQ VN FN (sinit p0) ops.
Proof. exact xrefinement_general. Qed.
Print Assumptions C13_xrefinement_general.

(* on the longest guarded prefix of an arbitrary history (what Corr.xcheck_case evaluates per run) *)
Theorem C13_xrefinement_prefix : forall ops,
  let g := xguard_prefix PK NM (sinit 0) ops in
  firstn g (xrun PK VN FN (init 0) ops) = firstn g (sxrun PK VN FN (sinit 0) ops).
Proof. exact xrefinement_prefix_PK. Qed.
Print Assumptions C13_xrefinement_prefix.

Theorem C13_xselfcheck_unreachable : forall c, xcheck_case c <> 3.
Proof. exact xselfcheck_unreachable. Qed.
Print Assumptions C13_xselfcheck_unreachable.

(* law of S, all states: a write through ONE colon, made from another package, never changes a variable the
   package keeps private ("pkg:name reaches exported" for writes) *)
Theorem C13_single_colon_write_leaves_private : forall s p n v a vv,
  resolve_v s p n = Some a -> s_vheap s a = Some vv -> vv_export vv = false -> N.eqb (s_cur s) p = false ->
  s_setq_q s p n v false = s /\ s_defvar_q s p n v false = s.
Proof. exact s_single_colon_leaves_private. Qed.
Print Assumptions C13_single_colon_write_leaves_private.

(* law of S, all states: a qualified defvar never changes a variable that has a value *)
Theorem C13_qualified_defvar_keeps_bound : forall s p n v priv a vv x,
  resolve_v s p n = Some a -> s_vheap s a = Some vv -> vv_val vv = Some x -> s_defvar_q s p n v priv = s.
Proof. exact s_defvar_q_keeps_bound. Qed.
Print Assumptions C13_qualified_defvar_keeps_bound.

(* the one clause of the extended guard that excludes something: known finding
   C13-defvar-private-qualified-overwrites.  In package 0 (setq vx 1); in package 1 (defvar 0::vx 9): the first
   two steps are guarded, the third is not, M (= the code) then answers 9 for 0::vx where S answers 1 *)
Theorem C13_defvar_private_qualified_overwrites_refuted :
  xguard_prefix PK NM (sinit 0%N) defvar_q_witness = 2%nat /\
  list_eqb (list_eqb qres_eqb) (xrun PK VN FN (init 0%N) defvar_q_witness) (sxrun PK VN FN (sinit 0%N) defvar_q_witness) = false /\
  q_var_q (fold_left xstep defvar_q_witness (init 0%N)) 0%N 0%N true = QVal 9%Z /\
  sq_var_q (fold_left sxstep defvar_q_witness (sinit 0%N)) 0%N 0%N true = QVal 1%Z.
Proof. exact defvar_private_qualified_overwrites_refuted. Qed.
Print Assumptions C13_defvar_private_qualified_overwrites_refuted.

(* non-vacuity: all four qualified writes, acting on exported, private, unbound and absent targets, inside the guard *)
Theorem C13_xguard_nonvacuous :
  xguard_run PK NM (sinit 0%N) xnonvac = true /\
  (let s := fold_left sxstep xnonvac (sinit 0%N) in
   sq_var_q s 0%N 0%N false = QVal 3%Z /\ sq_var_q s 0%N 1%N true = QVal 5%Z /\ sq_var_q s 2%N 1%N true = QVal 8%Z).
Proof. exact xguard_nonvacuous. Qed.
Print Assumptions C13_xguard_nonvacuous.

(* (7) THE OTHER RESOLUTIONS OF A FUNCTION NAME (added after the reported defect "(fboundp 'p:f) is nil although
   (p:f) can be called"): fboundp, symbol-function, (function name), fdefinition and function-lambda-expression
   on a plain, p:n or p::n name follow the rule of the call - one colon: exported from p, two colons: any
   function of p - after ANY history, on its longest guarded prefix: the masks of the five resolvers predicted
   by M (the code repaired by C13-14) equal those S demands, for all 42 function slots after every step *)
Theorem C13_function_resolvers_follow_call : forall ops,
  let g := xguard_prefix PK NM (sinit 0) ops in
  firstn g (map fobserve (xrun PK VN FN (init 0) ops)) = firstn g (map fobserve (sxrun PK VN FN (sinit 0) ops)).
Proof. exact frefinement_prefix_PK. Qed.
Print Assumptions C13_function_resolvers_follow_call.

(* what the masks are: per current package and function name the mask of name, p:name, p::name - a function of
   FindFunc's answer (M) / of the resolution (S) *)
Theorem C13_resolver_masks_of_model : forall s,
  fobserve (observe PK VN FN s) =
  flat_map (fun c => flat_map (fun n => res_mask (q_fun s c c n false) ::
     flat_map (fun p => [res_mask (q_fun s c p n false); res_mask (q_fun s c p n true)]) PK) FN) PK.
Proof. exact fobserve_observe. Qed.
Print Assumptions C13_resolver_masks_of_model.
Theorem C13_resolver_masks_of_spec : forall s,
  fobserve (sobserve PK VN FN s) =
  flat_map (fun c => flat_map (fun n => res_mask (sq_fun s c c n false) ::
     flat_map (fun p => [res_mask (sq_fun s c p n false); res_mask (sq_fun s c p n true)]) PK) FN) PK.
Proof. exact fobserve_sobserve. Qed.
Print Assumptions C13_resolver_masks_of_spec.

Theorem C13_fselfcheck_unreachable : forall c, fcheck_case c <> 3%N.
Proof. exact fselfcheck_unreachable. Qed.
Print Assumptions C13_fselfcheck_unreachable.

(* the unrepaired code (fboundp / symbol-function looked "p:n" up as a key of the current package) refuted *)
Theorem C13_original_fboundp_qualified_refuted :
  let ops := [XB (ODefun 2%N 1%Z)] in
  xguard_prefix PK NM (sinit 0%N) ops = 1%nat /\
  sq_fun (fold_left sxstep ops (sinit 0%N)) 1%N 0%N 2%N true = QVal 1%Z /\
  res_mask (sq_fun (fold_left sxstep ops (sinit 0%N)) 1%N 0%N 2%N true) = 31%N /\
  res_mask_orig true (q_fun (fold_left xstep ops (init 0%N)) 1%N 0%N 2%N true) = 28%N.
Proof. exact original_fboundp_qualified_refuted. Qed.
Print Assumptions C13_original_fboundp_qualified_refuted.

(* (8) QUALIFIED FMAKUNBOUND: (fmakunbound 'p:n) / (fmakunbound 'p::n) is a step of the histories of (6)
   (XFmakunboundQ: C13_xstep_preserves_relation, C13_xrefinement_general and C13_xrefinement_prefix quantify
   over it; its guard clause is the one of (fmakunbound 'n) evaluated in p, and only when the name is visible).
   Non-vacuity and the refutation of the unrepaired code (a silent no-op): from package 1, two colons remove
   the private function of package 0 in S and in M, one colon leaves it; the unrepaired step keeps the
   function where S removes it *)
Theorem C13_qualified_fmakunbound_nonvacuous_and_original_refuted :
  let two := [XB (ODefun 2%N 1%Z); XB (OInPkg 1%N); XFmakunboundQ 0%N 2%N true] in
  let one := [XB (ODefun 2%N 1%Z); XB (OInPkg 1%N); XFmakunboundQ 0%N 2%N false] in
  xguard_run PK NM (sinit 0%N) two = true /\ xguard_run PK NM (sinit 0%N) one = true /\
  sq_fun (fold_left sxstep two (sinit 0%N)) 1%N 0%N 2%N true = QUnbound /\
  q_fun (fold_left xstep two (init 0%N)) 1%N 0%N 2%N true = QUnbound /\
  sq_fun (fold_left sxstep one (sinit 0%N)) 1%N 0%N 2%N true = QVal 1%Z /\
  q_fun (fmakunbound_q_orig (fold_left xstep [XB (ODefun 2%N 1%Z); XB (OInPkg 1%N)] (init 0%N)) 0%N 2%N true) 1%N 0%N 2%N true = QVal 1%Z.
Proof. exact fmakunbound_q_nonvacuous. Qed.
Print Assumptions C13_qualified_fmakunbound_nonvacuous_and_original_refuted.
