(* C13 — property theorems only. *)
From C13 Require Import Model Spec Corr Proofs.
Open Scope N_scope.

(* (1) In any package a name resolves to the package's own definition if it has one, otherwise to an
   exported definition of a package it uses, otherwise it is unbound (variables and functions). *)
Theorem C13_resolve_variables : forall s p n,
  match resolve_v s p n with
  | Some a => own_v s p n = Some a \/
              (own_v s p n = None /\ exists q, In q (s_uses s p) /\ own_v s q n = Some a /\ s_vexp s a = true)
  | None => own_v s p n = None /\ forall q a, In q (s_uses s p) -> own_v s q n = Some a -> s_vexp s a = false
  end.
Proof. exact resolve_v_spec. Qed.
Print Assumptions C13_resolve_variables.

Theorem C13_resolve_functions : forall s p n,
  match resolve_f s p n with
  | Some a => own_f s p n = Some a \/
              (own_f s p n = None /\ exists q, In q (s_uses s p) /\ own_f s q n = Some a /\ s_fexp s a = true)
  | None => own_f s p n = None /\ forall q a, In q (s_uses s p) -> own_f s q n = Some a -> s_fexp s a = false
  end.
Proof. exact resolve_f_spec. Qed.
Print Assumptions C13_resolve_functions.

(* (2) No operation loses a package's own definitions: in every state and for every operation of the
   specification, an own variable / function cell of any package is kept unless the operation is
   makunbound / fmakunbound of that very name in that very package; lifted to every history. *)
Theorem C13_own_variable_never_lost : forall s o p n a,
  own_v s p n = Some a -> ~ removes_v s o p n -> own_v (sstep s o) p n = Some a.
Proof. exact own_v_never_lost. Qed.
Print Assumptions C13_own_variable_never_lost.

Theorem C13_own_function_never_lost : forall s o p n a,
  own_f s p n = Some a -> ~ removes_f s o p n -> own_f (sstep s o) p n = Some a.
Proof. exact own_f_never_lost. Qed.
Print Assumptions C13_own_function_never_lost.

Theorem C13_own_variable_survives_history : forall ops s p n a,
  own_v s p n = Some a -> never_removed_v s ops p n -> own_v (fold_left sstep ops s) p n = Some a.
Proof. exact own_v_survives. Qed.
Print Assumptions C13_own_variable_survives_history.

(* (3) FULL STATEMENT of the property for the code model M (not proved in this development yet):
        forall ops, guard_run PK NM (sinit 0) ops = true ->
                    run PK VN FN (init 0) ops = srun PK VN FN (sinit 0) ops
   i.e. after every guarded history every resolution computed from the implementation's tables
   equals the one recomputed from the graph.  It is EVALUATED on every generated history of every
   run (Corr.check_case code 3 fires if a guarded prefix has M <> S) but is not a theorem.
   What is machine-checked about M here are the refutations: for each clause of the guard a witness
   history outside it on which the faithful model differs from S (each is a known finding). *)
Theorem C13_outside_guard_refuted :
  forallb differs witnesses = true /\ forallb (fun w => negb (guard_run PK NM (sinit 0%N) w)) witnesses = true.
Proof. exact outside_guard_refuted. Qed.
Print Assumptions C13_outside_guard_refuted.

(* (4) the guard is satisfiable by a history that uses every guarded operation, and there M = S *)
Theorem C13_guard_nonvacuous :
  guard_run PK NM (sinit 0%N) ex_guarded = true /\ differs ex_guarded = false /\ List.length ex_guarded = 16%nat.
Proof. exact guarded_example. Qed.
Print Assumptions C13_guard_nonvacuous.
