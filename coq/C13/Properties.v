(* C13 — property theorems only. *)
From C13 Require Import Model Spec Corr Proofs ProofsRes ProofsRefine Regress.
Open Scope N_scope.

(* (1) In any package a name resolves to the package's own definition if it has one, otherwise to an
   exported definition of a package it uses, otherwise it is unbound (variables and functions). *)
Theorem C13_resolve_variables : forall s p n,
  match resolve_v s p n with
  | Some a => own_v s p n = Some a \/
              (own_v s p n = None /\ exists q, In q (s_uses s p) /\ own_v s q n = Some a /\ s_vexp s a = true)
  | None => own_v s p n = None /\ forall q a, In q (s_uses s p) -> own_v s q n = Some a -> s_vexp s a = false
  end.
Proof. exact resolve_v_spec. Qed.
Print Assumptions C13_resolve_variables.

Theorem C13_resolve_functions : forall s p n,
  match resolve_f s p n with
  | Some a => own_f s p n = Some a \/
              (own_f s p n = None /\ exists q, In q (s_uses s p) /\ own_f s q n = Some a /\ s_fexp s a = true)
  | None => own_f s p n = None /\ forall q a, In q (s_uses s p) -> own_f s q n = Some a -> s_fexp s a = false
  end.
Proof. exact resolve_f_spec. Qed.
Print Assumptions C13_resolve_functions.

(* (2) No operation loses a package's own definitions: in every state and for every operation of the
   specification, an own variable / function cell of any package is kept unless the operation is
   makunbound / fmakunbound of that very name in that very package; lifted to every history. *)
Theorem C13_own_variable_never_lost : forall s o p n a,
  own_v s p n = Some a -> ~ removes_v s o p n -> own_v (sstep s o) p n = Some a.
Proof. exact own_v_never_lost. Qed.
Print Assumptions C13_own_variable_never_lost.

Theorem C13_own_function_never_lost : forall s o p n a,
  own_f s p n = Some a -> ~ removes_f s o p n -> own_f (sstep s o) p n = Some a.
Proof. exact own_f_never_lost. Qed.
Print Assumptions C13_own_function_never_lost.

Theorem C13_own_variable_survives_history : forall ops s p n a,
  own_v s p n = Some a -> never_removed_v s ops p n -> own_v (fold_left sstep ops s) p n = Some a.
Proof. exact own_v_survives. Qed.
Print Assumptions C13_own_variable_survives_history.

(* (3) THE REFINEMENT M = S.  After ANY history (any length) of defpackage-level operations that stays
   inside the guard and keeps the name discipline (a name is used as a variable: setq/defvar/makunbound
   and variable queries on VN = {0,1}; or as a function: defun/fmakunbound and calls on FN = {2,3};
   export/unexport on either), every query the harness makes -- the value of every variable name and the
   result of calling every function name, plain, pkg:name and pkg::name, from every current package --
   answers in the code model M (the denormalised tables of package.go, entries pushed at
   use/export/define time) exactly what the specification S answers (visibility recomputed from the
   use/export graph), after every step of the history.  "No operation leaves a stale or private binding
   visible" for all guarded histories, not only the generated ones. *)
Theorem C13_refinement : forall ops,
  forallb (sorted_op VN FN) ops = true -> guard_run PK NM (sinit 0) ops = true ->
  run PK VN FN (init 0) ops = srun PK VN FN (sinit 0) ops.
Proof. exact refinement_PK. Qed.
Print Assumptions C13_refinement.

(* the same for an arbitrary history on its longest guarded prefix (what Corr.check_case evaluates per run) *)
Theorem C13_refinement_prefix : forall ops,
  let g := sorted_guard_prefix PK VN FN (sinit 0) ops in
  firstn g (run PK VN FN (init 0) ops) = firstn g (srun PK VN FN (sinit 0) ops).
Proof. exact refinement_prefix_PK. Qed.
Print Assumptions C13_refinement_prefix.

(* hence the self-check code 3 of the correspondence (model = implementation but model <> S inside the
   guard) cannot occur for any case whatsoever *)
Theorem C13_selfcheck_unreachable : forall c, check_case c <> 3.
Proof. exact selfcheck_unreachable. Qed.
Print Assumptions C13_selfcheck_unreachable.

(* (3a) general form: any package universe P (the guard only needs it to contain the packages used), any
   disjoint name sets VN / FN, any start package, any list PQ of observing packages.  The abstraction
   relation Inv (variable heaps equal, function cells agree on home package and export flag and, for
   live cells, the Lambda a FuncInfo refers to holds the value S has; every table entry of M equals the resolution of S -- for variable names in
   the variable table, for every name in the function table; Uses equal, Users the inverse of Uses; own
   cells carry their home package, are distinct, variables of VN are bound; every exported own cell of a
   used package is what the user resolves to) holds initially, is preserved by every guarded step, and
   makes every query agree. *)
Theorem C13_refinement_general : forall P VN FN, disjoint_names VN FN = true ->
  forall PQ p0 ops,
  forallb (sorted_op VN FN) ops = true -> guard_run P (VN ++ FN) (sinit p0) ops = true ->
  run PQ VN FN (init p0) ops = srun PQ VN FN (sinit p0) ops.
Proof. exact refinement_general. Qed.
Print Assumptions C13_refinement_general.

Theorem C13_step_preserves_relation : forall P VN FN, disjoint_names VN FN = true ->
  forall m s o, Inv P VN FN m s -> sorted_op VN FN o = true -> guard_step P (VN ++ FN) s o = true ->
  Inv P VN FN (step m o) (sstep s o).
Proof. exact step_preserves. Qed.
Print Assumptions C13_step_preserves_relation.

(* the tables of M are the resolution of S after every guarded history (state form) *)
Theorem C13_tables_are_the_graph : forall P VN FN, disjoint_names VN FN = true ->
  forall p0 ops, forallb (sorted_op VN FN) ops = true -> guard_run P (VN ++ FN) (sinit p0) ops = true ->
  let m := fold_left step ops (init p0) in let s := fold_left sstep ops (sinit p0) in
  (forall p n, mem n VN = true -> vars m p n = resolve_v s p n) /\
  (forall p n, funcs m p n = resolve_f s p n) /\
  (forall a, vheap m a = s_vheap s a) /\ (forall a, frel (fheap m a) (s_fheap s a)).
Proof. exact tables_are_the_graph. Qed.
Print Assumptions C13_tables_are_the_graph.

(* (3b) outside the guard the faithful model M differs from S: for each clause of the guard a witness
   history (each a known finding, replayed on the implementation every run); the last two were found by
   this proof (the per-run evaluation had not met them). *)
Theorem C13_outside_guard_refuted :
  forallb differs witnesses = true /\ forallb (fun w => negb (guard_run PK NM (sinit 0%N) w)) witnesses = true.
Proof. exact outside_guard_refuted. Qed.
Print Assumptions C13_outside_guard_refuted.

(* (3c) the name discipline is necessary: a guarded history using one name as function and variable where M <> S *)
Theorem C13_name_discipline_needed_refuted :
  guard_run PK NM (sinit 0%N) w_unsorted = true /\ differs w_unsorted = true /\
  forallb (sorted_op VN FN) w_unsorted = false.
Proof. exact unsorted_refuted. Qed.
Print Assumptions C13_name_discipline_needed_refuted.

(* (4) the guard is satisfiable by a name-disciplined history that uses every guarded operation, and there M = S *)
Theorem C13_guard_nonvacuous :
  guard_run PK NM (sinit 0%N) ex_guarded = true /\ forallb (sorted_op VN FN) ex_guarded = true /\
  differs ex_guarded = false /\ List.length ex_guarded = 16%nat.
Proof. exact guarded_example. Qed.
Print Assumptions C13_guard_nonvacuous.

(* (5) regression of the model against the implementation: a history observed on the unchanged code where
   a stale FuncInfo held by users shows the body of a LATER defun (Package.DefLambda patches the first
   Lambda of the name in place); the model reproduces every one of its 12 x 84 observations. *)
Theorem C13_regression_lambda_patch : check_case regress_lambda_patch = 0%N.
Proof. exact regress_lambda_patch_ok. Qed.
Print Assumptions C13_regression_lambda_patch.
