(* C13 — proofs about the specification S (visibility recomputed from the graph) and the
   machine-checked refutations of M = S outside the guard. *)
From C13 Require Import Model Spec Corr.
Open Scope N_scope.

(* ---- resolution: own first, otherwise an exported own cell of a used package, otherwise nothing ---- *)
Lemma resolve_v_own s p n a : own_v s p n = Some a -> resolve_v s p n = Some a.
Proof. unfold resolve_v. intros ->. reflexivity. Qed.
Lemma resolve_f_own s p n a : own_f s p n = Some a -> resolve_f s p n = Some a.
Proof. unfold resolve_f. intros ->. reflexivity. Qed.

Lemma inherited_sound {A} (own : pkgid -> name -> option A) exp us n a :
  inherited own exp us n = Some a -> exists q, In q us /\ own q n = Some a /\ exp a = true.
Proof.
  induction us as [|q us IH]; cbn; [discriminate|].
  destruct (own q n) as [b|] eqn:E.
  - destruct (exp b) eqn:Ee.
    + intros H; injection H as <-. exists q. repeat split; auto.
    + intros H. destruct (IH H) as (q' & Hq & Ho & He). exists q'. repeat split; auto.
  - intros H. destruct (IH H) as (q' & Hq & Ho & He). exists q'. repeat split; auto.
Qed.
Lemma inherited_complete {A} (own : pkgid -> name -> option A) exp us n q a :
  In q us -> own q n = Some a -> exp a = true -> inherited own exp us n <> None.
Proof.
  induction us as [|q' us IH]; cbn; [tauto|]. intros [->|Hin] Ho He.
  - rewrite Ho, He. discriminate.
  - destruct (own q' n) as [b|]; [destruct (exp b); [discriminate|]|]; apply IH; assumption.
Qed.
Lemma inherited_none {A} (own : pkgid -> name -> option A) exp us n :
  (forall q a, In q us -> own q n = Some a -> exp a = false) -> inherited own exp us n = None.
Proof.
  induction us as [|q us IH]; cbn; intros H; [reflexivity|].
  destruct (own q n) as [b|] eqn:E; [rewrite (H q b (or_introl eq_refl) E)|]; apply IH; intros q' a Hq; apply H; right; exact Hq.
Qed.

(* a name resolves to the package's own definition if it has one, otherwise to an exported
   definition of a package it uses, otherwise it is unbound *)
Theorem resolve_v_spec s p n :
  match resolve_v s p n with
  | Some a => own_v s p n = Some a \/
              (own_v s p n = None /\ exists q, In q (s_uses s p) /\ own_v s q n = Some a /\ s_vexp s a = true)
  | None => own_v s p n = None /\ forall q a, In q (s_uses s p) -> own_v s q n = Some a -> s_vexp s a = false
  end.
Proof.
  unfold resolve_v. destruct (own_v s p n) as [a|] eqn:E; [left; reflexivity|].
  destruct (inherited (own_v s) (s_vexp s) (s_uses s p) n) as [a|] eqn:Ei.
  - right. split; [reflexivity|]. apply inherited_sound in Ei. exact Ei.
  - split; [reflexivity|]. intros q a Hq Ho. destruct (s_vexp s a) eqn:Ee; [|reflexivity].
    exfalso. eapply inherited_complete; eauto.
Qed.
Theorem resolve_f_spec s p n :
  match resolve_f s p n with
  | Some a => own_f s p n = Some a \/
              (own_f s p n = None /\ exists q, In q (s_uses s p) /\ own_f s q n = Some a /\ s_fexp s a = true)
  | None => own_f s p n = None /\ forall q a, In q (s_uses s p) -> own_f s q n = Some a -> s_fexp s a = false
  end.
Proof.
  unfold resolve_f. destruct (own_f s p n) as [a|] eqn:E; [left; reflexivity|].
  destruct (inherited (own_f s) (s_fexp s) (s_uses s p) n) as [a|] eqn:Ei.
  - right. split; [reflexivity|]. apply inherited_sound in Ei. exact Ei.
  - split; [reflexivity|]. intros q a Hq Ho. destruct (s_fexp s a) eqn:Ee; [|reflexivity].
    exfalso. eapply inherited_complete; eauto.
Qed.

(* ---- no operation loses a package's own definitions: for every history of S, an own cell of any
   package disappears only by makunbound/fmakunbound of that very name in that very package ---- *)
(* (defun n) of a NEW function in p whose name is an exported, unbound symbol of p (interned by an earlier
   export): the function takes the place of the symbol; a bound variable is never affected (own_v_bound_never_lost) *)
Definition removes_v (s : sstate) (o : op) (p : pkgid) (n : name) : Prop :=
  match o with
  | OMakunbound n' => p = s_cur s /\ n = n'
  | ODefun n' _ => p = s_cur s /\ n = n' /\ resolve_f s (s_cur s) n = None /\ exported_symbol s (s_cur s) n <> None
  | _ => False end.
Definition removes_f (s : sstate) (o : op) (p : pkgid) (n : name) : Prop :=
  match o with OFmakunbound n' => p = s_cur s /\ n = n' | _ => False end.

Lemma upd2_other {A} (f : N -> N -> A) k1 k2 v a b : ~ (a = k1 /\ b = k2) -> upd2 f k1 k2 v a b = f a b.
Proof.
  unfold upd2. intros H. destruct (N.eqb_spec a k1), (N.eqb_spec b k2); cbn; try reflexivity. exfalso; auto.
Qed.
Lemma upd2_same {A} (f : N -> N -> A) k1 k2 v : upd2 f k1 k2 v k1 k2 = v.
Proof. unfold upd2. rewrite !N.eqb_refl. reflexivity. Qed.

Lemma own_v_set_fexp s a e : own_v (set_fexp s a e) = own_v s.
Proof. unfold set_fexp. destruct (s_fheap s a); reflexivity. Qed.
Lemma own_v_set_vexp s a e : own_v (set_vexp s a e) = own_v s.
Proof. unfold set_vexp. destruct (s_vheap s a); reflexivity. Qed.
Lemma own_v_set_vval s a v : own_v (set_vval s a v) = own_v s.
Proof. unfold set_vval. destruct (s_vheap s a); reflexivity. Qed.
Lemma own_f_set_fexp s a e : own_f (set_fexp s a e) = own_f s.
Proof. unfold set_fexp. destruct (s_fheap s a); reflexivity. Qed.
Lemma own_f_set_vexp s a e : own_f (set_vexp s a e) = own_f s.
Proof. unfold set_vexp. destruct (s_vheap s a); reflexivity. Qed.
Lemma own_f_set_vval s a v : own_f (set_vval s a v) = own_f s.
Proof. unfold set_vval. destruct (s_vheap s a); reflexivity. Qed.

Lemma new_var_keeps s p n vv p' n' a : own_v s p n = None -> own_v s p' n' = Some a -> own_v (new_var s p n vv) p' n' = Some a.
Proof.
  intros Hn Ho. unfold new_var; cbn. rewrite upd2_other; [exact Ho|]. intros [-> ->]. congruence.
Qed.

Lemma s_setq_keeps_v s n v p' n' a : own_v s p' n' = Some a -> own_v (s_setq s n v) p' n' = Some a.
Proof.
  intros Ho. unfold s_setq. destruct (resolve_v s (s_cur s) n) as [b|] eqn:E.
  - rewrite own_v_set_vval. exact Ho.
  - apply new_var_keeps; [|exact Ho]. unfold resolve_v in E. destruct (own_v s (s_cur s) n); [discriminate|reflexivity].
Qed.

Lemma sexport_f_own_v s p n : own_v (sexport_f s p n) = own_v s.
Proof. unfold sexport_f. destruct (own_f s p n); [apply own_v_set_fexp|reflexivity]. Qed.
Lemma sunexport_f_own_v s p n : own_v (sunexport_f s p n) = own_v s.
Proof. unfold sunexport_f. destruct (own_f s p n); [apply own_v_set_fexp|reflexivity]. Qed.
Lemma sexport_f_own_f s p n : own_f (sexport_f s p n) = own_f s.
Proof. unfold sexport_f. destruct (own_f s p n); [apply own_f_set_fexp|reflexivity]. Qed.
Lemma sunexport_f_own_f s p n : own_f (sunexport_f s p n) = own_f s.
Proof. unfold sunexport_f. destruct (own_f s p n); [apply own_f_set_fexp|reflexivity]. Qed.

Theorem own_v_never_lost s o p n a :
  own_v s p n = Some a -> ~ removes_v s o p n -> own_v (sstep s o) p n = Some a.
Proof.
  intros Ho Hr. destruct o as [p0|q p0|q p0|n0 p0|n0 p0|n0 v|n0 v|n0 v|n0|n0]; cbn [sstep].
  - exact Ho.
  - destruct (_ || _); exact Ho.
  - destruct (N.eqb p0 q); exact Ho.
  - unfold sexport_v. rewrite sexport_f_own_v. destruct (own_v s p0 n0) as [b|] eqn:E.
    + rewrite own_v_set_vexp, sexport_f_own_v. exact Ho.
    + apply new_var_keeps; rewrite sexport_f_own_v; assumption.
  - unfold sunexport_v. rewrite sunexport_f_own_v.
    destruct (own_v s p0 n0) as [b|]; [rewrite own_v_set_vexp|]; rewrite sunexport_f_own_v; exact Ho.
  - apply s_setq_keeps_v, Ho.
  - destruct (resolve_v s (s_cur s) n0) as [b|]; [|apply s_setq_keeps_v, Ho].
    destruct (s_vheap s b) as [vv|]; [|exact Ho]. destruct (vv_val vv); [exact Ho|apply s_setq_keeps_v, Ho].
  - destruct (resolve_f s (s_cur s) n0) as [b|] eqn:Er; [destruct (s_fheap s b); exact Ho|].
    cbn. destruct (exported_symbol s (s_cur s) n0) as [x|] eqn:Ex; [|exact Ho].
    rewrite upd2_other; [exact Ho|]. intros [-> ->]. apply Hr. cbn. repeat split; auto. congruence.
  - cbn. rewrite upd2_other; [exact Ho|]. intros [-> ->]. apply Hr. cbn. auto.
  - exact Ho.
Qed.

(* a variable that has a value is only lost by makunbound of that name in that package *)
Theorem own_v_bound_never_lost s o p n a vv :
  own_v s p n = Some a -> s_vheap s a = Some vv -> vv_val vv <> None ->
  ~ (match o with OMakunbound n' => p = s_cur s /\ n = n' | _ => False end) ->
  own_v (sstep s o) p n = Some a.
Proof.
  intros Ho Hh Hv Hr. apply own_v_never_lost; [exact Ho|]. destruct o; cbn; try exact Hr; try tauto.
  intros (-> & -> & _ & Hx). apply Hx. unfold exported_symbol. rewrite Ho, Hh. destruct (vv_val vv); [reflexivity|congruence].
Qed.

Theorem own_f_never_lost s o p n a :
  own_f s p n = Some a -> ~ removes_f s o p n -> own_f (sstep s o) p n = Some a.
Proof.
  intros Ho Hr. destruct o as [p0|q p0|q p0|n0 p0|n0 p0|n0 v|n0 v|n0 v|n0|n0]; cbn [sstep].
  - exact Ho.
  - destruct (_ || _); exact Ho.
  - destruct (N.eqb p0 q); exact Ho.
  - unfold sexport_v. destruct (own_v (sexport_f s p0 n0) p0 n0) as [b|]; [rewrite own_f_set_vexp|cbn]; rewrite sexport_f_own_f; exact Ho.
  - unfold sunexport_v. destruct (own_v (sunexport_f s p0 n0) p0 n0) as [b|]; [rewrite own_f_set_vexp|]; rewrite sunexport_f_own_f; exact Ho.
  - unfold s_setq. destruct (resolve_v s (s_cur s) n0); [rewrite own_f_set_vval|cbn]; exact Ho.
  - assert (Hq : own_f (s_setq s n0 v) p n = Some a)
      by (unfold s_setq; destruct (resolve_v s (s_cur s) n0); [rewrite own_f_set_vval|cbn]; exact Ho).
    destruct (resolve_v s (s_cur s) n0) as [b|]; [|exact Hq].
    destruct (s_vheap s b) as [vv|]; [|exact Ho]. destruct (vv_val vv); [exact Ho|exact Hq].
  - destruct (resolve_f s (s_cur s) n0) as [b|] eqn:E.
    + destruct (s_fheap s b); exact Ho.
    + cbn. rewrite upd2_other; [exact Ho|]. intros [-> ->].
      unfold resolve_f in E. rewrite Ho in E. discriminate.
  - exact Ho.
  - cbn. rewrite upd2_other; [exact Ho|]. intros [-> ->]. apply Hr. cbn. auto.
Qed.

(* lifted to every history: an own definition present at some point is still the package's own
   definition after any further operations, unless one of them unbinds that very name there *)
Fixpoint never_removed_v (s : sstate) (ops : list op) (p : pkgid) (n : name) : Prop :=
  match ops with [] => True | o :: ops' => ~ removes_v s o p n /\ never_removed_v (sstep s o) ops' p n end.
Theorem own_v_survives ops : forall s p n a,
  own_v s p n = Some a -> never_removed_v s ops p n -> own_v (fold_left sstep ops s) p n = Some a.
Proof.
  induction ops as [|o ops IH]; intros s p n a Ho Hr; [exact Ho|]. cbn. destruct Hr as [H1 H2].
  apply IH; [apply own_v_never_lost; assumption|exact H2].
Qed.

(* ---- refutations: outside the guard the model M of the repaired code still differs from S (the two
   remaining known findings) ---- *)
Open Scope Z_scope.
Definition differs (ops : list op) : bool :=
  negb (list_eqb (list_eqb qres_eqb) (run PK VN FN (init 0%N) ops) (srun PK VN FN (sinit 0%N) ops)).
(* b uses a, a uses c, c exports x => x visible in b (Use copies what a merely inherits) *)
Definition w_use_transitive := [OInPkg 2%N; OSetq 0%N 1; OExport 0%N 2%N; OUse 2%N 0%N; OUse 0%N 1%N].
(* the same through Unuse: b uses c and a, a uses c; b stops using c but keeps x through a's table *)
Definition w_unuse_transitive := [OInPkg 2%N; OSetq 0%N 1; OExport 0%N 2%N; OUse 2%N 0%N; OUse 2%N 1%N; OUse 0%N 1%N; OUnuse 2%N 1%N].
(* c uses a and b, both export x; a unexports x: c does not fall back on b's x *)
Definition w_no_fallback :=
  [OSetq 0%N 1; OExport 0%N 0%N; OInPkg 1%N; OSetq 0%N 2; OExport 0%N 1%N; OUse 0%N 2%N; OUse 1%N 2%N; OUnexport 0%N 0%N].
(* c uses a and b (in this order), b exports x, then a exports x: c keeps b's x although a comes first *)
Definition w_no_precedence :=
  [OSetq 0%N 1; OInPkg 1%N; OSetq 0%N 2; OExport 0%N 1%N; OUse 0%N 2%N; OUse 1%N 2%N; OExport 0%N 0%N].
(* c owns x and uses a which exports x; makunbound x in c does not uncover a's x *)
Definition w_no_uncover :=
  [OSetq 0%N 1; OExport 0%N 0%N; OInPkg 2%N; OSetq 0%N 3; OUse 0%N 2%N; OMakunbound 0%N].
Definition witnesses := [w_use_transitive; w_unuse_transitive; w_no_fallback; w_no_precedence; w_no_uncover].
Lemma outside_guard_refuted :
  forallb differs witnesses = true /\ forallb (fun w => negb (guard_run PK NM (sinit 0%N) w)) witnesses = true.
Proof. split; vm_compute; reflexivity. Qed.

(* the histories of the eleven repaired findings are now INSIDE the guard and M = S on them (they were the
   refutation witnesses of the unrepaired code) *)
Definition r_unuse := [OSetq 0%N 1; OUse 1%N 0%N; OUnuse 1%N 0%N].
Definition r_private_pushed := [OUse 0%N 1%N; OSetq 0%N 1; OSetq 0%N 2].
Definition r_use_overwrites := [OSetq 0%N 1; OInPkg 1%N; OSetq 0%N 2; OExport 0%N 1%N; OUse 1%N 0%N].
Definition r_fmakunbound_stale := [ODefun 2%N 1; OExport 2%N 0%N; OUse 0%N 1%N; OFmakunbound 2%N].
Definition r_export_before_defun := [OUse 0%N 1%N; OExport 2%N 0%N; ODefun 2%N 1].
Definition r_defun_inherited := [ODefun 2%N 1; OExport 2%N 0%N; OUse 0%N 1%N; OInPkg 1%N; ODefun 2%N 2; OUnexport 2%N 0%N].
Definition r_marker := [OExport 0%N 0%N].
Definition r_makunbound_inherited := [OSetq 0%N 1; OExport 0%N 0%N; OUse 0%N 1%N; OInPkg 1%N; OMakunbound 0%N].
Definition r_defun_inherits_export :=
  [ODefun 3%N 1; OExport 3%N 0%N; OFmakunbound 3%N; OUse 0%N 1%N; OInPkg 1%N; ODefun 3%N 2].
Definition r_unexport_inherited := [OSetq 0%N 1; OExport 0%N 0%N; OUse 0%N 1%N; OUnexport 0%N 1%N].
Definition r_fmakunbound_inherited := [ODefun 2%N 1; OExport 2%N 0%N; OUse 0%N 1%N; OInPkg 1%N; OFmakunbound 2%N].
Definition r_symbol_shared := [OUse 0%N 1%N; OExport 0%N 0%N; OInPkg 1%N; OSetq 0%N 5; OInPkg 0%N; OSetq 0%N 1; OUnexport 0%N 0%N].
(* one name used as function AND variable (the name discipline of earlier versions is not needed any more) *)
Definition r_unsorted := [ODefun 0%N 1; OExport 0%N 0%N; OSetq 0%N 3; OUse 0%N 1%N; OFmakunbound 0%N; ODefun 0%N 4; OMakunbound 0%N].
Definition repaired := [r_unuse; r_private_pushed; r_use_overwrites; r_fmakunbound_stale; r_export_before_defun;
                        r_defun_inherited; r_marker; r_makunbound_inherited; r_defun_inherits_export;
                        r_unexport_inherited; r_fmakunbound_inherited; r_symbol_shared; r_unsorted].
Lemma repaired_inside_guard :
  forallb (fun w => guard_run PK NM (sinit 0%N) w && negb (differs w)) repaired = true.
Proof. vm_compute. reflexivity. Qed.

(* non-vacuity: a guarded history using every operation, on which M = S *)
Definition ex_guarded : list op :=
  [OSetq 0%N 1; ODefun 2%N 2; OExport 0%N 0%N; OExport 2%N 0%N; OUse 0%N 1%N; OInPkg 1%N; OSetq 0%N 3; OSetq 1%N 4;
   ODefun 3%N 5; ODefvar 1%N 6; OInPkg 0%N; OUnexport 0%N 0%N; OMakunbound 0%N; OInPkg 1%N; OMakunbound 1%N; OFmakunbound 3%N;
   OUnuse 0%N 1%N; OExport 3%N 1%N; ODefun 3%N 7].
Lemma guarded_example :
  guard_run PK NM (sinit 0%N) ex_guarded = true /\
  differs ex_guarded = false /\ List.length ex_guarded = 19%nat.
Proof. repeat split; vm_compute; reflexivity. Qed.
