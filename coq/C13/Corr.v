From C13 Require Import Model Spec.
Open Scope Z_scope.
Definition qres_eqb (a b : qres) : bool :=
  match a, b with
  | QVal x, QVal y => Z.eqb x y
  | QUnbound, QUnbound | QMarker, QMarker | QOther, QOther => true
  | _, _ => false
  end.
Fixpoint list_eqb {A} (eqb : A -> A -> bool) (a b : list A) : bool :=
  match a, b with
  | [], [] => true
  | x :: a', y :: b' => eqb x y && list_eqb eqb a' b'
  | _, _ => false
  end.
Definition case := (list op * list (list qres))%type.
Definition PK : list pkgid := [0; 1; 2]%N.
Definition VN : list name := [0; 1]%N.
Definition FN : list name := [2; 3]%N.
Definition NM : list name := [0; 1; 2; 3]%N.

(* the guarded prefix is computed by guard_prefix (guard_step only: the name discipline of earlier versions
   is no longer needed), the domain of the theorem C13_refinement_prefix;
   code 3 is proved unreachable (C13_selfcheck_unreachable), it stays as a check of the checker.
   0: M = observed.  1: M <> observed but the observed outputs agree with S on the guarded prefix.
   2: M <> observed and the observed outputs differ from S inside the guarded prefix.
   3: (self-check) M = observed but M differs from S inside the guarded prefix: the theorem
      M = S on the guard would be false *)
Definition check_case (c : case) : N :=
  let m := run PK VN FN (init 0%N) (fst c) in
  let g := guard_prefix PK NM (sinit 0%N) (fst c) in
  let sp := srun PK VN FN (sinit 0%N) (fst c) in
  if list_eqb (list_eqb qres_eqb) m (snd c) then
    if list_eqb (list_eqb qres_eqb) (firstn g m) (firstn g sp) then 0%N else 3%N
  else if list_eqb (list_eqb qres_eqb) (firstn g (snd c)) (firstn g sp) then 1%N else 2%N.
Fixpoint check_all_from (i : N) (cs : list case) : list (N * N) :=
  match cs with
  | [] => []
  | c :: cs' => let r := check_case c in
                (if N.eqb r 0 then [] else [(i, r)]) ++ check_all_from (N.succ i) cs'
  end.
Definition check_all := check_all_from 0%N.
(* number of guarded steps over all cases (reported in the evidence) *)
Definition guard_count (cs : list case) : N :=
  fold_left (fun acc c => (acc + N.of_nat (guard_prefix PK NM (sinit 0%N) (fst c)))%N) cs 0%N.

(* ---- histories with qualified writes (xop): the same codes over xrun / sxrun / xguard_prefix; this is what
   the shards evaluate.  Code 3 is proved unreachable for these too (C13_xselfcheck_unreachable). ---- *)
Definition xcase := (list xop * list (list qres))%type.
Definition xcheck_case (c : xcase) : N :=
  let m := xrun PK VN FN (init 0%N) (fst c) in
  let g := xguard_prefix PK NM (sinit 0%N) (fst c) in
  let sp := sxrun PK VN FN (sinit 0%N) (fst c) in
  if list_eqb (list_eqb qres_eqb) m (snd c) then
    if list_eqb (list_eqb qres_eqb) (firstn g m) (firstn g sp) then 0%N else 3%N
  else if list_eqb (list_eqb qres_eqb) (firstn g (snd c)) (firstn g sp) then 1%N else 2%N.
Fixpoint xcheck_all_from (i : N) (cs : list xcase) : list (N * N) :=
  match cs with
  | [] => []
  | c :: cs' => let r := xcheck_case c in
                (if N.eqb r 0 then [] else [(i, r)]) ++ xcheck_all_from (N.succ i) cs'
  end.
Definition xcheck_all := xcheck_all_from 0%N.
Definition xguard_count (cs : list xcase) : N :=
  fold_left (fun acc c => (acc + N.of_nat (xguard_prefix PK NM (sinit 0%N) (fst c)))%N) cs 0%N.
(* number of qualified writes inside the guarded prefixes *)
Definition is_qualified (o : xop) : bool := match o with XB _ => false | _ => true end.
Definition xqual_count (cs : list xcase) : N :=
  fold_left (fun acc c => (acc + N.of_nat (List.length (filter is_qualified (firstn (xguard_prefix PK NM (sinit 0%N) (fst c)) (fst c)))))%N) cs 0%N.

(* ---- with the resolver masks of the function slots (fboundp, symbol-function, function, fdefinition,
   function-lambda-expression on the same plain / p:n / p::n name): the codes of xcheck_case first; when the
   calls agree, the same four codes for the masks (3 proved unreachable: C13_fselfcheck_unreachable) ---- *)
Definition fcase := (list xop * list (list qres) * list (list N))%type.
Definition fcheck_case (c : fcase) : N :=
  let base := xcheck_case (fst c) in
  if negb (N.eqb base 0) then base else
  let ops := fst (fst c) in
  let mf := map fobserve (xrun PK VN FN (init 0%N) ops) in
  let g := xguard_prefix PK NM (sinit 0%N) ops in
  let sf := map fobserve (sxrun PK VN FN (sinit 0%N) ops) in
  if list_eqb (list_eqb N.eqb) mf (snd c) then
    if list_eqb (list_eqb N.eqb) (firstn g mf) (firstn g sf) then 0%N else 3%N
  else if list_eqb (list_eqb N.eqb) (firstn g (snd c)) (firstn g sf) then 1%N else 2%N.
Fixpoint fcheck_all_from (i : N) (cs : list fcase) : list (N * N) :=
  match cs with
  | [] => []
  | c :: cs' => let r := fcheck_case c in
                (if N.eqb r 0 then [] else [(i, r)]) ++ fcheck_all_from (N.succ i) cs'
  end.
Definition fcheck_all := fcheck_all_from 0%N.
