(* C13 — executable model M of package.go AS REPAIRED by repo_fixes/C13-1 .. C13-12 (and the Lambda sharing
   of pkg/cl/defun.go): Use, Unuse, Set/SetIfHas, Export, Unexport, Remove,
   DefLambda, Undefine, Get, FindFunc, and of the thin Lisp wrappers in pkg/cl that call them
   (use-package, unuse-package, export, unexport, setq/defvar at top level, defun, makunbound,
   fmakunbound, in-package).  Go maps are total functions here; the loops `for name, vv := range
   pkg.vars` run over the finite name universe U (every key the harness ever uses is in U).
   VarVal and FuncInfo are heap cells because the Go code shares them by pointer. *)
From Coq Require Export List Bool NArith ZArith Lia.
Export ListNotations.
Open Scope N_scope.

Definition pkgid := N.
Definition name := N.
Definition addr := N.

Record varval := { vv_pkg : option pkgid;     (* Pkg: package interned in (nil for newUnboundVar) *)
                   vv_val : option Z;         (* None = the Unbound marker *)
                   vv_export : bool }.
(* FuncInfo: Create is a closure over the Lambda object handed to THAT defun (pkg/cl/defun.go): fi_lam
   is the address of that Lambda; the body (here: the value returned) lives in the Lambda *)
Record funinfo := { fi_pkg : pkgid; fi_lam : addr; fi_export : bool }.

Record state := {
  vars : pkgid -> name -> option addr;
  funcs : pkgid -> name -> option addr;
  vheap : addr -> option varval;
  fheap : addr -> option funinfo;
  vnext : addr;
  fnext : addr;
  uses : pkgid -> list pkgid;
  users : pkgid -> list pkgid;
  cur : pkgid;
  lheap : addr -> option Z;              (* Lambda objects: the body *)
  lnext : addr;
  plam : pkgid -> name -> option addr }. (* Package.lambdas: the FIRST Lambda ever defined under the name *)

Definition init (p0 : pkgid) : state :=
  {| vars := fun _ _ => None; funcs := fun _ _ => None; vheap := fun _ => None; fheap := fun _ => None;
     vnext := 0; fnext := 0; uses := fun _ => []; users := fun _ => []; cur := p0;
     lheap := fun _ => None; lnext := 0; plam := fun _ _ => None |}.

Definition upd {A} (f : N -> A) (k : N) (v : A) : N -> A := fun k' => if N.eqb k' k then v else f k'.
Definition upd2 {A} (f : N -> N -> A) (k1 k2 : N) (v : A) : N -> N -> A :=
  fun a b => if N.eqb a k1 && N.eqb b k2 then v else f a b.
Definition mem (x : N) (l : list N) : bool := existsb (N.eqb x) l.
Definition remove1 (x : N) (l : list N) : list N :=   (* delete the first occurrence *)
  (fix go l := match l with [] => [] | y :: l' => if N.eqb x y then l' else y :: go l' end) l.

Definition set_vars s v := {| vars := v; funcs := funcs s; vheap := vheap s; fheap := fheap s; vnext := vnext s;
  fnext := fnext s; uses := uses s; users := users s; cur := cur s; lheap := lheap s; lnext := lnext s; plam := plam s |}.
Definition set_funcs s f := {| vars := vars s; funcs := f; vheap := vheap s; fheap := fheap s; vnext := vnext s;
  fnext := fnext s; uses := uses s; users := users s; cur := cur s; lheap := lheap s; lnext := lnext s; plam := plam s |}.
Definition set_vheap s h := {| vars := vars s; funcs := funcs s; vheap := h; fheap := fheap s; vnext := vnext s;
  fnext := fnext s; uses := uses s; users := users s; cur := cur s; lheap := lheap s; lnext := lnext s; plam := plam s |}.
Definition set_fheap s h := {| vars := vars s; funcs := funcs s; vheap := vheap s; fheap := h; vnext := vnext s;
  fnext := fnext s; uses := uses s; users := users s; cur := cur s; lheap := lheap s; lnext := lnext s; plam := plam s |}.

(* first used package whose table holds an exported entry under the name (the loops of Use / Unuse over
   the used packages in Uses order, an entry already present is never replaced) *)
Fixpoint inherited {A} (tbl : pkgid -> name -> option A) (exp : A -> bool) (us : list pkgid) (n : name) : option A :=
  match us with
  | [] => None
  | q :: us' => match tbl q n with
                | Some a => if exp a then Some a else inherited tbl exp us' n
                | None => inherited tbl exp us' n
                end
  end.

Definition opt_pkg_eqb (o : option pkgid) (p : pkgid) : bool := match o with Some q => N.eqb q p | None => false end.

Section WithUniverse.
  Variable U : list name.      (* all names *)

  Definition vv_exported (s : state) (a : addr) : bool :=
    match vheap s a with Some vv => vv_export vv | None => false end.
  Definition fi_exported (s : state) (a : addr) : bool :=
    match fheap s a with Some fi => fi_export fi | None => false end.
  (* vv.Pkg == obj / fi.Pkg == obj: the entry belongs to the package itself (not inherited) *)
  Definition vv_home (s : state) (obj : pkgid) (a : addr) : bool :=
    match vheap s a with Some vv => opt_pkg_eqb (vv_pkg vv) obj | None => false end.
  Definition fi_home (s : state) (obj : pkgid) (a : addr) : bool :=
    match fheap s a with Some fi => N.eqb (fi_pkg fi) obj | None => false end.

  (* Package.Use (repaired, C13-7): an exported entry of the used package is inherited only if the package
     has no entry under that name *)
  Definition use (s : state) (obj pkg : pkgid) : state :=
    if N.eqb obj pkg then s
    else if mem pkg (uses s obj) then s
    else
      let v' := fun p n => if N.eqb p obj then
                  match vars s obj n with
                  | Some x => Some x
                  | None => match vars s pkg n with
                            | Some a => if vv_exported s a then Some a else None
                            | None => None end
                  end
                else vars s p n in
      let f' := fun p n => if N.eqb p obj then
                  match funcs s obj n with
                  | Some x => Some x
                  | None => match funcs s pkg n with
                            | Some a => if fi_exported s a then Some a else None
                            | None => None end
                  end
                else funcs s p n in
      {| vars := v'; funcs := f'; vheap := vheap s; fheap := fheap s; vnext := vnext s; fnext := fnext s;
         uses := upd (uses s) obj (uses s obj ++ [pkg]); users := upd (users s) pkg (users s pkg ++ [obj]);
         cur := cur s; lheap := lheap s; lnext := lnext s; plam := plam s |}.

  (* Package.Unuse (repaired, C13-3): the entries whose home is the package itself are kept, the rest is
     inherited again from the remaining used packages: exported entries only, the first used package wins.
     (Also when pkg was not used: the tables are rebuilt all the same.) *)
  Definition unuse (s : state) (obj pkg : pkgid) : state :=
    if N.eqb obj pkg then s
    else
      let us := remove1 pkg (uses s obj) in
      let v' := fun p n => if N.eqb p obj then
                  match vars s obj n with
                  | Some a => if vv_home s obj a then Some a else inherited (vars s) (vv_exported s) us n
                  | None => inherited (vars s) (vv_exported s) us n end
                else vars s p n in
      let f' := fun p n => if N.eqb p obj then
                  match funcs s obj n with
                  | Some a => if fi_home s obj a then Some a else inherited (funcs s) (fi_exported s) us n
                  | None => inherited (funcs s) (fi_exported s) us n end
                else funcs s p n in
      {| vars := v'; funcs := f'; vheap := vheap s; fheap := fheap s; vnext := vnext s; fnext := fnext s;
         uses := upd (uses s) obj us; users := upd (users s) pkg (remove1 obj (users s pkg)); cur := cur s; lheap := lheap s; lnext := lnext s; plam := plam s |}.

  (* share an entry with the using packages that have none under the name *)
  Definition push_users {A} (tbl : pkgid -> name -> option A) (us : list pkgid) (n : name) (a : A) :=
    fun p n' => if mem p us && N.eqb n' n then match tbl p n with Some x => Some x | None => Some a end else tbl p n'.
  (* delete from the using packages the entries for which the test holds *)
  Definition drop_users (tbl : pkgid -> name -> option addr) (us : list pkgid) (n : name) (test : addr -> bool) :=
    fun p n' => if mem p us && N.eqb n' n then
                  match tbl p n with Some x => if test x then None else Some x | None => None end
                else tbl p n'.

  (* Package.Set (with SetIfHas; repaired, C13-4: shared with the users only if exported and the package's own);
     private = false as from setq/defvar *)
  Definition set_var (s : state) (obj : pkgid) (n : name) (v : Z) : state :=
    match vars s obj n with
    | Some a =>
        match vheap s a with
        | Some vv =>
            if vv_export vv || N.eqb (cur s) obj then
              let s1 := set_vheap s (upd (vheap s) a (Some {| vv_pkg := vv_pkg vv; vv_val := Some v; vv_export := vv_export vv |})) in
              if vv_export vv && opt_pkg_eqb (vv_pkg vv) obj
              then set_vars s1 (push_users (vars s1) (users s obj) n a)
              else s1
            else s      (* SetIfHas returns the vv without setting; Set does not create another *)
        | None => s
        end
    | None =>
        let a := vnext s in
        {| vars := upd2 (vars s) obj n (Some a); funcs := funcs s;
           vheap := upd (vheap s) a (Some {| vv_pkg := Some obj; vv_val := Some v; vv_export := false |});
           fheap := fheap s; vnext := a + 1; fnext := fnext s; uses := uses s; users := users s; cur := cur s; lheap := lheap s; lnext := lnext s; plam := plam s |}
    end.

  (* Package.Get as called for the current package: visible value *)
  Inductive qres := QVal (v : Z) | QUnbound | QMarker | QOther.
  Definition pkg_get (s : state) (obj : pkgid) (n : name) : option (option Z) :=   (* has, value *)
    match vars s obj n with
    | Some a => match vheap s a with
                | Some vv => if vv_export vv || N.eqb (cur s) obj then Some (vv_val vv) else None
                | None => None end
    | None => None
    end.

  (* defvar: no-op when Get says bound *)
  Definition defvar (s : state) (n : name) (v : Z) : state :=
    match pkg_get s (cur s) n with
    | Some (Some _) => s
    | _ => set_var s (cur s) n v
    end.

  (* Package.Export: function part, then variable part (repaired, C13-2: a name without a variable is
     interned with its home package and shared with the users like an existing one) *)
  Definition export_f (s : state) (obj : pkgid) (n : name) : state :=
    match funcs s obj n with
    | Some a => match fheap s a with
                | Some fi =>
                    let s' := set_fheap s (upd (fheap s) a (Some {| fi_pkg := fi_pkg fi; fi_lam := fi_lam fi; fi_export := true |})) in
                    set_funcs s' (push_users (funcs s') (users s obj) n a)
                | None => s end
    | None => s end.
  Definition export_v (s1 : state) (us : list pkgid) (obj : pkgid) (n : name) : state :=
    match vars s1 obj n with
    | Some a => match vheap s1 a with
                | Some vv =>
                    let s' := set_vheap s1 (upd (vheap s1) a (Some {| vv_pkg := vv_pkg vv; vv_val := vv_val vv; vv_export := true |})) in
                    set_vars s' (push_users (vars s') us n a)
                | None => s1 end
    | None =>
        let a := vnext s1 in
        let s' := {| vars := upd2 (vars s1) obj n (Some a); funcs := funcs s1;
           vheap := upd (vheap s1) a (Some {| vv_pkg := Some obj; vv_val := None; vv_export := true |});
           fheap := fheap s1; vnext := a + 1; fnext := fnext s1; uses := uses s1; users := users s1; cur := cur s1; lheap := lheap s1; lnext := lnext s1; plam := plam s1 |} in
        set_vars s' (push_users (vars s') us n a)
    end.
  Definition export (s : state) (obj : pkgid) (n : name) : state := export_v (export_f s obj n) (users s obj) obj n.

  (* Package.Unexport (repaired, C13-8: only a cell whose home is the package) *)
  Definition unexport_f (s : state) (obj : pkgid) (n : name) : state :=
    match funcs s obj n with
    | Some a => match fheap s a with
                | Some fi =>
                    if N.eqb (fi_pkg fi) obj then
                      let s' := set_fheap s (upd (fheap s) a (Some {| fi_pkg := fi_pkg fi; fi_lam := fi_lam fi; fi_export := false |})) in
                      set_funcs s' (drop_users (funcs s') (users s obj) n (fi_home s' obj))
                    else s
                | None => s end
    | None => s end.
  Definition unexport_v (s1 : state) (us : list pkgid) (obj : pkgid) (n : name) : state :=
    match vars s1 obj n with
    | Some a => match vheap s1 a with
                | Some vv =>
                    if opt_pkg_eqb (vv_pkg vv) obj then
                      let s' := set_vheap s1 (upd (vheap s1) a (Some {| vv_pkg := vv_pkg vv; vv_val := vv_val vv; vv_export := false |})) in
                      set_vars s' (drop_users (vars s') us n (vv_home s' obj))
                    else s1
                | None => s1 end
    | None => s1
    end.
  Definition unexport (s : state) (obj : pkgid) (n : name) : state := unexport_v (unexport_f s obj n) (users s obj) obj n.

  (* makunbound (repaired, C13-9): Package.Remove on the current package unless the variable is inherited
     (vv.Pkg another package); Remove deletes the entry and, in the users, the entries whose home is obj *)
  Definition remove_var (s : state) (obj : pkgid) (n : name) : state :=
    match vars s obj n with
    | Some a =>
        let inherited_var := match vheap s a with
                             | Some vv => match vv_pkg vv with Some q => negb (N.eqb q obj) | None => false end
                             | None => false end in
        if inherited_var then s
        else set_vars s (fun p n' =>
               if N.eqb p obj && N.eqb n' n then None
               else drop_users (vars s) (users s obj) n (vv_home s obj) p n')
    | None => s
    end.

  (* Package.DefLambda (defun name () v in the current package).  pkg/cl/defun.go builds a NEW Lambda lc
     with the body and a Create closure fc over lc.  Repaired (C13-11): when the name is an inherited function
     the Lambda registry is the one of its home package and the FuncInfo keeps its Pkg.  DefLambda patches
     home.lambdas[name] in place when there is one (Doc, Forms, Closure, Macro := those of lc), otherwise
     registers lc; then the existing or the new FuncInfo gets Create := fc, i.e. it refers to the NEW Lambda.
     Nothing ever removes an entry of lambdas.  A new function whose name is an exported unbound symbol OF THE
     PACKAGE ITSELF (C13-12) is exported, takes the place of the symbol here and in the users (C13-6). *)
  Definition defun (s : state) (obj : pkgid) (n : name) (v : Z) : state :=
    let home := match funcs s obj n with
                | Some a => match fheap s a with Some fi => fi_pkg fi | None => obj end
                | None => obj end in
    let l := lnext s in
    let lh1 := upd (lheap s) l (Some v) in
    let lh := match plam s home n with Some x => upd lh1 x (Some v) | None => lh1 end in
    let pl := match plam s home n with Some _ => plam s | None => upd2 (plam s) home n (Some l) end in
    match funcs s obj n with
    | Some a =>
        match fheap s a with
        | Some fi =>
            {| vars := vars s; funcs := funcs s; vheap := vheap s;
               fheap := upd (fheap s) a (Some {| fi_pkg := home; fi_lam := l; fi_export := fi_export fi |});
               vnext := vnext s; fnext := fnext s; uses := uses s; users := users s; cur := cur s;
               lheap := lh; lnext := l + 1; plam := pl |}
        | None => s end
    | None =>
        let a := fnext s in
        let sym := match vars s obj n with
                   | Some x => match vheap s x with
                               | Some vv => match vv_val vv with
                                            | None => if vv_export vv && opt_pkg_eqb (vv_pkg vv) obj then Some x else None
                                            | Some _ => None end
                               | None => None end
                   | None => None end in
        match sym with
        | Some x =>
            {| vars := fun p n' => if N.eqb p obj && N.eqb n' n then None
                                   else drop_users (vars s) (users s obj) n (N.eqb x) p n';
               funcs := push_users (upd2 (funcs s) obj n (Some a)) (users s obj) n a; vheap := vheap s;
               fheap := upd (fheap s) a (Some {| fi_pkg := obj; fi_lam := l; fi_export := true |});
               vnext := vnext s; fnext := a + 1; uses := uses s; users := users s; cur := cur s;
               lheap := lh; lnext := l + 1; plam := pl |}
        | None =>
            {| vars := vars s; funcs := upd2 (funcs s) obj n (Some a); vheap := vheap s;
               fheap := upd (fheap s) a (Some {| fi_pkg := obj; fi_lam := l; fi_export := false |});
               vnext := vnext s; fnext := a + 1; uses := uses s; users := users s; cur := cur s;
               lheap := lh; lnext := l + 1; plam := pl |}
        end
    end.

  (* Package.Undefine (fmakunbound; repaired, C13-10: only a function whose home is the package; C13-5: the
     same FuncInfo is deleted from the users) *)
  Definition undefine (s : state) (obj : pkgid) (n : name) : state :=
    match funcs s obj n with
    | Some a =>
        if fi_home s obj a then
          set_funcs s (fun p n' => if N.eqb p obj && N.eqb n' n then None
                                   else drop_users (funcs s) (users s obj) n (N.eqb a) p n')
        else s
    | None => s
    end.

  (* ---- queries, asked with CurrentPackage = c ---- *)
  (* plain variable reference: Scope.get -> CurrentPackage.Get *)
  Definition q_var (s : state) (c : pkgid) (n : name) : qres :=
    match vars s c n with
    | Some a => match vheap s a with
                | Some vv => match vv_val vv with Some v => QVal v | None => QUnbound end
                | None => QUnbound end
    | None => QUnbound
    end.
  (* pkg:name / pkg::name : GetVarVal + (Export || private); repaired (C13-1): the Unbound marker is not
     returned as a value, unbound-variable is signalled *)
  Definition q_var_q (s : state) (p : pkgid) (n : name) (private : bool) : qres :=
    match vars s p n with
    | Some a => match vheap s a with
                | Some vv => if vv_export vv || private then
                               match vv_val vv with Some v => QVal v | None => QUnbound end
                             else QUnbound
                | None => QUnbound end
    | None => QUnbound
    end.
  (* function call: FindFunc *)
  Definition q_fun (s : state) (c p : pkgid) (n : name) (private : bool) : qres :=
    match funcs s p n with
    | Some a => match fheap s a with
                | Some fi => if private || fi_export fi || N.eqb c (fi_pkg fi)
                             then match lheap s (fi_lam fi) with Some v => QVal v | None => QOther end
                             else QUnbound
                | None => QUnbound end
    | None => QUnbound
    end.

  Inductive op :=
  | OInPkg (p : pkgid)
  | OUse (q p : pkgid)          (* (use-package 'q 'p) *)
  | OUnuse (q p : pkgid)
  | OExport (n : name) (p : pkgid)
  | OUnexport (n : name) (p : pkgid)
  | OSetq (n : name) (v : Z)
  | ODefvar (n : name) (v : Z)
  | ODefun (n : name) (v : Z)
  | OMakunbound (n : name)
  | OFmakunbound (n : name).

  Definition step (s : state) (o : op) : state :=
    match o with
    | OInPkg p => {| vars := vars s; funcs := funcs s; vheap := vheap s; fheap := fheap s; vnext := vnext s;
                     fnext := fnext s; uses := uses s; users := users s; cur := p; lheap := lheap s; lnext := lnext s; plam := plam s |}
    | OUse q p => use s p q
    | OUnuse q p => unuse s p q
    | OExport n p => export s p n
    | OUnexport n p => unexport s p n
    | OSetq n v => set_var s (cur s) n v
    | ODefvar n v => defvar s n v
    | ODefun n v => defun s (cur s) n v
    | OMakunbound n => remove_var s (cur s) n
    | OFmakunbound n => undefine s (cur s) n
    end.
End WithUniverse.

(* the observation after a step: for every package c as current, every name, plain / p: / p:: *)
Definition observe (P : list pkgid) (VN FN : list name) (s : state) : list qres :=
  flat_map (fun c =>
    flat_map (fun n => q_var s c n :: flat_map (fun p => [q_var_q s p n false; q_var_q s p n true]) P) VN ++
    flat_map (fun n => q_fun s c c n false :: flat_map (fun p => [q_fun s c p n false; q_fun s c p n true]) P) FN) P.

Fixpoint run (P : list pkgid) (VN FN : list name) (s : state) (ops : list op) : list (list qres) :=
  match ops with
  | [] => []
  | o :: ops' => let s' := step s o in observe P VN FN s' :: run P VN FN s' ops'
  end.

(* ---- qualified writes: (setq p:n v) (setq p::n v) (defvar p:n v) (defvar p::n v), evaluated with any
   current package (scope.go Scope.Set with UnpackName; pkg/cl/defvar.go; package.go Set / SetIfHas with the
   variadic `privates` flag).  Added after seeded change C13-13 (the flag of Package.Set taken for true whenever
   it is passed) was missed: no write through a qualified name was modelled or generated. ---- *)
Inductive xop :=
| XB (o : op)
| XSetqQ (p : pkgid) (n : name) (v : Z) (priv : bool)      (* priv: two colons *)
| XDefvarQ (p : pkgid) (n : name) (v : Z) (priv : bool)
| XFmakunboundQ (p : pkgid) (n : name) (priv : bool).      (* (fmakunbound 'p:n) / (fmakunbound 'p::n) *)

(* the body of an operation run with CurrentPackage = p, the current package restored afterwards *)
Definition as_pkg (s : state) (p : pkgid) (o : op) : state := step (step (step s (OInPkg p)) o) (OInPkg (cur s)).

(* Package.Set(name, value, private): SetIfHas tests `vv.Export || CurrentPackage == obj || private`; when the
   test holds the assignment (value, sharing of an exported own variable with the users) is the one set_var
   makes when obj is the current package; with the test false SetIfHas returns the VarVal untouched and Set
   creates nothing; without an entry Set creates a private variable of obj *)
Definition set_var_q (s : state) (obj : pkgid) (n : name) (v : Z) (priv : bool) : state :=
  match vars s obj n with
  | Some a => match vheap s a with
              | Some vv => if vv_export vv || N.eqb (cur s) obj || priv then as_pkg s obj (OSetq n v) else s
              | None => s end
  | None => as_pkg s obj (OSetq n v)
  end.
(* Scope.Set on a qualified symbol: pkg.GetVarVal(name) != nil && (vv.Export || private), then pkg.Set with the
   flag; otherwise nothing (no error, nothing created) *)
Definition setq_q (s : state) (p : pkgid) (n : name) (v : Z) (priv : bool) : state :=
  match vars s p n with
  | Some a => match vheap s a with
              | Some vv => if vv_export vv || priv then set_var_q s p n v priv else s
              | None => s end
  | None => s
  end.
(* defvar on a qualified symbol: pkg.Get(vname) (which knows nothing of the flag: it answers for an exported
   variable or when pkg is the current package), a bound answer ends it; otherwise pkg.Set(vname, iv, private) *)
Definition defvar_q (s : state) (p : pkgid) (n : name) (v : Z) (priv : bool) : state :=
  match pkg_get s p n with
  | Some (Some _) => s
  | _ => set_var_q s p n v priv
  end.

(* fmakunbound on a qualified symbol (pkg/cl/fmakunbound.go as repaired by C13-14): when FindFunc resolves the
   name (the rule of the call: exported, or two colons, or the function's home is the current package),
   pkg.Undefine(name) - which does not look at the current package; otherwise nothing *)
Definition fmakunbound_q (s : state) (p : pkgid) (n : name) (priv : bool) : state :=
  match q_fun s (cur s) p n priv with
  | QUnbound => s
  | _ => as_pkg s p (OFmakunbound n)
  end.
(* the code before C13-14: CurrentPackage.Undefine("p:n"), a key no table holds: nothing happens *)
Definition fmakunbound_q_orig (s : state) (p : pkgid) (n : name) (priv : bool) : state := s.

Definition xstep (s : state) (o : xop) : state :=
  match o with
  | XB o => step s o
  | XSetqQ p n v priv => setq_q s p n v priv
  | XDefvarQ p n v priv => defvar_q s p n v priv
  | XFmakunboundQ p n priv => fmakunbound_q s p n priv
  end.
Fixpoint xrun (P : list pkgid) (VN FN : list name) (s : state) (ops : list xop) : list (list qres) :=
  match ops with
  | [] => []
  | o :: ops' => let s' := xstep s o in observe P VN FN s' :: xrun P VN FN s' ops'
  end.

(* ---- the other resolutions of a FUNCTION name (added after the reported defect "fboundp of a qualified symbol
   answers nil"): fboundp, symbol-function, (function name), fdefinition and function-lambda-expression applied
   to a plain, p:n or p::n symbol.  As repaired by C13-14 all five go through FindFunc (function.go), the
   resolution of the call itself: each says "defined" exactly when the call in the same slot does not signal
   undefined-function.  An observation is the bit mask of the resolvers that say "defined" (bit 0 fboundp,
   1 symbol-function, 2 function, 3 fdefinition, 4 function-lambda-expression): 31 or 0. ---- *)
Definition fvis (r : qres) : bool := match r with QUnbound => false | _ => true end.
Definition res_mask (r : qres) : N := if fvis r then 31 else 0.
(* the code BEFORE C13-14: fboundp and symbol-function looked the whole string "p:n" up in the table of the
   current package (Package.GetFunc), which never holds such a key: bits 0 and 1 missing on qualified names *)
Definition res_mask_orig (qualified : bool) (r : qres) : N := if fvis r then (if qualified then 28 else 31) else 0.
(* the function slots of an observation: per current package 14 variable answers, then 14 function answers *)
Fixpoint fun_slots_n {A} (k : nat) (l : list A) : list A :=
  match k with
  | O => []
  | S k' => firstn 14 (skipn 14 l) ++ fun_slots_n k' (skipn 28 l)
  end.
Definition fun_slots {A} (l : list A) : list A := fun_slots_n 3 l.
Definition fobserve (obs : list qres) : list N := map res_mask (fun_slots obs).
