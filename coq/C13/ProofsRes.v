(* C13 — resolution calculus: how "own cell, else first exported own cell of a used package" reacts to the
   elementary changes of the graph (a package is used, a cell is created, an export flag flips, an own
   cell is removed).  Generic in the table (variables and functions share it). *)
From C13 Require Import Model Spec Corr Proofs.
Open Scope N_scope.

Lemma mem_In x l : mem x l = true <-> In x l.
Proof.
  unfold mem. rewrite existsb_exists. split.
  - intros (y & Hy & E). apply N.eqb_eq in E. subst; auto.
  - intros H. exists x. split; auto. apply N.eqb_refl.
Qed.
Lemma mem_nIn x l : mem x l = false <-> ~ In x l.
Proof.
  split.
  - intros H Hi. apply mem_In in Hi. congruence.
  - intros H. destruct (mem x l) eqn:E; [|reflexivity]. exfalso. apply H, mem_In, E.
Qed.
Lemma mem_app x l1 l2 : mem x (l1 ++ l2) = mem x l1 || mem x l2.
Proof. unfold mem. apply existsb_app. Qed.
Lemma upd_same {A} (f : N -> A) k v : upd f k v k = v.
Proof. unfold upd. rewrite N.eqb_refl. reflexivity. Qed.
Lemma upd_other {A} (f : N -> A) k v k' : k' <> k -> upd f k v k' = f k'.
Proof. unfold upd. intros H. destruct (N.eqb_spec k' k); congruence. Qed.
Lemma upd2_eq {A} (f : N -> N -> A) k1 k2 v a b :
  upd2 f k1 k2 v a b = if N.eqb a k1 && N.eqb b k2 then v else f a b.
Proof. reflexivity. Qed.

Definition tbl := pkgid -> name -> option addr.
Definition res (own : tbl) (exp : addr -> bool) (uses : pkgid -> list pkgid) (p : pkgid) (n : name) : option addr :=
  match own p n with Some a => Some a | None => inherited own exp (uses p) n end.
(* what a used package q offers under the name n *)
Definition eff (own : tbl) (exp : addr -> bool) (q : pkgid) (n : name) : option addr :=
  match own q n with Some a => if exp a then Some a else None | None => None end.

Lemma resolve_v_res s p n : resolve_v s p n = res (own_v s) (s_vexp s) (s_uses s) p n.
Proof. reflexivity. Qed.
Lemma resolve_f_res s p n : resolve_f s p n = res (own_f s) (s_fexp s) (s_uses s) p n.
Proof. reflexivity. Qed.

Lemma eff_some own exp q n a : eff own exp q n = Some a <-> own q n = Some a /\ exp a = true.
Proof.
  unfold eff. destruct (own q n) as [b|].
  - destruct (exp b) eqn:E.
    + split.
      * intros H; injection H as <-. auto.
      * intros [H _]. exact H.
    + split.
      * discriminate.
      * intros [H H2]. injection H as ->. congruence.
  - split.
    + discriminate.
    + intros [H _]. discriminate.
Qed.
Lemma eff_none own exp q n : eff own exp q n = None <-> (forall a, own q n = Some a -> exp a = false).
Proof.
  unfold eff. destruct (own q n) as [b|].
  - destruct (exp b) eqn:E.
    + split.
      * discriminate.
      * intros H. specialize (H b eq_refl). congruence.
    + split.
      * intros _ a Ha. congruence.
      * reflexivity.
  - split.
    + intros _ a Ha. discriminate.
    + reflexivity.
Qed.

Lemma inherited_cons (own : tbl) exp q us n :
  inherited own exp (q :: us) n = match eff own exp q n with Some a => Some a | None => inherited own exp us n end.
Proof. cbn. unfold eff. destruct (own q n) as [a|]; [destruct (exp a)|]; reflexivity. Qed.

Lemma inherited_ext (own : tbl) exp (own' : tbl) exp' us n :
  (forall q, In q us -> eff own exp q n = eff own' exp' q n) ->
  inherited own exp us n = inherited own' exp' us n.
Proof.
  induction us as [|q us IH]; intros H; [reflexivity|]. rewrite !inherited_cons, <- (H q (or_introl eq_refl)).
  rewrite IH; [reflexivity|]. intros q' Hq'. apply H. right; exact Hq'.
Qed.
Lemma inherited_app (own : tbl) exp us1 us2 n :
  inherited own exp (us1 ++ us2) n =
  match inherited own exp us1 n with Some a => Some a | None => inherited own exp us2 n end.
Proof.
  induction us1 as [|q us IH]; [reflexivity|]. rewrite <- app_comm_cons, !inherited_cons.
  destruct (eff own exp q n); [reflexivity|exact IH].
Qed.
Lemma inherited_cases (own : tbl) exp us n :
  (inherited own exp us n = None /\ forall q, In q us -> eff own exp q n = None) \/
  (exists b q, inherited own exp us n = Some b /\ In q us /\ eff own exp q n = Some b).
Proof.
  induction us as [|q us IH]; [left; split; [reflexivity|intros ? []]|]. rewrite inherited_cons.
  destruct (eff own exp q n) as [b|] eqn:E.
  - right. exists b, q. cbn; auto.
  - destruct IH as [[H1 H2]|(b & q' & H1 & H2 & H3)].
    + left. split; [exact H1|]. intros q' [<-|Hq]; auto.
    + right. exists b, q'. cbn; auto.
Qed.

Lemma res_own own exp uses p n a : own p n = Some a -> res own exp uses p n = Some a.
Proof. unfold res. intros ->. reflexivity. Qed.
Lemma res_cases own exp uses u n :
  own u n = None ->
  (res own exp uses u n = None /\ forall q, In q (uses u) -> eff own exp q n = None) \/
  (exists b q, res own exp uses u n = Some b /\ In q (uses u) /\ eff own exp q n = Some b).
Proof. unfold res. intros ->. apply inherited_cases. Qed.
Lemma res_some_inv own exp uses u n a :
  res own exp uses u n = Some a ->
  own u n = Some a \/ (own u n = None /\ exists q, In q (uses u) /\ eff own exp q n = Some a).
Proof.
  destruct (own u n) as [b|] eqn:E.
  - rewrite (res_own _ _ _ _ _ _ E). auto.
  - intros H. right. split; [reflexivity|]. destruct (res_cases own exp uses u n E) as [[H1 _]|(b & q & H1 & H2 & H3)]; [congruence|].
    exists q. split; [exact H2|]. congruence.
Qed.
Lemma res_none_inv own exp uses u n :
  res own exp uses u n = None -> own u n = None /\ forall q, In q (uses u) -> eff own exp q n = None.
Proof.
  destruct (own u n) as [b|] eqn:E.
  - rewrite (res_own _ _ _ _ _ _ E). discriminate.
  - intros H. split; [reflexivity|]. destruct (res_cases own exp uses u n E) as [[_ H2]|(b & q & H1 & _)]; [exact H2|congruence].
Qed.
Lemma res_none_intro own exp uses u n :
  own u n = None -> (forall q, In q (uses u) -> eff own exp q n = None) -> res own exp uses u n = None.
Proof.
  intros E H. destruct (res_cases own exp uses u n E) as [[H1 _]|(b & q & _ & H2 & H3)]; [exact H1|].
  rewrite (H q H2) in H3. discriminate.
Qed.
Lemma res_not_none own exp uses u n q a :
  In q (uses u) -> eff own exp q n = Some a -> res own exp uses u n <> None.
Proof.
  intros Hq He H. apply res_none_inv in H. destruct H as [_ H]. rewrite (H q Hq) in He. discriminate.
Qed.

(* the resolution only depends on the own table at that name, the offers of the used packages, the list *)
Lemma res_ext own exp uses own' exp' uses' u n :
  own u n = own' u n -> uses u = uses' u ->
  (forall q, In q (uses u) -> eff own exp q n = eff own' exp' q n) ->
  res own exp uses u n = res own' exp' uses' u n.
Proof.
  intros H1 H2 H3. unfold res. rewrite <- H1, <- H2. destruct (own u n); [reflexivity|]. apply inherited_ext, H3.
Qed.

Definition inj (own : tbl) : Prop :=
  forall p n p' n' a, own p n = Some a -> own p' n' = Some a -> p = p' /\ n = n'.
(* every exported own cell of a used package is what the user resolves that name to (so: at most one
   used package offers a name, and none offers a name the user owns) *)
Definition vis (good : name -> bool) (own : tbl) (exp : addr -> bool) (uses : pkgid -> list pkgid) : Prop :=
  forall u q n a, good n = true -> In q (uses u) -> eff own exp q n = Some a -> res own exp uses u n = Some a.
Definition noself (uses : pkgid -> list pkgid) : Prop := forall p, ~ In p (uses p).

(* ---- a package starts using another ---- *)
Section Use.
  Variables (own : tbl) (exp : addr -> bool) (uses uses' : pkgid -> list pkgid) (p0 q0 : pkgid).
  Hypothesis Hu0 : uses' p0 = uses p0 ++ [q0].
  Hypothesis Hu1 : forall u, u <> p0 -> uses' u = uses u.

  Lemma res_use_other u n : u <> p0 -> res own exp uses' u n = res own exp uses u n.
  Proof. intros H. unfold res. rewrite (Hu1 u H). reflexivity. Qed.
  Lemma res_use_self n :
    res own exp uses' p0 n =
    match res own exp uses p0 n with Some a => Some a | None => eff own exp q0 n end.
  Proof.
    unfold res. rewrite Hu0, inherited_app. destruct (own p0 n); [reflexivity|].
    destruct (inherited own exp (uses p0) n); [reflexivity|]. rewrite inherited_cons.
    destruct (eff own exp q0 n); reflexivity.
  Qed.
  Lemma vis_use good :
    vis good own exp uses ->
    (forall n a, good n = true -> eff own exp q0 n = Some a -> res own exp uses p0 n = None) ->
    vis good own exp uses'.
  Proof.
    intros V G u q n a Hg Hq He. destruct (N.eq_dec u p0) as [->|Hne].
    - rewrite res_use_self. rewrite Hu0 in Hq. apply in_app_or in Hq. destruct Hq as [Hq|[<-|[]]].
      + rewrite (V _ _ _ _ Hg Hq He). reflexivity.
      + rewrite (G _ _ Hg He). exact He.
    - rewrite res_use_other by exact Hne. rewrite (Hu1 u Hne) in Hq. exact (V _ _ _ _ Hg Hq He).
  Qed.
End Use.

(* ---- a fresh cell a0 becomes the own cell of (p0, n0) ---- *)
Section New.
  Variables (own own' : tbl) (exp exp' : addr -> bool) (uses : pkgid -> list pkgid) (p0 : pkgid) (n0 : name) (a0 : addr).
  Hypothesis Hfresh : forall p n, own p n <> Some a0.
  Hypothesis Hnone : own p0 n0 = None.
  Hypothesis Hown0 : own' p0 n0 = Some a0.
  Hypothesis Hown1 : forall p n, ~ (p = p0 /\ n = n0) -> own' p n = own p n.
  Hypothesis Hexp : forall a, a <> a0 -> exp' a = exp a.

  Lemma eff_new q n : ~ (q = p0 /\ n = n0) -> eff own' exp' q n = eff own exp q n.
  Proof.
    intros H. unfold eff. rewrite (Hown1 _ _ H). destruct (own q n) as [a|] eqn:E; [|reflexivity].
    rewrite Hexp; [reflexivity|]. intros ->. exact (Hfresh _ _ E).
  Qed.
  Lemma res_new_self : res own' exp' uses p0 n0 = Some a0.
  Proof. apply res_own, Hown0. Qed.
  Lemma res_new_name u n : n <> n0 -> res own' exp' uses u n = res own exp uses u n.
  Proof.
    intros H. symmetry. apply res_ext; [symmetry; apply Hown1; tauto|reflexivity|].
    intros q _. symmetry. apply eff_new. tauto.
  Qed.
  Lemma res_new_private u n : exp' a0 = false -> ~ (u = p0 /\ n = n0) -> res own' exp' uses u n = res own exp uses u n.
  Proof.
    intros He H. symmetry. apply res_ext; [symmetry; apply Hown1; exact H|reflexivity|].
    intros q _. destruct (N.eq_dec q p0) as [->|Hq]; [destruct (N.eq_dec n n0) as [->|Hn]|].
    - unfold eff. rewrite Hnone, Hown0, He. reflexivity.
    - symmetry. apply eff_new. tauto.
    - symmetry. apply eff_new. tauto.
  Qed.
  Lemma res_new_mono u n : res own exp uses u n <> None -> res own' exp' uses u n <> None.
  Proof.
    intros H. destruct (res own exp uses u n) as [a|] eqn:E; [clear H|congruence].
    apply res_some_inv in E. destruct E as [E|(E & q & Hq & He)].
    - assert (Hne : ~ (u = p0 /\ n = n0)) by (intros [-> ->]; congruence).
      rewrite (res_own _ _ _ _ _ a); [discriminate|]. rewrite Hown1; assumption.
    - assert (Hne : ~ (q = p0 /\ n = n0)).
      { intros [-> ->]. apply eff_some in He. destruct He; congruence. }
      destruct (own' u n) as [b|] eqn:Eo; [rewrite (res_own _ _ _ _ _ _ Eo); discriminate|].
      eapply res_not_none; [exact Hq|]. rewrite eff_new; eassumption.
  Qed.
  Lemma inj_new : inj own -> inj own'.
  Proof.
    intros I p n p' n' a H1 H2.
    destruct (N.eq_dec p p0) as [->|Hp]; [destruct (N.eq_dec n n0) as [->|Hn]|];
    (destruct (N.eq_dec p' p0) as [->|Hp']; [destruct (N.eq_dec n' n0) as [->|Hn']|]); auto;
    try (rewrite Hown0 in H1; injection H1 as <-); try (rewrite Hown0 in H2; injection H2 as <-);
    try (rewrite Hown1 in H1 by tauto); try (rewrite Hown1 in H2 by tauto);
    try (exfalso; eapply Hfresh; eassumption); eapply I; eassumption.
  Qed.
  Lemma vis_new_private good :
    exp' a0 = false -> res own exp uses p0 n0 = None -> vis good own exp uses -> vis good own' exp' uses.
  Proof.
    intros He Hr V u q n a Hg Hq Hf.
    assert (Hne : ~ (q = p0 /\ n = n0)).
    { intros [-> ->]. apply eff_some in Hf. destruct Hf as [Hf1 Hf2]. rewrite Hown0 in Hf1. injection Hf1 as <-. congruence. }
    rewrite eff_new in Hf by exact Hne. pose proof (V _ _ _ _ Hg Hq Hf) as Hv.
    rewrite res_new_private; [exact Hv|exact He|]. intros [-> ->]. congruence.
  Qed.
  Lemma vis_new_name good : good n0 = false -> vis good own exp uses -> vis good own' exp' uses.
  Proof.
    intros Hg V u q n a Hgn Hq Hf. assert (Hn : n <> n0) by (intros ->; congruence).
    rewrite eff_new in Hf by tauto. rewrite res_new_name by exact Hn. eapply V; eassumption.
  Qed.
End New.

Lemma res_ext_own (own own' : tbl) exp us p n :
  (forall p n, own p n = own' p n) -> res own exp us p n = res own' exp us p n.
Proof. intros H. apply res_ext; auto. intros q _. unfold eff. rewrite H. reflexivity. Qed.
Lemma vis_ext_own good (own own' : tbl) exp us :
  (forall p n, own p n = own' p n) -> vis good own exp us -> vis good own' exp us.
Proof.
  intros H V u q n a Hg Hq Hf. rewrite <- (res_ext_own own own' exp us u n H). apply (V u q n a Hg Hq).
  unfold eff in *. rewrite H. exact Hf.
Qed.
Lemma inj_ext_own (own own' : tbl) : (forall p n, own p n = own' p n) -> inj own -> inj own'.
Proof. intros H I p n p' n' a H1 H2. rewrite <- H in H1, H2. eapply I; eassumption. Qed.

(* ---- the export flag of the own cell a0 of (p0, n0) flips ---- *)
Section Flag.
  Variables (own : tbl) (exp exp' : addr -> bool) (uses : pkgid -> list pkgid) (p0 : pkgid) (n0 : name) (a0 : addr).
  Hypothesis Hown : own p0 n0 = Some a0.
  Hypothesis Hinj : inj own.
  Hypothesis Hexp : forall a, a <> a0 -> exp' a = exp a.

  Lemma eff_flag q n : ~ (q = p0 /\ n = n0) -> eff own exp' q n = eff own exp q n.
  Proof.
    intros H. unfold eff. destruct (own q n) as [a|] eqn:E; [|reflexivity].
    rewrite Hexp; [reflexivity|]. intros ->. apply H. eapply Hinj; eassumption.
  Qed.
  Lemma res_flag_name u n : n <> n0 -> res own exp' uses u n = res own exp uses u n.
  Proof. intros H. apply res_ext; auto. intros q _. apply eff_flag. tauto. Qed.
  Lemma res_flag_nonuser u n : ~ In p0 (uses u) -> res own exp' uses u n = res own exp uses u n.
  Proof. intros H. apply res_ext; auto. intros q Hq. apply eff_flag. intros [-> _]. auto. Qed.
  Lemma res_flag_same u n : exp' a0 = exp a0 -> res own exp' uses u n = res own exp uses u n.
  Proof.
    intros H. apply res_ext; auto. intros q _. unfold eff. destruct (own q n) as [a|]; [|reflexivity].
    destruct (N.eq_dec a a0) as [->|Ha]; [rewrite H|rewrite Hexp by exact Ha]; reflexivity.
  Qed.

  Lemma res_flag_on u :
    exp' a0 = true -> In p0 (uses u) ->
    res own exp uses u n0 = None \/ res own exp uses u n0 = Some a0 ->
    res own exp' uses u n0 = Some a0.
  Proof.
    intros He Hu Hg. destruct (own u n0) as [b|] eqn:Eo.
    - rewrite (res_own own exp' uses _ _ _ Eo). rewrite (res_own own exp uses _ _ _ Eo) in Hg. destruct Hg; congruence.
    - assert (Hp0 : eff own exp' p0 n0 = Some a0) by (apply eff_some; auto).
      destruct (res_cases own exp' uses u n0 Eo) as [[_ H2]|(b & q & H1 & H2 & H3)].
      + rewrite (H2 p0 Hu) in Hp0. discriminate.
      + rewrite H1. destruct (N.eq_dec q p0) as [->|Hq]; [congruence|].
        rewrite eff_flag in H3 by tauto.
        destruct Hg as [Hg|Hg]; [exfalso; eapply res_not_none; eassumption|].
        pose proof Hg as Hg'. apply res_some_inv in Hg'. destruct Hg' as [Hg'|(_ & q' & Hq' & Hf)]; [congruence|].
        apply eff_some in Hf. destruct Hf as [_ Hf].
        rewrite <- H1, res_flag_same by congruence. exact Hg.
  Qed.
  Lemma vis_flag_on good :
    exp' a0 = true -> vis good own exp uses ->
    (forall u, In p0 (uses u) -> res own exp uses u n0 = None \/ res own exp uses u n0 = Some a0) ->
    vis good own exp' uses.
  Proof.
    intros He V G u q n a Hg Hq Hf.
    destruct (N.eq_dec q p0) as [->|Hq0]; [destruct (N.eq_dec n n0) as [->|Hn]|].
    - apply eff_some in Hf. destruct Hf as [Hf _]. rewrite Hown in Hf. injection Hf as <-.
      apply res_flag_on; auto.
    - rewrite eff_flag in Hf by tauto. rewrite res_flag_name by exact Hn. eapply V; eassumption.
    - rewrite eff_flag in Hf by tauto. pose proof (V _ _ _ _ Hg Hq Hf) as Hv.
      destruct (N.eq_dec n n0) as [->|Hn]; [|rewrite res_flag_name by exact Hn; exact Hv].
      destruct (in_dec N.eq_dec p0 (uses u)) as [Hi|Hi]; [|rewrite res_flag_nonuser by exact Hi; exact Hv].
      exfalso. apply eff_some in Hf. destruct Hf as [Hf _].
      destruct (G u Hi) as [Hg'|Hg']; [congruence|]. rewrite Hv in Hg'. injection Hg' as ->.
      apply Hq0. eapply proj1, Hinj; eassumption.
  Qed.

  Section Off.
    Variable good : name -> bool.
    Hypothesis Hgood : good n0 = true.
    Hypothesis He : exp' a0 = false.
    Hypothesis V : vis good own exp uses.

    Lemma eff_flag_off_p0 : eff own exp' p0 n0 = None.
    Proof. apply eff_none. intros a Ha. congruence. Qed.
    Lemma res_flag_off_a0 u : u <> p0 -> res own exp uses u n0 = Some a0 -> res own exp' uses u n0 = None.
    Proof.
      intros Hu Hr. assert (Eo : own u n0 = None).
      { destruct (own u n0) as [b|] eqn:Eo; [|reflexivity]. rewrite (res_own _ _ _ _ _ _ Eo) in Hr. injection Hr as ->.
        exfalso. apply Hu. eapply proj1, Hinj; eassumption. }
      apply res_none_intro; [exact Eo|]. intros q Hq. destruct (N.eq_dec q p0) as [->|Hq0]; [apply eff_flag_off_p0|].
      rewrite eff_flag by tauto. destruct (eff own exp q n0) as [b|] eqn:Ef; [|reflexivity].
      exfalso. pose proof (V _ _ _ _ Hgood Hq Ef) as Hv. rewrite Hr in Hv. injection Hv as <-.
      apply eff_some in Ef. destruct Ef as [Ef _]. apply Hq0. eapply proj1, Hinj; eassumption.
    Qed.
    Lemma res_flag_off_other u b : res own exp uses u n0 = Some b -> b <> a0 -> res own exp' uses u n0 = Some b.
    Proof.
      intros Hr Hb. pose proof Hr as Hr'. apply res_some_inv in Hr'. destruct Hr' as [Eo|(Eo & q & Hq & Hf)]; [apply res_own, Eo|].
      assert (Hq0 : q <> p0) by (intros ->; apply eff_some in Hf; destruct Hf; congruence).
      destruct (res_cases own exp' uses u n0 Eo) as [[_ H2]|(c & q' & H1 & H2 & H3)].
      - specialize (H2 q Hq). rewrite eff_flag in H2 by tauto. congruence.
      - rewrite H1. f_equal. assert (Hq0' : q' <> p0) by (intros ->; rewrite eff_flag_off_p0 in H3; discriminate).
        rewrite eff_flag in H3 by tauto. pose proof (V _ _ _ _ Hgood H2 H3). congruence.
    Qed.
    Lemma res_flag_off_none u : res own exp uses u n0 = None -> res own exp' uses u n0 = None.
    Proof.
      intros Hr. apply res_none_inv in Hr. destruct Hr as [Eo Hr]. apply res_none_intro; [exact Eo|].
      intros q Hq. destruct (N.eq_dec q p0) as [->|Hq0]; [apply eff_flag_off_p0|]. rewrite eff_flag by tauto. auto.
    Qed.
    Lemma vis_flag_off : vis good own exp' uses.
    Proof.
      intros u q n a Hg Hq Hf.
      assert (Hne : ~ (q = p0 /\ n = n0)) by (intros [-> ->]; rewrite eff_flag_off_p0 in Hf; discriminate).
      rewrite eff_flag in Hf by exact Hne. pose proof (V _ _ _ _ Hg Hq Hf) as Hv.
      destruct (N.eq_dec n n0) as [->|Hn]; [|rewrite res_flag_name by exact Hn; exact Hv].
      apply res_flag_off_other; [exact Hv|]. intros ->. apply eff_some in Hf. destruct Hf as [Hf _].
      apply Hne. eapply Hinj; eassumption.
    Qed.
  End Off.
End Flag.

(* ---- the own cell a0 of (p0, n0) is removed ---- *)
Section Remove.
  Variables (own own' : tbl) (exp : addr -> bool) (uses : pkgid -> list pkgid) (p0 : pkgid) (n0 : name) (a0 : addr).
  Hypothesis Hown : own p0 n0 = Some a0.
  Hypothesis Hinj : inj own.
  Hypothesis Hown0 : own' p0 n0 = None.
  Hypothesis Hown1 : forall p n, ~ (p = p0 /\ n = n0) -> own' p n = own p n.

  Lemma eff_rm q n : ~ (q = p0 /\ n = n0) -> eff own' exp q n = eff own exp q n.
  Proof. intros H. unfold eff. rewrite Hown1 by exact H. reflexivity. Qed.
  Lemma eff_rm_p0 : eff own' exp p0 n0 = None.
  Proof. unfold eff. rewrite Hown0. reflexivity. Qed.
  Lemma res_rm_name u n : n <> n0 -> res own' exp uses u n = res own exp uses u n.
  Proof. intros H. apply res_ext; auto; [apply Hown1; tauto|]. intros q _. apply eff_rm. tauto. Qed.
  Lemma res_rm_nonuser u n : u <> p0 -> ~ In p0 (uses u) -> res own' exp uses u n = res own exp uses u n.
  Proof. intros H Hi. apply res_ext; auto; [apply Hown1; tauto|]. intros q Hq. apply eff_rm. intros [-> _]. auto. Qed.
  Lemma inj_rm : inj own'.
  Proof.
    intros p n p' n' a H1 H2.
    assert (~ (p = p0 /\ n = n0)) by (intros [-> ->]; congruence).
    assert (~ (p' = p0 /\ n' = n0)) by (intros [-> ->]; congruence).
    rewrite Hown1 in H1, H2 by assumption. eapply Hinj; eassumption.
  Qed.

  Section WithVis.
    Variable good : name -> bool.
    Hypothesis Hgood : good n0 = true.
    Hypothesis V : vis good own exp uses.
    Hypothesis Hns : noself uses.

    Lemma res_rm_self : res own' exp uses p0 n0 = None.
    Proof.
      apply res_none_intro; [exact Hown0|]. intros q Hq.
      assert (Hq0 : q <> p0) by (intros ->; exact (Hns _ Hq)).
      rewrite eff_rm by tauto. destruct (eff own exp q n0) as [b|] eqn:Ef; [|reflexivity].
      exfalso. pose proof (V _ _ _ _ Hgood Hq Ef) as Hv. rewrite (res_own _ _ _ _ _ _ Hown) in Hv. injection Hv as <-.
      apply eff_some in Ef. destruct Ef as [Ef _]. apply Hq0. eapply proj1, Hinj; eassumption.
    Qed.
    Lemma res_rm_a0 u : u <> p0 -> res own exp uses u n0 = Some a0 -> res own' exp uses u n0 = None.
    Proof.
      intros Hu Hr. assert (Eo : own u n0 = None).
      { destruct (own u n0) as [b|] eqn:Eo; [|reflexivity]. rewrite (res_own _ _ _ _ _ _ Eo) in Hr. injection Hr as ->.
        exfalso. apply Hu. eapply proj1, Hinj; eassumption. }
      apply res_none_intro; [rewrite Hown1 by tauto; exact Eo|]. intros q Hq.
      destruct (N.eq_dec q p0) as [->|Hq0]; [apply eff_rm_p0|].
      rewrite eff_rm by tauto. destruct (eff own exp q n0) as [b|] eqn:Ef; [|reflexivity].
      exfalso. pose proof (V _ _ _ _ Hgood Hq Ef) as Hv. rewrite Hr in Hv. injection Hv as <-.
      apply eff_some in Ef. destruct Ef as [Ef _]. apply Hq0. eapply proj1, Hinj; eassumption.
    Qed.
    Lemma res_rm_other u b : u <> p0 -> res own exp uses u n0 = Some b -> b <> a0 -> res own' exp uses u n0 = Some b.
    Proof.
      intros Hu Hr Hb. pose proof Hr as Hr'. apply res_some_inv in Hr'. destruct Hr' as [Eo|(Eo & q & Hq & Hf)].
      - apply res_own. rewrite Hown1 by tauto. exact Eo.
      - assert (Hq0 : q <> p0) by (intros ->; apply eff_some in Hf; destruct Hf; congruence).
        assert (Eo' : own' u n0 = None) by (rewrite Hown1 by tauto; exact Eo).
        destruct (res_cases own' exp uses u n0 Eo') as [[_ H2]|(c & q' & H1 & H2 & H3)].
        + specialize (H2 q Hq). rewrite eff_rm in H2 by tauto. congruence.
        + rewrite H1. f_equal. assert (Hq0' : q' <> p0) by (intros ->; rewrite eff_rm_p0 in H3; discriminate).
          rewrite eff_rm in H3 by tauto. pose proof (V _ _ _ _ Hgood H2 H3). congruence.
    Qed.
    Lemma res_rm_none u : u <> p0 -> res own exp uses u n0 = None -> res own' exp uses u n0 = None.
    Proof.
      intros Hu Hr. apply res_none_inv in Hr. destruct Hr as [Eo Hr]. apply res_none_intro; [rewrite Hown1 by tauto; exact Eo|].
      intros q Hq. destruct (N.eq_dec q p0) as [->|Hq0]; [apply eff_rm_p0|]. rewrite eff_rm by tauto. auto.
    Qed.
    Lemma vis_rm : vis good own' exp uses.
    Proof.
      intros u q n a Hg Hq Hf.
      assert (Hne : ~ (q = p0 /\ n = n0)) by (intros [-> ->]; rewrite eff_rm_p0 in Hf; discriminate).
      rewrite eff_rm in Hf by exact Hne. pose proof (V _ _ _ _ Hg Hq Hf) as Hv.
      destruct (N.eq_dec n n0) as [->|Hn]; [|rewrite res_rm_name by exact Hn; exact Hv].
      assert (Ha : a <> a0).
      { intros ->. apply eff_some in Hf. destruct Hf as [Hf _]. apply Hne. eapply Hinj; eassumption. }
      apply res_rm_other; [|exact Hv|exact Ha].
      intros ->. rewrite (res_own _ _ _ _ _ _ Hown) in Hv. congruence.
    Qed.
  End WithVis.
End Remove.

(* ---- additions for the repaired code: no `vis` needed ---- *)
Section New2.
  Variables (own own' : tbl) (exp exp' : addr -> bool) (uses : pkgid -> list pkgid) (p0 : pkgid) (n0 : name) (a0 : addr).
  Hypothesis Hfresh : forall p n, own p n <> Some a0.
  Hypothesis Hown1 : forall p n, ~ (p = p0 /\ n = n0) -> own' p n = own p n.
  Hypothesis Hexp : forall a, a <> a0 -> exp' a = exp a.
  Lemma eff_new2 q n : ~ (q = p0 /\ n = n0) -> eff own' exp' q n = eff own exp q n.
  Proof.
    intros H. unfold eff. rewrite (Hown1 _ _ H). destruct (own q n) as [a|] eqn:E; [|reflexivity].
    rewrite Hexp; [reflexivity|]. intros ->. exact (Hfresh _ _ E).
  Qed.
  Lemma res_new_nonuser u n : u <> p0 -> ~ In p0 (uses u) -> res own' exp' uses u n = res own exp uses u n.
  Proof.
    intros Hu Hi. symmetry. apply res_ext; [symmetry; apply Hown1; tauto|reflexivity|].
    intros q Hq. symmetry. apply eff_new2. intros [-> _]. auto.
  Qed.
  Lemma res_new_name2 u n : n <> n0 -> res own' exp' uses u n = res own exp uses u n.
  Proof.
    intros H. symmetry. apply res_ext; [symmetry; apply Hown1; tauto|reflexivity|].
    intros q _. symmetry. apply eff_new2. tauto.
  Qed.
End New2.

Lemma inherited_tbl_ext (T T' : tbl) exp us n :
  (forall q, T q n = T' q n) -> inherited T exp us n = inherited T' exp us n.
Proof. intros H. apply inherited_ext. intros q _. unfold eff. rewrite H. reflexivity. Qed.
Lemma inherited_all_none (T : tbl) exp us n : (forall q, T q n = None) -> inherited T exp us n = None.
Proof. intros H. induction us as [|q us IH]; [reflexivity|]. cbn. rewrite H. exact IH. Qed.

(* remove1 on duplicate-free lists *)
Lemma remove1_in x y l : In y (remove1 x l) -> In y l.
Proof.
  induction l as [|z l IH]; cbn; [tauto|]. destruct (N.eqb_spec x z) as [->|Hz]; [auto|].
  intros [<-|H]; auto.
Qed.
Lemma remove1_in_other x y l : y <> x -> In y l -> In y (remove1 x l).
Proof.
  intros Hy. induction l as [|z l IH]; cbn; [tauto|]. destruct (N.eqb_spec x z) as [->|Hz].
  - intros [<-|H]; [congruence|exact H].
  - intros [<-|H]; [left; reflexivity|right; auto].
Qed.
Lemma remove1_nodup x l : NoDup l -> NoDup (remove1 x l) /\ ~ In x (remove1 x l).
Proof.
  induction l as [|z l IH]; cbn; intros Hn; [split; [constructor|tauto]|].
  inversion Hn as [|? ? Hz Hl]; subst. destruct (N.eqb_spec x z) as [->|Hxz]; [split; assumption|].
  destruct (IH Hl) as [H1 H2]. split.
  - constructor; [|exact H1]. intros Hi. apply Hz. eapply remove1_in; eassumption.
  - intros [E|Hi]; [congruence|tauto].
Qed.
Lemma mem_remove1_same x l : NoDup l -> mem x (remove1 x l) = false.
Proof. intros H. apply mem_nIn. apply (remove1_nodup x l H). Qed.
Lemma mem_remove1_other x y l : y <> x -> mem y (remove1 x l) = mem y l.
Proof.
  intros Hy. destruct (mem y l) eqn:E.
  - apply mem_In. apply remove1_in_other; [exact Hy|]. apply mem_In, E.
  - apply mem_nIn. intros Hi. apply remove1_in in Hi. apply mem_In in Hi. congruence.
Qed.
Lemma NoDup_app_single (x : N) l : NoDup l -> ~ In x l -> NoDup (l ++ [x]).
Proof.
  induction l as [|y l IH]; cbn; intros Hn Hx; [constructor; [tauto|constructor]|].
  inversion Hn as [|? ? Hy Hl]; subst. constructor.
  - intros Hi. apply in_app_or in Hi. destruct Hi as [Hi|[<-|[]]]; tauto.
  - apply IH; tauto.
Qed.
