(* C13 — qualified writes (xop): the refinement M = S extended to histories with (setq p:n v), (setq p::n v),
   (defvar p:n v), (defvar p::n v); the one refutation; non-vacuity. *)
From C13 Require Import Model Spec Corr Proofs ProofsRes ProofsRefine.
Open Scope N_scope.

Section X.
  Variables (P : list pkgid) (NM : list name).

  (* an assignment made "as package p" preserves the relation: three guarded steps of the base theorem *)
  Lemma as_pkg_preserves m s p n v :
    Inv P NM m s -> mem n NM = true -> Inv P NM (as_pkg m p (OSetq n v)) (sas_pkg s p (OSetq n v)).
  Proof.
    intros HI Hn. unfold as_pkg, sas_pkg.
    assert (Hc : cur m = s_cur s) by (destruct HI as (HC & _); exact (c_cur _ _ _ HC)).
    rewrite Hc. apply step_preserves; [|reflexivity]. apply step_preserves; [|exact Hn].
    apply step_preserves; [exact HI|reflexivity].
  Qed.

  Lemma xstep_setq_q m s p n v priv :
    Inv P NM m s -> mem n NM = true -> Inv P NM (setq_q m p n v priv) (s_setq_q s p n v priv).
  Proof.
    intros HI Hn. pose proof HI as (HC & HV & HF).
    unfold setq_q, s_setq_q, set_var_q. rewrite (vtab _ _ _ HV).
    destruct (resolve_v s p n) as [a|]; [|exact HI].
    rewrite (v_heap _ _ _ _ _ _ _ _ HV). destruct (s_vheap s a) as [vv|]; [|exact HI].
    destruct (vv_export vv || priv) eqn:E; [|exact HI].
    replace (vv_export vv || N.eqb (cur m) p || priv) with true
      by (destruct (vv_export vv), priv, (N.eqb (cur m) p); cbn in *; congruence).
    apply as_pkg_preserves; assumption.
  Qed.

  Lemma xstep_defvar_q m s p n v priv :
    Inv P NM m s -> mem n NM = true -> (priv && private_bound_elsewhere s p n) = false ->
    Inv P NM (defvar_q m p n v priv) (s_defvar_q s p n v priv).
  Proof.
    intros HI Hn G. pose proof HI as (HC & HV & HF).
    assert (Hc : cur m = s_cur s) by exact (c_cur _ _ _ HC).
    unfold defvar_q, s_defvar_q, set_var_q, pkg_get, private_bound_elsewhere in *. rewrite (vtab _ _ _ HV).
    destruct (resolve_v s p n) as [a|]; [|apply as_pkg_preserves; assumption].
    rewrite (v_heap _ _ _ _ _ _ _ _ HV). destruct (s_vheap s a) as [vv|]; [|exact HI].
    rewrite Hc. destruct (vv_export vv) eqn:Ee; cbn [orb andb negb] in *.
    - destruct (vv_val vv); [exact HI|apply as_pkg_preserves; assumption].
    - destruct (N.eqb (s_cur s) p) eqn:Ec; cbn [orb andb negb] in *.
      + rewrite Bool.orb_true_r. destruct (vv_val vv); [exact HI|apply as_pkg_preserves; assumption].
      + rewrite Bool.orb_false_r. destruct priv; cbn [orb andb negb] in *; [|exact HI].
        destruct (vv_val vv); [discriminate|apply as_pkg_preserves; assumption].
  Qed.

  Lemma xstep_fmakunbound_q m s p n priv :
    Inv P NM m s ->
    match sq_fun s (s_cur s) p n priv with
    | QUnbound => true
    | _ => guard_step P NM (sstep s (OInPkg p)) (OFmakunbound n)
    end = true ->
    Inv P NM (fmakunbound_q m p n priv) (s_fmakunbound_q s p n priv).
  Proof.
    intros HI G.
    assert (Hc : cur m = s_cur s) by (destruct HI as (HC & _); exact (c_cur _ _ _ HC)).
    unfold fmakunbound_q, s_fmakunbound_q. rewrite Hc, (q_fun_eq P NM m s) by exact HI.
    assert (K : Inv P NM (as_pkg m p (OFmakunbound n)) (sas_pkg s p (OFmakunbound n)) \/
                sq_fun s (s_cur s) p n priv = QUnbound).
    { destruct (sq_fun s (s_cur s) p n priv); [left|right; reflexivity|left|left];
        (unfold as_pkg, sas_pkg; rewrite Hc; apply step_preserves; [|reflexivity];
         apply step_preserves; [|exact G]; apply step_preserves; [exact HI|reflexivity]). }
    destruct K as [K|K]; [|rewrite K; exact HI].
    destruct (sq_fun s (s_cur s) p n priv); try exact K; exact HI.
  Qed.

  (* ---- every guarded step, qualified writes included, preserves the relation ---- *)
  Theorem xstep_preserves m s o :
    Inv P NM m s -> xguard_step P NM s o = true -> Inv P NM (xstep m o) (sxstep s o).
  Proof.
    intros HI G. destruct o as [o|p n v priv|p n v priv|p n priv]; cbn [xstep sxstep xguard_step] in *; [| | |apply xstep_fmakunbound_q; assumption].
    - apply step_preserves; assumption.
    - apply xstep_setq_q; assumption.
    - apply andb_true_iff in G. destruct G as [Hn G]. apply xstep_defvar_q; [assumption|assumption|].
      apply negb_true_iff in G. exact G.
  Qed.

  Theorem xrefinement_prefix PQ VN FN ops : forall m s,
    Inv P NM m s ->
    firstn (xguard_prefix P NM s ops) (xrun PQ VN FN m ops) = firstn (xguard_prefix P NM s ops) (sxrun PQ VN FN s ops).
  Proof.
    induction ops as [|o ops IH]; intros m s HI; [reflexivity|]. cbn [xguard_prefix xrun sxrun].
    destruct (xguard_step P NM s o) eqn:E; [|reflexivity].
    pose proof (xstep_preserves m s o HI E) as HI'.
    cbn [firstn]. rewrite (observe_eq P NM _ _ PQ VN FN HI'), (IH _ _ HI'). reflexivity.
  Qed.
  Theorem xrefinement_run PQ VN FN ops : forall m s,
    Inv P NM m s -> xguard_run P NM s ops = true -> xrun PQ VN FN m ops = sxrun PQ VN FN s ops.
  Proof.
    induction ops as [|o ops IH]; intros m s HI G; [reflexivity|]. cbn in G |- *.
    apply andb_true_iff in G. destruct G as [E2 G].
    pose proof (xstep_preserves m s o HI E2) as HI'. rewrite (observe_eq P NM _ _ PQ VN FN HI'), (IH _ _ HI' G). reflexivity.
  Qed.
End X.

Theorem xrefinement_general P NM :
  forall PQ VN FN p0 ops,
  xguard_run P NM (sinit p0) ops = true ->
  xrun PQ VN FN (init p0) ops = sxrun PQ VN FN (sinit p0) ops.
Proof. intros PQ VN FN p0 ops G. exact (xrefinement_run P NM PQ VN FN ops _ _ (inv_init P NM p0) G). Qed.

Theorem xrefinement_prefix_PK ops :
  let g := xguard_prefix PK NM (sinit 0) ops in
  firstn g (xrun PK VN FN (init 0) ops) = firstn g (sxrun PK VN FN (sinit 0) ops).
Proof. apply (xrefinement_prefix PK NM PK VN FN ops (init 0) (sinit 0)), inv_init. Qed.

Theorem xselfcheck_unreachable c : xcheck_case c <> 3.
Proof.
  unfold xcheck_case. cbv zeta. rewrite xrefinement_prefix_PK.
  rewrite (list_eqb_refl _ (list_eqb_refl _ qres_eqb_refl)).
  destruct (list_eqb _ _ (snd c)); [discriminate|]. destruct (list_eqb _ _ _); discriminate.
Qed.

(* histories without qualified writes: nothing changed *)
Lemma xrun_base P VN FN ops : forall m, xrun P VN FN m (map XB ops) = run P VN FN m ops.
Proof. induction ops as [|o ops IH]; intros m; [reflexivity|]. cbn. rewrite IH. reflexivity. Qed.

(* ---- S itself: a single-colon write never changes a variable the package keeps private (the statement
   seeded change C13-13 breaks), for every state of S and every current package but p itself ---- *)
Open Scope Z_scope.
Theorem s_single_colon_leaves_private s p n v a vv :
  resolve_v s p n = Some a -> s_vheap s a = Some vv -> vv_export vv = false -> N.eqb (s_cur s) p = false ->
  s_setq_q s p n v false = s /\ s_defvar_q s p n v false = s.
Proof.
  intros Hr Hh He Hc. unfold s_setq_q, s_defvar_q. rewrite Hr, Hh, He, Hc. cbn. split; reflexivity.
Qed.
(* and a double-colon defvar never changes a variable that has a value *)
Theorem s_defvar_q_keeps_bound s p n v priv a vv x :
  resolve_v s p n = Some a -> s_vheap s a = Some vv -> vv_val vv = Some x -> s_defvar_q s p n v priv = s.
Proof.
  intros Hr Hh Hv. unfold s_defvar_q. rewrite Hr, Hh, Hv. destruct (_ || _ || _); reflexivity.
Qed.

(* ---- the refutation: (defvar p::n v) from another package overwrites a private variable that has a value.
   History: in package 0 (setq vx 1); in package 1 (defvar 0::vx 9).  M (= the code) answers 9 for 0::vx, S 1. ---- *)
Definition defvar_q_witness : list xop :=
  [XB (OSetq 0%N 1); XB (OInPkg 1%N); XDefvarQ 0%N 0%N 9 true].
Theorem defvar_private_qualified_overwrites_refuted :
  xguard_prefix PK NM (sinit 0%N) defvar_q_witness = 2%nat /\
  list_eqb (list_eqb qres_eqb) (xrun PK VN FN (init 0%N) defvar_q_witness) (sxrun PK VN FN (sinit 0%N) defvar_q_witness) = false /\
  q_var_q (fold_left xstep defvar_q_witness (init 0%N)) 0%N 0%N true = QVal 9 /\
  sq_var_q (fold_left sxstep defvar_q_witness (sinit 0%N)) 0%N 0%N true = QVal 1.
Proof. vm_compute. repeat split. Qed.

(* ---- non-vacuity: a history with all four qualified writes acting (exported / private / unbound / absent
   targets) lies inside the guard, and the writes do change the state ---- *)
Definition xnonvac : list xop :=
  [XB (OSetq 0%N 1); XB (OExport 0%N 0%N); XB (OSetq 1%N 2); XB (OExport 3%N 0%N); XB (OInPkg 1%N);
   XSetqQ 0%N 0%N 3 false; XSetqQ 0%N 1%N 4 false; XSetqQ 0%N 1%N 5 true;
   XDefvarQ 0%N 0%N 6 false; XDefvarQ 0%N 1%N 7 false; XDefvarQ 2%N 1%N 8 false; XDefvarQ 0%N 3%N 9 true].
Theorem xguard_nonvacuous :
  xguard_run PK NM (sinit 0%N) xnonvac = true /\
  (let s := fold_left sxstep xnonvac (sinit 0%N) in
   sq_var_q s 0%N 0%N false = QVal 3 /\ sq_var_q s 0%N 1%N true = QVal 5 /\ sq_var_q s 2%N 1%N true = QVal 8).
Proof. vm_compute. repeat split. Qed.

(* ---- the other resolvers of a function name (fboundp, symbol-function, function, fdefinition,
   function-lambda-expression; repaired by C13-14): their masks are a function of the call answers, so the
   refinement carries over to them on every guarded prefix ---- *)
Theorem frefinement_prefix_PK ops :
  let g := xguard_prefix PK NM (sinit 0%N) ops in
  firstn g (map fobserve (xrun PK VN FN (init 0%N) ops)) = firstn g (map fobserve (sxrun PK VN FN (sinit 0%N) ops)).
Proof. cbv zeta. rewrite !firstn_map. rewrite xrefinement_prefix_PK. reflexivity. Qed.
(* what a mask list is: for every current package c and function name n, the mask of n, then of p:n and p::n
   for every package p -- the resolution q_fun of the call (FindFunc) *)
Lemma fobserve_observe s :
  fobserve (observe PK VN FN s) =
  flat_map (fun c => flat_map (fun n => res_mask (q_fun s c c n false) ::
     flat_map (fun p => [res_mask (q_fun s c p n false); res_mask (q_fun s c p n true)]) PK) FN) PK.
Proof. reflexivity. Qed.
Lemma fobserve_sobserve s :
  fobserve (sobserve PK VN FN s) =
  flat_map (fun c => flat_map (fun n => res_mask (sq_fun s c c n false) ::
     flat_map (fun p => [res_mask (sq_fun s c p n false); res_mask (sq_fun s c p n true)]) PK) FN) PK.
Proof. reflexivity. Qed.
Lemma Neqb_refl' : forall a : N, N.eqb a a = true. Proof. exact N.eqb_refl. Qed.
Theorem fselfcheck_unreachable c : fcheck_case c <> 3%N.
Proof.
  unfold fcheck_case. cbv zeta.
  destruct (negb (N.eqb (xcheck_case (fst c)) 0)); [apply xselfcheck_unreachable|].
  rewrite frefinement_prefix_PK.
  rewrite (list_eqb_refl _ (list_eqb_refl _ Neqb_refl')).
  destruct (list_eqb _ _ (snd c)); [discriminate|]. destruct (list_eqb _ _ _); discriminate.
Qed.
(* the code before C13-14 refuted: after (defun vf () 1) in package 0 the specification resolves 0::vf
   (mask 31: every resolver must find it) while fboundp / symbol-function of the unrepaired code answered
   "undefined" on every qualified name (mask 28) *)
Theorem original_fboundp_qualified_refuted :
  let ops := [XB (ODefun 2%N 1)] in
  xguard_prefix PK NM (sinit 0%N) ops = 1%nat /\
  sq_fun (fold_left sxstep ops (sinit 0%N)) 1%N 0%N 2%N true = QVal 1 /\
  res_mask (sq_fun (fold_left sxstep ops (sinit 0%N)) 1%N 0%N 2%N true) = 31%N /\
  res_mask_orig true (q_fun (fold_left xstep ops (init 0%N)) 1%N 0%N 2%N true) = 28%N.
Proof. vm_compute. repeat split. Qed.

(* ---- qualified fmakunbound: inside the guard, and it acts: (fmakunbound '0::vf) from package 1 removes the
   private function of package 0, (fmakunbound '0:vf) from package 1 leaves it (the name is not visible);
   the unrepaired code (fmakunbound_q_orig: nothing happens) differs from S on the first history ---- *)
Theorem fmakunbound_q_nonvacuous :
  let two := [XB (ODefun 2%N 1); XB (OInPkg 1%N); XFmakunboundQ 0%N 2%N true] in
  let one := [XB (ODefun 2%N 1); XB (OInPkg 1%N); XFmakunboundQ 0%N 2%N false] in
  xguard_run PK NM (sinit 0%N) two = true /\ xguard_run PK NM (sinit 0%N) one = true /\
  sq_fun (fold_left sxstep two (sinit 0%N)) 1%N 0%N 2%N true = QUnbound /\
  q_fun (fold_left xstep two (init 0%N)) 1%N 0%N 2%N true = QUnbound /\
  sq_fun (fold_left sxstep one (sinit 0%N)) 1%N 0%N 2%N true = QVal 1 /\
  q_fun (fmakunbound_q_orig (fold_left xstep [XB (ODefun 2%N 1); XB (OInPkg 1%N)] (init 0%N)) 0%N 2%N true) 1%N 0%N 2%N true = QVal 1.
Proof. vm_compute. repeat split. Qed.
