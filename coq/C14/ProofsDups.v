(* C14 — remove-duplicates / delete-duplicates: M = S on the guard. *)
From C14 Require Import Base Model Spec ProofsScan ProofsReverse ProofsRemove.
From Coq Require Import Arith.

(* the loop of delete-duplicates.go on the elements inside the bounds: every key examined goes to uniq *)
Fixpoint dup_vals (t : testarg) (k : option keyfn) (xs uniq : list Z) : list Z :=
  match xs with
  | [] => []
  | x :: r => let kx := key_app k x in
              if existsb (fun u => dup_test t kx u) uniq then dup_vals t k r (uniq ++ [kx])
              else x :: dup_vals t k r (uniq ++ [kx])
  end.

Lemma dup_loop_outside : forall t k start e ps uniq rest,
  outside start e ps ->
  dup_loop t k start e (ps ++ rest) uniq = map snd ps ++ dup_loop t k start e rest uniq.
Proof.
  induction ps as [|[i x] r IH]; intros uniq rest Ho; [reflexivity|].
  cbn [app dup_loop map snd].
  assert ((i <? start)%nat || (e <=? i)%nat = true) as ->.
  { destruct (Ho i x (or_introl eq_refl)) as [H|H].
    - apply Nat.ltb_lt in H. now rewrite H.
    - apply Nat.leb_le in H. rewrite H. apply orb_true_r. }
  rewrite IH; [reflexivity|]. intros j y Hin. apply (Ho j y). now right.
Qed.

Lemma dup_loop_outside_all : forall t k start e ps uniq,
  outside start e ps -> dup_loop t k start e ps uniq = map snd ps.
Proof.
  intros. rewrite <- (app_nil_r ps) at 1. rewrite dup_loop_outside by assumption. cbn. apply app_nil_r.
Qed.

Lemma dup_loop_inside : forall t k start e ps uniq rest,
  inside start e ps ->
  dup_loop t k start e (ps ++ rest) uniq =
  dup_vals t k (map snd ps) uniq ++ dup_loop t k start e rest (uniq ++ map (key_app k) (map snd ps)).
Proof.
  induction ps as [|[i x] r IH]; intros uniq rest Hi.
  - cbn. now rewrite app_nil_r.
  - cbn [app dup_loop map snd dup_vals].
    assert (inside start e r) as Hi' by (intros j y Hin; apply (Hi j y); now right).
    destruct (Hi i x (or_introl eq_refl)) as [H1 H2].
    assert ((i <? start)%nat = false) as -> by (apply Nat.ltb_ge; lia).
    assert ((e <=? i)%nat = false) as -> by (apply Nat.leb_gt; lia).
    cbn [orb].
    destruct (existsb (fun u => dup_test t (key_app k x) u) uniq); rewrite IH by assumption;
      rewrite <- app_assoc; reflexivity.
Qed.

Lemma dup_vals_app : forall t k a b u,
  dup_vals t k (a ++ b) u = dup_vals t k a u ++ dup_vals t k b (u ++ map (key_app k) a).
Proof.
  induction a as [|x r IH]; intros b u.
  - cbn. now rewrite app_nil_r.
  - cbn [app dup_vals map].
    destruct (existsb (fun u0 => dup_test t (key_app k x) u0) u); rewrite IH; rewrite <- app_assoc; reflexivity.
Qed.

(* ---- properties of tests (used by the laws of the specification below and by :from-end) ------------------- *)
Definition tr (t : testarg) : Prop := forall a b c, dup_test t a b = true -> dup_test t b c = true -> dup_test t a c = true.
Definition sy (t : testarg) : Prop := forall a b, dup_test t a b = dup_test t b a.

Lemma transitive_tests : forall t, test_transitive t = true -> tr t.
Proof.
  intros t H a b c. destruct t as [|f|f]; try discriminate; cbn.
  - rewrite !Z.eqb_eq. lia.
  - destruct f; try discriminate; cbn;
      rewrite ?Z.eqb_eq, ?Z.ltb_lt, ?Z.leb_le; lia.
Qed.
Lemma symmetric_tests : forall t, test_symmetric t = true -> sy t.
Proof.
  intros t H a b. destruct t as [|f|f]; try discriminate; cbn.
  - apply Z.eqb_sym.
  - destruct f; try discriminate; cbn; rewrite (Z.eqb_sym a b); reflexivity.
Qed.
Lemma dup_test_s_test2 : forall t a b, dup_test t a b = s_test2 t a b.
Proof. destruct t; reflexivity. Qed.

Lemma existsb_map_key : forall (f : Z -> bool) (k : option keyfn) l,
  existsb f (map (key_app k) l) = existsb (fun y => f (key_app k y)) l.
Proof. induction l as [|x r IH]; [reflexivity|]. cbn. now rewrite IH. Qed.

Lemma existsb_rev : forall (f : Z -> bool) l, existsb f (rev l) = existsb f l.
Proof.
  induction l as [|x r IH]; [reflexivity|]. cbn. rewrite existsb_app, IH. cbn.
  rewrite orb_false_r. apply orb_comm.
Qed.

(* without :from-end: walking backwards, uniq holds the keys of ALL later elements of the bounded part:
   the loop is the specification's "matches a later element" — for EVERY test *)
Lemma dedup_later_backward : forall t k w,
  rev (dup_vals t k (rev w) []) = dedup_later t k w.
Proof.
  intros t k w. induction w as [|x r IH]; [reflexivity|].
  cbn [rev]. rewrite dup_vals_app. cbn [dup_vals app]. cbn [dedup_later].
  rewrite existsb_map_key, existsb_rev.
  assert (existsb (fun y => dup_test t (key_app k x) (key_app k y)) r =
          existsb (fun y => s_test2 t (key_app k x) (key_app k y)) r) as ->
    by (clear; induction r as [|y r IH]; [reflexivity|]; cbn; now rewrite IH, dup_test_s_test2).
  destruct (existsb (fun y => s_test2 t (key_app k x) (key_app k y)) r).
  - rewrite app_nil_r. exact IH.
  - rewrite rev_app_distr. cbn. now rewrite IH.
Qed.

(* with :from-end: walking forwards, uniq holds the keys of all earlier elements; the test is called
   with the LATER element first, which is the specification's order for a symmetric test *)
Lemma dedup_earlier_forward : forall t k w seen, sy t ->
  dup_vals t k w (map (key_app k) seen) = dedup_earlier t k seen w.
Proof.
  intros t k w. induction w as [|x r IH]; intros seen Hs; [reflexivity|].
  cbn [dup_vals dedup_earlier].
  rewrite existsb_map_key.
  assert (existsb (fun y => dup_test t (key_app k x) (key_app k y)) seen =
          existsb (fun y => s_test2 t (key_app k y) (key_app k x)) seen) as ->
    by (clear - Hs; induction seen as [|y r IH]; [reflexivity|]; cbn; now rewrite IH, Hs, dup_test_s_test2).
  replace (map (key_app k) seen ++ [key_app k x]) with (map (key_app k) (seen ++ [x])) by (now rewrite map_app).
  destruct (existsb (fun y => s_test2 t (key_app k y) (key_app k x)) seen).
  - now apply IH.
  - f_equal. now apply IH.
Qed.

(* ---- the call ---------------------------------------------------------------------------------------- *)
Definition is_dups_fn (f : fname) : bool := match f with FRemoveDuplicates | FDeleteDuplicates => true | _ => false end.

Theorem dups_meets_spec : forall c,
  is_dups_fn (c_fn c) = true -> in_domain c = true -> m_call c = s_call c.
Proof.
  intros c Hf Hd.
  assert (Hb := Hd). split_dom Hb D2 D1 D0 D.
  unfold bounds_ok in Hb. apply andb_true_iff in Hb as [B1 B2].
  apply Nat.leb_le in B1, B2.
  assert (c_from_end c = false \/ test_symmetric (c_test c) = true) as Hsy.
  { destruct (c_fn c); try discriminate Hf; cbn in D;
      apply orb_true_iff in D as [Db|Db]; auto; left; now apply negb_true_iff in Db. }
  assert (no_count (c_fn c) = true) as Hnc by (destruct (c_fn c); try discriminate; reflexivity).
  pose proof (parse_sfv_scan c Hnc D0) as Hp.
  assert (m_dups c (mkSfv (s_start c) (c_end c) None (c_from_end c)) =
          RSeq (firstn (s_start c) (elems (c_seq c)) ++
                (if c_from_end c then dedup_earlier (c_test c) (c_key c) [] (slice (s_start c) (s_end c (elems (c_seq c))) (elems (c_seq c)))
                 else dedup_later (c_test c) (c_key c) (slice (s_start c) (s_end c (elems (c_seq c))) (elems (c_seq c)))) ++
                skipn (s_end c (elems (c_seq c))) (elems (c_seq c)))) as Hm.
  { unfold m_dups. cbn [v_start v_end v_from_end].
    assert (forall s, elems s = elems (c_seq c) ->
      RSeq (if c_from_end c
            then dup_loop (c_test c) (c_key c) (s_start c) (norm_end (go_len s) (c_end c)) (indexed (elems s)) []
            else go_reverse (dup_loop (c_test c) (c_key c) (s_start c) (norm_end (go_len s) (c_end c)) (rev (indexed (elems s))) [])) =
      RSeq (firstn (s_start c) (elems s) ++
            (if c_from_end c then dedup_earlier (c_test c) (c_key c) [] (slice (s_start c) (s_end c (elems s)) (elems s))
             else dedup_later (c_test c) (c_key c) (slice (s_start c) (s_end c (elems s)) (elems s))) ++
            skipn (s_end c (elems s)) (elems s))) as Hgen.
    { intros s Hs. f_equal. rewrite go_reverse_is_rev.
      pose proof (go_len_ge s) as Hg.
      set (l := elems s) in *. set (e := norm_end (go_len s) (c_end c)).
      assert (s_start c <= s_end c l)%nat as B1' by (rewrite Hs; exact B1).
      assert (s_end c l <= length l)%nat as B2' by (rewrite Hs; exact B2).
      assert (s_end c l <= e)%nat as E1.
      { clearbody l. unfold e, s_end, norm_end in *. destruct (c_end c) as [n|]; [|lia].
        destruct (Nat.ltb_spec (go_len s) n); lia. }
      assert (e = s_end c l \/ s_end c l = length l) as E2.
      { clearbody l. unfold e, s_end, norm_end in *. destruct (c_end c) as [n|]; [|now right].
        destruct (Nat.ltb_spec (go_len s) n); [lia|now left]. }
      rewrite (indexed_three (s_start c) (s_end c l) e l B1' B2' E1 E2).
      destruct (c_from_end c) eqn:FE.
      - destruct Hsy as [Hsy|Hsy]; [discriminate|]. pose proof (symmetric_tests _ Hsy) as Hs'.
        rewrite dup_loop_outside by (apply (part1_outside _ _ _ _ B1' B2' E1 E2)).
        rewrite dup_loop_inside by (apply (part2_inside _ _ _ _ B1' B2' E1 E2)).
        rewrite dup_loop_outside_all by (apply (part3_outside _ _ _ _ B1' B2' E1 E2)).
        rewrite (vals1 _ _ _ _ B1' B2' E1 E2), (vals2 _ _ _ _ B1' B2' E1 E2), vals3.
        rewrite (dedup_earlier_forward _ _ _ [] Hs'). reflexivity.
      - rewrite !rev_app_distr. rewrite <- app_assoc.
        rewrite dup_loop_outside by (apply rev_outside, (part3_outside _ _ _ _ B1' B2' E1 E2)).
        rewrite dup_loop_inside by (apply rev_inside, (part2_inside _ _ _ _ B1' B2' E1 E2)).
        rewrite dup_loop_outside_all by (apply rev_outside, (part1_outside _ _ _ _ B1' B2' E1 E2)).
        rewrite !map_snd_rev.
        rewrite (vals1 _ _ _ _ B1' B2' E1 E2), (vals2 _ _ _ _ B1' B2' E1 E2), vals3.
        rewrite !rev_app_distr, !rev_involutive.
        rewrite (dedup_later_backward (c_test c) (c_key c) (slice (s_start c) (s_end c l) l)).
        now rewrite <- app_assoc. }
    destruct (c_seq c) eqn:S.
    - cbn [elems]. unfold slice. rewrite !skipn_nil, !firstn_nil. destruct (c_from_end c); reflexivity.
    - apply (Hgen (SList l)). reflexivity.
    - apply (Hgen (SVec l)). reflexivity.
    - apply (Hgen (SStr l)). reflexivity. }
  unfold m_call, s_call. rewrite Hp.
  destruct (c_fn c) eqn:F; try discriminate Hf; rewrite Hm; reflexivity.
Qed.

(* ---- laws of the specification of remove-duplicates ----------------------------------------------------- *)
Lemma dedup_later_incl : forall t k w z, In z (dedup_later t k w) -> In z w.
Proof.
  induction w as [|x r IH]; intros z H; [contradiction|]. cbn in H.
  destruct (existsb _ r); [right; now apply IH|]. destruct H as [<-|H]; [now left|right; now apply IH].
Qed.

(* no element of the result matches a later element of the result *)
Theorem dedup_later_no_match : forall t k w,
  ForallOrdPairs (fun a b => s_test2 t (key_app k a) (key_app k b) = false) (dedup_later t k w).
Proof.
  induction w as [|x r IH]; [constructor|]. cbn.
  destruct (existsb (fun y => s_test2 t (key_app k x) (key_app k y)) r) eqn:E; [exact IH|].
  constructor; [|exact IH]. apply Forall_forall. intros z Hz. apply dedup_later_incl in Hz.
  destruct (s_test2 t (key_app k x) (key_app k z)) eqn:M; [|reflexivity].
  assert (existsb (fun y => s_test2 t (key_app k x) (key_app k y)) r = true) by (apply existsb_exists; eauto). congruence.
Qed.

(* for a transitive test every element is kept or matches a kept later element *)
Theorem dedup_later_represents : forall t k w x, tr t -> In x w ->
  In x (dedup_later t k w) \/ exists z, In z (dedup_later t k w) /\ s_test2 t (key_app k x) (key_app k z) = true.
Proof.
  intros t k w x Ht. revert x. induction w as [|y r IH]; intros x H; [contradiction|]. cbn.
  destruct (existsb (fun y0 => s_test2 t (key_app k y) (key_app k y0)) r) eqn:E.
  - destruct H as [<-|H]; [|now apply IH].
    apply existsb_exists in E as [y' [Hy' M]]. destruct (IH y' Hy') as [K|[z [Hz Mz]]].
    + right. exists y'. split; assumption.
    + right. exists z. split; [exact Hz|]. rewrite <- dup_test_s_test2 in *. eapply Ht; eassumption.
  - destruct H as [<-|H]; [left; now left|]. destruct (IH x H) as [K|[z [Hz Mz]]].
    + left. now right.
    + right. exists z. split; [now right|exact Mz].
Qed.
