(* C14 — remove-duplicates / delete-duplicates: M = S on the guard. *)
From C14 Require Import Base Model Spec ProofsScan ProofsReverse ProofsRemove.
From Coq Require Import Arith.

(* the loop of delete-duplicates.go on the elements inside the bounds *)
Fixpoint dup_vals (t : testarg) (k : option keyfn) (xs uniq : list Z) : list Z :=
  match xs with
  | [] => []
  | x :: r => let kx := key_app k x in
              if existsb (fun u => dup_test t kx u) uniq then dup_vals t k r uniq
              else x :: dup_vals t k r (uniq ++ [kx])
  end.
Fixpoint uniq_final (t : testarg) (k : option keyfn) (xs uniq : list Z) : list Z :=
  match xs with
  | [] => uniq
  | x :: r => let kx := key_app k x in
              if existsb (fun u => dup_test t kx u) uniq then uniq_final t k r uniq
              else uniq_final t k r (uniq ++ [kx])
  end.

Lemma dup_loop_outside : forall t k start e ps uniq rest,
  outside start e ps ->
  dup_loop t k start e (ps ++ rest) uniq = map snd ps ++ dup_loop t k start e rest uniq.
Proof.
  induction ps as [|[i x] r IH]; intros uniq rest Ho; [reflexivity|].
  cbn [app dup_loop map snd].
  assert ((i <? start)%nat || (e <=? i)%nat = true) as ->.
  { destruct (Ho i x (or_introl eq_refl)) as [H|H].
    - apply Nat.ltb_lt in H. now rewrite H.
    - apply Nat.leb_le in H. rewrite H. apply orb_true_r. }
  rewrite IH; [reflexivity|]. intros j y Hin. apply (Ho j y). now right.
Qed.

Lemma dup_loop_outside_all : forall t k start e ps uniq,
  outside start e ps -> dup_loop t k start e ps uniq = map snd ps.
Proof.
  intros. rewrite <- (app_nil_r ps) at 1. rewrite dup_loop_outside by assumption. cbn. apply app_nil_r.
Qed.

Lemma dup_loop_inside : forall t k start e ps uniq rest,
  inside start e ps ->
  dup_loop t k start e (ps ++ rest) uniq =
  dup_vals t k (map snd ps) uniq ++ dup_loop t k start e rest (uniq_final t k (map snd ps) uniq).
Proof.
  induction ps as [|[i x] r IH]; intros uniq rest Hi; [reflexivity|].
  cbn [app dup_loop map snd dup_vals uniq_final].
  assert (inside start e r) as Hi' by (intros j y Hin; apply (Hi j y); now right).
  destruct (Hi i x (or_introl eq_refl)) as [H1 H2].
  assert ((i <? start)%nat = false) as -> by (apply Nat.ltb_ge; lia).
  assert ((e <=? i)%nat = false) as -> by (apply Nat.leb_gt; lia).
  cbn [orb].
  destruct (existsb (fun u => dup_test t (key_app k x) u) uniq); rewrite IH by assumption; reflexivity.
Qed.

Lemma dup_vals_app : forall t k a b u,
  dup_vals t k (a ++ b) u = dup_vals t k a u ++ dup_vals t k b (uniq_final t k a u).
Proof.
  induction a as [|x r IH]; intros b u; [reflexivity|].
  cbn [app dup_vals uniq_final].
  destruct (existsb (fun u0 => dup_test t (key_app k x) u0) u); rewrite IH; reflexivity.
Qed.

(* ---- what the kept keys know about the elements already seen ------------------------------------------ *)
Definition tr (t : testarg) : Prop := forall a b c, dup_test t a b = true -> dup_test t b c = true -> dup_test t a c = true.
Definition sy (t : testarg) : Prop := forall a b, dup_test t a b = dup_test t b a.

Lemma transitive_tests : forall t, test_transitive t = true -> tr t.
Proof.
  intros t H a b c. destruct t as [|f|f]; try discriminate; cbn.
  - rewrite !Z.eqb_eq. lia.
  - destruct f; try discriminate; cbn;
      rewrite ?Z.eqb_eq, ?Z.ltb_lt, ?Z.leb_le; lia.
Qed.
Lemma symmetric_tests : forall t, test_symmetric t = true -> sy t.
Proof.
  intros t H a b. destruct t as [|f|f]; try discriminate; cbn.
  - apply Z.eqb_sym.
  - destruct f; try discriminate; cbn; rewrite (Z.eqb_sym a b); reflexivity.
Qed.
Lemma dup_test_s_test2 : forall t a b, dup_test t a b = s_test2 t a b.
Proof. destruct t; reflexivity. Qed.

Definition Inv (t : testarg) (k : option keyfn) (P U : list Z) : Prop :=
  (forall u, In u U -> exists y, In y P /\ u = key_app k y) /\
  (forall y, In y P -> In (key_app k y) U \/ exists u, In u U /\ dup_test t (key_app k y) u = true).

Lemma Inv_nil : forall t k, Inv t k [] [].
Proof. split; intros ? []. Qed.

Lemma Inv_step : forall t k P U x,
  Inv t k P U ->
  Inv t k (x :: P) (if existsb (fun u => dup_test t (key_app k x) u) U then U else U ++ [key_app k x]).
Proof.
  intros t k P U x [I1 I2].
  destruct (existsb (fun u => dup_test t (key_app k x) u) U) eqn:E.
  - split.
    + intros u Hu. destruct (I1 u Hu) as [y [Hy ->]]. exists y. split; [now right|reflexivity].
    + intros y [<-|Hy].
      * right. apply existsb_exists in E. exact E.
      * apply I2. exact Hy.
  - split.
    + intros u Hu. apply in_app_or in Hu as [Hu|[<-|[]]].
      * destruct (I1 u Hu) as [y [Hy ->]]. exists y. split; [now right|reflexivity].
      * exists x. split; [now left|reflexivity].
    + intros y [<-|Hy].
      * left. apply in_or_app. right. now left.
      * destruct (I2 y Hy) as [H|[u [Hu Ht]]].
        -- left. apply in_or_app. now left.
        -- right. exists u. split; [apply in_or_app; now left|exact Ht].
Qed.

Lemma Inv_final : forall t k a P U, Inv t k P U -> Inv t k (rev a ++ P) (uniq_final t k a U).
Proof.
  induction a as [|x r IH]; intros P U HI; [exact HI|].
  cbn [uniq_final rev]. rewrite <- app_assoc. cbn [app].
  pose proof (Inv_step t k P U x HI) as Hs.
  destruct (existsb (fun u => dup_test t (key_app k x) u) U); apply IH; exact Hs.
Qed.

(* without :from-end: walking backwards, "some kept later key matches" = "some later element matches" *)
Lemma later_equiv : forall t k P U x, tr t -> Inv t k P U ->
  existsb (fun u => dup_test t (key_app k x) u) U = existsb (fun y => s_test2 t (key_app k x) (key_app k y)) P.
Proof.
  intros t k P U x Ht [I1 I2]. apply eq_true_iff_eq. rewrite !existsb_exists. split.
  - intros [u [Hu Hm]]. destruct (I1 u Hu) as [y [Hy ->]]. exists y. split; [exact Hy|].
    now rewrite <- dup_test_s_test2.
  - intros [y [Hy Hm]]. rewrite <- dup_test_s_test2 in Hm. destruct (I2 y Hy) as [H|[u [Hu Hm2]]].
    + exists (key_app k y). split; assumption.
    + exists u. split; [exact Hu|]. eapply Ht; eassumption.
Qed.

Lemma dedup_later_backward : forall t k w, tr t ->
  rev (dup_vals t k (rev w) []) = dedup_later t k w /\ Inv t k w (uniq_final t k (rev w) []).
Proof.
  intros t k w Ht. induction w as [|x r [IH1 IH2]].
  - split; [reflexivity|apply Inv_nil].
  - cbn [rev]. rewrite dup_vals_app. cbn [dup_vals]. split.
    + rewrite (later_equiv t k r _ x Ht IH2). cbn [dedup_later].
      destruct (existsb (fun y => s_test2 t (key_app k x) (key_app k y)) r).
      * rewrite app_nil_r. exact IH1.
      * rewrite rev_app_distr. cbn. now rewrite IH1.
    + pose proof (Inv_final t k (rev r ++ [x]) [] [] (Inv_nil t k)) as H.
      rewrite rev_app_distr, rev_involutive, app_nil_r in H. exact H.
Qed.

(* with :from-end: walking forwards, for a symmetric and transitive test *)
Lemma earlier_equiv : forall t k P U x, tr t -> sy t -> Inv t k P U ->
  existsb (fun u => dup_test t (key_app k x) u) U = existsb (fun y => s_test2 t (key_app k y) (key_app k x)) P.
Proof.
  intros t k P U x Ht Hs [I1 I2]. apply eq_true_iff_eq. rewrite !existsb_exists. split.
  - intros [u [Hu Hm]]. destruct (I1 u Hu) as [y [Hy ->]]. exists y. split; [exact Hy|].
    rewrite <- dup_test_s_test2. now rewrite Hs.
  - intros [y [Hy Hm]]. rewrite <- dup_test_s_test2, Hs in Hm. destruct (I2 y Hy) as [H|[u [Hu Hm2]]].
    + exists (key_app k y). split; assumption.
    + exists u. split; [exact Hu|]. eapply Ht; eassumption.
Qed.

Lemma existsb_perm_in : forall (f : Z -> bool) l1 l2, (forall y, In y l1 <-> In y l2) -> existsb f l1 = existsb f l2.
Proof.
  intros f l1 l2 H. apply eq_true_iff_eq. rewrite !existsb_exists. split; intros [y [Hy Hf]]; exists y; split; auto; apply H; auto.
Qed.

Lemma dedup_earlier_forward : forall t k w seen U, tr t -> sy t -> Inv t k seen U ->
  dup_vals t k w U = dedup_earlier t k seen w.
Proof.
  intros t k w. induction w as [|x r IH]; intros seen U Ht Hs HI; [reflexivity|].
  cbn [dup_vals dedup_earlier].
  rewrite (earlier_equiv t k seen U x Ht Hs HI).
  pose proof (Inv_step t k seen U x HI) as Hstep.
  rewrite (earlier_equiv t k seen U x Ht Hs HI) in Hstep.
  assert (forall U', Inv t k (x :: seen) U' -> Inv t k (seen ++ [x]) U') as Hperm.
  { intros U' [J1 J2]. split.
    - intros u Hu. destruct (J1 u Hu) as [y [Hy ->]]. exists y. split; [|reflexivity].
      apply in_or_app. destruct Hy as [<-|Hy]; [right; now left|now left].
    - intros y Hy. apply J2. apply in_app_or in Hy as [Hy|[<-|[]]]; [now right|now left]. }
  destruct (existsb (fun y => s_test2 t (key_app k y) (key_app k x)) seen).
  - apply IH; auto.
  - f_equal. apply IH; auto.
Qed.

(* ---- the call ---------------------------------------------------------------------------------------- *)
Definition is_dups_fn (f : fname) : bool := match f with FRemoveDuplicates | FDeleteDuplicates => true | _ => false end.

Theorem dups_meets_spec : forall c,
  is_dups_fn (c_fn c) = true -> in_domain c = true -> m_call c = s_call c.
Proof.
  intros c Hf Hd.
  assert (Hb := Hd). split_dom Hb D2 D1 D0 D.
  unfold bounds_ok in Hb. apply andb_true_iff in Hb as [B1 B2].
  apply Nat.leb_le in B1, B2.
  assert (test_transitive (c_test c) = true /\ (c_from_end c = false \/ test_symmetric (c_test c) = true)) as [Htr Hsy].
  { destruct (c_fn c); try discriminate Hf; cbn in D; apply andb_true_iff in D as [Da Db]; split; auto;
      apply orb_true_iff in Db as [Db|Db]; auto; left; now apply negb_true_iff in Db. }
  assert (not_test_not (c_test c) = true) as Htn by (destruct (c_test c); try discriminate; reflexivity).
  assert (no_count (c_fn c) = true) as Hnc by (destruct (c_fn c); try discriminate; reflexivity).
  pose proof (parse_sfv_scan c Hnc D0 Htn) as Hp.
  pose proof (transitive_tests _ Htr) as Ht.
  assert (m_dups c (mkSfv (s_start c) (c_end c) None (c_from_end c)) =
          RSeq (firstn (s_start c) (elems (c_seq c)) ++
                (if c_from_end c then dedup_earlier (c_test c) (c_key c) [] (slice (s_start c) (s_end c (elems (c_seq c))) (elems (c_seq c)))
                 else dedup_later (c_test c) (c_key c) (slice (s_start c) (s_end c (elems (c_seq c))) (elems (c_seq c)))) ++
                skipn (s_end c (elems (c_seq c))) (elems (c_seq c)))) as Hm.
  { unfold m_dups. cbn [v_start v_end v_from_end].
    assert (forall s, elems s = elems (c_seq c) ->
      RSeq (if c_from_end c
            then dup_loop (c_test c) (c_key c) (s_start c) (norm_end (go_len s) (c_end c)) (indexed (elems s)) []
            else go_reverse (dup_loop (c_test c) (c_key c) (s_start c) (norm_end (go_len s) (c_end c)) (rev (indexed (elems s))) [])) =
      RSeq (firstn (s_start c) (elems s) ++
            (if c_from_end c then dedup_earlier (c_test c) (c_key c) [] (slice (s_start c) (s_end c (elems s)) (elems s))
             else dedup_later (c_test c) (c_key c) (slice (s_start c) (s_end c (elems s)) (elems s))) ++
            skipn (s_end c (elems s)) (elems s))) as Hgen.
    { intros s Hs. f_equal. rewrite go_reverse_is_rev.
      pose proof (go_len_ge s) as Hg.
      set (l := elems s) in *. set (e := norm_end (go_len s) (c_end c)).
      assert (s_start c <= s_end c l)%nat as B1' by (rewrite Hs; exact B1).
      assert (s_end c l <= length l)%nat as B2' by (rewrite Hs; exact B2).
      assert (s_end c l <= e)%nat as E1.
      { clearbody l. unfold e, s_end, norm_end in *. destruct (c_end c) as [n|]; [|lia].
        destruct (Nat.ltb_spec (go_len s) n); lia. }
      assert (e = s_end c l \/ s_end c l = length l) as E2.
      { clearbody l. unfold e, s_end, norm_end in *. destruct (c_end c) as [n|]; [|now right].
        destruct (Nat.ltb_spec (go_len s) n); [lia|now left]. }
      rewrite (indexed_three (s_start c) (s_end c l) e l B1' B2' E1 E2).
      destruct (c_from_end c) eqn:FE.
      - destruct Hsy as [Hsy|Hsy]; [discriminate|]. pose proof (symmetric_tests _ Hsy) as Hs'.
        rewrite dup_loop_outside by (apply (part1_outside _ _ _ _ B1' B2' E1 E2)).
        rewrite dup_loop_inside by (apply (part2_inside _ _ _ _ B1' B2' E1 E2)).
        rewrite dup_loop_outside_all by (apply (part3_outside _ _ _ _ B1' B2' E1 E2)).
        rewrite (vals1 _ _ _ _ B1' B2' E1 E2), (vals2 _ _ _ _ B1' B2' E1 E2), vals3.
        rewrite (dedup_earlier_forward _ _ _ [] [] Ht Hs' (Inv_nil _ _)). reflexivity.
      - rewrite !rev_app_distr. rewrite <- app_assoc.
        rewrite dup_loop_outside by (apply rev_outside, (part3_outside _ _ _ _ B1' B2' E1 E2)).
        rewrite dup_loop_inside by (apply rev_inside, (part2_inside _ _ _ _ B1' B2' E1 E2)).
        rewrite dup_loop_outside_all by (apply rev_outside, (part1_outside _ _ _ _ B1' B2' E1 E2)).
        rewrite !map_snd_rev.
        rewrite (vals1 _ _ _ _ B1' B2' E1 E2), (vals2 _ _ _ _ B1' B2' E1 E2), vals3.
        rewrite !rev_app_distr, !rev_involutive.
        destruct (dedup_later_backward (c_test c) (c_key c) (slice (s_start c) (s_end c l) l) Ht) as [-> _].
        now rewrite <- app_assoc. }
    destruct (c_seq c) eqn:S.
    - cbn [elems]. unfold slice. rewrite !skipn_nil, !firstn_nil. destruct (c_from_end c); reflexivity.
    - apply (Hgen (SList l)). reflexivity.
    - apply (Hgen (SVec l)). reflexivity.
    - apply (Hgen (SStr l)). reflexivity. }
  unfold m_call, s_call. rewrite Hp.
  destruct (c_fn c) eqn:F; try discriminate Hf; rewrite Hm; reflexivity.
Qed.

(* ---- laws of the specification of remove-duplicates ----------------------------------------------------- *)
Lemma dedup_later_incl : forall t k w z, In z (dedup_later t k w) -> In z w.
Proof.
  induction w as [|x r IH]; intros z H; [contradiction|]. cbn in H.
  destruct (existsb _ r); [right; now apply IH|]. destruct H as [<-|H]; [now left|right; now apply IH].
Qed.

(* no element of the result matches a later element of the result *)
Theorem dedup_later_no_match : forall t k w,
  ForallOrdPairs (fun a b => s_test2 t (key_app k a) (key_app k b) = false) (dedup_later t k w).
Proof.
  induction w as [|x r IH]; [constructor|]. cbn.
  destruct (existsb (fun y => s_test2 t (key_app k x) (key_app k y)) r) eqn:E; [exact IH|].
  constructor; [|exact IH]. apply Forall_forall. intros z Hz. apply dedup_later_incl in Hz.
  destruct (s_test2 t (key_app k x) (key_app k z)) eqn:M; [|reflexivity].
  assert (existsb (fun y => s_test2 t (key_app k x) (key_app k y)) r = true) by (apply existsb_exists; eauto). congruence.
Qed.

(* for a transitive test every element is kept or matches a kept later element *)
Theorem dedup_later_represents : forall t k w x, tr t -> In x w ->
  In x (dedup_later t k w) \/ exists z, In z (dedup_later t k w) /\ s_test2 t (key_app k x) (key_app k z) = true.
Proof.
  intros t k w x Ht. revert x. induction w as [|y r IH]; intros x H; [contradiction|]. cbn.
  destruct (existsb (fun y0 => s_test2 t (key_app k y) (key_app k y0)) r) eqn:E.
  - destruct H as [<-|H]; [|now apply IH].
    apply existsb_exists in E as [y' [Hy' M]]. destruct (IH y' Hy') as [K|[z [Hz Mz]]].
    + right. exists y'. split; assumption.
    + right. exists z. split; [exact Hz|]. rewrite <- dup_test_s_test2 in *. eapply Ht; eassumption.
  - destruct H as [<-|H]; [left; now left|]. destruct (IH x H) as [K|[z [Hz Mz]]].
    + left. now right.
    + right. exists z. split; [now right|exact Mz].
Qed.
