(* C14 — remove / delete (with :count and :from-end), substitute, remove-duplicates: M = S on the guard. *)
From C14 Require Import Base Model Spec ProofsScan ProofsReverse.
From Coq Require Import Arith.

(* ---- the index loop of delete.go ------------------------------------------------------------------ *)
Definition outside (start e : nat) (ps : list (nat * Z)) : Prop :=
  forall i x, In (i, x) ps -> (i < start \/ e <= i)%nat.
Definition inside (start e : nat) (ps : list (nat * Z)) : Prop :=
  forall i x, In (i, x) ps -> (start <= i /\ i < e)%nat.

Definition budget (limit : option Z) (cnt : Z) : option nat :=
  match limit with None => None | Some n => Some (Z.to_nat (n - cnt)) end.

Lemma rem_n_zero : forall p l, rem_n p (Some 0%nat) l = l.
Proof. destruct l; reflexivity. Qed.

Lemma del_loop_outside : forall p start e limit ps cnt rest,
  outside start e ps ->
  del_loop p start e limit (ps ++ rest) cnt = map snd ps ++ del_loop p start e limit rest cnt.
Proof.
  induction ps as [|[i x] t IH]; intros cnt rest Ho; [reflexivity|].
  cbn [app del_loop map snd].
  assert ((i <? start)%nat || (e <=? i)%nat = true) as ->.
  { destruct (Ho i x (or_introl eq_refl)) as [H|H].
    - apply Nat.ltb_lt in H. now rewrite H.
    - apply Nat.leb_le in H. rewrite H. apply orb_true_r. }
  cbn [orb]. rewrite IH; [reflexivity|].
  intros j y Hin. apply (Ho j y). now right.
Qed.

Lemma del_loop_outside_all : forall p start e limit ps cnt,
  outside start e ps -> del_loop p start e limit ps cnt = map snd ps.
Proof.
  intros. rewrite <- (app_nil_r ps) at 1. rewrite del_loop_outside by assumption. cbn. apply app_nil_r.
Qed.

Lemma del_loop_inside : forall p start e limit ps cnt rest,
  inside start e ps -> outside start e rest ->
  del_loop p start e limit (ps ++ rest) cnt = rem_n p (budget limit cnt) (map snd ps) ++ map snd rest.
Proof.
  induction ps as [|[i x] t IH]; intros cnt rest Hi Ho.
  - cbn. now apply del_loop_outside_all.
  - cbn [app del_loop map snd].
    assert (inside start e t) as Hi' by (intros j y Hin; apply (Hi j y); now right).
    destruct (Hi i x (or_introl eq_refl)) as [H1 H2].
    assert ((i <? start)%nat = false) as -> by (apply Nat.ltb_ge; lia).
    assert ((e <=? i)%nat = false) as -> by (apply Nat.leb_gt; lia).
    cbn [orb].
    destruct limit as [n|].
    + cbn [budget]. destruct (Z.leb_spec n cnt) as [Hle|Hgt].
      * assert (Z.to_nat (n - cnt) = 0%nat) as Hz by lia.
        rewrite IH by assumption. cbn [budget]. rewrite Hz. rewrite !rem_n_zero. reflexivity.
      * destruct (Z.to_nat (n - cnt)) as [|b] eqn:Hb; [lia|].
        cbn [rem_n]. destruct (p x).
        -- rewrite IH by assumption. cbn [budget option_map pred].
           replace (Z.to_nat (n - (cnt + 1))) with b by lia. reflexivity.
        -- rewrite IH by assumption. cbn [budget]. rewrite Hb. reflexivity.
    + cbn [budget rem_n]. destruct (p x); rewrite IH by assumption; reflexivity.
Qed.

Lemma skipn_skipn : forall (a b : nat) (l : list Z), skipn a (skipn b l) = skipn (a + b) l.
Proof.
  intros a b. revert a. induction b as [|b IH]; intros a l.
  - now rewrite Nat.add_0_r.
  - destruct l as [|x t]; [now rewrite !skipn_nil|].
    replace (a + S b)%nat with (S (a + b)) by lia. cbn [skipn]. apply IH.
Qed.

(* the indexed sequence cut at the bounds *)
Lemma indexed_split : forall (l : list Z) k a,
  (a <= length l)%nat ->
  combine (seq k (length l)) l =
  combine (seq k a) (firstn a l) ++ combine (seq (k + a) (length l - a)) (skipn a l).
Proof.
  induction l as [|x t IH]; intros k a Ha.
  - cbn in Ha. assert (a = 0%nat) by lia. subst. reflexivity.
  - destruct a as [|a].
    + cbn. rewrite Nat.add_0_r. reflexivity.
    + cbn [length seq firstn skipn combine app]. rewrite (IH (S k) a) by (cbn in Ha; lia).
      replace (S k + a)%nat with (k + S a)%nat by lia. reflexivity.
Qed.

Lemma combine_seq_in : forall (l : list Z) k n i x, n = length l -> In (i, x) (combine (seq k n) l) -> (k <= i /\ i < k + n)%nat.
Proof.
  intros l k n i x -> H. apply in_combine_l in H. apply in_seq in H. lia.
Qed.

Lemma map_snd_combine_seq : forall (l : list Z) k, map snd (combine (seq k (length l)) l) = l.
Proof.
  induction l as [|x t IH]; intros k; cbn; [reflexivity|]. now rewrite IH.
Qed.

Lemma map_snd_rev : forall (ps : list (nat * Z)), map snd (rev ps) = rev (map snd ps).
Proof. intros. apply map_rev. Qed.

Section Delete.
  Variables (p : Z -> bool) (st en e : nat) (limit : option Z) (l : list Z).
  Hypothesis B1 : (st <= en)%nat.
  Hypothesis B2 : (en <= length l)%nat.
  Hypothesis E1 : (en <= e)%nat.
  Hypothesis E2 : e = en \/ en = length l.

  Let part1 := combine (seq 0 st) (firstn st l).
  Let part2 := combine (seq st (en - st)) (slice st en l).
  Let part3 := combine (seq en (length l - en)) (skipn en l).

  Lemma indexed_three : indexed l = part1 ++ part2 ++ part3.
  Proof.
    unfold indexed, part1, part2, part3.
    rewrite (indexed_split l 0 st) by lia. cbn [Nat.add]. f_equal.
    assert (length (skipn st l) = (length l - st)%nat) as Hl by apply skipn_length.
    rewrite <- Hl. rewrite (indexed_split (skipn st l) st (en - st)) by lia.
    unfold slice. f_equal. rewrite skipn_skipn. rewrite Hl.
    replace (en - st + st)%nat with en by lia.
    replace (st + (en - st))%nat with en by lia.
    replace (length l - st - (en - st))%nat with (length l - en)%nat by lia. reflexivity.
  Qed.

  Lemma len1 : length (firstn st l) = st.
  Proof. rewrite firstn_length. lia. Qed.
  Lemma len2 : length (slice st en l) = (en - st)%nat.
  Proof. unfold slice. rewrite firstn_length, skipn_length. lia. Qed.
  Lemma len3 : length (skipn en l) = (length l - en)%nat.
  Proof. apply skipn_length. Qed.

  Lemma part1_outside : outside st e part1.
  Proof.
    intros i x H. apply combine_seq_in in H; [|symmetry; apply len1]. lia.
  Qed.
  Lemma part2_inside : inside st e part2.
  Proof.
    intros i x H. apply combine_seq_in in H; [|symmetry; apply len2]. lia.
  Qed.
  Lemma part3_outside : outside st e part3.
  Proof.
    intros i x H. apply combine_seq_in in H; [|symmetry; apply len3]. lia.
  Qed.
  Lemma vals1 : map snd part1 = firstn st l.
  Proof. unfold part1. rewrite <- len1 at 1. apply map_snd_combine_seq. Qed.
  Lemma vals2 : map snd part2 = slice st en l.
  Proof. unfold part2. rewrite <- len2 at 1. apply map_snd_combine_seq. Qed.
  Lemma vals3 : map snd part3 = skipn en l.
  Proof. unfold part3. rewrite <- len3 at 1. apply map_snd_combine_seq. Qed.

  Lemma rev_outside : forall ps, outside st e ps -> outside st e (rev ps).
  Proof. intros ps H i x Hin. apply (H i x). now apply in_rev. Qed.
  Lemma rev_inside : forall ps, inside st e ps -> inside st e (rev ps).
  Proof. intros ps H i x Hin. apply (H i x). now apply in_rev. Qed.

  Lemma delete_forward :
    del_loop p st e limit (indexed l) 0 =
    firstn st l ++ rem_n p (budget limit 0) (slice st en l) ++ skipn en l.
  Proof.
    rewrite indexed_three.
    rewrite del_loop_outside by apply part1_outside.
    rewrite del_loop_inside by (apply part2_inside || apply part3_outside).
    now rewrite vals1, vals2, vals3.
  Qed.

  Lemma delete_backward :
    rev (del_loop p st e limit (rev (indexed l)) 0) =
    firstn st l ++ rev (rem_n p (budget limit 0) (rev (slice st en l))) ++ skipn en l.
  Proof.
    rewrite indexed_three. rewrite !rev_app_distr. rewrite <- app_assoc.
    rewrite del_loop_outside by (apply rev_outside, part3_outside).
    rewrite del_loop_inside by (apply rev_inside, part2_inside || apply rev_outside, part1_outside).
    rewrite !map_snd_rev, vals1, vals2, vals3.
    rewrite !rev_app_distr, !rev_involutive. now rewrite <- app_assoc.
  Qed.
End Delete.

Lemma byte_len_ge : forall l, (length l <= byte_len l)%nat.
Proof.
  induction l as [|x t IH]; [cbn; lia|].
  change (byte_len (x :: t)) with (char_width x + byte_len t)%nat. cbn [length].
  unfold char_width. destruct (100 + x <? 128); lia.
Qed.
Lemma go_len_ge : forall s, (length (elems s) <= go_len s)%nat.
Proof. destruct s; cbn [go_len elems]; try lia. apply byte_len_ge. Qed.

Lemma budget_limit : forall cn, budget (match cn with CNum z => Some z | _ => None end) 0 = s_limit cn.
Proof. destruct cn; cbn; try reflexivity. now rewrite Z.sub_0_r. Qed.

Definition is_remove_fn (f : fname) : bool :=
  match f with FRemove | FRemoveIf | FDelete | FDeleteIf => true | _ => false end.

Lemma parse_sfv_remove : forall c,
  is_remove_fn (c_fn c) = true -> keywords_ok c = true ->
  parse_sfv c = Some (mkSfv (s_start c) (c_end c) (match c_count c with CNum z => Some z | _ => None end) (c_from_end c)).
Proof.
  intros c Hf Hk. unfold keywords_ok in Hk. apply andb_true_iff in Hk as [K1 _].
  assert (no_count (c_fn c) = false) as Nc by (destruct (c_fn c); cbn in Hf |- *; congruence).
  unfold parse_sfv, s_start. rewrite Nc.
  destruct (c_test c) eqn:T.
  - destruct (c_count c); reflexivity.
  - destruct (is_if (c_fn c)) eqn:I.
    + assert (takes_no_test (c_fn c) = true) as Tn by (destruct (c_fn c); cbn in I |- *; congruence).
      rewrite Tn in K1. cbn in K1. discriminate.
    + destruct (c_count c); reflexivity.
  - destruct (is_if (c_fn c)) eqn:I.
    + assert (takes_no_test (c_fn c) = true) as Tn by (destruct (c_fn c); cbn in I |- *; congruence).
      rewrite Tn in K1. cbn in K1. discriminate.
    + destruct (c_count c); reflexivity.
Qed.

Theorem remove_meets_spec : forall c,
  is_remove_fn (c_fn c) = true -> in_domain c = true -> m_call c = s_call c.
Proof.
  intros c Hf Hd.
  assert (Hb := Hd). split_dom Hb D2 D1 D0 D.
  unfold bounds_ok in Hb. apply andb_true_iff in Hb as [B1 B2].
  apply Nat.leb_le in B1, B2.
  pose proof (parse_sfv_remove c Hf D0) as Hp.
  assert (m_delete c (mkSfv (s_start c) (c_end c) (match c_count c with CNum z => Some z | _ => None end) (c_from_end c)) =
          RSeq (firstn (s_start c) (elems (c_seq c)) ++
                from_end_wrap (c_from_end c) (rem_n (s_match c) (s_limit (c_count c)))
                  (slice (s_start c) (s_end c (elems (c_seq c))) (elems (c_seq c))) ++
                skipn (s_end c (elems (c_seq c))) (elems (c_seq c)))) as Hm.
  { unfold m_delete. rewrite matchers_agree by (destruct (c_fn c); try discriminate Hf; reflexivity).
    assert (forall s, elems s = elems (c_seq c) -> (length (elems s) <= go_len s)%nat ->
            (match c_end c with Some n => n <= length (elems s) | None => True end)%nat ->
            RSeq (m_delete_list (s_match c) (mkSfv (s_start c) (c_end c) (match c_count c with CNum z => Some z | _ => None end) (c_from_end c)) (go_len s) (elems s)) =
            RSeq (firstn (s_start c) (elems s) ++
                  from_end_wrap (c_from_end c) (rem_n (s_match c) (s_limit (c_count c)))
                    (slice (s_start c) (s_end c (elems s)) (elems s)) ++ skipn (s_end c (elems s)) (elems s))) as Hgen.
    { intros s Hs Hg He. f_equal. unfold m_delete_list. cbn [v_start v_end v_count v_from_end].
      set (l := elems s) in *. set (e := norm_end (go_len s) (c_end c)).
      assert (s_end c l <= e)%nat as E1.
      { unfold e, s_end, norm_end. destruct (c_end c) as [n|]; [|lia].
        destruct (Nat.ltb_spec (go_len s) n); lia. }
      assert (e = s_end c l \/ s_end c l = length l) as E2.
      { unfold e, s_end, norm_end. destruct (c_end c) as [n|]; [|now right].
        destruct (Nat.ltb_spec (go_len s) n); [lia|now left]. }
      assert (s_start c <= s_end c l)%nat as B1' by (rewrite Hs; exact B1).
      assert (s_end c l <= length l)%nat as B2' by (rewrite Hs; exact B2).
      unfold from_end_wrap. rewrite <- budget_limit. destruct (c_from_end c).
      - rewrite go_reverse_is_rev. apply delete_backward; assumption.
      - apply delete_forward; assumption. }
    destruct (c_seq c) eqn:S.
    - cbn [elems]. unfold slice. rewrite !skipn_nil, !firstn_nil. cbn [app].
      unfold from_end_wrap. destruct (c_from_end c); cbn; destruct (s_limit (c_count c)) as [[|n]|]; reflexivity.
    - apply (Hgen (SList l)); [reflexivity|apply go_len_ge|].
      unfold s_end in B2. cbn [elems] in *. destruct (c_end c); [exact B2|exact I].
    - apply (Hgen (SVec l)); [reflexivity|apply go_len_ge|].
      unfold s_end in B2. cbn [elems] in *. destruct (c_end c); [exact B2|exact I].
    - apply (Hgen (SStr l)); [reflexivity|apply go_len_ge|].
      unfold s_end in B2. cbn [elems] in *. destruct (c_end c); [exact B2|exact I]. }
  unfold m_call, s_call. rewrite Hp.
  destruct (c_fn c) eqn:F; try discriminate Hf; rewrite Hm; reflexivity.
Qed.

(* ---- substitute -------------------------------------------------------------------------------------- *)
(* the counting loop replaces the first n matches *)
Lemma sub_loop_count : forall p new w n, 0 <= n ->
  sub_loop p new w n = sub_n p new (Some (Z.to_nat n)) w.
Proof.
  induction w as [|x t IH]; intros n Hn; [reflexivity|].
  cbn [sub_loop sub_n].
  destruct (Z.leb_spec n 0) as [Hle|Hgt].
  - assert (n = 0) by lia. subst. reflexivity.
  - destruct (Z.to_nat n) as [|m] eqn:Hm; [lia|].
    cbn [option_map pred]. destruct (p x).
    + rewrite IH by lia. replace (Z.to_nat (n - 1)) with m by lia. reflexivity.
    + rewrite IH by lia. rewrite Hm. reflexivity.
Qed.

(* a limit that is at least the number of elements is no limit *)
Lemma sub_n_enough : forall p new w m, (length w <= m)%nat ->
  sub_n p new (Some m) w = sub_n p new None w.
Proof.
  induction w as [|x t IH]; intros m Hm; [reflexivity|].
  cbn [length] in Hm. destruct m as [|m]; [lia|].
  cbn [sub_n option_map pred]. destruct (p x); rewrite IH by lia; reflexivity.
Qed.

Definition is_substitute_fn (f : fname) : bool :=
  match f with FSubstitute | FSubstituteIf | FNsubstitute | FNsubstituteIf => true | _ => false end.

Theorem substitute_meets_spec : forall c,
  is_substitute_fn (c_fn c) = true -> in_domain c = true -> m_call c = s_call c.
Proof.
  intros c Hf Hd.
  assert (Hb := Hd). split_dom Hb D2 D1 D0 D.
  unfold bounds_ok in Hb. apply andb_true_iff in Hb as [B1 B2].
  apply Nat.leb_le in B1, B2.
  assert (m_sub_match c = s_match c) as Hmm.
  { unfold m_sub_match, s_match.
    destruct (c_fn c) eqn:F; try discriminate Hf; reflexivity. }
  assert (m_substitute c =
          RSeq (firstn (s_start c) (elems (c_seq c)) ++
                from_end_wrap (c_from_end c) (sub_n (s_match c) (c_new c) (s_limit (c_count c)))
                  (slice (s_start c) (s_end c (elems (c_seq c))) (elems (c_seq c))) ++
                skipn (s_end c (elems (c_seq c))) (elems (c_seq c)))) as Hm.
  { unfold m_substitute. rewrite Hmm.
    set (l := elems (c_seq c)) in *.
    set (n := match c_count c with CNum z => if z <? 0 then 0 else z | _ => Z.of_nat (length l) end).
    (* the counting loop on any part of the sequence is the specification's limited replacement *)
    assert (forall w, (length w <= length l)%nat ->
            sub_loop (s_match c) (c_new c) w n = sub_n (s_match c) (c_new c) (s_limit (c_count c)) w) as Hloop.
    { intros w Hw. unfold n, s_limit. destruct (c_count c) as [| |z].
      - rewrite sub_loop_count by lia. apply sub_n_enough. lia.
      - rewrite sub_loop_count by lia. apply sub_n_enough. lia.
      - destruct (Z.ltb_spec z 0).
        + rewrite sub_loop_count by lia. replace (Z.to_nat z) with (Z.to_nat 0) by lia. reflexivity.
        + now rewrite sub_loop_count by lia. }
    assert (norm_end (length l) (c_end c) = s_end c l) as Hne by (apply norm_end_in_range; exact B2).
    assert (length (slice (s_start c) (s_end c l) l) = (s_end c l - s_start c)%nat) as Hlw by (unfold slice; rewrite firstn_length, skipn_length; lia).
    assert (RSeq (firstn (s_start c) l ++
              (if c_from_end c
               then rev (sub_loop (s_match c) (c_new c) (rev (slice (s_start c) (norm_end (length l) (c_end c)) l)) n)
               else sub_loop (s_match c) (c_new c) (slice (s_start c) (norm_end (length l) (c_end c)) l) n) ++
              skipn (s_start c + length (slice (s_start c) (norm_end (length l) (c_end c)) l)) l) =
            RSeq (firstn (s_start c) l ++ from_end_wrap (c_from_end c) (sub_n (s_match c) (c_new c) (s_limit (c_count c))) (slice (s_start c) (s_end c l) l) ++ skipn (s_end c l) l)) as Hgen.
    { rewrite Hne, Hlw. replace (s_start c + (s_end c l - s_start c))%nat with (s_end c l) by lia.
      unfold from_end_wrap. destruct (c_from_end c).
      - rewrite Hloop; [reflexivity|]. rewrite rev_length, Hlw. lia.
      - rewrite Hloop; [reflexivity|]. rewrite Hlw. lia. }
    unfold s_start in *. subst n.
    destruct (c_seq c) eqn:S; subst l; cbn [elems] in *.
    - unfold slice. rewrite !skipn_nil, !firstn_nil. cbn [app]. unfold from_end_wrap.
      destruct (c_from_end c); destruct (s_limit (c_count c)) as [[|?]|]; reflexivity.
    - exact Hgen.
    - exact Hgen.
    - exact Hgen. }
  unfold m_call, s_call.
  destruct (c_fn c) eqn:F; try discriminate Hf; rewrite Hm; reflexivity.
Qed.
