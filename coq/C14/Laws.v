(* C14 — laws of the specification S itself: what find / position / count / remove / substitute /
   remove-duplicates / subsetp mean, proved for all lists, so that the reference cannot be quietly wrong. *)
From C14 Require Import Base Spec ProofsScan.
From Coq Require Import Arith.

(* ---- position and find ------------------------------------------------------------------------------ *)
Lemma index_of_sound : forall p l i, index_of p l = Some i ->
  (i < length l)%nat /\ p (nth i l 0) = true /\ forall j, (j < i)%nat -> p (nth j l 0) = false.
Proof.
  induction l as [|x t IH]; intros i H; [discriminate|]. cbn in H. destruct (p x) eqn:Px.
  - inversion H; subst. cbn. repeat split; [lia|exact Px|intros; lia].
  - destruct (index_of p t) as [k|] eqn:E; [|discriminate]. inversion H; subst.
    destruct (IH k eq_refl) as [A [B C]]. cbn [length nth]. repeat split; [lia|exact B|].
    intros [|j] Hj; [exact Px|]. apply C. lia.
Qed.

Lemma index_of_none : forall p l, index_of p l = None -> forall x, In x l -> p x = false.
Proof.
  intros p l H x Hx. apply find_none_index_none in H. eapply find_none in H; eauto.
Qed.

(* position without :from-end: the smallest index of the bounded part whose element matches *)
Theorem position_forward_law : forall p start w i,
  s_position p false start w = Some i ->
  (start <= i < start + length w)%nat /\ p (nth (i - start) w 0) = true /\
  forall j, (j < i - start)%nat -> p (nth j w 0) = false.
Proof.
  intros p start w i H. unfold s_position in H. destruct (index_of p w) as [k|] eqn:E; [|discriminate].
  inversion H; subst. destruct (index_of_sound _ _ _ E) as [A [B C]].
  replace (start + k - start)%nat with k by lia. repeat split; try lia; assumption.
Qed.

(* with :from-end: the largest *)
Theorem position_from_end_law : forall p start w i,
  s_position p true start w = Some i ->
  (start <= i < start + length w)%nat /\ p (nth (i - start) w 0) = true /\
  forall j, (i - start < j < length w)%nat -> p (nth j w 0) = false.
Proof.
  intros p start w i H. unfold s_position in H. destruct (index_of p (rev w)) as [k|] eqn:E; [|discriminate].
  inversion H; subst. destruct (index_of_sound _ _ _ E) as [A [B C]]. rewrite rev_length in A.
  replace (start + (length w - 1 - k) - start)%nat with (length w - 1 - k)%nat by lia.
  repeat split; try lia.
  - rewrite rev_nth in B by lia. replace (length w - S k)%nat with (length w - 1 - k)%nat in B by lia. exact B.
  - intros j Hj. specialize (C (length w - 1 - j)%nat ltac:(lia)).
    rewrite rev_nth in C by lia. replace (length w - S (length w - 1 - j))%nat with j in C by lia. exact C.
Qed.

Theorem position_none_law : forall p fe start w,
  s_position p fe start w = None <-> forall x, In x w -> p x = false.
Proof.
  intros p fe start w. unfold s_position. split.
  - intros H x Hx. destruct fe.
    + destruct (index_of p (rev w)) eqn:E; [discriminate|]. apply (index_of_none _ _ E). now apply -> in_rev.
    + destruct (index_of p w) eqn:E; [discriminate|]. now apply (index_of_none _ _ E).
  - intros H. assert (forall l, (forall x, In x l -> p x = false) -> index_of p l = None) as Hn.
    { induction l as [|y t IH]; intros Hl; [reflexivity|]. cbn. rewrite (Hl y (or_introl eq_refl)).
      rewrite IH; [reflexivity|]. intros; apply Hl; now right. }
    destruct fe; rewrite Hn; auto. intros x Hx. apply H. now apply in_rev.
Qed.

(* find returns the element at the position that position returns *)
Lemma find_index_nth : forall p l, find p l = match index_of p l with Some i => Some (nth i l 0) | None => None end.
Proof.
  induction l as [|x t IH]; [reflexivity|]. cbn. destruct (p x); [reflexivity|].
  rewrite IH. destruct (index_of p t); reflexivity.
Qed.
Theorem find_is_element_at_position : forall p fe start w,
  s_find p fe w = match s_position p fe start w with Some i => Some (nth (i - start) w 0) | None => None end.
Proof.
  intros. unfold s_find, s_position. destruct fe; rewrite find_index_nth.
  - destruct (index_of p (rev w)) as [k|] eqn:E; [|reflexivity]. cbn.
    destruct (index_of_sound _ _ _ E) as [A _]. rewrite rev_length in A.
    rewrite rev_nth by lia. f_equal. f_equal. lia.
  - destruct (index_of p w) as [k|]; [|reflexivity]. cbn. f_equal. f_equal. lia.
Qed.

(* count is the number of matching elements of the bounded part, whatever the direction *)
Theorem count_law : forall p w, s_count p w = length (filter p w) /\ s_count p (rev w) = s_count p w.
Proof. intros. split; [reflexivity|apply filter_rev_length]. Qed.
(* find succeeds exactly when count is positive *)
Theorem find_iff_count : forall p fe w, (exists x, s_find p fe w = Some x) <-> (0 < s_count p w)%nat.
Proof.
  intros p fe w. unfold s_count.
  assert (forall l, (exists x, find p l = Some x) <-> (0 < length (filter p l))%nat) as H.
  { induction l as [|y t IH]; cbn.
    - split; [intros [? ?]; discriminate|lia].
    - destruct (p y); cbn; [split; [lia|eauto]|exact IH]. }
  unfold s_find. destruct fe; [|apply H]. rewrite H. now rewrite filter_rev_length.
Qed.

Lemma rem_n_zero : forall p l, rem_n p (Some 0%nat) l = l.
Proof. destruct l; reflexivity. Qed.
Lemma filter_length_le' : forall (p : Z -> bool) l, (length (filter p l) <= length l)%nat.
Proof. induction l as [|x t IH]; cbn; [lia|]. destruct (p x); cbn; lia. Qed.

Lemma filter_none_id : forall (p : Z -> bool) t, filter p t = [] -> filter (fun x => negb (p x)) t = t.
Proof. induction t as [|y t IH]; [reflexivity|]. cbn. destruct (p y); [discriminate|]. cbn. intros H. now rewrite IH. Qed.

(* ---- remove ------------------------------------------------------------------------------------------- *)
(* without :count every matching element goes, the others stay in order *)
Theorem remove_all_law : forall p l, rem_n p None l = filter (fun x => negb (p x)) l.
Proof.
  induction l as [|x t IH]; [reflexivity|]. cbn. rewrite IH. destruct (p x); reflexivity.
Qed.
(* with :count n exactly the first n matching elements go: if the prefix a holds n of them, the
   result is a without its matching elements followed by the untouched rest *)
Theorem remove_count_law : forall p a b n, length (filter p a) = n ->
  rem_n p (Some n) (a ++ b) = filter (fun x => negb (p x)) a ++ b.
Proof.
  induction a as [|x t IH]; intros b n Hn.
  - cbn in Hn. subst. cbn. apply rem_n_zero.
  - cbn [app filter] in *. destruct (p x) eqn:Px.
    + cbn [length] in Hn. destruct n as [|n]; [discriminate|]. cbn [rem_n]. rewrite Px. cbn [negb option_map pred].
      apply IH. lia.
    + cbn [negb]. destruct n as [|n].
      * assert (filter p t = []) as Hf by (destruct (filter p t); [reflexivity|discriminate]).
        rewrite rem_n_zero. now rewrite (filter_none_id p t Hf).
      * cbn [rem_n]. rewrite Px. cbn [app]. f_equal. now apply IH.
Qed.
(* how many go *)
Theorem remove_length_law : forall p n l,
  length (rem_n p (Some n) l) = (length l - Nat.min n (length (filter p l)))%nat.
Proof.
  intros p n l. revert n. induction l as [|x t IH]; intros n; [destruct n; reflexivity|].
  destruct n as [|n]; [rewrite rem_n_zero; cbn; lia|].
  cbn [rem_n filter]. destruct (p x).
  - cbn [option_map pred length]. rewrite IH. cbn [length]. 
    pose proof (filter_length_le' p t). destruct (Nat.min_spec n (length (filter p t))) as [[? ->]|[? ->]];
    destruct (Nat.min_spec (S n) (S (length (filter p t)))) as [[? ->]|[? ->]]; lia.
  - cbn [length]. rewrite IH. pose proof (filter_length_le' p t).
    destruct (Nat.min_spec (S n) (length (filter p t))) as [[? ->]|[? ->]]; lia.
Qed.
(* nothing that does not match is ever removed, and the order is kept *)
Theorem remove_keeps_others : forall p n l,
  filter (fun x => negb (p x)) (rem_n p n l) = filter (fun x => negb (p x)) l.
Proof.
  intros p n l. revert n. induction l as [|x t IH]; intros n; [destruct n as [[|?]|]; reflexivity|].
  destruct n as [[|n]|]; [now rewrite rem_n_zero| |]; cbn [rem_n]; destruct (p x) eqn:Px; cbn [filter]; rewrite ?Px; cbn [negb]; rewrite IH; reflexivity.
Qed.

(* ---- substitute ----------------------------------------------------------------------------------------- *)
Theorem substitute_length_law : forall p new n l, length (sub_n p new n l) = length l.
Proof.
  intros p new n l. revert n. induction l as [|x t IH]; intros n; [destruct n as [[|?]|]; reflexivity|].
  destruct n as [[|n]|]; [reflexivity| |]; cbn [sub_n]; destruct (p x); cbn [length]; now rewrite IH.
Qed.
Theorem substitute_all_law : forall p new l, sub_n p new None l = map (fun x => if p x then new else x) l.
Proof. induction l as [|x t IH]; [reflexivity|]. cbn. rewrite IH. destruct (p x); reflexivity. Qed.
(* substitute touches exactly the elements remove would delete *)
Theorem substitute_vs_remove : forall p new n l,
  filter (fun x => negb (p x)) l = filter (fun x => negb (p x)) (rem_n p n l) /\
  length (sub_n p new n l) = length l.
Proof. intros. split; [symmetry; apply remove_keeps_others|apply substitute_length_law]. Qed.

(* ---- subsetp and set-difference ------------------------------------------------------------------------ *)
Theorem subsetp_iff_difference_empty : forall mt l1 l2,
  s_subsetp mt l1 l2 = true <-> filter (fun x => negb (existsb (fun y => mt x y) l2)) l1 = [].
Proof.
  intros mt l1 l2. unfold s_subsetp. induction l1 as [|x t IH]; cbn; [tauto|].
  destruct (existsb (fun y => mt x y) l2); cbn; [exact IH|split; discriminate].
Qed.
