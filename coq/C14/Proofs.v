(* C14 — the model meets the specification on the guard (all calls of the modelled functions), the
   sort checkers, the refutations outside the guard (known findings), non-vacuity examples. *)
From C14 Require Import Base Model Spec ProofsScan ProofsReverse ProofsRemove ProofsDups ProofsSort ProofsSets ProofsMisc ProofsSearch Laws.
From Coq Require Import Arith Permutation.

Definition has_model (f : fname) : bool := match f with FSort | FStableSort => false | _ => true end.
Definition relational (f : fname) : bool :=
  match f with FSort | FUnion | FIntersection | FSetDifference | FSubsetp | FReduce => true | _ => false end.

Lemma m_call_some : forall c, has_model (c_fn c) = true -> exists r, m_call c = Some r.
Proof.
  intros c H. unfold m_call. destruct (c_fn c); try discriminate H; eauto; destruct (parse_sfv c); eauto.
Qed.

Lemma functional_ok : forall c, relational (c_fn c) = false -> has_model (c_fn c) = true ->
  m_call c = s_call c -> exists r, m_call c = Some r /\ spec_ok c r = true.
Proof.
  intros c Hr Hm He. destruct (m_call_some c Hm) as [r Hs]. exists r. split; [exact Hs|].
  unfold spec_ok. rewrite <- He, Hs.
  destruct (c_fn c); try discriminate Hr; destruct r; try apply res_eqb_refl; reflexivity.
Qed.

(* Every call of a modelled function inside the guard: the Go code (as modelled) returns a result that
   the language definition admits — the same value for the functions S defines as functions, a member
   of the admitted set for union / intersection / set-difference. *)
Theorem model_meets_spec : forall c,
  has_model (c_fn c) = true -> in_domain c = true -> exists r, m_call c = Some r /\ spec_ok c r = true.
Proof.
  intros c Hm Hd.
  assert (s_is_if_not (c_fn c) = false) as NI.
  { destruct (s_is_if_not (c_fn c)) eqn:E; [|reflexivity]. exfalso. unfold in_domain in Hd.
    destruct (c_fn c); try discriminate E; rewrite andb_false_r in Hd; discriminate. }
  destruct (c_fn c) eqn:F; try discriminate Hm; try discriminate NI;
    try (apply functional_ok; [rewrite F; reflexivity|rewrite F; reflexivity|]);
    try (apply scan_meets_spec; [rewrite F; reflexivity|exact Hd]);
    try (apply remove_meets_spec; [rewrite F; reflexivity|exact Hd]);
    try (apply substitute_meets_spec; [rewrite F; reflexivity|exact Hd]);
    try (apply dups_meets_spec; [rewrite F; reflexivity|exact Hd]);
    try (apply member_meets_spec; [rewrite F; solve [auto]|exact Hd]);
    try (apply assoc_meets_spec; [rewrite F; reflexivity|exact Hd]);
    try (apply search_meets_spec; assumption);
    try (apply mismatch_meets_spec; assumption);
    try (apply subseq_meets_spec; assumption);
    try (apply replace_meets_spec; assumption);
    try (apply fill_meets_spec; assumption);
    try (apply reverse_meets_spec; rewrite F; solve [auto]);
    try (apply merge_meets_spec; assumption);
    try (apply quant_meets_spec; [rewrite F; reflexivity|exact Hd]);
    try (apply map_meets_spec; [rewrite F; solve [auto]|exact Hd]);
    try (apply concatenate_meets_spec; assumption);
    try (apply sets_meet_spec; [rewrite F; reflexivity|exact Hd]).
  (* reduce: S leaves (f) open on an empty part for the functions without an identity *)
  destruct (reduce_meets_spec c F Hd) as [r [H1 H2]]. exists r. split; [exact H1|].
  unfold spec_ok. rewrite F, H2. apply res_eqb_refl.
Qed.

(* sort / stable-sort have no model: what the harness observes is judged by these checkers *)
Theorem sort_checker : forall c ys, c_fn c = FSort ->
  (spec_ok c (RSeq ys) = true <-> sort_spec (s_test2 (c_test c)) (key_app (c_key c)) (elems (c_seq c)) ys).
Proof. intros c ys F. unfold spec_ok. rewrite F. apply sorted_perm_ok_iff. Qed.

Theorem stable_sort_checker : forall c ys, c_fn c = FStableSort -> test_strict (c_test c) = true ->
  (spec_ok c (RSeq ys) = true <-> stable_spec (s_test2 (c_test c)) (key_app (c_key c)) (elems (c_seq c)) ys).
Proof.
  intros c ys F T. unfold spec_ok, s_call. rewrite F. cbn [res_eqb].
  pose proof (swo_of_strict_test _ T) as W. rewrite list_eqb_eq. split.
  - intros <-. now apply isort_stable.
  - intros H. symmetry. now apply stable_unique.
Qed.

(* ---- refutations: outside the guard the faithful model leaves the specification -------------------------- *)
Definition refutes (c : call) : bool :=
  negb (in_domain c) && match m_call c with Some r => negb (spec_ok c r) | None => false end.
Definition P0 := PT TEql 0.
Definition mk (f : fname) (item new : Z) (p : predfn) (s1 s2 : seqin) (st en : option nat) (k : option keyfn)
  (t : testarg) (cn : countarg) (fe : bool) : call :=
  mkCall f item new p s1 s2 st en false None None k t cn fe BAdd None 1 false TrT.

(* (find 1 '(0 1 2) :test-not 'eql) => 0 (repaired: was a type-error) *)
(* (member 1 '(1 2) :test-not 'eql) => (2) (repaired: was a type-error; member has its own keyword loop) *)
Definition w_member_test_not := mk FMember 1 0 P0 (SList [1;2]) SNil None None None (TTestNot TEql) CAbsent false.
Definition w_test_not := mk FFind 1 0 P0 (SList [0;1;2]) SNil None None None (TTestNot TEql) CAbsent false.
(* (substitute 9 1 '(1 2) :test-not 'eql) => (1 9) (repaired: was (9 2), the keyword was ignored) *)
Definition w_subst_test_not := mk FSubstitute 1 9 P0 (SList [1;2]) SNil None None None (TTestNot TEql) CAbsent false.
(* (set-difference '(1 2) '(2) :test-not 'eql) => (2) (repaired: was (1)) *)
Definition w_setdiff_test_not := mk FSetDifference 0 0 P0 (SList [1;2]) (SList [2]) None None None (TTestNot TEql) CAbsent false.
(* (remove 1 '(1 2 1) :count nil) => (2) (repaired: was a type-error) *)
Definition w_count_nil := mk FRemove 1 0 P0 (SList [1;2;1]) SNil None None None TDefault CNil false.
(* (substitute 9 1 '(0 1 0 1) :count 1) => (0 9 0 1); :count 0 and a negative count replace nothing
   (repaired: were (0 1 0 1), (9 1), (9 9)) *)
Definition w_subst_count := mk FSubstitute 1 9 P0 (SList [0;1;0;1]) SNil None None None TDefault (CNum 1) false.
Definition w_subst_count0 := mk FSubstitute 1 9 P0 (SList [1;1]) SNil None None None TDefault (CNum 0) false.
Definition w_subst_count_neg := mk FSubstitute 1 9 P0 (SList [1;1]) SNil None None None TDefault (CNum (-1)) false.
(* (count #\d "d<e9>d") with a two-byte character => 2 (repaired: was an index out of range) *)
Definition w_count_utf8 := mk FCount 0 0 P0 (SStr [0;133;0]) SNil None None None TDefault CAbsent false.
(* (assoc 1 nil) => nil (repaired: was a type-error); (assoc 1 '((2 . 0)) :test '<) => (2 . 0) (repaired: was nil) *)
Definition w_assoc_nil := mk FAssoc 1 0 P0 SNil SNil None None None TDefault CAbsent false.
Definition w_assoc_order := mk FAssoc 1 0 P0 (SList [2]) (SList [0]) None None None (TTest TLt) CAbsent false.
(* (search '(1 2) '(1 2 3) :from-end t) => 0 (repaired: was nil); (search '() '(1 2 3) :start2 1) => 1 (repaired: was 0) *)
Definition w_search_from_end :=
  mkCall FSearch 0 0 P0 (SList [1;2]) (SList [1;2;3]) None None false None None None TDefault CAbsent true BAdd None 1 false TrNum.
Definition w_search_empty :=
  mkCall FSearch 0 0 P0 (SList []) (SList [1;2;3]) None None false (Some 1%nat) None None TDefault CAbsent false BAdd None 1 false TrNum.
(* (mismatch '(1 2 3 4) '(1 2 9 4) :from-end t) => 2; (mismatch '(1 2) '(1 2) :start1 2) => 2 (repaired: was an error) *)
Definition w_mismatch_from_end :=
  mkCall FMismatch 0 0 P0 (SList [1;2;3;4]) (SList [1;2;9;4]) None None false None None None TDefault CAbsent true BAdd None 1 false TrNum.
Definition w_mismatch_start :=
  mkCall FMismatch 0 0 P0 (SList [1;2]) (SList [1;2]) (Some 2%nat) None false None None None TDefault CAbsent false BAdd None 1 false TrNum.
(* (replace (list 1 2 3) '(9 9) :end1 3) => (9 9 3) (repaired: was an error); (fill (list 1 2 3) 0 :end 3) => error *)
Definition w_replace_end :=
  mkCall FReplace 0 0 P0 (SList [1;2;3]) (SList [9;9]) None (Some 3%nat) false None None None TDefault CAbsent false BAdd None 1 false TrNum.
Definition w_fill_end := mk FFill 0 0 P0 (SList [1;2;3]) SNil None (Some 3%nat) None TDefault CAbsent false.
(* (fill (list 1 2 3) 0 :start 3) => error *)
Definition w_fill_start := mk FFill 0 0 P0 (SList [1;2;3]) SNil (Some 3%nat) None None TDefault CAbsent false.
(* (subseq nil 0) => nil, (every (lambda (x) (eql 0 x)) nil) => t, (subsetp nil '(1)) => t (repaired: were type-errors) *)
Definition w_subseq_nil := mk FSubseq 0 0 P0 SNil SNil (Some 0%nat) None None TDefault CAbsent false.
Definition w_every_nil := mk FEvery 0 0 P0 SNil SNil None None None TDefault CAbsent false.
Definition w_subsetp_nil := mk FSubsetp 0 0 P0 SNil (SList [1]) None None None TDefault CAbsent false.
(* (reduce '+ nil :initial-value 5) => 5, (map 'list '1+ nil) => nil, (merge 'list nil '(1) '<) => (1)
   (repaired: were failed Go type assertions) *)
Definition w_reduce_nil :=
  mkCall FReduce 0 0 P0 SNil SNil None None false None None None TDefault CAbsent false BAdd (Some 5) 1 false TrT.
Definition w_map_nil := mk FMap 0 0 P0 SNil SNil None None (Some KSucc) TDefault CAbsent false.
Definition w_merge_nil := mk FMerge 0 0 P0 SNil (SList [1]) None None None (TTest TLt) CAbsent false.
(* (merge 'list '(-1) '(1) '< :key 'abs) => (-1 1) (repaired: was (1 -1)) *)
Definition w_merge_tie := mk FMerge 0 0 P0 (SList [-1]) (SList [1]) None None (Some KAbs) (TTest TLt) CAbsent false.
(* (some (lambda (x) (if (< 1 x) x nil)) '(1 2 3)) => 2 (repaired: was t) *)
Definition w_some_value :=
  mkCall FSome 0 0 (PT TLt 1) (SList [1;2;3]) SNil None None false None None None TDefault CAbsent false BAdd None 1 true TrNum.
(* (reduce '+ '()) => nil; (reduce '+ '(1 2 3) :start 3) => nil (was a type-error; the language says 0);
   (reduce '+ '(1 2 3) :start 3 :initial-value 7) => 7 (repaired: was a type-error) *)
Definition w_reduce_empty := mk FReduce 0 0 P0 (SList []) SNil None None None TDefault CAbsent false.
Definition w_reduce_start := mk FReduce 0 0 P0 (SList [1;2;3]) SNil (Some 3%nat) None None TDefault CAbsent false.
Definition w_reduce_start_init :=
  mkCall FReduce 0 0 P0 (SList [1;2;3]) SNil (Some 3%nat) None false None None None TDefault CAbsent false BAdd (Some 7) 1 false TrT.
(* (remove-duplicates '(1 2 1) :test '/=) => (1) (repaired: was (1 1)); (remove-duplicates '(1 2 3) :test '< :from-end t) => (1 2 3) *)
Definition w_dups_ne := mk FRemoveDuplicates 0 0 P0 (SList [1;2;1]) SNil None None None (TTest TNe) CAbsent false.
Definition w_dups_from_end := mk FRemoveDuplicates 0 0 P0 (SList [1;2;3]) SNil None None None (TTest TLt) CAbsent true.

(* (remove-if-not (lambda (x) (eql 0 x)) '(0 1 2)) => undefined-function, the language says (0) *)
Definition w_remove_if_not := mk FRemoveIfNot 0 0 P0 (SList [0;1;2]) SNil None None None TDefault CAbsent false.
Definition w_find_if_not := mk FFindIfNot 0 0 P0 (SVec [0;1;2]) SNil None None None TDefault CAbsent false.

Definition refutation_witnesses : list call :=
  [w_remove_if_not; w_find_if_not;
   w_mismatch_from_end;
   w_fill_end; w_fill_start;
   w_reduce_empty; w_reduce_start; w_dups_from_end].

(* set-difference is a relation in S: the repaired witness is judged by the checker *)
Lemma setdiff_test_not_repaired :
  in_domain w_setdiff_test_not = true /\ m_call w_setdiff_test_not = Some (RSeq [2]) /\ spec_ok w_setdiff_test_not (RSeq [2]) = true.
Proof. vm_compute. repeat split; reflexivity. Qed.

Lemma all_refuted : forallb refutes refutation_witnesses = true.
Proof. vm_compute. reflexivity. Qed.

Lemma refuted_values :
  map m_call [w_mismatch_from_end; w_reduce_empty] =
  [Some (RInt 2); Some RNil] /\
  map s_call [w_mismatch_from_end; w_reduce_empty] =
  [Some (RInt 3); Some (RElt 0)].
Proof. vm_compute. split; reflexivity. Qed.

(* ---- repaired defects: the witnesses of the findings repaired in slip (repo_fixes/C14-n.patch) are now inside
   the guard, and the model of the repaired code returns the value the language defines ------------------ *)
Definition repaired_witnesses : list (call * res) :=
  [ (w_count_utf8, RInt 2); (w_count_nil, RSeq [2]); (w_assoc_nil, RNil);
    (w_subseq_nil, RSeq []); (w_every_nil, RTrue); (w_subsetp_nil, RTrue); (w_reduce_nil, RElt 5);
    (w_map_nil, RSeq []); (w_merge_nil, RSeq [1]); (w_search_from_end, RInt 0); (w_search_empty, RInt 1);
    (w_mismatch_start, RInt 2); (w_replace_end, RSeq [9;9;3]);
    (w_reduce_start_init, RElt 7); (w_some_value, RElt 2); (w_assoc_order, RSeq [2;0]);
    (w_merge_tie, RSeq [-1;1]); (w_subst_count, RSeq [0;9;0;1]); (w_subst_count0, RSeq [1;1]);
    (w_subst_count_neg, RSeq [1;1]); (w_dups_ne, RSeq [1]); (w_test_not, RElt 0);
    (w_subst_test_not, RSeq [1;9]); (w_member_test_not, RSeq [2]) ].
Definition repaired_ok (cr : call * res) : bool :=
  in_domain (fst cr) &&
  match m_call (fst cr), s_call (fst cr) with
  | Some m, Some s => res_eqb m (snd cr) && res_eqb s (snd cr)
  | _, _ => false
  end.
Lemma repaired_all : forallb repaired_ok repaired_witnesses = true.
Proof. vm_compute. reflexivity. Qed.

(* ---- non-vacuity: calls inside the guard with every keyword in play ------------------------------------------- *)
Definition ex_calls : list call :=
  [ mk FFind 1 0 P0 (SVec [0;-1;1;2]) SNil (Some 1%nat) (Some 3%nat) (Some KAbs) (TTest TEq) CAbsent true;
    mk FPosition 0 0 P0 (SStr [2;0;1;0;2]) SNil (Some 1%nat) None None (TTest TLt) CAbsent true;
    mk FCountIf 0 0 (PT TLe 1) (SList [0;1;2;1;3]) SNil (Some 1%nat) (Some 4%nat) (Some KSucc) TDefault CAbsent false;
    mk FRemove 1 0 P0 (SList [1;0;1;2;1;1]) SNil (Some 1%nat) (Some 5%nat) None TDefault (CNum 2) true;
    mk FSubstituteIf 0 7 (PT TLt 0) (SStr [0;1;-1;2]) SNil (Some 1%nat) None (Some KNeg) TDefault CAbsent false;
    mk FRemoveDuplicates 0 0 P0 (SVec [1;-1;2;1;-2]) SNil None None (Some KAbs) (TTest TEq) CAbsent false;
    mk FRemoveDuplicates 0 0 P0 (SList [1;2;3;2]) SNil None None None (TTest TLt) CAbsent false;
    mkCall FSearch 0 0 P0 (SList [9;1;2]) (SList [1;2;0;1;2;5]) (Some 1%nat) None false (Some 1%nat) None None TDefault CAbsent true BAdd None 1 false TrNum;
    mkCall FMismatch 0 0 P0 (SStr [1;2;3]) (SStr [0;1;2;4]) None None false (Some 1%nat) None None (TTest TEq) CAbsent false BAdd None 1 false TrNum;
    mkCall FReduce 0 0 P0 (SVec [1;2;3;4]) SNil (Some 1%nat) None false None None (Some KSucc) TDefault CAbsent true BSub (Some 10) 1 false TrNum;
    mk FMerge 0 0 P0 (SList [3;1]) (SList [4;2;0]) None None None (TTest TGt) CAbsent false;
    mk FUnion 0 0 P0 (SList [1;-1;2]) (SList [-2;3]) None None (Some KAbs) TDefault CAbsent false;
    mk FAssoc 2 0 P0 (SList [1;2;3]) (SList [7;8;9]) None None (Some KSucc) (TTest TEq) CAbsent false ].

Lemma examples_in_domain : forallb in_domain ex_calls = true.
Proof. vm_compute. reflexivity. Qed.
Lemma examples_values :
  map m_call ex_calls =
  [ Some (RElt 1); Some (RInt 4); Some (RInt 3); Some (RSeq [1;0;2;1]); Some (RSeq [0;1;7;2]); Some (RSeq [1;-2]);
    Some (RSeq [3;2]); Some (RInt 3); Some (RInt 2); Some (RElt (-6)); Some (RSeq [4;3;2;1;0]); Some (RSeq [1;2;3]);
    Some (RSeq [1;7]) ].
Proof. vm_compute. reflexivity. Qed.

(* sort: Go's result for '(2 -1 1 -2) under < on abs may be any of the orderings of equal keys; the
   stable one is (-1 1 2 -2) *)
Lemma sort_examples :
  sorted_perm_ok Z.ltb Z.abs [2;-1;1;-2] [1;-1;-2;2] = true /\
  stable_ok Z.ltb Z.abs [2;-1;1;-2] [1;-1;-2;2] = false /\
  stable_ok Z.ltb Z.abs [2;-1;1;-2] [-1;1;2;-2] = true /\
  s_isort Z.ltb Z.abs [2;-1;1;-2] = [-1;1;2;-2] /\
  sorted_perm_ok Z.ltb Z.abs [2;-1;1;-2] [-1;1;2] = false.
Proof. vm_compute. repeat split; reflexivity. Qed.

(* ---- uniformity over the representations ------------------------------------------------------------------ *)
Lemma elems_in_form : forall f s, elems (in_form f s) = elems s.
Proof. intros f s. destruct f; cbn; try reflexivity. destruct (elems s) eqn:E; cbn; congruence. Qed.

Lemma s_call_form : forall f g c, s_call (with_form f c) = s_call (with_form g c).
Proof.
  intros f g c. unfold s_call, s_assoc, s_search, s_mismatch, s_replace, s_reduce, s_quant_vals, s_map_vals, s_mt,
    s_match, s_start, s_end, s_start2, s_end2, with_form.
  cbn [c_fn c_item c_new c_pred c_seq c_seq2 c_start c_end c_end_nil c_start2 c_end2 c_key c_test c_count c_from_end c_op c_init c_nseq c_flag c_truth].
  rewrite !elems_in_form. reflexivity.
Qed.

Lemma errc_eqb_eq : forall a b, errc_eqb a b = true -> a = b.
Proof. destruct a, b; cbn; congruence. Qed.
Lemma res_eqb_eq : forall a b, res_eqb a b = true -> a = b.
Proof.
  destruct a, b; cbn; try discriminate; try reflexivity; intros H.
  - apply Z.eqb_eq in H. now subst.
  - apply Z.eqb_eq in H. now subst.
  - apply list_eqb_eq in H. now subst.
  - apply errc_eqb_eq in H. now subst.
Qed.

Definition single_valued (f : fname) : bool :=
  match f with FSort | FStableSort | FUnion | FIntersection | FSetDifference => false | _ => true end.

(* Two calls that differ only in how the sequences are represented (nil / list / vector / string) and
   are both inside the guard return the same value, for every function whose result S determines. *)
Theorem uniform_results : forall c f g s,
  single_valued (c_fn c) = true ->
  in_domain (with_form f c) = true -> in_domain (with_form g c) = true ->
  s_call (with_form f c) = Some s ->
  m_call (with_form f c) = Some s /\ m_call (with_form g c) = Some s.
Proof.
  intros c f g s Hs Df Dg Sf.
  assert (forall h, in_domain (with_form h c) = true -> s_call (with_form h c) = Some s -> m_call (with_form h c) = Some s) as H.
  { intros h Dh Sh.
    assert (c_fn (with_form h c) = c_fn c) as Fh by reflexivity.
    destruct (model_meets_spec (with_form h c)) as [r [Hr Ho]]; [rewrite Fh; destruct (c_fn c); try discriminate Hs; reflexivity|exact Dh|].
    rewrite Hr. f_equal. unfold spec_ok in Ho. rewrite Fh, Sh in Ho.
    destruct (c_fn c); try discriminate Hs; destruct r; try (apply res_eqb_eq in Ho; now symmetry); discriminate Ho. }
  split; [now apply H|]. apply H; [exact Dg|]. now rewrite (s_call_form g f).
Qed.

(* ---- after the repairs the guard of the item / -if / two-sequence families is nothing but "bounds in range,
   characters representable, only keywords the function has" ------------------------------------------------ *)
Definition bounds_only (f : fname) : bool :=
  match f with
  | FFind | FFindIf | FPosition | FPositionIf | FCount | FCountIf
  | FRemove | FRemoveIf | FDelete | FDeleteIf
  | FSubstitute | FSubstituteIf | FNsubstitute | FNsubstituteIf
  | FSearch | FSubseq | FReplace | FReverse | FNreverse | FMap | FConcatenate => true
  | _ => false
  end.
Lemma guard_is_bounds : forall c, bounds_only (c_fn c) = true ->
  in_domain c = bounds_ok c && seq_ok (c_seq c) && seq_ok (c_seq2 c) && keywords_ok c &&
                match c_fn c with FSearch | FReplace => bounds2_ok c | _ => true end.
Proof. intros c H. unfold in_domain. destruct (c_fn c); try discriminate H; reflexivity. Qed.
(* so for these functions: every in-range call with any combination of :start :end :key :test :test-not
   :count :from-end (:start2 :end2) returns exactly the value of the specification *)
Theorem in_range_calls_meet_spec : forall c, bounds_only (c_fn c) = true ->
  bounds_ok c = true -> seq_ok (c_seq c) = true -> seq_ok (c_seq2 c) = true -> keywords_ok c = true ->
  match c_fn c with FSearch | FReplace => bounds2_ok c | _ => true end = true ->
  m_call c = s_call c /\ exists r, s_call c = Some r.
Proof.
  intros c H B S1 S2 K B2.
  assert (in_domain c = true) as Hd by (rewrite guard_is_bounds by exact H; now rewrite B, S1, S2, K, B2).
  assert (has_model (c_fn c) = true) as Hm by (destruct (c_fn c); try discriminate H; reflexivity).
  destruct (model_meets_spec c Hm Hd) as [r [Hr Ho]].
  assert (exists s, s_call c = Some s) as [s Hs].
  { unfold s_call. destruct (c_fn c); try discriminate H; eauto. }
  split; [|eauto]. rewrite Hr, Hs. f_equal.
  unfold spec_ok in Ho. rewrite Hs in Ho.
  destruct (c_fn c); try discriminate H; symmetry; now apply res_eqb_eq.
Qed.

(* ---- statements packaged for Properties.v ------------------------------------------------------------------- *)
Lemma stable_sort_exists_unique : forall lt k, swo lt -> forall xs,
  stable_spec lt k xs (s_isort lt k xs) /\ forall ys, stable_spec lt k xs ys -> ys = s_isort lt k xs.
Proof. intros lt k W xs. split; [exact (isort_stable lt k W xs)|exact (stable_unique lt k W xs)]. Qed.
Lemma reverse_loops : forall l, m_reverse_list l = rev l /\ go_reverse l = rev l.
Proof. intros l. split; [exact (m_reverse_is_rev l)|exact (go_reverse_is_rev l)]. Qed.

Lemma if_not_missing_refuted : refutes w_remove_if_not = true /\ refutes w_find_if_not = true /\
  m_call w_remove_if_not = Some (RErr EUndefined) /\ s_call w_remove_if_not = Some (RSeq [0]) /\ s_call w_find_if_not = Some (RElt 1).
Proof. vm_compute. repeat split; reflexivity. Qed.
Lemma mismatch_refuted : refutes w_mismatch_from_end = true.
Proof. vm_compute. reflexivity. Qed.
Lemma fill_end_refuted : refutes w_fill_end = true /\ refutes w_fill_start = true.
Proof. vm_compute. split; reflexivity. Qed.
Lemma reduce_refuted : refutes w_reduce_empty = true /\ refutes w_reduce_start = true.
Proof. vm_compute. split; reflexivity. Qed.
Lemma remove_duplicates_refuted : refutes w_dups_from_end = true.
Proof. vm_compute. reflexivity. Qed.
Lemma guard_nonvacuous : forallb in_domain ex_calls = true /\
  map m_call ex_calls =
  [ Some (RElt 1); Some (RInt 4); Some (RInt 3); Some (RSeq [1;0;2;1]); Some (RSeq [0;1;7;2]); Some (RSeq [1;-2]);
    Some (RSeq [3;2]); Some (RInt 3); Some (RInt 2); Some (RElt (-6)); Some (RSeq [4;3;2;1;0]); Some (RSeq [1;2;3]);
    Some (RSeq [1;7]) ].
Proof. split; [exact examples_in_domain|exact examples_values]. Qed.

(* ---- generalized booleans -------------------------------------------------------------------------------- *)
(* whatever object the called function uses for "true", the Go reading (!= nil) and the language's
   reading (not nil) are the boolean the model and the specification compute with *)
Lemma answer_decided : forall s b, go_decides (answer s b) = b /\ truthy (answer s b) = b.
Proof. intros s [|]; destruct s; split; reflexivity. Qed.
Lemma test_answer_decided : forall s t a b p x,
  go_decides (answer s (test_app t a b)) = test_app t a b /\ truthy (answer s (pred_app p x)) = pred_app p x.
Proof. intros. split; apply answer_decided. Qed.
(* a comparison with the symbol t is a different function as soon as the answer is not t *)
Lemma is_t_differs : forall s, s <> TrT -> is_t_g (answer s true) = false /\ not_nil_g (answer s true) = true.
Proof. intros s H. destruct s; try contradiction; split; reflexivity. Qed.
