From C14 Require Import Base Model Spec.
Lemma placeholder : True. Proof. exact I. Qed.
