(* C14 — union intersection set-difference subsetp: the checkers decide the specification (a relation:
   the language leaves order and duplicates open) and the Go loops meet it on the guard. *)
From C14 Require Import Base Model Spec ProofsScan.
From Coq Require Import Arith.

Lemma mem_In : forall x l, mem x l = true <-> In x l.
Proof.
  intros. unfold mem. rewrite existsb_exists. split.
  - intros [y [Hy E]]. apply Z.eqb_eq in E. now subst.
  - intros H. exists x. split; [exact H|apply Z.eqb_refl].
Qed.

(* ---- the specifications as propositions --------------------------------------------------------------- *)
Definition same (mt : Z -> Z -> bool) (x z : Z) : Prop := mt x z = true \/ mt z x = true.
Definition represented (mt : Z -> Z -> bool) (x : Z) (r : list Z) : Prop := In x r \/ exists z, In z r /\ same mt x z.
(* no two elements at different positions that the test cannot tell apart *)
Fixpoint DupFree (mt : Z -> Z -> bool) (l : list Z) : Prop :=
  match l with [] => True | x :: t => (forall z, In z t -> ~ same mt x z) /\ DupFree mt t end.

Definition union_spec (mt : Z -> Z -> bool) (l1 l2 r : list Z) : Prop :=
  (forall z, In z r -> In z l1 \/ In z l2) /\
  (forall x, In x l1 \/ In x l2 -> represented mt x r) /\
  (DupFree mt l1 -> DupFree mt l2 -> DupFree mt r).
Definition intersection_spec (mt : Z -> Z -> bool) (l1 l2 r : list Z) : Prop :=
  (forall z, In z r -> (In z l1 /\ exists y, In y l2 /\ mt z y = true) \/ (In z l2 /\ exists x, In x l1 /\ mt x z = true)) /\
  (forall x y, In x l1 -> In y l2 -> mt x y = true -> In y r \/ represented mt x r) /\
  (DupFree mt l1 -> DupFree mt l2 -> DupFree mt r).
Definition set_difference_spec (mt : Z -> Z -> bool) (l1 l2 r : list Z) : Prop :=
  forall z, In z r <-> (In z l1 /\ forall y, In y l2 -> mt z y = false).
Definition subsetp_spec (mt : Z -> Z -> bool) (l1 l2 : list Z) : Prop :=
  forall x, In x l1 -> exists y, In y l2 /\ mt x y = true.

Lemma same_under_iff : forall mt x z, same_under mt x z = true <-> same mt x z.
Proof. intros. unfold same_under, same. now rewrite orb_true_iff. Qed.

Lemma dup_free_iff : forall mt l, dup_free mt l = true <-> DupFree mt l.
Proof.
  intros mt. induction l as [|x t IH]; cbn; [tauto|].
  rewrite andb_true_iff, IH, negb_true_iff. split; intros [H1 H2]; split; auto.
  - intros z Hz Hs. apply same_under_iff in Hs.
    assert (existsb (same_under mt x) t = true) by (apply existsb_exists; eauto). congruence.
  - destruct (existsb (same_under mt x) t) eqn:E; [|reflexivity].
    apply existsb_exists in E as [z [Hz Hs]]. apply same_under_iff in Hs. exfalso. exact (H1 z Hz Hs).
Qed.

Lemma represented_iff : forall mt x r, mem x r || existsb (same_under mt x) r = true <-> represented mt x r.
Proof.
  intros. unfold represented. rewrite orb_true_iff, mem_In, existsb_exists. split.
  - intros [H|[z [Hz Hs]]]; [now left|]. right. exists z. split; [exact Hz|now apply same_under_iff].
  - intros [H|[z [Hz Hs]]]; [now left|]. right. exists z. split; [exact Hz|now apply same_under_iff].
Qed.

Lemma implb_iff : forall a b : bool, negb a || b = true <-> (a = true -> b = true).
Proof. destruct a, b; cbn; intuition congruence. Qed.

Theorem union_ok_iff : forall mt l1 l2 r, union_ok mt l1 l2 r = true <-> union_spec mt l1 l2 r.
Proof.
  intros. unfold union_ok, union_spec. rewrite !andb_true_iff, !forallb_forall, implb_iff, andb_true_iff, !dup_free_iff.
  split.
  - intros [[H1 H2] H3]. split; [|split].
    + intros z Hz. specialize (H1 z Hz). apply orb_true_iff in H1. now rewrite !mem_In in H1.
    + intros x Hx. apply represented_iff. apply H2. now apply in_or_app.
    + intros A B. apply H3. now split.
  - intros [H1 [H2 H3]]. split; [split|].
    + intros z Hz. apply orb_true_iff. rewrite !mem_In. now apply H1.
    + intros x Hx. apply represented_iff. apply H2. now apply in_app_or.
    + intros [A B]. now apply H3.
Qed.

Theorem intersection_ok_iff : forall mt l1 l2 r, intersection_ok mt l1 l2 r = true <-> intersection_spec mt l1 l2 r.
Proof.
  intros. unfold intersection_ok, intersection_spec.
  rewrite !andb_true_iff, !forallb_forall, implb_iff, andb_true_iff, !dup_free_iff.
  split.
  - intros [[H1 H2] H3]. split; [|split].
    + intros z Hz. specialize (H1 z Hz). apply orb_true_iff in H1 as [H|H]; apply andb_true_iff in H as [Ha Hb];
        apply mem_In in Ha; apply existsb_exists in Hb as [w [Hw Hm]]; [left|right]; split; eauto.
    + intros x y Hx Hy Hm. specialize (H2 x Hx). rewrite forallb_forall in H2. specialize (H2 y Hy).
      rewrite Hm in H2. cbn [negb orb] in H2.
      apply orb_true_iff in H2 as [H2|H2].
      * apply orb_true_iff in H2 as [H2|H2]; apply mem_In in H2; [right; now left|now left].
      * right. right. apply existsb_exists in H2 as [z [Hz Hs]]. exists z. split; [exact Hz|now apply same_under_iff].
    + intros A B. apply H3. now split.
  - intros [H1 [H2 H3]]. split; [split|].
    + intros z Hz. apply orb_true_iff. destruct (H1 z Hz) as [[Ha [w [Hw Hm]]]|[Ha [w [Hw Hm]]]]; [left|right];
        apply andb_true_iff; (split; [now apply mem_In|apply existsb_exists; eauto]).
    + intros x Hx. apply forallb_forall. intros y Hy. destruct (mt x y) eqn:Hm; [|reflexivity]. cbn [negb orb].
      destruct (H2 x y Hx Hy Hm) as [H|[H|[z [Hz Hs]]]].
      * apply orb_true_iff. left. apply orb_true_iff. right. now apply mem_In.
      * apply orb_true_iff. left. apply orb_true_iff. left. now apply mem_In.
      * apply orb_true_iff. right. apply existsb_exists. exists z. split; [exact Hz|now apply same_under_iff].
    + intros [A B]. now apply H3.
Qed.

Theorem set_difference_ok_iff : forall mt l1 l2 r, set_difference_ok mt l1 l2 r = true <-> set_difference_spec mt l1 l2 r.
Proof.
  intros. unfold set_difference_ok, set_difference_spec. rewrite andb_true_iff, !forallb_forall.
  assert (forall z, In z (filter (fun x => negb (existsb (fun y => mt x y) l2)) l1) <-> (In z l1 /\ forall y, In y l2 -> mt z y = false)) as Hf.
  { intros z. rewrite filter_In, negb_true_iff. split; intros [Ha Hb]; (split; [exact Ha|]).
    - intros y Hy. destruct (mt z y) eqn:E; [|reflexivity].
      assert (existsb (fun y => mt z y) l2 = true) by (apply existsb_exists; eauto). congruence.
    - destruct (existsb (fun y => mt z y) l2) eqn:E; [|reflexivity].
      apply existsb_exists in E as [y [Hy Hm]]. rewrite (Hb y Hy) in Hm. discriminate. }
  split.
  - intros [H1 H2] z. rewrite <- Hf. split; intros H; [apply mem_In; now apply H1|apply mem_In; now apply H2].
  - intros H. split; intros z Hz; apply mem_In.
    + apply Hf. now apply H.
    + apply H. now apply Hf.
Qed.

Theorem s_subsetp_iff : forall mt l1 l2, s_subsetp mt l1 l2 = true <-> subsetp_spec mt l1 l2.
Proof.
  intros. unfold s_subsetp, subsetp_spec. rewrite forallb_forall. split; intros H x Hx; specialize (H x Hx).
  - now apply existsb_exists in H.
  - now apply existsb_exists.
Qed.

(* ---- the Go loops --------------------------------------------------------------------------------------- *)
(* for an equivalence test the test on keys is equality of keys *)
Lemma equivalence_test_eq : forall t a b, test_equivalence t = true -> test2 t a b = (a =? b).
Proof. intros [|[]|[]] a b H; try discriminate; reflexivity. Qed.
Lemma s_test2_test2 : forall t a b, s_test2 t a b = test2 t a b.
Proof. destruct t; reflexivity. Qed.

Section UnionLoop.
  Variables (t : testarg) (k : option keyfn).
  Hypothesis Ht : test_equivalence t = true.
  Local Notation key := (key_app k).
  Local Notation mt := (fun x y => s_test2 t (key x) (key y)).

  Lemma mt_eq : forall x y, mt x y = (key x =? key y).
  Proof. intros. cbn beta. rewrite s_test2_test2. now apply equivalence_test_eq. Qed.
  Lemma same_eq : forall x z, same mt x z <-> key x = key z.
  Proof.
    intros. unfold same. rewrite !mt_eq, !Z.eqb_eq. split; [intros [H|H]; congruence|now left].
  Qed.

  Lemma existsb_keys : forall K kx, existsb (fun u => test2 t u kx) K = true <-> In kx K.
  Proof.
    intros. rewrite existsb_exists. split.
    - intros [u [Hu E]]. rewrite equivalence_test_eq in E by exact Ht. apply Z.eqb_eq in E. now subst.
    - intros H. exists kx. split; [exact H|]. rewrite equivalence_test_eq by exact Ht. apply Z.eqb_refl.
  Qed.

  (* keys of a list pairwise different *)
  Lemma DupFree_keys : forall l, NoDup (map key l) -> DupFree mt l.
  Proof.
    induction l as [|x r IH]; cbn; [trivial|]. intros H. inversion H as [|? ? Hn Hd]; subst. split; [|now apply IH].
    intros z Hz Hs. apply same_eq in Hs. apply Hn. rewrite Hs. now apply in_map.
  Qed.

  Lemma union_loop_spec : forall l K,
    let r := m_union_loop t k l K in
    (forall z, In z r -> In z l) /\
    (forall x, In x l -> In (key x) K \/ exists z, In z r /\ key z = key x) /\
    NoDup (map key r) /\ (forall z, In z r -> ~ In (key z) K).
  Proof.
    induction l as [|x rest IH]; intros K; cbn [m_union_loop].
    - cbn. repeat split; try tauto; try constructor.
    - destruct (existsb (fun u => test2 t u (key x)) K) eqn:E.
      + apply existsb_keys in E. destruct (IH K) as [A [B [C D]]]. repeat split; auto.
        * intros z Hz. right. now apply A.
        * intros y [<-|Hy]; [now left|now apply B].
      + assert (~ In (key x) K) as Hn by (intro H; apply existsb_keys in H; congruence).
        destruct (IH (K ++ [key x])) as [A [B [C D]]]. repeat split.
        * intros z [<-|Hz]; [now left|right; now apply A].
        * intros y [<-|Hy]; [right; exists x; split; [now left|reflexivity]|].
          destruct (B y Hy) as [H|[z [Hz Hk]]].
          -- apply in_app_or in H as [H|[H|[]]]; [now left|]. right. exists x. split; [now left|exact H].
          -- right. exists z. split; [now right|exact Hk].
        * cbn [map]. constructor; [|exact C]. intros H. apply in_map_iff in H as [z [Hk Hz]].
          apply (D z Hz). apply in_or_app. right. left. now symmetry.
        * intros z [<-|Hz]; [exact Hn|]. intros H. apply (D z Hz). apply in_or_app. now left.
  Qed.

  Lemma m_union_ok : forall l1 l2, union_spec mt l1 l2 (m_union_loop t k (l1 ++ l2) []).
  Proof.
    intros. destruct (union_loop_spec (l1 ++ l2) []) as [A [B [C D]]]. split; [|split].
    - intros z Hz. apply in_app_or. now apply A.
    - intros x Hx. destruct (B x (in_or_app _ _ _ Hx)) as [[]|[z [Hz Hk]]].
      right. exists z. split; [exact Hz|]. apply same_eq. now symmetry.
    - intros _ _. now apply DupFree_keys.
  Qed.

  Lemma inter_loop_spec : forall l1 keys2 K,
    let r := m_inter_loop t k l1 keys2 K in
    (forall z, In z r -> In z l1 /\ In (key z) keys2) /\
    (forall x, In x l1 -> In (key x) keys2 -> In (key x) K \/ exists z, In z r /\ key z = key x) /\
    NoDup (map key r) /\ (forall z, In z r -> ~ In (key z) K).
  Proof.
    induction l1 as [|x rest IH]; intros keys2 K; cbn [m_inter_loop].
    - cbn. repeat split; try tauto; try constructor.
    - destruct (existsb (fun u => test2 t u (key x)) K) eqn:E.
      + apply existsb_keys in E. destruct (IH keys2 K) as [A [B [C D]]]. repeat split; auto.
        * right. now apply A.
        * now apply A.
        * intros y [<-|Hy] H2; [now left|now apply B].
      + assert (~ In (key x) K) as Hn by (intro H; apply existsb_keys in H; congruence).
        destruct (existsb (fun k2 => test2 t (key x) k2) keys2) eqn:E2.
        * assert (In (key x) keys2) as Hin.
          { apply existsb_exists in E2 as [u [Hu Hm]]. rewrite equivalence_test_eq in Hm by exact Ht.
            apply Z.eqb_eq in Hm. now subst. }
          destruct (IH keys2 (K ++ [key x])) as [A [B [C D]]]. repeat split.
          -- destruct H as [<-|Hz]; [now left|right; now apply A].
          -- destruct H as [<-|Hz]; [exact Hin|now apply A].
          -- intros y [<-|Hy] H2; [right; exists x; split; [now left|reflexivity]|].
             destruct (B y Hy H2) as [H|[z [Hz Hk]]].
             ++ apply in_app_or in H as [H|[H|[]]]; [now left|]. right. exists x. split; [now left|exact H].
             ++ right. exists z. split; [now right|exact Hk].
          -- cbn [map]. constructor; [|exact C]. intros H. apply in_map_iff in H as [z [Hk Hz]].
             apply (D z Hz). apply in_or_app. right. left. now symmetry.
          -- intros z [<-|Hz]; [exact Hn|]. intros H. apply (D z Hz). apply in_or_app. now left.
        * destruct (IH keys2 K) as [A [B [C D]]]. repeat split; auto.
          -- right. now apply A.
          -- now apply A.
          -- intros y [<-|Hy] H2; [|now apply B].
             exfalso. assert (existsb (fun k2 => test2 t (key x) k2) keys2 = true); [|congruence].
             apply existsb_exists. exists (key x). split; [exact H2|].
             rewrite equivalence_test_eq by exact Ht. apply Z.eqb_refl.
  Qed.

  Lemma m_inter_ok : forall l1 l2, intersection_spec mt l1 l2 (m_inter_loop t k l1 (map key l2) []).
  Proof.
    intros. destruct (inter_loop_spec l1 (map key l2) []) as [A [B [C D]]]. split; [|split].
    - intros z Hz. left. destruct (A z Hz) as [H1 H2]. split; [exact H1|].
      apply in_map_iff in H2 as [y [Hk Hy]]. exists y. split; [exact Hy|]. rewrite mt_eq. apply Z.eqb_eq. now symmetry.
    - intros x y Hx Hy Hm. right. rewrite mt_eq in Hm. apply Z.eqb_eq in Hm.
      destruct (B x Hx) as [[]|[z [Hz Hk]]]; [rewrite Hm; now apply in_map|].
      right. exists z. split; [exact Hz|]. apply same_eq. now symmetry.
    - intros _ _. now apply DupFree_keys.
  Qed.
End UnionLoop.

(* ---- the calls ---------------------------------------------------------------------------------------- *)
Lemma existsb_map_keys : forall t k kx l2,
  existsb (fun k2 => test2 t kx k2) (map (key_app k) l2) = existsb (fun y => s_test2 t kx (key_app k y)) l2.
Proof.
  induction l2 as [|y r IH]; [reflexivity|]. cbn [map existsb]. rewrite IH. destruct t; reflexivity.
Qed.

Lemma forallb_ext' : forall (f g : Z -> bool) l, (forall x, f x = g x) -> forallb f l = forallb g l.
Proof. intros f g l H. induction l as [|x t IH]; [reflexivity|]. cbn. now rewrite H, IH. Qed.

Definition is_set_fn (f : fname) : bool :=
  match f with FUnion | FIntersection | FSetDifference | FSubsetp => true | _ => false end.

Lemma intersection_spec_nil_l : forall mt l2, intersection_spec mt [] l2 [].
Proof. intros. split; [|split]; cbn; intros; tauto. Qed.
Lemma intersection_spec_nil_r : forall mt l1, intersection_spec mt l1 [] [].
Proof. intros. split; [|split]; cbn; intros; tauto. Qed.

Theorem sets_meet_spec : forall c,
  is_set_fn (c_fn c) = true -> in_domain c = true -> exists r, m_call c = Some r /\ spec_ok c r = true.
Proof.
  intros c Hf Hd.
  assert (Hb := Hd). split_dom Hb D2 D1 D0 D.
  destruct (c_fn c) eqn:F; try discriminate Hf; cbn in D.
  - (* union *)
    apply andb_true_iff in D as [D Dt]. apply andb_true_iff in D as [L1 L2].
    exists (m_union c). split; [unfold m_call; now rewrite F|].
    unfold m_union. replace (is_list_arg (c_seq c)) with true by (destruct (c_seq c); try discriminate; reflexivity).
    replace (is_list_arg (c_seq2 c)) with true by (destruct (c_seq2 c); try discriminate; reflexivity). cbn [andb].
    assert (forall t, c_test c = t -> test_equivalence t = true ->
            spec_ok c (RSeq (m_union_loop t (c_key c) (elems (c_seq c) ++ elems (c_seq2 c)) [])) = true) as Hgen.
    { intros t T Ht. unfold spec_ok. rewrite F. apply union_ok_iff. unfold s_mt. rewrite T. now apply m_union_ok. }
    destruct (c_test c) eqn:T; try discriminate Dt; now apply Hgen.
  - (* intersection *)
    apply andb_true_iff in D as [D Dt]. apply andb_true_iff in D as [L1 L2].
    exists (m_intersection c). split; [unfold m_call; now rewrite F|].
    unfold m_intersection. replace (is_list_arg (c_seq c)) with true by (destruct (c_seq c); try discriminate; reflexivity).
    replace (is_list_arg (c_seq2 c)) with true by (destruct (c_seq2 c); try discriminate; reflexivity). cbn [andb].
    assert (forall t, c_test c = t -> test_equivalence t = true ->
            spec_ok c (match c_seq c, c_seq2 c with
                       | SNil, _ | _, SNil => RSeq []
                       | s1, s2 => RSeq (m_inter_loop t (c_key c) (elems s1) (map (key_app (c_key c)) (elems s2)) [])
                       end) = true) as Hgen.
    { intros t T Ht. unfold spec_ok. rewrite F.
      destruct (c_seq c) eqn:S1; try discriminate L1; destruct (c_seq2 c) eqn:S2; try discriminate L2; cbn [elems];
        apply intersection_ok_iff; unfold s_mt; rewrite T;
        try apply intersection_spec_nil_l; try apply intersection_spec_nil_r.
      now apply m_inter_ok. }
    destruct (c_test c) eqn:T; try discriminate Dt; now apply Hgen.
  - (* set-difference *)
    apply andb_true_iff in D as [L1 L2].
    exists (m_set_difference c). split; [unfold m_call; now rewrite F|].
    unfold m_set_difference. replace (is_list_arg (c_seq c)) with true by (destruct (c_seq c); try discriminate; reflexivity).
    replace (is_list_arg (c_seq2 c)) with true by (destruct (c_seq2 c); try discriminate; reflexivity). cbn [andb].
    unfold spec_ok. rewrite F. unfold set_difference_ok.
    assert (filter (fun x => negb (existsb (fun k2 => test2 (c_test c) (key_app (c_key c) x) k2) (map (key_app (c_key c)) (elems (c_seq2 c))))) (elems (c_seq c))
            = filter (fun x => negb (existsb (fun y => s_mt c x y) (elems (c_seq2 c)))) (elems (c_seq c))) as ->
      by (apply filter_ext; intros x; rewrite existsb_map_keys; reflexivity).
    apply andb_true_iff. split; apply forallb_forall; intros z Hz; now apply mem_In.
  - (* subsetp *)
    apply andb_true_iff in D as [L1 L2].
    exists (m_subsetp c). split; [unfold m_call; now rewrite F|].
    unfold m_subsetp, spec_ok, s_call. rewrite F.
    replace (is_list_arg (c_seq c)) with true by (destruct (c_seq c); try discriminate; reflexivity).
    replace (is_list_arg (c_seq2 c)) with true by (destruct (c_seq2 c); try discriminate; reflexivity). cbn [andb].
    assert (forallb (fun x => existsb (fun k2 => test2 (c_test c) (key_app (c_key c) x) k2) (map (key_app (c_key c)) (elems (c_seq2 c)))) (elems (c_seq c))
            = s_subsetp (s_mt c) (elems (c_seq c)) (elems (c_seq2 c))) as ->
      by (unfold s_subsetp; apply forallb_ext'; intros x; rewrite existsb_map_keys; reflexivity).
    destruct (s_subsetp (s_mt c) (elems (c_seq c)) (elems (c_seq2 c))); reflexivity.
Qed.
