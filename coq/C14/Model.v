(* C14 — M: what the Go code does.  One definition per Go loop; where several Go functions are
   textual copies of each other (inList / inString / inOctets of one file, remove = delete embedded,
   substitute = nsubstitute on a copy) the shared text is modelled once and the differences
   (len(seq) in bytes for strings, the `case nil` arm, which keywords the parser knows) are explicit.
   No proofs here. *)
From C14 Require Import Base.

(* ---- how a test, a predicate or a sort predicate is read ------------------------------------------------ *)
(* Every call site in the modelled files has the shape `x.Call(s, args, d2) != nil` (find.go, position.go,
   count.go, delete.go, substitute.go `maybe`, delete-duplicates.go `has`, member.go, assoc.go, search.go,
   mismatch.go `== nil` for the negation, sort.go / stable-sort.go `return predicate.Call(...) != nil`,
   merge.go `less = ... != nil`, union.go, intersection.go, set-difference.go, subsetp.go, every.go ...):
   the answer of the user function is reduced to "not nil".  That is why the definitions below take the
   boolean test_app / pred_app: for every style of answer the decision is that boolean (Proofs.v,
   answer_decided). *)
Definition go_decides (g : gbool) : bool := not_nil_g g.

(* ---- pkg/cl/seqfunvars.go: setKeysItem / setKeysIf ---------------------------------------- *)
(* The keyword switch of setKeysItem knows :key :test :test-not :start :end :count :from-end (:test-not
   f is stored as the test "not f"); setKeysIf has neither :test nor :test-not (TypePanic); :count wants a fixnum or nil (nil = no limit: count stays MaxInt); the functions without
   :count reject the keyword whatever its value; sfv.end = -1 is None; count = MaxInt is None. *)
Record sfv := mkSfv { v_start : nat; v_end : option nat; v_count : option Z; v_from_end : bool }.
Definition no_count (f : fname) : bool :=
  match f with
  | FFind | FFindIf | FPosition | FPositionIf | FCount | FCountIf | FRemoveDuplicates | FDeleteDuplicates => true
  | _ => false
  end.
Definition is_if (f : fname) : bool :=
  match f with
  | FFindIf | FPositionIf | FCountIf | FRemoveIf | FDeleteIf | FSubstituteIf | FNsubstituteIf => true
  | _ => false
  end.
Definition parse_sfv (c : call) : option sfv :=
  let st := match c_start c with Some s => s | None => 0%nat end in
  let counted :=
    match c_count c with
    | CAbsent => Some (mkSfv st (c_end c) None (c_from_end c))
    | CNil => if no_count (c_fn c) then None else Some (mkSfv st (c_end c) None (c_from_end c))
    | CNum z => if no_count (c_fn c) then None else Some (mkSfv st (c_end c) (Some z) (c_from_end c))
    end in
  match c_test c with
  | TTest _ | TTestNot _ => if is_if (c_fn c) then None else counted
  | TDefault => counted
  end.

(* how one element is matched: item functions call test(item, key(elt)) or ObjectEqual(item, key(elt));
   -if functions call predicate(key(elt)) *)
Definition m_match (c : call) : Z -> bool :=
  if is_if (c_fn c) then if_match (c_pred c) (c_key c) else item_match (c_test c) (c_item c) (c_key c).

(* if sfv.end < 0 || len(seq) < sfv.end { sfv.end = len(seq) }      (count, delete, duplicates, substitute) *)
Definition norm_end (glen : nat) (e : option nat) : nat :=
  match e with None => glen | Some n => if (glen <? n)%nat then glen else n end.

(* ---- find.go / find-if.go / position.go / position-if.go : inList, inString ---------------- *)
(* if 0 <= end && end < len(seq) { seq = seq[start:end] } else { seq = seq[start:] }; a Go slice
   expression with end < start is a run-time panic (None) *)
Definition go_window (start : nat) (e : option nat) (l : list Z) : option (list Z) :=
  match e with
  | Some n => if (n <? length l)%nat then (if (n <? start)%nat then None else Some (slice start n l))
              else Some (skipn start l)
  | None => Some (skipn start l)
  end.
(* for i, element := range seq : first match with its index *)
Fixpoint scan_fwd (p : Z -> bool) (i : nat) (l : list Z) : option (nat * Z) :=
  match l with [] => None | x :: t => if p x then Some (i, x) else scan_fwd p (S i) t end.
(* for i := len(seq)-1; 0 <= i; i-- *)
Definition scan_bwd (p : Z -> bool) (l : list Z) : option (nat * Z) :=
  match scan_fwd p 0 (rev l) with Some (j, x) => Some ((length l - 1 - j)%nat, x) | None => None end.
Inductive scanres := ScFault | ScNone | ScHit (i : nat) (x : Z).
Definition m_scan (p : Z -> bool) (v : sfv) (l : list Z) : scanres :=
  if (length l <=? v_start v)%nat then ScNone
  else match go_window (v_start v) (v_end v) l with
       | None => ScFault
       | Some w =>
           (* the forward loop runs unless :from-end; when it finds nothing the code falls into the
              backward loop (which then finds nothing either) *)
           match (if v_from_end v then None else scan_fwd p 0 w) with
           | Some (i, x) => ScHit i x
           | None => match scan_bwd p w with Some (i, x) => ScHit i x | None => ScNone end
           end
       end.
Definition m_find (c : call) (v : sfv) : res :=
  match c_seq c with
  | SNil => RNil
  | s => match m_scan (m_match c) v (elems s) with
         | ScFault => RErr EFault | ScNone => RNil | ScHit _ x => RElt x end
  end.
Definition m_position (c : call) (v : sfv) : res :=
  match c_seq c with
  | SNil => RNil
  | s => match m_scan (m_match c) v (elems s) with
         | ScFault => RErr EFault | ScNone => RNil | ScHit i _ => RInt (Z.of_nat (v_start v + i)) end
  end.

(* ---- count.go / count-if.go ------------------------------------------------------------------ *)
Fixpoint count_loop (p : Z -> bool) (l : list Z) (n : Z) : Z :=
  match l with [] => n | x :: t => count_loop p t (if p x then n + 1 else n) end.
(* inList / inString: if sfv.end < 0 || len < sfv.end { sfv.end = len } with len = the number of
   elements (runes for a string); then the index loop start .. end-1 in either direction (no
   iteration when end <= start) *)
Definition m_count (c : call) (v : sfv) : res :=
  match c_seq c with
  | SNil => RInt 0
  | s => let l := elems s in
         let e := norm_end (length l) (v_end v) in
         let w := slice (v_start v) e l in
         RInt (count_loop (m_match c) (if v_from_end v then rev w else w) 0)
  end.

(* ---- in-place reversal loops ------------------------------------------------------------------------ *)
Fixpoint upd (i : nat) (v : Z) (l : list Z) : list Z :=
  match l, i with [], _ => [] | _ :: t, O => v :: t | x :: t, S i' => x :: upd i' v t end.
Definition swap (l : list Z) (i j : nat) : list Z := upd j (nth i l 0) (upd i (nth j l 0) l).
Fixpoint swap_down (l : list Z) (mx i : nat) : list Z :=
  match i with O => swap l 0 mx | S i' => swap_down (swap l i (mx - i)) mx i' end.
(* delete.go, delete-duplicates.go: "reverse list":
   for i := len(list)/2 - 1; 0 <= i; i-- { list[i], list[len(list)-i-1] = list[len(list)-i-1], list[i] } *)
Definition go_reverse (l : list Z) : list Z :=
  match (length l / 2)%nat with
  | O => l
  | S i => swap_down l (length l - 1) i
  end.

(* ---- delete.go / delete-if.go (remove, remove-if embed them) ---------------------------------- *)
Definition indexed (l : list Z) : list (nat * Z) := combine (seq 0 (length l)) l.
Fixpoint del_loop (p : Z -> bool) (start e : nat) (limit : option Z) (ps : list (nat * Z)) (cnt : Z) : list Z :=
  match ps with
  | [] => []
  | (i, x) :: t =>
      if ((i <? start) || (e <=? i))%nat || (match limit with Some n => n <=? cnt | None => false end)
      then x :: del_loop p start e limit t cnt
      else if p x then del_loop p start e limit t (cnt + 1)
      else x :: del_loop p start e limit t cnt
  end.
Definition m_delete_list (p : Z -> bool) (v : sfv) (glen : nat) (l : list Z) : list Z :=
  let e := norm_end glen (v_end v) in
  if v_from_end v then go_reverse (del_loop p (v_start v) e (v_count v) (rev (indexed l)) 0)   (* collected backwards, then reversed *)
  else del_loop p (v_start v) e (v_count v) (indexed l) 0.
Definition m_delete (c : call) (v : sfv) : res :=
  match c_seq c with
  | SNil => RSeq []
  | s => RSeq (m_delete_list (m_match c) v (go_len s) (elems s))
  end.

(* ---- substitute.go / substitute-if.go / nsubstitute*.go ----------------------------------------- *)
(* parseSubstituteArgs looks the keywords up one by one (GetArgsKeyValue): :test, then :test-not (stored
   as the test "not f"); :count nil leaves count = -1, which replace() turns into len(seq); a
   negative :count is clamped to 0.  maybe() returns at once when the count is used up, and decrements
   it for every element it REPLACES; the index loop stops as soon as the count reaches 0. *)
Fixpoint sub_loop (p : Z -> bool) (new : Z) (w : list Z) (n : Z) : list Z :=
  match w with
  | [] => []
  | x :: t => if n <=? 0 then w
              else if p x then new :: sub_loop p new t (n - 1)
              else x :: sub_loop p new t n
  end.
Definition m_sub_match (c : call) : Z -> bool :=
  if is_if (c_fn c) then if_match (c_pred c) (c_key c)
  else item_match (c_test c) (c_item c) (c_key c).
Definition m_substitute (c : call) : res :=
  match c_seq c with
  | SNil => RSeq []
  | s => let l := elems s in
         let start := match c_start c with Some n => n | None => 0%nat end in
         let e := norm_end (length l) (c_end c) in
         let n := match c_count c with CNum z => if z <? 0 then 0 else z | _ => Z.of_nat (length l) end in
         let w := slice start e l in
         let w' := if c_from_end c then rev (sub_loop (m_sub_match c) (c_new c) (rev w) n)
                   else sub_loop (m_sub_match c) (c_new c) w n in
         RSeq (firstn start l ++ w' ++ skipn (start + length w) l)
  end.

(* ---- delete-duplicates.go (remove-duplicates embeds it) ----------------------------------------- *)
(* has(v): k := key(v); true when some u in uniq has test(k, u) (default ObjectEqual); k is appended to
   uniq in either case, so an element is compared with EVERY element of the bounded part examined
   before it.  Without :from-end the sequence is walked backwards and the result reversed. *)
Definition dup_test (t : testarg) (a b : Z) : bool :=
  match t with TDefault => a =? b | TTest f => test_app f a b | TTestNot f => negb (test_app f a b) end.
Fixpoint dup_loop (t : testarg) (k : option keyfn) (start e : nat) (ps : list (nat * Z)) (uniq : list Z) : list Z :=
  match ps with
  | [] => []
  | (i, x) :: r =>
      if ((i <? start) || (e <=? i))%nat then x :: dup_loop t k start e r uniq
      else let kx := key_app k x in
           if existsb (fun u => dup_test t kx u) uniq then dup_loop t k start e r (uniq ++ [kx])
           else x :: dup_loop t k start e r (uniq ++ [kx])
  end.
Definition m_dups (c : call) (v : sfv) : res :=
  match c_seq c with
  | SNil => RSeq []
  | s => let l := elems s in
         let e := norm_end (go_len s) (v_end v) in
         RSeq (if v_from_end v then dup_loop (c_test c) (c_key c) (v_start v) e (indexed l) []
               else go_reverse (dup_loop (c_test c) (c_key c) (v_start v) e (rev (indexed l)) []))
  end.

(* ==== member.go / member-if.go ===================================================================== *)
(* the list argument is looked at first (nil returns nil before any keyword is read); then the keyword
   loop (:key, :test, :test-not for member; :key for member-if), then the scan; the result is list[i:] *)
Fixpoint drop_until (p : Z -> bool) (l : list Z) : list Z :=
  match l with [] => [] | x :: t => if p x then l else drop_until p t end.
Definition m_member (c : call) : res :=
  match c_seq c with
  | SNil => RSeq []
  | SList l =>
      match c_fn c, c_test c with
      | FMember, t => RSeq (drop_until (item_match t (c_item c) (c_key c)) l)
      | _, TDefault => RSeq (drop_until (if_match (c_pred c) (c_key c)) l)
      | _, _ => RErr EType
      end
  | _ => RErr EType
  end.

(* ==== assoc.go assoc-if.go assoc-if-not.go rassoc.go rassoc-if.go ================================= *)
(* alist, ok := args[1].(slip.List); if !ok && args[1] != nil { TypePanic }: the Go nil is the empty
   alist.  With :test the call is test(item, key), with :test-not its negation.  The alist is (k1 . v1) ... given as two lists. *)
Definition assoc_test (t : testarg) (item k : Z) : bool :=
  match t with TDefault => item =? k | TTest f => test_app f item k | TTestNot f => negb (test_app f item k) end.
Definition pair_res (o : option (Z * Z)) : res := match o with Some (k, v) => RSeq [k; v] | None => RNil end.
Definition list_arg (s : seqin) : option (list Z) :=
  match s with SNil => Some [] | SList l => Some l | _ => None end.
Definition m_assoc (c : call) : res :=
  match list_arg (c_seq c) with
  | Some ks =>
      let al := combine ks (elems (c_seq2 c)) in
      let side (kv : Z * Z) := match c_fn c with FRassoc | FRassocIf => snd kv | _ => fst kv end in
      match c_fn c, c_test c with
      | (FAssoc | FRassoc), t => pair_res (find (fun kv => assoc_test t (c_item c) (key_app (c_key c) (side kv))) al)
      | FAssocIfNot, TDefault => pair_res (find (fun kv => negb (pred_app (c_pred c) (key_app (c_key c) (side kv)))) al)
      | _, TDefault => pair_res (find (fun kv => pred_app (c_pred c) (key_app (c_key c) (side kv))) al)
      | _, _ => RErr EType
      end
  | None => RErr EType
  end.

(* ==== search.go ===================================================================================== *)
Definition test2 (t : testarg) (a b : Z) : bool :=
  match t with TDefault => a =? b | TTest f => test_app f a b | TTestNot f => negb (test_app f a b) end.
(* listMatchNoTest / listMatchWithTest: every element of seq1 against seq2[i] *)
Fixpoint prefix_match (t : testarg) (a b : list Z) : bool :=
  match a, b with
  | [], _ => true
  | x :: a', y :: b' => test2 t x y && prefix_match t a' b'
  | _ :: _, [] => false
  end.
Definition m_search (c : call) : res :=
  match c_test c with
  | t =>                                            (* :test-not f is the test "not f" *)
      let l1 := elems (c_seq c) in let l2 := elems (c_seq2 c) in
      let s1 := match c_start c with Some n => n | None => 0%nat end in
      let s2 := match c_start2 c with Some n => n | None => 0%nat end in
      match (match c_end c with None => Some (length l1) | Some e => if (length l1 <? e)%nat then None else Some e end) with
      | None => RErr EError
      | Some e1 =>
      match (match c_end2 c with None => Some (length l2) | Some e => if (length l2 <? e)%nat then None else Some e end) with
      | None => RErr EError
      | Some e2 =>
          if ((e1 <? s1) || (e2 <? s2))%nat then RErr EFault      (* seq[start:end] with end < start *)
          else
          let w1 := slice s1 e1 l1 in let w2 := slice s2 e2 l2 in
          (* the empty pattern matches at the start (with :from-end at the end) of the searched range *)
          if (length w1 =? 0)%nat then RInt (Z.of_nat (if c_from_end c then s2 + length w2 else s2))
          else if ((length w2 =? 0) || (length w2 <? length w1))%nat then RNil
          else
            let k1 := map (key_app (c_key c)) w1 in let k2 := map (key_app (c_key c)) w2 in
            (* forward: offsets 0 .. len2-len1.  from-end: i (the index of the last element of the
               candidate) runs from len2-1 down and stops at i < len1-1: the offsets len2-len1 down to 0 *)
            let offs := if c_from_end c then rev (seq 0 (length w2 - length w1 + 1)) else seq 0 (length w2 - length w1 + 1) in
            match find (fun o => prefix_match t k1 (skipn o k2)) offs with
            | Some o => RInt (Z.of_nat (s2 + o))
            | None => RNil
            end
      end end
  end.

(* ==== mismatch.go (seqToList is also used by replace) ================================================ *)
Inductive lres := LErr (e : errc) | LOk (l : list Z).
Definition seq_to_list (s : seqin) (start : option nat) (e : option nat) : lres :=
  let l := elems s in
  let st := match start with Some n => n | None => 0%nat end in
  if ((st =? 0) && (length l =? 0))%nat && (match e with None => true | _ => false end) then LOk []
  else if (length l <? st)%nat then LErr EError          (* start = length: the empty range *)
  else match e with
       | None => LOk (skipn st l)
       | Some n => if (length l <? n)%nat then LErr EError else if (n <? st)%nat then LErr EError else LOk (slice st n l)
       end.
(* forward loop: i counts the elements already compared *)
Fixpoint mm_fwd (t : testarg) (k : option keyfn) (a b : list Z) (i : nat) : option nat :=
  match a, b with
  | [], [] => None
  | [], _ :: _ => Some i
  | _ :: _, [] => Some i
  | x :: a', y :: b' => if test2 t (key_app k x) (key_app k y) then mm_fwd t k a' b' (S i) else Some i
  end.
(* from-end loop on the reversed windows; i = 1, 2, ...; len1 is the window length *)
Fixpoint mm_bwd (t : testarg) (k : option keyfn) (len1 : nat) (a b : list Z) (i : nat) : option nat :=
  match a, b with
  | [], [] => None
  | [], _ :: _ => Some 0%nat                               (* after the loop: len(seq1) < len(seq2): start1 *)
  | _ :: _, [] => Some (len1 - i + 1)%nat                  (* len(seq2) < i *)
  | x :: a', y :: b' => if test2 t (key_app k x) (key_app k y) then mm_bwd t k len1 a' b' (S i) else Some i   (* i + start1 *)
  end.
Definition m_mismatch (c : call) : res :=
  match c_test c with
  | t =>                                            (* :test-not f is the test "not f" *)
      match seq_to_list (c_seq c) (c_start c) (c_end c) with
      | LErr e => RErr e
      | LOk w1 =>
      match seq_to_list (c_seq2 c) (c_start2 c) (c_end2 c) with
      | LErr e => RErr e
      | LOk w2 =>
          let s1 := match c_start c with Some n => n | None => 0%nat end in
          match (if c_from_end c then mm_bwd t (c_key c) (length w1) (rev w1) (rev w2) 1 else mm_fwd t (c_key c) w1 w2 0) with
          | Some i => RInt (Z.of_nat (i + s1))
          | None => RNil
          end
      end end
  end.

(* ==== subseq.go ====================================================================================== *)
(* start is required; end nil or absent = length; every arm of the type switch (`case nil` is the list of
   length 0) checks len < start || len < end; then ta[start:end] — a Go panic when end < start *)
Definition m_subseq (c : call) : res :=
  let l := elems (c_seq c) in
  let st := match c_start c with Some n => n | None => 0%nat end in
  let e := match c_end c with Some n => n | None => length l end in
  if ((length l <? st) || (length l <? e))%nat then RErr EError
  else if (e <? st)%nat then RErr EFault
  else RSeq (slice st e l).

(* ==== replace.go ===================================================================================== *)
Definition replace_check (start : option nat) (e : option nat) (size : nat) : option nat (* None: error *) :=
  let st := match start with Some n => n | None => 0%nat end in
  if ((size =? 0) && (st =? 0))%nat && (match e with None => true | _ => false end) then Some 0%nat
  else if (size <? st)%nat then None
  else match e with
       | None => Some size
       | Some n => if (size <? n)%nat then None else if (n <? st)%nat then None else Some n
       end.
Definition m_replace (c : call) : res :=
  match seq_to_list (c_seq2 c) (c_start2 c) (c_end2 c) with
  | LErr e => RErr e
  | LOk w2 =>
      match c_seq c with
      | SNil => RSeq []
      | s => let l := elems s in
             let st := match c_start c with Some n => n | None => 0%nat end in
             match replace_check (c_start c) (c_end c) (length l) with
             | None => RErr EError
             | Some e1 => let n := Nat.min (e1 - st) (length w2) in
                          RSeq (firstn st l ++ firstn n w2 ++ skipn (st + n) l)
             end
      end
  end.

(* ==== fill.go ======================================================================================== *)
(* :start and :end go through getFixnumArg (nil is a type error); no `case nil` in the type switch;
   checkStartEnd rejects start >= size and end >= size *)
Definition m_fill (c : call) : res :=
  if c_end_nil c then RErr EType
  else match c_seq c with
  | SNil => RErr EType
  | s => let l := elems s in
         let st := match c_start c with Some n => n | None => 0%nat end in
         if (length l <=? st)%nat then RErr EError
         else match (match c_end c with None => Some (length l) | Some n => if (length l <=? n)%nat then None else Some n end) with
              | None => RErr EError
              | Some e => if (e <? st)%nat then RErr EError
                          else RSeq (firstn st l ++ repeat (c_item c) (e - st) ++ skipn e l)
              end
  end.

(* ==== reverse.go / nreverse.go ======================================================================= *)
(* max := len-1; for i := max/2; 0 <= i; i-- { nl[i], nl[max-i] = nl[max-i], nl[i] }   (swap_down is defined above) *)
Definition m_reverse_list (l : list Z) : list Z :=
  match l with [] => [] | _ => swap_down l (length l - 1) ((length l - 1) / 2) end.
Definition m_reverse (c : call) : res := RSeq (m_reverse_list (elems (c_seq c))).

(* ==== merge.go ======================================================================================= *)
(* seq, _ := slip.CoerceToList(arg).(slip.List): nil is the empty list.  The element of the second
   sequence is taken only when predicate(k2, k1) holds, otherwise the element of the first (stable). *)
Definition lt_of (t : testarg) (a b : Z) : bool := test2 t a b.
Fixpoint m_merge_lists (t : testarg) (k : option keyfn) (l1 : list Z) : list Z -> list Z :=
  fix inner (l2 : list Z) : list Z :=
    match l1, l2 with
    | [], _ => l2
    | _, [] => l1
    | x :: a, y :: b => if lt_of t (key_app k y) (key_app k x) then y :: inner b else x :: m_merge_lists t k a l2
    end.
Definition m_merge (c : call) : res :=
  RSeq (m_merge_lists (c_test c) (c_key c) (elems (c_seq c)) (elems (c_seq2 c))).

(* ==== union.go intersection.go set-difference.go subsetp.go ========================================= *)
(* union: one pass over list-1 then list-2 keeping an element unless test(kept-key, key) holds for a key
   kept so far (objInList when neither :test nor :key) *)
Fixpoint m_union_loop (t : testarg) (k : option keyfn) (l : list Z) (keys : list Z) : list Z :=
  match l with
  | [] => []
  | x :: r => let kx := key_app k x in
              if existsb (fun u => test2 t u kx) keys then m_union_loop t k r keys
              else x :: m_union_loop t k r (keys ++ [kx])
  end.
Definition is_list_arg (s : seqin) : bool := match s with SNil | SList _ => true | _ => false end.
Definition m_union (c : call) : res :=
  if is_list_arg (c_seq c) && is_list_arg (c_seq2 c) then
    match c_test c with
    | t => RSeq (m_union_loop t (c_key c) (elems (c_seq c) ++ elems (c_seq2 c)) [])
    end
  else RErr EType.
(* intersection: a nil argument is dropped by list2TestKeyArgs and len(lists) != 2 returns nil;
   an element of list-1 is skipped when its key is already among the kept keys
   (objInListTest calls test(kept, k1)), kept when test(k1, k2) holds for some key of list-2 *)
Fixpoint m_inter_loop (t : testarg) (k : option keyfn) (l1 keys2 keys : list Z) : list Z :=
  match l1 with
  | [] => []
  | x :: r => let kx := key_app k x in
              if existsb (fun u => test2 t u kx) keys then m_inter_loop t k r keys2 keys
              else if existsb (fun k2 => test2 t kx k2) keys2 then x :: m_inter_loop t k r keys2 (keys ++ [kx])
              else m_inter_loop t k r keys2 keys
  end.
Definition m_intersection (c : call) : res :=
  if is_list_arg (c_seq c) && is_list_arg (c_seq2 c) then
    match c_test c with
    | t => match c_seq c, c_seq2 c with
           | SNil, _ | _, SNil => RSeq []
           | s1, s2 => RSeq (m_inter_loop t (c_key c) (elems s1) (map (key_app (c_key c)) (elems s2)) [])
           end
    end
  else RErr EType.
(* set-difference and subsetp read :key, :test and :test-not (stored as the test "not f") with GetArgsKeyValue *)
Definition m_set_difference (c : call) : res :=
  if is_list_arg (c_seq c) && is_list_arg (c_seq2 c) then
    let t := c_test c in
    let keys2 := map (key_app (c_key c)) (elems (c_seq2 c)) in
    RSeq (filter (fun x => negb (existsb (fun k2 => test2 t (key_app (c_key c) x) k2) keys2)) (elems (c_seq c)))
  else RErr EType.
(* subsetp: list, ok = arg.(slip.List); if !ok && arg != nil { TypePanic } — nil is the empty list *)
Definition m_subsetp (c : call) : res :=
  if is_list_arg (c_seq c) && is_list_arg (c_seq2 c) then
    let t := c_test c in
    let keys2 := map (key_app (c_key c)) (elems (c_seq2 c)) in
    if forallb (fun x => existsb (fun k2 => test2 t (key_app (c_key c) x) k2) keys2) (elems (c_seq c)) then RTrue else RNil
  else RErr EType.

(* ==== every.go some.go notany.go notevery.go ========================================================= *)
(* for n := 0; ; n++: the sequences are inspected in order, the first that is exhausted ends the
   loop; `case nil` (the empty list) ends it at once.  Every representation of the model is among the
   cases of the type switch, so there is no error outcome. *)
Definition quant_vals (c : call) : list bool :=
  match c_nseq c with
  | 1%nat => map (pred_app (c_pred c)) (elems (c_seq c))
  | _ => map (fun xy => test2 (c_test c) (fst xy) (snd xy)) (combine (elems (c_seq c)) (elems (c_seq2 c)))
  end.
Definition m_quant (c : call) : res :=
  let vs := quant_vals c in
  match c_fn c with
  | FEvery => if forallb (fun b => b) vs then RTrue else RNil
  (* some returns the first non-nil value of the predicate: t for the predicates answering t; the
     one-sequence predicate of the flag style (lambda (x) (if ... x nil)) answers the element *)
  | FSome => if c_flag c && (c_nseq c =? 1)%nat then
               match find (pred_app (c_pred c)) (elems (c_seq c)) with Some x => RElt x | None => RNil end
             else if existsb (fun b => b) vs then RTrue else RNil
  | FNotany => if existsb (fun b => b) vs then RNil else RTrue
  | _ => if forallb (fun b => b) vs then RNil else RTrue
  end.

(* ==== map.go mapcar.go =============================================================================== *)
Definition map_vals (c : call) : list Z :=
  match c_nseq c with
  | 1%nat => map (key_app (c_key c)) (elems (c_seq c))
  | _ => map (fun xy => binop_app (c_op c) (fst xy) (snd xy)) (combine (elems (c_seq c)) (elems (c_seq2 c)))
  end.
(* map: seqs[i], _ = slip.CoerceToList(a).(slip.List) — nil is the empty list *)
Definition m_map (c : call) : res := RSeq (map_vals c).
Definition m_mapcar (c : call) : res :=
  match c_seq c, c_nseq c, c_seq2 c with
  | (SList _ | SNil), 1%nat, _ => RSeq (map_vals c)                 (* nil is the empty list (since 99845b4) *)
  | (SList _ | SNil), _, (SList _ | SNil) => RSeq (map_vals c)
  | _, _, _ => RErr EType
  end.

(* ==== reduce.go ====================================================================================== *)
(* :end first (0 <= end <= len), then :start against the shortened list (0 <= start <= len), then
   :key over the elements (into a fresh list of keys: the argument is left alone), then the fold; an empty list gives the
   initial value or the Go nil *)
Definition m_reduce_list (c : call) (l : list Z) : res :=
  match (match c_end c with None => Some l | Some e => if (e <=? length l)%nat then Some (firstn e l) else None end) with
  | None => RErr EType
  | Some l1 =>
  match (match c_start c with None => Some l1 | Some st => if (st <=? length l1)%nat then Some (skipn st l1) else None end) with
  | None => RErr EType
  | Some l2 =>
      let ks := map (key_app (c_key c)) l2 in
      match ks with
      | [] => match c_init c with Some v => RElt v | None => RNil end
      | x :: r =>
          if c_from_end c then
            match c_init c with
            | Some v => RElt (fold_right (fun e acc => binop_app (c_op c) e acc) v ks)
            | None => RElt (fold_right (fun e acc => binop_app (c_op c) e acc) (last ks 0) (removelast ks))
            end
          else
            match c_init c with
            | Some v => RElt (fold_left (fun acc e => binop_app (c_op c) acc e) ks v)
            | None => RElt (fold_left (fun acc e => binop_app (c_op c) acc e) r x)
            end
      end
  end end.
(* list, _ := slip.CoerceToList(args[1]).(slip.List): nil is the empty list *)
Definition m_reduce (c : call) : res := m_reduce_list c (elems (c_seq c)).

(* ==== concatenate.go ================================================================================= *)
Definition m_concatenate (c : call) : res := RSeq (elems (c_seq c) ++ elems (c_seq2 c)).

(* ---- the call ---------------------------------------------------------------------------------- *)
(* None: no prediction (sort and stable-sort run Go's library sort; their results are judged by the
   verified checkers of the specification only) *)
Definition m_call (c : call) : option res :=
  match c_fn c with
  | FSubstitute | FSubstituteIf | FNsubstitute | FNsubstituteIf => Some (m_substitute c)
  | FMember | FMemberIf => Some (m_member c)
  | FAssoc | FAssocIf | FAssocIfNot | FRassoc | FRassocIf => Some (m_assoc c)
  | FSearch => Some (m_search c)
  | FMismatch => Some (m_mismatch c)
  | FSubseq => Some (m_subseq c)
  | FReplace => Some (m_replace c)
  | FFill => Some (m_fill c)
  | FReverse | FNreverse => Some (m_reverse c)
  | FSort | FStableSort => None
  | FMerge => Some (m_merge c)
  | FUnion => Some (m_union c)
  | FIntersection => Some (m_intersection c)
  | FSetDifference => Some (m_set_difference c)
  | FSubsetp => Some (m_subsetp c)
  | FEvery | FSome | FNotany | FNotevery => Some (m_quant c)
  | FMap => Some (m_map c)
  | FMapcar => Some (m_mapcar c)
  | FReduce => Some (m_reduce c)
  | FConcatenate => Some (m_concatenate c)
  | FFindIfNot | FPositionIfNot | FCountIfNot | FRemoveIfNot | FDeleteIfNot | FSubstituteIfNot | FNsubstituteIfNot =>
      Some (RErr EUndefined)                       (* no such function in pkg/cl *)
  | f =>
      match parse_sfv c with
      | None => Some (RErr EType)
      | Some v =>
          match f with
          | FFind | FFindIf => Some (m_find c v)
          | FPosition | FPositionIf => Some (m_position c v)
          | FCount | FCountIf => Some (m_count c v)
          | FRemove | FRemoveIf | FDelete | FDeleteIf => Some (m_delete c v)
          | _ => Some (m_dups c v)
          end
      end
  end.
