(* C14 — M: what the Go code does.  One definition per Go loop; where several Go functions are
   textual copies of each other (inList / inString / inOctets of one file, remove = delete embedded,
   substitute = nsubstitute on a copy) the shared text is modelled once and the differences
   (len(seq) in bytes for strings, the `case nil` arm, which keywords the parser knows) are explicit.
   No proofs here. *)
From C14 Require Import Base.

(* ---- pkg/cl/seqfunvars.go: setKeysItem / setKeysIf ---------------------------------------- *)
(* The keyword switch knows :key :test :start :end :count :from-end; anything else (:test-not) is a
   TypePanic; :count wants a fixnum (nil is a TypePanic); sfv.end = -1 is None; count = MaxInt is None. *)
Record sfv := mkSfv { v_start : nat; v_end : option nat; v_count : option Z; v_from_end : bool }.
Definition no_count (f : fname) : bool :=
  match f with
  | FFind | FFindIf | FPosition | FPositionIf | FCount | FCountIf | FRemoveDuplicates | FDeleteDuplicates => true
  | _ => false
  end.
Definition is_if (f : fname) : bool :=
  match f with
  | FFindIf | FPositionIf | FCountIf | FRemoveIf | FDeleteIf | FSubstituteIf | FNsubstituteIf => true
  | _ => false
  end.
(* setKeysIf has no :test case at all *)
Definition parse_sfv (c : call) : option sfv :=
  match c_test c, c_count c with
  | TTestNot _, _ => None
  | TTest _, _ => if is_if (c_fn c) then None else
      match c_count c with
      | CNil => None
      | CNum z => if no_count (c_fn c) then None
                  else Some (mkSfv (match c_start c with Some s => s | None => 0%nat end) (c_end c) (Some z) (c_from_end c))
      | CAbsent => Some (mkSfv (match c_start c with Some s => s | None => 0%nat end) (c_end c) None (c_from_end c))
      end
  | _, CNil => None
  | _, CNum z => if no_count (c_fn c) then None
                 else Some (mkSfv (match c_start c with Some s => s | None => 0%nat end) (c_end c) (Some z) (c_from_end c))
  | _, CAbsent => Some (mkSfv (match c_start c with Some s => s | None => 0%nat end) (c_end c) None (c_from_end c))
  end.

(* how one element is matched: item functions call test(item, key(elt)) or ObjectEqual(item, key(elt));
   -if functions call predicate(key(elt)) *)
Definition m_match (c : call) : Z -> bool :=
  if is_if (c_fn c) then if_match (c_pred c) (c_key c) else item_match (c_test c) (c_item c) (c_key c).

(* if sfv.end < 0 || len(seq) < sfv.end { sfv.end = len(seq) }      (count, delete, duplicates, substitute) *)
Definition norm_end (glen : nat) (e : option nat) : nat :=
  match e with None => glen | Some n => if (glen <? n)%nat then glen else n end.

(* ---- find.go / find-if.go / position.go / position-if.go : inList, inString ---------------- *)
(* if 0 <= end && end < len(seq) { seq = seq[start:end] } else { seq = seq[start:] }; a Go slice
   expression with end < start is a run-time panic (None) *)
Definition go_window (start : nat) (e : option nat) (l : list Z) : option (list Z) :=
  match e with
  | Some n => if (n <? length l)%nat then (if (n <? start)%nat then None else Some (slice start n l))
              else Some (skipn start l)
  | None => Some (skipn start l)
  end.
(* for i, element := range seq : first match with its index *)
Fixpoint scan_fwd (p : Z -> bool) (i : nat) (l : list Z) : option (nat * Z) :=
  match l with [] => None | x :: t => if p x then Some (i, x) else scan_fwd p (S i) t end.
(* for i := len(seq)-1; 0 <= i; i-- *)
Definition scan_bwd (p : Z -> bool) (l : list Z) : option (nat * Z) :=
  match scan_fwd p 0 (rev l) with Some (j, x) => Some ((length l - 1 - j)%nat, x) | None => None end.
Inductive scanres := ScFault | ScNone | ScHit (i : nat) (x : Z).
Definition m_scan (p : Z -> bool) (v : sfv) (l : list Z) : scanres :=
  if (length l <=? v_start v)%nat then ScNone
  else match go_window (v_start v) (v_end v) l with
       | None => ScFault
       | Some w =>
           (* the forward loop runs unless :from-end; when it finds nothing the code falls into the
              backward loop (which then finds nothing either) *)
           match (if v_from_end v then None else scan_fwd p 0 w) with
           | Some (i, x) => ScHit i x
           | None => match scan_bwd p w with Some (i, x) => ScHit i x | None => ScNone end
           end
       end.
Definition m_find (c : call) (v : sfv) : res :=
  match c_seq c with
  | SNil => RNil
  | s => match m_scan (m_match c) v (elems s) with
         | ScFault => RErr EFault | ScNone => RNil | ScHit _ x => RElt x end
  end.
Definition m_position (c : call) (v : sfv) : res :=
  match c_seq c with
  | SNil => RNil
  | s => match m_scan (m_match c) v (elems s) with
         | ScFault => RErr EFault | ScNone => RNil | ScHit i _ => RInt (Z.of_nat (v_start v + i)) end
  end.

(* ---- count.go / count-if.go ------------------------------------------------------------------ *)
Fixpoint count_loop (p : Z -> bool) (l : list Z) (n : Z) : Z :=
  match l with [] => n | x :: t => count_loop p t (if p x then n + 1 else n) end.
(* inString normalises the end with len(seq) of the STRING (bytes) and then indexes the rune slice *)
Definition m_count (c : call) (v : sfv) : res :=
  match c_seq c with
  | SNil => RInt 0
  | s => let l := elems s in
         let e := norm_end (go_len s) (v_end v) in
         if ((length l <? e) && (v_start v <? e))%nat then RErr EFault
         else let w := slice (v_start v) e l in
              RInt (count_loop (m_match c) (if v_from_end v then rev w else w) 0)
  end.

(* ---- delete.go / delete-if.go (remove, remove-if embed them) ---------------------------------- *)
Definition indexed (l : list Z) : list (nat * Z) := combine (seq 0 (length l)) l.
Fixpoint del_loop (p : Z -> bool) (start e : nat) (limit : option Z) (ps : list (nat * Z)) (cnt : Z) : list Z :=
  match ps with
  | [] => []
  | (i, x) :: t =>
      if ((i <? start) || (e <=? i))%nat || (match limit with Some n => n <=? cnt | None => false end)
      then x :: del_loop p start e limit t cnt
      else if p x then del_loop p start e limit t (cnt + 1)
      else x :: del_loop p start e limit t cnt
  end.
Definition m_delete_list (p : Z -> bool) (v : sfv) (glen : nat) (l : list Z) : list Z :=
  let e := norm_end glen (v_end v) in
  if v_from_end v then rev (del_loop p (v_start v) e (v_count v) (rev (indexed l)) 0)   (* collected backwards, then reversed *)
  else del_loop p (v_start v) e (v_count v) (indexed l) 0.
Definition m_delete (c : call) (v : sfv) : res :=
  match c_seq c with
  | SNil => RSeq []
  | s => RSeq (m_delete_list (m_match c) v (go_len s) (elems s))
  end.

(* ---- substitute.go / substitute-if.go / nsubstitute*.go ----------------------------------------- *)
(* parseSubstituteArgs looks the keywords up one by one (GetArgsKeyValue): an unknown keyword such as
   :test-not is silently ignored; :count nil and a negative :count leave count = -1, which replace()
   turns into len(seq).  maybe() decrements the count for every element it LOOKS AT. *)
Fixpoint sub_loop (p : Z -> bool) (new : Z) (w : list Z) (n : Z) : list Z :=
  match w with
  | [] => []
  | x :: t => let x' := if p x then new else x in
              if n - 1 <=? 0 then x' :: t else x' :: sub_loop p new t (n - 1)
  end.
Definition m_sub_match (c : call) : Z -> bool :=
  if is_if (c_fn c) then if_match (c_pred c) (c_key c)
  else item_match (match c_test c with TTestNot _ => TDefault | t => t end) (c_item c) (c_key c).
Definition m_substitute (c : call) : res :=
  match c_seq c with
  | SNil => RSeq []
  | s => let l := elems s in
         let start := match c_start c with Some n => n | None => 0%nat end in
         let e := norm_end (length l) (c_end c) in
         let n := match c_count c with CNum z => if z <? 0 then Z.of_nat (length l) else z | _ => Z.of_nat (length l) end in
         let w := slice start e l in
         let w' := if c_from_end c then rev (sub_loop (m_sub_match c) (c_new c) (rev w) n)
                   else sub_loop (m_sub_match c) (c_new c) w n in
         RSeq (firstn start l ++ w' ++ skipn (start + length w) l)
  end.

(* ---- delete-duplicates.go (remove-duplicates embeds it) ----------------------------------------- *)
(* has(v): k := key(v); true when some u in uniq has test(k, u) (default ObjectEqual); otherwise k is
   appended to uniq.  Without :from-end the sequence is walked backwards and the result reversed. *)
Definition dup_test (t : testarg) (a b : Z) : bool :=
  match t with TDefault => a =? b | TTest f => test_app f a b | TTestNot f => negb (test_app f a b) end.
Fixpoint dup_loop (t : testarg) (k : option keyfn) (start e : nat) (ps : list (nat * Z)) (uniq : list Z) : list Z :=
  match ps with
  | [] => []
  | (i, x) :: r =>
      if ((i <? start) || (e <=? i))%nat then x :: dup_loop t k start e r uniq
      else let kx := key_app k x in
           if existsb (fun u => dup_test t kx u) uniq then dup_loop t k start e r uniq
           else x :: dup_loop t k start e r (uniq ++ [kx])
  end.
Definition m_dups (c : call) (v : sfv) : res :=
  match c_seq c with
  | SNil => RSeq []
  | s => let l := elems s in
         let e := norm_end (go_len s) (v_end v) in
         RSeq (if v_from_end v then dup_loop (c_test c) (c_key c) (v_start v) e (indexed l) []
               else rev (dup_loop (c_test c) (c_key c) (v_start v) e (rev (indexed l)) []))
  end.

(* ---- the call ---------------------------------------------------------------------------------- *)
Definition m_call (c : call) : res :=
  match c_fn c with
  | FSubstitute | FSubstituteIf | FNsubstitute | FNsubstituteIf => m_substitute c
  | f =>
      match parse_sfv c with
      | None => RErr EType
      | Some v =>
          match f with
          | FFind | FFindIf => m_find c v
          | FPosition | FPositionIf => m_position c v
          | FCount | FCountIf => m_count c v
          | FRemove | FRemoveIf | FDelete | FDeleteIf => m_delete c v
          | _ => m_dups c v
          end
      end
  end.
