(* C14 — reverse / nreverse: the in-place swap loop of the Go code computes the reversal. *)
From C14 Require Import Base Model Spec.
From Coq Require Import Arith.

Lemma upd_length : forall i v (l : list Z), length (upd i v l) = length l.
Proof. intros i v l. revert i. induction l as [|x t IH]; intros [|i]; cbn; auto. Qed.

Lemma nth_upd : forall i v (l : list Z) m d, (i < length l)%nat ->
  nth m (upd i v l) d = if (m =? i)%nat then v else nth m l d.
Proof.
  intros i v l. revert i. induction l as [|x t IH]; intros i m d Hi; [cbn in Hi; lia|].
  destruct i as [|i]; destruct m as [|m]; cbn [upd nth Nat.eqb]; try reflexivity.
  apply IH. cbn in Hi. lia.
Qed.

Lemma swap_length : forall l i j, length (swap l i j) = length l.
Proof. intros. unfold swap. now rewrite !upd_length. Qed.

Lemma nth_swap : forall l i j m, (i < length l)%nat -> (j < length l)%nat ->
  nth m (swap l i j) 0 = if (m =? j)%nat then nth i l 0 else if (m =? i)%nat then nth j l 0 else nth m l 0.
Proof.
  intros. unfold swap. rewrite nth_upd by (rewrite upd_length; lia).
  destruct (Nat.eqb_spec m j); [reflexivity|]. now rewrite nth_upd by lia.
Qed.

Lemma swap_down_length : forall i l mx, length (swap_down l mx i) = length l.
Proof.
  induction i as [|i IH]; intros l mx; cbn [swap_down].
  - apply swap_length.
  - rewrite IH. apply swap_length.
Qed.

(* after the iterations i, i-1, ..., 0 the outer 2(i+1) positions are mirrored, the rest untouched *)
Lemma swap_down_nth : forall i l mx m, (mx < length l)%nat -> (2 * i <= mx)%nat ->
  nth m (swap_down l mx i) 0 =
  if ((m <=? i) || ((mx - i <=? m) && (m <=? mx)))%nat then nth (mx - m) l 0 else nth m l 0.
Proof.
  induction i as [|i IH]; intros l mx m Hmx Hi; cbn [swap_down].
  - rewrite nth_swap by lia. rewrite Nat.sub_0_r.
    destruct (Nat.eqb_spec m mx) as [->|Hne].
    + rewrite Nat.sub_diag. destruct (Nat.leb_spec mx 0); cbn; [|rewrite Nat.leb_refl; reflexivity].
      assert (mx = 0%nat) as -> by lia. reflexivity.
    + destruct (Nat.eqb_spec m 0) as [->|Hne0].
      * cbn. now rewrite Nat.sub_0_r.
      * destruct (Nat.leb_spec m 0); [lia|]. cbn [orb].
        destruct (Nat.leb_spec mx m); [|reflexivity]. destruct (Nat.leb_spec m mx); [lia|reflexivity].
  - rewrite IH by (rewrite ?swap_length; lia).
    destruct (Nat.leb_spec m i) as [H1|H1]; cbn [orb].
    + rewrite nth_swap by lia.
      destruct (Nat.eqb_spec (mx - m) (mx - S i)); [lia|]. destruct (Nat.eqb_spec (mx - m) (S i)); [lia|].
      destruct (Nat.leb_spec m (S i)); [reflexivity|lia].
    + destruct (Nat.leb_spec (mx - i) m) as [H2|H2]; destruct (Nat.leb_spec m mx) as [H3|H3]; cbn [andb].
      * rewrite nth_swap by lia.
        destruct (Nat.eqb_spec (mx - m) (mx - S i)); [lia|]. destruct (Nat.eqb_spec (mx - m) (S i)); [lia|].
        destruct (Nat.leb_spec m (S i)); [reflexivity|]. cbn [orb].
        destruct (Nat.leb_spec (mx - S i) m); [reflexivity|lia].
      * rewrite nth_swap by lia.
        destruct (Nat.eqb_spec m (mx - S i)); [lia|]. destruct (Nat.eqb_spec m (S i)); [lia|].
        destruct (Nat.leb_spec m (S i)); [lia|]. cbn [orb]. now rewrite andb_false_r.
      * rewrite nth_swap by lia.
        destruct (Nat.eqb_spec m (mx - S i)) as [E|E].
        -- destruct (Nat.leb_spec m (S i)); cbn [orb]; [f_equal; lia|].
           destruct (Nat.leb_spec (mx - S i) m); [|lia]. cbn [andb]. f_equal. lia.
        -- destruct (Nat.eqb_spec m (S i)) as [E2|E2].
           ++ destruct (Nat.leb_spec m (S i)); [|lia]. cbn [orb]. f_equal. lia.
           ++ destruct (Nat.leb_spec m (S i)); [lia|]. cbn [orb].
              destruct (Nat.leb_spec (mx - S i) m); [lia|reflexivity].
      * rewrite nth_swap by lia.
        destruct (Nat.eqb_spec m (mx - S i)); [lia|]. destruct (Nat.eqb_spec m (S i)); [lia|].
        destruct (Nat.leb_spec m (S i)); [lia|]. cbn [orb]. now rewrite andb_false_r.
Qed.

Theorem m_reverse_is_rev : forall l, m_reverse_list l = rev l.
Proof.
  intros l0. destruct l0 as [|x t]; [reflexivity|]. remember (x :: t) as l eqn:E.
  assert (length l <> 0)%nat as Hl by (subst; cbn; lia).
  assert (m_reverse_list l = swap_down l (length l - 1) ((length l - 1) / 2)) as -> by (subst; reflexivity).
  clear E x t.
  set (mx := (length l - 1)%nat).
  assert (2 * (mx / 2) <= mx)%nat as H2 by (apply Nat.mul_div_le; lia).
  apply nth_ext with (d := 0) (d' := 0).
  - now rewrite swap_down_length, rev_length.
  - intros m Hm. rewrite swap_down_length in Hm.
    rewrite swap_down_nth by (try exact H2; unfold mx; lia).
    rewrite rev_nth by lia.
    assert (mx - mx / 2 <= mx / 2 + 1)%nat.
    { pose proof (Nat.div_mod mx 2 ltac:(lia)). pose proof (Nat.mod_upper_bound mx 2 ltac:(lia)). lia. }
    destruct (Nat.leb_spec m (mx / 2)); cbn [orb].
    + f_equal. unfold mx. lia.
    + destruct (Nat.leb_spec (mx - mx / 2) m); [|lia]. destruct (Nat.leb_spec m mx); [|unfold mx in *; lia].
      cbn [andb]. f_equal. unfold mx. lia.
Qed.

Theorem go_reverse_is_rev : forall l, go_reverse l = rev l.
Proof.
  intros l. unfold go_reverse. destruct (length l / 2)%nat as [|i] eqn:E.
  - (* length 0 or 1 *)
    assert (length l < 2)%nat as Hl.
    { destruct (Nat.lt_ge_cases (length l) 2) as [H|H]; [exact H|].
      pose proof (Nat.div_le_mono 2 (length l) 2 ltac:(lia) H) as H'. rewrite Nat.div_same in H' by lia. lia. }
    destruct l as [|x [|y t]]; cbn in Hl; try reflexivity; lia.
  - assert (2 * S i <= length l)%nat as H2 by (rewrite <- E; apply Nat.mul_div_le; lia).
    assert (length l < 2 * S i + 2)%nat as H3.
    { pose proof (Nat.div_mod (length l) 2 ltac:(lia)). pose proof (Nat.mod_upper_bound (length l) 2 ltac:(lia)). lia. }
    apply nth_ext with (d := 0) (d' := 0).
    + now rewrite swap_down_length, rev_length.
    + intros m Hm. rewrite swap_down_length in Hm.
      rewrite swap_down_nth by lia. rewrite rev_nth by lia.
      destruct (Nat.leb_spec m i); cbn [orb]; [f_equal; lia|].
      destruct (Nat.leb_spec (length l - 1 - i) m); destruct (Nat.leb_spec m (length l - 1)); cbn [andb]; try (f_equal; lia).
Qed.

Theorem reverse_meets_spec : forall c, (c_fn c = FReverse \/ c_fn c = FNreverse) -> m_call c = s_call c.
Proof.
  intros c [F|F]; unfold m_call, s_call, m_reverse; rewrite F, m_reverse_is_rev; reflexivity.
Qed.
