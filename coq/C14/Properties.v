(* C14 — property theorems only. *)
From C14 Require Import Base Model Spec Proofs.
Theorem C14_placeholder : True.
Proof. exact placeholder. Qed.
Print Assumptions C14_placeholder.
