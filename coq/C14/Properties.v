(* C14 — property theorems only.
   M (Model.v) = what the Go code does, one definition per loop; S (Spec.v) = what the language defines;
   in_domain = the guard.  Elements are integers; a call carries the function, item / predicate / new
   element, the sequence(s) in the representation the Go type switch sees (nil, list, vector, string)
   and every keyword (:start :end :key :test :test-not :count :from-end, :start2 :end2 :initial-value). *)
From C14 Require Import Base Model Spec ProofsScan ProofsReverse ProofsRemove ProofsDups ProofsSort ProofsSets ProofsMisc ProofsSearch Laws Proofs.
From Coq Require Import Permutation.

(* (1) THE property, for every call of every modelled function (all but sort / stable-sort, which run
   Go's library sort and are covered by (3)): inside the guard the modelled code returns what the
   language defines — for every sequence, every representation, every keyword combination.
   For find position count remove delete substitute remove-duplicates member assoc rassoc search mismatch
   subseq replace fill reverse nreverse merge every some notany notevery map mapcar reduce concatenate
   subsetp "what the language defines" is one value (spec_ok = equality with s_call); for union
   intersection set-difference it is the set of results the language admits (spec_ok = the checkers of (4)). *)
Theorem C14_model_meets_spec : forall c,
  has_model (c_fn c) = true -> in_domain c = true -> exists r, m_call c = Some r /\ spec_ok c r = true.
Proof. exact model_meets_spec. Qed.
Print Assumptions C14_model_meets_spec.

(* (1') After the repairs of slip (repo_fixes/C14-1 .. C14-27) the guard of find position count remove delete
   substitute nsubstitute (and -if), search, subseq, replace, reverse, nreverse, map, concatenate is nothing but
   "bounding indices in range, characters representable, only keywords the function has": for EVERY such call,
   with any combination of :start :end :key :test :test-not :count (a number or nil) :from-end (:start2 :end2),
   on nil / list / vector / string, the modelled code returns exactly the one value the language defines. *)
Theorem C14_guard_is_bounds : forall c, bounds_only (c_fn c) = true ->
  in_domain c = bounds_ok c && seq_ok (c_seq c) && seq_ok (c_seq2 c) && keywords_ok c &&
                match c_fn c with FSearch | FReplace => bounds2_ok c | _ => true end.
Proof. exact guard_is_bounds. Qed.
Print Assumptions C14_guard_is_bounds.
Theorem C14_in_range_calls_meet_spec : forall c, bounds_only (c_fn c) = true ->
  bounds_ok c = true -> seq_ok (c_seq c) = true -> seq_ok (c_seq2 c) = true -> keywords_ok c = true ->
  match c_fn c with FSearch | FReplace => bounds2_ok c | _ => true end = true ->
  m_call c = s_call c /\ exists r, s_call c = Some r.
Proof. exact in_range_calls_meet_spec. Qed.
Print Assumptions C14_in_range_calls_meet_spec.

(* (1a-1d) the same for the families the property names first, as equalities M = S: every combination
   of :start :end :key :test :from-end (find position count and -if), :count with :from-end (remove
   delete), substitute, remove-duplicates (which occurrences survive) *)
Theorem C14_find_position_count : forall c,
  is_scan_fn (c_fn c) = true -> in_domain c = true -> m_call c = s_call c.
Proof. exact scan_meets_spec. Qed.
Print Assumptions C14_find_position_count.
Theorem C14_remove_count_from_end : forall c,
  is_remove_fn (c_fn c) = true -> in_domain c = true -> m_call c = s_call c.
Proof. exact remove_meets_spec. Qed.
Print Assumptions C14_remove_count_from_end.
Theorem C14_substitute : forall c,
  is_substitute_fn (c_fn c) = true -> in_domain c = true -> m_call c = s_call c.
Proof. exact substitute_meets_spec. Qed.
Print Assumptions C14_substitute.
Theorem C14_remove_duplicates : forall c,
  is_dups_fn (c_fn c) = true -> in_domain c = true -> m_call c = s_call c.
Proof. exact dups_meets_spec. Qed.
Print Assumptions C14_remove_duplicates.

(* (1e) Generalized booleans: a test / predicate / sort predicate answers nil or ANY other object.  The
   model and the specification compute with the boolean "the relation holds"; for every style of answer the
   harness uses (t, a number, an argument, a string, a list, a mismatch index) that boolean is both what the
   Go call sites decide (!= nil) and what the language means (not nil); a comparison with t would not be. *)
Theorem C14_generalized_booleans : forall s b, go_decides (answer s b) = b /\ truthy (answer s b) = b.
Proof. exact answer_decided. Qed.
Print Assumptions C14_generalized_booleans.
Theorem C14_only_t_is_not_truth : forall s, s <> TrT -> is_t_g (answer s true) = false /\ not_nil_g (answer s true) = true.
Proof. exact is_t_differs. Qed.
Print Assumptions C14_only_t_is_not_truth.

(* (2) Uniformity over lists, vectors and strings: two calls that differ only in how the sequences are
   given (nil / list / vector / string: with_form) and are both inside the guard return the same value,
   for every function whose result the language determines. *)
Theorem C14_uniform : forall c f g s,
  single_valued (c_fn c) = true ->
  in_domain (with_form f c) = true -> in_domain (with_form g c) = true ->
  s_call (with_form f c) = Some s ->
  m_call (with_form f c) = Some s /\ m_call (with_form g c) = Some s.
Proof. exact uniform_results. Qed.
Print Assumptions C14_uniform.

(* (3) sort and stable-sort.  What the harness observes is judged by checkers; the checkers decide
   exactly the property's sentence: "a permutation of the input ordered by the predicate" ... *)
Theorem C14_sort_checker_decides : forall lt k xs ys,
  sorted_perm_ok lt k xs ys = true <-> (Permutation xs ys /\ ordered lt k ys).
Proof. exact sorted_perm_ok_iff. Qed.
Print Assumptions C14_sort_checker_decides.
(* ... "and stable-sort keeps equal elements in their original order" *)
Theorem C14_stable_checker_decides : forall lt k xs ys,
  stable_ok lt k xs ys = true <-> stable_spec lt k xs ys.
Proof. exact stable_ok_iff. Qed.
Print Assumptions C14_stable_checker_decides.
(* the specification of stable-sort is satisfiable (insertion sort meets it for every strict weak
   order) and determines the result completely, so comparing with s_isort loses nothing *)
Theorem C14_stable_sort_exists_unique : forall lt k, swo lt -> forall xs,
  stable_spec lt k xs (s_isort lt k xs) /\ forall ys, stable_spec lt k xs ys -> ys = s_isort lt k xs.
Proof. exact stable_sort_exists_unique. Qed.
Print Assumptions C14_stable_sort_exists_unique.
(* < and > (char< char>) on the keys are strict weak orders *)
Theorem C14_strict_tests_are_orders : forall t, test_strict t = true -> swo (s_test2 t).
Proof. exact swo_of_strict_test. Qed.
Print Assumptions C14_strict_tests_are_orders.
(* what ./check applies to an observed result of (sort ...) / (stable-sort ...) *)
Theorem C14_sort_call_judged : forall c ys, c_fn c = FSort ->
  (spec_ok c (RSeq ys) = true <-> sort_spec (s_test2 (c_test c)) (key_app (c_key c)) (elems (c_seq c)) ys).
Proof. exact sort_checker. Qed.
Print Assumptions C14_sort_call_judged.
Theorem C14_stable_sort_call_judged : forall c ys, c_fn c = FStableSort -> test_strict (c_test c) = true ->
  (spec_ok c (RSeq ys) = true <-> stable_spec (s_test2 (c_test c)) (key_app (c_key c)) (elems (c_seq c)) ys).
Proof. exact stable_sort_checker. Qed.
Print Assumptions C14_stable_sort_call_judged.

(* merge of two ordered sequences is ordered, a permutation of both together, and stable with the
   elements of the first sequence first (the reference); the Go loop (repaired by repo_fixes/C14-16)
   IS that merge: ordered, a permutation, and stable *)
Theorem C14_merge_reference : forall lt k, swo lt -> forall l1 l2, ordered lt k l1 -> ordered lt k l2 ->
  stable_spec lt k (l1 ++ l2) (s_merge lt k l1 l2).
Proof. exact merge_spec. Qed.
Print Assumptions C14_merge_reference.
Theorem C14_merge_code_sorted_permutation : forall t k l1 l2, test_strict t = true ->
  ordered (s_test2 t) (key_app k) l1 -> ordered (s_test2 t) (key_app k) l2 ->
  sort_spec (s_test2 t) (key_app k) (l1 ++ l2) (m_merge_lists t k l1 l2).
Proof. exact m_merge_sorted_perm. Qed.
Print Assumptions C14_merge_code_sorted_permutation.
Theorem C14_merge_code_stable : forall t k l1 l2, test_strict t = true ->
  ordered (s_test2 t) (key_app k) l1 -> ordered (s_test2 t) (key_app k) l2 ->
  stable_spec (s_test2 t) (key_app k) (l1 ++ l2) (m_merge_lists t k l1 l2).
Proof. exact m_merge_stable. Qed.
Print Assumptions C14_merge_code_stable.

(* (4) set functions: the checkers decide the relations the language describes *)
Theorem C14_union_checker_decides : forall mt l1 l2 r, union_ok mt l1 l2 r = true <-> union_spec mt l1 l2 r.
Proof. exact union_ok_iff. Qed.
Print Assumptions C14_union_checker_decides.
Theorem C14_intersection_checker_decides : forall mt l1 l2 r, intersection_ok mt l1 l2 r = true <-> intersection_spec mt l1 l2 r.
Proof. exact intersection_ok_iff. Qed.
Print Assumptions C14_intersection_checker_decides.
Theorem C14_set_difference_checker_decides : forall mt l1 l2 r, set_difference_ok mt l1 l2 r = true <-> set_difference_spec mt l1 l2 r.
Proof. exact set_difference_ok_iff. Qed.
Print Assumptions C14_set_difference_checker_decides.
Theorem C14_subsetp_decides : forall mt l1 l2, s_subsetp mt l1 l2 = true <-> subsetp_spec mt l1 l2.
Proof. exact s_subsetp_iff. Qed.
Print Assumptions C14_subsetp_decides.

(* (5) laws of S itself, so that the reference cannot be quietly wrong: position is the smallest
   (:from-end: largest) matching index of the bounded part, find is the element there, count counts,
   find succeeds iff count > 0 *)
Theorem C14_position_is_first : forall p start w i, s_position p false start w = Some i ->
  (start <= i < start + length w)%nat /\ p (nth (i - start) w 0) = true /\ forall j, (j < i - start)%nat -> p (nth j w 0) = false.
Proof. exact position_forward_law. Qed.
Print Assumptions C14_position_is_first.
Theorem C14_position_from_end_is_last : forall p start w i, s_position p true start w = Some i ->
  (start <= i < start + length w)%nat /\ p (nth (i - start) w 0) = true /\ forall j, (i - start < j < length w)%nat -> p (nth j w 0) = false.
Proof. exact position_from_end_law. Qed.
Print Assumptions C14_position_from_end_is_last.
Theorem C14_position_nil_iff_no_match : forall p fe start w, s_position p fe start w = None <-> forall x, In x w -> p x = false.
Proof. exact position_none_law. Qed.
Print Assumptions C14_position_nil_iff_no_match.
Theorem C14_find_is_element_at_position : forall p fe start w,
  s_find p fe w = match s_position p fe start w with Some i => Some (nth (i - start) w 0) | None => None end.
Proof. exact find_is_element_at_position. Qed.
Print Assumptions C14_find_is_element_at_position.
Theorem C14_find_iff_count_positive : forall p fe w, (exists x, s_find p fe w = Some x) <-> (0 < s_count p w)%nat.
Proof. exact find_iff_count. Qed.
Print Assumptions C14_find_iff_count_positive.
(* remove: without :count all matching elements go; with :count n exactly the first n (with :from-end,
   by from_end_wrap, the last n); nothing else is touched; substitute touches the same elements and
   keeps the length *)
Theorem C14_remove_all : forall p l, rem_n p None l = filter (fun x => negb (p x)) l.
Proof. exact remove_all_law. Qed.
Print Assumptions C14_remove_all.
Theorem C14_remove_first_n : forall p a b n, length (filter p a) = n ->
  rem_n p (Some n) (a ++ b) = filter (fun x => negb (p x)) a ++ b.
Proof. exact remove_count_law. Qed.
Print Assumptions C14_remove_first_n.
Theorem C14_remove_length : forall p n l, length (rem_n p (Some n) l) = (length l - Nat.min n (length (filter p l)))%nat.
Proof. exact remove_length_law. Qed.
Print Assumptions C14_remove_length.
Theorem C14_substitute_length_and_frame : forall p new n l,
  filter (fun x => negb (p x)) l = filter (fun x => negb (p x)) (rem_n p n l) /\ length (sub_n p new n l) = length l.
Proof. exact substitute_vs_remove. Qed.
Print Assumptions C14_substitute_length_and_frame.
(* remove-duplicates: no survivor matches a later survivor; for a transitive test every element
   survives or matches a survivor after it (so the LAST of each group of duplicates is the one kept) *)
Theorem C14_remove_duplicates_no_match_left : forall t k w,
  ForallOrdPairs (fun a b => s_test2 t (key_app k a) (key_app k b) = false) (dedup_later t k w).
Proof. exact dedup_later_no_match. Qed.
Print Assumptions C14_remove_duplicates_no_match_left.
Theorem C14_remove_duplicates_represents : forall t k w x, tr t -> In x w ->
  In x (dedup_later t k w) \/ exists z, In z (dedup_later t k w) /\ s_test2 t (key_app k x) (key_app k z) = true.
Proof. exact dedup_later_represents. Qed.
Print Assumptions C14_remove_duplicates_represents.
Theorem C14_subsetp_iff_set_difference_empty : forall mt l1 l2,
  s_subsetp mt l1 l2 = true <-> filter (fun x => negb (existsb (fun y => mt x y) l2)) l1 = [].
Proof. exact subsetp_iff_difference_empty. Qed.
Print Assumptions C14_subsetp_iff_set_difference_empty.
(* the in-place swap loops of reverse / nreverse / delete :from-end compute the reversal *)
Theorem C14_reverse_loops : forall l, m_reverse_list l = rev l /\ go_reverse l = rev l.
Proof. exact reverse_loops. Qed.
Print Assumptions C14_reverse_loops.

(* (6) outside the guard the faithful model leaves the specification: the remaining known findings (the
   -if-not functions, mismatch :from-end index, fill bounds = length, reduce on an empty range) and the
   argument order of remove-duplicates :from-end (not a finding), each a concrete call with
   negb (in_domain c), m_call c = Some r and spec_ok c r = false *)
Theorem C14_known_findings_refuted : forallb refutes refutation_witnesses = true.
Proof. exact all_refuted. Qed.
Print Assumptions C14_known_findings_refuted.
Theorem C14_if_not_missing_refuted : refutes w_remove_if_not = true /\ refutes w_find_if_not = true /\
  m_call w_remove_if_not = Some (RErr EUndefined) /\ s_call w_remove_if_not = Some (RSeq [0]) /\ s_call w_find_if_not = Some (RElt 1).
Proof. exact if_not_missing_refuted. Qed.
Print Assumptions C14_if_not_missing_refuted.
Theorem C14_mismatch_refuted : refutes w_mismatch_from_end = true.
Proof. exact mismatch_refuted. Qed.
Print Assumptions C14_mismatch_refuted.
Theorem C14_fill_end_refuted : refutes w_fill_end = true /\ refutes w_fill_start = true.
Proof. exact fill_end_refuted. Qed.
Print Assumptions C14_fill_end_refuted.
Theorem C14_reduce_refuted : refutes w_reduce_empty = true /\ refutes w_reduce_start = true.
Proof. exact reduce_refuted. Qed.
Print Assumptions C14_reduce_refuted.
Theorem C14_remove_duplicates_refuted : refutes w_dups_from_end = true.
Proof. exact remove_duplicates_refuted. Qed.
Print Assumptions C14_remove_duplicates_refuted.

(* (6') repaired defects (repo_fixes/C14-n.patch): each former refutation witness is now inside the guard, and
   the model of the repaired code and the specification both give the listed value *)
Theorem C14_repaired_witnesses : forallb repaired_ok repaired_witnesses = true.
Proof. exact repaired_all. Qed.
Print Assumptions C14_repaired_witnesses.

(* set-difference is specified as a relation: its repaired :test-not witness, (set-difference '(1 2) '(2)
   :test-not 'eql) => (2), is inside the guard and the modelled result passes the checker of (4) *)
Theorem C14_set_difference_test_not_repaired :
  in_domain w_setdiff_test_not = true /\ m_call w_setdiff_test_not = Some (RSeq [2]) /\ spec_ok w_setdiff_test_not (RSeq [2]) = true.
Proof. exact setdiff_test_not_repaired. Qed.
Print Assumptions C14_set_difference_test_not_repaired.

(* (7) the guard is satisfiable with every keyword in play and non-trivial results *)
Theorem C14_guard_nonvacuous : forallb in_domain ex_calls = true /\
  map m_call ex_calls =
  [ Some (RElt 1); Some (RInt 4); Some (RInt 3); Some (RSeq [1;0;2;1]); Some (RSeq [0;1;7;2]); Some (RSeq [1;-2]);
    Some (RSeq [3;2]); Some (RInt 3); Some (RInt 2); Some (RElt (-6)); Some (RSeq [4;3;2;1;0]); Some (RSeq [1;2;3]);
    Some (RSeq [1;7]) ].
Proof. exact guard_nonvacuous. Qed.
Print Assumptions C14_guard_nonvacuous.
