(* C14 — shared vocabulary of the model and the specification: elements, the enumerated family of
   tests / keys / predicates, sequence inputs as the Go type switch sees them, calls, results. *)
From Coq Require Export List ZArith Bool Lia.
Export ListNotations.
Open Scope Z_scope.

(* Elements are integers.  On the implementation side an element e is the fixnum e in a list or a
   vector and the character with code 100+e in a string. *)

(* two-argument tests: eql = < > <= >= /=   (char= char< ... on characters) *)
Inductive testfn := TEql | TEq | TLt | TGt | TLe | TGe | TNe.
Definition test_app (t : testfn) (a b : Z) : bool :=
  match t with
  | TEql | TEq => a =? b
  | TLt => a <? b
  | TGt => b <? a
  | TLe => a <=? b
  | TGe => b <=? a
  | TNe => negb (a =? b)
  end.

(* keys: - abs 1+ and the square (lambda (x) (times x x)) *)
Inductive keyfn := KNeg | KAbs | KSucc | KSq.
Definition key_fun (k : keyfn) (x : Z) : Z :=
  match k with KNeg => - x | KAbs => Z.abs x | KSucc => x + 1 | KSq => x * x end.
Definition key_app (k : option keyfn) (x : Z) : Z := match k with None => x | Some f => key_fun f x end.

(* one-argument predicates of the -if functions: (lambda (x) (t c x)) *)
Inductive predfn := PT (t : testfn) (c : Z).
Definition pred_app (p : predfn) (x : Z) : bool := match p with PT t c => test_app t c x end.

(* Generalized booleans.  A Lisp test or predicate answers nil for false and ANY other object for true.
   test_app / pred_app above say whether the relation holds; what the function written by the harness
   actually returns when it holds is chosen per call: the symbol t, the number 7, one of its arguments, a
   string, a fresh list, or (on strings) the mismatch index that string< and friends return. *)
Inductive truth := TrT | TrNum | TrElt | TrStr | TrList | TrIdx.
Inductive gbool := GNil | GT | GOther.
Definition answer (s : truth) (holds : bool) : gbool :=
  if holds then match s with TrT => GT | _ => GOther end else GNil.
(* the language: everything but nil is true.  The Go code: `f.Call(...) != nil` at every call site *)
Definition not_nil_g (g : gbool) : bool := match g with GNil => false | _ => true end.
(* what a comparison with slip.True would decide instead *)
Definition is_t_g (g : gbool) : bool := match g with GT => true | _ => false end.

(* :test / :test-not / neither *)
Inductive testarg := TDefault | TTest (t : testfn) | TTestNot (t : testfn).
(* :count absent / nil / a fixnum *)
Inductive countarg := CAbsent | CNil | CNum (z : Z).

(* A sequence argument as the type switches of the Go code see it: the Go nil (written nil or (list)),
   a slip.List (possibly empty: written '()), a *slip.Vector, a slip.String. *)
Inductive seqin := SNil | SList (l : list Z) | SVec (l : list Z) | SStr (l : list Z).
Definition elems (s : seqin) : list Z :=
  match s with SNil => [] | SList l | SVec l | SStr l => l end.
(* same representation, other contents (for results of the same type as the argument) *)
Inductive rep := RepList | RepVec | RepStr.
Definition rep_of (s : seqin) : rep := match s with SNil | SList _ => RepList | SVec _ => RepVec | SStr _ => RepStr end.

(* UTF-8 width of the character that carries element e (code 100+e); strings only hold codes 1..2047 *)
Definition char_width (e : Z) : nat := if 100 + e <? 128 then 1%nat else 2%nat.
Definition byte_len (l : list Z) : nat := fold_right (fun e a => (char_width e + a)%nat) 0%nat l.
(* len(seq) as the Go code computes it on the argument itself: bytes for a string *)
Definition go_len (s : seqin) : nat :=
  match s with SStr l => byte_len l | _ => length (elems s) end.

Inductive fname :=
  | FFind | FFindIf | FPosition | FPositionIf | FCount | FCountIf
  | FRemove | FRemoveIf | FDelete | FDeleteIf
  | FSubstitute | FSubstituteIf | FNsubstitute | FNsubstituteIf
  | FRemoveDuplicates | FDeleteDuplicates
  | FMember | FMemberIf | FAssoc | FAssocIf | FAssocIfNot | FRassoc | FRassocIf
  | FSearch | FMismatch
  | FSubseq | FReplace | FFill | FReverse | FNreverse
  | FSort | FStableSort | FMerge
  | FUnion | FIntersection | FSetDifference | FSubsetp
  | FEvery | FSome | FNotany | FNotevery
  | FMap | FMapcar | FReduce | FConcatenate
  (* the -if-not functions of the language; slip does not define them *)
  | FFindIfNot | FPositionIfNot | FCountIfNot | FRemoveIfNot | FDeleteIfNot | FSubstituteIfNot | FNsubstituteIfNot.

(* two-argument functions handed to reduce / map: + - max min, first and second projection *)
Inductive binop := BAdd | BSub | BMax | BMin | BFirst | BSecond.
Definition binop_app (o : binop) (a b : Z) : Z :=
  match o with BAdd => a + b | BSub => a - b | BMax => Z.max a b | BMin => Z.min a b | BFirst => a | BSecond => b end.

Record call := mkCall {
  c_fn : fname;
  c_item : Z;              (* item / old *)
  c_new : Z;               (* new (substitute) *)
  c_pred : predfn;         (* predicate of the -if functions *)
  c_seq : seqin;
  c_seq2 : seqin;
  c_start : option nat;    (* None: absent *)
  c_end : option nat;      (* None: absent or nil *)
  c_end_nil : bool;        (* :end nil was written (c_end = None) *)
  c_start2 : option nat;
  c_end2 : option nat;
  c_key : option keyfn;
  c_test : testarg;
  c_count : countarg;
  c_from_end : bool;
  c_op : binop;            (* reduce / two-sequence map *)
  c_init : option Z;       (* reduce :initial-value *)
  c_nseq : nat;            (* every some notany notevery map mapcar: 1 or 2 sequences *)
  c_flag : bool;           (* some: the predicate returns the element instead of t *)
  c_truth : truth          (* what the tests / predicates of this call return for "true" *)
}.

Inductive errc := EType | EError | EFault | EUndefined | EOther.
Inductive res :=
  | RNil                   (* nil as "not found" / false *)
  | RTrue
  | RInt (z : Z)           (* an index or a count *)
  | RElt (z : Z)           (* an element of the sequence *)
  | RSeq (l : list Z)      (* a sequence of the expected type (the harness checks the type) *)
  | ROther                 (* observed only: a value of an unexpected type *)
  | RErr (e : errc).

Fixpoint list_eqb {A} (eqb : A -> A -> bool) (a b : list A) : bool :=
  match a, b with [] , [] => true | x :: a', y :: b' => eqb x y && list_eqb eqb a' b' | _, _ => false end.
Definition errc_eqb (a b : errc) : bool :=
  match a, b with
  | EType, EType | EError, EError | EFault, EFault | EUndefined, EUndefined | EOther, EOther => true
  | _, _ => false
  end.
Definition res_eqb (a b : res) : bool :=
  match a, b with
  | RNil, RNil | RTrue, RTrue => true
  | RInt x, RInt y | RElt x, RElt y => x =? y
  | RSeq x, RSeq y => list_eqb Z.eqb x y
  | RErr x, RErr y => errc_eqb x y
  | ROther, ROther => true        (* never produced by the model or the specification *)
  | _, _ => false
  end.

(* the sub-list [s, e) *)
Definition slice (s e : nat) (l : list Z) : list Z := firstn (e - s) (skipn s l).

(* how an element is matched by a call: item functions compare item with the key under the test
   (default: slip.ObjectEqual, which on fixnums and on characters is eql); -if functions apply the predicate *)
Definition item_match (t : testarg) (item : Z) (k : option keyfn) (x : Z) : bool :=
  match t with
  | TDefault => item =? key_app k x
  | TTest f => test_app f item (key_app k x)
  | TTestNot f => negb (test_app f item (key_app k x))
  end.
Definition if_match (p : predfn) (k : option keyfn) (x : Z) : bool := pred_app p (key_app k x).
