(* C14 — sort / stable-sort / merge: the checkers decide the specification; the reference stable sort
   meets it and is the only list that does; merge. *)
From C14 Require Import Base Model Spec.
From Coq Require Import Arith Permutation Sorted.

(* ---- permutation checker ------------------------------------------------------------------------------ *)
Lemma occ_count_occ : forall x l, occ x l = count_occ Z.eq_dec l x.
Proof.
  induction l as [|y t IH]; [reflexivity|]. cbn [occ count_occ].
  destruct (Z.eqb_spec x y) as [->|Hne].
  - destruct (Z.eq_dec y y); [now rewrite IH|congruence].
  - destruct (Z.eq_dec y x); [congruence|exact IH].
Qed.

Theorem perm_ok_iff : forall xs ys, perm_ok xs ys = true <-> Permutation xs ys.
Proof.
  intros xs ys. unfold perm_ok. rewrite forallb_forall. split.
  - intros H. apply (Permutation_count_occ Z.eq_dec). intros x.
    destruct (in_dec Z.eq_dec x (xs ++ ys)) as [Hin|Hnin].
    + specialize (H x Hin). apply Nat.eqb_eq in H. now rewrite <- !occ_count_occ.
    + assert (~ In x xs /\ ~ In x ys) as [H1 H2] by (split; intro; apply Hnin; apply in_or_app; auto).
      apply (count_occ_not_In Z.eq_dec) in H1, H2. now rewrite H1, H2.
  - intros HP x _. apply Nat.eqb_eq. rewrite !occ_count_occ.
    now apply (Permutation_count_occ Z.eq_dec).
Qed.

(* ---- sortedness ----------------------------------------------------------------------------------------- *)
(* "ordered by the predicate": no element is strictly before an element that precedes it *)
Definition ordered (lt : Z -> Z -> bool) (k : Z -> Z) : list Z -> Prop :=
  StronglySorted (fun a b => lt (k b) (k a) = false).

Theorem sorted_by_iff : forall lt k l, sorted_by lt k l = true <-> ordered lt k l.
Proof.
  intros lt k. induction l as [|x t IH]; cbn [sorted_by].
  - split; [constructor|reflexivity].
  - rewrite andb_true_iff, forallb_forall, IH. split.
    + intros [H1 H2]. constructor; [exact H2|]. apply Forall_forall. intros y Hy.
      specialize (H1 y Hy). now apply negb_true_iff in H1.
    + intros H. inversion H as [|? ? Hs Hf]; subst. split; [|exact Hs].
      intros y Hy. rewrite Forall_forall in Hf. apply negb_true_iff. now apply Hf.
Qed.

(* sort: the result is a permutation of the argument ordered by the predicate on the keys *)
Definition sort_spec (lt : Z -> Z -> bool) (k : Z -> Z) (xs ys : list Z) : Prop :=
  Permutation xs ys /\ ordered lt k ys.
Theorem sorted_perm_ok_iff : forall lt k xs ys, sorted_perm_ok lt k xs ys = true <-> sort_spec lt k xs ys.
Proof.
  intros. unfold sorted_perm_ok, sort_spec. now rewrite andb_true_iff, perm_ok_iff, sorted_by_iff.
Qed.

(* stable-sort: moreover the elements no key comparison can tell apart keep their original order *)
Definition stable_spec (lt : Z -> Z -> bool) (k : Z -> Z) (xs ys : list Z) : Prop :=
  sort_spec lt k xs ys /\
  forall x, In x xs -> filter (key_equiv lt k x) ys = filter (key_equiv lt k x) xs.

Lemma list_eqb_eq : forall a b, list_eqb Z.eqb a b = true <-> a = b.
Proof.
  induction a as [|x a IH]; destruct b as [|y b]; cbn; try (split; [discriminate|discriminate]); try (split; reflexivity).
  rewrite andb_true_iff, Z.eqb_eq, IH. split; [intros [-> ->]; reflexivity|intros H; inversion H; auto].
Qed.

Theorem stable_ok_iff : forall lt k xs ys, stable_ok lt k xs ys = true <-> stable_spec lt k xs ys.
Proof.
  intros. unfold stable_ok, stable_spec. rewrite andb_true_iff, sorted_perm_ok_iff, forallb_forall.
  split; intros [H1 H2]; (split; [exact H1|]); intros x Hx; specialize (H2 x Hx); now apply list_eqb_eq.
Qed.

(* ---- strict weak orders ---------------------------------------------------------------------------------- *)
Record swo (lt : Z -> Z -> bool) : Prop := {
  swo_asym : forall a b, lt a b = true -> lt b a = false;
  swo_negtrans : forall a b c, lt a b = false -> lt b c = false -> lt a c = false
}.
Lemma swo_irrefl : forall lt, swo lt -> forall a, lt a a = false.
Proof. intros lt H a. destruct (lt a a) eqn:E; [|reflexivity]. pose proof (swo_asym lt H a a E). congruence. Qed.

Lemma swo_lt : swo Z.ltb.
Proof. split; intros; rewrite ?Z.ltb_lt, ?Z.ltb_ge in *; lia. Qed.
Lemma swo_gt : swo (fun a b => b <? a).
Proof. split; intros; rewrite ?Z.ltb_lt, ?Z.ltb_ge in *; lia. Qed.
Lemma swo_of_strict_test : forall t, test_strict t = true -> swo (s_test2 t).
Proof.
  intros [|[]|[]] H; try discriminate; cbn.
  - exact swo_lt.
  - exact swo_gt.
Qed.

Lemma filter_cons : forall (f : Z -> bool) x l, filter f (x :: l) = if f x then x :: filter f l else filter f l.
Proof. reflexivity. Qed.

Section Sorting.
  Variables (lt : Z -> Z -> bool) (k : Z -> Z).
  Hypothesis W : swo lt.
  Local Notation eqv := (key_equiv lt k).
  Local Notation ord := (ordered lt k).

  Lemma eqv_refl : forall x, eqv x x = true.
  Proof. intros. unfold key_equiv. now rewrite (swo_irrefl lt W). Qed.
  Lemma eqv_sym : forall x y, eqv x y = eqv y x.
  Proof. intros. unfold key_equiv. apply andb_comm. Qed.
  Lemma lt_eqv_l : forall a b x, lt (k a) (k b) = true -> eqv x b = true -> lt (k a) (k x) = true.
  Proof.
    intros a b x H E. unfold key_equiv in E. apply andb_true_iff in E as [E1 E2]. apply negb_true_iff in E1, E2.
    destruct (lt (k a) (k x)) eqn:L; [reflexivity|].
    pose proof (swo_negtrans lt W _ _ _ L E1). congruence.
  Qed.

  (* insertion *)
  Lemma insert_perm : forall x l, Permutation (x :: l) (s_insert lt k x l).
  Proof.
    induction l as [|y t IH]; cbn; [reflexivity|].
    destruct (lt (k y) (k x)); [|reflexivity].
    etransitivity; [apply perm_swap|]. now constructor.
  Qed.

  Lemma insert_ordered : forall x l, ord l -> ord (s_insert lt k x l).
  Proof.
    induction l as [|y t IH]; intros Hs; cbn.
    - repeat constructor.
    - inversion Hs as [|? ? Hs' Hf]; subst. destruct (lt (k y) (k x)) eqn:L.
      + constructor; [now apply IH|].
        apply Forall_forall. intros z Hz.
        apply (Permutation_in _ (Permutation_sym (insert_perm x t))) in Hz. destruct Hz as [<-|Hz].
        * now apply (swo_asym lt W).
        * rewrite Forall_forall in Hf. now apply Hf.
      + constructor; [exact Hs|]. constructor; [exact L|].
        apply Forall_forall. intros z Hz. rewrite Forall_forall in Hf. specialize (Hf z Hz).
        exact (swo_negtrans lt W _ _ _ Hf L).
  Qed.

  Lemma insert_filter : forall x a l,
    filter (eqv x) (s_insert lt k a l) = if eqv x a then a :: filter (eqv x) l else filter (eqv x) l.
  Proof.
    induction l as [|y t IH]; cbn [s_insert filter].
    - destruct (eqv x a); reflexivity.
    - destruct (lt (k y) (k a)) eqn:L.
      + cbn [filter]. rewrite IH. destruct (eqv x a) eqn:E; [|reflexivity].
        (* y is strictly before a, a cannot be told from x: y is not in the class of x *)
        assert (eqv x y = false) as ->; [|reflexivity].
        pose proof (lt_eqv_l y a x L E) as Hyx. unfold key_equiv. rewrite Hyx. cbn. apply andb_false_r.
      + cbn [filter]. destruct (eqv x a); reflexivity.
  Qed.

  Lemma isort_filter : forall y xs, filter (eqv y) (s_isort lt k xs) = filter (eqv y) xs.
  Proof.
    induction xs as [|x t IH]; [reflexivity|]. cbn [s_isort filter]. rewrite insert_filter, IH. reflexivity.
  Qed.
  Lemma isort_perm : forall xs, Permutation xs (s_isort lt k xs).
  Proof.
    induction xs as [|x t IH]; [constructor|]. cbn [s_isort].
    etransitivity; [|apply insert_perm]. now constructor.
  Qed.
  Lemma isort_ordered : forall xs, ord (s_isort lt k xs).
  Proof. induction xs as [|x t IH]; [constructor|]. cbn [s_isort]. now apply insert_ordered. Qed.

  (* the reference stable sort meets the specification of stable-sort ... *)
  Theorem isort_stable : forall xs, stable_spec lt k xs (s_isort lt k xs).
  Proof.
    intros xs. split; [split; [apply isort_perm|apply isort_ordered]|]. intros x _. apply isort_filter.
  Qed.

  (* ... and nothing else does: two ordered permutations of each other with the same classes are equal *)
  Lemma ordered_head_min : forall y ys z, ord (y :: ys) -> In z (y :: ys) -> lt (k z) (k y) = false.
  Proof.
    intros y ys z Ho [<-|Hz]; [apply (swo_irrefl lt W)|].
    inversion Ho as [|? ? _ Hf]; subst. rewrite Forall_forall in Hf. now apply Hf.
  Qed.

  Lemma stable_unique_aux : forall ys zs,
    Permutation ys zs -> ord ys -> ord zs ->
    (forall x, In x ys -> filter (eqv x) ys = filter (eqv x) zs) -> ys = zs.
  Proof.
    induction ys as [|y ys IH]; intros zs HP Hy Hz Hf.
    - apply Permutation_nil in HP. now subst.
    - destruct zs as [|z zs]; [apply Permutation_sym, Permutation_nil in HP; discriminate|].
      assert (eqv y z = true) as Eyz.
      { unfold key_equiv. apply andb_true_iff. split; apply negb_true_iff.
        - apply (ordered_head_min z zs y Hz). apply (Permutation_in _ HP). now left.
        - apply (ordered_head_min y ys z Hy). apply (Permutation_in _ (Permutation_sym HP)). now left. }
      assert (y = z) as <-.
      { pose proof (Hf y (or_introl eq_refl)) as H. cbn [filter] in H. rewrite eqv_refl, Eyz in H. now inversion H. }
      f_equal. apply IH.
      + now apply Permutation_cons_inv in HP.
      + now inversion Hy.
      + now inversion Hz.
      + intros x Hx. pose proof (Hf x (or_intror Hx)) as H. cbn [filter] in H.
        destruct (eqv x y); [now inversion H|exact H].
  Qed.

  Theorem stable_unique : forall xs ys, stable_spec lt k xs ys -> ys = s_isort lt k xs.
  Proof.
    intros xs ys [[HP Ho] Hf]. apply stable_unique_aux.
    - etransitivity; [apply Permutation_sym, HP|apply isort_perm].
    - exact Ho.
    - apply isort_ordered.
    - intros x Hx. rewrite isort_filter. apply Hf. apply (Permutation_in _ (Permutation_sym HP) Hx).
  Qed.

  (* ---- merge ------------------------------------------------------------------------------------------- *)
  Lemma merge_nil_r : forall l1, s_merge lt k l1 [] = l1.
  Proof. destruct l1; reflexivity. Qed.
  Lemma merge_cons : forall x a y b,
    s_merge lt k (x :: a) (y :: b) =
    if lt (k y) (k x) then y :: s_merge lt k (x :: a) b else x :: s_merge lt k a (y :: b).
  Proof. reflexivity. Qed.

  Lemma merge_perm : forall l1 l2, Permutation (l1 ++ l2) (s_merge lt k l1 l2).
  Proof.
    induction l1 as [|x a IH1]; [intros; destruct l2; reflexivity|].
    induction l2 as [|y b IH2]; [rewrite app_nil_r; reflexivity|].
    rewrite merge_cons. destruct (lt (k y) (k x)).
    - etransitivity; [apply Permutation_sym, Permutation_middle|]. constructor. exact IH2.
    - cbn [app]. constructor. apply IH1.
  Qed.

  Lemma merge_filter : forall x l1 l2,
    ord l1 -> ord l2 ->
    filter (eqv x) (s_merge lt k l1 l2) = filter (eqv x) l1 ++ filter (eqv x) l2.
  Proof.
    intros x. induction l1 as [|a l1 IH1]; [intros; destruct l2; reflexivity|].
    induction l2 as [|b l2 IH2]; intros H1 H2; [rewrite app_nil_r; reflexivity|].
    rewrite merge_cons. destruct (lt (k b) (k a)) eqn:L.
    - rewrite (filter_cons (eqv x) b (s_merge lt k (a :: l1) l2)), (filter_cons (eqv x) b l2).
      rewrite IH2 by (auto; now inversion H2).
      destruct (eqv x b) eqn:E; [|reflexivity].
      (* b is strictly before a, hence before all of l1: nothing of l1 is in the class of x *)
      assert (filter (eqv x) (a :: l1) = []) as ->; [|reflexivity].
      assert (forall z, In z (a :: l1) -> eqv x z = false) as Hno.
      { intros z Hz. assert (lt (k b) (k z) = true) as Lz.
        { destruct (lt (k b) (k z)) eqn:Lz; [reflexivity|].
          pose proof (ordered_head_min a l1 z H1 Hz) as Hza.
          (* not (b < z) and not (z < a) would give not (b < a) *)
          pose proof (swo_negtrans lt W _ _ _ Lz Hza). congruence. }
        pose proof (lt_eqv_l b z x Lz) as Hc. unfold key_equiv.
        destruct (lt (k x) (k z)) eqn:A1; [reflexivity|]. destruct (lt (k z) (k x)) eqn:A2; [apply andb_false_r|].
        assert (eqv x z = true) as Exz by (unfold key_equiv; now rewrite A1, A2).
        specialize (Hc Exz). unfold key_equiv in E. apply andb_true_iff in E as [_ E]. apply negb_true_iff in E. congruence. }
      clear -Hno. induction (a :: l1) as [|z t IHt]; [reflexivity|]. cbn [filter].
      rewrite (Hno z (or_introl eq_refl)). apply IHt. intros w Hw. apply Hno. now right.
    - rewrite (filter_cons (eqv x) a (s_merge lt k l1 (b :: l2))), (filter_cons (eqv x) a l1).
      rewrite IH1 by (auto; now inversion H1). destruct (eqv x a); reflexivity.
  Qed.

  Lemma merge_ordered : forall l1 l2, ord l1 -> ord l2 -> ord (s_merge lt k l1 l2).
  Proof.
    induction l1 as [|a l1 IH1]; [intros; destruct l2; assumption|].
    induction l2 as [|b l2 IH2]; intros H1 H2; [exact H1|].
    rewrite merge_cons. destruct (lt (k b) (k a)) eqn:L.
    - constructor; [apply IH2; auto; now inversion H2|].
      apply Forall_forall. intros z Hz.
      apply (Permutation_in _ (Permutation_sym (merge_perm (a :: l1) l2))) in Hz.
      apply in_app_or in Hz as [Hz|Hz].
      + (* z in a :: l1: not (z < a), b < a, so not (z < b) *)
        pose proof (ordered_head_min a l1 z H1 Hz) as Hza.
        destruct (lt (k z) (k b)) eqn:Lzb; [|reflexivity].
        pose proof (swo_asym lt W _ _ L) as Lab.
        (* not (a < b) and ... : use negative transitivity on (z,a) and (a,b) *)
        pose proof (swo_negtrans lt W _ _ _ Hza Lab). congruence.
      + inversion H2 as [|? ? _ Hf]; subst. rewrite Forall_forall in Hf. now apply Hf.
    - constructor; [apply IH1; auto; now inversion H1|].
      apply Forall_forall. intros z Hz.
      apply (Permutation_in _ (Permutation_sym (merge_perm l1 (b :: l2)))) in Hz.
      apply in_app_or in Hz as [Hz|Hz].
      + inversion H1 as [|? ? _ Hf]; subst. rewrite Forall_forall in Hf. now apply Hf.
      + (* z in b :: l2: not (z < b), not (b < a) *)
        pose proof (ordered_head_min b l2 z H2 Hz) as Hzb.
        exact (swo_negtrans lt W _ _ _ Hzb L).
  Qed.

  (* merge of ordered sequences: ordered, a permutation of both together, and the elements the
     predicate cannot tell apart stay in order with those of the first sequence first *)
  Theorem merge_spec : forall l1 l2, ord l1 -> ord l2 ->
    stable_spec lt k (l1 ++ l2) (s_merge lt k l1 l2).
  Proof.
    intros l1 l2 H1 H2. split; [split; [apply merge_perm|now apply merge_ordered]|].
    intros x _. rewrite filter_app. now apply merge_filter.
  Qed.
End Sorting.

(* the Go loop is the reference merge: an element of the second sequence goes first only when it is
   strictly before the head of the first *)
Lemma m_merge_cons : forall t k x a y b,
  m_merge_lists t k (x :: a) (y :: b) =
  if lt_of t (key_app k y) (key_app k x) then y :: m_merge_lists t k (x :: a) b else x :: m_merge_lists t k a (y :: b).
Proof. reflexivity. Qed.

Lemma m_merge_is_reference : forall t k l1 l2,
  m_merge_lists t k l1 l2 = s_merge (s_test2 t) (key_app k) l1 l2.
Proof.
  intros t k. induction l1 as [|x a IH1]; [intros; destruct l2; reflexivity|].
  induction l2 as [|y b IH2]; [reflexivity|].
  rewrite m_merge_cons, merge_cons. unfold lt_of. replace (test2 t) with (s_test2 t) by (destruct t; reflexivity).
  destruct (s_test2 t (key_app k y) (key_app k x)).
  - f_equal. exact IH2.
  - f_equal. apply IH1.
Qed.

(* the Go merge of two ordered sequences: ordered, a permutation of both together, and stable with the
   elements of the first sequence first *)
Theorem m_merge_stable : forall t k l1 l2, test_strict t = true ->
  ordered (s_test2 t) (key_app k) l1 -> ordered (s_test2 t) (key_app k) l2 ->
  stable_spec (s_test2 t) (key_app k) (l1 ++ l2) (m_merge_lists t k l1 l2).
Proof.
  intros t k l1 l2 Ht H1 H2. rewrite m_merge_is_reference.
  exact (merge_spec _ _ (swo_of_strict_test t Ht) l1 l2 H1 H2).
Qed.

Theorem m_merge_sorted_perm : forall t k l1 l2, test_strict t = true ->
  ordered (s_test2 t) (key_app k) l1 -> ordered (s_test2 t) (key_app k) l2 ->
  sort_spec (s_test2 t) (key_app k) (l1 ++ l2) (m_merge_lists t k l1 l2).
Proof. intros t k l1 l2 Ht H1 H2. exact (proj1 (m_merge_stable t k l1 l2 Ht H1 H2)). Qed.
