(* C14 — find / position / count: the model equals the specification on the guard, for all sequences. *)
From C14 Require Import Base Model Spec.
From Coq Require Import Arith.

Lemma slice_all : forall s (l : list Z), slice s (length l) l = skipn s l.
Proof.
  intros. unfold slice. apply firstn_all2. rewrite skipn_length. lia.
Qed.

Lemma slice_nil_ge : forall s e (l : list Z), (length l <= s)%nat -> slice s e l = [].
Proof.
  intros. unfold slice. rewrite skipn_all2 by lia. apply firstn_nil.
Qed.

(* the Go window is the window of the specification when the bounds are in range *)
Lemma go_window_ok : forall st (e : option nat) (l : list Z),
  let en := match e with Some n => n | None => length l end in
  (st <= en)%nat -> (en <= length l)%nat ->
  go_window st e l = Some (slice st en l).
Proof.
  intros st e l en H1 H2. unfold go_window. destruct e as [n|]; cbn in en; subst en.
  - destruct (Nat.ltb_spec n (length l)).
    + destruct (Nat.ltb_spec n st); [lia|reflexivity].
    + assert (n = length l) by lia. subst. now rewrite slice_all.
  - now rewrite slice_all.
Qed.

Lemma scan_fwd_eq : forall p l i,
  scan_fwd p i l = match find p l, index_of p l with
                   | Some x, Some j => Some ((i + j)%nat, x)
                   | _, _ => None
                   end.
Proof.
  induction l as [|x t IH]; intros i; cbn; [reflexivity|].
  destruct (p x).
  - now rewrite Nat.add_0_r.
  - rewrite IH. destruct (find p t); [|reflexivity].
    destruct (index_of p t); cbn; [|reflexivity]. f_equal. f_equal. lia.
Qed.

Lemma find_index_some : forall p (l : list Z), (exists x, find p l = Some x) <-> (exists j, index_of p l = Some j).
Proof.
  induction l as [|x t IH]; cbn.
  - split; intros [? H]; discriminate.
  - destruct (p x).
    + split; eauto.
    + rewrite IH. split; intros [j H].
      * rewrite H. cbn. eauto.
      * destruct (index_of p t); [eauto|discriminate].
Qed.

Lemma find_none_index_none : forall p (l : list Z), find p l = None <-> index_of p l = None.
Proof.
  intros. destruct (find p l) eqn:F, (index_of p l) eqn:I; split; intros; try congruence; try reflexivity.
  - assert (exists j, index_of p l = Some j) as [j Hj] by (apply find_index_some; eauto). congruence.
  - assert (exists x, find p l = Some x) as [x Hx] by (apply find_index_some; eauto). congruence.
Qed.

Lemma find_none_rev : forall p (l : list Z), find p l = None -> find p (rev l) = None.
Proof.
  intros p l H. destruct (find p (rev l)) eqn:F; [|reflexivity].
  apply find_some in F. destruct F as [Hin Hp]. apply in_rev in Hin.
  eapply find_none in H; eauto. congruence.
Qed.

(* what m_scan computes, in terms of the specification's find / position *)
Lemma m_scan_spec : forall p v l,
  let en := match v_end v with Some n => n | None => length l end in
  (v_start v <= en)%nat -> (en <= length l)%nat ->
  let w := slice (v_start v) en l in
  match m_scan p v l with
  | ScFault => False
  | ScNone => s_find p (v_from_end v) w = None /\ s_position p (v_from_end v) (v_start v) w = None
  | ScHit i x => s_find p (v_from_end v) w = Some x /\
                 s_position p (v_from_end v) (v_start v) w = Some (v_start v + i)%nat
  end.
Proof.
  intros p v l en H1 H2 w. unfold m_scan.
  destruct (Nat.leb_spec (length l) (v_start v)) as [Hle|Hlt].
  - assert (w = []) as -> by (apply slice_nil_ge; lia).
    unfold s_find, s_position. destruct (v_from_end v); cbn; auto.
  - rewrite (go_window_ok (v_start v) (v_end v) l H1 H2). fold en. fold w.
    unfold s_find, s_position, scan_bwd. destruct (v_from_end v).
    + rewrite scan_fwd_eq. destruct (find p (rev w)) eqn:F.
      * destruct (index_of p (rev w)) eqn:I.
        -- cbn. split; [reflexivity|]. reflexivity.
        -- apply find_none_index_none in I. congruence.
      * apply find_none_index_none in F as I. rewrite I. cbn. auto.
    + rewrite scan_fwd_eq. destruct (find p w) eqn:F.
      * destruct (index_of p w) eqn:I.
        -- cbn. auto.
        -- apply find_none_index_none in I. congruence.
      * apply find_none_index_none in F as I. rewrite I.
        rewrite scan_fwd_eq. rewrite (find_none_rev _ _ F). cbn. auto.
Qed.

(* count *)
Lemma count_loop_eq : forall p l n, count_loop p l n = n + Z.of_nat (length (filter p l)).
Proof.
  induction l as [|x t IH]; intros n; cbn; [lia|].
  rewrite IH. destruct (p x); cbn [length]; lia.
Qed.

Lemma filter_rev_length : forall (p : Z -> bool) l, length (filter p (rev l)) = length (filter p l).
Proof.
  induction l as [|x t IH]; cbn; [reflexivity|].
  rewrite filter_app, app_length, IH. cbn. destruct (p x); cbn; lia.
Qed.

Lemma byte_len_ascii : forall l, forallb elem_ascii l = true -> byte_len l = length l.
Proof.
  induction l as [|x t IH]; [reflexivity|].
  intros H. cbn [forallb] in H. apply andb_true_iff in H as [Hx Ht].
  change (byte_len (x :: t)) with (char_width x + byte_len t)%nat. rewrite (IH Ht). cbn [length].
  unfold elem_ascii in Hx. apply andb_true_iff in Hx as [_ Hx]. apply Z.ltb_lt in Hx.
  unfold char_width. destruct (Z.ltb_spec (100 + x) 128); [reflexivity|lia].
Qed.

Lemma go_len_ascii : forall s, seq_ascii s = true -> go_len s = length (elems s).
Proof.
  destruct s; cbn; try reflexivity. apply byte_len_ascii.
Qed.

Lemma norm_end_in_range : forall glen (e : option nat),
  (match e with Some n => n | None => glen end <= glen)%nat ->
  norm_end glen e = match e with Some n => n | None => glen end.
Proof.
  intros glen [n|] H; unfold norm_end; [|reflexivity].
  destruct (Nat.ltb_spec glen n); [lia|reflexivity].
Qed.

(* ---- the calls ------------------------------------------------------------------------------------- *)
(* H : in_domain c = true  becomes  H : bounds_ok c = true, and the other four conjuncts *)
Ltac split_dom H Hs1 Hs2 Hk Hf :=
  unfold in_domain in H;
  apply andb_true_iff in H; destruct H as [H Hf];
  apply andb_true_iff in H; destruct H as [H Hk];
  apply andb_true_iff in H; destruct H as [H Hs2];
  apply andb_true_iff in H; destruct H as [H Hs1].

Lemma matchers_agree : forall c, s_is_if_not (c_fn c) = false -> m_match c = s_match c.
Proof. intros c H. unfold m_match, s_match. destruct (c_fn c); try discriminate H; reflexivity. Qed.

Lemma parse_sfv_scan : forall c,
  no_count (c_fn c) = true -> keywords_ok c = true ->
  parse_sfv c = Some (mkSfv (s_start c) (c_end c) None (c_from_end c)).
Proof.
  intros c Hn Hk. unfold keywords_ok in Hk. apply andb_true_iff in Hk as [K1 K2].
  assert (takes_count (c_fn c) = false) as Tc by (destruct (c_fn c); cbn in Hn |- *; congruence).
  rewrite Tc in K2. cbn in K2.
  unfold parse_sfv, s_start. destruct (c_count c); try discriminate.
  destruct (c_test c) eqn:T; try reflexivity;
    (destruct (is_if (c_fn c)) eqn:I; [|reflexivity];
     assert (takes_no_test (c_fn c) = true) as Tn by (destruct (c_fn c); cbn in I |- *; congruence);
     rewrite Tn in K1; cbn in K1; discriminate).
Qed.

Definition is_scan_fn (f : fname) : bool :=
  match f with FFind | FFindIf | FPosition | FPositionIf | FCount | FCountIf => true | _ => false end.

Section Scan.
  Variable c : call.
  Local Notation l := (elems (c_seq c)).
  Local Notation v := (mkSfv (s_start c) (c_end c) None (c_from_end c)).
  Hypothesis NI : s_is_if_not (c_fn c) = false.
  Hypothesis B1 : (s_start c <= s_end c l)%nat.
  Hypothesis B2 : (s_end c l <= length l)%nat.
  Local Notation w := (slice (s_start c) (s_end c l) l).

  Lemma scan_here :
    match m_scan (s_match c) v l with
    | ScFault => False
    | ScNone => s_find (s_match c) (c_from_end c) w = None /\ s_position (s_match c) (c_from_end c) (s_start c) w = None
    | ScHit i x => s_find (s_match c) (c_from_end c) w = Some x /\
                   s_position (s_match c) (c_from_end c) (s_start c) w = Some (s_start c + i)%nat
    end.
  Proof. exact (m_scan_spec (s_match c) v l B1 B2). Qed.

  Lemma w_nil_of_nil : l = [] -> w = [].
  Proof. intros ->. unfold slice. now rewrite skipn_nil, firstn_nil. Qed.

  Lemma m_find_eq : m_find c v = opt_elt (s_find (s_match c) (c_from_end c) w).
  Proof.
    pose proof scan_here as Hs. unfold m_find. rewrite matchers_agree by exact NI.
    destruct (c_seq c) eqn:S; cbn [elems] in *;
      try (match goal with |- context [m_scan ?a ?b ?d] => destruct (m_scan a b d) end; [contradiction| |]; destruct Hs as [-> _]; reflexivity).
    unfold slice; rewrite skipn_nil, firstn_nil. unfold s_find. destruct (c_from_end c); reflexivity.
  Qed.

  Lemma m_position_eq : m_position c v = opt_int (s_position (s_match c) (c_from_end c) (s_start c) w).
  Proof.
    pose proof scan_here as Hs. unfold m_position. rewrite matchers_agree by exact NI.
    destruct (c_seq c) eqn:S; cbn [elems] in *;
      try (match goal with |- context [m_scan ?a ?b ?d] => destruct (m_scan a b d) end; [contradiction| |]; destruct Hs as [_ ->]; reflexivity).
    unfold slice; rewrite skipn_nil, firstn_nil. unfold s_position. destruct (c_from_end c); reflexivity.
  Qed.

  Lemma m_count_eq : m_count c v = RInt (Z.of_nat (s_count (s_match c) w)).
  Proof.
    unfold m_count. cbn [v_start v_end v_from_end].
    assert (norm_end (length l) (c_end c) = s_end c l) as Hne.
    { unfold s_end. apply norm_end_in_range. exact B2. }
    rewrite matchers_agree by exact NI.
    destruct (c_seq c) eqn:S; cbn [elems] in *;
      try (rewrite Hne; rewrite count_loop_eq; unfold s_count;
           destruct (c_from_end c); [rewrite filter_rev_length|]; reflexivity).
    unfold slice; rewrite skipn_nil, firstn_nil. reflexivity.
  Qed.
End Scan.

Theorem scan_meets_spec : forall c,
  is_scan_fn (c_fn c) = true -> in_domain c = true -> m_call c = s_call c.
Proof.
  intros c Hf Hd.
  assert (Hb := Hd). split_dom Hb D2 D1 D0 D.
  unfold bounds_ok in Hb. apply andb_true_iff in Hb as [B1 B2].
  apply Nat.leb_le in B1, B2.
  assert (no_count (c_fn c) = true) as Hnc by (destruct (c_fn c); try discriminate; reflexivity).
  pose proof (parse_sfv_scan c Hnc D0) as Hp.
  unfold m_call, s_call. rewrite Hp.
  destruct (c_fn c) eqn:F; try discriminate Hf.
  - rewrite m_find_eq; auto; now rewrite F.
  - rewrite m_find_eq; auto; now rewrite F.
  - rewrite m_position_eq; auto; now rewrite F.
  - rewrite m_position_eq; auto; now rewrite F.
  - rewrite m_count_eq; auto; now rewrite F.
  - rewrite m_count_eq; auto; now rewrite F.
Qed.
