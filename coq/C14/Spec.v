(* C14 — S: the sequence functions as the language defines them, over lists (vectors and strings are
   the same function of their elements: uniformity is built in), and the guard. *)
From C14 Require Import Base.

(* a generalized boolean is true when it is not nil; test_app / pred_app are that reading of the answer of
   the function actually called (answer (c_truth c) ...), whatever object stands for "true" *)
Definition truthy (g : gbool) : bool := not_nil_g g.

(* which element matches: the item under :test / :test-not (default eql) after :key, or the predicate *)
Definition s_is_if (f : fname) : bool :=
  match f with
  | FFindIf | FPositionIf | FCountIf | FRemoveIf | FDeleteIf | FSubstituteIf | FNsubstituteIf => true
  | _ => false
  end.
Definition s_is_if_not (f : fname) : bool :=
  match f with
  | FFindIfNot | FPositionIfNot | FCountIfNot | FRemoveIfNot | FDeleteIfNot | FSubstituteIfNot | FNsubstituteIfNot => true
  | _ => false
  end.
Definition s_match (c : call) : Z -> bool :=
  if s_is_if (c_fn c) then if_match (c_pred c) (c_key c)
  else if s_is_if_not (c_fn c) then (fun x => negb (if_match (c_pred c) (c_key c) x))
  else item_match (c_test c) (c_item c) (c_key c).

Definition s_start (c : call) : nat := match c_start c with Some n => n | None => 0%nat end.
Definition s_end (c : call) (l : list Z) : nat := match c_end c with Some n => n | None => length l end.

(* position of the first element satisfying p *)
Fixpoint index_of (p : Z -> bool) (l : list Z) : option nat :=
  match l with [] => None | x :: t => if p x then Some 0%nat else option_map S (index_of p t) end.

(* find: the first (with :from-end the last) element of the bounded part that matches *)
Definition s_find (p : Z -> bool) (fe : bool) (w : list Z) : option Z :=
  if fe then find p (rev w) else find p w.
(* position: its index in the whole sequence *)
Definition s_position (p : Z -> bool) (fe : bool) (start : nat) (w : list Z) : option nat :=
  if fe then option_map (fun j => (start + (length w - 1 - j))%nat) (index_of p (rev w))
  else option_map (fun i => (start + i)%nat) (index_of p w).
(* count: how many elements of the bounded part match *)
Definition s_count (p : Z -> bool) (w : list Z) : nat := length (filter p w).

(* remove at most n matching elements, leftmost first (None: no limit) *)
Fixpoint rem_n (p : Z -> bool) (n : option nat) (l : list Z) : list Z :=
  match l with
  | [] => []
  | x :: t => match n with
              | Some O => l
              | _ => if p x then rem_n p (option_map pred n) t else x :: rem_n p n t
              end
  end.
(* replace at most n matching elements, leftmost first *)
Fixpoint sub_n (p : Z -> bool) (new : Z) (n : option nat) (l : list Z) : list Z :=
  match l with
  | [] => []
  | x :: t => match n with
              | Some O => l
              | _ => if p x then new :: sub_n p new (option_map pred n) t else x :: sub_n p new n t
              end
  end.
(* :count — absent or nil: no limit; a negative count is zero *)
Definition s_limit (c : countarg) : option nat :=
  match c with CAbsent | CNil => None | CNum z => Some (Z.to_nat z) end.
(* with :from-end the rightmost n are taken *)
Definition from_end_wrap (fe : bool) (f : list Z -> list Z) (w : list Z) : list Z :=
  if fe then rev (f (rev w)) else f w.

(* remove-duplicates: an element is dropped when it matches (test on the keys, arguments in sequence
   order) a LATER element of the bounded part; with :from-end when an EARLIER one matches it *)
Definition s_test2 (t : testarg) (a b : Z) : bool :=
  match t with TDefault => a =? b | TTest f => test_app f a b | TTestNot f => negb (test_app f a b) end.
Fixpoint dedup_later (t : testarg) (k : option keyfn) (l : list Z) : list Z :=
  match l with
  | [] => []
  | x :: r => if existsb (fun y => s_test2 t (key_app k x) (key_app k y)) r then dedup_later t k r
              else x :: dedup_later t k r
  end.
(* seen: the earlier elements, all of them *)
Fixpoint dedup_earlier (t : testarg) (k : option keyfn) (seen l : list Z) : list Z :=
  match l with
  | [] => []
  | x :: r => if existsb (fun y => s_test2 t (key_app k y) (key_app k x)) seen then dedup_earlier t k (seen ++ [x]) r
              else x :: dedup_earlier t k (seen ++ [x]) r
  end.

Definition opt_elt (o : option Z) : res := match o with Some x => RElt x | None => RNil end.
Definition opt_int (o : option nat) : res := match o with Some x => RInt (Z.of_nat x) | None => RNil end.

(* ---- lists: member, assoc ----------------------------------------------------------------------- *)
(* member: the tail of the list that starts with the first matching element *)
Fixpoint s_drop_until (p : Z -> bool) (l : list Z) : list Z :=
  match l with [] => [] | x :: t => if p x then l else s_drop_until p t end.
(* assoc / rassoc: the first pair whose car / cdr matches; the item is the FIRST argument of the test *)
Definition s_pair_res (o : option (Z * Z)) : res := match o with Some (k, v) => RSeq [k; v] | None => RNil end.
Definition s_assoc (c : call) : res :=
  let al := combine (elems (c_seq c)) (elems (c_seq2 c)) in
  let side (kv : Z * Z) := match c_fn c with FRassoc | FRassocIf => snd kv | _ => fst kv end in
  match c_fn c with
  | FAssoc | FRassoc => s_pair_res (find (fun kv => item_match (c_test c) (c_item c) (c_key c) (side kv)) al)
  | FAssocIfNot => s_pair_res (find (fun kv => negb (if_match (c_pred c) (c_key c) (side kv))) al)
  | _ => s_pair_res (find (fun kv => if_match (c_pred c) (c_key c) (side kv)) al)
  end.

(* ---- search, mismatch ------------------------------------------------------------------------------ *)
Fixpoint s_prefix_match (t : testarg) (a b : list Z) : bool :=
  match a, b with
  | [], _ => true
  | x :: a', y :: b' => s_test2 t x y && s_prefix_match t a' b'
  | _ :: _, [] => false
  end.
Definition s_start2 (c : call) : nat := match c_start2 c with Some n => n | None => 0%nat end.
Definition s_end2 (c : call) (l : list Z) : nat := match c_end2 c with Some n => n | None => length l end.
(* the leftmost (with :from-end the rightmost) offset in the bounded part of sequence-2 at which the
   bounded part of sequence-1 matches element by element; the answer is an index into sequence-2 *)
Definition s_search (c : call) : res :=
  let w1 := map (key_app (c_key c)) (slice (s_start c) (s_end c (elems (c_seq c))) (elems (c_seq c))) in
  let w2 := map (key_app (c_key c)) (slice (s_start2 c) (s_end2 c (elems (c_seq2 c))) (elems (c_seq2 c))) in
  let offs := seq 0 (length w2 + 1 - length w1) in
  match find (fun o => s_prefix_match (c_test c) w1 (skipn o w2)) (if c_from_end c then rev offs else offs) with
  | Some o => RInt (Z.of_nat (s_start2 c + o))
  | None => RNil
  end.
(* mismatch: the first position of sequence-1 (counted in the whole sequence) at which the bounded
   parts differ or one of them ends; with :from-end one plus the last such position, comparing from
   the ends *)
Fixpoint s_mm (t : testarg) (a b : list Z) (i : nat) : option nat :=
  match a, b with
  | [], [] => None
  | x :: a', y :: b' => if s_test2 t x y then s_mm t a' b' (S i) else Some i
  | _, _ => Some i
  end.
Definition s_mismatch (c : call) : res :=
  let w1 := map (key_app (c_key c)) (slice (s_start c) (s_end c (elems (c_seq c))) (elems (c_seq c))) in
  let w2 := map (key_app (c_key c)) (slice (s_start2 c) (s_end2 c (elems (c_seq2 c))) (elems (c_seq2 c))) in
  if c_from_end c then
    match s_mm (c_test c) (rev w1) (rev w2) 0 with
    | Some j => RInt (Z.of_nat (s_end c (elems (c_seq c)) - j))
    | None => RNil
    end
  else match s_mm (c_test c) w1 w2 0 with
       | Some i => RInt (Z.of_nat (s_start c + i))
       | None => RNil
       end.

(* ---- subseq replace fill reverse --------------------------------------------------------------------- *)
Definition s_replace (c : call) : res :=
  let l1 := elems (c_seq c) in let l2 := elems (c_seq2 c) in
  let w2 := slice (s_start2 c) (s_end2 c l2) l2 in
  let n := Nat.min (s_end c l1 - s_start c) (length w2) in
  RSeq (firstn (s_start c) l1 ++ firstn n w2 ++ skipn (s_start c + n) l1).

(* ---- sort, stable-sort, merge -------------------------------------------------------------------------- *)
(* ys is ordered by the predicate on the keys: no later element is strictly before an earlier one *)
Fixpoint sorted_by (lt : Z -> Z -> bool) (k : Z -> Z) (l : list Z) : bool :=
  match l with [] => true | x :: t => forallb (fun y => negb (lt (k y) (k x))) t && sorted_by lt k t end.
Fixpoint occ (x : Z) (l : list Z) : nat := match l with [] => 0%nat | y :: t => if x =? y then S (occ x t) else occ x t end.
Definition perm_ok (xs ys : list Z) : bool := forallb (fun x => (occ x xs =? occ x ys)%nat) (xs ++ ys).
Definition sorted_perm_ok (lt : Z -> Z -> bool) (k : Z -> Z) (xs ys : list Z) : bool := perm_ok xs ys && sorted_by lt k ys.
(* elements whose keys are equivalent (neither before the other) keep their original order *)
Definition key_equiv (lt : Z -> Z -> bool) (k : Z -> Z) (x y : Z) : bool := negb (lt (k x) (k y)) && negb (lt (k y) (k x)).
Definition stable_ok (lt : Z -> Z -> bool) (k : Z -> Z) (xs ys : list Z) : bool :=
  sorted_perm_ok lt k xs ys &&
  forallb (fun x => list_eqb Z.eqb (filter (key_equiv lt k x) ys) (filter (key_equiv lt k x) xs)) xs.
(* the reference stable sort: insertion after the last element that is not after the new one *)
Fixpoint s_insert (lt : Z -> Z -> bool) (k : Z -> Z) (x : Z) (l : list Z) : list Z :=
  match l with [] => [x] | y :: t => if lt (k y) (k x) then y :: s_insert lt k x t else x :: l end.
Fixpoint s_isort (lt : Z -> Z -> bool) (k : Z -> Z) (l : list Z) : list Z :=
  match l with [] => [] | x :: t => s_insert lt k x (s_isort lt k t) end.
(* merge: an element of the second sequence goes first only when it is strictly before the head of
   the first (so equal keys keep sequence-1 elements first) *)
Fixpoint s_merge (lt : Z -> Z -> bool) (k : Z -> Z) (l1 : list Z) : list Z -> list Z :=
  fix inner (l2 : list Z) : list Z :=
    match l1, l2 with
    | [], _ => l2
    | _, [] => l1
    | x :: a, y :: b => if lt (k y) (k x) then y :: inner b else x :: s_merge lt k a l2
    end.

(* ---- set functions (as relations: the language leaves the order and the duplicates open) ------------------ *)
Definition mem (x : Z) (l : list Z) : bool := existsb (Z.eqb x) l.
Definition s_mt (c : call) (x y : Z) : bool := s_test2 (c_test c) (key_app (c_key c) x) (key_app (c_key c) y).
(* two elements are the same as far as the test can tell *)
Definition same_under (mt : Z -> Z -> bool) (x z : Z) : bool := mt x z || mt z x.
(* no two elements at different positions match each other *)
Fixpoint dup_free (mt : Z -> Z -> bool) (l : list Z) : bool :=
  match l with [] => true | x :: t => negb (existsb (same_under mt x) t) && dup_free mt t end.
(* union: nothing foreign; every element of either list is in the result or represented there by an
   element the test cannot tell from it ("one of the two elements of a matching pair"; "redundant
   entries may or may not appear"); duplicates only where an argument had duplicates *)
Definition union_ok (mt : Z -> Z -> bool) (l1 l2 r : list Z) : bool :=
  forallb (fun z => mem z l1 || mem z l2) r &&
  forallb (fun x => mem x r || existsb (same_under mt x) r) (l1 ++ l2) &&
  (negb (dup_free mt l1 && dup_free mt l2) || dup_free mt r).
(* intersection: only elements with a partner in the other list; every matching pair is represented *)
Definition intersection_ok (mt : Z -> Z -> bool) (l1 l2 r : list Z) : bool :=
  forallb (fun z => (mem z l1 && existsb (fun y => mt z y) l2) || (mem z l2 && existsb (fun x => mt x z) l1)) r &&
  forallb (fun x => forallb (fun y => negb (mt x y) || mem x r || mem y r || existsb (same_under mt x) r) l2) l1 &&
  (negb (dup_free mt l1 && dup_free mt l2) || dup_free mt r).
Definition set_difference_ok (mt : Z -> Z -> bool) (l1 l2 r : list Z) : bool :=
  let f := filter (fun x => negb (existsb (fun y => mt x y) l2)) l1 in
  forallb (fun z => mem z f) r && forallb (fun z => mem z r) f.
Definition s_subsetp (mt : Z -> Z -> bool) (l1 l2 : list Z) : bool := forallb (fun x => existsb (fun y => mt x y) l2) l1.

(* ---- every some notany notevery, map, reduce ---------------------------------------------------------------- *)
Definition s_quant_vals (c : call) : list bool :=
  match c_nseq c with
  | 1%nat => map (pred_app (c_pred c)) (elems (c_seq c))
  | _ => map (fun xy => s_test2 (c_test c) (fst xy) (snd xy)) (combine (elems (c_seq c)) (elems (c_seq2 c)))
  end.
Definition s_map_vals (c : call) : list Z :=
  match c_nseq c with
  | 1%nat => map (key_app (c_key c)) (elems (c_seq c))
  | _ => map (fun xy => binop_app (c_op c) (fst xy) (snd xy)) (combine (elems (c_seq c)) (elems (c_seq2 c)))
  end.
(* reduce: left fold (with :from-end right fold) of the keys of the bounded part, the initial value
   first (last); an empty part gives the initial value or the value of the function on no arguments,
   which only + defines here *)
Definition s_reduce (c : call) : option res :=
  let l := elems (c_seq c) in
  let ks := map (key_app (c_key c)) (slice (s_start c) (s_end c l) l) in
  let f := binop_app (c_op c) in
  match ks, c_init c with
  | [], Some v => Some (RElt v)
  | [], None => match c_op c with BAdd => Some (RElt 0) | _ => None end
  | x :: r, Some v => Some (RElt (if c_from_end c then fold_right f v ks else fold_left f ks v))
  | x :: r, None => Some (RElt (if c_from_end c then fold_right f (last ks 0) (removelast ks) else fold_left f r x))
  end.

(* ---- the functional part of S: None where S is a relation or leaves the result open ------------------------ *)
Definition s_call (c : call) : option res :=
  let l := elems (c_seq c) in
  let st := s_start c in
  let en := s_end c l in
  let w := slice st en l in
  let around (w' : list Z) := RSeq (firstn st l ++ w' ++ skipn en l) in
  let p := s_match c in
  match c_fn c with
  | FFind | FFindIf | FFindIfNot => Some (opt_elt (s_find p (c_from_end c) w))
  | FPosition | FPositionIf | FPositionIfNot => Some (opt_int (s_position p (c_from_end c) st w))
  | FCount | FCountIf | FCountIfNot => Some (RInt (Z.of_nat (s_count p w)))
  | FRemove | FRemoveIf | FDelete | FDeleteIf | FRemoveIfNot | FDeleteIfNot =>
      Some (around (from_end_wrap (c_from_end c) (rem_n p (s_limit (c_count c))) w))
  | FSubstitute | FSubstituteIf | FNsubstitute | FNsubstituteIf | FSubstituteIfNot | FNsubstituteIfNot =>
      Some (around (from_end_wrap (c_from_end c) (sub_n p (c_new c) (s_limit (c_count c))) w))
  | FRemoveDuplicates | FDeleteDuplicates =>
      Some (around (if c_from_end c then dedup_earlier (c_test c) (c_key c) [] w else dedup_later (c_test c) (c_key c) w))
  | FMember => Some (RSeq (s_drop_until (item_match (c_test c) (c_item c) (c_key c)) l))
  | FMemberIf => Some (RSeq (s_drop_until (if_match (c_pred c) (c_key c)) l))
  | FAssoc | FAssocIf | FAssocIfNot | FRassoc | FRassocIf => Some (s_assoc c)
  | FSearch => Some (s_search c)
  | FMismatch => Some (s_mismatch c)
  | FSubseq => Some (RSeq w)
  | FReplace => Some (s_replace c)
  | FFill => Some (around (repeat (c_item c) (en - st)))
  | FReverse | FNreverse => Some (RSeq (rev l))
  | FSort => None
  | FStableSort => Some (RSeq (s_isort (s_test2 (c_test c)) (key_app (c_key c)) l))
  | FMerge => Some (RSeq (s_merge (s_test2 (c_test c)) (key_app (c_key c)) l (elems (c_seq2 c))))
  | FUnion | FIntersection | FSetDifference => None
  | FSubsetp => Some (if s_subsetp (s_mt c) l (elems (c_seq2 c)) then RTrue else RNil)
  | FEvery => Some (if forallb (fun b => b) (s_quant_vals c) then RTrue else RNil)
  | FSome =>
      if c_flag c then Some (opt_elt (find (pred_app (c_pred c)) l))        (* the value the predicate returned *)
      else Some (if existsb (fun b => b) (s_quant_vals c) then RTrue else RNil)
  | FNotany => Some (if existsb (fun b => b) (s_quant_vals c) then RNil else RTrue)
  | FNotevery => Some (if forallb (fun b => b) (s_quant_vals c) then RNil else RTrue)
  | FMap | FMapcar => Some (RSeq (s_map_vals c))
  | FReduce => s_reduce c
  | FConcatenate => Some (RSeq (l ++ elems (c_seq2 c)))
  end.

(* does the result r meet the specification of the call? *)
Definition spec_ok (c : call) (r : res) : bool :=
  let l1 := elems (c_seq c) in let l2 := elems (c_seq2 c) in
  match c_fn c, r with
  | FSort, RSeq ys => sorted_perm_ok (s_test2 (c_test c)) (key_app (c_key c)) l1 ys
  | FUnion, RSeq ys => union_ok (s_mt c) l1 l2 ys
  | FIntersection, RSeq ys => intersection_ok (s_mt c) l1 l2 ys
  | FSetDifference, RSeq ys => set_difference_ok (s_mt c) l1 l2 ys
  | (FSort | FUnion | FIntersection | FSetDifference), _ => false
  | _, _ => match s_call c with Some s => res_eqb s r | None => true end
  end.

(* ---- the guard ---------------------------------------------------------------------------------- *)
Definition bounds_ok (c : call) : bool :=
  let l := elems (c_seq c) in ((s_start c <=? s_end c l) && (s_end c l <=? length l))%nat.
Definition bounds2_ok (c : call) : bool :=
  let l := elems (c_seq2 c) in ((s_start2 c <=? s_end2 c l) && (s_end2 c l <=? length l))%nat.
(* characters: codes 1..2047; ascii: one byte *)
Definition elem_ok (e : Z) : bool := (-99 <=? e) && (e <=? 1947).
Definition elem_ascii (e : Z) : bool := (-99 <=? e) && (e <? 28).
Definition seq_ok (s : seqin) : bool := match s with SStr l => forallb elem_ok l | _ => true end.
Definition seq_ascii (s : seqin) : bool := match s with SStr l => forallb elem_ascii l | _ => true end.
Definition test_symmetric (t : testarg) : bool :=
  match t with TDefault | TTest TEql | TTest TEq | TTest TNe => true | _ => false end.
Definition test_transitive (t : testarg) : bool :=
  match t with TTest TNe | TTestNot _ => false | _ => true end.
Definition test_equivalence (t : testarg) : bool :=
  match t with TDefault | TTest TEql | TTest TEq => true | _ => false end.
Definition test_strict (t : testarg) : bool :=
  match t with TTest TLt | TTest TGt => true | _ => false end.
Definition not_test_not (t : testarg) : bool := match t with TTestNot _ => false | _ => true end.
Definition not_nil (s : seqin) : bool := match s with SNil => false | _ => true end.
Definition is_list (s : seqin) : bool := match s with SNil | SList _ => true | _ => false end.
Definition start_absent (o : option nat) : bool := match o with None => true | Some _ => false end.

(* only keywords the function has: :test for the item functions, :count for remove / delete / substitute *)
Definition takes_no_test (f : fname) : bool :=
  match f with
  | FFindIf | FPositionIf | FCountIf | FRemoveIf | FDeleteIf | FSubstituteIf | FNsubstituteIf
  | FMemberIf | FAssocIf | FAssocIfNot | FRassocIf
  | FFindIfNot | FPositionIfNot | FCountIfNot | FRemoveIfNot | FDeleteIfNot | FSubstituteIfNot | FNsubstituteIfNot => true
  | _ => false
  end.
Definition takes_count (f : fname) : bool :=
  match f with
  | FRemove | FRemoveIf | FDelete | FDeleteIf | FSubstitute | FSubstituteIf | FNsubstitute | FNsubstituteIf
  | FRemoveIfNot | FDeleteIfNot | FSubstituteIfNot | FNsubstituteIfNot => true
  | _ => false
  end.
Definition keywords_ok (c : call) : bool :=
  (negb (takes_no_test (c_fn c)) || match c_test c with TDefault => true | _ => false end) &&
  (takes_count (c_fn c) || match c_count c with CAbsent => true | _ => false end).

Definition in_domain (c : call) : bool :=
  let l1 := elems (c_seq c) in let l2 := elems (c_seq2 c) in
  bounds_ok c && seq_ok (c_seq c) && seq_ok (c_seq2 c) && keywords_ok c &&
  match c_fn c with
  | FFind | FPosition | FCount | FRemove | FDelete => true
  | FFindIf | FPositionIf | FCountIf | FRemoveIf | FDeleteIf => true
  | FSubstitute | FNsubstitute | FSubstituteIf | FNsubstituteIf => true
  | FRemoveDuplicates | FDeleteDuplicates =>
      (* under :from-end the test receives (later element, earlier element): the order the language
         implies (sequence order) only for symmetric tests *)
      negb (c_from_end c) || test_symmetric (c_test c)
  | FMember | FMemberIf => is_list (c_seq c)
  | FAssoc | FRassoc | FAssocIf | FAssocIfNot | FRassocIf => is_list (c_seq c)
  | FSearch => bounds2_ok c
  | FMismatch =>
      bounds2_ok c &&
      (* KF from-end: the index of an element mismatch is counted from the wrong side (asserted by mismatch_test.go) *)
      (negb (c_from_end c) ||
       (let w1 := map (key_app (c_key c)) (slice (s_start c) (s_end c l1) l1) in
        let w2 := map (key_app (c_key c)) (slice (s_start2 c) (s_end2 c l2) l2) in
        match s_mm (c_test c) (rev w1) (rev w2) 0 with
        | None => true
        | Some j => (j =? Nat.min (length w1) (length w2))%nat
        end))
  | FSubseq => true
  | FReplace => bounds2_ok c
  | FFill =>
      not_nil (c_seq c) && negb (c_end_nil c) && (s_start c <? length l1)%nat &&    (* KF nil, :end nil, start / end = length (asserted by fill_test.go) *)
      (match c_end c with Some e => (e <? length l1)%nat | None => true end)
  | FReverse | FNreverse => true
  | FSort | FStableSort => test_strict (c_test c)
  | FMerge => test_strict (c_test c)
  | FUnion | FIntersection => is_list (c_seq c) && is_list (c_seq2 c) && test_equivalence (c_test c)
  | FSetDifference | FSubsetp => is_list (c_seq c) && is_list (c_seq2 c)
  (* the two-sequence predicate is c_test read as a plain function: TTestNot is not an encoding of a call *)
  | FEvery | FNotany | FNotevery => not_test_not (c_test c)
  | FSome =>
      (* the element-answering predicate (c_flag) is only written for one sequence *)
      not_test_not (c_test c) && (negb (c_flag c) || (c_nseq c =? 1)%nat)
  | FMap => true
  | FMapcar => is_list (c_seq c) && ((c_nseq c =? 1)%nat || is_list (c_seq2 c))
  | FReduce =>
      (negb (s_start c =? s_end c l1)%nat || match c_init c with Some _ => true | None => false end)   (* KF (reduce '+ '()) => nil (asserted by reduce_test.go) *)
  | FConcatenate => true
  (* KF the -if-not functions do not exist *)
  | FFindIfNot | FPositionIfNot | FCountIfNot | FRemoveIfNot | FDeleteIfNot | FSubstituteIfNot | FNsubstituteIfNot => false
  end.

(* ---- the same call on another representation of its sequences --------------------------------------------- *)
Inductive repform := AsNil | AsList | AsVec | AsStr.
(* AsNil: like AsList, but an empty sequence is written nil (the Go nil) instead of '() *)
Definition in_form (f : repform) (s : seqin) : seqin :=
  match f with
  | AsNil => match elems s with [] => SNil | l => SList l end
  | AsList => SList (elems s) | AsVec => SVec (elems s) | AsStr => SStr (elems s)
  end.
Definition with_form (f : repform) (c : call) : call :=
  mkCall (c_fn c) (c_item c) (c_new c) (c_pred c) (in_form f (c_seq c)) (in_form f (c_seq2 c))
         (c_start c) (c_end c) (c_end_nil c) (c_start2 c) (c_end2 c) (c_key c) (c_test c) (c_count c) (c_from_end c)
         (c_op c) (c_init c) (c_nseq c) (c_flag c) (c_truth c).

