(* C14 — S: the sequence functions as the language defines them, over lists (vectors and strings are
   the same function of their elements: uniformity is built in), and the guard. *)
From C14 Require Import Base.

(* which element matches: the item under :test / :test-not (default eql) after :key, or the predicate *)
Definition s_is_if (f : fname) : bool :=
  match f with
  | FFindIf | FPositionIf | FCountIf | FRemoveIf | FDeleteIf | FSubstituteIf | FNsubstituteIf => true
  | _ => false
  end.
Definition s_match (c : call) : Z -> bool :=
  if s_is_if (c_fn c) then if_match (c_pred c) (c_key c) else item_match (c_test c) (c_item c) (c_key c).

Definition s_start (c : call) : nat := match c_start c with Some n => n | None => 0%nat end.
Definition s_end (c : call) (l : list Z) : nat := match c_end c with Some n => n | None => length l end.

(* position of the first element satisfying p *)
Fixpoint index_of (p : Z -> bool) (l : list Z) : option nat :=
  match l with [] => None | x :: t => if p x then Some 0%nat else option_map S (index_of p t) end.

(* find: the first (with :from-end the last) element of the bounded part that matches *)
Definition s_find (p : Z -> bool) (fe : bool) (w : list Z) : option Z :=
  if fe then find p (rev w) else find p w.
(* position: its index in the whole sequence *)
Definition s_position (p : Z -> bool) (fe : bool) (start : nat) (w : list Z) : option nat :=
  if fe then option_map (fun j => (start + (length w - 1 - j))%nat) (index_of p (rev w))
  else option_map (fun i => (start + i)%nat) (index_of p w).
(* count: how many elements of the bounded part match *)
Definition s_count (p : Z -> bool) (w : list Z) : nat := length (filter p w).

(* remove at most n matching elements, leftmost first (None: no limit) *)
Fixpoint rem_n (p : Z -> bool) (n : option nat) (l : list Z) : list Z :=
  match l with
  | [] => []
  | x :: t => match n with
              | Some O => l
              | _ => if p x then rem_n p (option_map pred n) t else x :: rem_n p n t
              end
  end.
(* replace at most n matching elements, leftmost first *)
Fixpoint sub_n (p : Z -> bool) (new : Z) (n : option nat) (l : list Z) : list Z :=
  match l with
  | [] => []
  | x :: t => match n with
              | Some O => l
              | _ => if p x then new :: sub_n p new (option_map pred n) t else x :: sub_n p new n t
              end
  end.
(* :count — absent or nil: no limit; a negative count is zero *)
Definition s_limit (c : countarg) : option nat :=
  match c with CAbsent | CNil => None | CNum z => Some (Z.to_nat z) end.
(* with :from-end the rightmost n are taken *)
Definition from_end_wrap (fe : bool) (f : list Z -> list Z) (w : list Z) : list Z :=
  if fe then rev (f (rev w)) else f w.

(* remove-duplicates: an element is dropped when it matches (test on the keys, arguments in sequence
   order) a LATER element of the bounded part; with :from-end when an EARLIER one matches it *)
Definition s_test2 (t : testarg) (a b : Z) : bool :=
  match t with TDefault => a =? b | TTest f => test_app f a b | TTestNot f => negb (test_app f a b) end.
Fixpoint dedup_later (t : testarg) (k : option keyfn) (l : list Z) : list Z :=
  match l with
  | [] => []
  | x :: r => if existsb (fun y => s_test2 t (key_app k x) (key_app k y)) r then dedup_later t k r
              else x :: dedup_later t k r
  end.
(* seen: the earlier elements, all of them *)
Fixpoint dedup_earlier (t : testarg) (k : option keyfn) (seen l : list Z) : list Z :=
  match l with
  | [] => []
  | x :: r => if existsb (fun y => s_test2 t (key_app k y) (key_app k x)) seen then dedup_earlier t k (seen ++ [x]) r
              else x :: dedup_earlier t k (seen ++ [x]) r
  end.

Definition opt_elt (o : option Z) : res := match o with Some x => RElt x | None => RNil end.
Definition opt_int (o : option nat) : res := match o with Some x => RInt (Z.of_nat x) | None => RNil end.

Definition s_call (c : call) : res :=
  let l := elems (c_seq c) in
  let st := s_start c in
  let en := s_end c l in
  let w := slice st en l in
  let around (w' : list Z) := RSeq (firstn st l ++ w' ++ skipn en l) in
  let p := s_match c in
  match c_fn c with
  | FFind | FFindIf => opt_elt (s_find p (c_from_end c) w)
  | FPosition | FPositionIf => opt_int (s_position p (c_from_end c) st w)
  | FCount | FCountIf => RInt (Z.of_nat (s_count p w))
  | FRemove | FRemoveIf | FDelete | FDeleteIf =>
      around (from_end_wrap (c_from_end c) (rem_n p (s_limit (c_count c))) w)
  | FSubstitute | FSubstituteIf | FNsubstitute | FNsubstituteIf =>
      around (from_end_wrap (c_from_end c) (sub_n p (c_new c) (s_limit (c_count c))) w)
  | FRemoveDuplicates | FDeleteDuplicates =>
      around (if c_from_end c then dedup_earlier (c_test c) (c_key c) [] w else dedup_later (c_test c) (c_key c) w)
  end.

(* ---- the guard ---------------------------------------------------------------------------------- *)
Definition bounds_ok (c : call) : bool :=
  let l := elems (c_seq c) in ((s_start c <=? s_end c l) && (s_end c l <=? length l))%nat.
(* characters: codes 1..2047; ascii: one byte *)
Definition elem_ok (e : Z) : bool := (-99 <=? e) && (e <=? 1947).
Definition elem_ascii (e : Z) : bool := (-99 <=? e) && (e <? 28).
Definition seq_ok (s : seqin) : bool := match s with SStr l => forallb elem_ok l | _ => true end.
Definition seq_ascii (s : seqin) : bool := match s with SStr l => forallb elem_ascii l | _ => true end.
Definition test_symmetric (t : testarg) : bool :=
  match t with TDefault | TTest TEql | TTest TEq | TTest TNe => true | _ => false end.
Definition test_transitive (t : testarg) : bool :=
  match t with TTest TNe | TTestNot _ => false | _ => true end.
Definition not_test_not (t : testarg) : bool := match t with TTestNot _ => false | _ => true end.

Definition in_domain (c : call) : bool :=
  bounds_ok c && seq_ok (c_seq c) &&
  match c_fn c with
  | FFind | FPosition => not_test_not (c_test c)                       (* KF :test-not *)
  | FFindIf | FPositionIf => true
  | FCount => not_test_not (c_test c) && seq_ascii (c_seq c)          (* KF count on a non-ASCII string *)
  | FCountIf => seq_ascii (c_seq c)
  | FRemove | FDelete =>
      not_test_not (c_test c) && match c_count c with CNil => false | _ => true end   (* KF :count nil *)
  | FRemoveIf | FDeleteIf => match c_count c with CNil => false | _ => true end
  | FSubstitute | FNsubstitute =>
      not_test_not (c_test c) && match c_count c with CNum _ => false | _ => true end  (* KF :count counts looks *)
  | FSubstituteIf | FNsubstituteIf => match c_count c with CNum _ => false | _ => true end
  | FRemoveDuplicates | FDeleteDuplicates =>
      (* a non-transitive test makes "matches a later element" and "matches a later KEPT element"
         differ; under :from-end the argument order of the test is only fixed for symmetric tests *)
      test_transitive (c_test c) && (negb (c_from_end c) || test_symmetric (c_test c))
  end.
