(* C14 — the comparison evaluated on every run.  One case = one call (function, item/predicate,
   keywords, element lists) together with what the implementation returned when the sequences were
   given as a list, as nil (empty only), as a vector and as a string. *)
From C14 Require Import Base Model Spec.

Inductive repform := AsNil | AsList | AsVec | AsStr.
Definition in_form (f : repform) (s : seqin) : seqin :=
  match f with AsNil => SNil | AsList => SList (elems s) | AsVec => SVec (elems s) | AsStr => SStr (elems s) end.
Definition with_form (f : repform) (c : call) : call :=
  mkCall (c_fn c) (c_item c) (c_new c) (c_pred c) (in_form f (c_seq c)) (in_form f (c_seq2 c))
         (c_start c) (c_end c) (c_start2 c) (c_end2 c) (c_key c) (c_test c) (c_count c) (c_from_end c).

Definition case := (call * list (repform * res))%type.

(* 0 ok.  1: M <> observed, but the observed result is still what S demands (or the call is outside
   the guard and the model did not meet S there either).  2: M <> observed and the observed result
   differs from S, inside the guard or where the unchanged code met S: a failing input.
   3: self-check: M = observed, inside the guard, but M <> S (the theorem would be false). *)
Definition check_one (c : call) (o : repform * res) : N :=
  let c' := with_form (fst o) c in
  let m := m_call c' in
  let s := s_call c' in
  let dom := in_domain c' in
  if res_eqb m (snd o) then (if dom && negb (res_eqb m s) then 3%N else 0%N)
  else if (dom || res_eqb m s) && negb (res_eqb s (snd o)) then 2%N else 1%N.
Definition check_case (c : case) : N := fold_left (fun a o => N.max a (check_one (fst c) o)) (snd c) 0%N.

Fixpoint check_all_from (i : N) (cs : list case) : list (N * N) :=
  match cs with
  | [] => []
  | c :: cs' => let r := check_case c in (if N.eqb r 0 then [] else [(i, r)]) ++ check_all_from (N.succ i) cs'
  end.
Definition check_all := check_all_from 0%N.
(* observations inside the guard *)
Definition guard_count (cs : list case) : N :=
  N.of_nat (fold_left (fun a c => (a + length (filter (fun o => in_domain (with_form (fst o) (fst c))) (snd c)))%nat) cs 0%nat).
(* observations where the implementation (outside the guard) does not return what S demands *)
Definition spec_misses (cs : list case) : N :=
  N.of_nat (fold_left (fun a c => (a + length (filter (fun o => negb (res_eqb (s_call (with_form (fst o) (fst c))) (snd o))) (snd c)))%nat) cs 0%nat).
