(* C14 — the comparison evaluated on every run.  One case = one call (function, item/predicate,
   keywords, element lists) together with what the implementation returned when the sequences were
   given as a list, as nil (empty only), as a vector and as a string. *)
From C14 Require Import Base Model Spec.

Definition case := (call * list (repform * res))%type.

(* 0 ok.  1: M <> observed, but the observed result is still what S demands (or the call is outside
   the guard and the model did not meet S there either).  2: M <> observed and the observed result
   is not what S demands, inside the guard or where the unchanged code met S: a failing input; for
   the functions without a model (sort, stable-sort): the observed result fails the verified checker
   inside the guard.  3: self-check: M = observed, inside the guard, but M does not meet S (the
   theorem would be false). *)
Definition check_one (c : call) (o : repform * res) : N :=
  let c' := with_form (fst o) c in
  let dom := in_domain c' in
  match m_call c' with
  | Some m =>
      if res_eqb m (snd o) then (if dom && negb (spec_ok c' m) then 3%N else 0%N)
      else if (dom || spec_ok c' m) && negb (spec_ok c' (snd o)) then 2%N else 1%N
  | None => if dom && negb (spec_ok c' (snd o)) then 2%N else 0%N
  end.
Definition check_case (c : case) : N := fold_left (fun a o => N.max a (check_one (fst c) o)) (snd c) 0%N.

Fixpoint check_all_from (i : N) (cs : list case) : list (N * N) :=
  match cs with
  | [] => []
  | c :: cs' => let r := check_case c in (if N.eqb r 0 then [] else [(i, r)]) ++ check_all_from (N.succ i) cs'
  end.
Definition check_all := check_all_from 0%N.
(* observations inside the guard *)
Definition guard_count (cs : list case) : N :=
  N.of_nat (fold_left (fun a c => (a + length (filter (fun o => in_domain (with_form (fst o) (fst c))) (snd c)))%nat) cs 0%nat).
(* observations where the implementation (outside the guard) does not return what S demands *)
Definition spec_misses (cs : list case) : N :=
  N.of_nat (fold_left (fun a c => (a + length (filter (fun o => negb (spec_ok (with_form (fst o) (fst c)) (snd o))) (snd c)))%nat) cs 0%nat).
