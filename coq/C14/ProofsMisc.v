(* C14 — member assoc subseq replace fill reverse every/some/notany/notevery map mapcar reduce concatenate
   merge: M = S on the guard. *)
From C14 Require Import Base Model Spec ProofsScan ProofsSort.
From Coq Require Import Arith.

Lemma res_eqb_refl : forall r, res_eqb r r = true.
Proof.
  destruct r; cbn; try reflexivity; try apply Z.eqb_refl.
  - induction l as [|x t IH]; cbn; [reflexivity|]. now rewrite Z.eqb_refl.
  - destruct e; reflexivity.
Qed.

Lemma test2_s_test2 : forall t, test2 t = s_test2 t.
Proof. destruct t; reflexivity. Qed.

(* ---- member ---------------------------------------------------------------------------------------------- *)
Lemma drop_until_eq : forall p l, drop_until p l = s_drop_until p l.
Proof. induction l as [|x t IH]; cbn; [reflexivity|]. now rewrite IH. Qed.

Theorem member_meets_spec : forall c,
  (c_fn c = FMember \/ c_fn c = FMemberIf) -> in_domain c = true -> m_call c = s_call c.
Proof.
  intros c Hf Hd. assert (Hb := Hd). split_dom Hb D2 D1 D0 D.
  unfold keywords_ok in D0. apply andb_true_iff in D0 as [K _].
  unfold m_call, s_call, m_member. destruct Hf as [F|F]; rewrite F in *; cbn in D, K.
  - destruct (c_seq c) eqn:S; try discriminate D; cbn [elems].
    + reflexivity.
    + destruct (c_test c); now rewrite drop_until_eq.
  - destruct (c_seq c) eqn:S; try discriminate D; cbn [elems].
    + reflexivity.
    + destruct (c_test c); try discriminate K. now rewrite drop_until_eq.
Qed.

(* ---- assoc ------------------------------------------------------------------------------------------------ *)
Lemma assoc_test_item_match : forall t item k, assoc_test t item k = item_match t item None k.
Proof. intros [| |] item k; reflexivity. Qed.

Lemma find_ext : forall (A : Type) (f g : A -> bool) l, (forall x, f x = g x) -> find f l = find g l.
Proof. intros A f g l H. induction l as [|x t IH]; [reflexivity|]. cbn. now rewrite H, IH. Qed.

Lemma assoc_find_eq : forall t item key (side : Z * Z -> Z) al,
  find (fun kv => assoc_test t item (key_app key (side kv))) al = find (fun kv => item_match t item key (side kv)) al.
Proof.
  intros. apply find_ext. intros kv. rewrite assoc_test_item_match.
  unfold item_match. cbn [key_app]. reflexivity.
Qed.

Definition is_assoc_fn (f : fname) : bool :=
  match f with FAssoc | FAssocIf | FAssocIfNot | FRassoc | FRassocIf => true | _ => false end.

Theorem assoc_meets_spec : forall c, is_assoc_fn (c_fn c) = true -> in_domain c = true -> m_call c = s_call c.
Proof.
  intros c Hf Hd. assert (Hb := Hd). split_dom Hb D2 D1 D0 D.
  unfold keywords_ok in D0. apply andb_true_iff in D0 as [K _].
  assert (list_arg (c_seq c) = Some (elems (c_seq c))) as S.
  { destruct (c_fn c); try discriminate Hf; cbn in D; repeat (apply andb_true_iff in D as [D ?]);
      destruct (c_seq c); try discriminate; reflexivity. }
  unfold m_call, s_call, m_assoc, s_assoc. rewrite S.
  destruct (c_fn c) eqn:F; try discriminate Hf; cbn in D, K.
  - reflexivity.
  - destruct (c_test c); try discriminate K. reflexivity.
  - destruct (c_test c); try discriminate K. reflexivity.
  - reflexivity.
  - destruct (c_test c); try discriminate K. reflexivity.
Qed.

(* ---- subseq fill replace ---------------------------------------------------------------------------------- *)
Ltac get_bounds Hb B1 B2 :=
  unfold bounds_ok in Hb; apply andb_true_iff in Hb as [B1 B2]; apply Nat.leb_le in B1, B2.

Theorem subseq_meets_spec : forall c, c_fn c = FSubseq -> in_domain c = true -> m_call c = s_call c.
Proof.
  intros c F Hd. assert (Hb := Hd). split_dom Hb D2 D1 D0 D. get_bounds Hb B1 B2.
  unfold m_call, s_call, m_subseq. rewrite F. fold (s_start c).
  change (match c_end c with Some n => n | None => length (elems (c_seq c)) end) with (s_end c (elems (c_seq c))).
  destruct (Nat.ltb_spec (length (elems (c_seq c))) (s_start c)); [lia|].
  destruct (Nat.ltb_spec (length (elems (c_seq c))) (s_end c (elems (c_seq c)))); [lia|]. cbn [orb].
  destruct (Nat.ltb_spec (s_end c (elems (c_seq c))) (s_start c)); [lia|reflexivity].
Qed.

Theorem fill_meets_spec : forall c, c_fn c = FFill -> in_domain c = true -> m_call c = s_call c.
Proof.
  intros c F Hd. assert (Hb := Hd). split_dom Hb D2 D1 D0 D. get_bounds Hb B1 B2.
  rewrite F in D. cbn in D.
  apply andb_true_iff in D as [D E2]. apply andb_true_iff in D as [D E1]. apply andb_true_iff in D as [N En].
  apply negb_true_iff in En. apply Nat.ltb_lt in E1.
  unfold m_call, s_call, m_fill. rewrite F, En. fold (s_start c).
  assert (forall l, elems (c_seq c) = l ->
    (if (length l <=? s_start c)%nat then RErr EError
     else match (match c_end c with None => Some (length l) | Some n => if (length l <=? n)%nat then None else Some n end) with
          | None => RErr EError
          | Some e => if (e <? s_start c)%nat then RErr EError
                      else RSeq (firstn (s_start c) l ++ repeat (c_item c) (e - s_start c) ++ skipn e l)
          end) = RSeq (firstn (s_start c) l ++ repeat (c_item c) (s_end c l - s_start c) ++ skipn (s_end c l) l)) as Hgen.
  { intros l Hl. rewrite Hl in *. destruct (Nat.leb_spec (length l) (s_start c)); [lia|].
    unfold s_end in *. destruct (c_end c) as [n|].
    - apply Nat.ltb_lt in E2. destruct (Nat.leb_spec (length l) n); [lia|].
      destruct (Nat.ltb_spec n (s_start c)); [lia|reflexivity].
    - destruct (Nat.ltb_spec (length l) (s_start c)); [lia|reflexivity]. }
  destruct (c_seq c) eqn:S; try discriminate N; cbn [elems] in *; f_equal; now apply Hgen.
Qed.

Lemma seq_to_list_ok : forall s (st : option nat) (e : option nat),
  let l := elems s in
  let st' := match st with Some n => n | None => 0%nat end in
  let en := match e with Some n => n | None => length l end in
  (st' <= en)%nat -> (en <= length l)%nat ->
  seq_to_list s st e = LOk (slice st' en l).
Proof.
  intros s st e l st' en H1 H2. unfold seq_to_list. fold l. fold st'.
  destruct (((st' =? 0) && (length l =? 0))%nat && match e with None => true | _ => false end) eqn:Sp.
  - apply andb_true_iff in Sp as [Sp E]. apply andb_true_iff in Sp as [S0 L0].
    apply Nat.eqb_eq in S0, L0. destruct e; [discriminate|]. cbn in en. subst en. rewrite S0.
    destruct l; [reflexivity|discriminate].
  - destruct (Nat.ltb_spec (length l) st'); [lia|].
    destruct e as [n|]; cbn in en; subst en.
    + destruct (Nat.ltb_spec (length l) n); [lia|]. destruct (Nat.ltb_spec n st'); [lia|reflexivity].
    + now rewrite slice_all.
Qed.

Theorem replace_meets_spec : forall c, c_fn c = FReplace -> in_domain c = true -> m_call c = s_call c.
Proof.
  intros c F Hd. assert (Hb := Hd). split_dom Hb D2 D1 D0 D. get_bounds Hb B1 B2.
  rewrite F in D. cbn in D.
  unfold bounds2_ok in D. apply andb_true_iff in D as [C1 C2]. apply Nat.leb_le in C1, C2.
  unfold m_call, s_call, m_replace, s_replace. rewrite F.
  rewrite (seq_to_list_ok (c_seq2 c) (c_start2 c) (c_end2 c) C1 C2).
  fold (s_start c). fold (s_start2 c).
  change (match c_end2 c with Some n => n | None => length (elems (c_seq2 c)) end) with (s_end2 c (elems (c_seq2 c))).
  set (w2 := slice (s_start2 c) (s_end2 c (elems (c_seq2 c))) (elems (c_seq2 c))).
  assert (forall l, elems (c_seq c) = l ->
    match replace_check (c_start c) (c_end c) (length l) with
    | None => RErr EError
    | Some e1 => let n := Nat.min (e1 - s_start c) (length w2) in RSeq (firstn (s_start c) l ++ firstn n w2 ++ skipn (s_start c + n) l)
    end = RSeq (firstn (s_start c) l ++ firstn (Nat.min (s_end c l - s_start c) (length w2)) w2 ++
                skipn (s_start c + Nat.min (s_end c l - s_start c) (length w2)) l)) as Hgen.
  { intros l Hl. rewrite Hl in *. unfold replace_check. fold (s_start c).
    destruct (((length l =? 0) && (s_start c =? 0))%nat && match c_end c with None => true | _ => false end) eqn:Sp.
    - apply andb_true_iff in Sp as [Sp E]. apply andb_true_iff in Sp as [L0 S0].
      apply Nat.eqb_eq in S0, L0. unfold s_end in *. destruct (c_end c); [discriminate|]. rewrite L0. reflexivity.
    - destruct (Nat.ltb_spec (length l) (s_start c)); [lia|].
      unfold s_end in *. destruct (c_end c) as [n|]; [|reflexivity].
      destruct (Nat.ltb_spec (length l) n); [lia|]. destruct (Nat.ltb_spec n (s_start c)); [lia|reflexivity]. }
  destruct (c_seq c) eqn:S; cbn [elems] in *.
  - f_equal. assert (s_end c [] = 0%nat /\ s_start c = 0%nat) as [-> ->] by (cbn in B2; lia).
    cbn. reflexivity.
  - f_equal. now apply Hgen.
  - f_equal. now apply Hgen.
  - f_equal. now apply Hgen.
Qed.

(* ---- every some notany notevery map mapcar concatenate ------------------------------------------------------ *)
Definition is_quant_fn (f : fname) : bool := match f with FEvery | FSome | FNotany | FNotevery => true | _ => false end.

Theorem quant_meets_spec : forall c, is_quant_fn (c_fn c) = true -> in_domain c = true -> m_call c = s_call c.
Proof.
  intros c Hf Hd. assert (Hb := Hd). split_dom Hb D2 D1 D0 D.
  assert (quant_vals c = s_quant_vals c) as Hq.
  { unfold quant_vals, s_quant_vals. now rewrite test2_s_test2. }
  unfold m_call, s_call, m_quant. rewrite Hq.
  destruct (c_fn c) eqn:F; try discriminate Hf; try reflexivity.
  (* some *)
  cbn in D. apply andb_true_iff in D as [_ D]. destruct (c_flag c); [|reflexivity].
  cbn in D. rewrite D. reflexivity.
Qed.

Theorem map_meets_spec : forall c, (c_fn c = FMap \/ c_fn c = FMapcar) -> in_domain c = true -> m_call c = s_call c.
Proof.
  intros c Hf Hd. assert (Hb := Hd). split_dom Hb D2 D1 D0 D.
  assert (map_vals c = s_map_vals c) as Hv by reflexivity.
  unfold m_call, s_call. destruct Hf as [F|F]; rewrite F in *; cbn in D.
  - unfold m_map. now rewrite Hv.
  - apply andb_true_iff in D as [L1 N2]. unfold m_mapcar. rewrite Hv.
    destruct (c_seq c); try discriminate L1; destruct (c_nseq c) as [|[|n]]; cbn in N2; try reflexivity;
      destruct (c_seq2 c); try discriminate N2; reflexivity.
Qed.

Theorem concatenate_meets_spec : forall c, c_fn c = FConcatenate -> m_call c = s_call c.
Proof. intros c F. unfold m_call, s_call. now rewrite F. Qed.

(* ---- reduce ------------------------------------------------------------------------------------------------- *)
Theorem reduce_meets_spec : forall c, c_fn c = FReduce -> in_domain c = true ->
  exists r, m_call c = Some r /\ s_call c = Some r.
Proof.
  intros c F Hd. assert (Hb := Hd). split_dom Hb D2 D1 D0 D. get_bounds Hb B1 B2.
  rewrite F in D. cbn in D. rename D into G3.
  unfold m_call, s_call. rewrite F. unfold m_reduce, s_reduce.
  assert (m_reduce_list c (elems (c_seq c)) = m_reduce_list c (elems (c_seq c))) as _ by reflexivity.
  set (l := elems (c_seq c)) in *.
  assert (exists r, m_reduce_list c l = r /\
          (let ks := map (key_app (c_key c)) (slice (s_start c) (s_end c l) l) in
           let f := binop_app (c_op c) in
           match ks, c_init c with
           | [], Some v => Some (RElt v)
           | [], None => match c_op c with BAdd => Some (RElt 0) | _ => None end
           | x :: r, Some v => Some (RElt (if c_from_end c then fold_right f v ks else fold_left f ks v))
           | x :: r, None => Some (RElt (if c_from_end c then fold_right f (last ks 0) (removelast ks) else fold_left f r x))
           end) = Some r) as [r [R1 R2]].
  { unfold m_reduce_list. clearbody l.
    assert ((match c_end c with None => Some l | Some e => if (e <=? length l)%nat then Some (firstn e l) else None end) = Some (firstn (s_end c l) l)) as ->.
    { unfold s_end in *. destruct (c_end c) as [e|].
      - destruct (Nat.leb_spec e (length l)); [reflexivity|lia].
      - now rewrite firstn_all. }
    assert ((match c_start c with None => Some (firstn (s_end c l) l) | Some st => if (st <=? length (firstn (s_end c l) l))%nat then Some (skipn st (firstn (s_end c l) l)) else None end)
            = Some (slice (s_start c) (s_end c l) l)) as ->.
    { unfold slice. rewrite <- skipn_firstn_comm. unfold s_start in *. destruct (c_start c) as [st|].
      - rewrite firstn_length.
        destruct (Nat.leb_spec st (Nat.min (s_end c l) (length l))); [reflexivity|lia].
      - reflexivity. }
    cbv zeta. destruct (map (key_app (c_key c)) (slice (s_start c) (s_end c l) l)) as [|x r] eqn:K.
    - assert (s_start c = s_end c l) as Heq.
      { apply (f_equal (@length Z)) in K. rewrite map_length in K. unfold slice in K.
        rewrite firstn_length, skipn_length in K. cbn in K. lia. }
      rewrite Heq, Nat.eqb_refl in G3. cbn in G3. destruct (c_init c); [|discriminate]. eauto.
    - destruct (c_init c), (c_from_end c); eauto. }
  exists r. split; [|exact R2].
  subst l. f_equal; exact R1.
Qed.

(* ---- merge -------------------------------------------------------------------------------------------------- *)
Theorem merge_meets_spec : forall c, c_fn c = FMerge -> in_domain c = true -> m_call c = s_call c.
Proof.
  intros c F Hd. assert (Hb := Hd). split_dom Hb D2 D1 D0 D.
  unfold m_call, s_call, m_merge. rewrite F.
  now rewrite m_merge_is_reference.
Qed.
