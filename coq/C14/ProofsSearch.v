(* C14 — search and mismatch: M = S on the guard. *)
From C14 Require Import Base Model Spec ProofsScan ProofsMisc.
From Coq Require Import Arith.

Lemma prefix_match_eq : forall t a b, prefix_match t a b = s_prefix_match t a b.
Proof.
  intros t. induction a as [|x a IH]; intros b; [reflexivity|]. destruct b as [|y b]; [reflexivity|].
  cbn. rewrite IH. now rewrite test2_s_test2.
Qed.

Lemma find_app_single : forall (f : nat -> bool) A z,
  find f (A ++ [z]) = match find f A with Some x => Some x | None => if f z then Some z else None end.
Proof.
  induction A as [|a A IH]; intros z; cbn; [reflexivity|]. destruct (f a); [reflexivity|apply IH].
Qed.

Lemma rev_seq_S : forall n, rev (seq 0 (S n)) = n :: rev (seq 0 n).
Proof. intros. rewrite seq_S. rewrite rev_app_distr. reflexivity. Qed.

Lemma slice_length : forall s e (l : list Z), (s <= e)%nat -> (e <= length l)%nat -> length (slice s e l) = (e - s)%nat.
Proof. intros. unfold slice. rewrite firstn_length, skipn_length. lia. Qed.

Theorem search_meets_spec : forall c, c_fn c = FSearch -> in_domain c = true -> m_call c = s_call c.
Proof.
  intros c F Hd. assert (Hb := Hd). split_dom Hb D2 D1 D0 D. get_bounds Hb B1 B2.
  rewrite F in D. cbn in D.
  apply andb_true_iff in D as [C1 C2]. apply Nat.leb_le in C1, C2.
  unfold m_call, s_call, m_search, s_search. rewrite F.
  set (l1 := elems (c_seq c)) in *. set (l2 := elems (c_seq2 c)) in *.
  fold (s_start c). fold (s_start2 c).
  assert ((match c_end c with None => Some (length l1) | Some e => if (length l1 <? e)%nat then None else Some e end) = Some (s_end c l1)) as ->.
  { unfold s_end in *. destruct (c_end c) as [e|]; [|reflexivity]. destruct (Nat.ltb_spec (length l1) e); [lia|reflexivity]. }
  assert ((match c_end2 c with None => Some (length l2) | Some e => if (length l2 <? e)%nat then None else Some e end) = Some (s_end2 c l2)) as ->.
  { unfold s_end2 in *. destruct (c_end2 c) as [e|]; [|reflexivity]. destruct (Nat.ltb_spec (length l2) e); [lia|reflexivity]. }
  destruct (Nat.ltb_spec (s_end c l1) (s_start c)); [lia|]. destruct (Nat.ltb_spec (s_end2 c l2) (s_start2 c)); [lia|]. cbn [orb].
  set (w1 := slice (s_start c) (s_end c l1) l1) in *. set (w2 := slice (s_start2 c) (s_end2 c l2) l2) in *.
  set (k1 := map (key_app (c_key c)) w1) in *. set (k2 := map (key_app (c_key c)) w2) in *.
  assert (length k1 = length w1) as Lk1 by apply map_length.
  assert (length k2 = length w2) as Lk2 by apply map_length.
  rewrite Lk1, Lk2.
  assert (forall A : list nat,
    find (fun o => prefix_match (c_test c) k1 (skipn o k2)) A = find (fun o => s_prefix_match (c_test c) k1 (skipn o k2)) A) as Hfe
    by (intros; apply find_ext; intros; apply prefix_match_eq).
  destruct (Nat.eqb_spec (length w1) 0) as [Z1|Z1].
  - assert (k1 = []) as K1 by (destruct k1; [reflexivity|cbn in Lk1; lia]). rewrite K1 in *.
    rewrite Z1. replace (length w2 + 1 - 0)%nat with (S (length w2)) by lia.
    destruct (c_from_end c).
    + rewrite rev_seq_S. cbn. reflexivity.
    + cbn. now rewrite Nat.add_0_r.
  - destruct k1 as [|x k1'] eqn:K1; [cbn in Lk1; lia|]. rewrite <- K1 in *.
    destruct (Nat.eqb_spec (length w2) 0) as [Z2|Z2]; cbn [orb].
    + replace (length w2 + 1 - length w1)%nat with 0%nat by lia. destruct (c_from_end c); reflexivity.
    + destruct (Nat.ltb_spec (length w2) (length w1)) as [Lt|Ge].
      * replace (length w2 + 1 - length w1)%nat with 0%nat by lia. destruct (c_from_end c); reflexivity.
      * replace (length w2 + 1 - length w1)%nat with (S (length w2 - length w1)) by lia.
        replace (length w2 - length w1 + 1)%nat with (S (length w2 - length w1)) by lia.
        rewrite !Hfe. destruct (c_from_end c); reflexivity.
Qed.

(* ---- mismatch --------------------------------------------------------------------------------------------- *)
Lemma mm_fwd_eq : forall t k a b i, mm_fwd t k a b i = s_mm t (map (key_app k) a) (map (key_app k) b) i.
Proof.
  intros t k. induction a as [|x a IH]; intros [|y b] i; try reflexivity.
  cbn [mm_fwd s_mm map]. rewrite IH. destruct t; reflexivity.
Qed.

(* the from-end loop against the specification's count of agreeing elements: equal when the
   comparison ends because a window is exhausted (no element differs) *)
Lemma mm_bwd_vs : forall t k L a b i,
  match s_mm t (map (key_app k) a) (map (key_app k) b) i with
  | None => mm_bwd t k L a b (S i) = None
  | Some j => j = (i + Nat.min (length a) (length b))%nat ->
              length a <> length b /\
              mm_bwd t k L a b (S i) = Some (if (length a <? length b)%nat then 0%nat else (L - (S i + length b) + 1)%nat)
  end.
Proof.
  intros t k L. induction a as [|x a IH]; intros [|y b] i.
  - cbn. reflexivity.
  - cbn. intros _. split; [lia|reflexivity].
  - cbn [map s_mm mm_bwd length]. intros _. split; [lia|]. cbn. f_equal. lia.
  - cbn [map s_mm mm_bwd length]. replace (test2 t (key_app k x) (key_app k y)) with (s_test2 t (key_app k x) (key_app k y)) by (destruct t; reflexivity).
    destruct (s_test2 t (key_app k x) (key_app k y)).
    + specialize (IH b (S i)). destruct (s_mm t (map (key_app k) a) (map (key_app k) b) (S i)).
      * intros Hj. destruct IH as [Hn IH]; [lia|]. split; [lia|]. rewrite IH. f_equal.
        destruct (Nat.ltb_spec (length a) (length b)), (Nat.ltb_spec (S (length a)) (S (length b))); try lia.
      * exact IH.
    + intros Hj. lia.
Qed.

Theorem mismatch_meets_spec : forall c, c_fn c = FMismatch -> in_domain c = true -> m_call c = s_call c.
Proof.
  intros c F Hd. assert (Hb := Hd). split_dom Hb D2 D1 D0 D. get_bounds Hb B1 B2.
  rewrite F in D. cbn in D.
  apply andb_true_iff in D as [Bb G].
  apply andb_true_iff in Bb as [C1 C2]. apply Nat.leb_le in C1, C2.
  unfold m_call, s_call, m_mismatch, s_mismatch. rewrite F.
  rewrite (seq_to_list_ok (c_seq c) (c_start c) (c_end c) B1 B2).
  rewrite (seq_to_list_ok (c_seq2 c) (c_start2 c) (c_end2 c) C1 C2).
  fold (s_start c). fold (s_start2 c).
  change (match c_end c with Some n => n | None => length (elems (c_seq c)) end) with (s_end c (elems (c_seq c))).
  change (match c_end2 c with Some n => n | None => length (elems (c_seq2 c)) end) with (s_end2 c (elems (c_seq2 c))).
  set (w1 := slice (s_start c) (s_end c (elems (c_seq c))) (elems (c_seq c))) in *.
  set (w2 := slice (s_start2 c) (s_end2 c (elems (c_seq2 c))) (elems (c_seq2 c))) in *.
  assert (length w1 = (s_end c (elems (c_seq c)) - s_start c)%nat) as Lw1 by (apply slice_length; assumption).
  assert (forall t, c_test c = t ->
    Some (match (if c_from_end c then mm_bwd t (c_key c) (length w1) (rev w1) (rev w2) 1 else mm_fwd t (c_key c) w1 w2 0) with
          | Some i => RInt (Z.of_nat (i + s_start c))
          | None => RNil
          end) =
    Some (if c_from_end c
          then match s_mm t (rev (map (key_app (c_key c)) w1)) (rev (map (key_app (c_key c)) w2)) 0 with
               | Some j => RInt (Z.of_nat (s_end c (elems (c_seq c)) - j))
               | None => RNil
               end
          else match s_mm t (map (key_app (c_key c)) w1) (map (key_app (c_key c)) w2) 0 with
               | Some i => RInt (Z.of_nat (s_start c + i))
               | None => RNil
               end)) as Hgen.
  { intros t Ht. rewrite Ht in G. clearbody w1 w2. f_equal. destruct (c_from_end c).
    - cbn [negb orb] in G. rewrite <- !map_rev in *.
      pose proof (mm_bwd_vs t (c_key c) (length w1) (rev w1) (rev w2) 0) as H.
      destruct (s_mm t (map (key_app (c_key c)) (rev w1)) (map (key_app (c_key c)) (rev w2)) 0) as [j|].
      + apply Nat.eqb_eq in G. rewrite !map_length in G.
        destruct H as [Hne H]; [rewrite !rev_length; rewrite G; reflexivity|]. rewrite H.
        rewrite !rev_length in *. apply (f_equal RInt).
        destruct (Nat.ltb_spec (length w1) (length w2)); [rewrite Nat.min_l in G by lia|rewrite Nat.min_r in G by lia]; lia.
      + now rewrite H.
    - rewrite mm_fwd_eq. destruct (s_mm t (map (key_app (c_key c)) w1) (map (key_app (c_key c)) w2) 0); [apply (f_equal RInt); lia|reflexivity]. }
  now apply Hgen.
Qed.
