(* C04 — the binder refinement for every lambda list accepted by parse_ll (required / &optional / &rest /
   &key / &allow-other-keys / &aux sections, any marker spelling) and every argument vector inside the guard:
   the two-pass binder model of the REPAIRED Lambda.Call (repo_fixes C04-1 .. C04-9) produces exactly the
   outcome the specification prescribes.  The guard excludes only &rest together with &key with arguments
   left after the positional ones. *)
From C04 Require Import Model Spec Proofs.
Open Scope N_scope.

(* ---------- the sections of a parsed lambda list ---------- *)
Definition Mk' (p : pname) (df : option Z) : docarg := {| d_name := p; d_def := df |}.
Definition vsec (p : pname) (o : option (option Z * list (N * option Z))) : list docarg :=
  match o with Some (df, vs) => Mk' p df :: map Vd vs | None => [] end.
Definition vars (o : option (option Z * list (N * option Z))) : list (N * option Z) :=
  match o with Some (_, vs) => vs | None => [] end.
Definition restsec (o : option (option Z * (N * option Z))) : list docarg :=
  match o with Some (df, v) => [Mk' PRest df; Vd v] | None => [] end.
Definition restvars (o : option (option Z * (N * option Z))) : list (N * option Z) :=
  match o with Some (_, v) => [v] | None => [] end.
Definition allowsec (o : option (option Z)) : list docarg := match o with Some df => [Mk' PAllow df] | None => [] end.

(* the option Z next to a marker is the (meaningless) default slot of the marker's docarg *)
Record shape := {
  h_req : list (N * option Z);
  h_opt : option (option Z * list (N * option Z));
  h_rest : option (option Z * (N * option Z));
  h_key : option (option Z * list (N * option Z));
  h_allow : option (option Z);
  h_aux : option (option Z * list (N * option Z)) }.
Definition build (h : shape) : list docarg :=
  map Vd (h_req h) ++ vsec POptional (h_opt h) ++ restsec (h_rest h) ++ vsec PKey (h_key h) ++ allowsec (h_allow h) ++ vsec PAux (h_aux h).
Definition ll_of (h : shape) : llist :=
  {| l_req := map fst (h_req h); l_opt := vars (h_opt h);
     l_rest := match h_rest h with Some (_, v) => Some (fst v) | None => None end;
     l_key := match h_key h with Some (_, ks) => Some ks | None => None end;
     l_allow := match h_allow h with Some _ => true | None => false end;
     l_aux := vars (h_aux h) |}.

Lemma Vd_eta d x : d_name d = PVar x -> d = Vd (x, d_def d).
Proof. destruct d as [n df]. cbn. intros ->. reflexivity. Qed.
Lemma Mk'_eta d p : d_name d = p -> d = Mk' p (d_def d).
Proof. destruct d as [n df]. cbn. intros ->. reflexivity. Qed.

Lemma take_vars_split ds : forall vs r, take_vars ds = (vs, r) -> ds = map Vd vs ++ r.
Proof.
  induction ds as [|d ds IH]; intros vs r H; cbn in H.
  - injection H as <- <-. reflexivity.
  - destruct (d_name d) as [x| | | | |] eqn:En; try (injection H as <- <-; reflexivity).
    destruct (take_vars ds) as [vs' r'] eqn:E. injection H as <- <-. cbn [map app].
    rewrite <- (IH vs' r' eq_refl). f_equal. apply Vd_eta. exact En.
Qed.

(* the parser, step by step (the bodies are those of parse_ll) *)
Definition s_opt (r1 : list docarg) : list (N * option Z) * list docarg :=
  match r1 with d :: r => match d_name d with POptional => take_vars r | _ => ([], r1) end | [] => ([], []) end.
Definition s_rest (r2 : list docarg) : option N * list docarg :=
  match r2 with
  | d :: d2 :: r => match d_name d, d_name d2 with PRest, PVar x => (Some x, r) | _, _ => (None, r2) end
  | _ => (None, r2) end.
Definition s_key (r3 : list docarg) : option (list (N * option Z)) * list docarg :=
  match r3 with d :: r => match d_name d with PKey => let '(ks, r') := take_vars r in (Some ks, r') | _ => (None, r3) end | [] => (None, []) end.
Definition s_allow (r4 : list docarg) : bool * list docarg :=
  match r4 with d :: r => match d_name d with PAllow => (true, r) | _ => (false, r4) end | [] => (false, []) end.
Definition s_aux (r5 : list docarg) : list (N * option Z) * list docarg :=
  match r5 with d :: r => match d_name d with PAux => take_vars r | _ => ([], r5) end | [] => ([], []) end.
Lemma parse_ll_steps ds : parse_ll ds =
  let '(req, r1) := take_vars ds in
  let '(opt, r2) := s_opt r1 in
  let '(rest, r3) := s_rest r2 in
  let '(key, r4) := s_key r3 in
  let '(allow, r5) := s_allow r4 in
  let '(aux, r6) := s_aux r5 in
  match r6 with
  | [] => Some {| l_req := map fst req; l_opt := opt; l_rest := rest; l_key := key; l_allow := allow; l_aux := aux |}
  | _ => None
  end.
Proof. reflexivity. Qed.

Lemma s_opt_split r1 opt r2 : s_opt r1 = (opt, r2) -> exists o, r1 = vsec POptional o ++ r2 /\ opt = vars o.
Proof.
  intros H. destruct r1 as [|d r]; cbn in H; [injection H as <- <-; exists None; split; reflexivity|].
  destruct (d_name d) eqn:En; try (injection H as <- <-; exists None; split; reflexivity).
  exists (Some (d_def d, opt)). split; [|reflexivity]. cbn [vsec app]. rewrite <- (take_vars_split r opt r2 H). f_equal. apply Mk'_eta. exact En.
Qed.
Lemma s_aux_split r1 aux r2 : s_aux r1 = (aux, r2) -> exists o, r1 = vsec PAux o ++ r2 /\ aux = vars o.
Proof.
  intros H. destruct r1 as [|d r]; cbn in H; [injection H as <- <-; exists None; split; reflexivity|].
  destruct (d_name d) eqn:En; try (injection H as <- <-; exists None; split; reflexivity).
  exists (Some (d_def d, aux)). split; [|reflexivity]. cbn [vsec app]. rewrite <- (take_vars_split r aux r2 H). f_equal. apply Mk'_eta. exact En.
Qed.
Lemma s_key_split r1 key r2 : s_key r1 = (key, r2) ->
  exists o, r1 = vsec PKey o ++ r2 /\ key = match o with Some (_, ks) => Some ks | None => None end.
Proof.
  intros H. destruct r1 as [|d r]; cbn in H; [injection H as <- <-; exists None; split; reflexivity|].
  destruct (d_name d) eqn:En; try (injection H as <- <-; exists None; split; reflexivity).
  destruct (take_vars r) as [ks r'] eqn:Et. injection H as <- <-.
  exists (Some (d_def d, ks)). split; [|reflexivity]. cbn [vsec app]. rewrite <- (take_vars_split r ks r' Et). f_equal. apply Mk'_eta. exact En.
Qed.
Lemma s_rest_split r1 rest r2 : s_rest r1 = (rest, r2) ->
  exists o, r1 = restsec o ++ r2 /\ rest = match o with Some (_, v) => Some (fst v) | None => None end.
Proof.
  intros H. unfold s_rest in H.
  destruct r1 as [|d [|d2 r]]; try (injection H as <- <-; exists None; split; reflexivity).
  destruct (d_name d) eqn:En; try (injection H as <- <-; exists None; split; reflexivity).
  destruct (d_name d2) as [x| | | | |] eqn:En2; try (injection H as <- <-; exists None; split; reflexivity).
  injection H as <- <-. exists (Some (d_def d, (x, d_def d2))). split; [|reflexivity]. cbn [restsec app]. f_equal; [apply Mk'_eta; exact En|].
  f_equal. apply Vd_eta. exact En2.
Qed.
Lemma s_allow_split r1 al r2 : s_allow r1 = (al, r2) ->
  exists o, r1 = allowsec o ++ r2 /\ al = match o with Some _ => true | None => false end.
Proof.
  intros H. destruct r1 as [|d r]; cbn in H; [injection H as <- <-; exists None; split; reflexivity|].
  destruct (d_name d) eqn:En; try (injection H as <- <-; exists None; split; reflexivity).
  injection H as <- <-. exists (Some (d_def d)). split; [|reflexivity]. cbn [allowsec app]. f_equal. apply Mk'_eta. exact En.
Qed.

(* every lambda list the parser accepts is a sequence of sections *)
Lemma parse_shape ds l : parse_ll ds = Some l -> exists h, ds = build h /\ l = ll_of h.
Proof.
  rewrite parse_ll_steps. intros H.
  destruct (take_vars ds) as [req r1] eqn:E0. apply take_vars_split in E0.
  destruct (s_opt r1) as [opt r2] eqn:E1. apply s_opt_split in E1 as (o1 & -> & ->).
  destruct (s_rest r2) as [rest r3] eqn:E2. apply s_rest_split in E2 as (o2 & -> & ->).
  destruct (s_key r3) as [key r4] eqn:E3. apply s_key_split in E3 as (o3 & -> & ->).
  destruct (s_allow r4) as [al r5] eqn:E4. apply s_allow_split in E4 as (o4 & -> & ->).
  destruct (s_aux r5) as [aux r6] eqn:E5. apply s_aux_split in E5 as (o5 & -> & ->).
  destruct r6; [|discriminate]. injection H as <-.
  exists {| h_req := req; h_opt := o1; h_rest := o2; h_key := o3; h_allow := o4; h_aux := o5 |}.
  split; [|reflexivity]. subst ds. unfold build. cbn [h_req h_opt h_rest h_key h_allow h_aux]. rewrite app_nil_r. reflexivity.
Qed.

(* ---------- pass 1, section by section ---------- *)
Lemma pass1_vars' ks al xs tl m args b r rs : posmode m ->
  pass1 ks al (map Vd xs ++ tl) m {| p_args := args; p_b := b; p_rest := r; p_restsym := rs; p_err := None |} =
  pass1 ks al tl m {| p_args := skipn (length xs) args; p_b := push_all xs args b; p_rest := r; p_restsym := rs; p_err := None |}.
Proof.
  intros Hm. rewrite pass1_vars by exact Hm. cbv zeta. destruct (Nat.leb_spec (length args) (length xs)); [|reflexivity].
  symmetry. apply pass1_noargs. cbn. apply skipn_all2. assumption.
Qed.

(* required and optional parameters take the leading arguments *)
Lemma pass1_prefix ks al req o tl args :
  pass1 ks al (map Vd req ++ vsec POptional o ++ tl) MReq (st0 args) =
  pass1 ks al tl (match o with Some _ => MOpt | None => MReq end)
    {| p_args := skipn (length req + length (vars o)) args;
       p_b := push_all (vars o) (skipn (length req) args) (push_all req args []);
       p_rest := []; p_restsym := None; p_err := None |}.
Proof.
  unfold st0. rewrite pass1_vars' by (left; reflexivity). destruct o as [[df opt]|]; cbn [vsec vars app].
  - destruct (skipn (length req) args) as [|a rem] eqn:E.
    + assert (E2 : skipn (length req + length opt) args = []) by (rewrite <- skipn_skipn, E; apply skipn_nil).
      rewrite E2, push_all_nil. rewrite !pass1_noargs by reflexivity. reflexivity.
    + cbn [pass1 p_args p_err Mk' d_name]. rewrite pass1_vars' by (right; reflexivity).
      rewrite <- E, skipn_skipn. reflexivity.
  - cbn [length]. rewrite Nat.add_0_r. reflexivity.
Qed.

Lemma pass1_auxsec ks al o m st : posmode m -> p_err st = None -> pass1 ks al (vsec PAux o) m st = st.
Proof.
  intros Hm He. destruct o as [[df aux]|]; [|reflexivity]. destruct st as [args b r rs e]. cbn in He. subst e.
  destruct args; [reflexivity|]. destruct Hm as [-> | ->]; reflexivity.
Qed.
(* &allow-other-keys is skipped by the positional modes *)
Lemma pass1_allowsec ks al o tl m st : posmode m -> p_err st = None ->
  pass1 ks al (allowsec o ++ tl) m st = pass1 ks al tl m st.
Proof.
  intros Hm He. destruct o as [df|]; [|reflexivity]. destruct st as [args b r rs e]. cbn in He. subst e. cbn [allowsec app].
  destruct args; [rewrite !pass1_noargs by reflexivity; reflexivity|]. destruct Hm as [-> | ->]; reflexivity.
Qed.

(* without &key parameters the rest loop collects every remaining argument *)
Lemma rest_loop_all : forall args acc, rest_loop [] args acc = (acc ++ args, [], false).
Proof.
  induction args as [|a args IH]; intros acc; cbn [rest_loop]; [rewrite app_nil_r; reflexivity|].
  assert (E : rest_loop [] args (acc ++ [a]) = (acc ++ a :: args, [], false)) by (rewrite IH; rewrite <- app_assoc; reflexivity).
  destruct a as [z|k|]; exact E.
Qed.

Lemma pass1_restsec al df r dr tl m a2 b : posmode m -> a2 <> [] ->
  pass1 [] al (Mk' PRest df :: Vd (r, dr) :: tl) m {| p_args := a2; p_b := b; p_rest := []; p_restsym := None; p_err := None |} =
  {| p_args := []; p_b := b; p_rest := a2; p_restsym := Some r; p_err := None |}.
Proof.
  intros Hm Hne. destruct a2 as [|a a2]; [congruence|].
  pose proof (rest_loop_all (a :: a2) []) as Hl.
  destruct Hm as [-> | ->]; cbn [pass1 p_args p_err Mk' d_name Vd fst p_rest p_restsym p_b]; rewrite Hl; cbn [app length Nat.eqb];
    apply pass1_noargs; reflexivity.
Qed.

(* &key: the remaining arguments are consumed as keyword/value pairs, at the marker *)
Definition kstep (ks : list N) (b : list (N * value)) (p : N * arg) : list (N * value) :=
  if is_key_param ks (fst p) then match lookup b (fst p) with Some _ => b | None => bind b (fst p) (arg_val (snd p)) end else b.
Definition keybinds (ks : list N) (ps : list (N * arg)) (b : list (N * value)) : list (N * value) := fold_left (kstep ks) ps b.
Definition pair_ok (ks : list N) (al : bool) (keyargs : list arg) (p : N * arg) : bool :=
  is_key_param ks (fst p) || other_key_allowed al keyargs (fst p).

Lemma key_loop_pairs ks al keyargs fuel : forall args b ps, key_pairs fuel args = Some ps ->
  key_loop fuel ks al keyargs args b = if forallb (pair_ok ks al keyargs) ps then inl (keybinds ks ps b) else inr KBadKey.
Proof.
  induction fuel as [|fuel IH]; intros args b ps H; cbn in H; [discriminate|]. cbn [key_loop].
  destruct args as [|[z|k|] args]; try discriminate.
  - injection H as <-. reflexivity.
  - destruct args as [|v args]; [discriminate|]. destruct (key_pairs fuel args) as [ps'|] eqn:E; [|discriminate].
    injection H as <-. cbn [forallb keybinds fold_left]. unfold pair_ok at 1, kstep at 2. cbn [fst snd].
    destruct (is_key_param ks k); cbn [orb andb].
    + apply IH. exact E.
    + destruct (other_key_allowed al keyargs k); cbn [andb]; [apply IH; exact E|reflexivity].
Qed.
Lemma key_loop_nopairs ks al keyargs fuel : forall args b, (length args < fuel)%nat -> key_pairs fuel args = None ->
  key_loop fuel ks al keyargs args b = inr KBadKey.
Proof.
  induction fuel as [|fuel IH]; intros args b Hf H; [lia|]. cbn in H. cbn [key_loop].
  destruct args as [|[z|k|] args]; try reflexivity; [discriminate|].
  destruct args as [|v args]; [reflexivity|]. destruct (key_pairs fuel args) as [ps'|] eqn:E; [discriminate|].
  assert (Hf' : (length args < fuel)%nat) by (cbn in Hf; lia).
  destruct (is_key_param ks k); [apply IH; assumption|]. destruct (other_key_allowed al keyargs k); [apply IH; assumption|reflexivity].
Qed.

Lemma pass1_keysec ks al df tl m a2 b : posmode m -> a2 <> [] ->
  pass1 ks al (Mk' PKey df :: tl) m {| p_args := a2; p_b := b; p_rest := []; p_restsym := None; p_err := None |} =
  match key_loop (S (length a2)) ks al a2 a2 b with
  | inl b' => {| p_args := []; p_b := b'; p_rest := []; p_restsym := None; p_err := None |}
  | inr k => {| p_args := a2; p_b := b; p_rest := []; p_restsym := None; p_err := Some k |}
  end.
Proof.
  intros Hm Hne. destruct a2 as [|a a2]; [congruence|].
  destruct Hm as [-> | ->]; cbn [pass1 p_args p_err Mk' d_name p_b p_rest p_restsym];
    (destruct (key_loop (S (length (a :: a2))) ks al (a :: a2) (a :: a2) b); [apply pass1_noargs; reflexivity|reflexivity]).
Qed.

(* ---------- FuncDoc.getKeyArg / otherKeyAllowed on a lambda list made of sections ---------- *)
Lemma kpf_vars_false xs tl : key_params_from false (map Vd xs ++ tl) = key_params_from false tl.
Proof. induction xs as [|[x d] xs IH]; cbn; [reflexivity|exact IH]. Qed.
Lemma kpf_vars_true xs tl : key_params_from true (map Vd xs ++ tl) = map fst xs ++ key_params_from true tl.
Proof. induction xs as [|[x d] xs IH]; cbn; [reflexivity|f_equal; exact IH]. Qed.
Lemma kpf_aux_false o : key_params_from false (vsec PAux o) = [].
Proof. destruct o as [[df aux]|]; [|reflexivity]. cbn [vsec key_params_from Mk' d_name]. rewrite <- (app_nil_r (map Vd aux)), kpf_vars_false. reflexivity. Qed.
Lemma kpf_aux_true o : key_params_from true (vsec PAux o) = [].
Proof. destruct o as [[df aux]|]; [|reflexivity]. cbn [vsec key_params_from Mk' d_name]. rewrite <- (app_nil_r (map Vd aux)), kpf_vars_false. reflexivity. Qed.
Lemma key_params_build h : key_params (build h) = map fst (vars (h_key h)).
Proof.
  unfold key_params, build. rewrite kpf_vars_false.
  assert (E1 : forall tl, key_params_from false (vsec POptional (h_opt h) ++ tl) = key_params_from false tl).
  { intros tl. destruct (h_opt h) as [[df opt]|]; [|reflexivity]. cbn [vsec app key_params_from Mk' d_name]. apply kpf_vars_false. }
  rewrite E1.
  assert (E2 : forall tl, key_params_from false (restsec (h_rest h) ++ tl) = key_params_from false tl).
  { intros tl. destruct (h_rest h) as [[df [r dr]]|]; reflexivity. }
  rewrite E2.
  destruct (h_key h) as [[dk ks]|]; cbn [vsec vars app map].
  - cbn [key_params_from Mk' d_name]. rewrite kpf_vars_true.
    destruct (h_allow h) as [da|]; cbn [allowsec app key_params_from Mk' d_name]; [rewrite kpf_aux_false|rewrite kpf_aux_true]; apply app_nil_r.
  - destruct (h_allow h) as [da|]; cbn [allowsec app key_params_from Mk' d_name]; apply kpf_aux_false.
Qed.

Definition isPAllow (d : docarg) : bool := match d_name d with PAllow => true | _ => false end.
Lemma has_allow_vars xs : existsb isPAllow (map Vd xs) = false.
Proof. induction xs as [|[x d] xs IH]; cbn; [reflexivity|exact IH]. Qed.
Lemma has_allow_vsec p o : p <> PAllow -> existsb isPAllow (vsec p o) = false.
Proof.
  intros Hp. destruct o as [[df vs]|]; [|reflexivity]. cbn [vsec existsb]. rewrite has_allow_vars. unfold isPAllow. cbn [Mk' d_name].
  destruct p; try reflexivity. congruence.
Qed.
Lemma has_allow_build h : has_allow (build h) = match h_allow h with Some _ => true | None => false end.
Proof.
  unfold has_allow, build. fold isPAllow. rewrite !existsb_app, has_allow_vars, !has_allow_vsec by discriminate.
  cbn [orb]. destruct (h_rest h) as [[df [r dr]]|]; cbn [restsec existsb isPAllow Mk' Vd d_name orb fst]; destruct (h_allow h); reflexivity.
Qed.

(* ---------- pass 2, section by section ---------- *)
Lemma pass2_rest_vars xs : forall tl b, pass2 (map Vd xs ++ tl) M2Rest b = pass2 tl M2Rest (defaults xs b).
Proof. induction xs as [|[x d] xs IH]; intros tl b; cbn; [reflexivity|apply IH]. Qed.
Lemma pass2_key_vars xs : forall tl b, pass2 (map Vd xs ++ tl) M2Key b = pass2 tl M2Key (defaults xs b).
Proof. induction xs as [|[x d] xs IH]; intros tl b; cbn; [reflexivity|apply IH]. Qed.
Lemma pass2_auxsec o m b : pass2 (vsec PAux o) m b = auxbinds (vars o) b.
Proof. destruct o as [[df aux]|]; [|destruct m; reflexivity]. destruct m; cbn [vsec vars pass2 Mk' d_name]; apply pass2_aux_vars. Qed.
Lemma pass2_allowsec o tl m b : m <> M2Aux -> pass2 (allowsec o ++ tl) m b = pass2 tl m b.
Proof. intros Hm. destruct o as [df|]; [|reflexivity]. destruct m; try congruence; reflexivity. Qed.
Lemma pass2_keytail ok oal oa m b : m <> M2Aux ->
  pass2 (vsec PKey ok ++ allowsec oal ++ vsec PAux oa) m b = auxbinds (vars oa) (defaults (vars ok) b).
Proof.
  intros Hm. destruct ok as [[df ks]|]; cbn [vsec vars app].
  - destruct m; try congruence; cbn [pass2 Mk' d_name]; rewrite pass2_key_vars, pass2_allowsec by discriminate; apply pass2_auxsec.
  - rewrite pass2_allowsec by exact Hm. apply pass2_auxsec.
Qed.
Lemma pass2_resttail orr ok oal oa m b : m = M2Req \/ m = M2Opt ->
  pass2 (restsec orr ++ vsec PKey ok ++ allowsec oal ++ vsec PAux oa) m b = auxbinds (vars oa) (defaults (vars ok) (defaults (restvars orr) b)).
Proof.
  intros Hm. destruct orr as [[df [r dr]]|]; cbn [restsec restvars app].
  - destruct Hm as [-> | ->]; cbn [pass2 Mk' d_name Vd fst snd]; rewrite pass2_keytail by discriminate; reflexivity.
  - apply pass2_keytail. destruct Hm as [-> | ->]; discriminate.
Qed.
Lemma pass2_build h b :
  pass2 (build h) M2Req b =
  auxbinds (vars (h_aux h)) (defaults (vars (h_key h)) (defaults (restvars (h_rest h)) (defaults (vars (h_opt h)) b))).
Proof.
  unfold build. rewrite pass2_req_vars.
  destruct (h_opt h) as [[df opt]|]; cbn [vsec vars app].
  - cbn [pass2 Mk' d_name]. rewrite pass2_opt_vars. apply pass2_resttail. right; reflexivity.
  - apply pass2_resttail. left; reflexivity.
Qed.

(* ---------- the scope after both passes, and what the specification prescribes ---------- *)
Definition keysl (l : llist) : list (N * option Z) := match l_key l with Some ks => ks | None => [] end.
Definition restl (l : llist) : list (N * option Z) := match l_rest l with Some r => [(r, None)] | None => [] end.
Definition names (l : llist) : list N :=
  l_req l ++ map fst (l_opt l) ++ map fst (restl l) ++ map fst (keysl l) ++ map fst (l_aux l).
Definition a1of (l : llist) (args : list arg) := skipn (length (l_req l)) args.
Definition a2of (l : llist) (args : list arg) := skipn (length (l_req l) + length (l_opt l)) args.
Definition posb (l : llist) (args : list arg) : list (N * value) :=
  push_all (l_opt l) (a1of l args) (push_all (reqd (l_req l)) args []).
(* after pass 1 (the first pair of every key parameter bound) and the binding of the rest list; when the
   lambda list has both &rest and &key this is only used with no argument left (the guard) *)
Definition scope1 (l : llist) (ps : list (N * arg)) (args : list arg) : list (N * value) :=
  match l_rest l, a2of l args with
  | Some r, _ :: _ => bind (keybinds (map fst (keysl l)) ps (posb l args)) r (VList (a2of l args))
  | _, _ => keybinds (map fst (keysl l)) ps (posb l args)
  end.
(* after pass 2 *)
Definition scope2 (l : llist) (ps : list (N * arg)) (args : list arg) : list (N * value) :=
  auxbinds (l_aux l) (defaults (keysl l) (defaults (restl l) (defaults (l_opt l) (scope1 l ps args)))).
(* the bindings the specification lists, ps being the keyword/value pairs *)
Definition specl (l : llist) (ps : list (N * arg)) (args : list arg) : list (N * value) :=
  map (fun p => (fst p, arg_val (snd p))) (combine (l_req l) args) ++
  fst (bind_opt (l_opt l) (a1of l args)) ++
  map (fun xd => (fst xd, match a2of l args with [] => VNil | _ => VList (a2of l args) end)) (restl l) ++
  map (fun kd => (fst kd, match first_pair (fst kd) ps with Some v => arg_val v | None => def_val (snd kd) end)) (keysl l) ++
  map (fun xd => (fst xd, def_val (snd xd))) (l_aux l).

Lemma combine_keys (req : list N) : forall args : list arg, (length req <= length args)%nat ->
  map fst (map (fun p => (fst p, arg_val (snd p))) (combine req args)) = req.
Proof.
  induction req as [|x req IH]; intros args H; [reflexivity|]. destruct args; [cbn in H; lia|]. cbn. f_equal. apply IH. cbn in H. lia.
Qed.
Lemma specl_keys l ps args : (length (l_req l) <= length args)%nat -> map fst (specl l ps args) = names l.
Proof.
  intros H. unfold specl, names. rewrite !map_app, bind_opt_keys, combine_keys by exact H. rewrite !map_map. reflexivity.
Qed.

Lemma is_key_param_in ks k : is_key_param ks k = true <-> In k ks.
Proof.
  unfold is_key_param. rewrite existsb_exists. split.
  - intros (y & Hy & E). apply N.eqb_eq in E. subst y. exact Hy.
  - intros H. exists k. split; [exact H|apply N.eqb_refl].
Qed.
Lemma is_key_param_notin ks k : ~ In k ks -> is_key_param ks k = false.
Proof. intros H. destruct (is_key_param ks k) eqn:E; [|reflexivity]. apply is_key_param_in in E. contradiction. Qed.

(* what the key loop leaves in the scope: a variable bound before stays; an unbound key parameter gets the
   value of its FIRST pair; nothing else is bound *)
Lemma lookup_keybinds ks ps : forall b x,
  lookup (keybinds ks ps b) x =
  match lookup b x with
  | Some v => Some v
  | None => if is_key_param ks x then match first_pair x ps with Some v => Some (arg_val v) | None => None end else None
  end.
Proof.
  unfold keybinds. induction ps as [|[k v] ps IH]; intros b x.
  - cbn [fold_left first_pair]. destruct (lookup b x); [reflexivity|]. destruct (is_key_param ks x); reflexivity.
  - cbn [fold_left]. rewrite IH. unfold kstep. cbn [fst snd first_pair].
    destruct (is_key_param ks k) eqn:Ek.
    + destruct (lookup b k) as [w|] eqn:Elk.
      * destruct (lookup b x) eqn:Elx; [reflexivity|].
        destruct (N.eqb_spec x k) as [->|Hn]; [congruence|reflexivity].
      * destruct (N.eqb_spec x k) as [->|Hn].
        -- rewrite lookup_bind_same, Elk, Ek. reflexivity.
        -- rewrite lookup_bind_other by exact Hn. reflexivity.
    + destruct (lookup b x); [reflexivity|]. destruct (N.eqb_spec x k) as [->|Hn]; [rewrite Ek; reflexivity|reflexivity].
Qed.

Lemma notin_firstn {B} n (xs : list (N * B)) x : ~ In x (map fst xs) -> ~ In x (map fst (firstn n xs)).
Proof. intros H Hi. apply H. apply in_map_iff in Hi as (p & Ep & Hp). apply in_firstn in Hp. apply in_map_iff. exists p. auto. Qed.
Lemma reqd_keys req : map fst (reqd req) = req.
Proof. unfold reqd. rewrite map_map. cbn. apply map_id. Qed.

Lemma lookup_posb_none l args x : ~ In x (l_req l) -> ~ In x (map fst (l_opt l)) -> lookup (posb l args) x = None.
Proof.
  intros Hr Ho. unfold posb. rewrite lookup_push_all_notin by (apply notin_firstn; exact Ho).
  rewrite lookup_push_all_notin by (apply notin_firstn; rewrite reqd_keys; exact Hr). reflexivity.
Qed.
Lemma lookup_scope1_notrest l ps args x : ~ In x (map fst (restl l)) ->
  lookup (scope1 l ps args) x = lookup (keybinds (map fst (keysl l)) ps (posb l args)) x.
Proof.
  intros H. unfold scope1. unfold restl in H. destruct (l_rest l) as [r|]; [|reflexivity]. destruct (a2of l args); [reflexivity|].
  apply lookup_bind_other. intros ->. apply H. left. reflexivity.
Qed.
(* a variable that is no key parameter is not touched by the key loop *)
Lemma lookup_keybinds_nokey ks ps b x : ~ In x ks -> lookup (keybinds ks ps b) x = lookup b x.
Proof. intros H. rewrite lookup_keybinds, is_key_param_notin by exact H. destruct (lookup b x); reflexivity. Qed.

Ltac dj DQ DO DR DK :=
  let Hc := fresh "Hc" in
  intros Hc;
  match goal with
  | H : In ?y _ |- _ =>
      solve [ apply (DQ y H); rewrite ?in_app_iff; tauto | apply (DO y H); rewrite ?in_app_iff; tauto
            | apply (DR y H); rewrite ?in_app_iff; tauto | apply (DK y H); rewrite ?in_app_iff; tauto ]
  end.

(* every binding of the specification is what the code's scope holds - for ANY keyword/value pairs: unknown
   and repeated keywords need no side condition any more *)
Lemma scope_meets_spec l ps args :
  NoDup (names l) -> (length (l_req l) <= length args)%nat ->
  forall x v, In (x, v) (specl l ps args) -> lookup (scope2 l ps args) x = Some v.
Proof.
  intros Hnd Hlen x v Hin. unfold names in Hnd.
  destruct (NoDup_app_parts _ _ Hnd) as (NDq & Hnd1 & DQ).
  destruct (NoDup_app_parts _ _ Hnd1) as (NDo & Hnd2 & DO).
  destruct (NoDup_app_parts _ _ Hnd2) as (NDr & Hnd3 & DR).
  destruct (NoDup_app_parts _ _ Hnd3) as (NDk & NDa & DK).
  unfold specl in Hin. unfold scope2.
  apply in_app_or in Hin as [Hin|Hin]; [|apply in_app_or in Hin as [Hin|Hin]; [|apply in_app_or in Hin as [Hin|Hin]; [|apply in_app_or in Hin as [Hin|Hin]]]].
  - (* a required parameter *)
    apply in_map_iff in Hin as ((x' & a) & E & Hc). injection E as -> <-.
    destruct (in_combine_nth _ _ _ _ Hc) as (i & Hi1 & Hi2).
    assert (Hxr : In x (l_req l)) by (eapply nth_error_In; exact Hi1).
    rewrite lookup_auxbinds_notin by dj DQ DO DR DK. rewrite lookup_defaults_notin by dj DQ DO DR DK.
    rewrite lookup_defaults_notin by dj DQ DO DR DK. rewrite lookup_defaults_notin by dj DQ DO DR DK.
    rewrite lookup_scope1_notrest by dj DQ DO DR DK. rewrite lookup_keybinds_nokey by dj DQ DO DR DK.
    unfold posb. rewrite lookup_push_all_notin by (apply notin_firstn; dj DQ DO DR DK).
    apply (lookup_push_all_in (reqd (l_req l)) args [] i x None a); [rewrite reqd_keys; exact NDq| |exact Hi2].
    unfold reqd. rewrite nth_error_map, Hi1. reflexivity.
  - (* an optional parameter *)
    destruct (in_bind_opt _ _ _ _ Hin) as (j & d & Hj & Hc).
    assert (Hxo : In x (map fst (l_opt l))) by (eapply nth_error_in_fst; exact Hj).
    rewrite lookup_auxbinds_notin by dj DQ DO DR DK. rewrite lookup_defaults_notin by dj DQ DO DR DK.
    rewrite lookup_defaults_notin by dj DQ DO DR DK.
    rewrite (lookup_defaults_in (l_opt l) _ x d NDo) by (eapply nth_error_In; exact Hj).
    rewrite lookup_scope1_notrest by dj DQ DO DR DK. rewrite lookup_keybinds_nokey by dj DQ DO DR DK.
    unfold posb. destruct Hc as [(a & Ha & ->)|[Hl ->]].
    + rewrite (lookup_push_all_in (l_opt l) _ _ j x d a NDo Hj Ha). reflexivity.
    + assert (E : lookup (push_all (l_opt l) (a1of l args) (push_all (reqd (l_req l)) args [])) x = None).
      { rewrite lookup_push_all_notin.
        - rewrite lookup_push_all_notin; [reflexivity|]. apply notin_firstn. rewrite reqd_keys. dj DQ DO DR DK.
        - intros Hi. apply in_map_iff in Hi as ((x2 & d2) & Ex2 & Hp). cbn in Ex2. subst x2.
          apply In_nth_error in Hp as (k & Hk1). apply nth_error_firstn_some in Hk1 as [Hk2 Hk1].
          assert (k = j).
          { apply (proj1 (NoDup_nth_error (map fst (l_opt l))) NDo).
            - rewrite map_length. apply nth_error_Some. congruence.
            - rewrite !nth_error_map, Hk1, Hj. reflexivity. }
          lia. }
      rewrite E. reflexivity.
  - (* the rest parameter *)
    apply in_map_iff in Hin as ((r & d) & E & Hc). cbn [fst] in E. injection E as <- <-.
    assert (Hxr : In r (map fst (restl l))) by (apply in_map_iff; exists (r, d); auto).
    assert (Ed : d = None) by (unfold restl in Hc; destruct (l_rest l); [destruct Hc as [Hc|[]]; congruence|destruct Hc]). subst d.
    rewrite lookup_auxbinds_notin by dj DQ DO DR DK. rewrite lookup_defaults_notin by dj DQ DO DR DK.
    rewrite (lookup_defaults_in (restl l) _ r None NDr Hc).
    rewrite lookup_defaults_notin by dj DQ DO DR DK.
    unfold scope1. unfold restl in Hc. destruct (l_rest l) as [r'|] eqn:Er; [|destruct Hc].
    destruct Hc as [Hc|[]]. injection Hc as ->.
    destruct (a2of l args) as [|a rem]; [|rewrite lookup_bind_same; reflexivity].
    rewrite lookup_keybinds_nokey by dj DQ DO DR DK.
    rewrite lookup_posb_none by dj DQ DO DR DK. reflexivity.
  - (* a key parameter *)
    apply in_map_iff in Hin as ((k & d) & E & Hc). cbn [fst snd] in E. injection E as <- <-.
    assert (Hxk : In k (map fst (keysl l))) by (apply in_map_iff; exists (k, d); auto).
    rewrite lookup_auxbinds_notin by dj DQ DO DR DK.
    rewrite (lookup_defaults_in (keysl l) _ k d NDk Hc).
    rewrite lookup_defaults_notin by dj DQ DO DR DK. rewrite lookup_defaults_notin by dj DQ DO DR DK.
    rewrite lookup_scope1_notrest by dj DQ DO DR DK. rewrite lookup_keybinds.
    rewrite lookup_posb_none by dj DQ DO DR DK. rewrite (proj2 (is_key_param_in _ _) Hxk).
    destruct (first_pair k ps); reflexivity.
  - (* an auxiliary parameter *)
    apply in_map_iff in Hin as ((x' & d) & E & Hc). injection E as -> <-.
    apply (lookup_auxbinds_in (l_aux l) _ x d NDa Hc).
Qed.

Lemma scope_reorder l ps args :
  NoDup (names l) -> (length (l_req l) <= length args)%nat ->
  map (fun x => (x, match lookup (scope2 l ps args) x with Some v => v | None => VUnbound end)) (names l) = specl l ps args.
Proof.
  intros Hnd Hlen. rewrite <- (specl_keys l ps args Hlen).
  assert (Hkk : NoDup (map fst (specl l ps args))) by (rewrite specl_keys by exact Hlen; exact Hnd).
  rewrite <- (reorder_id (specl l ps args) Hkk) at 2.
  apply map_ext_in. intros x Hx. f_equal.
  apply in_map_iff in Hx as ((x' & v) & Ex & Hin). cbn in Ex. subst x'.
  rewrite (lookup_in _ x v Hkk Hin). rewrite (scope_meets_spec l ps args Hnd Hlen x v Hin). reflexivity.
Qed.

(* ---------- the specification on a lambda list, with the sections made explicit ---------- *)
Lemma bind_S_sections l args : (length (l_req l) <= length args)%nat ->
  bind_S l args =
  match l_key l with
  | None => match l_rest l, a2of l args with
            | None, _ :: _ => OErr KTooMany
            | _, _ => OBound (specl l [] args)
            end
  | Some ks =>
      match key_pairs (S (length (a2of l args))) (a2of l args) with
      | None => OErr KBadKey
      | Some ps => if negb (keys_allowed l ps) && negb (forallb (fun p => key_known ks (fst p)) ps) then OErr KBadKey
                   else OBound (specl l ps args)
      end
  end.
Proof.
  intros H. unfold bind_S. rewrite (bind_req_enough (l_req l) args H).
  pose proof (bind_opt_rest (l_opt l) (skipn (length (l_req l)) args)) as Hr.
  assert (Hb : fst (bind_opt (l_opt l) (skipn (length (l_req l)) args)) = fst (bind_opt (l_opt l) (a1of l args))) by reflexivity.
  destruct (bind_opt (l_opt l) (skipn (length (l_req l)) args)) as [bopt r2]. cbn [fst snd] in Hr, Hb.
  rewrite skipn_skipn in Hr. fold (a2of l args) in Hr. subst r2. unfold specl, restl, keysl. rewrite <- Hb.
  destruct (l_key l) as [ks|], (l_rest l) as [r|]; cbn [map app fst snd]; reflexivity.
Qed.
Lemma bind_S_short l args : (length args < length (l_req l))%nat -> bind_S l args = OErr KTooFew.
Proof. intros H. unfold bind_S. rewrite bind_req_short by exact H. reflexivity. Qed.

(* ---------- the code model on a lambda list made of sections ---------- *)
Definition rest_nodef (h : shape) : Prop := match h_rest h with Some (_, (_, dr)) => dr = None | None => True end.

Lemma push_all_reqd xs : forall args b, push_all xs args b = push_all (reqd (map fst xs)) args b.
Proof.
  unfold push_all. induction xs as [|[x d] xs IH]; intros args b; [reflexivity|]. destruct args as [|a args]; [reflexivity|].
  cbn [map reqd combine fold_left fst snd]. apply IH.
Qed.

Lemma pass1_build ks al h args :
  pass1 ks al (build h) MReq (st0 args) =
  pass1 ks al (restsec (h_rest h) ++ vsec PKey (h_key h) ++ allowsec (h_allow h) ++ vsec PAux (h_aux h)) (match h_opt h with Some _ => MOpt | None => MReq end)
    {| p_args := a2of (ll_of h) args; p_b := posb (ll_of h) args; p_rest := []; p_restsym := None; p_err := None |}.
Proof.
  unfold build. rewrite pass1_prefix. unfold a2of, posb, a1of. cbn [ll_of l_req l_opt].
  rewrite map_length, <- push_all_reqd. reflexivity.
Qed.

Lemma params_app a b : params (a ++ b) = params a ++ params b.
Proof. unfold params. apply flat_map_app. Qed.
Lemma params_vars xs : params (map Vd xs) = map fst xs.
Proof. unfold params. induction xs as [|[x d] xs IH]; cbn; [reflexivity|f_equal; exact IH]. Qed.
Lemma params_vsec p o : (forall x, p <> PVar x) -> params (vsec p o) = map fst (vars o).
Proof.
  intros Hp. destruct o as [[df vs]|]; [|reflexivity]. cbn [vsec vars]. change (Mk' p df :: map Vd vs) with ([Mk' p df] ++ map Vd vs).
  rewrite params_app, params_vars. destruct p; try reflexivity. exfalso. eapply Hp. reflexivity.
Qed.
Lemma params_build h : params (build h) = names (ll_of h).
Proof.
  unfold build, names. rewrite !params_app, params_vars, !params_vsec by discriminate. cbn [ll_of l_req l_opt l_aux].
  f_equal. f_equal. unfold restl, keysl. cbn [ll_of l_rest l_key].
  destruct (h_rest h) as [[df [r dr]]|], (h_key h) as [[dk ks]|], (h_allow h); reflexivity.
Qed.

Lemma restvars_restl h : rest_nodef h -> restvars (h_rest h) = restl (ll_of h).
Proof. unfold rest_nodef, restl. cbn [ll_of l_rest]. destruct (h_rest h) as [[df [r dr]]|]; [intros ->; reflexivity|reflexivity]. Qed.

Lemma keysl_ll_of h : keysl (ll_of h) = vars (h_key h).
Proof. unfold keysl. cbn [ll_of l_key]. destruct (h_key h) as [[dk ks]|]; reflexivity. Qed.

(* FuncDoc.requiredCount of a lambda list made of sections *)
Lemma req_count_vars xs tl : req_count (map Vd xs ++ tl) = (length xs + req_count tl)%nat.
Proof. induction xs as [|[x d] xs IH]; cbn; [reflexivity|f_equal; exact IH]. Qed.
Lemma req_count_build h : req_count (build h) = length (l_req (ll_of h)).
Proof.
  unfold build. rewrite req_count_vars. cbn [ll_of l_req]. rewrite map_length.
  assert (E : req_count (vsec POptional (h_opt h) ++ restsec (h_rest h) ++ vsec PKey (h_key h) ++ allowsec (h_allow h) ++ vsec PAux (h_aux h)) = 0%nat).
  { destruct (h_opt h) as [[? ?]|]; [reflexivity|]. destruct (h_rest h) as [[? [? ?]]|]; [reflexivity|].
    destruct (h_key h) as [[? ?]|]; [reflexivity|]. destruct (h_allow h); [reflexivity|]. destruct (h_aux h) as [[? ?]|]; reflexivity. }
  rewrite E. lia.
Qed.

(* when pass 1 consumed every argument, the body sees scope2 *)
Lemma bind_M_bound h args ps st : rest_nodef h -> (length (l_req (ll_of h)) <= length args)%nat ->
  pass1 (key_params (build h)) (has_allow (build h)) (build h) MReq (st0 args) = st -> p_err st = None -> p_args st = [] ->
  match p_rest st, p_restsym st with _ :: _, Some r => bind (p_b st) r (VList (p_rest st)) | _, _ => p_b st end = scope1 (ll_of h) ps args ->
  bind_M (build h) args =
  OBound (map (fun x => (x, match lookup (scope2 (ll_of h) ps args) x with Some v => v | None => VUnbound end)) (names (ll_of h))).
Proof.
  intros Hrd Hlen Hst He Hargs Hsc. unfold bind_M. fold (st0 args). cbv zeta. rewrite Hst, He, Hargs, Hsc, pass2_build.
  rewrite req_count_build. destruct (Nat.ltb_spec (length args) (length (l_req (ll_of h)))); [lia|].
  rewrite params_build, restvars_restl by exact Hrd. unfold scope2. rewrite keysl_ll_of. reflexivity.
Qed.

Lemma reorder_specl h ps args : NoDup (names (ll_of h)) -> (length (l_req (ll_of h)) <= length args)%nat ->
  reorder (build h) (OBound (specl (ll_of h) ps args)) = OBound (specl (ll_of h) ps args).
Proof.
  intros Hnd Hlen. cbn [reorder]. f_equal. rewrite params_build, <- (specl_keys (ll_of h) ps args Hlen). apply reorder_id.
  rewrite specl_keys by exact Hlen. exact Hnd.
Qed.

Lemma bind_M_err ds args st k : pass1 (key_params ds) (has_allow ds) ds MReq (st0 args) = st -> p_err st = Some k -> bind_M ds args = OErr k.
Proof. intros Hst He. unfold bind_M. fold (st0 args). cbv zeta. rewrite Hst, He. reflexivity. Qed.
Lemma bind_M_toomany ds args st : pass1 (key_params ds) (has_allow ds) ds MReq (st0 args) = st -> p_err st = None -> p_args st <> [] -> bind_M ds args = OErr KTooMany.
Proof. intros Hst He Ha. unfold bind_M. fold (st0 args). cbv zeta. rewrite Hst, He. destruct (p_args st); [congruence|reflexivity]. Qed.

Lemma forallb_ext' {A} (f g : A -> bool) l : (forall x, f x = g x) -> forallb f l = forallb g l.
Proof. intros H. induction l as [|a l IH]; cbn; [reflexivity|]. rewrite H, IH. reflexivity. Qed.

(* :allow-other-keys among well-formed key arguments: the first pair counts *)
Lemma allow_in_args_pairs fuel : forall args ps, key_pairs fuel args = Some ps ->
  allow_in_args args = match first_pair allow_kw ps with Some ANil => false | Some _ => true | None => false end.
Proof.
  induction fuel as [|fuel IH]; intros args ps H; cbn in H; [discriminate|].
  destruct args as [|[z|k|] args]; try discriminate.
  - injection H as <-. reflexivity.
  - destruct args as [|v args]; [discriminate|]. destruct (key_pairs fuel args) as [ps'|] eqn:E; [|discriminate].
    injection H as <-. cbn [allow_in_args first_pair]. rewrite (N.eqb_sym allow_kw k).
    destruct (N.eqb k allow_kw); [destruct v; reflexivity|apply IH; exact E].
Qed.

(* the binder accepts a list of well-formed pairs exactly when the specification does *)
Lemma pairs_accepted h a2 ps : key_pairs (S (length a2)) a2 = Some ps ->
  forallb (pair_ok (map fst (vars (h_key h))) (match h_allow h with Some _ => true | None => false end) a2) ps =
  negb (negb (keys_allowed (ll_of h) ps) && negb (forallb (fun p => key_known (vars (h_key h)) (fst p)) ps)).
Proof.
  intros Hkp. unfold keys_allowed. cbn [ll_of l_allow]. rewrite <- (allow_in_args_pairs _ _ _ Hkp).
  set (al := match h_allow h with Some _ => true | None => false end). set (ai := allow_in_args a2).
  assert (Hk : forall k, is_key_param (map fst (vars (h_key h))) k = existsb (fun kd : N * option Z => N.eqb (fst kd) k) (vars (h_key h))).
  { intros k. unfold is_key_param. induction (vars (h_key h)) as [|[x d] l IH]; cbn; [reflexivity|]. rewrite IH, (N.eqb_sym k x). reflexivity. }
  destruct (al || ai) eqn:Eal.
  - cbn [negb andb]. apply forallb_forall. intros p _. unfold pair_ok, other_key_allowed. fold al ai.
    rewrite <- orb_assoc, Eal, !orb_true_r. reflexivity.
  - cbn [negb andb]. rewrite negb_involutive. apply forallb_ext'. intros p. unfold pair_ok, other_key_allowed, key_known. fold al ai.
    rewrite <- orb_assoc, Eal, orb_false_r, Hk. reflexivity.
Qed.

(* ---------- the binder on every lambda list made of sections ---------- *)
(* the scope handed to pass 2 *)
Definition scope_of (st : p1) : list (N * value) :=
  match p_rest st, p_restsym st with _ :: _, Some r => bind (p_b st) r (VList (p_rest st)) | _, _ => p_b st end.

(* Inside the guard a call either is rejected by binder and specification alike, or pass 1 consumes every argument
   and leaves the scope scope1 built from the specification's keyword/value pairs. *)
Inductive shape_res (h : shape) (args : list arg) : Prop :=
| SR_err k : bind_M (build h) args = OErr k -> bind_S (ll_of h) args = OErr k -> shape_res h args
| SR_ok ps st :
    pass1 (key_params (build h)) (has_allow (build h)) (build h) MReq (st0 args) = st -> p_err st = None -> p_args st = [] ->
    (length (l_req (ll_of h)) <= length args)%nat ->
    scope_of st = scope1 (ll_of h) ps args ->
    bind_S (ll_of h) args = OBound (specl (ll_of h) ps args) -> ps = pairs_of (ll_of h) args ->
    shape_res h args.

Lemma pairs_of_a2 l args : pairs_of l args =
  match l_key l with Some _ => match key_pairs (S (length (a2of l args))) (a2of l args) with Some ps => ps | None => [] end | None => [] end.
Proof. reflexivity. Qed.

Theorem binder_shape_res h args :
  rest_nodef h -> guard_l (ll_of h) args = true -> shape_res h args.
Proof.
  intros Hrd Hg. unfold guard_l in Hg.
  assert (Hm : posmode (match h_opt h with Some _ => MOpt | None => MReq end)) by (destruct (h_opt h); [right|left]; reflexivity).
  pose proof (key_params_build h) as Hks. pose proof (has_allow_build h) as Hal.
  set (KS := key_params (build h)) in *. set (AL := has_allow (build h)) in *.
  pose proof (pass1_build KS AL h args) as Hp1.
  destruct (Nat.le_gt_cases (length (l_req (ll_of h))) (length args)) as [Hlen|Hshort].
  2:{ (* too few arguments: both reject *)
    apply (SR_err _ _ KTooFew); [|apply bind_S_short; exact Hshort].
    assert (Ea : a2of (ll_of h) args = []) by (unfold a2of; apply skipn_all2; lia).
    rewrite Ea in Hp1. rewrite (pass1_noargs _ _ (restsec _ ++ _)) in Hp1 by reflexivity.
    unfold bind_M. fold (st0 args). fold KS AL. cbv zeta. rewrite Hp1. cbn [p_err p_args]. rewrite req_count_build.
    destruct (Nat.ltb_spec (length args) (length (l_req (ll_of h)))); [reflexivity|lia]. }
  pose proof (bind_S_sections _ _ Hlen) as HS. pose proof (pairs_of_a2 (ll_of h) args) as HP.
  destruct (a2of (ll_of h) args) as [|a rem] eqn:Ea2.
  - (* all arguments are consumed by the positional parameters *)
    rewrite (pass1_noargs _ _ (restsec _ ++ _)) in Hp1 by reflexivity.
    apply (SR_ok _ _ [] _ Hp1 eq_refl eq_refl Hlen).
    + unfold scope_of. cbn [p_rest p_restsym p_b]. unfold scope1. rewrite Ea2. destruct (l_rest (ll_of h)); reflexivity.
    + rewrite HS. destruct (l_key (ll_of h)) as [ks|] eqn:Ek.
      * cbn [length key_pairs forallb negb]. rewrite andb_false_r. reflexivity.
      * destruct (l_rest (ll_of h)); reflexivity.
    + rewrite HP. destruct (l_key (ll_of h)); reflexivity.
  - cbn [ll_of l_key l_rest l_aux l_req l_opt] in Hg, HS, HP.
    destruct (h_rest h) as [[df [r dr]]|] eqn:Er, (h_key h) as [[dk ks]|] eqn:Ek.
    + (* &rest and &key with arguments left: outside the guard *)
      exfalso. apply Nat.leb_le in Hg. unfold a2of in Ea2. cbn [ll_of l_req l_opt] in Ea2.
      rewrite skipn_all2 in Ea2 by lia. discriminate.
    + (* &rest: every remaining argument goes to the rest list *)
      assert (Hp1' : pass1 KS AL (build h) MReq (st0 args) =
                     {| p_args := []; p_b := posb (ll_of h) args; p_rest := a :: rem; p_restsym := Some r; p_err := None |}).
      { rewrite Hp1, Hks. cbn [vars map restsec vsec app]. apply pass1_restsec; [exact Hm|discriminate]. }
      apply (SR_ok _ _ [] _ Hp1' eq_refl eq_refl Hlen); [|exact HS|symmetry; exact HP].
      unfold scope_of. cbn [p_rest p_restsym p_b]. unfold scope1. cbn [ll_of l_rest]. rewrite Er, Ea2. unfold keysl. cbn [ll_of l_key]. rewrite Ek. reflexivity.
    + (* &key: the remaining arguments are keyword/value pairs *)
      assert (Hp1' : pass1 KS AL (build h) MReq (st0 args) =
                     match key_loop (S (length (a :: rem))) (map fst ks) (match h_allow h with Some _ => true | None => false end) (a :: rem) (a :: rem) (posb (ll_of h) args) with
                     | inl b' => {| p_args := []; p_b := b'; p_rest := []; p_restsym := None; p_err := None |}
                     | inr k => {| p_args := a :: rem; p_b := posb (ll_of h) args; p_rest := []; p_restsym := None; p_err := Some k |}
                     end).
      { rewrite Hp1, Hks, Hal. cbn [vars map restsec vsec app]. apply pass1_keysec; [exact Hm|discriminate]. }
      clear Hp1.
      destruct (key_pairs (S (length (a :: rem))) (a :: rem)) as [ps|] eqn:Ekp.
      * rewrite (key_loop_pairs _ _ _ _ _ _ _ Ekp) in Hp1'.
        pose proof (pairs_accepted h (a :: rem) ps Ekp) as Hacc. rewrite Ek in Hacc. cbn [vars] in Hacc. rewrite Hacc in Hp1'.
        destruct (negb (keys_allowed (ll_of h) ps) && negb (forallb (fun p => key_known ks (fst p)) ps)); cbn [negb] in Hp1'.
        -- apply (SR_err _ _ KBadKey); [apply (bind_M_err _ _ _ _ Hp1'); reflexivity|exact HS].
        -- apply (SR_ok _ _ ps _ Hp1' eq_refl eq_refl Hlen); [|exact HS|symmetry; exact HP].
           unfold scope_of. cbn [p_rest p_restsym p_b]. unfold scope1. cbn [ll_of l_rest]. rewrite Er. unfold keysl. cbn [ll_of l_key]. rewrite Ek. reflexivity.
      * rewrite key_loop_nopairs in Hp1' by (try exact Ekp; cbn [length]; lia).
        apply (SR_err _ _ KBadKey); [apply (bind_M_err _ _ _ _ Hp1'); reflexivity|exact HS].
    + (* neither: too many arguments *)
      assert (Hp1' : pass1 KS AL (build h) MReq (st0 args) =
                     {| p_args := a :: rem; p_b := posb (ll_of h) args; p_rest := []; p_restsym := None; p_err := None |}).
      { rewrite Hp1. cbn [restsec vsec app]. rewrite pass1_allowsec, pass1_auxsec by (try exact Hm; reflexivity). reflexivity. }
      apply (SR_err _ _ KTooMany); [apply (bind_M_toomany _ _ _ Hp1'); [reflexivity|discriminate]|exact HS].
Qed.

(* ---------- the binder meets the specification on every lambda list made of sections ---------- *)
Theorem binder_shape h args :
  NoDup (names (ll_of h)) -> rest_nodef h -> guard_l (ll_of h) args = true ->
  bind_M (build h) args = reorder (build h) (bind_S (ll_of h) args).
Proof.
  intros Hnd Hrd Hg. destruct (binder_shape_res h args Hrd Hg) as [k HM HS|ps st Hst He Ha Hlen Hsc HS _].
  - rewrite HM, HS. reflexivity.
  - rewrite (bind_M_bound h args ps st Hrd Hlen Hst He Ha Hsc), HS.
    rewrite scope_reorder by assumption. symmetry; apply reorder_specl; assumption.
Qed.

(* ---------- from sections back to arbitrary lambda lists ---------- *)
Lemma rest_plain_app a : forall b, rest_plain (a ++ b) = true -> rest_plain b = true.
Proof.
  induction a as [|d a IH]; intros b H; [exact H|]. cbn [app rest_plain] in H. apply andb_true_iff in H as [_ H]. apply IH. exact H.
Qed.
Lemma rest_plain_nodef h : rest_plain (build h) = true -> rest_nodef h.
Proof.
  unfold build. intros H. apply rest_plain_app in H. apply rest_plain_app in H. unfold rest_nodef.
  destruct (h_rest h) as [[df [r dr]]|]; [|exact I]. cbn in H. destruct dr; [discriminate|reflexivity].
Qed.

(* THE REFINEMENT THEOREM: for every lambda list the parser accepts (required, &optional, &rest, &key,
   &allow-other-keys, &aux sections) with distinct parameter names and a plain &rest variable, and every
   argument vector inside the guard, the two-pass binder model of the repaired Lambda.Call yields exactly the
   outcome of the specification - bindings and rejections alike. *)
Theorem binder_meets_spec_guard ds l args :
  parse_ll ds = Some l -> NoDup (params ds) -> rest_plain ds = true -> in_domain ds args = true ->
  bind_M ds args = reorder ds (bind_S l args).
Proof.
  intros Hp Hnd Hrp Hg. unfold in_domain in Hg. rewrite Hp in Hg.
  destruct (parse_shape ds l Hp) as (h & -> & ->).
  apply binder_shape; [rewrite <- params_build; exact Hnd|apply rest_plain_nodef; exact Hrp|exact Hg].
Qed.

(* a lambda list that does not combine &rest with &key is inside the guard with EVERY argument vector *)
Lemma in_domain_all ds l args : parse_ll ds = Some l -> l_rest l = None \/ l_key l = None -> in_domain ds args = true.
Proof.
  intros Hp H. unfold in_domain, guard_l. rewrite Hp. destruct H as [-> | ->]; [reflexivity|destruct (l_rest l); reflexivity].
Qed.
Corollary binder_meets_spec_all_args ds l args :
  parse_ll ds = Some l -> NoDup (params ds) -> rest_plain ds = true -> l_rest l = None \/ l_key l = None ->
  bind_M ds args = reorder ds (bind_S l args).
Proof. intros Hp Hnd Hrp H. apply binder_meets_spec_guard; try assumption. eapply in_domain_all; eassumption. Qed.

Lemma arg_eqb_refl a : arg_eqb a a = true.
Proof. destruct a; cbn; [apply Z.eqb_refl|apply N.eqb_refl|reflexivity]. Qed.
Lemma list_eqb_refl {A} (eqb : A -> A -> bool) : (forall x, eqb x x = true) -> forall l, list_eqb eqb l l = true.
Proof. intros H. induction l as [|x l IH]; cbn; [reflexivity|]. rewrite H, IH. reflexivity. Qed.
Lemma value_eqb_refl v : value_eqb v v = true.
Proof. destruct v; cbn; [apply Z.eqb_refl|apply N.eqb_refl|apply list_eqb_refl; exact arg_eqb_refl|reflexivity|reflexivity]. Qed.
Lemma outcome_eqv_refl o : outcome_eqv o o = true.
Proof.
  destruct o as [b|[]]; cbn; try reflexivity. apply list_eqb_refl. intros [x v]. cbn. rewrite N.eqb_refl, value_eqb_refl. reflexivity.
Qed.

(* the form evaluated by the correspondence on every run (Corr.check_case, code 3) *)
Corollary binder_meets_spec_eqv ds l args :
  parse_ll ds = Some l -> NoDup (params ds) -> rest_plain ds = true -> in_domain ds args = true ->
  outcome_eqv (reorder ds (bind_S l args)) (bind_M ds args) = true.
Proof. intros Hp Hnd Hrp Hg. rewrite (binder_meets_spec_guard ds l args Hp Hnd Hrp Hg). apply outcome_eqv_refl. Qed.

(* ---------- rejections, in property terms ---------- *)
(* too few arguments: rejected, whatever the lambda list (C04-8) *)
Corollary too_few_rejected ds l args :
  parse_ll ds = Some l -> NoDup (params ds) -> rest_plain ds = true ->
  (length args < length (l_req l))%nat -> bind_M ds args = OErr KTooFew.
Proof.
  intros Hp Hnd Hrp Hs.
  assert (Hg : in_domain ds args = true).
  { unfold in_domain, guard_l. rewrite Hp. destruct (l_rest l), (l_key l); try reflexivity. apply Nat.leb_le. lia. }
  rewrite (binder_meets_spec_guard ds l args Hp Hnd Hrp Hg), bind_S_short by exact Hs. reflexivity.
Qed.
(* too many arguments: rejected when the lambda list has neither &rest nor &key *)
Corollary too_many_rejected ds l args :
  parse_ll ds = Some l -> NoDup (params ds) -> rest_plain ds = true -> l_rest l = None -> l_key l = None ->
  (length (l_req l) + length (l_opt l) < length args)%nat -> bind_M ds args = OErr KTooMany.
Proof.
  intros Hp Hnd Hrp Hr Hk Hs.
  rewrite (binder_meets_spec_all_args ds l args Hp Hnd Hrp (or_introl Hr)).
  rewrite bind_S_sections by lia. rewrite Hk, Hr. unfold a2of.
  destruct (skipn (length (l_req l) + length (l_opt l)) args) eqn:E; [|reflexivity].
  apply (f_equal (@length arg)) in E. rewrite skipn_length in E. cbn in E. lia.
Qed.
(* a keyword argument that names no &key parameter is rejected unless other keys are allowed (C04-7), and so
   are key arguments that are not keyword/value pairs *)
Corollary bad_keys_rejected ds l args ks :
  parse_ll ds = Some l -> NoDup (params ds) -> rest_plain ds = true -> l_rest l = None -> l_key l = Some ks ->
  (length (l_req l) <= length args)%nat ->
  match key_pairs (S (length (a2of l args))) (a2of l args) with
  | None => True
  | Some ps => keys_allowed l ps = false /\ forallb (fun p => key_known ks (fst p)) ps = false
  end ->
  bind_M ds args = OErr KBadKey.
Proof.
  intros Hp Hnd Hrp Hr Hk Hlen H.
  rewrite (binder_meets_spec_all_args ds l args Hp Hnd Hrp (or_introl Hr)).
  rewrite bind_S_sections by exact Hlen. rewrite Hk.
  destruct (key_pairs (S (length (a2of l args))) (a2of l args)) as [ps|]; [|reflexivity].
  destruct H as [-> ->]. reflexivity.
Qed.

(* ---------- what the bound parameters hold, in property terms ---------- *)
Lemma reorder_specl_ds ds l ps args : parse_ll ds = Some l -> NoDup (params ds) -> (length (l_req l) <= length args)%nat ->
  reorder ds (OBound (specl l ps args)) = OBound (specl l ps args).
Proof.
  intros Hp Hnd Hlen. destruct (parse_shape ds l Hp) as (h & -> & ->). apply reorder_specl; [rewrite <- params_build; exact Hnd|exact Hlen].
Qed.
Lemma specl_nodup ds l ps args : parse_ll ds = Some l -> NoDup (params ds) -> (length (l_req l) <= length args)%nat ->
  NoDup (map fst (specl l ps args)).
Proof.
  intros Hp Hnd Hlen. rewrite specl_keys by exact Hlen. destruct (parse_shape ds l Hp) as (h & -> & ->). rewrite <- params_build. exact Hnd.
Qed.

Lemma bound_rest ds l args r :
  parse_ll ds = Some l -> NoDup (params ds) -> rest_plain ds = true -> (length (l_req l) <= length args)%nat ->
  l_key l = None -> l_rest l = Some r -> bind_M ds args = OBound (specl l [] args).
Proof.
  intros Hp Hnd Hrp Hlen Hk Hr.
  rewrite (binder_meets_spec_all_args ds l args Hp Hnd Hrp (or_intror Hk)), (bind_S_sections l args Hlen), Hk, Hr.
  apply reorder_specl_ds; assumption.
Qed.
Lemma bound_key ds l args ks ps :
  parse_ll ds = Some l -> NoDup (params ds) -> rest_plain ds = true -> in_domain ds args = true -> (length (l_req l) <= length args)%nat ->
  l_key l = Some ks -> key_pairs (S (length (a2of l args))) (a2of l args) = Some ps ->
  keys_allowed l ps = true \/ forallb (fun p => key_known ks (fst p)) ps = true ->
  bind_M ds args = OBound (specl l ps args).
Proof.
  intros Hp Hnd Hrp Hg Hlen Hk Hkp Hok.
  rewrite (binder_meets_spec_guard ds l args Hp Hnd Hrp Hg), (bind_S_sections l args Hlen), Hk, Hkp.
  assert (E : negb (keys_allowed l ps) && negb (forallb (fun p => key_known ks (fst p)) ps) = false)
    by (destruct Hok as [-> | ->]; cbn [negb]; [reflexivity|apply andb_false_r]).
  rewrite E. apply reorder_specl_ds; assumption.
Qed.

(* &rest without &key: the rest parameter holds all the arguments after the positional ones, in order - also
   keywords, also keywords spelled like an &aux parameter (C04-4) *)
Corollary rest_collects_in_order ds l args r :
  parse_ll ds = Some l -> NoDup (params ds) -> rest_plain ds = true -> (length (l_req l) <= length args)%nat ->
  l_key l = None -> l_rest l = Some r ->
  bind_M ds args = reorder ds (bind_S l args) /\
  exists b, bind_M ds args = OBound b /\
            lookup b r = Some (match skipn (length (l_req l) + length (l_opt l)) args with [] => VNil | rem => VList rem end).
Proof.
  intros Hp Hnd Hrp Hlen Hk Hr. split; [apply binder_meets_spec_all_args; auto|].
  exists (specl l [] args). split; [eapply bound_rest; eassumption|].
  apply lookup_in; [eapply specl_nodup; eassumption|]. unfold specl, restl. rewrite Hr. rewrite !in_app_iff. right. right. left.
  left. unfold a2of. cbn [fst]. destruct (skipn (length (l_req l) + length (l_opt l)) args); reflexivity.
Qed.

Lemma first_pair_notin k ps : ~ In k (map fst ps) -> first_pair k ps = None.
Proof.
  induction ps as [|[k' v] ps IH]; intros H; [reflexivity|]. cbn in *. destruct (N.eqb_spec k k') as [->|Hn]; [exfalso; apply H; left; reflexivity|].
  apply IH. intros Hi. apply H. right. exact Hi.
Qed.

(* &key: when the remaining arguments are acceptable keyword/value pairs, every key parameter holds the value
   of the FIRST pair with its keyword, wherever that pair stands among the key arguments (C04-6), and its
   default when its keyword is absent; no other parameter is touched by a keyword (C04-5) *)
Corollary key_by_name ds l args ks ps k d :
  parse_ll ds = Some l -> NoDup (params ds) -> rest_plain ds = true -> in_domain ds args = true -> (length (l_req l) <= length args)%nat ->
  l_key l = Some ks -> key_pairs (S (length (a2of l args))) (a2of l args) = Some ps ->
  keys_allowed l ps = true \/ forallb (fun p => key_known ks (fst p)) ps = true ->
  In (k, d) ks ->
  exists b, bind_M ds args = OBound b /\
            (forall v, first_pair k ps = Some v -> lookup b k = Some (arg_val v)) /\
            (~ In k (map fst ps) -> lookup b k = Some (def_val d)).
Proof.
  intros Hp Hnd Hrp Hg Hlen Hk Hkp Hok Hin.
  exists (specl l ps args). split; [eapply bound_key; eassumption|].
  assert (HL : lookup (specl l ps args) k = Some (match first_pair k ps with Some v => arg_val v | None => def_val d end)).
  { apply lookup_in; [eapply specl_nodup; eassumption|]. unfold specl, keysl. rewrite Hk. rewrite !in_app_iff. right. right. right. left.
    apply in_map_iff. exists (k, d). split; [reflexivity|exact Hin]. }
  split.
  - intros v Hv. rewrite HL, Hv. reflexivity.
  - intros Hni. rewrite HL, (first_pair_notin k ps Hni). reflexivity.
Qed.
(* ... and a required parameter keeps its positional argument whatever the keyword arguments are *)
Corollary required_kept ds l args ks ps i x a :
  parse_ll ds = Some l -> NoDup (params ds) -> rest_plain ds = true -> in_domain ds args = true -> (length (l_req l) <= length args)%nat ->
  l_key l = Some ks -> key_pairs (S (length (a2of l args))) (a2of l args) = Some ps ->
  keys_allowed l ps = true \/ forallb (fun p => key_known ks (fst p)) ps = true ->
  nth_error (l_req l) i = Some x -> nth_error args i = Some a ->
  exists b, bind_M ds args = OBound b /\ lookup b x = Some (arg_val a).
Proof.
  intros Hp Hnd Hrp Hg Hlen Hk Hkp Hok Hx Ha.
  exists (specl l ps args). split; [eapply bound_key; eassumption|].
  apply lookup_in; [eapply specl_nodup; eassumption|]. unfold specl. apply in_or_app. left.
  apply in_map_iff. exists (x, a). split; [reflexivity|].
  clear - Hx Ha. revert args i Hx Ha. induction (l_req l) as [|y req IH]; intros args i Hx Ha; [destruct i; discriminate|].
  destruct args as [|b args]; [destruct i; discriminate|]. destruct i as [|i]; cbn in *.
  - injection Hx as ->. injection Ha as ->. left; reflexivity.
  - right. eapply IH; eassumption.
Qed.

(* ---------- non-vacuity: &rest, &key and &allow-other-keys lambda lists inside the guard ---------- *)
Lemma guard_examples_rest_key :
  let ds_r := [D 0; Mk POptional; {| d_name := PVar 1; d_def := Some 7%Z |}; Mk PRest; D 2; Mk PAux; {| d_name := PVar 3; d_def := Some 9%Z |}] in
  let ds_k := [D 0; Mk PKey; {| d_name := PVar 1; d_def := Some 5%Z |}; D 2; Mk PAux; {| d_name := PVar 3; d_def := Some 9%Z |}] in
  let ds_a := [D 0; Mk PKey; D 1; Mk PAllow] in
  in_domain ds_r [AInt 1%Z; AInt 2%Z; AKw 3; AInt 4%Z] = true /\ NoDup (params ds_r) /\ rest_plain ds_r = true /\
  bind_M ds_r [AInt 1%Z; AInt 2%Z; AKw 3; AInt 4%Z] = OBound [(0, VInt 1); (1, VInt 2); (2, VList [AKw 3; AInt 4%Z]); (3, VInt 9)] /\
  bind_M ds_r [AInt 1%Z] = OBound [(0, VInt 1); (1, VInt 7); (2, VNil); (3, VInt 9)] /\
  bind_M ds_r [] = OErr KTooFew /\
  in_domain ds_k [AInt 1%Z; AKw 2; AInt 8%Z; AKw 1; ANil; AKw 2; AInt 6%Z] = true /\ NoDup (params ds_k) /\ rest_plain ds_k = true /\
  bind_M ds_k [AInt 1%Z; AKw 2; AInt 8%Z; AKw 1; ANil; AKw 2; AInt 6%Z] = OBound [(0, VInt 1); (1, VNil); (2, VInt 8); (3, VInt 9)] /\
  bind_M ds_k [AInt 1%Z; AInt 2%Z] = OErr KBadKey /\
  bind_M ds_k [AInt 1%Z; AKw 0; AInt 2%Z] = OErr KBadKey /\
  bind_M ds_k [AInt 1%Z; AKw 0; AInt 2%Z; AKw allow_kw; AInt 1%Z] = OBound [(0, VInt 1); (1, VInt 5); (2, VNil); (3, VInt 9)] /\
  bind_M ds_a [AInt 1%Z; AKw 7; AInt 2%Z; AKw 1; AInt 3%Z] = OBound [(0, VInt 1); (1, VInt 3)] /\
  bind_M [Mk PKey] [AInt 1%Z] = OErr KBadKey /\ bind_M [Mk PKey] [AKw allow_kw; ANil] = OBound [].
Proof.
  cbv zeta. repeat split; try (vm_compute; reflexivity); cbn [params flat_map D Mk d_name app]; repeat constructor; cbn; intuition discriminate.
Qed.
