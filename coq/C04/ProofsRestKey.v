(* C04 — the binder refinement extended to &rest and &key lambda lists: for every lambda list accepted by
   parse_ll (required / &optional / &rest / &key / &aux sections, any marker spelling) and every argument
   vector inside the guard, the two-pass binder model produces the outcome the specification prescribes. *)
From C04 Require Import Model Spec Proofs.
Open Scope N_scope.

(* ---------- the sections of a parsed lambda list ---------- *)
Definition Mk' (p : pname) (df : option Z) : docarg := {| d_name := p; d_def := df |}.
Definition vsec (p : pname) (o : option (option Z * list (N * option Z))) : list docarg :=
  match o with Some (df, vs) => Mk' p df :: map Vd vs | None => [] end.
Definition vars (o : option (option Z * list (N * option Z))) : list (N * option Z) :=
  match o with Some (_, vs) => vs | None => [] end.
Definition restsec (o : option (option Z * (N * option Z))) : list docarg :=
  match o with Some (df, v) => [Mk' PRest df; Vd v] | None => [] end.
Definition restvars (o : option (option Z * (N * option Z))) : list (N * option Z) :=
  match o with Some (_, v) => [v] | None => [] end.
Definition allowsec (o : option (option Z)) : list docarg := match o with Some df => [Mk' PAllow df] | None => [] end.

(* the option Z next to a marker is the (meaningless) default slot of the marker's docarg *)
Record shape := {
  h_req : list (N * option Z);
  h_opt : option (option Z * list (N * option Z));
  h_rest : option (option Z * (N * option Z));
  h_key : option (option Z * list (N * option Z));
  h_allow : option (option Z);
  h_aux : option (option Z * list (N * option Z)) }.
Definition build (h : shape) : list docarg :=
  map Vd (h_req h) ++ vsec POptional (h_opt h) ++ restsec (h_rest h) ++ vsec PKey (h_key h) ++ allowsec (h_allow h) ++ vsec PAux (h_aux h).
Definition ll_of (h : shape) : llist :=
  {| l_req := map fst (h_req h); l_opt := vars (h_opt h);
     l_rest := match h_rest h with Some (_, v) => Some (fst v) | None => None end;
     l_key := match h_key h with Some (_, ks) => Some ks | None => None end;
     l_allow := match h_allow h with Some _ => true | None => false end;
     l_aux := vars (h_aux h) |}.

Lemma Vd_eta d x : d_name d = PVar x -> d = Vd (x, d_def d).
Proof. destruct d as [n df]. cbn. intros ->. reflexivity. Qed.
Lemma Mk'_eta d p : d_name d = p -> d = Mk' p (d_def d).
Proof. destruct d as [n df]. cbn. intros ->. reflexivity. Qed.

Lemma take_vars_split ds : forall vs r, take_vars ds = (vs, r) -> ds = map Vd vs ++ r.
Proof.
  induction ds as [|d ds IH]; intros vs r H; cbn in H.
  - injection H as <- <-. reflexivity.
  - destruct (d_name d) as [x| | | | |] eqn:En; try (injection H as <- <-; reflexivity).
    destruct (take_vars ds) as [vs' r'] eqn:E. injection H as <- <-. cbn [map app].
    rewrite <- (IH vs' r' eq_refl). f_equal. apply Vd_eta. exact En.
Qed.

(* the parser, step by step (the bodies are those of parse_ll) *)
Definition s_opt (r1 : list docarg) : list (N * option Z) * list docarg :=
  match r1 with d :: r => match d_name d with POptional => take_vars r | _ => ([], r1) end | [] => ([], []) end.
Definition s_rest (r2 : list docarg) : option N * list docarg :=
  match r2 with
  | d :: d2 :: r => match d_name d, d_name d2 with PRest, PVar x => (Some x, r) | _, _ => (None, r2) end
  | _ => (None, r2) end.
Definition s_key (r3 : list docarg) : option (list (N * option Z)) * list docarg :=
  match r3 with d :: r => match d_name d with PKey => let '(ks, r') := take_vars r in (Some ks, r') | _ => (None, r3) end | [] => (None, []) end.
Definition s_allow (r4 : list docarg) : bool * list docarg :=
  match r4 with d :: r => match d_name d with PAllow => (true, r) | _ => (false, r4) end | [] => (false, []) end.
Definition s_aux (r5 : list docarg) : list (N * option Z) * list docarg :=
  match r5 with d :: r => match d_name d with PAux => take_vars r | _ => ([], r5) end | [] => ([], []) end.
Lemma parse_ll_steps ds : parse_ll ds =
  let '(req, r1) := take_vars ds in
  let '(opt, r2) := s_opt r1 in
  let '(rest, r3) := s_rest r2 in
  let '(key, r4) := s_key r3 in
  let '(allow, r5) := s_allow r4 in
  let '(aux, r6) := s_aux r5 in
  match r6 with
  | [] => Some {| l_req := map fst req; l_opt := opt; l_rest := rest; l_key := key; l_allow := allow; l_aux := aux |}
  | _ => None
  end.
Proof. reflexivity. Qed.

Lemma s_opt_split r1 opt r2 : s_opt r1 = (opt, r2) -> exists o, r1 = vsec POptional o ++ r2 /\ opt = vars o.
Proof.
  intros H. destruct r1 as [|d r]; cbn in H; [injection H as <- <-; exists None; split; reflexivity|].
  destruct (d_name d) eqn:En; try (injection H as <- <-; exists None; split; reflexivity).
  exists (Some (d_def d, opt)). split; [|reflexivity]. cbn [vsec app]. rewrite <- (take_vars_split r opt r2 H). f_equal. apply Mk'_eta. exact En.
Qed.
Lemma s_aux_split r1 aux r2 : s_aux r1 = (aux, r2) -> exists o, r1 = vsec PAux o ++ r2 /\ aux = vars o.
Proof.
  intros H. destruct r1 as [|d r]; cbn in H; [injection H as <- <-; exists None; split; reflexivity|].
  destruct (d_name d) eqn:En; try (injection H as <- <-; exists None; split; reflexivity).
  exists (Some (d_def d, aux)). split; [|reflexivity]. cbn [vsec app]. rewrite <- (take_vars_split r aux r2 H). f_equal. apply Mk'_eta. exact En.
Qed.
Lemma s_key_split r1 key r2 : s_key r1 = (key, r2) ->
  exists o, r1 = vsec PKey o ++ r2 /\ key = match o with Some (_, ks) => Some ks | None => None end.
Proof.
  intros H. destruct r1 as [|d r]; cbn in H; [injection H as <- <-; exists None; split; reflexivity|].
  destruct (d_name d) eqn:En; try (injection H as <- <-; exists None; split; reflexivity).
  destruct (take_vars r) as [ks r'] eqn:Et. injection H as <- <-.
  exists (Some (d_def d, ks)). split; [|reflexivity]. cbn [vsec app]. rewrite <- (take_vars_split r ks r' Et). f_equal. apply Mk'_eta. exact En.
Qed.
Lemma s_rest_split r1 rest r2 : s_rest r1 = (rest, r2) ->
  exists o, r1 = restsec o ++ r2 /\ rest = match o with Some (_, v) => Some (fst v) | None => None end.
Proof.
  intros H. unfold s_rest in H.
  destruct r1 as [|d [|d2 r]]; try (injection H as <- <-; exists None; split; reflexivity).
  destruct (d_name d) eqn:En; try (injection H as <- <-; exists None; split; reflexivity).
  destruct (d_name d2) as [x| | | | |] eqn:En2; try (injection H as <- <-; exists None; split; reflexivity).
  injection H as <- <-. exists (Some (d_def d, (x, d_def d2))). split; [|reflexivity]. cbn [restsec app]. f_equal; [apply Mk'_eta; exact En|].
  f_equal. apply Vd_eta. exact En2.
Qed.
Lemma s_allow_split r1 al r2 : s_allow r1 = (al, r2) ->
  exists o, r1 = allowsec o ++ r2 /\ al = match o with Some _ => true | None => false end.
Proof.
  intros H. destruct r1 as [|d r]; cbn in H; [injection H as <- <-; exists None; split; reflexivity|].
  destruct (d_name d) eqn:En; try (injection H as <- <-; exists None; split; reflexivity).
  injection H as <- <-. exists (Some (d_def d)). split; [|reflexivity]. cbn [allowsec app]. f_equal. apply Mk'_eta. exact En.
Qed.

(* every lambda list the parser accepts is a sequence of sections *)
Lemma parse_shape ds l : parse_ll ds = Some l -> exists h, ds = build h /\ l = ll_of h.
Proof.
  rewrite parse_ll_steps. intros H.
  destruct (take_vars ds) as [req r1] eqn:E0. apply take_vars_split in E0.
  destruct (s_opt r1) as [opt r2] eqn:E1. apply s_opt_split in E1 as (o1 & -> & ->).
  destruct (s_rest r2) as [rest r3] eqn:E2. apply s_rest_split in E2 as (o2 & -> & ->).
  destruct (s_key r3) as [key r4] eqn:E3. apply s_key_split in E3 as (o3 & -> & ->).
  destruct (s_allow r4) as [al r5] eqn:E4. apply s_allow_split in E4 as (o4 & -> & ->).
  destruct (s_aux r5) as [aux r6] eqn:E5. apply s_aux_split in E5 as (o5 & -> & ->).
  destruct r6; [|discriminate]. injection H as <-.
  exists {| h_req := req; h_opt := o1; h_rest := o2; h_key := o3; h_allow := o4; h_aux := o5 |}.
  split; [|reflexivity]. subst ds. unfold build. cbn [h_req h_opt h_rest h_key h_allow h_aux]. rewrite app_nil_r. reflexivity.
Qed.

(* ---------- pass 1, section by section ---------- *)
Lemma pass1_vars' xs tl m args b r rs : posmode m ->
  pass1 (map Vd xs ++ tl) m {| p_args := args; p_b := b; p_rest := r; p_restsym := rs; p_err := None |} =
  pass1 tl m {| p_args := skipn (length xs) args; p_b := push_all xs args b; p_rest := r; p_restsym := rs; p_err := None |}.
Proof.
  intros Hm. rewrite pass1_vars by exact Hm. cbv zeta. destruct (Nat.leb_spec (length args) (length xs)); [|reflexivity].
  symmetry. apply pass1_noargs. cbn. apply skipn_all2. assumption.
Qed.

(* required and optional parameters take the leading arguments *)
Lemma pass1_prefix req o tl args :
  pass1 (map Vd req ++ vsec POptional o ++ tl) MReq (st0 args) =
  pass1 tl (match o with Some _ => MOpt | None => MReq end)
    {| p_args := skipn (length req + length (vars o)) args;
       p_b := push_all (vars o) (skipn (length req) args) (push_all req args []);
       p_rest := []; p_restsym := None; p_err := None |}.
Proof.
  unfold st0. rewrite pass1_vars' by (left; reflexivity). destruct o as [[df opt]|]; cbn [vsec vars app].
  - destruct (skipn (length req) args) as [|a rem] eqn:E.
    + assert (E2 : skipn (length req + length opt) args = []) by (rewrite <- skipn_skipn, E; apply skipn_nil).
      rewrite E2, push_all_nil. rewrite !pass1_noargs by reflexivity. reflexivity.
    + cbn [pass1 p_args p_err Mk' d_name]. rewrite pass1_vars' by (right; reflexivity).
      rewrite <- E, skipn_skipn. reflexivity.
  - cbn [length]. rewrite Nat.add_0_r. reflexivity.
Qed.

Lemma pass1_auxsec o m st : posmode m -> p_err st = None -> pass1 (vsec PAux o) m st = st.
Proof.
  intros Hm He. destruct o as [[df aux]|]; [|reflexivity]. destruct st as [args b r rs e]. cbn in He. subst e.
  destruct args; [reflexivity|]. destruct Hm as [-> | ->]; reflexivity.
Qed.

Lemma is_later_aux k o : is_later_param k (vsec PAux o) = existsb (fun xd => N.eqb (fst xd) k) (vars o).
Proof.
  unfold is_later_param. destruct o as [[df aux]|]; [|reflexivity]. cbn [vsec vars existsb Mk' d_name orb].
  induction aux as [|[x d] aux IH]; cbn; [reflexivity|]. rewrite IH. reflexivity.
Qed.

Lemma forallb_ext' {A} (f g : A -> bool) l : (forall x, f x = g x) -> forallb f l = forallb g l.
Proof. intros H. induction l as [|a l IH]; cbn; [reflexivity|]. rewrite H, IH. reflexivity. Qed.

Lemma rest_loop_all later : forall args acc,
  forallb (fun a => match a with AKw k => negb (is_later_param k later) | _ => true end) args = true ->
  rest_loop later args acc = (acc ++ args, [], false).
Proof.
  induction args as [|a args IH]; intros acc H; cbn [rest_loop]; [rewrite app_nil_r; reflexivity|].
  cbn [forallb] in H. apply andb_true_iff in H as [Ha H].
  assert (E : rest_loop later args (acc ++ [a]) = (acc ++ a :: args, [], false)) by (rewrite IH by exact H; rewrite <- app_assoc; reflexivity).
  destruct a as [z|k|]; try exact E. apply negb_true_iff in Ha. rewrite Ha. exact E.
Qed.

(* &rest collects every remaining argument (no keyword among them names an &aux parameter) *)
Lemma pass1_restsec df r dr oa m a2 b : posmode m -> a2 <> [] ->
  forallb (rest_arg_ok (vars oa)) a2 = true ->
  pass1 (Mk' PRest df :: Vd (r, dr) :: vsec PAux oa) m {| p_args := a2; p_b := b; p_rest := []; p_restsym := None; p_err := None |} =
  {| p_args := []; p_b := b; p_rest := a2; p_restsym := Some r; p_err := None |}.
Proof.
  intros Hm Hne Hok. destruct a2 as [|a a2]; [congruence|].
  assert (Hl : rest_loop (vsec PAux oa) (a :: a2) [] = ([] ++ a :: a2, [], false)).
  { apply rest_loop_all. rewrite (forallb_ext' _ (rest_arg_ok (vars oa))); [exact Hok|].
    intros [z|k|]; try reflexivity. cbn [rest_arg_ok]. rewrite is_later_aux. reflexivity. }
  destruct Hm as [-> | ->]; cbn [pass1 p_args p_err Mk' d_name Vd fst p_rest p_restsym p_b]; rewrite Hl; cbn [app length Nat.eqb];
    apply pass1_noargs; reflexivity.
Qed.

(* &key: the remaining arguments are consumed as keyword/value pairs *)
Definition keybinds (ps : list (N * arg)) (b : list (N * value)) : list (N * value) :=
  fold_left (fun acc p => bind acc (fst p) (arg_val (snd p))) ps b.
Lemma key_loop_pairs fuel : forall args b ps, key_pairs fuel args = Some ps -> key_loop fuel args b = inl (keybinds ps b).
Proof.
  induction fuel as [|fuel IH]; intros args b ps H; cbn in H; [discriminate|]. cbn [key_loop].
  destruct args as [|[z|k|] args]; try discriminate.
  - injection H as <-. reflexivity.
  - destruct args as [|v args]; [discriminate|]. destruct (key_pairs fuel args) as [ps'|] eqn:E; [|discriminate].
    injection H as <-. cbn [keybinds fold_left fst snd]. apply IH. exact E.
Qed.

Lemma pass1_keysec df ks oa m a2 b : posmode m -> a2 <> [] ->
  pass1 (Mk' PKey df :: map Vd ks ++ vsec PAux oa) m {| p_args := a2; p_b := b; p_rest := []; p_restsym := None; p_err := None |} =
  match map Vd ks ++ vsec PAux oa with
  | [] => {| p_args := a2; p_b := b; p_rest := []; p_restsym := None; p_err := None |}
  | _ :: _ => match key_loop (S (length a2)) a2 b with
              | inl b' => {| p_args := []; p_b := b'; p_rest := []; p_restsym := None; p_err := None |}
              | inr k => {| p_args := a2; p_b := b; p_rest := []; p_restsym := None; p_err := Some k |}
              end
  end.
Proof.
  intros Hm Hne. destruct a2 as [|a a2]; [congruence|].
  destruct Hm as [-> | ->]; cbn [pass1 p_args p_err Mk' d_name]; (destruct (map Vd ks ++ vsec PAux oa) as [|d tl]; [reflexivity|]);
    cbn [pass1 p_args p_err p_b p_rest p_restsym]; (destruct (key_loop (S (length (a :: a2))) (a :: a2) b); [apply pass1_noargs; reflexivity|reflexivity]).
Qed.

(* ---------- pass 2, section by section ---------- *)
Lemma pass2_rest_vars xs : forall tl b, pass2 (map Vd xs ++ tl) M2Rest b = pass2 tl M2Rest (defaults xs b).
Proof. induction xs as [|[x d] xs IH]; intros tl b; cbn; [reflexivity|apply IH]. Qed.
Lemma pass2_key_vars xs : forall tl b, pass2 (map Vd xs ++ tl) M2Key b = pass2 tl M2Key (defaults xs b).
Proof. induction xs as [|[x d] xs IH]; intros tl b; cbn; [reflexivity|apply IH]. Qed.
Lemma pass2_auxsec o m b : pass2 (vsec PAux o) m b = auxbinds (vars o) b.
Proof. destruct o as [[df aux]|]; [|destruct m; reflexivity]. destruct m; cbn [vsec vars pass2 Mk' d_name]; apply pass2_aux_vars. Qed.
Lemma pass2_keytail ok oa m b : m <> M2Aux ->
  pass2 (vsec PKey ok ++ vsec PAux oa) m b = auxbinds (vars oa) (defaults (vars ok) b).
Proof.
  intros Hm. destruct ok as [[df ks]|]; cbn [vsec vars app]; [|apply pass2_auxsec].
  destruct m; try congruence; cbn [pass2 Mk' d_name]; rewrite pass2_key_vars; apply pass2_auxsec.
Qed.
Lemma pass2_resttail orr ok oa m b : m = M2Req \/ m = M2Opt ->
  pass2 (restsec orr ++ vsec PKey ok ++ vsec PAux oa) m b = auxbinds (vars oa) (defaults (vars ok) (defaults (restvars orr) b)).
Proof.
  intros Hm. destruct orr as [[df [r dr]]|]; cbn [restsec restvars app].
  - destruct Hm as [-> | ->]; cbn [pass2 Mk' d_name Vd fst snd]; rewrite pass2_keytail by discriminate; reflexivity.
  - apply pass2_keytail. destruct Hm as [-> | ->]; discriminate.
Qed.
Lemma pass2_build h b : h_allow h = None ->
  pass2 (build h) M2Req b =
  auxbinds (vars (h_aux h)) (defaults (vars (h_key h)) (defaults (restvars (h_rest h)) (defaults (vars (h_opt h)) b))).
Proof.
  intros Ha. unfold build. rewrite Ha. cbn [allowsec app]. rewrite pass2_req_vars.
  destruct (h_opt h) as [[df opt]|]; cbn [vsec vars app].
  - cbn [pass2 Mk' d_name]. rewrite pass2_opt_vars. apply pass2_resttail. right; reflexivity.
  - apply pass2_resttail. left; reflexivity.
Qed.

(* ---------- the scope after both passes, and what the specification prescribes ---------- *)
Definition keysl (l : llist) : list (N * option Z) := match l_key l with Some ks => ks | None => [] end.
Definition restl (l : llist) : list (N * option Z) := match l_rest l with Some r => [(r, None)] | None => [] end.
Definition names (l : llist) : list N :=
  l_req l ++ map fst (l_opt l) ++ map fst (restl l) ++ map fst (keysl l) ++ map fst (l_aux l).
Definition a1of (l : llist) (args : list arg) := skipn (length (l_req l)) args.
Definition a2of (l : llist) (args : list arg) := skipn (length (l_req l) + length (l_opt l)) args.
Definition posb (l : llist) (args : list arg) : list (N * value) :=
  push_all (l_opt l) (a1of l args) (push_all (reqd (l_req l)) args []).
(* after pass 1 (keys bound as they come) and the binding of the rest list *)
Definition scope1 (l : llist) (ps : list (N * arg)) (args : list arg) : list (N * value) :=
  match l_rest l, a2of l args with
  | Some r, _ :: _ => bind (keybinds ps (posb l args)) r (VList (a2of l args))
  | _, _ => keybinds ps (posb l args)
  end.
(* after pass 2 *)
Definition scope2 (l : llist) (ps : list (N * arg)) (args : list arg) : list (N * value) :=
  auxbinds (l_aux l) (defaults (keysl l) (defaults (restl l) (defaults (l_opt l) (scope1 l ps args)))).
(* the bindings the specification lists, ps being the keyword/value pairs *)
Definition specl (l : llist) (ps : list (N * arg)) (args : list arg) : list (N * value) :=
  map (fun p => (fst p, arg_val (snd p))) (combine (l_req l) args) ++
  fst (bind_opt (l_opt l) (a1of l args)) ++
  map (fun xd => (fst xd, match a2of l args with [] => VNil | _ => VList (a2of l args) end)) (restl l) ++
  map (fun kd => (fst kd, match first_pair (fst kd) ps with Some v => arg_val v | None => def_val (snd kd) end)) (keysl l) ++
  map (fun xd => (fst xd, def_val (snd xd))) (l_aux l).

Lemma combine_keys (req : list N) : forall args : list arg, (length req <= length args)%nat ->
  map fst (map (fun p => (fst p, arg_val (snd p))) (combine req args)) = req.
Proof.
  induction req as [|x req IH]; intros args H; [reflexivity|]. destruct args; [cbn in H; lia|]. cbn. f_equal. apply IH. cbn in H. lia.
Qed.
Lemma specl_keys l ps args : (length (l_req l) <= length args)%nat -> map fst (specl l ps args) = names l.
Proof.
  intros H. unfold specl, names. rewrite !map_app, bind_opt_keys, combine_keys by exact H. rewrite !map_map. reflexivity.
Qed.

Lemma lookup_keybinds_notin ps : forall b x, ~ In x (map fst ps) -> lookup (keybinds ps b) x = lookup b x.
Proof.
  unfold keybinds. induction ps as [|[k v] ps IH]; intros b x H; [reflexivity|]. cbn [fold_left fst snd]. cbn in H.
  rewrite IH by (intros Hi; apply H; right; exact Hi). apply lookup_bind_other. intros ->. apply H. left. reflexivity.
Qed.
Lemma first_pair_notin k ps : ~ In k (map fst ps) -> first_pair k ps = None.
Proof.
  induction ps as [|[k' v] ps IH]; intros H; [reflexivity|]. cbn in *. destruct (N.eqb_spec k k') as [->|Hn]; [exfalso; apply H; left; reflexivity|].
  apply IH. intros Hi. apply H. right. exact Hi.
Qed.
(* with every key supplied at most once the code's last-wins binding is the specification's first-wins one *)
Lemma lookup_keybinds_in ps : forall b k, NoDup (map fst ps) ->
  lookup (keybinds ps b) k = match first_pair k ps with Some v => Some (arg_val v) | None => lookup b k end.
Proof.
  unfold keybinds. induction ps as [|[k' v'] ps IH]; intros b k Hnd; [reflexivity|]. cbn [fold_left fst snd first_pair].
  cbn in Hnd. inversion Hnd as [|? ? Hni Hnd']; subst. rewrite IH by exact Hnd'.
  destruct (N.eqb_spec k k') as [->|Hn].
  - rewrite first_pair_notin by exact Hni. apply lookup_bind_same.
  - destruct (first_pair k ps); [reflexivity|]. apply lookup_bind_other. exact Hn.
Qed.

Lemma notin_firstn {B} n (xs : list (N * B)) x : ~ In x (map fst xs) -> ~ In x (map fst (firstn n xs)).
Proof. intros H Hi. apply H. apply in_map_iff in Hi as (p & Ep & Hp). apply in_firstn in Hp. apply in_map_iff. exists p. auto. Qed.
Lemma reqd_keys req : map fst (reqd req) = req.
Proof. unfold reqd. rewrite map_map. cbn. apply map_id. Qed.

Lemma lookup_posb_none l args x : ~ In x (l_req l) -> ~ In x (map fst (l_opt l)) -> lookup (posb l args) x = None.
Proof.
  intros Hr Ho. unfold posb. rewrite lookup_push_all_notin by (apply notin_firstn; exact Ho).
  rewrite lookup_push_all_notin by (apply notin_firstn; rewrite reqd_keys; exact Hr). reflexivity.
Qed.
Lemma lookup_scope1_notrest l ps args x : ~ In x (map fst (restl l)) -> lookup (scope1 l ps args) x = lookup (keybinds ps (posb l args)) x.
Proof.
  intros H. unfold scope1. unfold restl in H. destruct (l_rest l) as [r|]; [|reflexivity]. destruct (a2of l args); [reflexivity|].
  apply lookup_bind_other. intros ->. apply H. left. reflexivity.
Qed.

Ltac dj DQ DO DR DK :=
  let Hc := fresh "Hc" in
  intros Hc;
  match goal with
  | H : In ?y _ |- _ =>
      solve [ apply (DQ y H); rewrite ?in_app_iff; tauto | apply (DO y H); rewrite ?in_app_iff; tauto
            | apply (DR y H); rewrite ?in_app_iff; tauto | apply (DK y H); rewrite ?in_app_iff; tauto ]
  end.

(* every binding of the specification is what the code's scope holds *)
Lemma scope_meets_spec l ps args :
  NoDup (names l) -> (length (l_req l) <= length args)%nat ->
  (forall k, In k (map fst ps) -> In k (map fst (keysl l))) -> NoDup (map fst ps) ->
  forall x v, In (x, v) (specl l ps args) -> lookup (scope2 l ps args) x = Some v.
Proof.
  intros Hnd Hlen Hknown Hpsnd x v Hin. unfold names in Hnd.
  destruct (NoDup_app_parts _ _ Hnd) as (NDq & Hnd1 & DQ).
  destruct (NoDup_app_parts _ _ Hnd1) as (NDo & Hnd2 & DO).
  destruct (NoDup_app_parts _ _ Hnd2) as (NDr & Hnd3 & DR).
  destruct (NoDup_app_parts _ _ Hnd3) as (NDk & NDa & DK).
  assert (Hps : ~ In x (map fst (keysl l)) -> ~ In x (map fst ps)) by (intros H Hi; apply H; apply Hknown; exact Hi).
  unfold specl in Hin. unfold scope2.
  apply in_app_or in Hin as [Hin|Hin]; [|apply in_app_or in Hin as [Hin|Hin]; [|apply in_app_or in Hin as [Hin|Hin]; [|apply in_app_or in Hin as [Hin|Hin]]]].
  - (* a required parameter *)
    apply in_map_iff in Hin as ((x' & a) & E & Hc). injection E as -> <-.
    destruct (in_combine_nth _ _ _ _ Hc) as (i & Hi1 & Hi2).
    assert (Hxr : In x (l_req l)) by (eapply nth_error_In; exact Hi1).
    rewrite lookup_auxbinds_notin by dj DQ DO DR DK. rewrite lookup_defaults_notin by dj DQ DO DR DK.
    rewrite lookup_defaults_notin by dj DQ DO DR DK. rewrite lookup_defaults_notin by dj DQ DO DR DK.
    rewrite lookup_scope1_notrest by dj DQ DO DR DK. rewrite lookup_keybinds_notin by (apply Hps; dj DQ DO DR DK).
    unfold posb. rewrite lookup_push_all_notin by (apply notin_firstn; dj DQ DO DR DK).
    apply (lookup_push_all_in (reqd (l_req l)) args [] i x None a); [rewrite reqd_keys; exact NDq| |exact Hi2].
    unfold reqd. rewrite nth_error_map, Hi1. reflexivity.
  - (* an optional parameter *)
    destruct (in_bind_opt _ _ _ _ Hin) as (j & d & Hj & Hc).
    assert (Hxo : In x (map fst (l_opt l))) by (eapply nth_error_in_fst; exact Hj).
    rewrite lookup_auxbinds_notin by dj DQ DO DR DK. rewrite lookup_defaults_notin by dj DQ DO DR DK.
    rewrite lookup_defaults_notin by dj DQ DO DR DK.
    rewrite (lookup_defaults_in (l_opt l) _ x d NDo) by (eapply nth_error_In; exact Hj).
    rewrite lookup_scope1_notrest by dj DQ DO DR DK. rewrite lookup_keybinds_notin by (apply Hps; dj DQ DO DR DK).
    unfold posb. destruct Hc as [(a & Ha & ->)|[Hl ->]].
    + rewrite (lookup_push_all_in (l_opt l) _ _ j x d a NDo Hj Ha). reflexivity.
    + assert (E : lookup (push_all (l_opt l) (a1of l args) (push_all (reqd (l_req l)) args [])) x = None).
      { rewrite lookup_push_all_notin.
        - rewrite lookup_push_all_notin; [reflexivity|]. apply notin_firstn. rewrite reqd_keys. dj DQ DO DR DK.
        - intros Hi. apply in_map_iff in Hi as ((x2 & d2) & Ex2 & Hp). cbn in Ex2. subst x2.
          apply In_nth_error in Hp as (k & Hk1). apply nth_error_firstn_some in Hk1 as [Hk2 Hk1].
          assert (k = j).
          { apply (proj1 (NoDup_nth_error (map fst (l_opt l))) NDo).
            - rewrite map_length. apply nth_error_Some. congruence.
            - rewrite !nth_error_map, Hk1, Hj. reflexivity. }
          lia. }
      rewrite E. reflexivity.
  - (* the rest parameter *)
    apply in_map_iff in Hin as ((r & d) & E & Hc). cbn [fst] in E. injection E as <- <-.
    assert (Hxr : In r (map fst (restl l))) by (apply in_map_iff; exists (r, d); auto).
    assert (Ed : d = None) by (unfold restl in Hc; destruct (l_rest l); [destruct Hc as [Hc|[]]; congruence|destruct Hc]). subst d.
    rewrite lookup_auxbinds_notin by dj DQ DO DR DK. rewrite lookup_defaults_notin by dj DQ DO DR DK.
    rewrite (lookup_defaults_in (restl l) _ r None NDr Hc).
    rewrite lookup_defaults_notin by dj DQ DO DR DK.
    unfold scope1. unfold restl in Hc. destruct (l_rest l) as [r'|] eqn:Er; [|destruct Hc].
    destruct Hc as [Hc|[]]. injection Hc as ->.
    destruct (a2of l args) as [|a rem]; [|rewrite lookup_bind_same; reflexivity].
    rewrite lookup_keybinds_notin by (apply Hps; dj DQ DO DR DK).
    rewrite lookup_posb_none by dj DQ DO DR DK. reflexivity.
  - (* a key parameter *)
    apply in_map_iff in Hin as ((k & d) & E & Hc). cbn [fst snd] in E. injection E as <- <-.
    assert (Hxk : In k (map fst (keysl l))) by (apply in_map_iff; exists (k, d); auto).
    rewrite lookup_auxbinds_notin by dj DQ DO DR DK.
    rewrite (lookup_defaults_in (keysl l) _ k d NDk Hc).
    rewrite lookup_defaults_notin by dj DQ DO DR DK. rewrite lookup_defaults_notin by dj DQ DO DR DK.
    rewrite lookup_scope1_notrest by dj DQ DO DR DK. rewrite lookup_keybinds_in by exact Hpsnd.
    destruct (first_pair k ps); [reflexivity|]. rewrite lookup_posb_none by dj DQ DO DR DK. reflexivity.
  - (* an auxiliary parameter *)
    apply in_map_iff in Hin as ((x' & d) & E & Hc). injection E as -> <-.
    apply (lookup_auxbinds_in (l_aux l) _ x d NDa Hc).
Qed.

Lemma scope_reorder l ps args :
  NoDup (names l) -> (length (l_req l) <= length args)%nat ->
  (forall k, In k (map fst ps) -> In k (map fst (keysl l))) -> NoDup (map fst ps) ->
  map (fun x => (x, match lookup (scope2 l ps args) x with Some v => v | None => VUnbound end)) (names l) = specl l ps args.
Proof.
  intros Hnd Hlen Hk Hp. rewrite <- (specl_keys l ps args Hlen).
  assert (Hkk : NoDup (map fst (specl l ps args))) by (rewrite specl_keys by exact Hlen; exact Hnd).
  rewrite <- (reorder_id (specl l ps args) Hkk) at 2.
  apply map_ext_in. intros x Hx. f_equal.
  apply in_map_iff in Hx as ((x' & v) & Ex & Hin). cbn in Ex. subst x'.
  rewrite (lookup_in _ x v Hkk Hin). rewrite (scope_meets_spec l ps args Hnd Hlen Hk Hp x v Hin). reflexivity.
Qed.

(* ---------- the specification on a lambda list, with the sections made explicit ---------- *)
Lemma bind_S_sections l args : (length (l_req l) <= length args)%nat ->
  bind_S l args =
  match l_key l with
  | None => match l_rest l, a2of l args with
            | None, _ :: _ => OErr KTooMany
            | _, _ => OBound (specl l [] args)
            end
  | Some ks =>
      match key_pairs (S (length (a2of l args))) (a2of l args) with
      | None => OErr KBadKey
      | Some ps => if negb (l_allow l) && negb (forallb (fun p => existsb (fun kd => N.eqb (fst kd) (fst p)) ks) ps) then OErr KBadKey
                   else OBound (specl l ps args)
      end
  end.
Proof.
  intros H. unfold bind_S. rewrite (bind_req_enough (l_req l) args H).
  pose proof (bind_opt_rest (l_opt l) (skipn (length (l_req l)) args)) as Hr.
  assert (Hb : fst (bind_opt (l_opt l) (skipn (length (l_req l)) args)) = fst (bind_opt (l_opt l) (a1of l args))) by reflexivity.
  destruct (bind_opt (l_opt l) (skipn (length (l_req l)) args)) as [bopt r2]. cbn [fst snd] in Hr, Hb.
  rewrite skipn_skipn in Hr. fold (a2of l args) in Hr. subst r2. unfold specl, restl, keysl. rewrite <- Hb.
  destruct (l_key l) as [ks|], (l_rest l) as [r|]; cbn [map app fst snd]; reflexivity.
Qed.

(* ---------- the code model on a lambda list made of sections ---------- *)
Definition rest_nodef (h : shape) : Prop := match h_rest h with Some (_, (_, dr)) => dr = None | None => True end.

Lemma push_all_reqd xs : forall args b, push_all xs args b = push_all (reqd (map fst xs)) args b.
Proof.
  unfold push_all. induction xs as [|[x d] xs IH]; intros args b; [reflexivity|]. destruct args as [|a args]; [reflexivity|].
  cbn [map reqd combine fold_left fst snd]. apply IH.
Qed.

Lemma pass1_build h args : h_allow h = None ->
  pass1 (build h) MReq (st0 args) =
  pass1 (restsec (h_rest h) ++ vsec PKey (h_key h) ++ vsec PAux (h_aux h)) (match h_opt h with Some _ => MOpt | None => MReq end)
    {| p_args := a2of (ll_of h) args; p_b := posb (ll_of h) args; p_rest := []; p_restsym := None; p_err := None |}.
Proof.
  intros Ha. unfold build. rewrite Ha. cbn [allowsec app]. rewrite pass1_prefix. unfold a2of, posb, a1of. cbn [ll_of l_req l_opt].
  rewrite map_length, <- push_all_reqd. reflexivity.
Qed.

Lemma params_app a b : params (a ++ b) = params a ++ params b.
Proof. unfold params. apply flat_map_app. Qed.
Lemma params_vars xs : params (map Vd xs) = map fst xs.
Proof. unfold params. induction xs as [|[x d] xs IH]; cbn; [reflexivity|f_equal; exact IH]. Qed.
Lemma params_vsec p o : (forall x, p <> PVar x) -> params (vsec p o) = map fst (vars o).
Proof.
  intros Hp. destruct o as [[df vs]|]; [|reflexivity]. cbn [vsec vars]. change (Mk' p df :: map Vd vs) with ([Mk' p df] ++ map Vd vs).
  rewrite params_app, params_vars. destruct p; try reflexivity. exfalso. eapply Hp. reflexivity.
Qed.
Lemma params_build h : params (build h) = names (ll_of h).
Proof.
  unfold build, names. rewrite !params_app, params_vars, !params_vsec by discriminate. cbn [ll_of l_req l_opt l_aux].
  f_equal. f_equal. unfold restl, keysl. cbn [ll_of l_rest l_key].
  destruct (h_rest h) as [[df [r dr]]|], (h_key h) as [[dk ks]|], (h_allow h); reflexivity.
Qed.

Lemma restvars_restl h : rest_nodef h -> restvars (h_rest h) = restl (ll_of h).
Proof. unfold rest_nodef, restl. cbn [ll_of l_rest]. destruct (h_rest h) as [[df [r dr]]|]; [intros ->; reflexivity|reflexivity]. Qed.

Lemma keysl_ll_of h : keysl (ll_of h) = vars (h_key h).
Proof. unfold keysl. cbn [ll_of l_key]. destruct (h_key h) as [[dk ks]|]; reflexivity. Qed.

(* when pass 1 consumed every argument, the body sees scope2 *)
Lemma bind_M_bound h args ps st : h_allow h = None -> rest_nodef h ->
  pass1 (build h) MReq (st0 args) = st -> p_err st = None -> p_args st = [] ->
  match p_rest st, p_restsym st with _ :: _, Some r => bind (p_b st) r (VList (p_rest st)) | _, _ => p_b st end = scope1 (ll_of h) ps args ->
  bind_M (build h) args =
  OBound (map (fun x => (x, match lookup (scope2 (ll_of h) ps args) x with Some v => v | None => VUnbound end)) (names (ll_of h))).
Proof.
  intros Ha Hrd Hst He Hargs Hsc. unfold bind_M. fold (st0 args). cbv zeta. rewrite Hst, He, Hargs, Hsc, pass2_build by exact Ha.
  rewrite params_build, restvars_restl by exact Hrd. unfold scope2. rewrite keysl_ll_of. reflexivity.
Qed.

Lemma no_dup_keys_cons k a ps : no_dup_keys ((k, a) :: ps) = negb (existsb (fun p => N.eqb (fst p) k) ps) && no_dup_keys ps.
Proof. reflexivity. Qed.
Lemma no_dup_keys_NoDup ps : no_dup_keys ps = true -> NoDup (map fst ps).
Proof.
  induction ps as [|[k a] ps IH]; intros H; [constructor|]. rewrite no_dup_keys_cons in H. apply andb_true_iff in H as [H1 H2].
  cbn [map fst]. constructor; [|apply IH; exact H2]. intros Hi. apply negb_true_iff in H1.
  apply in_map_iff in Hi as (p & Ep & Hp). assert (Hx : existsb (fun p => N.eqb (fst p) k) ps = true) by (apply existsb_exists; exists p; split; [exact Hp|rewrite Ep; apply N.eqb_refl]).
  congruence.
Qed.
Lemma known_keys_in ks (ps : list (N * arg)) :
  forallb (fun p => existsb (fun kd : N * option Z => N.eqb (fst kd) (fst p)) ks) ps = true ->
  forall k, In k (map fst ps) -> In k (map fst ks).
Proof.
  intros H k Hi. apply in_map_iff in Hi as (p & <- & Hp). rewrite forallb_forall in H. specialize (H p Hp).
  apply existsb_exists in H as (kd & Hkd & E). apply N.eqb_eq in E. apply in_map_iff. exists kd. auto.
Qed.

Lemma reorder_specl h ps args : NoDup (names (ll_of h)) -> (length (l_req (ll_of h)) <= length args)%nat ->
  reorder (build h) (OBound (specl (ll_of h) ps args)) = OBound (specl (ll_of h) ps args).
Proof.
  intros Hnd Hlen. cbn [reorder]. f_equal. rewrite params_build, <- (specl_keys (ll_of h) ps args Hlen). apply reorder_id.
  rewrite specl_keys by exact Hlen. exact Hnd.
Qed.

Lemma bind_M_err ds args st k : pass1 ds MReq (st0 args) = st -> p_err st = Some k -> bind_M ds args = OErr k.
Proof. intros Hst He. unfold bind_M. fold (st0 args). cbv zeta. rewrite Hst, He. reflexivity. Qed.
Lemma bind_M_toomany ds args st : pass1 ds MReq (st0 args) = st -> p_err st = None -> p_args st <> [] -> bind_M ds args = OErr KTooMany.
Proof. intros Hst He Ha. unfold bind_M. fold (st0 args). cbv zeta. rewrite Hst, He. destruct (p_args st); [congruence|reflexivity]. Qed.

Lemma key_pairs_nonempty fuel a rem ps : key_pairs fuel (a :: rem) = Some ps -> ps <> [].
Proof.
  destruct fuel; cbn; [discriminate|]. destruct a; try discriminate. destruct rem; [discriminate|].
  destruct (key_pairs fuel rem); [|discriminate]. intros H. injection H as <-. discriminate.
Qed.

(* ---------- the binder meets the specification on every lambda list made of sections ---------- *)
Theorem binder_shape h args :
  NoDup (names (ll_of h)) -> rest_nodef h -> guard_l (ll_of h) args = true ->
  bind_M (build h) args = reorder (build h) (bind_S (ll_of h) args) \/
  (bind_M (build h) args = OErr KTooMany /\ bind_S (ll_of h) args = OErr KBadKey /\ l_key (ll_of h) = Some [] /\ l_aux (ll_of h) = []).
Proof.
  intros Hnd Hrd Hg. unfold guard_l in Hg.
  apply andb_true_iff in Hg as [Hg Hkey]. apply andb_true_iff in Hg as [Hg Hrest]. apply andb_true_iff in Hg as [Hg Hal].
  apply andb_true_iff in Hg as [Hlen Hrk]. apply Nat.leb_le in Hlen.
  fold (a2of (ll_of h) args) in Hrest, Hkey.
  assert (Ha : h_allow h = None) by (destruct (h_allow h) eqn:E; [cbn [ll_of l_allow] in Hal; rewrite E in Hal; discriminate|reflexivity]).
  assert (Hm : posmode (match h_opt h with Some _ => MOpt | None => MReq end)) by (destruct (h_opt h); [right|left]; reflexivity).
  rewrite (bind_S_sections _ _ Hlen).
  pose proof (pass1_build h args Ha) as Hp1.
  destruct (a2of (ll_of h) args) as [|a rem] eqn:Ea2.
  - (* all arguments are consumed by the positional parameters *)
    left. rewrite (pass1_noargs (restsec _ ++ _)) in Hp1 by reflexivity.
    rewrite (bind_M_bound h args [] _ Ha Hrd Hp1 eq_refl eq_refl).
    2:{ cbn [p_rest p_restsym p_b]. unfold scope1. rewrite Ea2. destruct (l_rest (ll_of h)); reflexivity. }
    rewrite scope_reorder; [| exact Hnd | exact Hlen | intros k [] | constructor].
    destruct (l_key (ll_of h)) as [ks|] eqn:Ek.
    + cbn [length key_pairs forallb negb]. rewrite andb_false_r. symmetry. apply reorder_specl; assumption.
    + destruct (l_rest (ll_of h)); symmetry; apply reorder_specl; assumption.
  - cbn [ll_of l_key l_rest l_aux] in Hrk, Hrest, Hkey |- *.
    destruct (h_rest h) as [[df [r dr]]|] eqn:Er, (h_key h) as [[dk ks]|] eqn:Ek; cbn [restsec vsec app] in Hp1.
    + discriminate.
    + (* &rest: every remaining argument goes to the rest list *)
      left. rewrite pass1_restsec in Hp1 by (try exact Hm; try exact Hrest; discriminate).
      rewrite (bind_M_bound h args [] _ Ha Hrd Hp1 eq_refl eq_refl).
      2:{ cbn [p_rest p_restsym p_b]. unfold scope1. cbn [ll_of l_rest]. rewrite Er, Ea2. reflexivity. }
      rewrite scope_reorder; [| exact Hnd | exact Hlen | intros k [] | constructor].
      symmetry; apply reorder_specl; assumption.
    + (* &key: the remaining arguments are keyword/value pairs *)
      rewrite pass1_keysec in Hp1 by (try exact Hm; discriminate).
      destruct (key_pairs (S (length (a :: rem))) (a :: rem)) as [ps|] eqn:Ekp.
      * left. apply andb_true_iff in Hkey as [Hkn Hndk].
        assert (Hks : map Vd ks ++ vsec PAux (h_aux h) <> []).
        { pose proof (key_pairs_nonempty _ _ _ _ Ekp) as Hpn. destruct ps as [|p ps]; [congruence|].
          cbn [forallb] in Hkn. apply andb_true_iff in Hkn as [Hk1 _]. destruct ks; [discriminate|discriminate]. }
        destruct (map Vd ks ++ vsec PAux (h_aux h)) as [|d tl]; [congruence|].
        rewrite (key_loop_pairs _ _ _ _ Ekp) in Hp1.
        rewrite (bind_M_bound h args ps _ Ha Hrd Hp1 eq_refl eq_refl).
        2:{ cbn [p_rest p_restsym p_b]. unfold scope1. cbn [ll_of l_rest]. rewrite Er. reflexivity. }
        rewrite scope_reorder; [| exact Hnd | exact Hlen | | apply no_dup_keys_NoDup; exact Hndk].
        2:{ unfold keysl. cbn [ll_of l_key]. rewrite Ek. apply known_keys_in. exact Hkn. }
        rewrite Hkn. cbn [negb]. rewrite andb_false_r. symmetry; apply reorder_specl; assumption.
      * assert (Hnk : match a with AKw _ => False | _ => True end) by (destruct a; [exact I|discriminate|exact I]).
        destruct (map Vd ks ++ vsec PAux (h_aux h)) as [|d tl] eqn:Etl.
        -- right. split; [apply (bind_M_toomany _ _ _ Hp1); [reflexivity|discriminate]|]. split; [reflexivity|].
           apply app_eq_nil in Etl as [E1 E2]. apply map_eq_nil in E1. subst ks.
           split; [reflexivity|]. destruct (h_aux h) as [[da aux]|]; [discriminate|reflexivity].
        -- left. cbn [reorder]. destruct a as [z|k|]; [|destruct Hnk|]; cbn [key_loop length] in Hp1; apply (bind_M_err _ _ _ _ Hp1); reflexivity.
    + (* neither: too many arguments *)
      left. rewrite pass1_auxsec in Hp1 by (try exact Hm; reflexivity).
      cbn [reorder]. apply (bind_M_toomany _ _ _ Hp1); [reflexivity|discriminate].
Qed.

(* ---------- from sections back to arbitrary lambda lists ---------- *)
Lemma rest_plain_app a : forall b, rest_plain (a ++ b) = true -> rest_plain b = true.
Proof.
  induction a as [|d a IH]; intros b H; [exact H|]. cbn [app rest_plain] in H. apply andb_true_iff in H as [_ H]. apply IH. exact H.
Qed.
Lemma rest_plain_nodef h : rest_plain (build h) = true -> rest_nodef h.
Proof.
  unfold build. intros H. apply rest_plain_app in H. apply rest_plain_app in H. unfold rest_nodef.
  destruct (h_rest h) as [[df [r dr]]|]; [|exact I]. cbn in H. destruct dr; [discriminate|reflexivity].
Qed.

(* THE REFINEMENT THEOREM: for every lambda list the parser accepts (required, &optional, &rest, &key, &aux
   sections) with distinct parameter names and a plain &rest variable, and every argument vector inside the
   guard, the two-pass binder model yields exactly the outcome of the specification; the only divergence
   is the kind of the rejection for a lambda list whose &key section is empty (and without &aux) called with a
   left-over non-keyword argument: the code says "too many arguments", the specification "bad key". *)
Theorem binder_meets_spec_guard ds l args :
  parse_ll ds = Some l -> NoDup (params ds) -> rest_plain ds = true -> in_domain ds args = true ->
  bind_M ds args = reorder ds (bind_S l args) \/
  (bind_M ds args = OErr KTooMany /\ bind_S l args = OErr KBadKey /\ l_key l = Some [] /\ l_aux l = []).
Proof.
  intros Hp Hnd Hrp Hg. unfold in_domain in Hg. rewrite Hp in Hg.
  destruct (parse_shape ds l Hp) as (h & -> & ->).
  apply binder_shape; [rewrite <- params_build; exact Hnd|apply rest_plain_nodef; exact Hrp|exact Hg].
Qed.

Lemma arg_eqb_refl a : arg_eqb a a = true.
Proof. destruct a; cbn; [apply Z.eqb_refl|apply N.eqb_refl|reflexivity]. Qed.
Lemma list_eqb_refl {A} (eqb : A -> A -> bool) : (forall x, eqb x x = true) -> forall l, list_eqb eqb l l = true.
Proof. intros H. induction l as [|x l IH]; cbn; [reflexivity|]. rewrite H, IH. reflexivity. Qed.
Lemma value_eqb_refl v : value_eqb v v = true.
Proof. destruct v; cbn; [apply Z.eqb_refl|apply N.eqb_refl|apply list_eqb_refl; exact arg_eqb_refl|reflexivity|reflexivity]. Qed.
Lemma outcome_eqv_refl o : outcome_eqv o o = true.
Proof.
  destruct o as [b|[]]; cbn; try reflexivity. apply list_eqb_refl. intros [x v]. cbn. rewrite N.eqb_refl, value_eqb_refl. reflexivity.
Qed.

(* the form evaluated by the correspondence on every run (Corr.check_case, code 3) *)
Corollary binder_meets_spec_eqv ds l args :
  parse_ll ds = Some l -> NoDup (params ds) -> rest_plain ds = true -> in_domain ds args = true ->
  outcome_eqv (reorder ds (bind_S l args)) (bind_M ds args) = true.
Proof.
  intros Hp Hnd Hrp Hg. destruct (binder_meets_spec_guard ds l args Hp Hnd Hrp Hg) as [-> | (-> & -> & _)]; [apply outcome_eqv_refl|reflexivity].
Qed.

(* without &key the outcomes are equal *)
Lemma in_domain_len ds l args : parse_ll ds = Some l -> in_domain ds args = true -> (length (l_req l) <= length args)%nat.
Proof.
  intros Hp Hg. unfold in_domain in Hg. rewrite Hp in Hg. unfold guard_l in Hg. rewrite !andb_true_iff in Hg.
  apply Nat.leb_le. tauto.
Qed.
Corollary binder_meets_spec_rest ds l args :
  parse_ll ds = Some l -> NoDup (params ds) -> rest_plain ds = true -> in_domain ds args = true -> l_key l = None ->
  bind_M ds args = reorder ds (bind_S l args).
Proof.
  intros Hp Hnd Hrp Hg Hk. destruct (binder_meets_spec_guard ds l args Hp Hnd Hrp Hg) as [E | (_ & _ & E & _)]; [exact E|congruence].
Qed.
(* with at least one &key parameter the outcomes are equal *)
Corollary binder_meets_spec_key ds l args k ks :
  parse_ll ds = Some l -> NoDup (params ds) -> rest_plain ds = true -> in_domain ds args = true -> l_key l = Some (k :: ks) ->
  bind_M ds args = reorder ds (bind_S l args).
Proof.
  intros Hp Hnd Hrp Hg Hk. destruct (binder_meets_spec_guard ds l args Hp Hnd Hrp Hg) as [E | (_ & _ & E & _)]; [exact E|congruence].
Qed.

(* ---------- what the bound parameters hold, in property terms ---------- *)
Lemma reorder_specl_ds ds l ps args : parse_ll ds = Some l -> NoDup (params ds) -> (length (l_req l) <= length args)%nat ->
  reorder ds (OBound (specl l ps args)) = OBound (specl l ps args).
Proof.
  intros Hp Hnd Hlen. destruct (parse_shape ds l Hp) as (h & -> & ->). apply reorder_specl; [rewrite <- params_build; exact Hnd|exact Hlen].
Qed.

Lemma bound_rest ds l args r :
  parse_ll ds = Some l -> NoDup (params ds) -> rest_plain ds = true -> in_domain ds args = true ->
  l_key l = None -> l_rest l = Some r -> bind_M ds args = OBound (specl l [] args).
Proof.
  intros Hp Hnd Hrp Hg Hk Hr. pose proof (in_domain_len ds l args Hp Hg) as Hlen.
  rewrite (binder_meets_spec_rest ds l args Hp Hnd Hrp Hg Hk), (bind_S_sections l args Hlen), Hk, Hr.
  apply reorder_specl_ds; assumption.
Qed.
Lemma bound_key ds l args ks ps :
  parse_ll ds = Some l -> NoDup (params ds) -> rest_plain ds = true -> in_domain ds args = true ->
  l_key l = Some ks -> key_pairs (S (length (skipn (length (l_req l) + length (l_opt l)) args))) (skipn (length (l_req l) + length (l_opt l)) args) = Some ps ->
  bind_M ds args = OBound (specl l ps args) /\ NoDup (map fst ps) /\ (forall k, In k (map fst ps) -> In k (map fst ks)).
Proof.
  intros Hp Hnd Hrp Hg Hk Hkp. pose proof (in_domain_len ds l args Hp Hg) as Hlen.
  assert (Hkn : forallb (fun p => existsb (fun kd => N.eqb (fst kd) (fst p)) ks) ps && no_dup_keys ps = true).
  { unfold in_domain in Hg. rewrite Hp in Hg. unfold guard_l in Hg. rewrite Hk in Hg. cbv zeta in Hg. rewrite Hkp in Hg.
    apply andb_true_iff in Hg as [_ Hg]. exact Hg. }
  apply andb_true_iff in Hkn as [Hkn Hndk].
  assert (HS : bind_S l args = OBound (specl l ps args)).
  { rewrite (bind_S_sections l args Hlen), Hk. fold (a2of l args) in Hkp. rewrite Hkp, Hkn. cbn [negb]. rewrite andb_false_r. reflexivity. }
  split; [|split; [apply no_dup_keys_NoDup; exact Hndk|apply known_keys_in; exact Hkn]].
  destruct (binder_meets_spec_guard ds l args Hp Hnd Hrp Hg) as [E | (_ & E & _)]; [|congruence].
  rewrite E, HS. apply reorder_specl_ds; assumption.
Qed.

Lemma specl_nodup ds l ps args : parse_ll ds = Some l -> NoDup (params ds) -> (length (l_req l) <= length args)%nat ->
  NoDup (map fst (specl l ps args)).
Proof.
  intros Hp Hnd Hlen. rewrite specl_keys by exact Hlen. destruct (parse_shape ds l Hp) as (h & -> & ->). rewrite <- params_build. exact Hnd.
Qed.

(* &rest without &key: the rest parameter holds all the arguments after the positional ones, in order *)
Corollary rest_collects ds l args r :
  parse_ll ds = Some l -> NoDup (params ds) -> rest_plain ds = true -> in_domain ds args = true ->
  l_key l = None -> l_rest l = Some r ->
  exists b, bind_M ds args = OBound b /\
            lookup b r = Some (match skipn (length (l_req l) + length (l_opt l)) args with [] => VNil | rem => VList rem end).
Proof.
  intros Hp Hnd Hrp Hg Hk Hr. pose proof (in_domain_len ds l args Hp Hg) as Hlen.
  exists (specl l [] args). split; [eapply bound_rest; eassumption|].
  apply lookup_in; [eapply specl_nodup; eassumption|]. unfold specl, restl. rewrite Hr. rewrite !in_app_iff. right. right. left.
  left. unfold a2of. cbn [fst]. destruct (skipn (length (l_req l) + length (l_opt l)) args); reflexivity.
Qed.

Lemma first_pair_in k v ps : NoDup (map fst ps) -> In (k, v) ps -> first_pair k ps = Some v.
Proof.
  induction ps as [|[k' v'] ps IH]; intros Hnd Hin; [destruct Hin|]. cbn in *. inversion Hnd as [|? ? Hni Hnd']; subst.
  destruct Hin as [E|Hin]; [injection E as -> ->; rewrite N.eqb_refl; reflexivity|].
  destruct (N.eqb_spec k k') as [->|Hn]; [exfalso; apply Hni; apply in_map_iff; exists (k', v); auto|]. apply IH; assumption.
Qed.

(* &key: every key parameter holds the value supplied with its keyword, wherever the pair stands among the
   key arguments, and its default when the keyword is absent *)
Corollary key_by_name ds l args ks ps k d :
  parse_ll ds = Some l -> NoDup (params ds) -> rest_plain ds = true -> in_domain ds args = true ->
  l_key l = Some ks -> key_pairs (S (length (skipn (length (l_req l) + length (l_opt l)) args))) (skipn (length (l_req l) + length (l_opt l)) args) = Some ps ->
  In (k, d) ks ->
  exists b, bind_M ds args = OBound b /\
            (forall v, In (k, v) ps -> lookup b k = Some (arg_val v)) /\
            (~ In k (map fst ps) -> lookup b k = Some (def_val d)).
Proof.
  intros Hp Hnd Hrp Hg Hk Hkp Hin. pose proof (in_domain_len ds l args Hp Hg) as Hlen.
  destruct (bound_key ds l args ks ps Hp Hnd Hrp Hg Hk Hkp) as (HM & Hndk & _).
  exists (specl l ps args). split; [exact HM|].
  assert (HL : lookup (specl l ps args) k = Some (match first_pair k ps with Some v => arg_val v | None => def_val d end)).
  { apply lookup_in; [eapply specl_nodup; eassumption|]. unfold specl, keysl. rewrite Hk. rewrite !in_app_iff. right. right. right. left.
    apply in_map_iff. exists (k, d). split; [reflexivity|exact Hin]. }
  split.
  - intros v Hv. rewrite HL, (first_pair_in k v ps Hndk Hv). reflexivity.
  - intros Hni. rewrite HL, (first_pair_notin k ps Hni). reflexivity.
Qed.

(* ---------- non-vacuity: &rest and &key lambda lists inside the guard ---------- *)
Lemma guard_examples_rest_key :
  let ds_r := [D 0; Mk POptional; {| d_name := PVar 1; d_def := Some 7%Z |}; Mk PRest; D 2; Mk PAux; {| d_name := PVar 3; d_def := Some 9%Z |}] in
  let ds_k := [D 0; Mk PKey; {| d_name := PVar 1; d_def := Some 5%Z |}; D 2; Mk PAux; {| d_name := PVar 3; d_def := Some 9%Z |}] in
  in_domain ds_r [AInt 1%Z; AInt 2%Z; AKw 8; AInt 4%Z] = true /\ NoDup (params ds_r) /\ rest_plain ds_r = true /\
  bind_M ds_r [AInt 1%Z; AInt 2%Z; AKw 8; AInt 4%Z] = OBound [(0, VInt 1); (1, VInt 2); (2, VList [AKw 8; AInt 4%Z]); (3, VInt 9)] /\
  bind_M ds_r [AInt 1%Z] = OBound [(0, VInt 1); (1, VInt 7); (2, VNil); (3, VInt 9)] /\
  in_domain ds_k [AInt 1%Z; AKw 2; AInt 8%Z; AKw 1; ANil] = true /\ NoDup (params ds_k) /\ rest_plain ds_k = true /\
  bind_M ds_k [AInt 1%Z; AKw 2; AInt 8%Z; AKw 1; ANil] = OBound [(0, VInt 1); (1, VNil); (2, VInt 8); (3, VInt 9)] /\
  in_domain ds_k [AInt 1%Z; AInt 2%Z] = true /\ bind_M ds_k [AInt 1%Z; AInt 2%Z] = OErr KBadKey /\
  (* the corner where only the kind of rejection differs *)
  in_domain [Mk PKey] [AInt 1%Z] = true /\ bind_M [Mk PKey] [AInt 1%Z] = OErr KTooMany /\ spec_of [Mk PKey] [AInt 1%Z] = Some (OErr KBadKey).
Proof.
  cbv zeta. repeat split; try (vm_compute; reflexivity); cbn [params flat_map D Mk d_name app]; repeat constructor; cbn; intuition discriminate.
Qed.

Corollary rest_collects_in_order ds l args r :
  parse_ll ds = Some l -> NoDup (params ds) -> rest_plain ds = true -> in_domain ds args = true ->
  l_key l = None -> l_rest l = Some r ->
  bind_M ds args = reorder ds (bind_S l args) /\
  exists b, bind_M ds args = OBound b /\
            lookup b r = Some (match skipn (length (l_req l) + length (l_opt l)) args with [] => VNil | rem => VList rem end).
Proof.
  intros Hp Hnd Hrp Hg Hk Hr. split; [apply binder_meets_spec_rest; assumption|apply rest_collects; assumption].
Qed.
