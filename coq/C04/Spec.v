(* C04 — specification S: binding per the lambda list, as the language defines it. *)
From C04 Require Export Model.

Record llist := {
  l_req : list N;
  l_opt : list (N * option Z);
  l_rest : option N;
  l_key : option (list (N * option Z));     (* None: no &key section *)
  l_allow : bool;
  l_aux : list (N * option Z) }.

(* sections of a well-formed lambda list, in the standard order *)
Fixpoint take_vars (ds : list docarg) : list (N * option Z) * list docarg :=
  match ds with
  | d :: ds' => match d_name d with
                | PVar x => let '(vs, r) := take_vars ds' in ((x, d_def d) :: vs, r)
                | _ => ([], ds)
                end
  | [] => ([], [])
  end.
Definition parse_ll (ds : list docarg) : option llist :=
  let '(req, r1) := take_vars ds in
  let '(opt, r2) := match r1 with d :: r => match d_name d with POptional => take_vars r | _ => ([], r1) end | [] => ([], []) end in
  let '(rest, r3) := match r2 with
                     | d :: d2 :: r => match d_name d, d_name d2 with PRest, PVar x => (Some x, r) | _, _ => (None, r2) end
                     | _ => (None, r2) end in
  let '(key, r4) := match r3 with d :: r => match d_name d with PKey => let '(ks, r') := take_vars r in (Some ks, r') | _ => (None, r3) end | [] => (None, []) end in
  let '(allow, r5) := match r4 with d :: r => match d_name d with PAllow => (true, r) | _ => (false, r4) end | [] => (false, []) end in
  let '(aux, r6) := match r5 with d :: r => match d_name d with PAux => take_vars r | _ => ([], r5) end | [] => ([], []) end in
  match r6 with
  | [] => Some {| l_req := map fst req; l_opt := opt; l_rest := rest; l_key := key; l_allow := allow; l_aux := aux |}
  | _ => None
  end.

(* well-formedness beyond the section order: the variable after &rest is a plain symbol, without a default
   (slip's DefLambda accepts (&rest (r 5)) and then uses 5 as the value of an empty rest list) *)
Fixpoint rest_plain (ds : list docarg) : bool :=
  match ds with
  | d :: ds' => (match d_name d, ds' with
                 | PRest, d2 :: _ => match d_def d2 with Some _ => false | None => true end
                 | _, _ => true end) && rest_plain ds'
  | [] => true
  end.

(* positional: required *)
Fixpoint bind_req (xs : list N) (args : list arg) : option (list (N * value) * list arg) :=
  match xs with
  | [] => Some ([], args)
  | x :: xs' => match args with
                | [] => None                                     (* too few *)
                | a :: args' => match bind_req xs' args' with Some (b, r) => Some ((x, arg_val a) :: b, r) | None => None end
                end
  end.
(* positional: optional, defaults when absent *)
Fixpoint bind_opt (xs : list (N * option Z)) (args : list arg) : list (N * value) * list arg :=
  match xs with
  | [] => ([], args)
  | (x, d) :: xs' => match args with
                     | [] => let '(b, r) := bind_opt xs' [] in ((x, def_val d) :: b, r)
                     | a :: args' => let '(b, r) := bind_opt xs' args' in ((x, arg_val a) :: b, r)
                     end
  end.
(* keys: the remaining arguments must be keyword/value pairs; the first occurrence of a key wins *)
Fixpoint key_pairs (fuel : nat) (args : list arg) : option (list (N * arg)) :=
  match fuel with O => None | S f =>
    match args with
    | [] => Some []
    | AKw k :: v :: args' => match key_pairs f args' with Some ps => Some ((k, v) :: ps) | None => None end
    | _ => None
    end
  end.
Fixpoint first_pair (k : N) (ps : list (N * arg)) : option arg :=
  match ps with [] => None | (k', v) :: ps' => if N.eqb k k' then Some v else first_pair k ps' end.

(* a keyword argument is acceptable when it names a &key parameter or is :allow-other-keys; any keyword is
   acceptable when the lambda list has &allow-other-keys or the call passes :allow-other-keys with a true
   value (the first of several counts) - CLHS 3.4.1.4.1 *)
Definition key_known (ks : list (N * option Z)) (k : N) : bool :=
  existsb (fun kd => N.eqb (fst kd) k) ks || N.eqb k allow_kw.
Definition keys_allowed (l : llist) (ps : list (N * arg)) : bool :=
  l_allow l || match first_pair allow_kw ps with Some ANil => false | Some _ => true | None => false end.

Definition bind_S (l : llist) (args : list arg) : outcome :=
  match bind_req (l_req l) args with
  | None => OErr KTooFew
  | Some (breq, r1) =>
      let '(bopt, r2) := bind_opt (l_opt l) r1 in
      let brest := match l_rest l with Some x => [(x, match r2 with [] => VNil | _ => VList r2 end)] | None => [] end in
      let baux := map (fun xd => (fst xd, def_val (snd xd))) (l_aux l) in
      match l_key l with
      | None => match l_rest l, r2 with
                | None, _ :: _ => OErr KTooMany
                | _, _ => OBound (breq ++ bopt ++ brest ++ baux)
                end
      | Some ks =>
          match key_pairs (S (length r2)) r2 with
          | None => OErr KBadKey
          | Some ps =>
              if negb (keys_allowed l ps) && negb (forallb (fun p => key_known ks (fst p)) ps) then OErr KBadKey
              else OBound (breq ++ bopt ++ brest ++
                           map (fun kd => (fst kd, match first_pair (fst kd) ps with Some v => arg_val v | None => def_val (snd kd) end)) ks ++ baux)
          end
      end
  end.

(* ---- which default forms are evaluated ----
   A default form is evaluated exactly when its parameter gets no argument: the &optional parameters beyond the
   supplied positional arguments, the &key parameters whose keyword is not among the key arguments, every &aux
   parameter - from left to right, and none at all when the call is rejected. *)
Definition has_def (xd : N * option Z) : bool := match snd xd with Some _ => true | None => false end.
Definition pairs_of (l : llist) (args : list arg) : list (N * arg) :=
  match l_key l with
  | Some _ => let r2 := skipn (length (l_req l) + length (l_opt l)) args in
              match key_pairs (S (length r2)) r2 with Some ps => ps | None => [] end
  | None => []
  end.
Definition evals_S (l : llist) (args : list arg) : list N :=
  match bind_S l args with
  | OErr _ => []
  | OBound _ =>
      map fst (filter has_def (skipn (length args - length (l_req l)) (l_opt l))) ++
      map fst (filter (fun kd => has_def kd && match first_pair (fst kd) (pairs_of l args) with Some _ => false | None => true end)
                      (match l_key l with Some ks => ks | None => [] end)) ++
      map fst (filter has_def (l_aux l))
  end.

(* ---- the guard ---- *)
(* The one place left where the repaired binder does not bind as the language prescribes: a lambda list with
   both &rest and &key.  slip ends the rest list where the keyword arguments begin (its own TestDynamicAmps
   asserts ((lambda (x &optional y &rest z &key k1 k2) ...) 1 2 3 4 :k1 5) => z = (3 4)); the language puts
   ALL the remaining arguments in the rest list and takes the keys from that same list.  The two agree when
   no argument is left after the positional ones. *)
Definition guard_l (l : llist) (args : list arg) : bool :=
  match l_rest l, l_key l with
  | Some _, Some _ => (length args <=? length (l_req l) + length (l_opt l))%nat
  | _, _ => true
  end.
Definition in_domain (ds : list docarg) (args : list arg) : bool :=
  match parse_ll ds with
  | None => false
  | Some l => guard_l l args
  end.

(* ---- comparing outcomes ---- *)
Fixpoint list_eqb {A} (eqb : A -> A -> bool) (a b : list A) : bool :=
  match a, b with [], [] => true | x :: a', y :: b' => eqb x y && list_eqb eqb a' b' | _, _ => false end.
Definition arg_eqb (a b : arg) : bool :=
  match a, b with AInt x, AInt y => Z.eqb x y | AKw x, AKw y => N.eqb x y | ANil, ANil => true | _, _ => false end.
Definition value_eqb (a b : value) : bool :=
  match a, b with
  | VInt x, VInt y => Z.eqb x y | VKw x, VKw y => N.eqb x y | VList x, VList y => list_eqb arg_eqb x y
  | VNil, VNil | VUnbound, VUnbound => true | _, _ => false end.
Definition kind_eqb (a b : kind) : bool :=
  match a, b with KTooFew, KTooFew | KTooMany, KTooMany | KBadKey, KBadKey | KFault, KFault => true | _, _ => false end.
Definition outcome_eqb (a b : outcome) : bool :=
  match a, b with
  | OBound x, OBound y => list_eqb (fun p q => N.eqb (fst p) (fst q) && value_eqb (snd p) (snd q)) x y
  | OErr x, OErr y => kind_eqb x y
  | _, _ => false end.
(* for judging against S every non-fault rejection counts as "rejected with an error" *)
Definition outcome_eqv (a b : outcome) : bool :=
  match a, b with
  | OErr KFault, OErr KFault => true
  | OErr KFault, _ | _, OErr KFault => false
  | OErr _, OErr _ => true
  | _, _ => outcome_eqb a b end.
(* the order of parameters in the outcome: as they appear in the lambda list *)
Definition reorder (ds : list docarg) (o : outcome) : outcome :=
  match o with
  | OBound b => OBound (map (fun x => (x, match lookup b x with Some v => v | None => VUnbound end)) (params ds))
  | e => e end.
Definition spec_of (ds : list docarg) (args : list arg) : option outcome :=
  match parse_ll ds with Some l => Some (reorder ds (bind_S l args)) | None => None end.

(* ---- default forms that read an earlier parameter (round 5) ----
   CLHS 3.4.1: a default form is evaluated with every parameter to its left bound - to its argument or to the
   value of its own default form.  With distinct parameter names the value of a parameter never changes once it
   is bound, so the requirement can be stated on the outcome itself: the outcome o binds as the lambda list
   prescribes when it is the binding prescribed by the lambda list in which each form FRef y k is replaced by
   its value under the bindings of o.  (For a form that only refers to parameters on its left this determines
   o uniquely, parameter by parameter from left to right.) *)
Definition env_of (o : outcome) : N -> option value :=
  match o with OBound b => lookup b | OErr _ => fun _ => None end.
Definition litd (rho : N -> option value) (f : dform) : option Z :=
  match form_val rho f with Some v => v | None => None end.
Definition lit (rho : N -> option value) (ad : xdocarg) : docarg :=
  {| d_name := x_name ad; d_def := match x_def ad with Some f => litd rho f | None => None end |}.
Definition meets_Sx (xs : list xdocarg) (args : list arg) (o : outcome) : bool :=
  match spec_of (map (lit (env_of o)) xs) args with Some s => outcome_eqv s o | None => true end.
(* guard: every form refers to a parameter on its left (a form that names a LATER parameter reads, in the
   language, the variable outside the function) *)
Fixpoint refs_back (seen : list N) (xs : list xdocarg) : bool :=
  match xs with
  | [] => true
  | ad :: xs' =>
      (match x_def ad with Some (FRef y _) => existsb (N.eqb y) seen | _ => true end) &&
      refs_back (match x_name ad with PVar x => x :: seen | _ => seen end) xs'
  end.
Definition in_domain_x (xs : list xdocarg) (args : list arg) : bool :=
  in_domain (map strip xs) args && refs_back [] xs.
