(* C04 — proofs about the binder model. *)
From C04 Require Import Model Spec.
Open Scope N_scope.

Definition Vd (xd : N * option Z) : docarg := {| d_name := PVar (fst xd); d_def := snd xd |}.
Definition Mk (p : pname) : docarg := {| d_name := p; d_def := None |}.

(* a lambda list with required, optional and auxiliary parameters only *)
Definition build_pos (req : list N) (opt aux : list (N * option Z)) : list docarg :=
  map (fun x => Vd (x, None)) req ++
  (match opt with [] => [] | _ => Mk POptional :: map Vd opt end) ++
  (match aux with [] => [] | _ => Mk PAux :: map Vd aux end).

(* ---------- pass 1 over a run of variables ---------- *)
Definition push_all (xs : list (N * option Z)) (args : list arg) (b : list (N * value)) : list (N * value) :=
  fold_left (fun acc p => bind acc (fst (fst p)) (arg_val (snd p))) (combine xs args) b.

Lemma pass1_noargs ks al ds m st : p_args st = [] -> pass1 ks al ds m st = st.
Proof. intros H. destruct ds; cbn; [reflexivity|]. rewrite H. reflexivity. Qed.

Definition posmode (m : mode) : Prop := m = MReq \/ m = MOpt.

Lemma pass1_vars ks al xs : forall tl m args b r rs,
  posmode m ->
  pass1 ks al (map Vd xs ++ tl) m {| p_args := args; p_b := b; p_rest := r; p_restsym := rs; p_err := None |} =
  let st' := {| p_args := skipn (length xs) args; p_b := push_all xs args b; p_rest := r; p_restsym := rs; p_err := None |} in
  if (length args <=? length xs)%nat then st' else pass1 ks al tl m st'.
Proof.
  induction xs as [|[x d] xs IH]; intros tl m args b r rs Hm.
  - cbn [map app length skipn push_all combine fold_left]. destruct args; cbn; [apply pass1_noargs; reflexivity|reflexivity].
  - cbn [map app]. destruct args as [|a args].
    + cbn. reflexivity.
    + cbn [pass1 p_args p_err Vd d_name fst]. 
      assert (E : pass1 ks al (map Vd xs ++ tl) m {| p_args := args; p_b := bind b x (arg_val a); p_rest := r; p_restsym := rs; p_err := None |} =
                  (let st' := {| p_args := skipn (length xs) args; p_b := push_all xs args (bind b x (arg_val a)); p_rest := r; p_restsym := rs; p_err := None |} in
                   if (length args <=? length xs)%nat then st' else pass1 ks al tl m st')) by (apply IH; exact Hm).
      destruct Hm as [-> | ->]; cbn [p_b p_rest p_restsym]; rewrite E; reflexivity.
Qed.

(* ---------- lookups ---------- *)
Lemma lookup_bind_same b x v : lookup (bind b x v) x = Some v.
Proof. cbn. rewrite N.eqb_refl. reflexivity. Qed.
Lemma lookup_bind_other b x y v : x <> y -> lookup (bind b y v) x = lookup b x.
Proof. intros H. cbn. apply N.eqb_neq in H. rewrite H. reflexivity. Qed.

Lemma lookup_push_all_notin xs : forall args b x, ~ In x (map fst (firstn (length args) xs)) -> lookup (push_all xs args b) x = lookup b x.
Proof.
  unfold push_all. induction xs as [|[y d] xs IH]; intros args b x H; [reflexivity|].
  destruct args as [|a args]; [reflexivity|]. cbn [combine fold_left fst snd]. cbn in H.
  rewrite IH by (intros Hi; apply H; right; exact Hi). apply lookup_bind_other. intros ->. apply H. left. reflexivity.
Qed.
Lemma in_firstn {A} n : forall (l : list A) x, In x (firstn n l) -> In x l.
Proof. induction n as [|n IH]; intros [|y l] x H; cbn in *; try tauto. destruct H; [left; assumption|right; apply IH; assumption]. Qed.
Lemma lookup_push_all_in xs : forall args b i x d a,
  NoDup (map fst xs) -> nth_error xs i = Some (x, d) -> nth_error args i = Some a ->
  lookup (push_all xs args b) x = Some (arg_val a).
Proof.
  unfold push_all. induction xs as [|[y dy] xs IH]; intros args b i x d a Hnd Hx Ha; [destruct i; discriminate|].
  destruct args as [|a0 args]; [destruct i; discriminate|]. cbn [combine fold_left fst snd]. inversion Hnd as [|? ? Hni Hnd']; subst.
  destruct i as [|i]; cbn in Hx, Ha.
  - injection Hx as -> _. injection Ha as ->.
    fold (push_all xs args (bind b x (arg_val a))). rewrite lookup_push_all_notin; [apply lookup_bind_same|].
    intros Hi. apply Hni. apply in_map_iff in Hi as ((z & dz) & <- & Hz). apply in_map_iff. exists (z, dz). split; [reflexivity|].
    eapply in_firstn. exact Hz.
  - eapply IH; eassumption.
Qed.

(* ---------- pass 2 over runs of variables ---------- *)
Lemma pass2_req_vars xs : forall tl b, pass2 (map Vd xs ++ tl) M2Req b = pass2 tl M2Req b.
Proof. induction xs as [|[x d] xs IH]; intros tl b; cbn; [reflexivity|apply IH]. Qed.
Definition defaults (xs : list (N * option Z)) (b : list (N * value)) : list (N * value) :=
  fold_left (fun acc xd => default_if_unbound acc (fst xd) (snd xd)) xs b.
Lemma pass2_opt_vars xs : forall tl b, pass2 (map Vd xs ++ tl) M2Opt b = pass2 tl M2Opt (defaults xs b).
Proof. induction xs as [|[x d] xs IH]; intros tl b; cbn; [reflexivity|apply IH]. Qed.
Definition auxbinds (xs : list (N * option Z)) (b : list (N * value)) : list (N * value) :=
  fold_left (fun acc xd => bind acc (fst xd) (def_val (snd xd))) xs b.
Lemma pass2_aux_vars xs : forall b, pass2 (map Vd xs) M2Aux b = auxbinds xs b.
Proof. induction xs as [|[x d] xs IH]; intros b; cbn; [reflexivity|apply IH]. Qed.

Lemma lookup_defaults_notin xs : forall b x, ~ In x (map fst xs) -> lookup (defaults xs b) x = lookup b x.
Proof.
  unfold defaults. induction xs as [|[y d] xs IH]; intros b x H; [reflexivity|]. cbn [fold_left fst snd]. cbn in H.
  rewrite IH by (intros Hi; apply H; right; exact Hi). unfold default_if_unbound. destruct (lookup b y); [reflexivity|]. apply lookup_bind_other. intros ->. apply H. left. reflexivity.
Qed.
Lemma lookup_defaults_in xs : forall b x d, NoDup (map fst xs) -> In (x, d) xs ->
  lookup (defaults xs b) x = match lookup b x with Some v => Some v | None => Some (def_val d) end.
Proof.
  unfold defaults. induction xs as [|[y dy] xs IH]; intros b x d Hnd Hin; [destruct Hin|]. cbn [fold_left fst snd].
  inversion Hnd as [|? ? Hni Hnd']; subst. destruct Hin as [E|Hin].
  - injection E as -> ->. fold (defaults xs (default_if_unbound b x d)). rewrite lookup_defaults_notin by exact Hni.
    unfold default_if_unbound. destruct (lookup b x) eqn:El; [exact El|apply lookup_bind_same].
  - rewrite (IH _ x d Hnd' Hin). assert (x <> y) by (intros ->; apply Hni; apply in_map_iff; exists (y, d); auto).
    unfold default_if_unbound. destruct (lookup b y); [reflexivity|]. rewrite lookup_bind_other by assumption. reflexivity.
Qed.
Lemma lookup_auxbinds_notin xs : forall b x, ~ In x (map fst xs) -> lookup (auxbinds xs b) x = lookup b x.
Proof.
  unfold auxbinds. induction xs as [|[y d] xs IH]; intros b x H; [reflexivity|]. cbn [fold_left fst snd]. cbn in H.
  rewrite IH by (intros Hi; apply H; right; exact Hi). apply lookup_bind_other. intros ->. apply H. left. reflexivity.
Qed.
Lemma lookup_auxbinds_in xs : forall b x d, NoDup (map fst xs) -> In (x, d) xs -> lookup (auxbinds xs b) x = Some (def_val d).
Proof.
  unfold auxbinds. induction xs as [|[y dy] xs IH]; intros b x d Hnd Hin; [destruct Hin|]. cbn [fold_left fst snd].
  inversion Hnd as [|? ? Hni Hnd']; subst. destruct Hin as [E|Hin].
  - injection E as -> ->. fold (auxbinds xs (bind b x (def_val d))). rewrite lookup_auxbinds_notin by exact Hni. apply lookup_bind_same.
  - apply (IH _ x d Hnd' Hin).
Qed.

(* ---------- required + optional + aux: the code binds exactly as the lambda list prescribes ---------- *)
Definition pos_ll (req : list N) (opt aux : list (N * option Z)) : llist :=
  {| l_req := req; l_opt := opt; l_rest := None; l_key := None; l_allow := false; l_aux := aux |}.

(* what every parameter must be bound to *)
Definition expect_pos (req : list N) (opt aux : list (N * option Z)) (args : list arg) (x : N) : option value :=
  match find (fun p => N.eqb (fst p) x) (combine req args) with
  | Some (_, a) => Some (arg_val a)
  | None =>
      match find (fun p => N.eqb (fst (fst p)) x) (combine opt (skipn (length req) args)) with
      | Some (_, a) => Some (arg_val a)
      | None =>
          match find (fun p => N.eqb (fst p) x) (skipn (length args - length req) opt) with
          | Some (_, d) => Some (def_val d)
          | None => match find (fun p => N.eqb (fst p) x) aux with Some (_, d) => Some (def_val d) | None => None end
          end
      end
  end.

Lemma params_build_pos req opt aux : params (build_pos req opt aux) = req ++ map fst opt ++ map fst aux.
Proof.
  unfold build_pos, params. rewrite !flat_map_app. f_equal; [|f_equal].
  - induction req; cbn; [reflexivity|f_equal; assumption].
  - destruct opt as [|o opt]; [reflexivity|]. cbn [flat_map Mk d_name app]. induction (o :: opt) as [|[x d] l IH]; cbn; [reflexivity|f_equal; assumption].
  - destruct aux as [|o aux]; [reflexivity|]. cbn [flat_map Mk d_name app]. induction (o :: aux) as [|[x d] l IH]; cbn; [reflexivity|f_equal; assumption].
Qed.

(* the specification's bindings for such a lambda list *)
Definition spec_pos (req : list N) (opt aux : list (N * option Z)) (args : list arg) : list (N * value) :=
  map (fun p => (fst p, arg_val (snd p))) (combine req args) ++
  fst (bind_opt opt (skipn (length req) args)) ++
  map (fun xd => (fst xd, def_val (snd xd))) aux.

Lemma bind_req_enough req : forall args, (length req <= length args)%nat ->
  bind_req req args = Some (map (fun p => (fst p, arg_val (snd p))) (combine req args), skipn (length req) args).
Proof.
  induction req as [|x req IH]; intros args H; [reflexivity|]. destruct args as [|a args]; [cbn in H; lia|].
  cbn [bind_req]. rewrite IH by (cbn in H; lia). reflexivity.
Qed.
Lemma bind_opt_rest opt : forall args, snd (bind_opt opt args) = skipn (length opt) args.
Proof.
  induction opt as [|[x d] opt IH]; intros args; [reflexivity|]. destruct args as [|a args]; cbn [bind_opt].
  - specialize (IH []). destruct (bind_opt opt []) as [b r]. cbn in *. rewrite IH. destruct (length opt); reflexivity.
  - specialize (IH args). destruct (bind_opt opt args) as [b r]. cbn in *. exact IH.
Qed.

Lemma bind_S_pos req opt aux args : (length req <= length args)%nat ->
  bind_S (pos_ll req opt aux) args =
    if (length req + length opt <? length args)%nat then OErr KTooMany else OBound (spec_pos req opt aux args).
Proof.
  intros H. unfold bind_S, pos_ll. cbn [l_req l_opt l_rest l_key l_aux]. rewrite (bind_req_enough req args H).
  pose proof (bind_opt_rest opt (skipn (length req) args)) as Hr.
  destruct (bind_opt opt (skipn (length req) args)) as [bopt r2] eqn:Eo. cbn [snd] in Hr. cbn [app].
  assert (Hlen : length r2 = (length args - length req - length opt)%nat) by (rewrite Hr, !skipn_length; reflexivity).
  destruct (Nat.ltb_spec (length req + length opt) (length args)) as [Hm|Hm].
  - destruct r2; [cbn in Hlen; lia|reflexivity].
  - destruct r2 as [|a r2]; [|cbn in Hlen; lia]. unfold spec_pos. rewrite Eo. reflexivity.
Qed.

Lemma lookup_app_l (a b : list (N * value)) x v : lookup a x = Some v -> lookup (a ++ b) x = Some v.
Proof. induction a as [|[y w] a IH]; cbn; [discriminate|]. destruct (N.eqb x y); auto. Qed.
Lemma lookup_app_r (a b : list (N * value)) x : ~ In x (map fst a) -> lookup (a ++ b) x = lookup b x.
Proof.
  induction a as [|[y w] a IH]; cbn; [reflexivity|]. intros H. destruct (N.eqb_spec x y) as [->|Hn]; [exfalso; apply H; left; reflexivity|].
  apply IH. intros Hi. apply H. right. exact Hi.
Qed.
Lemma lookup_in (l : list (N * value)) x v : NoDup (map fst l) -> In (x, v) l -> lookup l x = Some v.
Proof.
  induction l as [|[y w] l IH]; intros Hnd Hin; [destruct Hin|]. cbn. inversion Hnd as [|? ? Hni Hnd']; subst.
  destruct Hin as [E|Hin]; [injection E as -> ->; rewrite N.eqb_refl; reflexivity|].
  destruct (N.eqb_spec x y) as [->|Hn]; [exfalso; apply Hni; apply in_map_iff; exists (y, v); auto|]. apply IH; assumption.
Qed.
Lemma reorder_id (l : list (N * value)) : NoDup (map fst l) ->
  map (fun x => (x, match lookup l x with Some v => v | None => VUnbound end)) (map fst l) = l.
Proof.
  intros Hnd. rewrite map_map. rewrite <- (map_id l) at 2. apply map_ext_in. intros [x v] Hin. cbn [fst].
  rewrite (lookup_in l x v Hnd Hin). reflexivity.
Qed.

Lemma bind_opt_keys opt : forall args, map fst (fst (bind_opt opt args)) = map fst opt.
Proof.
  induction opt as [|[x d] opt IH]; intros args; [reflexivity|]. destruct args as [|a args]; cbn [bind_opt].
  - specialize (IH []). destruct (bind_opt opt []). cbn in *. f_equal. exact IH.
  - specialize (IH args). destruct (bind_opt opt args). cbn in *. f_equal. exact IH.
Qed.
Lemma spec_pos_keys req opt aux args : (length req <= length args)%nat ->
  map fst (spec_pos req opt aux args) = req ++ map fst opt ++ map fst aux.
Proof.
  intros H. unfold spec_pos. rewrite !map_app, bind_opt_keys, !map_map. cbn [fst]. f_equal.
  revert args H. induction req as [|x req IH]; intros args H; [reflexivity|]. destruct args; [cbn in H; lia|]. cbn. f_equal. apply IH. cbn in H. lia.
Qed.

(* ---------- the code model on required + optional + aux ---------- *)
Lemma skipn_skipn {A} a : forall b (l : list A), skipn a (skipn b l) = skipn (b + a) l.
Proof. intros b. induction b as [|b IH]; intros l; [reflexivity|]. destruct l; [destruct a; reflexivity|]. cbn. apply IH. Qed.
Lemma push_all_nil xs b : push_all xs [] b = b.
Proof. unfold push_all. destruct xs; reflexivity. Qed.

Definition reqd (req : list N) : list (N * option Z) := map (fun x => (x, None)) req.
Lemma build_pos_reqd req opt aux :
  build_pos req opt aux = map Vd (reqd req) ++ (match opt with [] => [] | _ => Mk POptional :: map Vd opt end) ++
                          (match aux with [] => [] | _ => Mk PAux :: map Vd aux end).
Proof. unfold build_pos, reqd. rewrite map_map. reflexivity. Qed.

Definition st0 (args : list arg) : p1 := {| p_args := args; p_b := []; p_rest := []; p_restsym := None; p_err := None |}.

Lemma pass1_auxpart ks al aux m st : posmode m -> p_err st = None ->
  pass1 ks al (match aux with [] => [] | _ => Mk PAux :: map Vd aux end) m st = st.
Proof.
  intros Hm He. destruct aux as [|a aux]; [reflexivity|]. destruct st as [args b r rs e]. cbn in He. subst e.
  destruct args; [reflexivity|]. destruct Hm as [-> | ->]; reflexivity.
Qed.

Lemma pass1_pos ks al req opt aux args :
  pass1 ks al (build_pos req opt aux) MReq (st0 args) =
    {| p_args := skipn (length req + length opt) args;
       p_b := push_all opt (skipn (length req) args) (push_all (reqd req) args []);
       p_rest := []; p_restsym := None; p_err := None |}.
Proof.
  rewrite build_pos_reqd. unfold st0. rewrite pass1_vars by (left; reflexivity). cbv zeta.
  assert (Lr : length (reqd req) = length req) by (unfold reqd; apply map_length). rewrite Lr.
  destruct (Nat.leb_spec (length args) (length req)) as [Hle|Hgt].
  - (* the arguments are used up by the required parameters *)
    assert (E1 : skipn (length req) args = []) by (apply skipn_all2; exact Hle).
    assert (E2 : skipn (length req + length opt) args = []) by (apply skipn_all2; lia).
    rewrite E1, E2, push_all_nil. reflexivity.
  - assert (Hne : skipn (length req) args <> []).
    { intros E. apply (f_equal (@length arg)) in E. rewrite skipn_length in E. cbn in E. lia. }
    destruct opt as [|o opt].
    + cbn [app length]. rewrite Nat.add_0_r. rewrite pass1_auxpart by (auto; left; reflexivity). cbn [push_all combine fold_left]. reflexivity.
    + cbn [app]. destruct (skipn (length req) args) as [|a rem] eqn:Er; [congruence|].
      cbn [pass1 p_args p_err Mk d_name].
      rewrite pass1_vars by (right; reflexivity). cbv zeta.
      rewrite <- Er. rewrite skipn_skipn.
      destruct (length (skipn (length req) args) <=? length (o :: opt))%nat; [reflexivity|].
      rewrite pass1_auxpart by (auto; right; reflexivity). reflexivity.
Qed.

Lemma pass2_pos req opt aux b :
  pass2 (build_pos req opt aux) M2Req b = auxbinds aux (defaults opt b).
Proof.
  rewrite build_pos_reqd, pass2_req_vars. destruct opt as [|o opt].
  - cbn [app]. destruct aux as [|a aux]; [reflexivity|]. cbn [pass2 Mk d_name]. apply pass2_aux_vars.
  - cbn [app pass2 Mk d_name]. rewrite pass2_opt_vars. destruct aux as [|a aux]; [reflexivity|]. cbn [pass2 Mk d_name]. apply pass2_aux_vars.
Qed.

Lemma in_combine_nth {A B} (l1 : list A) : forall (l2 : list B) x y, In (x, y) (combine l1 l2) ->
  exists i, nth_error l1 i = Some x /\ nth_error l2 i = Some y.
Proof.
  induction l1 as [|a l1 IH]; intros [|b l2] x y H; cbn in H; try destruct H.
  - injection H as -> ->. exists 0%nat. auto.
  - destruct (IH l2 x y H) as (i & H1 & H2). exists (S i). auto.
Qed.
Lemma in_bind_opt opt : forall rem x v, In (x, v) (fst (bind_opt opt rem)) ->
  exists j d, nth_error opt j = Some (x, d) /\
              ((exists a, nth_error rem j = Some a /\ v = arg_val a) \/ ((length rem <= j)%nat /\ v = def_val d)).
Proof.
  induction opt as [|[y dy] opt IH]; intros rem x v H; [destruct H|]. destruct rem as [|a rem]; cbn [bind_opt] in H.
  - specialize (IH [] x v). destruct (bind_opt opt []) as [b r]. cbn [fst] in *. destruct H as [E|H].
    + injection E as <- <-. exists 0%nat, dy. split; [reflexivity|right; cbn; auto].
    + destruct (IH H) as (j & d & Hj & Hc). exists (S j), d. split; [exact Hj|]. right. destruct Hc as [(a & Ha & _)|[_ Hv]]; [destruct j; discriminate|]. cbn; split; [lia|exact Hv].
  - specialize (IH rem x v). destruct (bind_opt opt rem) as [b r]. cbn [fst] in *. destruct H as [E|H].
    + injection E as <- <-. exists 0%nat, dy. split; [reflexivity|left; exists a; auto].
    + destruct (IH H) as (j & d & Hj & Hc). exists (S j), d. split; [exact Hj|].
      destruct Hc as [(a' & Ha & Hv)|[Hl Hv]]; [left; exists a'; auto|right; cbn; split; [lia|exact Hv]].
Qed.

Lemma nth_error_in_fst {B} (l : list (N * B)) i x d : nth_error l i = Some (x, d) -> In x (map fst l).
Proof. intros H. apply nth_error_In in H. apply in_map_iff. exists (x, d). auto. Qed.

Lemma nth_error_firstn_some {A} n : forall (l : list A) k p, nth_error (firstn n l) k = Some p -> (k < n)%nat /\ nth_error l k = Some p.
Proof.
  induction n as [|n IH]; intros l k p H; [destruct k; discriminate|]. destruct l as [|y l]; [destruct k; discriminate|].
  destruct k as [|k]; cbn in *; [split; [lia|exact H]|]. destruct (IH l k p H). split; [lia|assumption].
Qed.
Lemma NoDup_app_parts {A} (a b : list A) : NoDup (a ++ b) -> NoDup a /\ NoDup b /\ (forall x, In x a -> ~ In x b).
Proof.
  induction a as [|y a IH]; cbn; intros H; [repeat split; [constructor|exact H|tauto]|].
  inversion H as [|? ? Hni Hnd]; subst. destruct (IH Hnd) as (H1 & H2 & H3). repeat split.
  - constructor; [|exact H1]. intros Hi. apply Hni. apply in_or_app. left. exact Hi.
  - exact H2.
  - intros x [->|Hx] Hb; [apply Hni; apply in_or_app; right; exact Hb|apply (H3 x Hx Hb)].
Qed.

Lemma req_count_build_pos req opt aux : req_count (build_pos req opt aux) = length req.
Proof.
  unfold build_pos. induction req as [|x req IH]; [|cbn; f_equal; exact IH].
  cbn [map app length]. destruct opt; [destruct aux; reflexivity|reflexivity].
Qed.
Lemma bind_req_short req : forall args, (length args < length req)%nat -> bind_req req args = None.
Proof.
  induction req as [|x req IH]; intros args H; [cbn in H; lia|]. destruct args as [|a args]; [reflexivity|].
  cbn [bind_req]. rewrite IH by (cbn in H; lia). reflexivity.
Qed.
(* too few arguments: the binder and the specification both reject *)
Lemma bind_M_pos_short req opt aux args : (length args < length req)%nat ->
  bind_M (build_pos req opt aux) args = OErr KTooFew.
Proof.
  intros H. unfold bind_M. fold (st0 args). rewrite pass1_pos. cbn [p_err p_args p_rest p_restsym p_b].
  rewrite skipn_all2 by lia. rewrite req_count_build_pos. destruct (Nat.ltb_spec (length args) (length req)); [reflexivity|lia].
Qed.

Theorem bind_M_pos req opt aux args :
  NoDup (req ++ map fst opt ++ map fst aux) -> (length req <= length args)%nat ->
  bind_M (build_pos req opt aux) args =
    if (length req + length opt <? length args)%nat then OErr KTooMany else OBound (spec_pos req opt aux args).
Proof.
  intros Hnd Hlen. unfold bind_M. fold (st0 args). rewrite pass1_pos. cbn [p_err p_args p_rest p_restsym p_b].
  destruct (Nat.ltb_spec (length req + length opt) (length args)) as [Hm|Hm].
  - destruct (skipn (length req + length opt) args) eqn:E; [|reflexivity].
    apply (f_equal (@length arg)) in E. rewrite skipn_length in E. cbn in E. lia.
  - rewrite skipn_all2 by lia. rewrite req_count_build_pos.
    destruct (Nat.ltb_spec (length args) (length req)) as [Hs|_]; [lia|].
    rewrite pass2_pos, params_build_pos. f_equal.
    set (b1 := push_all opt (skipn (length req) args) (push_all (reqd req) args [])).
    set (b2 := auxbinds aux (defaults opt b1)).
    rewrite <- (spec_pos_keys req opt aux args Hlen).
    assert (Hk : NoDup (map fst (spec_pos req opt aux args))) by (rewrite spec_pos_keys by exact Hlen; exact Hnd).
    rewrite <- (reorder_id (spec_pos req opt aux args) Hk) at 2.
    apply map_ext_in. intros x Hx. f_equal.
    (* every binding of the specification is what the code's scope holds *)
    apply in_map_iff in Hx as ((x' & v) & Ex & Hin). cbn in Ex. subst x'.
    rewrite (lookup_in _ x v Hk Hin).
    enough (Hgoal : lookup b2 x = Some v) by (rewrite Hgoal; reflexivity).
    destruct (NoDup_app_parts _ _ Hnd) as (Hreq_nd & Hnd2 & Hdisj1).
    destruct (NoDup_app_parts _ _ Hnd2) as (Hopt_nd & Haux_nd & Hdisj2).
    unfold spec_pos in Hin. apply in_app_or in Hin as [Hin|Hin]; [|apply in_app_or in Hin as [Hin|Hin]].
    + (* a required parameter *)
      apply in_map_iff in Hin as ((x' & a) & E & Hc). injection E as -> <-.
      destruct (in_combine_nth _ _ _ _ Hc) as (i & Hi1 & Hi2).
      assert (Hxr : In x req) by (eapply nth_error_In; exact Hi1).
      unfold b2. rewrite lookup_auxbinds_notin by (intros Hi; apply (Hdisj1 x Hxr); apply in_or_app; right; exact Hi).
      rewrite lookup_defaults_notin by (intros Hi; apply (Hdisj1 x Hxr); apply in_or_app; left; exact Hi).
      unfold b1. rewrite lookup_push_all_notin.
      * apply (lookup_push_all_in (reqd req) args [] i x None a); [unfold reqd; rewrite map_map; cbn; rewrite map_id; exact Hreq_nd| |exact Hi2].
        unfold reqd. rewrite nth_error_map, Hi1. reflexivity.
      * intros Hi. apply (Hdisj1 x Hxr). apply in_or_app. left. apply in_map_iff in Hi as (p & Ep & Hp). apply in_firstn in Hp. apply in_map_iff. exists p. auto.
    + (* an optional parameter *)
      destruct (in_bind_opt _ _ _ _ Hin) as (j & d & Hj & Hc).
      assert (Hxo : In x (map fst opt)) by (eapply nth_error_in_fst; exact Hj).
      assert (Hxnr : ~ In x req) by (intros Hr; apply (Hdisj1 x Hr); apply in_or_app; left; exact Hxo).
      unfold b2. rewrite lookup_auxbinds_notin by (apply Hdisj2; exact Hxo).
      rewrite (lookup_defaults_in opt b1 x d Hopt_nd) by (eapply nth_error_In; exact Hj).
      destruct Hc as [(a & Ha & ->)|[Hl ->]].
      * unfold b1. rewrite (lookup_push_all_in opt _ _ j x d a Hopt_nd Hj Ha). reflexivity.
      * assert (E : lookup b1 x = None).
        { unfold b1. rewrite lookup_push_all_notin.
          - rewrite lookup_push_all_notin; [reflexivity|]. intros Hi. apply Hxnr. apply in_map_iff in Hi as (p & Ep & Hp). apply in_firstn in Hp.
            unfold reqd in Hp. apply in_map_iff in Hp as (z & <- & Hz). cbn in Ep. subst z. exact Hz.
          - (* x is the j-th optional, beyond the supplied arguments *)
            intros Hi. apply in_map_iff in Hi as ((x2 & d2) & Ex2 & Hp). cbn in Ex2. subst x2.
            apply In_nth_error in Hp as (k & Hk1). apply nth_error_firstn_some in Hk1 as [Hk2 Hk1].
            (* opt has x at position k < |rem| and at position j >= |rem| *)
            assert (k = j).
            { apply (proj1 (NoDup_nth_error (map fst opt)) Hopt_nd).
              - rewrite map_length. apply nth_error_Some. congruence.
              - rewrite !nth_error_map, Hk1, Hj. reflexivity. }
            lia. }
        rewrite E. reflexivity.
    + (* an auxiliary parameter *)
      apply in_map_iff in Hin as ((x' & d) & E & Hc). injection E as -> <-.
      unfold b2. apply (lookup_auxbinds_in aux _ x d Haux_nd Hc).
Qed.

Corollary binder_meets_spec_pos req opt aux args :
  NoDup (req ++ map fst opt ++ map fst aux) ->
  bind_M (build_pos req opt aux) args = bind_S (pos_ll req opt aux) args.
Proof.
  intros H1. destruct (Nat.le_gt_cases (length req) (length args)) as [H2|H2].
  - rewrite bind_M_pos, bind_S_pos by assumption. reflexivity.
  - rewrite bind_M_pos_short by exact H2. unfold bind_S, pos_ll. cbn [l_req]. rewrite bind_req_short by exact H2. reflexivity.
Qed.

(* no required parameter ever receives an argument from another position *)
Corollary required_positional req opt aux args i x a :
  NoDup (req ++ map fst opt ++ map fst aux) -> (length args <= length req + length opt)%nat -> (length req <= length args)%nat ->
  nth_error req i = Some x -> nth_error args i = Some a ->
  exists b, bind_M (build_pos req opt aux) args = OBound b /\ lookup b x = Some (arg_val a).
Proof.
  intros Hnd Hm Hl Hx Ha. rewrite bind_M_pos by assumption.
  destruct (Nat.ltb_spec (length req + length opt) (length args)); [lia|]. eexists. split; [reflexivity|].
  apply lookup_in; [rewrite spec_pos_keys by exact Hl; exact Hnd|].
  unfold spec_pos. apply in_or_app. left. apply in_map_iff. exists (x, a). split; [reflexivity|].
  clear - Hx Ha. revert args i Hx Ha. induction req as [|y req IH]; intros args i Hx Ha; [destruct i; discriminate|].
  destruct args as [|b args]; [destruct i; discriminate|]. destruct i as [|i]; cbn in *.
  - injection Hx as ->. injection Ha as ->. left; reflexivity.
  - right. eapply IH; eassumption.
Qed.

(* ---------- refutations outside the guard ---------- *)
Definition D (x : N) : docarg := {| d_name := PVar x; d_def := None |}.
Definition refuted (ds : list docarg) (args : list arg) : bool :=
  match spec_of ds args with Some s => negb (outcome_eqv s (bind_M ds args)) && negb (in_domain ds args) | None => false end.
Definition w_too_few := ([D 0; D 1], [AInt 1%Z]).
Definition w_unknown_key := ([D 0; Mk PKey; D 1], [AInt 1%Z; AKw 9; AInt 5%Z]).
Definition w_key_clobbers := ([D 0; Mk PKey; D 1], [AInt 1%Z; AKw 0; AInt 5%Z]).
Definition w_dup_key := ([Mk PKey; D 1], [AKw 1; AInt 1%Z; AKw 1; AInt 2%Z]).
Definition w_rest_key := ([Mk PRest; D 0; Mk PKey; D 1], [AKw 1; AInt 1%Z]).
Definition w_missing_value := ([Mk PKey; D 1], [AKw 1]).
(* (defun f (&rest r &aux (x 5)) ...) called as (f :x 1): the rest list stops at :x because x names a later
   (auxiliary) parameter; r is nil instead of (:x 1) *)
Definition w_rest_aux := ([Mk PRest; D 0; Mk PAux; {| d_name := PVar 1; d_def := Some 5%Z |}], [AKw 1; AInt 1%Z]).
(* the one refutation left: &rest together with &key *)
Definition witnesses := [w_rest_key].
Lemma outside_guard_refuted : forallb (fun w => refuted (fst w) (snd w)) witnesses = true.
Proof. vm_compute. reflexivity. Qed.
Lemma rest_key_witness :
  bind_M (fst w_rest_key) (snd w_rest_key) = OBound [(0, VNil); (1, VInt 1)] /\
  spec_of (fst w_rest_key) (snd w_rest_key) = Some (OBound [(0, VList [AKw 1; AInt 1%Z]); (1, VInt 1)]).
Proof. split; vm_compute; reflexivity. Qed.

(* the witnesses of the repaired defects (C04-3 .. C04-8): the binder now yields exactly what the lambda
   list prescribes on each of them *)
Definition w_allow_arg := ([D 0; Mk PKey; D 1], [AInt 1%Z; AKw 9; AInt 5%Z; AKw allow_kw; AInt 1%Z]).
Definition w_allow_marker := ([D 0; Mk PKey; D 1; Mk PAllow], [AInt 1%Z; AKw 9; AInt 5%Z; AKw 1; AInt 2%Z]).
Definition repaired_witnesses :=
  [ (w_too_few, OErr KTooFew); (w_unknown_key, OErr KBadKey); (w_key_clobbers, OErr KBadKey);
    (w_dup_key, OBound [(1, VInt 1)]); (w_missing_value, OErr KBadKey);
    (w_rest_aux, OBound [(0, VList [AKw 1; AInt 1%Z]); (1, VInt 5)]);
    (w_allow_arg, OBound [(0, VInt 1); (1, VNil)]); (w_allow_marker, OBound [(0, VInt 1); (1, VInt 2)]) ].
Definition repaired (w : (list docarg * list arg) * outcome) : bool :=
  let '((ds, args), o) := w in
  outcome_eqb (bind_M ds args) o && match spec_of ds args with Some s => outcome_eqb s o | None => false end && in_domain ds args.
Lemma repaired_witnesses_ok : forallb repaired repaired_witnesses = true.
Proof. vm_compute. reflexivity. Qed.

Lemma guard_examples :
  in_domain (build_pos [0; 1] [(2, Some 7%Z); (3, None)] [(4, Some 9%Z)]) [AInt 1%Z; AInt 2%Z; AInt 3%Z] = true /\
  bind_M (build_pos [0; 1] [(2, Some 7%Z); (3, None)] [(4, Some 9%Z)]) [AInt 1%Z; AInt 2%Z; AInt 3%Z] =
    OBound [(0, VInt 1); (1, VInt 2); (2, VInt 3); (3, VNil); (4, VInt 9)] /\
  in_domain [D 0; Mk PKey; {| d_name := PVar 1; d_def := Some 5%Z |}; D 2] [AInt 1%Z; AKw 2; AInt 8%Z] = true /\
  bind_M [D 0; Mk PKey; {| d_name := PVar 1; d_def := Some 5%Z |}; D 2] [AInt 1%Z; AKw 2; AInt 8%Z] =
    OBound [(0, VInt 1); (1, VInt 5); (2, VInt 8)].
Proof. repeat split; vm_compute; reflexivity. Qed.
