(* C04 — theorems over the table regenerated from the Go source on THIS run (GenC04.Tables). *)
From C04 Require Import Arity.
From GenC04 Require Import Tables.

(* every built-in that is not a listed known finding documents exactly the bounds it enforces *)
Theorem arity_table_ok : forallb (fun r => listed known r || row_ok r) table = true.
Proof. vm_compute. reflexivity. Qed.
Print Assumptions arity_table_ok.

(* ... hence, for EVERY argument count, the documented lambda list and CheckArgCount agree *)
Theorem arity_exact_all_counts : forall r, In r table -> listed known r = false -> r_has_check r = true ->
  has_marker "&key" (r_args r) = false -> forall n, (0 <= n)%Z -> accepts_doc r n = accepts_chk r n.
Proof.
  intros r Hin Hl Hc Hk n Hn. pose proof arity_table_ok as H. rewrite forallb_forall in H. specialize (H r Hin).
  rewrite Hl in H. cbn in H. apply row_ok_exact; assumption.
Qed.
Print Assumptions arity_exact_all_counts.

(* the table is not trivial *)
Theorem arity_table_size : (600 <=? List.length table)%nat = true /\
  (500 <=? List.length (filter (fun r => r_has_check r && negb (listed known r)) table))%nat = true.
Proof. split; vm_compute; reflexivity. Qed.
Print Assumptions arity_table_size.
