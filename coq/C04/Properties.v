(* C04 — property theorems only (the regenerated-table theorems are in C04/TableProofs.v, re-proved on
   every run against the table extracted from the current Go source). *)
From C04 Require Import Model Spec Proofs ProofsRestKey Arity.
Open Scope list_scope.
Open Scope N_scope.

(* (1) For every lambda list made of required, &optional and &aux parameters with distinct names and
   every argument vector with at least the required number of arguments, the code model binds exactly
   as the lambda list prescribes (positional first, defaults when absent, auxiliaries last) and rejects
   too many arguments.  (Kept from the first round; (6) below extends it to &rest and &key and to every
   lambda list the parser accepts.)
   FULL STATEMENT (false of the faithful model outside the guard, see (3); inside the guard it is (6)):
     forall ds args, parse_ll ds = Some l -> outcome_eqv (reorder ds (bind_S l args)) (bind_M ds args) = true *)
Theorem C04_binder_meets_spec_partial : forall req opt aux args,
  NoDup (req ++ map fst opt ++ map fst aux) -> (List.length req <= List.length args)%nat ->
  bind_M (build_pos req opt aux) args = bind_S (pos_ll req opt aux) args.
Proof. exact binder_meets_spec_pos. Qed.
Print Assumptions C04_binder_meets_spec_partial.

(* (2) no required parameter ever receives an argument from another position *)
Theorem C04_required_positional : forall req opt aux args i x a,
  NoDup (req ++ map fst opt ++ map fst aux) -> (List.length args <= List.length req + List.length opt)%nat -> (List.length req <= List.length args)%nat ->
  nth_error req i = Some x -> nth_error args i = Some a ->
  exists b, bind_M (build_pos req opt aux) args = OBound b /\ lookup b x = Some (arg_val a).
Proof. exact required_positional. Qed.
Print Assumptions C04_required_positional.

(* (3) outside the guard the faithful model violates the specification (known findings): too few
   arguments, unknown key, key clobbering a required parameter, duplicate key, &rest with &key,
   keyword without a value, &rest stopping at a keyword that names an &aux parameter *)
Theorem C04_outside_guard_refuted : forallb (fun w => refuted (fst w) (snd w)) witnesses = true.
Proof. exact outside_guard_refuted. Qed.
Print Assumptions C04_outside_guard_refuted.

(* (4) every row accepted by row_ok documents, for EVERY argument count, exactly what CheckArgCount
   enforces (instantiated on the regenerated table in TableProofs.v) *)
Theorem C04_row_ok_all_counts : forall r,
  row_ok r = true -> r_has_check r = true -> has_marker "&key" (r_args r) = false ->
  forall n, (0 <= n)%Z -> accepts_doc r n = accepts_chk r n.
Proof. exact row_ok_exact. Qed.
Print Assumptions C04_row_ok_all_counts.

(* (5) non-vacuity *)
Theorem C04_guard_nonvacuous :
  in_domain (build_pos [0; 1] [(2, Some 7%Z); (3, None)] [(4, Some 9%Z)]) [AInt 1%Z; AInt 2%Z; AInt 3%Z] = true /\
  bind_M (build_pos [0; 1] [(2, Some 7%Z); (3, None)] [(4, Some 9%Z)]) [AInt 1%Z; AInt 2%Z; AInt 3%Z] =
    OBound [(0, VInt 1); (1, VInt 2); (2, VInt 3); (3, VNil); (4, VInt 9)] /\
  in_domain [D 0; Mk PKey; {| d_name := PVar 1; d_def := Some 5%Z |}; D 2] [AInt 1%Z; AKw 2; AInt 8%Z] = true /\
  bind_M [D 0; Mk PKey; {| d_name := PVar 1; d_def := Some 5%Z |}; D 2] [AInt 1%Z; AKw 2; AInt 8%Z] =
    OBound [(0, VInt 1); (1, VInt 5); (2, VInt 8)].
Proof. exact guard_examples. Qed.
Print Assumptions C04_guard_nonvacuous.

(* (6) THE BINDER REFINEMENT ON THE WHOLE GUARD.  For every lambda list accepted by the parser - required,
   &optional, &rest, &key, &aux sections in the standard order, markers spelled any way - with distinct
   parameter names and a plain variable after &rest, and for every argument vector inside the guard
   (at least the required arguments; not &rest together with &key; no &allow-other-keys; with &rest and
   no &key no remaining argument is a keyword naming an &aux parameter; with &key the remaining arguments
   are keyword/value pairs with declared keys each supplied at most once, or start with a non-keyword),
   the two-pass binder model of Lambda.Call yields EXACTLY the outcome the specification prescribes:
   positional first, defaults when absent, the rest collected in order, keys by name, auxiliaries last,
   too many arguments rejected. The one divergence is the kind of the error for a lambda list whose &key
   section is empty (and without &aux) called with a left-over non-keyword argument: the code rejects it
   as "too many arguments", the specification as a bad key - both reject. *)
Theorem C04_binder_meets_spec_in_guard : forall ds l args,
  parse_ll ds = Some l -> NoDup (params ds) -> rest_plain ds = true -> in_domain ds args = true ->
  bind_M ds args = reorder ds (bind_S l args) \/
  (bind_M ds args = OErr KTooMany /\ bind_S l args = OErr KBadKey /\ l_key l = Some [] /\ l_aux l = []).
Proof. exact binder_meets_spec_guard. Qed.
Print Assumptions C04_binder_meets_spec_in_guard.

(* (7) the same in the form the correspondence evaluates on every generated case (Corr.check_case code 3):
   inside the guard the self-check can never fire *)
Theorem C04_binder_meets_spec_eqv : forall ds l args,
  parse_ll ds = Some l -> NoDup (params ds) -> rest_plain ds = true -> in_domain ds args = true ->
  outcome_eqv (reorder ds (bind_S l args)) (bind_M ds args) = true.
Proof. exact binder_meets_spec_eqv. Qed.
Print Assumptions C04_binder_meets_spec_eqv.

(* (8) &rest (without &key): the outcomes are equal, and the rest parameter holds all the arguments after
   the positional ones, in order (nil when there is none) *)
Theorem C04_rest_collects_in_order : forall ds l args r,
  parse_ll ds = Some l -> NoDup (params ds) -> rest_plain ds = true -> in_domain ds args = true ->
  l_key l = None -> l_rest l = Some r ->
  bind_M ds args = reorder ds (bind_S l args) /\
  exists b, bind_M ds args = OBound b /\
            lookup b r = Some (match skipn (List.length (l_req l) + List.length (l_opt l)) args with [] => VNil | rem => VList rem end).
Proof. exact rest_collects_in_order. Qed.
Print Assumptions C04_rest_collects_in_order.

(* (9) &key: when the remaining arguments are keyword/value pairs, every key parameter holds the value
   supplied with its keyword wherever that pair stands among the key arguments (keys by name, in any
   order), and its default when its keyword is absent *)
Theorem C04_keys_by_name : forall ds l args ks ps k d,
  parse_ll ds = Some l -> NoDup (params ds) -> rest_plain ds = true -> in_domain ds args = true ->
  l_key l = Some ks ->
  key_pairs (S (List.length (skipn (List.length (l_req l) + List.length (l_opt l)) args)))
            (skipn (List.length (l_req l) + List.length (l_opt l)) args) = Some ps ->
  In (k, d) ks ->
  exists b, bind_M ds args = OBound b /\
            (forall v, In (k, v) ps -> lookup b k = Some (arg_val v)) /\
            (~ In k (map fst ps) -> lookup b k = Some (def_val d)).
Proof. exact key_by_name. Qed.
Print Assumptions C04_keys_by_name.

(* (10) non-vacuity for (6)-(9): a &rest and a &key lambda list inside the guard with their bindings, a
   rejected call, and the corner where only the kind of rejection differs *)
Theorem C04_guard_nonvacuous_rest_key :
  let ds_r := [D 0; Mk POptional; {| d_name := PVar 1; d_def := Some 7%Z |}; Mk PRest; D 2; Mk PAux; {| d_name := PVar 3; d_def := Some 9%Z |}] in
  let ds_k := [D 0; Mk PKey; {| d_name := PVar 1; d_def := Some 5%Z |}; D 2; Mk PAux; {| d_name := PVar 3; d_def := Some 9%Z |}] in
  in_domain ds_r [AInt 1%Z; AInt 2%Z; AKw 8; AInt 4%Z] = true /\ NoDup (params ds_r) /\ rest_plain ds_r = true /\
  bind_M ds_r [AInt 1%Z; AInt 2%Z; AKw 8; AInt 4%Z] = OBound [(0, VInt 1); (1, VInt 2); (2, VList [AKw 8; AInt 4%Z]); (3, VInt 9)] /\
  bind_M ds_r [AInt 1%Z] = OBound [(0, VInt 1); (1, VInt 7); (2, VNil); (3, VInt 9)] /\
  in_domain ds_k [AInt 1%Z; AKw 2; AInt 8%Z; AKw 1; ANil] = true /\ NoDup (params ds_k) /\ rest_plain ds_k = true /\
  bind_M ds_k [AInt 1%Z; AKw 2; AInt 8%Z; AKw 1; ANil] = OBound [(0, VInt 1); (1, VNil); (2, VInt 8); (3, VInt 9)] /\
  in_domain ds_k [AInt 1%Z; AInt 2%Z] = true /\ bind_M ds_k [AInt 1%Z; AInt 2%Z] = OErr KBadKey /\
  in_domain [Mk PKey] [AInt 1%Z] = true /\ bind_M [Mk PKey] [AInt 1%Z] = OErr KTooMany /\ spec_of [Mk PKey] [AInt 1%Z] = Some (OErr KBadKey).
Proof. exact guard_examples_rest_key. Qed.
Print Assumptions C04_guard_nonvacuous_rest_key.

(* (11) the &rest / &aux witness of (3) spelled out: (defun f (&rest r &aux (x 5)) ...) called as (f :x 1)
   binds r to nil where the lambda list prescribes (:x 1) *)
Theorem C04_rest_stops_at_aux_name_refuted :
  bind_M (fst w_rest_aux) (snd w_rest_aux) = OBound [(0, VNil); (1, VInt 5)] /\
  spec_of (fst w_rest_aux) (snd w_rest_aux) = Some (OBound [(0, VList [AKw 1; AInt 1%Z]); (1, VInt 5)]).
Proof. exact rest_aux_witness. Qed.
Print Assumptions C04_rest_stops_at_aux_name_refuted.
