(* C04 — property theorems only (the regenerated-table theorems are in C04/TableProofs.v, re-proved on
   every run against the table extracted from the current Go source).  The binder model is the REPAIRED
   Lambda.Call (repo_fixes C04-1 .. C04-9). *)
From C04 Require Import Model Spec Proofs ProofsRestKey ProofsEvals ProofsForms Arity.
Open Scope list_scope.
Open Scope N_scope.

(* (1) For every lambda list made of required, &optional and &aux parameters with distinct names and EVERY
   argument vector, the code model yields exactly what the lambda list prescribes: positional first, defaults
   when absent, auxiliaries last, too few and too many arguments rejected.  (First-round theorem; its
   hypothesis "at least the required number of arguments" is gone since C04-8.  (6) extends it to every lambda
   list the parser accepts.) *)
Theorem C04_binder_meets_spec_pos : forall req opt aux args,
  NoDup (req ++ map fst opt ++ map fst aux) ->
  bind_M (build_pos req opt aux) args = bind_S (pos_ll req opt aux) args.
Proof. exact binder_meets_spec_pos. Qed.
Print Assumptions C04_binder_meets_spec_pos.

(* (2) no required parameter ever receives an argument from another position *)
Theorem C04_required_positional : forall req opt aux args i x a,
  NoDup (req ++ map fst opt ++ map fst aux) -> (List.length args <= List.length req + List.length opt)%nat -> (List.length req <= List.length args)%nat ->
  nth_error req i = Some x -> nth_error args i = Some a ->
  exists b, bind_M (build_pos req opt aux) args = OBound b /\ lookup b x = Some (arg_val a).
Proof. exact required_positional. Qed.
Print Assumptions C04_required_positional.

(* (3) the one place left outside the guard where the faithful model does not bind as the language prescribes
   (known finding C04-rest-stops-at-keyword, asserted by slip's own TestDynamicAmps): with &rest AND &key the
   rest list ends where the keyword arguments begin.  (defun f (&rest r &key k) ...) called (f :k 1) binds r to
   nil where the lambda list prescribes (:k 1). *)
Theorem C04_outside_guard_refuted : forallb (fun w => refuted (fst w) (snd w)) witnesses = true.
Proof. exact outside_guard_refuted. Qed.
Print Assumptions C04_outside_guard_refuted.
Theorem C04_rest_stops_at_keyword_refuted :
  bind_M (fst w_rest_key) (snd w_rest_key) = OBound [(0, VNil); (1, VInt 1)] /\
  spec_of (fst w_rest_key) (snd w_rest_key) = Some (OBound [(0, VList [AKw 1; AInt 1%Z]); (1, VInt 1)]).
Proof. exact rest_key_witness. Qed.
Print Assumptions C04_rest_stops_at_keyword_refuted.

(* (4) every row accepted by row_ok documents, for EVERY argument count, exactly what CheckArgCount
   enforces (instantiated on the regenerated table in TableProofs.v) *)
Theorem C04_row_ok_all_counts : forall r,
  row_ok r = true -> r_has_check r = true -> has_marker "&key" (r_args r) = false ->
  forall n, (0 <= n)%Z -> accepts_doc r n = accepts_chk r n.
Proof. exact row_ok_exact. Qed.
Print Assumptions C04_row_ok_all_counts.

(* (5) non-vacuity *)
Theorem C04_guard_nonvacuous :
  in_domain (build_pos [0; 1] [(2, Some 7%Z); (3, None)] [(4, Some 9%Z)]) [AInt 1%Z; AInt 2%Z; AInt 3%Z] = true /\
  bind_M (build_pos [0; 1] [(2, Some 7%Z); (3, None)] [(4, Some 9%Z)]) [AInt 1%Z; AInt 2%Z; AInt 3%Z] =
    OBound [(0, VInt 1); (1, VInt 2); (2, VInt 3); (3, VNil); (4, VInt 9)] /\
  in_domain [D 0; Mk PKey; {| d_name := PVar 1; d_def := Some 5%Z |}; D 2] [AInt 1%Z; AKw 2; AInt 8%Z] = true /\
  bind_M [D 0; Mk PKey; {| d_name := PVar 1; d_def := Some 5%Z |}; D 2] [AInt 1%Z; AKw 2; AInt 8%Z] =
    OBound [(0, VInt 1); (1, VInt 5); (2, VInt 8)].
Proof. exact guard_examples. Qed.
Print Assumptions C04_guard_nonvacuous.

(* (6) THE BINDER REFINEMENT ON THE WHOLE GUARD.  For every lambda list accepted by the parser - required,
   &optional, &rest, &key, &allow-other-keys, &aux sections in the standard order, markers spelled any way -
   with distinct parameter names and a plain variable after &rest, and for every argument vector inside the
   guard, the two-pass binder model of the repaired Lambda.Call yields EXACTLY the outcome the specification
   prescribes: positional first, defaults when absent, the rest collected in order, keys by name (the first
   of several pairs counts), auxiliaries last; too few arguments, too many arguments, a non-keyword or a
   keyword without value among the key arguments and an unknown keyword (unless &allow-other-keys or
   :allow-other-keys true) rejected.  The guard (Spec.guard_l) excludes one thing only: a lambda list with
   BOTH &rest and &key called with arguments left after the positional ones (see (3)).  No second disjunct
   any more: since C04-9 also the kind of every rejection agrees. *)
Theorem C04_binder_meets_spec_in_guard : forall ds l args,
  parse_ll ds = Some l -> NoDup (params ds) -> rest_plain ds = true -> in_domain ds args = true ->
  bind_M ds args = reorder ds (bind_S l args).
Proof. exact binder_meets_spec_guard. Qed.
Print Assumptions C04_binder_meets_spec_in_guard.

(* (6') hence for every lambda list the parser accepts that does not combine &rest with &key, the binder meets
   the specification on ALL argument vectors - the guard is "accepted by the parser" *)
Theorem C04_binder_meets_spec_all_args : forall ds l args,
  parse_ll ds = Some l -> NoDup (params ds) -> rest_plain ds = true -> l_rest l = None \/ l_key l = None ->
  bind_M ds args = reorder ds (bind_S l args).
Proof. exact binder_meets_spec_all_args. Qed.
Print Assumptions C04_binder_meets_spec_all_args.

(* (7) the same in the form the correspondence evaluates on every generated case (Corr.check_case code 3):
   inside the guard the self-check can never fire *)
Theorem C04_binder_meets_spec_eqv : forall ds l args,
  parse_ll ds = Some l -> NoDup (params ds) -> rest_plain ds = true -> in_domain ds args = true ->
  outcome_eqv (reorder ds (bind_S l args)) (bind_M ds args) = true.
Proof. exact binder_meets_spec_eqv. Qed.
Print Assumptions C04_binder_meets_spec_eqv.

(* (8) &rest (without &key): the outcomes are equal, and the rest parameter holds all the arguments after
   the positional ones, in order (nil when there is none) - keywords included, whatever they are spelled like *)
Theorem C04_rest_collects_in_order : forall ds l args r,
  parse_ll ds = Some l -> NoDup (params ds) -> rest_plain ds = true -> (List.length (l_req l) <= List.length args)%nat ->
  l_key l = None -> l_rest l = Some r ->
  bind_M ds args = reorder ds (bind_S l args) /\
  exists b, bind_M ds args = OBound b /\
            lookup b r = Some (match skipn (List.length (l_req l) + List.length (l_opt l)) args with [] => VNil | rem => VList rem end).
Proof. exact rest_collects_in_order. Qed.
Print Assumptions C04_rest_collects_in_order.

(* (9) &key: when the remaining arguments are acceptable keyword/value pairs (every keyword names a &key
   parameter or is :allow-other-keys, or other keys are allowed), every key parameter holds the value of the
   FIRST pair with its keyword, wherever that pair stands among the key arguments (keys by name, in any
   order), and its default when its keyword is absent *)
Theorem C04_keys_by_name : forall ds l args ks ps k d,
  parse_ll ds = Some l -> NoDup (params ds) -> rest_plain ds = true -> in_domain ds args = true ->
  (List.length (l_req l) <= List.length args)%nat ->
  l_key l = Some ks -> key_pairs (S (List.length (a2of l args))) (a2of l args) = Some ps ->
  keys_allowed l ps = true \/ forallb (fun p => key_known ks (fst p)) ps = true ->
  In (k, d) ks ->
  exists b, bind_M ds args = OBound b /\
            (forall v, first_pair k ps = Some v -> lookup b k = Some (arg_val v)) /\
            (~ In k (map fst ps) -> lookup b k = Some (def_val d)).
Proof. exact key_by_name. Qed.
Print Assumptions C04_keys_by_name.

(* (9') ... and no keyword argument, whatever its name, changes a required parameter (C04-5) *)
Theorem C04_required_kept_under_keys : forall ds l args ks ps i x a,
  parse_ll ds = Some l -> NoDup (params ds) -> rest_plain ds = true -> in_domain ds args = true ->
  (List.length (l_req l) <= List.length args)%nat ->
  l_key l = Some ks -> key_pairs (S (List.length (a2of l args))) (a2of l args) = Some ps ->
  keys_allowed l ps = true \/ forallb (fun p => key_known ks (fst p)) ps = true ->
  nth_error (l_req l) i = Some x -> nth_error args i = Some a ->
  exists b, bind_M ds args = OBound b /\ lookup b x = Some (arg_val a).
Proof. exact required_kept. Qed.
Print Assumptions C04_required_kept_under_keys.

(* (10) non-vacuity for (6)-(9): &rest, &key and &allow-other-keys lambda lists inside the guard with their
   bindings (a repeated keyword, an unknown keyword with and without :allow-other-keys, a lambda list ending
   in &key) and rejected calls *)
Theorem C04_guard_nonvacuous_rest_key :
  let ds_r := [D 0; Mk POptional; {| d_name := PVar 1; d_def := Some 7%Z |}; Mk PRest; D 2; Mk PAux; {| d_name := PVar 3; d_def := Some 9%Z |}] in
  let ds_k := [D 0; Mk PKey; {| d_name := PVar 1; d_def := Some 5%Z |}; D 2; Mk PAux; {| d_name := PVar 3; d_def := Some 9%Z |}] in
  let ds_a := [D 0; Mk PKey; D 1; Mk PAllow] in
  in_domain ds_r [AInt 1%Z; AInt 2%Z; AKw 3; AInt 4%Z] = true /\ NoDup (params ds_r) /\ rest_plain ds_r = true /\
  bind_M ds_r [AInt 1%Z; AInt 2%Z; AKw 3; AInt 4%Z] = OBound [(0, VInt 1); (1, VInt 2); (2, VList [AKw 3; AInt 4%Z]); (3, VInt 9)] /\
  bind_M ds_r [AInt 1%Z] = OBound [(0, VInt 1); (1, VInt 7); (2, VNil); (3, VInt 9)] /\
  bind_M ds_r [] = OErr KTooFew /\
  in_domain ds_k [AInt 1%Z; AKw 2; AInt 8%Z; AKw 1; ANil; AKw 2; AInt 6%Z] = true /\ NoDup (params ds_k) /\ rest_plain ds_k = true /\
  bind_M ds_k [AInt 1%Z; AKw 2; AInt 8%Z; AKw 1; ANil; AKw 2; AInt 6%Z] = OBound [(0, VInt 1); (1, VNil); (2, VInt 8); (3, VInt 9)] /\
  bind_M ds_k [AInt 1%Z; AInt 2%Z] = OErr KBadKey /\
  bind_M ds_k [AInt 1%Z; AKw 0; AInt 2%Z] = OErr KBadKey /\
  bind_M ds_k [AInt 1%Z; AKw 0; AInt 2%Z; AKw allow_kw; AInt 1%Z] = OBound [(0, VInt 1); (1, VInt 5); (2, VNil); (3, VInt 9)] /\
  bind_M ds_a [AInt 1%Z; AKw 7; AInt 2%Z; AKw 1; AInt 3%Z] = OBound [(0, VInt 1); (1, VInt 3)] /\
  bind_M [Mk PKey] [AInt 1%Z] = OErr KBadKey /\ bind_M [Mk PKey] [AKw allow_kw; ANil] = OBound [].
Proof. exact guard_examples_rest_key. Qed.
Print Assumptions C04_guard_nonvacuous_rest_key.

(* (11) rejections in property terms: a call with too few arguments is rejected whatever the lambda list
   (C04-8) ... *)
Theorem C04_too_few_rejected : forall ds l args,
  parse_ll ds = Some l -> NoDup (params ds) -> rest_plain ds = true ->
  (List.length args < List.length (l_req l))%nat -> bind_M ds args = OErr KTooFew.
Proof. exact too_few_rejected. Qed.
Print Assumptions C04_too_few_rejected.

(* (12) ... one with too many is rejected when the lambda list has neither &rest nor &key ... *)
Theorem C04_too_many_rejected : forall ds l args,
  parse_ll ds = Some l -> NoDup (params ds) -> rest_plain ds = true -> l_rest l = None -> l_key l = None ->
  (List.length (l_req l) + List.length (l_opt l) < List.length args)%nat -> bind_M ds args = OErr KTooMany.
Proof. exact too_many_rejected. Qed.
Print Assumptions C04_too_many_rejected.

(* (13) ... and key arguments that are not keyword/value pairs, or that hold a keyword naming no &key
   parameter while other keys are not allowed, are rejected (C04-7, C04-9) *)
Theorem C04_bad_keys_rejected : forall ds l args ks,
  parse_ll ds = Some l -> NoDup (params ds) -> rest_plain ds = true -> l_rest l = None -> l_key l = Some ks ->
  (List.length (l_req l) <= List.length args)%nat ->
  match key_pairs (S (List.length (a2of l args))) (a2of l args) with
  | None => True
  | Some ps => keys_allowed l ps = false /\ forallb (fun p => key_known ks (fst p)) ps = false
  end ->
  bind_M ds args = OErr KBadKey.
Proof. exact bad_keys_rejected. Qed.
Print Assumptions C04_bad_keys_rejected.

(* (14) the witnesses of the repaired defects (former refutations: too few arguments, unknown key, key
   clobbering a required parameter, duplicate key, keyword without a value, &rest stopping at a keyword
   spelled like an &aux parameter; plus the two ways of allowing other keys): on each the model now yields
   the listed outcome, which is the specification's, inside the guard *)
Theorem C04_repaired_witnesses : forallb repaired repaired_witnesses = true.
Proof. exact repaired_witnesses_ok. Qed.
Print Assumptions C04_repaired_witnesses.

(* (15) WHICH DEFAULT FORMS ARE EVALUATED (round 3).  For every lambda list accepted by the parser with distinct
   names and every argument vector inside the guard, pass 2 of the binder model evaluates exactly the default
   forms the specification names - the &optional parameters beyond the supplied positional arguments, the &key
   parameters whose keyword is not among the key arguments, every &aux parameter - in that order, and none when
   the call is rejected.  (evals_M / evals_S list the parameters whose form is evaluated.) *)
Theorem C04_default_forms_evaluated_when_absent : forall ds l args,
  parse_ll ds = Some l -> NoDup (params ds) -> rest_plain ds = true -> in_domain ds args = true ->
  evals_M ds args = evals_S l args.
Proof. exact evals_meet_spec. Qed.
Print Assumptions C04_default_forms_evaluated_when_absent.

(* (16) in property terms: the default form of an &optional parameter that got a positional argument is not
   evaluated ... *)
Theorem C04_supplied_optional_default_not_evaluated : forall ds l args j x d,
  parse_ll ds = Some l -> NoDup (params ds) -> rest_plain ds = true -> in_domain ds args = true ->
  nth_error (l_opt l) j = Some (x, d) -> (List.length (l_req l) + j < List.length args)%nat ->
  ~ In x (evals_M ds args).
Proof. exact supplied_optional_not_evaluated. Qed.
Print Assumptions C04_supplied_optional_default_not_evaluated.

(* (17) ... nor that of a &key parameter whose keyword is among the key arguments *)
Theorem C04_supplied_key_default_not_evaluated : forall ds l args ks k d v,
  parse_ll ds = Some l -> NoDup (params ds) -> rest_plain ds = true -> in_domain ds args = true ->
  l_key l = Some ks -> In (k, d) ks -> first_pair k (pairs_of l args) = Some v ->
  ~ In k (evals_M ds args).
Proof. exact supplied_key_not_evaluated. Qed.
Print Assumptions C04_supplied_key_default_not_evaluated.

(* (18) non-vacuity for (15)-(17): (a &optional (b 5) (c 6) &key (k 7) (m 8) &aux (x 9)) with 1, 2 and 3 positional
   arguments, with :m, with :m and :k, too few arguments and an unknown key (rejected: nothing evaluated) *)
Theorem C04_default_forms_examples :
  let ds := [D 0; Mk POptional; {| d_name := PVar 1; d_def := Some 5%Z |}; {| d_name := PVar 2; d_def := Some 6%Z |};
             Mk PKey; {| d_name := PVar 3; d_def := Some 7%Z |}; {| d_name := PVar 4; d_def := Some 8%Z |};
             Mk PAux; {| d_name := PVar 5; d_def := Some 9%Z |}] in
  evals_M ds [AInt 1%Z] = [1; 2; 3; 4; 5] /\
  evals_M ds [AInt 1%Z; AInt 2%Z] = [2; 3; 4; 5] /\
  evals_M ds [AInt 1%Z; AInt 2%Z; AInt 3%Z; AKw 4; AInt 0%Z] = [3; 5] /\
  evals_M ds [AInt 1%Z; AInt 2%Z; AInt 3%Z; AKw 4; AInt 0%Z; AKw 3; ANil] = [5] /\
  evals_M ds [] = [] /\ evals_M ds [AInt 1%Z; AInt 2%Z; AInt 3%Z; AKw 9; AInt 0%Z] = [] /\
  in_domain ds [AInt 1%Z; AInt 2%Z; AInt 3%Z; AKw 4; AInt 0%Z] = true.
Proof. exact evals_examples. Qed.
Print Assumptions C04_default_forms_examples.

(* (19) the self-check of the correspondence (Corr.check_case code 3) in its round-3 form - outcome and evaluated
   default forms - can never fire inside the guard *)
Theorem C04_self_check_silent : forall ds l args traced,
  parse_ll ds = Some l -> NoDup (params ds) -> rest_plain ds = true -> in_domain ds args = true ->
  outcome_eqv (reorder ds (bind_S l args)) (bind_M ds args) &&
  list_eqb N.eqb (Corr.traced_only traced (evals_S l args)) (Corr.traced_only traced (evals_M ds args)) = true.
Proof. exact self_check_silent. Qed.
Print Assumptions C04_self_check_silent.

(* ---- round 5: default forms that read an earlier parameter ---- *)
(* (20) A default form is evaluated with every parameter on its left bound, also those that got their value from a
   default form of their own.  bind_Mx models pass 2 evaluating each form (literal, or "integer value of variable
   y plus k") in the scope built so far; for EVERY lambda list with distinct names whose forms refer to their
   left and every argument vector, its outcome o is the binding the specification prescribes for the lambda list
   in which each form is replaced by its value under the bindings of o itself (which, left to right, is the value
   of the form in the environment of the parameters before it).  The hypotheses on the literal lambda list are
   those of theorem (6): accepted by the parser, plain &rest variable, inside the guard. *)
Theorem C04_default_form_sees_earlier_parameters : forall xs args o l,
  NoDup (xparams xs) -> refs_back [] xs = true -> bind_Mx xs args = XO o ->
  parse_ll (map (lit (env_of o)) xs) = Some l -> rest_plain (map (lit (env_of o)) xs) = true ->
  in_domain (map (lit (env_of o)) xs) args = true ->
  o = reorder (map (lit (env_of o)) xs) (bind_S l args).
Proof. exact forms_meet_spec. Qed.
Print Assumptions C04_default_form_sees_earlier_parameters.

(* (21) the scope pass 2 ends with is a fixed point of the literal pass 2: replacing every form by its value under
   the FINAL scope and running the literal pass 2 gives the same scope - no form ever saw a stale or missing
   binding of a parameter on its left (all lambda lists, all start scopes) *)
Theorem C04_pass2_forms_fixed_point : forall rho xs m b b' seen,
  pass2x xs m b = inl b' -> refs_back seen xs = true ->
  (forall y, In y seen -> ~ In y (xparams xs)) -> NoDup (xparams xs) ->
  (forall y, In y seen -> int_of (rho y) = int_of (lookup b' y)) ->
  (forall y, In y (xparams xs) -> int_of (rho y) = int_of (lookup b' y)) ->
  pass2 (map (lit rho) xs) m b = b'.
Proof. exact pass2x_fix. Qed.
Print Assumptions C04_pass2_forms_fixed_point.

(* (22) the code-3 self-check of Corr.check_xcase (outcome part) cannot fire under the hypotheses of (20) *)
Theorem C04_forms_self_check_silent : forall xs args o l,
  NoDup (xparams xs) -> refs_back [] xs = true -> bind_Mx xs args = XO o ->
  parse_ll (map (lit (env_of o)) xs) = Some l -> rest_plain (map (lit (env_of o)) xs) = true ->
  in_domain (map (lit (env_of o)) xs) args = true ->
  meets_Sx xs args o = true.
Proof. exact forms_self_check_silent. Qed.
Print Assumptions C04_forms_self_check_silent.

(* (23) non-vacuity: (&optional (a 1) (b (+ a 10)) (c (+ b 100))) with 0, 1, 2 arguments, (x &key (k (+ x 2))
   (l (+ k 1))) with and without :k, (&optional n (m (+ n 3))) without arguments (n is nil: m is nil) *)
Theorem C04_default_form_examples :
  bind_Mx ex_opt [] = XO (OBound [(0, VInt 1); (1, VInt 11); (2, VInt 111)])%N /\
  bind_Mx ex_opt [AInt 5] = XO (OBound [(0, VInt 5); (1, VInt 15); (2, VInt 115)])%N /\
  bind_Mx ex_opt [AInt 5; AInt 6] = XO (OBound [(0, VInt 5); (1, VInt 6); (2, VInt 106)])%N /\
  bind_Mx ex_key [AInt 3] = XO (OBound [(0, VInt 3); (1, VInt 5); (2, VInt 6)])%N /\
  bind_Mx ex_key [AInt 3; AKw 1; AInt 1] = XO (OBound [(0, VInt 3); (1, VInt 1); (2, VInt 2)])%N /\
  bind_Mx ex_nil [] = XO (OBound [(0, VNil); (1, VNil)])%N /\
  forallb (fun xa => in_domain_x (fst xa) (snd xa) &&
                     match bind_Mx (fst xa) (snd xa) with XO o => meets_Sx (fst xa) (snd xa) o | _ => false end)
          [(ex_opt, []); (ex_opt, [AInt 5]); (ex_opt, [AInt 5; AInt 6]); (ex_key, [AInt 3]);
           (ex_key, [AInt 3; AKw 1%N; AInt 1]); (ex_nil, [])] = true.
Proof. exact forms_examples. Qed.
Print Assumptions C04_default_form_examples.

(* (24) the specification rejects the outcomes of a binder that evaluates a form in the scope of the argument-bound
   parameters only (the condition unbound-variable, or nil for the dependent parameter) *)
Theorem C04_spec_rejects_stale_default_scope :
  meets_Sx ex_opt [] (OErr KFault) = false /\
  meets_Sx ex_opt [] (OBound [(0, VInt 1); (1, VNil); (2, VNil)])%N = false /\
  meets_Sx ex_key [AInt 3] (OBound [(0, VInt 3); (1, VInt 5); (2, VNil)])%N = false.
Proof. exact forms_spec_rejects_stale_scope. Qed.
Print Assumptions C04_spec_rejects_stale_default_scope.

(* (25) outside the guard refs_back: (&key (a b) b) - the form of a names the LATER parameter b; the two-pass
   binder shows it b's argument when :b is supplied (and signals unbound-variable otherwise), the language
   evaluates it with the parameters on its left only *)
Theorem C04_forward_reference_sees_later_argument_refuted :
  bind_Mx ex_fwd [AKw 1%N; AInt 5] = XO (OBound [(0, VInt 5); (1, VInt 5)])%N /\
  bind_Mx ex_fwd [] = XUnbound 1%N /\
  in_domain_x ex_fwd [AKw 1%N; AInt 5] = false.
Proof. exact forms_forward_reference_sees_later_argument. Qed.
Print Assumptions C04_forward_reference_sees_later_argument_refuted.
