(* C04 — property theorems only (the regenerated-table theorems are in C04/TableProofs.v, re-proved on
   every run against the table extracted from the current Go source). *)
From C04 Require Import Model Spec Proofs Arity.
Open Scope list_scope.
Open Scope N_scope.

(* (1) For every lambda list made of required, &optional and &aux parameters with distinct names and
   every argument vector with at least the required number of arguments, the code model binds exactly
   as the lambda list prescribes (positional first, defaults when absent, auxiliaries last) and rejects
   too many arguments.
   FULL STATEMENT (false of the faithful model, see (3); for &rest / &key inside in_domain it is
   evaluated on every generated case of every run, not proved):
     forall ds args, parse_ll ds = Some l -> outcome_eqv (reorder ds (bind_S l args)) (bind_M ds args) = true *)
Theorem C04_binder_meets_spec_partial : forall req opt aux args,
  NoDup (req ++ map fst opt ++ map fst aux) -> (List.length req <= List.length args)%nat ->
  bind_M (build_pos req opt aux) args = bind_S (pos_ll req opt aux) args.
Proof. exact binder_meets_spec_pos. Qed.
Print Assumptions C04_binder_meets_spec_partial.

(* (2) no required parameter ever receives an argument from another position *)
Theorem C04_required_positional : forall req opt aux args i x a,
  NoDup (req ++ map fst opt ++ map fst aux) -> (List.length args <= List.length req + List.length opt)%nat -> (List.length req <= List.length args)%nat ->
  nth_error req i = Some x -> nth_error args i = Some a ->
  exists b, bind_M (build_pos req opt aux) args = OBound b /\ lookup b x = Some (arg_val a).
Proof. exact required_positional. Qed.
Print Assumptions C04_required_positional.

(* (3) outside the guard the faithful model violates the specification (known findings): too few
   arguments, unknown key, key clobbering a required parameter, duplicate key, &rest with &key,
   keyword without a value *)
Theorem C04_outside_guard_refuted : forallb (fun w => refuted (fst w) (snd w)) witnesses = true.
Proof. exact outside_guard_refuted. Qed.
Print Assumptions C04_outside_guard_refuted.

(* (4) every row accepted by row_ok documents, for EVERY argument count, exactly what CheckArgCount
   enforces (instantiated on the regenerated table in TableProofs.v) *)
Theorem C04_row_ok_all_counts : forall r,
  row_ok r = true -> r_has_check r = true -> has_marker "&key" (r_args r) = false ->
  forall n, (0 <= n)%Z -> accepts_doc r n = accepts_chk r n.
Proof. exact row_ok_exact. Qed.
Print Assumptions C04_row_ok_all_counts.

(* (5) non-vacuity *)
Theorem C04_guard_nonvacuous :
  in_domain (build_pos [0; 1] [(2, Some 7%Z); (3, None)] [(4, Some 9%Z)]) [AInt 1%Z; AInt 2%Z; AInt 3%Z] = true /\
  bind_M (build_pos [0; 1] [(2, Some 7%Z); (3, None)] [(4, Some 9%Z)]) [AInt 1%Z; AInt 2%Z; AInt 3%Z] =
    OBound [(0, VInt 1); (1, VInt 2); (2, VInt 3); (3, VNil); (4, VInt 9)] /\
  in_domain [D 0; Mk PKey; {| d_name := PVar 1; d_def := Some 5%Z |}; D 2] [AInt 1%Z; AKw 2; AInt 8%Z] = true /\
  bind_M [D 0; Mk PKey; {| d_name := PVar 1; d_def := Some 5%Z |}; D 2] [AInt 1%Z; AKw 2; AInt 8%Z] =
    OBound [(0, VInt 1); (1, VInt 5); (2, VInt 8)].
Proof. exact guard_examples. Qed.
Print Assumptions C04_guard_nonvacuous.
