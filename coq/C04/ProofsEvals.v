(* C04 — which default forms the binder evaluates (round 3): for every lambda list accepted by the parser and every
   argument vector inside the guard, pass 2 of the binder model evaluates exactly the default forms the
   specification names - those of the parameters that got no argument - in the same order, and none when the
   call is rejected. *)
From C04 Require Import Model Spec Proofs ProofsRestKey Corr.
Open Scope N_scope.

(* ---------- pass2_evals, section by section ---------- *)
Fixpoint defaults_evals (xs : list (N * option Z)) (b : list (N * value)) : list N :=
  match xs with
  | [] => []
  | (x, d) :: xs' => eval_if_unbound b x d ++ defaults_evals xs' (default_if_unbound b x d)
  end.
Definition isnone {A} (o : option A) : bool := match o with Some _ => false | None => true end.

Lemma p2e_req_vars xs : forall tl b, pass2_evals (map Vd xs ++ tl) M2Req b = pass2_evals tl M2Req b.
Proof. induction xs as [|[x d] xs IH]; intros tl b; cbn; [reflexivity|apply IH]. Qed.
Lemma p2e_opt_vars xs : forall tl b, pass2_evals (map Vd xs ++ tl) M2Opt b = defaults_evals xs b ++ pass2_evals tl M2Opt (defaults xs b).
Proof. induction xs as [|[x d] xs IH]; intros tl b; cbn; [reflexivity|]. rewrite <- app_assoc. f_equal. apply IH. Qed.
Lemma p2e_rest_vars xs : forall tl b, pass2_evals (map Vd xs ++ tl) M2Rest b = defaults_evals xs b ++ pass2_evals tl M2Rest (defaults xs b).
Proof. induction xs as [|[x d] xs IH]; intros tl b; cbn; [reflexivity|]. rewrite <- app_assoc. f_equal. apply IH. Qed.
Lemma p2e_key_vars xs : forall tl b, pass2_evals (map Vd xs ++ tl) M2Key b = defaults_evals xs b ++ pass2_evals tl M2Key (defaults xs b).
Proof. induction xs as [|[x d] xs IH]; intros tl b; cbn; [reflexivity|]. rewrite <- app_assoc. f_equal. apply IH. Qed.
Lemma p2e_aux_vars xs : forall b, pass2_evals (map Vd xs) M2Aux b = map fst (filter has_def xs).
Proof.
  induction xs as [|[x d] xs IH]; intros b; cbn [map pass2_evals Vd d_name d_def fst snd filter]; [reflexivity|].
  rewrite IH. unfold has_def. cbn [snd]. destruct d; reflexivity.
Qed.
Lemma p2e_auxsec o m b : pass2_evals (vsec PAux o) m b = map fst (filter has_def (vars o)).
Proof. destruct o as [[df aux]|]; [|destruct m; reflexivity]. destruct m; cbn [vsec vars pass2_evals Mk' d_name]; apply p2e_aux_vars. Qed.
Lemma p2e_allowsec o tl m b : m <> M2Aux -> pass2_evals (allowsec o ++ tl) m b = pass2_evals tl m b.
Proof. intros Hm. destruct o as [df|]; [|reflexivity]. destruct m; try congruence; reflexivity. Qed.
Lemma p2e_keytail ok oal oa m b : m <> M2Aux ->
  pass2_evals (vsec PKey ok ++ allowsec oal ++ vsec PAux oa) m b = defaults_evals (vars ok) b ++ map fst (filter has_def (vars oa)).
Proof.
  intros Hm. destruct ok as [[df ks]|]; cbn [vsec vars app defaults_evals].
  - destruct m; try congruence; cbn [pass2_evals Mk' d_name]; rewrite p2e_key_vars, p2e_allowsec by discriminate; f_equal; apply p2e_auxsec.
  - rewrite p2e_allowsec by exact Hm. apply p2e_auxsec.
Qed.
Lemma p2e_resttail orr ok oal oa m b : m = M2Req \/ m = M2Opt ->
  pass2_evals (restsec orr ++ vsec PKey ok ++ allowsec oal ++ vsec PAux oa) m b =
  defaults_evals (restvars orr) b ++ defaults_evals (vars ok) (defaults (restvars orr) b) ++ map fst (filter has_def (vars oa)).
Proof.
  intros Hm. destruct orr as [[df [r dr]]|]; cbn [restsec restvars app defaults_evals].
  - destruct Hm as [-> | ->]; cbn [pass2_evals Mk' d_name Vd fst snd d_def]; rewrite p2e_keytail by discriminate; rewrite app_nil_r; reflexivity.
  - apply p2e_keytail. destruct Hm as [-> | ->]; discriminate.
Qed.
Lemma p2e_build h b :
  pass2_evals (build h) M2Req b =
  defaults_evals (vars (h_opt h)) b ++
  defaults_evals (restvars (h_rest h)) (defaults (vars (h_opt h)) b) ++
  defaults_evals (vars (h_key h)) (defaults (restvars (h_rest h)) (defaults (vars (h_opt h)) b)) ++
  map fst (filter has_def (vars (h_aux h))).
Proof.
  unfold build. rewrite p2e_req_vars.
  destruct (h_opt h) as [[df opt]|]; cbn [vsec vars app defaults_evals].
  - cbn [pass2_evals Mk' d_name]. rewrite p2e_opt_vars. f_equal. apply p2e_resttail. right; reflexivity.
  - apply p2e_resttail. left; reflexivity.
Qed.

(* ---------- with distinct names: the forms evaluated are those of the parameters unbound in the initial scope ---------- *)
Lemma lookup_default_other b x d y : y <> x -> lookup (default_if_unbound b x d) y = lookup b y.
Proof. intros H. unfold default_if_unbound. destruct (lookup b x); [reflexivity|apply lookup_bind_other; exact H]. Qed.

Lemma defaults_evals_filter xs : forall b, NoDup (map fst xs) ->
  defaults_evals xs b = map fst (filter (fun xd => has_def xd && isnone (lookup b (fst xd))) xs).
Proof.
  induction xs as [|[x d] xs IH]; intros b Hnd; [reflexivity|]. cbn [defaults_evals filter fst]. inversion Hnd as [|? ? Hni Hnd']; subst.
  rewrite (IH _ Hnd').
  assert (E : filter (fun xd : N * option Z => has_def xd && isnone (lookup (default_if_unbound b x d) (fst xd))) xs =
              filter (fun xd => has_def xd && isnone (lookup b (fst xd))) xs).
  { apply filter_ext_in. intros [y dy] Hy. cbn [fst]. rewrite lookup_default_other; [reflexivity|].
    intros ->. apply Hni. apply in_map_iff. exists (x, dy). auto. }
  rewrite E. unfold eval_if_unbound, has_def at 1. cbn [snd].
  destruct d; cbn [andb]; [|reflexivity]. destruct (lookup b x); reflexivity.
Qed.

Lemma filter_and {A} (f g : A -> bool) l : filter (fun x => f x && g x) l = filter f (filter g l).
Proof.
  induction l as [|a l IH]; [reflexivity|]. cbn [filter]. destruct (g a) eqn:Eg; cbn [filter]; rewrite ?andb_true_r, ?andb_false_r.
  - destruct (f a); [f_equal|]; exact IH.
  - exact IH.
Qed.
(* a predicate that is false on the first n elements and true from then on *)
Lemma filter_skipn {A} (P : A -> bool) : forall l n,
  (forall j x, nth_error l j = Some x -> P x = negb (j <? n)%nat) -> filter P l = skipn n l.
Proof.
  induction l as [|a l IH]; intros n H; [destruct n; reflexivity|]. cbn [filter].
  rewrite (H 0%nat a eq_refl). destruct n as [|n]; cbn [Nat.ltb Nat.leb negb skipn].
  - f_equal. rewrite (IH 0%nat); [reflexivity|]. intros j x Hj. rewrite (H (S j) x Hj). reflexivity.
  - apply IH. intros j x Hj. rewrite (H (S j) x Hj). reflexivity.
Qed.

(* ---------- the scope after pass 1: which parameters are still unbound ---------- *)
Section Scope1.
Variables (l : llist) (ps : list (N * arg)) (args : list arg).
Hypothesis Hnd : NoDup (names l).
Hypothesis Hlen : (length (l_req l) <= length args)%nat.

Lemma names_parts :
  NoDup (l_req l) /\ NoDup (map fst (l_opt l)) /\ NoDup (map fst (restl l)) /\ NoDup (map fst (keysl l)) /\ NoDup (map fst (l_aux l)) /\
  (forall x, In x (map fst (l_opt l)) -> ~ In x (l_req l) /\ ~ In x (map fst (restl l)) /\ ~ In x (map fst (keysl l))) /\
  (forall x, In x (map fst (keysl l)) -> ~ In x (l_req l) /\ ~ In x (map fst (l_opt l)) /\ ~ In x (map fst (restl l))).
Proof.
  unfold names in Hnd.
  destruct (NoDup_app_parts _ _ Hnd) as (NDq & Hnd1 & DQ).
  destruct (NoDup_app_parts _ _ Hnd1) as (NDo & Hnd2 & DO).
  destruct (NoDup_app_parts _ _ Hnd2) as (NDr & Hnd3 & DR).
  destruct (NoDup_app_parts _ _ Hnd3) as (NDk & NDa & DK).
  repeat split; try assumption.
  - intros Hq. apply (DQ x Hq). rewrite !in_app_iff. tauto.
  - intros Hr. apply (DO x H). rewrite !in_app_iff. tauto.
  - intros Hk. apply (DO x H). rewrite !in_app_iff. tauto.
  - intros Hq. apply (DQ x Hq). rewrite !in_app_iff. tauto.
  - intros Ho. apply (DO x Ho). rewrite !in_app_iff. tauto.
  - intros Hr. apply (DR x Hr). rewrite !in_app_iff. tauto.
Qed.

(* an &optional parameter is unbound after pass 1 exactly when no positional argument is left for it *)
Lemma opt_unbound j x d : nth_error (l_opt l) j = Some (x, d) ->
  isnone (lookup (scope1 l ps args) x) = negb (j <? length args - length (l_req l))%nat.
Proof.
  intros Hj. destruct names_parts as (NDq & NDo & _ & _ & _ & DO & _).
  assert (Hxo : In x (map fst (l_opt l))) by (eapply nth_error_in_fst; exact Hj).
  destruct (DO x Hxo) as (Hq & Hr & Hk).
  rewrite lookup_scope1_notrest by exact Hr. rewrite lookup_keybinds_nokey by exact Hk. unfold posb.
  assert (La : length (a1of l args) = (length args - length (l_req l))%nat) by (unfold a1of; apply skipn_length).
  destruct (Nat.ltb_spec j (length args - length (l_req l))) as [Hlt|Hge]; cbn [negb].
  - destruct (nth_error (a1of l args) j) as [a|] eqn:Ea; [|apply nth_error_None in Ea; lia].
    rewrite (lookup_push_all_in (l_opt l) _ _ j x d a NDo Hj Ea). reflexivity.
  - rewrite lookup_push_all_notin.
    + rewrite lookup_push_all_notin; [reflexivity|]. apply notin_firstn. rewrite reqd_keys. exact Hq.
    + intros Hi. apply in_map_iff in Hi as ((x2 & d2) & Ex2 & Hp). cbn in Ex2. subst x2.
      apply In_nth_error in Hp as (k & Hk1). apply nth_error_firstn_some in Hk1 as [Hk2 Hk1].
      assert (k = j).
      { apply (proj1 (NoDup_nth_error (map fst (l_opt l))) NDo).
        - rewrite map_length. apply nth_error_Some. congruence.
        - rewrite !nth_error_map, Hk1, Hj. reflexivity. }
      lia.
Qed.

(* a &key parameter is unbound after pass 1 (and after the defaults of the sections before it) exactly when its
   keyword is not among the key arguments *)
Lemma key_unbound k d : In (k, d) (keysl l) ->
  isnone (lookup (defaults (restl l) (defaults (l_opt l) (scope1 l ps args))) k) =
  match first_pair k ps with Some _ => false | None => true end.
Proof.
  intros Hin. destruct names_parts as (_ & _ & _ & _ & _ & _ & DK).
  assert (Hxk : In k (map fst (keysl l))) by (apply in_map_iff; exists (k, d); auto).
  destruct (DK k Hxk) as (Hq & Ho & Hr).
  rewrite lookup_defaults_notin by exact Hr. rewrite lookup_defaults_notin by exact Ho.
  rewrite lookup_scope1_notrest by exact Hr. rewrite lookup_keybinds.
  rewrite lookup_posb_none by assumption. rewrite (proj2 (is_key_param_in _ _) Hxk).
  destruct (first_pair k ps); reflexivity.
Qed.

(* the default forms pass 2 evaluates on the scope left by pass 1 *)
Lemma evals_scope1 :
  defaults_evals (l_opt l) (scope1 l ps args) ++
  defaults_evals (restl l) (defaults (l_opt l) (scope1 l ps args)) ++
  defaults_evals (keysl l) (defaults (restl l) (defaults (l_opt l) (scope1 l ps args))) ++
  map fst (filter has_def (l_aux l)) =
  map fst (filter has_def (skipn (length args - length (l_req l)) (l_opt l))) ++
  map fst (filter (fun kd => has_def kd && match first_pair (fst kd) ps with Some _ => false | None => true end) (keysl l)) ++
  map fst (filter has_def (l_aux l)).
Proof.
  destruct names_parts as (_ & NDo & NDr & NDk & _).
  rewrite !defaults_evals_filter by assumption.
  (* the &rest variable has no default form *)
  assert (ER : forall b, filter (fun xd : N * option Z => has_def xd && isnone (lookup b (fst xd))) (restl l) = [])
    by (intros b; unfold restl; destruct (l_rest l); reflexivity).
  rewrite ER. cbn [map app]. f_equal; [|f_equal].
  - rewrite filter_and. f_equal. f_equal. apply filter_skipn. intros j [x d] Hj. cbn [fst]. apply (opt_unbound j x d Hj).
  - f_equal. apply filter_ext_in. intros [k d] Hin. cbn [fst]. f_equal. apply (key_unbound k d Hin).
Qed.
End Scope1.

(* ---------- the binder model evaluates exactly the default forms the specification names ---------- *)
Lemma evals_M_err ds args k : bind_M ds args = OErr k -> evals_M ds args = [].
Proof.
  unfold bind_M, evals_M. cbv zeta.
  destruct (p_err (pass1 _ _ ds MReq _)); [reflexivity|]. destruct (p_args (pass1 _ _ ds MReq _)); [|reflexivity].
  destruct (length args <? req_count ds)%nat; [reflexivity|discriminate].
Qed.

Theorem evals_shape h args :
  NoDup (names (ll_of h)) -> rest_nodef h -> guard_l (ll_of h) args = true ->
  evals_M (build h) args = evals_S (ll_of h) args.
Proof.
  intros Hnd Hrd Hg. destruct (binder_shape_res h args Hrd Hg) as [k HM HS|ps st Hst He Ha Hlen Hsc HS Hps].
  - rewrite (evals_M_err _ _ _ HM). unfold evals_S. rewrite HS. reflexivity.
  - unfold evals_S. rewrite HS, <- Hps.
    unfold evals_M. fold (st0 args). cbv zeta. rewrite Hst, He, Ha, req_count_build.
    destruct (Nat.ltb_spec (length args) (length (l_req (ll_of h)))); [lia|].
    change (match p_rest st, p_restsym st with _ :: _, Some r => bind (p_b st) r (VList (p_rest st)) | _, _ => p_b st end) with (scope_of st).
    rewrite Hsc, p2e_build, restvars_restl by exact Hrd. rewrite <- keysl_ll_of.
    change (vars (h_opt h)) with (l_opt (ll_of h)). change (vars (h_aux h)) with (l_aux (ll_of h)).
    rewrite (evals_scope1 (ll_of h) ps args Hnd Hlen). unfold keysl. reflexivity.
Qed.

Theorem evals_meet_spec ds l args :
  parse_ll ds = Some l -> NoDup (params ds) -> rest_plain ds = true -> in_domain ds args = true ->
  evals_M ds args = evals_S l args.
Proof.
  intros Hp Hnd Hrp Hg. unfold in_domain in Hg. rewrite Hp in Hg.
  destruct (parse_shape ds l Hp) as (h & -> & ->).
  apply evals_shape; [rewrite <- params_build; exact Hnd|apply rest_plain_nodef; exact Hrp|exact Hg].
Qed.

Lemma nth_error_skipn' {A} n : forall (l : list A) k, nth_error (skipn n l) k = nth_error l (n + k).
Proof. induction n as [|n IH]; intros l k; [reflexivity|]. destruct l; [destruct k; reflexivity|]. cbn. apply IH. Qed.

(* in property terms: the default form of a parameter that got an argument is NOT evaluated ... *)
Corollary supplied_optional_not_evaluated ds l args j x d :
  parse_ll ds = Some l -> NoDup (params ds) -> rest_plain ds = true -> in_domain ds args = true ->
  nth_error (l_opt l) j = Some (x, d) -> (length (l_req l) + j < length args)%nat ->
  ~ In x (evals_M ds args).
Proof.
  intros Hp Hnd Hrp Hg Hj Hlt. rewrite (evals_meet_spec ds l args Hp Hnd Hrp Hg).
  assert (Hn : NoDup (names l)) by (destruct (parse_shape ds l Hp) as (h & -> & ->); rewrite <- params_build; exact Hnd).
  unfold names in Hn.
  destruct (NoDup_app_parts _ _ Hn) as (_ & Hn1 & _). destruct (NoDup_app_parts _ _ Hn1) as (NDo & Hn2 & DO).
  destruct (NoDup_app_parts _ _ Hn2) as (_ & Hn3 & _). 
  assert (Hxo : In x (map fst (l_opt l))) by (eapply nth_error_in_fst; exact Hj).
  unfold evals_S. destruct (bind_S l args); [|intros []]. rewrite !in_app_iff. intros [H|[H|H]].
  - (* among the optional parameters beyond the arguments: then x occurs twice in the optional section *)
    apply in_map_iff in H as ((x' & d') & E & H). cbn in E. subst x'. apply filter_In in H as [H _].
    apply In_nth_error in H as (k & Hk). rewrite nth_error_skipn' in Hk.
    assert (j = (length args - length (l_req l) + k)%nat).
    { apply (proj1 (NoDup_nth_error (map fst (l_opt l))) NDo).
      - rewrite map_length. apply nth_error_Some. congruence.
      - rewrite !nth_error_map, Hk, Hj. reflexivity. }
    lia.
  - apply in_map_iff in H as ((x' & d') & E & H). cbn in E. subst x'. apply filter_In in H as [H _].
    apply (DO x Hxo). rewrite !in_app_iff. right. left. unfold keysl. apply in_map_iff. exists (x, d'). split; [reflexivity|]. destruct (l_key l); [exact H|destruct H].
  - apply in_map_iff in H as ((x' & d') & E & H). cbn in E. subst x'. apply filter_In in H as [H _].
    apply (DO x Hxo). rewrite !in_app_iff. right. right. apply in_map_iff. exists (x, d'). auto.
Qed.
Lemma in_skipn' {A} n : forall (l : list A) x, In x (skipn n l) -> In x l.
Proof. induction n as [|n IH]; intros l x H; [exact H|]. destruct l; [destruct H|]. right. apply IH. exact H. Qed.

(* ... neither for a &key parameter whose keyword is among the key arguments *)
Corollary supplied_key_not_evaluated ds l args ks k d v :
  parse_ll ds = Some l -> NoDup (params ds) -> rest_plain ds = true -> in_domain ds args = true ->
  l_key l = Some ks -> In (k, d) ks -> first_pair k (pairs_of l args) = Some v ->
  ~ In k (evals_M ds args).
Proof.
  intros Hp Hnd Hrp Hg Hk Hin Hfp. rewrite (evals_meet_spec ds l args Hp Hnd Hrp Hg).
  assert (Hn : NoDup (names l)) by (destruct (parse_shape ds l Hp) as (h & -> & ->); rewrite <- params_build; exact Hnd).
  unfold names in Hn.
  destruct (NoDup_app_parts _ _ Hn) as (_ & Hn1 & _). destruct (NoDup_app_parts _ _ Hn1) as (_ & Hn2 & DO).
  destruct (NoDup_app_parts _ _ Hn2) as (_ & Hn3 & _). destruct (NoDup_app_parts _ _ Hn3) as (_ & _ & DK).
  assert (Hkk : In k (map fst (keysl l))) by (unfold keysl; rewrite Hk; apply in_map_iff; exists (k, d); auto).
  unfold evals_S. destruct (bind_S l args); [|intros []]. rewrite !in_app_iff. intros [H|[H|H]].
  - apply in_map_iff in H as ((x' & d') & E & H). cbn in E. subst x'. apply filter_In in H as [H _].
    apply (DO k); [apply in_map_iff; exists (k, d'); split; [reflexivity|eapply in_skipn'; exact H]|].
    rewrite !in_app_iff. right. left. exact Hkk.
  - apply in_map_iff in H as ((x' & d') & E & H). cbn in E. subst x'. apply filter_In in H as [_ H].
    cbn [fst] in H. rewrite Hfp, andb_false_r in H. discriminate.
  - apply (DK k Hkk). apply in_map_iff in H as ((x' & d') & E & H). cbn in E. subst x'. apply filter_In in H as [H _].
    apply in_map_iff. exists (k, d'). auto.
Qed.

(* non-vacuity: (defun f (a &optional (b 5) (c 6) &key (k 7) (m 8) &aux (x 9)) ...) *)
Lemma evals_examples :
  let ds := [D 0; Mk POptional; {| d_name := PVar 1; d_def := Some 5%Z |}; {| d_name := PVar 2; d_def := Some 6%Z |};
             Mk PKey; {| d_name := PVar 3; d_def := Some 7%Z |}; {| d_name := PVar 4; d_def := Some 8%Z |};
             Mk PAux; {| d_name := PVar 5; d_def := Some 9%Z |}] in
  evals_M ds [AInt 1%Z] = [1; 2; 3; 4; 5] /\
  evals_M ds [AInt 1%Z; AInt 2%Z] = [2; 3; 4; 5] /\
  evals_M ds [AInt 1%Z; AInt 2%Z; AInt 3%Z; AKw 4; AInt 0%Z] = [3; 5] /\
  evals_M ds [AInt 1%Z; AInt 2%Z; AInt 3%Z; AKw 4; AInt 0%Z; AKw 3; ANil] = [5] /\
  evals_M ds [] = [] /\ evals_M ds [AInt 1%Z; AInt 2%Z; AInt 3%Z; AKw 9; AInt 0%Z] = [] /\
  in_domain ds [AInt 1%Z; AInt 2%Z; AInt 3%Z; AKw 4; AInt 0%Z] = true.
Proof. cbv zeta. repeat split; vm_compute; reflexivity. Qed.

(* the form evaluated by the correspondence on every run (Corr.check_case, code 3): inside the guard the model meets
   the specification in the outcome AND in the default forms evaluated *)
Corollary self_check_silent ds l args traced :
  parse_ll ds = Some l -> NoDup (params ds) -> rest_plain ds = true -> in_domain ds args = true ->
  outcome_eqv (reorder ds (bind_S l args)) (bind_M ds args) &&
  list_eqb N.eqb (traced_only traced (evals_S l args)) (traced_only traced (evals_M ds args)) = true.
Proof.
  intros Hp Hnd Hrp Hg. rewrite (binder_meets_spec_eqv ds l args Hp Hnd Hrp Hg), (evals_meet_spec ds l args Hp Hnd Hrp Hg).
  apply list_eqb_refl. exact N.eqb_refl.
Qed.
