From C04 Require Import Model Spec.
Open Scope N_scope.
Definition case := (list docarg * list arg * outcome)%type.
Definition check_case (c : case) : N :=
  let '(ds, args, obs) := c in
  let m := bind_M ds args in
  let dom := in_domain ds args in
  let s_obs := match spec_of ds args with Some s => outcome_eqv s obs | None => true end in
  let s_m := match spec_of ds args with Some s => outcome_eqv s m | None => true end in
  if outcome_eqb m obs then (if dom && negb s_m then 3 else 0)
  else if (dom || s_m) && negb s_obs then 2 else 1.
Fixpoint check_all_from (i : N) (cs : list case) : list (N * N) :=
  match cs with
  | [] => []
  | c :: cs' => let r := check_case c in (if N.eqb r 0 then [] else [(i, r)]) ++ check_all_from (N.succ i) cs'
  end.
Definition check_all := check_all_from 0.
Definition guard_count (cs : list case) : N := N.of_nat (length (filter (fun c => let '(ds, args, _) := c in in_domain ds args) cs)).
