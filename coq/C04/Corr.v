From C04 Require Import Model Spec.
Open Scope N_scope.
(* a case: the lambda list, the argument vector, the observed outcome, the parameters whose default form reports
   its own evaluation (it pushes the parameter's index on a global list), and the evaluations observed, in order *)
Definition case := (list docarg * list arg * outcome * list N * list N)%type.
Definition traced_only (traced : list N) (es : list N) : list N := filter (fun x => existsb (N.eqb x) traced) es.
Definition check_case (c : case) : N :=
  let '(ds, args, obs, traced, otr) := c in
  let m := bind_M ds args in
  let em := traced_only traced (evals_M ds args) in
  let dom := in_domain ds args in
  let es := match parse_ll ds with Some l => Some (traced_only traced (evals_S l args)) | None => None end in
  (* does the observation / the model meet the specification: the outcome AND the default forms evaluated *)
  let s_obs := match spec_of ds args with Some s => outcome_eqv s obs | None => true end &&
               match es with Some e => list_eqb N.eqb e otr | None => true end in
  let s_m := match spec_of ds args with Some s => outcome_eqv s m | None => true end &&
             match es with Some e => list_eqb N.eqb e em | None => true end in
  if outcome_eqb m obs && list_eqb N.eqb em otr then (if dom && negb s_m then 3 else 0)
  else if (dom || s_m) && negb s_obs then 2 else 1.
Fixpoint check_all_from (i : N) (cs : list case) : list (N * N) :=
  match cs with
  | [] => []
  | c :: cs' => let r := check_case c in (if N.eqb r 0 then [] else [(i, r)]) ++ check_all_from (N.succ i) cs'
  end.
Definition check_all := check_all_from 0.
Definition guard_count (cs : list case) : N := N.of_nat (length (filter (fun c => let '(ds, args, _, _, _) := c in in_domain ds args) cs)).
(* cases in which some traced default form had to stay unevaluated because its parameter got an argument *)
Definition supplied_count (cs : list case) : N :=
  N.of_nat (length (filter (fun c => let '(ds, args, _, traced, _) := c in
                                     negb (Nat.eqb (length (traced_only traced (evals_M ds args))) (length traced)) &&
                                     match bind_M ds args with OBound _ => true | OErr _ => false end) cs)).

(* ---- round 5: cases whose default forms read earlier parameters ---- *)
Definition xcase := (list xdocarg * list arg * outcome * list N * list N)%type.
Definition xoutcome_is (m : xoutcome) (obs : outcome) : bool :=
  match m with XO o => outcome_eqb o obs | XUnbound _ => false end.
Definition check_xcase (c : xcase) : N :=
  let '(xs, args, obs, traced, otr) := c in
  let m := bind_Mx xs args in
  let em := traced_only traced (evals_Mx xs args) in
  let dom := in_domain_x xs args in
  let es := match parse_ll (map shape xs) with Some l => Some (traced_only traced (evals_S l args)) | None => None end in
  let s_obs := meets_Sx xs args obs && match es with Some e => list_eqb N.eqb e otr | None => true end in
  let s_m := match m with XO o => meets_Sx xs args o | XUnbound _ => false end &&
             match es with Some e => list_eqb N.eqb e em | None => true end in
  if xoutcome_is m obs && list_eqb N.eqb em otr then (if dom && negb s_m then 3 else 0)
  else if (dom || s_m) && negb s_obs then 2 else 1.
Fixpoint check_xall_from (i : N) (cs : list xcase) : list (N * N) :=
  match cs with
  | [] => []
  | c :: cs' => let r := check_xcase c in (if N.eqb r 0 then [] else [(i, r)]) ++ check_xall_from (N.succ i) cs'
  end.
Definition check_xall := check_xall_from 0.
Definition xguard_count (cs : list xcase) : N :=
  N.of_nat (length (filter (fun c => let '(xs, args, _, _, _) := c in in_domain_x xs args) cs)).
(* cases in which a form read a parameter that had itself been defaulted by pass 2 *)
Definition chained_count (cs : list xcase) : N :=
  N.of_nat (length (filter (fun c => let '(xs, args, _, _, _) := c in
     let ev := evals_Mx xs args in
     existsb (fun ad => match x_name ad, x_def ad with
                        | PVar x, Some (FRef y _) => existsb (N.eqb x) ev && negb (existsb (N.eqb y) (map (fun a => match a with AKw k => k | _ => 998 end) args)) &&
                                                     existsb (fun ad2 => match x_name ad2 with PVar y2 => N.eqb y y2 && negb (existsb (N.eqb y) (firstn (length args) (xparams xs))) | _ => false end) xs
                        | _, _ => false end) xs) cs)).
