(* C04 — executable model M of Lambda.Call's argument binder (lambda.go, two passes over Doc.Args). *)
From Coq Require Export List Bool NArith ZArith Lia.
Export ListNotations.

Inductive pname := PVar (id : N) | POptional | PRest | PKey | PAux | PAllow.
Record docarg := { d_name : pname; d_def : option Z }.      (* literal integer defaults only *)
Inductive arg := AInt (z : Z) | AKw (id : N) | ANil.         (* :name where name is variable id; nil *)
Inductive value := VInt (z : Z) | VKw (id : N) | VList (l : list arg) | VNil | VUnbound.

Inductive kind := KTooFew | KTooMany | KBadKey | KFault.
Inductive outcome := OBound (b : list (N * value)) | OErr (k : kind).

Definition arg_val (a : arg) : value := match a with AInt z => VInt z | AKw k => VKw k | ANil => VNil end.
Definition def_val (d : option Z) : value := match d with Some z => VInt z | None => VNil end.

(* scope: later Let of the same name overwrites *)
Fixpoint lookup (b : list (N * value)) (x : N) : option value :=
  match b with [] => None | (y, v) :: b' => if N.eqb x y then Some v else lookup b' x end.
Definition bind (b : list (N * value)) (x : N) (v : value) : list (N * value) := (x, v) :: b.

Inductive mode := MReq | MOpt | MRest | MKey.

Definition is_later_param (k : N) (ds : list docarg) : bool :=
  existsb (fun d => match d_name d with PVar x => N.eqb x k | _ => false end) ds.

(* restMode inner loop: collect arguments until a keyword that names a later parameter *)
Fixpoint rest_loop (later : list docarg) (args : list arg) (acc : list arg) : list arg * list arg * bool :=
  match args with
  | [] => (acc, [], false)
  | a :: args' =>
      match a with
      | AKw k => if is_later_param k later then (acc, args, true) else rest_loop later args' (acc ++ [a])
      | _ => rest_loop later args' (acc ++ [a])
      end
  end.
(* keyMode inner loop: every keyword is bound, whatever its name *)
Fixpoint key_loop (fuel : nat) (args : list arg) (b : list (N * value)) : list (N * value) + kind :=
  match fuel with
  | O => inr KFault
  | S f =>
      match args with
      | [] => inl b
      | AKw k :: [] => inr KFault                      (* panic("Missing value for key") : a Go panic *)
      | AKw k :: v :: args' => key_loop f args' (bind b k (arg_val v))
      | (AInt _ | ANil) :: _ => inr KBadKey            (* TypePanic: keyword to function *)
      end
  end.

Record p1 := { p_args : list arg; p_b : list (N * value); p_rest : list arg; p_restsym : option N; p_err : option kind }.

Fixpoint pass1 (ds : list docarg) (m : mode) (st : p1) : p1 :=
  match ds with
  | [] => st
  | ad :: ds' =>
      match p_args st, p_err st with
      | [], _ => st                                     (* if len(args) <= ai { break } *)
      | _, Some _ => st
      | a :: rest_args, None =>
          match m with
          | MReq | MOpt =>
              match d_name ad with
              | POptional => pass1 ds' (match m with MReq => MOpt | _ => m end) st
              | PRest => pass1 ds' MRest st
              | PKey => pass1 ds' MKey st
              | PAux => st                               (* break Aux *)
              | PAllow => pass1 ds' m st
              | PVar x => pass1 ds' m {| p_args := rest_args; p_b := bind (p_b st) x (arg_val a); p_rest := p_rest st;
                                          p_restsym := p_restsym st; p_err := None |}
              end
          | MRest =>
              let '(acc, remaining, switched) := rest_loop ds' (p_args st) (p_rest st) in
              let sym := match d_name ad, p_restsym st with
                         | PVar x, None => if Nat.eqb (length acc) (length (p_rest st)) then None else Some x
                         | _, s => s end in
              pass1 ds' (if switched then MKey else MRest)
                    {| p_args := remaining; p_b := p_b st; p_rest := acc; p_restsym := sym; p_err := None |}
          | MKey =>
              match key_loop (S (length (p_args st))) (p_args st) (p_b st) with
              | inl b => pass1 ds' MKey {| p_args := []; p_b := b; p_rest := p_rest st; p_restsym := p_restsym st; p_err := None |}
              | inr k => {| p_args := p_args st; p_b := p_b st; p_rest := p_rest st; p_restsym := p_restsym st; p_err := Some k |}
              end
          end
      end
  end.

Inductive mode2 := M2Req | M2Opt | M2Rest | M2Key | M2Aux.
Definition default_if_unbound (b : list (N * value)) (x : N) (d : option Z) : list (N * value) :=
  match lookup b x with Some _ => b | None => bind b x (def_val d) end.
Fixpoint pass2 (ds : list docarg) (m : mode2) (b : list (N * value)) : list (N * value) :=
  match ds with
  | [] => b
  | ad :: ds' =>
      match m with
      | M2Req => pass2 ds' (match d_name ad with POptional => M2Opt | PRest => M2Rest | PKey => M2Key | PAux => M2Aux | _ => M2Req end) b
      | M2Opt => match d_name ad with
                 | PRest => pass2 ds' M2Rest b | PKey => pass2 ds' M2Key b | PAux => pass2 ds' M2Aux b | PAllow => pass2 ds' M2Opt b
                 | PVar x => pass2 ds' M2Opt (default_if_unbound b x (d_def ad))
                 | POptional => pass2 ds' M2Opt b
                 end
      | M2Rest => match d_name ad with
                  | PKey => pass2 ds' M2Key b | PAux => pass2 ds' M2Aux b | PAllow => pass2 ds' M2Rest b
                  | PVar x => pass2 ds' M2Rest (default_if_unbound b x (d_def ad))
                  | _ => pass2 ds' M2Rest b
                  end
      | M2Key => match d_name ad with
                 | PAux => pass2 ds' M2Aux b
                 | PVar x => pass2 ds' M2Key (default_if_unbound b x (d_def ad))
                 | _ => pass2 ds' M2Key b
                 end
      | M2Aux => match d_name ad with PVar x => pass2 ds' M2Aux (bind b x (def_val (d_def ad))) | _ => pass2 ds' M2Aux b end
      end
  end.

Definition params (ds : list docarg) : list N :=
  flat_map (fun d => match d_name d with PVar x => [x] | _ => [] end) ds.

(* Lambda.Call up to BoundCall; the body then reports every parameter (or that it is unbound) *)
Definition bind_M (ds : list docarg) (args : list arg) : outcome :=
  let st := pass1 ds MReq {| p_args := args; p_b := []; p_rest := []; p_restsym := None; p_err := None |} in
  match p_err st with
  | Some k => OErr k
  | None =>
      match p_args st with
      | _ :: _ => OErr KTooMany
      | [] =>
          let b := match p_rest st, p_restsym st with
                   | _ :: _, Some r => bind (p_b st) r (VList (p_rest st))
                   | _, _ => p_b st end in
          let b := pass2 ds M2Req b in
          OBound (map (fun x => (x, match lookup b x with Some v => v | None => VUnbound end)) (params ds))
      end
  end.
