(* C04 — executable model M of Lambda.Call's argument binder (lambda.go, two passes over Doc.Args), as it
   stands after the repairs C04-1 .. C04-9 (repo_fixes). *)
From Coq Require Export List Bool NArith ZArith Lia.
Export ListNotations.

Inductive pname := PVar (id : N) | POptional | PRest | PKey | PAux | PAllow.
Record docarg := { d_name : pname; d_def : option Z }.      (* literal integer defaults only *)
Inductive arg := AInt (z : Z) | AKw (id : N) | ANil.         (* :name where name is variable id; nil *)
Inductive value := VInt (z : Z) | VKw (id : N) | VList (l : list arg) | VNil | VUnbound.

Inductive kind := KTooFew | KTooMany | KBadKey | KFault.
Inductive outcome := OBound (b : list (N * value)) | OErr (k : kind).

Definition arg_val (a : arg) : value := match a with AInt z => VInt z | AKw k => VKw k | ANil => VNil end.
Definition def_val (d : option Z) : value := match d with Some z => VInt z | None => VNil end.

(* scope: later Let of the same name overwrites *)
Fixpoint lookup (b : list (N * value)) (x : N) : option value :=
  match b with [] => None | (y, v) :: b' => if N.eqb x y then Some v else lookup b' x end.
Definition bind (b : list (N * value)) (x : N) (v : value) : list (N * value) := (x, v) :: b.

Inductive mode := MReq | MOpt | MRest | MKey.

(* FuncDoc.getKeyArg: the names between &key and &allow-other-keys / &aux *)
Fixpoint key_params_from (inkeys : bool) (ds : list docarg) : list N :=
  match ds with
  | [] => []
  | d :: ds' =>
      match d_name d with
      | PKey => key_params_from true ds'
      | PAllow | PAux => key_params_from false ds'
      | PVar x => if inkeys then x :: key_params_from inkeys ds' else key_params_from inkeys ds'
      | _ => key_params_from inkeys ds'
      end
  end.
Definition key_params (ds : list docarg) : list N := key_params_from false ds.
Definition is_key_param (ks : list N) (k : N) : bool := existsb (N.eqb k) ks.
Definition has_allow (ds : list docarg) : bool :=
  existsb (fun d => match d_name d with PAllow => true | _ => false end) ds.
(* the keyword :allow-other-keys (its "name" is no parameter index the harness uses) *)
Definition allow_kw : N := 999.
(* FuncDoc.otherKeyAllowed: the keyword is :allow-other-keys itself, the lambda list has &allow-other-keys, or
   the key arguments hold :allow-other-keys (at an even position; the first counts) with a non-nil value *)
Fixpoint allow_in_args (keyargs : list arg) : bool :=
  match keyargs with
  | a :: v :: rest => match a with
                      | AKw k => if N.eqb k allow_kw then match v with ANil => false | _ => true end else allow_in_args rest
                      | _ => allow_in_args rest
                      end
  | _ => false
  end.
Definition other_key_allowed (allow : bool) (keyargs : list arg) (k : N) : bool :=
  N.eqb k allow_kw || allow || allow_in_args keyargs.

(* restMode inner loop: collect arguments until a keyword that names a &key parameter *)
Fixpoint rest_loop (ks : list N) (args : list arg) (acc : list arg) : list arg * list arg * bool :=
  match args with
  | [] => (acc, [], false)
  | a :: args' =>
      match a with
      | AKw k => if is_key_param ks k then (acc, args, true) else rest_loop ks args' (acc ++ [a])
      | _ => rest_loop ks args' (acc ++ [a])
      end
  end.
(* keyMode inner loop: a keyword naming a &key parameter binds it unless it is bound already (the first
   of several counts); any other keyword is an error unless other keys are allowed *)
Fixpoint key_loop (fuel : nat) (ks : list N) (allow : bool) (keyargs : list arg) (args : list arg) (b : list (N * value))
  : list (N * value) + kind :=
  match fuel with
  | O => inr KFault
  | S f =>
      match args with
      | [] => inl b
      | AKw k :: [] => inr KBadKey                     (* ErrorPanic: Missing value for key *)
      | AKw k :: v :: args' =>
          if is_key_param ks k
          then key_loop f ks allow keyargs args' (match lookup b k with Some _ => b | None => bind b k (arg_val v) end)
          else if other_key_allowed allow keyargs k then key_loop f ks allow keyargs args' b
               else inr KBadKey                        (* ProgramPanic: not a keyword parameter *)
      | (AInt _ | ANil) :: _ => inr KBadKey            (* TypePanic: keyword to function *)
      end
  end.

Record p1 := { p_args : list arg; p_b : list (N * value); p_rest : list arg; p_restsym : option N; p_err : option kind }.

(* first pass; ks = key_params of the whole lambda list, allow = has_allow of it *)
Fixpoint pass1 (ks : list N) (allow : bool) (ds : list docarg) (m : mode) (st : p1) : p1 :=
  match ds with
  | [] => st
  | ad :: ds' =>
      match p_args st, p_err st with
      | [], _ => st                                     (* if len(args) <= ai { break } *)
      | _, Some _ => st
      | a :: rest_args, None =>
          match m with
          | MReq | MOpt =>
              match d_name ad with
              | POptional => pass1 ks allow ds' (match m with MReq => MOpt | _ => m end) st
              | PRest => pass1 ks allow ds' MRest st
              | PKey =>                                  (* mode = keyMode; bindKeys() *)
                  match key_loop (S (length (p_args st))) ks allow (p_args st) (p_args st) (p_b st) with
                  | inl b => pass1 ks allow ds' MKey {| p_args := []; p_b := b; p_rest := p_rest st; p_restsym := p_restsym st; p_err := None |}
                  | inr k => {| p_args := p_args st; p_b := p_b st; p_rest := p_rest st; p_restsym := p_restsym st; p_err := Some k |}
                  end
              | PAux => st                               (* break Aux *)
              | PAllow => pass1 ks allow ds' m st
              | PVar x => pass1 ks allow ds' m {| p_args := rest_args; p_b := bind (p_b st) x (arg_val a); p_rest := p_rest st;
                                          p_restsym := p_restsym st; p_err := None |}
              end
          | MRest =>
              let '(acc, remaining, switched) := rest_loop ks (p_args st) (p_rest st) in
              let sym := match d_name ad, p_restsym st with
                         | PVar x, None => if Nat.eqb (length acc) (length (p_rest st)) then None else Some x
                         | _, s => s end in
              pass1 ks allow ds' (if switched then MKey else MRest)
                    {| p_args := remaining; p_b := p_b st; p_rest := acc; p_restsym := sym; p_err := None |}
          | MKey =>
              match key_loop (S (length (p_args st))) ks allow (p_args st) (p_args st) (p_b st) with
              | inl b => pass1 ks allow ds' MKey {| p_args := []; p_b := b; p_rest := p_rest st; p_restsym := p_restsym st; p_err := None |}
              | inr k => {| p_args := p_args st; p_b := p_b st; p_rest := p_rest st; p_restsym := p_restsym st; p_err := Some k |}
              end
          end
      end
  end.

Inductive mode2 := M2Req | M2Opt | M2Rest | M2Key | M2Aux.
Definition default_if_unbound (b : list (N * value)) (x : N) (d : option Z) : list (N * value) :=
  match lookup b x with Some _ => b | None => bind b x (def_val d) end.
Fixpoint pass2 (ds : list docarg) (m : mode2) (b : list (N * value)) : list (N * value) :=
  match ds with
  | [] => b
  | ad :: ds' =>
      match m with
      | M2Req => pass2 ds' (match d_name ad with POptional => M2Opt | PRest => M2Rest | PKey => M2Key | PAux => M2Aux | _ => M2Req end) b
      | M2Opt => match d_name ad with
                 | PRest => pass2 ds' M2Rest b | PKey => pass2 ds' M2Key b | PAux => pass2 ds' M2Aux b | PAllow => pass2 ds' M2Opt b
                 | PVar x => pass2 ds' M2Opt (default_if_unbound b x (d_def ad))
                 | POptional => pass2 ds' M2Opt b
                 end
      | M2Rest => match d_name ad with
                  | PKey => pass2 ds' M2Key b | PAux => pass2 ds' M2Aux b | PAllow => pass2 ds' M2Rest b
                  | PVar x => pass2 ds' M2Rest (default_if_unbound b x (d_def ad))
                  | _ => pass2 ds' M2Rest b
                  end
      | M2Key => match d_name ad with
                 | PAux => pass2 ds' M2Aux b
                 | PVar x => pass2 ds' M2Key (default_if_unbound b x (d_def ad))
                 | _ => pass2 ds' M2Key b
                 end
      | M2Aux => match d_name ad with PVar x => pass2 ds' M2Aux (bind b x (def_val (d_def ad))) | _ => pass2 ds' M2Aux b end
      end
  end.

(* ---- which default forms are EVALUATED (round 3) ----
   Pass 2 evaluates the default form of an &optional / &rest / &key parameter only when no argument was bound to
   the parameter ("if !bound(name) { ss.Let(name, ss.Eval(ad.Default)) }"), the form of an &aux parameter always.
   A parameter without a default form (Default nil) has nothing to evaluate.  The result lists the parameters
   whose form is evaluated, in the order of evaluation; the scope is threaded exactly as in pass2. *)
Definition eval_if_unbound (b : list (N * value)) (x : N) (d : option Z) : list N :=
  match d, lookup b x with Some _, None => [x] | _, _ => [] end.
Fixpoint pass2_evals (ds : list docarg) (m : mode2) (b : list (N * value)) : list N :=
  match ds with
  | [] => []
  | ad :: ds' =>
      match m with
      | M2Req => pass2_evals ds' (match d_name ad with POptional => M2Opt | PRest => M2Rest | PKey => M2Key | PAux => M2Aux | _ => M2Req end) b
      | M2Opt => match d_name ad with
                 | PRest => pass2_evals ds' M2Rest b | PKey => pass2_evals ds' M2Key b | PAux => pass2_evals ds' M2Aux b | PAllow => pass2_evals ds' M2Opt b
                 | PVar x => eval_if_unbound b x (d_def ad) ++ pass2_evals ds' M2Opt (default_if_unbound b x (d_def ad))
                 | POptional => pass2_evals ds' M2Opt b
                 end
      | M2Rest => match d_name ad with
                  | PKey => pass2_evals ds' M2Key b | PAux => pass2_evals ds' M2Aux b | PAllow => pass2_evals ds' M2Rest b
                  | PVar x => eval_if_unbound b x (d_def ad) ++ pass2_evals ds' M2Rest (default_if_unbound b x (d_def ad))
                  | _ => pass2_evals ds' M2Rest b
                  end
      | M2Key => match d_name ad with
                 | PAux => pass2_evals ds' M2Aux b
                 | PVar x => eval_if_unbound b x (d_def ad) ++ pass2_evals ds' M2Key (default_if_unbound b x (d_def ad))
                 | _ => pass2_evals ds' M2Key b
                 end
      | M2Aux => match d_name ad with
                 | PVar x => (match d_def ad with Some _ => [x] | None => [] end) ++ pass2_evals ds' M2Aux (bind b x (def_val (d_def ad)))
                 | _ => pass2_evals ds' M2Aux b
                 end
      end
  end.

Definition params (ds : list docarg) : list N :=
  flat_map (fun d => match d_name d with PVar x => [x] | _ => [] end) ds.

(* FuncDoc.requiredCount: the entries before the first marker *)
Fixpoint req_count (ds : list docarg) : nat :=
  match ds with
  | d :: ds' => match d_name d with PVar _ => S (req_count ds') | _ => O end
  | [] => O
  end.

(* Lambda.Call up to BoundCall; the body then reports every parameter (or that it is unbound) *)
Definition bind_M (ds : list docarg) (args : list arg) : outcome :=
  let st := pass1 (key_params ds) (has_allow ds) ds MReq {| p_args := args; p_b := []; p_rest := []; p_restsym := None; p_err := None |} in
  match p_err st with
  | Some k => OErr k
  | None =>
      match p_args st with
      | _ :: _ => OErr KTooMany
      | [] =>
          if (length args <? req_count ds)%nat then OErr KTooFew else
          let b := match p_rest st, p_restsym st with
                   | _ :: _, Some r => bind (p_b st) r (VList (p_rest st))
                   | _, _ => p_b st end in
          let b := pass2 ds M2Req b in
          OBound (map (fun x => (x, match lookup b x with Some v => v | None => VUnbound end)) (params ds))
      end
  end.

(* the default forms Lambda.Call evaluates, in order; none when the call is rejected (every rejection of the binder
   happens before pass 2) *)
Definition evals_M (ds : list docarg) (args : list arg) : list N :=
  let st := pass1 (key_params ds) (has_allow ds) ds MReq {| p_args := args; p_b := []; p_rest := []; p_restsym := None; p_err := None |} in
  match p_err st with
  | Some _ => []
  | None =>
      match p_args st with
      | _ :: _ => []
      | [] =>
          if (length args <? req_count ds)%nat then [] else
          let b := match p_rest st, p_restsym st with
                   | _ :: _, Some r => bind (p_b st) r (VList (p_rest st))
                   | _, _ => p_b st end in
          pass2_evals ds M2Req b
      end
  end.

(* ---- default FORMS that read an earlier parameter (round 5) ----
   Until round 4 the model saw a default form as the literal it evaluates to.  Lambda.Call evaluates the form of
   an unsupplied parameter in "cur", the innermost of the scopes built so far: the parameters bound from the
   arguments by pass 1 AND every parameter pass 2 has defaulted before it.  A form is now either a literal or
   FRef y k, standing for the Lisp form (if (integerp y) (+ y k) nil): the integer value of variable y plus k,
   nil when y holds something that is no integer, the condition unbound-variable when y is not bound in the
   scope the form is evaluated in. *)
Inductive dform := FLit (z : Z) | FRef (y : N) (k : Z).
Record xdocarg := { x_name : pname; x_def : option dform }.
Inductive xoutcome := XO (o : outcome) | XUnbound (y : N).

(* the value of a form where the variables are looked up with look: None = unbound variable *)
Definition form_val (look : N -> option value) (f : dform) : option (option Z) :=
  match f with
  | FLit z => Some (Some z)
  | FRef y k => match look y with
                | Some (VInt z) => Some (Some (z + k)%Z)
                | Some _ => Some None
                | None => None
                end
  end.
Definition form_var (f : dform) : N := match f with FRef y _ => y | FLit _ => 0%N end.
(* the entry without its form (pass 1 and the section bookkeeping never look at the form) *)
Definition strip (ad : xdocarg) : docarg := {| d_name := x_name ad; d_def := None |}.
(* the entry as pass 2 sees it at the moment it gets there: the form replaced by its value in the current scope *)
Definition lit1 (look : N -> option value) (ad : xdocarg) : option docarg :=
  match x_def ad with
  | None => Some (strip ad)
  | Some f => match form_val look f with
              | Some v => Some {| d_name := x_name ad; d_def := v |}
              | None => None
              end
  end.
(* does pass 2 evaluate the form of this entry: "if !bound(name) { bindDefault(...) }" in the &optional, &rest and
   &key sections, always in the &aux section *)
Definition needs_eval (m : mode2) (b : list (N * value)) (ad : xdocarg) : bool :=
  match x_name ad, m with
  | PVar x, (M2Opt | M2Rest | M2Key) => match lookup b x with None => true | Some _ => false end
  | PVar x, M2Aux => true
  | _, _ => false
  end.
Definition next_mode2 (n : pname) (m : mode2) : mode2 :=
  match m with
  | M2Req => match n with POptional => M2Opt | PRest => M2Rest | PKey => M2Key | PAux => M2Aux | _ => M2Req end
  | M2Opt => match n with PRest => M2Rest | PKey => M2Key | PAux => M2Aux | _ => M2Opt end
  | M2Rest => match n with PKey => M2Key | PAux => M2Aux | _ => M2Rest end
  | M2Key => match n with PAux => M2Aux | _ => M2Key end
  | M2Aux => M2Aux
  end.
(* one entry of pass 2: the form (if it is evaluated at all) is evaluated in the scope b built so far, then the
   entry is handled as pass2 handles an entry with that literal *)
Definition pass2x_step (m : mode2) (b : list (N * value)) (ad : xdocarg) : list (N * value) + N :=
  if needs_eval m b ad
  then match lit1 (lookup b) ad with
       | Some lad => inl (pass2 [lad] m b)
       | None => inr (match x_def ad with Some f => form_var f | None => 0%N end)
       end
  else inl (pass2 [strip ad] m b).
Fixpoint pass2x (ds : list xdocarg) (m : mode2) (b : list (N * value)) : list (N * value) + N :=
  match ds with
  | [] => inl b
  | ad :: ds' => match pass2x_step m b ad with
                 | inl b1 => pass2x ds' (next_mode2 (x_name ad) m) b1
                 | inr y => inr y
                 end
  end.
Definition xparams (ds : list xdocarg) : list N := params (map strip ds).
Definition report (b : list (N * value)) (ps : list N) : list (N * value) :=
  map (fun x => (x, match lookup b x with Some v => v | None => VUnbound end)) ps.
Definition bind_Mx (xs : list xdocarg) (args : list arg) : xoutcome :=
  let ds := map strip xs in
  let st := pass1 (key_params ds) (has_allow ds) ds MReq {| p_args := args; p_b := []; p_rest := []; p_restsym := None; p_err := None |} in
  match p_err st with
  | Some k => XO (OErr k)
  | None =>
      match p_args st with
      | _ :: _ => XO (OErr KTooMany)
      | [] =>
          if (length args <? req_count ds)%nat then XO (OErr KTooFew) else
          let b := match p_rest st, p_restsym st with
                   | _ :: _, Some r => bind (p_b st) r (VList (p_rest st))
                   | _, _ => p_b st end in
          match pass2x xs M2Req b with
          | inl b' => XO (OBound (report b' (params ds)))
          | inr y => XUnbound y
          end
      end
  end.
(* which forms are evaluated does not depend on what they evaluate to: every form stands as "some default" *)
Definition shape (ad : xdocarg) : docarg :=
  {| d_name := x_name ad; d_def := match x_def ad with Some _ => Some 0%Z | None => None end |}.
Definition evals_Mx (xs : list xdocarg) (args : list arg) : list N :=
  match bind_Mx xs args with XO _ => evals_M (map shape xs) args | XUnbound _ => [] end.
