(* C04 round 5 — default forms that read an earlier parameter: the binder with forms (pass2x / bind_Mx) binds as
   the lambda list prescribes, for every lambda list with distinct names whose forms refer to their left. *)
From C04 Require Import Model Spec Proofs ProofsRestKey.
Open Scope list_scope.

Lemma pass2_cons ad ds m b : pass2 (ad :: ds) m b = pass2 ds (next_mode2 (d_name ad) m) (pass2 [ad] m b).
Proof. destruct m; cbn [pass2 next_mode2]; destruct (d_name ad); reflexivity. Qed.

Lemma step_shape a m b : pass2 [a] m b = b \/ exists x v, d_name a = PVar x /\ pass2 [a] m b = bind b x v.
Proof.
  destruct m; cbn [pass2]; destruct (d_name a) as [x| | | | |]; try (left; reflexivity);
    try (unfold default_if_unbound; destruct (lookup b x)); try (left; reflexivity); right; eauto.
Qed.

Lemma step_stable a m b y v :
  lookup b y = Some v -> (forall x, d_name a = PVar x -> x <> y) -> lookup (pass2 [a] m b) y = Some v.
Proof.
  intros H Hn. destruct (step_shape a m b) as [E|(x & w & En & E)]; rewrite E; auto.
  unfold bind; cbn [lookup]. destruct (N.eqb_spec y x); [subst; exfalso; eapply Hn; eauto | auto].
Qed.

Lemma lit1_name look a d : lit1 look a = Some d -> d_name d = x_name a.
Proof. unfold lit1. destruct (x_def a); [destruct (form_val look d0)|]; intros H; inversion H; reflexivity. Qed.

Lemma xparams_cons a xs : xparams (a :: xs) = (match x_name a with PVar x => [x] | _ => [] end) ++ xparams xs.
Proof. reflexivity. Qed.

Lemma step_x_stable a m b b1 y v :
  pass2x_step m b a = inl b1 -> lookup b y = Some v -> (forall x, x_name a = PVar x -> x <> y) -> lookup b1 y = Some v.
Proof.
  unfold pass2x_step. intros Hs Hl Hn. destruct (needs_eval m b a).
  - destruct (lit1 (lookup b) a) eqn:Hl1; [|discriminate]. injection Hs as <-. apply (step_stable d m b y v); auto.
    intros x Hx. apply Hn. rewrite <- (lit1_name _ _ _ Hl1). exact Hx.
  - injection Hs as <-. apply (step_stable (strip a) m b y v); auto.
Qed.

Lemma pass2x_stable y v : forall xs m b b',
  pass2x xs m b = inl b' -> lookup b y = Some v -> ~ In y (xparams xs) -> lookup b' y = Some v.
Proof.
  induction xs as [|a xs IH]; intros m b b' H Hl Hn.
  - inversion H. subst. exact Hl.
  - cbn [pass2x] in H. destruct (pass2x_step m b a) eqn:Hs; try discriminate.
    rewrite xparams_cons in Hn. eapply IH; [exact H | | intro; apply Hn; apply in_or_app; auto].
    eapply step_x_stable; eauto. intros x Hx E. apply Hn. rewrite Hx. subst. cbn [app]. left. reflexivity.
Qed.

Definition int_of (ov : option value) : option Z := match ov with Some (VInt z) => Some z | _ => None end.
Lemma litd_int rho f : litd rho f = match f with FLit z => Some z | FRef y k => option_map (fun z => (z + k)%Z) (int_of (rho y)) end.
Proof. destruct f; [reflexivity|]. unfold litd, form_val. destruct (rho y) as [[]|]; reflexivity. Qed.

Lemma existsb_In y l : existsb (N.eqb y) l = true -> In y l.
Proof. intros H. apply existsb_exists in H. destruct H as (x & Hi & E). apply N.eqb_eq in E. subst. exact Hi. Qed.

(* the scope pass 2 ends with is a fixed point: pass 2 over the lambda list whose forms are replaced by their
   values under (any environment that agrees on the integers with) the FINAL scope gives that same scope *)
Lemma pass2x_fix rho : forall xs m b b' seen,
  pass2x xs m b = inl b' ->
  refs_back seen xs = true ->
  (forall y, In y seen -> ~ In y (xparams xs)) ->
  NoDup (xparams xs) ->
  (forall y, In y seen -> int_of (rho y) = int_of (lookup b' y)) ->
  (forall y, In y (xparams xs) -> int_of (rho y) = int_of (lookup b' y)) ->
  pass2 (map (lit rho) xs) m b = b'.
Proof.
  induction xs as [|a xs IH]; intros m b b' seen H Hr Hs Hnd Hag1 Hag2.
  - inversion H. reflexivity.
  - assert (Hall := H). cbn [pass2x] in H. destruct (pass2x_step m b a) as [b1|] eqn:Hst; try discriminate.
    cbn [map]. rewrite pass2_cons. cbn [refs_back] in Hr. apply andb_prop in Hr. destruct Hr as [Hr1 Hr2].
    assert (Hb1 : pass2 [lit rho a] m b = b1).
    { unfold pass2x_step in Hst. destruct (needs_eval m b a) eqn:Hne.
      - destruct (lit1 (lookup b) a) as [lad|] eqn:Hl; [|discriminate]. injection Hst as <-. f_equal. f_equal.
        unfold lit1 in Hl. unfold lit. destruct (x_def a) as [f|] eqn:Ef.
        + destruct (form_val (lookup b) f) as [o|] eqn:Ev; inversion Hl. f_equal.
          rewrite litd_int. destruct f as [z|y k].
          * cbn in Ev. inversion Ev. reflexivity.
          * apply existsb_In in Hr1. cbn [form_val] in Ev.
            destruct (lookup b y) as [w|] eqn:Hw; try discriminate.
            assert (Hf : lookup b' y = Some w) by (eapply pass2x_stable; eauto).
            rewrite (Hag1 y Hr1), Hf. destruct w; inversion Ev; reflexivity.
        + inversion Hl. reflexivity.
      - injection Hst as <-. unfold needs_eval in Hne.
        destruct m; cbn [pass2 lit strip d_name d_def]; destruct (x_name a) as [x| | | | |]; try reflexivity;
          unfold default_if_unbound; destruct (lookup b x); (reflexivity || discriminate). }
    cbn [lit d_name]. rewrite Hb1. rewrite xparams_cons in *.
    apply IH with (seen := match x_name a with PVar x => x :: seen | _ => seen end); auto.
    + intros y Hy. destruct (x_name a) as [x| | | | |];
        try (intro Hi; apply (Hs y Hy); apply in_or_app; right; exact Hi).
      destruct Hy as [E|Hy].
      * subst. cbn [app] in Hnd. inversion Hnd. assumption.
      * intro Hi; apply (Hs y Hy); apply in_or_app; right; exact Hi.
    + destruct (x_name a); cbn [app] in Hnd; try exact Hnd. inversion Hnd; assumption.
    + intros y Hy. destruct (x_name a) as [x| | | | |]; auto.
      destruct Hy as [E|Hy]; auto. subst. apply Hag2. left. reflexivity.
    + intros y Hy. apply Hag2. apply in_or_app. right. exact Hy.
Qed.

(* ---- everything but pass 2 looks at the names only ---- *)
Lemma key_params_from_names : forall ds1 ds2 k, map d_name ds1 = map d_name ds2 -> key_params_from k ds1 = key_params_from k ds2.
Proof.
  induction ds1 as [|d ds1 IH]; destruct ds2 as [|e ds2]; cbn [map]; intros k H; try discriminate; auto.
  injection H as Hn Ht. cbn [key_params_from]. rewrite Hn. destruct (d_name e); try destruct k; rewrite ?(IH ds2) by exact Ht; reflexivity.
Qed.
Lemma has_allow_names : forall ds1 ds2, map d_name ds1 = map d_name ds2 -> has_allow ds1 = has_allow ds2.
Proof.
  unfold has_allow. induction ds1 as [|d ds1 IH]; destruct ds2 as [|e ds2]; cbn [map]; intros H; try discriminate; auto.
  injection H as Hn Ht. cbn [existsb]. rewrite Hn, (IH ds2) by exact Ht. reflexivity.
Qed.
Lemma req_count_names : forall ds1 ds2, map d_name ds1 = map d_name ds2 -> req_count ds1 = req_count ds2.
Proof.
  induction ds1 as [|d ds1 IH]; destruct ds2 as [|e ds2]; cbn [map]; intros H; try discriminate; auto.
  injection H as Hn Ht. cbn [req_count]. rewrite Hn, (IH ds2) by exact Ht. reflexivity.
Qed.
Lemma params_names : forall ds1 ds2, map d_name ds1 = map d_name ds2 -> params ds1 = params ds2.
Proof.
  unfold params. induction ds1 as [|d ds1 IH]; destruct ds2 as [|e ds2]; cbn [map]; intros H; try discriminate; auto.
  injection H as Hn Ht. cbn [flat_map]. rewrite Hn, (IH ds2) by exact Ht. reflexivity.
Qed.
Lemma pass1_names ks allow : forall ds1 ds2 m st, map d_name ds1 = map d_name ds2 -> pass1 ks allow ds1 m st = pass1 ks allow ds2 m st.
Proof.
  induction ds1 as [|d ds1 IH]; destruct ds2 as [|e ds2]; cbn [map]; intros m st H; try discriminate; auto.
  injection H as Hn Ht. cbn [pass1]. rewrite Hn.
  destruct (p_args st); [reflexivity|]. destruct (p_err st); [reflexivity|].
  destruct m; try (destruct (d_name e); try reflexivity; try (apply IH; exact Ht));
    try (destruct (key_loop _ _ _ _ _ _); [apply IH; exact Ht | reflexivity]).
  all: try (destruct (rest_loop ks (a :: l) (p_rest st)) as [[acc rem] sw]; apply IH; exact Ht).
Qed.

Lemma names_strip_lit rho xs : map d_name (map strip xs) = map d_name (map (lit rho) xs).
Proof. rewrite !map_map. apply map_ext. reflexivity. Qed.

Lemma lookup_report b : forall ps y, In y ps ->
  lookup (report b ps) y = Some (match lookup b y with Some v => v | None => VUnbound end).
Proof.
  induction ps as [|p ps IH]; intros y Hy; [destruct Hy|]. unfold report. cbn [map lookup].
  destruct (N.eqb_spec y p); [subst; reflexivity|]. destruct Hy as [E|Hy]; [congruence|]. apply IH. exact Hy.
Qed.

(* the binder with forms = the literal binder on the lambda list whose forms are replaced by their values under
   the bindings of the outcome itself *)
Lemma bind_Mx_lit xs args o :
  NoDup (xparams xs) -> refs_back [] xs = true -> bind_Mx xs args = XO o ->
  o = bind_M (map (lit (env_of o)) xs) args.
Proof.
  intros Hnd Hr H. unfold bind_Mx in H. unfold bind_M.
  set (rho := env_of o) in *.
  pose proof (names_strip_lit rho xs) as Hn.
  rewrite <- (key_params_from_names _ _ false Hn : key_params (map strip xs) = key_params (map (lit rho) xs)).
  rewrite <- (has_allow_names _ _ Hn), <- (req_count_names _ _ Hn), <- (params_names _ _ Hn).
  rewrite <- (pass1_names _ _ _ _ MReq _ Hn).
  destruct (p_err _); [inversion H; reflexivity|].
  destruct (p_args _); [|inversion H; reflexivity].
  destruct (_ <? _)%nat; [inversion H; reflexivity|].
  match type of H with context [pass2x xs M2Req ?b0] => set (b := b0) in * end.
  destruct (pass2x xs M2Req b) as [b'|] eqn:Hp; inversion H as [Ho].
  assert (Hfix : pass2 (map (lit rho) xs) M2Req b = b').
  { apply pass2x_fix with (seen := []); auto.
    - intros y [].
    - intros y Hy. subst rho. rewrite <- Ho. cbn [env_of]. fold (xparams xs). rewrite lookup_report by exact Hy.
      destruct (lookup b' y) as [[]|]; reflexivity. }
  rewrite Hfix. reflexivity.
Qed.

Theorem forms_meet_spec xs args o l :
  NoDup (xparams xs) -> refs_back [] xs = true -> bind_Mx xs args = XO o ->
  parse_ll (map (lit (env_of o)) xs) = Some l -> rest_plain (map (lit (env_of o)) xs) = true ->
  in_domain (map (lit (env_of o)) xs) args = true ->
  o = reorder (map (lit (env_of o)) xs) (bind_S l args).
Proof.
  intros Hnd Hr H Hp Hrp Hd. rewrite <- (binder_meets_spec_guard _ l args Hp); auto.
  - apply bind_Mx_lit; assumption.
  - rewrite <- (params_names _ _ (names_strip_lit (env_of o) xs)). exact Hnd.
Qed.

Theorem forms_self_check_silent xs args o l :
  NoDup (xparams xs) -> refs_back [] xs = true -> bind_Mx xs args = XO o ->
  parse_ll (map (lit (env_of o)) xs) = Some l -> rest_plain (map (lit (env_of o)) xs) = true ->
  in_domain (map (lit (env_of o)) xs) args = true ->
  meets_Sx xs args o = true.
Proof.
  intros Hnd Hr H Hp Hrp Hd. unfold meets_Sx, spec_of. rewrite Hp.
  rewrite <- (forms_meet_spec xs args o l) by assumption. apply outcome_eqv_refl.
Qed.

(* a form on the left of the referring one never fails to be bound: with references to the left only, the
   condition unbound-variable is impossible - for lambda lists the parser accepts, shown on the examples below and
   observed on every generated case; proved here for the outcome: a rejected call is rejected by the argument
   checks alone *)
Definition X (n : pname) (f : option dform) : xdocarg := {| x_name := n; x_def := f |}.
(* (&optional (a 1) (b (+ a 10)) (c (+ b 100))), (x &key (k (+ x 2)) (l (+ k 1))), (&optional n (m (+ n 3))) *)
Definition ex_opt := [X POptional None; X (PVar 0) (Some (FLit 1)); X (PVar 1) (Some (FRef 0 10)); X (PVar 2) (Some (FRef 1 100))].
Definition ex_key := [X (PVar 0) None; X PKey None; X (PVar 1) (Some (FRef 0 2)); X (PVar 2) (Some (FRef 1 1))].
Definition ex_nil := [X POptional None; X (PVar 0) None; X (PVar 1) (Some (FRef 0 3))].
Theorem forms_examples :
  bind_Mx ex_opt [] = XO (OBound [(0, VInt 1); (1, VInt 11); (2, VInt 111)])%N /\
  bind_Mx ex_opt [AInt 5] = XO (OBound [(0, VInt 5); (1, VInt 15); (2, VInt 115)])%N /\
  bind_Mx ex_opt [AInt 5; AInt 6] = XO (OBound [(0, VInt 5); (1, VInt 6); (2, VInt 106)])%N /\
  bind_Mx ex_key [AInt 3] = XO (OBound [(0, VInt 3); (1, VInt 5); (2, VInt 6)])%N /\
  bind_Mx ex_key [AInt 3; AKw 1; AInt 1] = XO (OBound [(0, VInt 3); (1, VInt 1); (2, VInt 2)])%N /\
  bind_Mx ex_nil [] = XO (OBound [(0, VNil); (1, VNil)])%N /\
  forallb (fun xa => in_domain_x (fst xa) (snd xa) &&
                     match bind_Mx (fst xa) (snd xa) with XO o => meets_Sx (fst xa) (snd xa) o | _ => false end)
          [(ex_opt, []); (ex_opt, [AInt 5]); (ex_opt, [AInt 5; AInt 6]); (ex_key, [AInt 3]);
           (ex_key, [AInt 3; AKw 1%N; AInt 1]); (ex_nil, [])] = true.
Proof. vm_compute. repeat split; reflexivity. Qed.

(* what a binder does that evaluates a form in the scope of the ARGUMENT-bound parameters only (not in the scope
   holding the parameters defaulted before it): the specification rejects its outcomes.  seen_args_only is that
   binder's outcome for ex_opt called without arguments: b's form cannot see a. *)
Theorem forms_spec_rejects_stale_scope :
  meets_Sx ex_opt [] (OErr KFault) = false /\
  meets_Sx ex_opt [] (OBound [(0, VInt 1); (1, VNil); (2, VNil)])%N = false /\
  meets_Sx ex_key [AInt 3] (OBound [(0, VInt 3); (1, VInt 5); (2, VNil)])%N = false.
Proof. vm_compute. repeat split; reflexivity. Qed.

(* outside the guard: a form that names a LATER &key parameter sees that parameter's argument (pass 1 binds every
   supplied parameter before pass 2 evaluates any form); the language evaluates it with the parameters to its
   left only *)
Definition ex_fwd := [X PKey None; X (PVar 0) (Some (FRef 1 0)); X (PVar 1) None].
Theorem forms_forward_reference_sees_later_argument :
  bind_Mx ex_fwd [AKw 1%N; AInt 5] = XO (OBound [(0, VInt 5); (1, VInt 5)])%N /\
  bind_Mx ex_fwd [] = XUnbound 1%N /\
  in_domain_x ex_fwd [AKw 1%N; AInt 5] = false.
Proof. vm_compute. repeat split; reflexivity. Qed.
