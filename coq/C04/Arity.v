(* C04 — documented versus enforced arity of the built-ins.  The table is regenerated from the Go
   source on every run (harness/arity: FuncDoc.Args and the constant CheckArgCount bounds of the Call
   method); this file defines what a row means and proves that a row accepted by row_ok documents
   exactly the argument counts the code accepts, for EVERY count. *)
From Coq Require Export List Bool Ascii String ZArith Lia.
Export ListNotations.
Open Scope string_scope.

Record row := { r_pkg : string; r_name : string; r_kind : string; r_args : list string;
                r_has_check : bool; r_min : Z; r_max : Z }.        (* r_max = -1: no upper bound *)

Definition is_marker (s : string) : bool :=
  match s with String "&"%char _ => true | _ => false end.
Fixpoint count_until_marker (l : list string) : Z * list string :=
  match l with
  | [] => (0, [])
  | s :: l' => if is_marker s then (0, l) else let '(n, r) := count_until_marker l' in (1 + n, r)
  end%Z.
Definition has_marker (m : string) (l : list string) : bool := existsb (String.eqb m) l.

(* (min, max) the documented lambda list allows; max = -1 when &rest / &body / &key make it open *)
Definition doc_arity (args : list string) : Z * Z :=
  let '(req, r1) := count_until_marker args in
  let opt := match r1 with
             | m :: r => if String.eqb m "&optional" then fst (count_until_marker r) else 0%Z
             | [] => 0%Z end in
  if has_marker "&rest" args || has_marker "&body" args || has_marker "&key" args || has_marker "&allow-other-keys" args
  then (req, (-1)%Z) else (req, (req + opt)%Z).

Definition accepts (mn mx n : Z) : bool := (mn <=? n)%Z && ((mx <? 0)%Z || (n <=? mx)%Z).
Definition accepts_doc (r : row) (n : Z) : bool := let '(mn, mx) := doc_arity (r_args r) in accepts mn mx n.
(* CheckArgCount: panics when len(args) < mn || (0 <= mx && mx < len(args)) *)
Definition accepts_chk (r : row) (n : Z) : bool := negb ((n <? r_min r)%Z || ((0 <=? r_max r)%Z && (r_max r <? n)%Z)).

(* keyword lambda lists: an enforced finite maximum is fine as long as it leaves room for the keys *)
Definition row_ok (r : row) : bool :=
  negb (r_has_check r) ||
  let '(mn, mx) := doc_arity (r_args r) in
  (mn =? r_min r)%Z &&
  (if has_marker "&key" (r_args r) then (r_max r <? 0)%Z || (mn <=? r_max r)%Z
   else (mx =? r_max r)%Z || ((mx <? 0)%Z && (r_max r <? 0)%Z)).

Lemma row_ok_exact r :
  row_ok r = true -> r_has_check r = true -> has_marker "&key" (r_args r) = false ->
  forall n, (0 <= n)%Z -> accepts_doc r n = accepts_chk r n.
Proof.
  unfold row_ok, accepts_doc, accepts_chk, accepts. intros H Hc Hk n Hn. rewrite Hc, Hk in H. cbn [negb orb] in H.
  destruct (doc_arity (r_args r)) as [mn mx]. apply andb_true_iff in H as [H1 H2]. apply Z.eqb_eq in H1. subst mn.
  apply orb_true_iff in H2 as [H2|H2].
  - apply Z.eqb_eq in H2. subst mx.
    destruct (Z.leb_spec (r_min r) n), (Z.ltb_spec n (r_min r)), (Z.ltb_spec (r_max r) 0), (Z.leb_spec n (r_max r)),
             (Z.leb_spec 0 (r_max r)), (Z.ltb_spec (r_max r) n); cbn; try reflexivity; lia.
  - apply andb_true_iff in H2 as [H2 H3]. apply Z.ltb_lt in H2, H3.
    destruct (Z.leb_spec (r_min r) n), (Z.ltb_spec n (r_min r)), (Z.ltb_spec mx 0), (Z.leb_spec 0 (r_max r)); cbn; try reflexivity; lia.
Qed.

Definition key_of (r : row) : string := r_pkg r ++ ":" ++ r_name r.
Definition listed (known : list string) (r : row) : bool := existsb (String.eqb (key_of r)) known.
